(* C43 — Cook is injective (equal inserted texts read back to equal strings,
   C03's quote_parses_back), and with it: the whole oracle holds of the model's
   result and of the observations the model predicts, for all inputs. *)
From verif Require Import lib.Base lib.ListX lib.Utf8 lib.Utf8_proofs model.C03 proofs.C03_proofs
  model.C43 proofs.C43_proofs proofs.C43_oracle.
From Coq Require Import Permutation Sorted.
Open Scope N_scope.

Lemma subset_bytes_complete a b : (forall x, In x a -> In x b) -> subset_bytes a b = true.
Proof.
  intros H. unfold subset_bytes. apply forallb_forall. intros x Hx.
  apply mem_bytes_spec. exact (H x Hx).
Qed.

Lemma nodup_bytes_complete l : NoDup l -> nodup_bytes l = true.
Proof.
  induction 1 as [|x l Hx _ IH]; cbn [nodup_bytes]; [reflexivity|].
  rewrite IH, andb_true_r. apply negb_true_iff.
  destruct (mem_bytes x l) eqn:M; [|reflexivity]. apply mem_bytes_spec in M. contradiction.
Qed.

Lemma ptype_eqb_refl q : ptype_eqb q q = true.
Proof. destruct q; reflexivity. Qed.

(* names without a slash: the directory slash cannot make two names collide *)
Lemma name_slash_inj (n1 n2 : bytes) (d1 d2 : bool) :
  ~ In cSLASH n1 -> ~ In cSLASH n2 ->
  n1 ++ (if d1 then [cSLASH] else []) = n2 ++ (if d2 then [cSLASH] else []) -> n1 = n2.
Proof.
  intros H1 H2 E. destruct d1, d2.
  - apply app_inv_tail in E. exact E.
  - rewrite app_nil_r in E. exfalso. apply H2. rewrite <- E. apply in_or_app. right. left. reflexivity.
  - rewrite app_nil_r in E. exfalso. apply H1. rewrite E. apply in_or_app. right. left. reflexivity.
  - rewrite !app_nil_r in E. exact E.
Qed.

Lemma expected_files_nodup es v :
  Forall (fun e : entry => ~ In cSLASH (fst e)) es -> NoDup (map fst es) ->
  NoDup (expected_files es v).
Proof.
  unfold expected_files. destruct (split_path v) as [dir fp].
  induction es as [|[n d] es IH]; intros Hs Hn; cbn [flat_map map fst snd]; [constructor|].
  inversion Hs as [|? ? Hs1 Hs2]; subst. inversion Hn as [|? ? Hn1 Hn2]; subst. cbn [fst] in *.
  destruct (has_prefix n fp && Bool.eqb (dotfile fp) (dotfile n)); cbn [app]; [|apply IH; assumption].
  constructor; [|apply IH; assumption].
  intros C. apply in_flat_map in C as ([n2 d2] & Hin & Hx). cbn [fst snd] in Hx.
  destruct (has_prefix n2 fp && Bool.eqb (dotfile fp) (dotfile n2)); [|destruct Hx].
  destruct Hx as [E|[]]. apply app_inv_head in E.
  assert (Hs3 : ~ In cSLASH n2) by (exact (proj1 (Forall_forall _ _) Hs2 (n2, d2) Hin)).
  apply name_slash_inj in E; try assumption. subst n2.
  apply Hn1. apply in_map_iff. exists (n, d2). split; [reflexivity|exact Hin].
Qed.

Section Full.
Variable pr : N -> bool.
Notation term_ok := (term_ok pr).

(* candidates that quote, are byte strings, and carry no suffix or a space
   (what generateFileNames produces; what a sane ArgGenerator produces) *)
Definition good_item (r : rawitem) : Prop :=
  quotes r = true /\ is_bytes (item_str r) /\ (item_suffix r = [] \/ item_suffix r = [cSPACE]).

Lemma term_ok_nil ctx : term_ok ctx [].
Proof. unfold C03_proofs.term_ok, peek. exact I. Qed.

Lemma good_term r ctx t : good_item r -> term_ok ctx t -> term_ok ctx (item_suffix r ++ t).
Proof. intros (_ & _ & [E|E]) H; rewrite E; [exact H|apply space_term]. Qed.

(* ---- injectivity of Cook ---- *)
Lemma cook_inj q r1 r2 : good_item r1 -> good_item r2 ->
  to_insert (cook pr q r1) = to_insert (cook pr q r2) -> item_str r1 = item_str r2.
Proof.
  intros G1 G2 E.
  pose proof (cooked_reads_back pr q r1 CNormal [] (proj1 (proj2 G1)) (proj1 G1)
                (good_term _ _ _ G1 (term_ok_nil _))) as R1.
  pose proof (cooked_reads_back pr q r2 CNormal [] (proj1 (proj2 G2)) (proj1 G2)
                (good_term _ _ _ G2 (term_ok_nil _))) as R2.
  rewrite E in R1. rewrite R1 in R2. inversion R2. reflexivity.
Qed.

(* QuoteAs itself: distinct byte strings give distinct texts, for every style *)
Lemma quote_as_inj q s1 s2 : is_bytes s1 -> is_bytes s2 ->
  fst (QuoteAs pr s1 q) = fst (QuoteAs pr s2 q) -> s1 = s2.
Proof.
  intros B1 B2 E.
  apply (cook_inj q (RPlain s1) (RPlain s2)).
  - repeat split; [exact B1|left; reflexivity].
  - repeat split; [exact B2|left; reflexivity].
  - exact E.
Qed.

Lemma cook_nodup q l : Forall good_item l -> NoDup (map item_str l) ->
  NoDup (map (fun r => to_insert (cook pr q r)) l).
Proof.
  induction l as [|x l IH]; intros Hg Hn; cbn [map]; [constructor|].
  inversion Hg as [|? ? Hg1 Hg2]; subst. inversion Hn as [|? ? Hn1 Hn2]; subst.
  constructor; [|apply IH; assumption].
  intros C. apply in_map_iff in C as (y & Ey & Hy). apply Hn1.
  assert (Gy : good_item y) by (exact (proj1 (Forall_forall _ _) Hg2 y Hy)).
  rewrite (cook_inj q x y Hg1 Gy (eq_sym Ey)). apply in_map. exact Hy.
Qed.

Lemma dedup_from_nodup l : forall prev,
  NoDup (map to_insert l) -> NoDup (map to_insert (dedup_from prev l)).
Proof.
  induction l as [|x l IH]; intros prev H; cbn [dedup_from]; [constructor|].
  cbn [map] in H. inversion H as [|? ? H1 H2]; subst.
  destruct (option_eqb _ _ _); cbn [app map]; [apply IH; exact H2|].
  constructor; [|apply IH; exact H2].
  intros C. apply in_map_iff in C as (y & Ey & Hy). apply dedup_from_incl in Hy.
  apply H1. rewrite <- Ey. apply in_map. exact Hy.
Qed.

Lemma filter_prefix_good seed raw : Forall good_item raw -> Forall good_item (filter_prefix seed raw).
Proof.
  intros H. apply Forall_forall. intros x Hx. unfold filter_prefix in Hx.
  apply filter_In in Hx as [Hx _]. exact (proj1 (Forall_forall _ _) H x Hx).
Qed.

Lemma pipeline_parts seed q raw :
  let out := pipeline pr isort_items seed q raw in
  (forall it, In it out -> exists r, In r raw /\ has_prefix (item_str r) seed = true /\ it = cook pr q r)
  /\ (forall r, In r raw -> has_prefix (item_str r) seed = true ->
        exists it, In it out /\ to_insert it = to_insert (cook pr q r)).
Proof.
  pose proof (pipeline_spec pr isort_items seed q raw (isort_contract pr)) as P. cbv zeta in P.
  destruct P as (P1 & P2 & _). split; assumption.
Qed.

(* the offered values are exactly the candidates with the seed as prefix *)
Lemma pipeline_shows seed q raw : Forall good_item raw ->
  forall x, In x (map to_show (pipeline pr isort_items seed q raw))
            <-> In x (map item_str (filter_prefix seed raw)).
Proof.
  intros Hg x. destruct (pipeline_parts seed q raw) as [P1 P2]. split.
  - intros H. apply in_map_iff in H as (it & <- & Hit).
    destruct (P1 it Hit) as (r & Hr & Hp & ->). rewrite cook_show.
    apply in_map. apply filter_In. split; assumption.
  - intros H. apply in_map_iff in H as (r & <- & Hr). apply filter_In in Hr as [Hr Hp].
    destruct (P2 r Hr Hp) as (it & Hit & Eit).
    destruct (P1 it Hit) as (r' & Hr' & _ & ->).
    apply in_map_iff. exists (cook pr q r'). split; [|exact Hit]. rewrite cook_show.
    apply (cook_inj q r' r); [exact (proj1 (Forall_forall _ _) Hg r' Hr')|exact (proj1 (Forall_forall _ _) Hg r Hr)|exact Eit].
Qed.

(* each candidate is offered once *)
Lemma pipeline_nodup seed q raw : Forall good_item raw ->
  NoDup (map item_str (filter_prefix seed raw)) ->
  NoDup (map to_insert (pipeline pr isort_items seed q raw)).
Proof.
  intros Hg Hn. unfold pipeline, dedup. apply dedup_from_nodup. rewrite map_map.
  destruct (isort_contract pr (filter_prefix seed raw)) as [Hp _].
  apply (Permutation_NoDup (Permutation_sym (Permutation_map _ Hp))).
  apply cook_nodup; [apply filter_prefix_good; exact Hg|exact Hn].
Qed.

Lemma pipeline_items_good seed q raw : Forall good_item raw ->
  Forall (fun it => exists r, good_item r /\ it = cook pr q r) (pipeline pr isort_items seed q raw).
Proof.
  intros Hg. apply Forall_forall. intros it Hit.
  destruct (pipeline_parts seed q raw) as [P1 _]. destruct (P1 it Hit) as (r & Hr & _ & ->).
  exists r. split; [exact (proj1 (Forall_forall _ _) Hg r Hr)|reflexivity].
Qed.

(* ---- the predicted observations of all items ---- *)
Lemma items_predicted q (buf : bytes) from to l :
  (from <= length buf)%nat -> term_ok CNormal (skipn to buf) ->
  Forall (fun it => exists r, good_item r /\ it = cook pr q r) l ->
  exists obs, Forall2 (fun it o => predicted_obs pr buf from to it = Some o) l obs
              /\ Forall2 (item_spec pr q) l obs.
Proof.
  intros Hf Ht. induction 1 as [|it l (r & G & ->) _ (obs & IH1 & IH2)].
  - exists []. split; constructor.
  - destruct (model_item_satisfies pr q r buf from to Hf (proj1 (proj2 G)) (proj1 G)
                (good_term _ _ _ G Ht)) as (o & Ho & So).
    exists (o :: obs). split; constructor; assumption.
Qed.

Lemma items_ok_complete q l obs : Forall2 (item_spec pr q) l obs -> items_ok pr q l obs = true.
Proof.
  induction 1 as [|it o l obs [E S] _ IH]; cbn [items_ok]; [reflexivity|].
  rewrite IH, andb_true_r, E. cbn [eobs_eqb]. rewrite bytes_eqb_refl. cbn [andb].
  unfold style_ok. destruct (representable pr q (to_show it)) eqn:R; [|reflexivity].
  rewrite (S eq_refl). cbn [option_eqb]. apply ptype_eqb_refl.
Qed.

(* ---- file names ---- *)
Definition listing_wf (es : list entry) : Prop :=
  Forall (fun e : entry => is_bytes (fst e) /\ ~ In cSLASH (fst e)) es /\ NoDup (map fst es).

Lemma gen_files_good es seed : is_bytes seed -> Forall (fun e : entry => is_bytes (fst e)) es ->
  Forall good_item (gen_file_names (Some es) seed).
Proof.
  intros Hs He. unfold gen_file_names. destruct (split_path seed) as [dir fp] eqn:Sp.
  destruct (split_path_spec _ _ _ Sp) as [Es _]. unfold is_bytes in Hs. rewrite Es in Hs.
  apply Forall_app in Hs as [Hd _].
  apply Forall_forall. intros x Hx. apply in_flat_map in Hx as (e & Hin & Hx).
  destruct (Bool.eqb _ _); [|destruct Hx]. destruct Hx as [<-|[]].
  pose proof (proj1 (Forall_forall _ _) He e Hin) as Hn. unfold is_bytes in Hn.
  unfold good_item, file_item. cbn [quotes item_str item_suffix]. split; [reflexivity|]. split.
  - unfold is_bytes. rewrite !Forall_app. repeat split; try assumption.
    destruct (snd e); [repeat constructor|constructor].
  - destruct (snd e); [left|right]; reflexivity.
Qed.

Definition src_wf (src : candsrc) : Prop :=
  match src with
  | GFiles _ (Some es) => listing_wf es
  | GFixed its => Forall good_item its
  | _ => True
  end.

(* ---- what complete_model returns ---- *)
Lemma complete_model_inv homes t src r seed q :
  complete_model pr homes t src = MRes r seed q -> r_name r <> NVariable ->
  exists raw ir, candidates src ir seed = Some raw
    /\ r_items r = pipeline pr isort_items seed q raw
    /\ (r_name r = NArgument \/ r_name r = NRedir)
    /\ ((r_from r = t_leaf_to t /\ r_to r = t_leaf_to t)
        \/ (r_from r = t_cfrom t /\ r_to r = t_cto t)).
Proof.
  intros H Hv. unfold complete_model in H.
  destruct (dispatch _ _); try discriminate;
    try (destruct src; try discriminate;
         destruct (split_sigil _) as [sg qn]; destruct (split_ns _) as [ns sd];
         destruct (_ || _); try discriminate; inversion H; subst;
         exfalso; apply Hv; reflexivity);
    try (destruct (partial_compound _ _ _); try discriminate);
    destruct (_ && special_head _); try discriminate;
    destruct (candidates _ _ _) as [raw|] eqn:C; try discriminate;
    inversion H; subst; exists raw; eexists; (split; [exact C|]);
    cbn [r_items r_name r_from r_to]; repeat split; auto.
Qed.

Lemma candidates_good src ir seed raw : is_bytes seed -> src_wf src ->
  candidates src ir seed = Some raw -> Forall good_item raw.
Proof.
  intros Hs Hw C. destruct src as [dir [es|]|its|names|]; cbn [candidates] in C.
  - destruct (bytes_eqb _ _); [|discriminate]. inversion C; subst.
    apply gen_files_good; [exact Hs|]. destruct Hw as [Hw _].
    eapply Forall_impl; [|exact Hw]. intros e [B _]. exact B.
  - destruct (bytes_eqb _ _); [|discriminate]. inversion C; subst.
    unfold gen_file_names. destruct (split_path seed). constructor.
  - destruct ir; [discriminate|]. inversion C; subst. exact Hw.
  - discriminate.
  - discriminate.
Qed.

Lemma offered_ok_model src ir seed q raw : is_bytes seed -> src_wf src ->
  candidates src ir seed = Some raw ->
  offered_ok src (mkTyped q seed) (pipeline pr isort_items seed q raw) = true.
Proof.
  intros Hs Hw C. pose proof (candidates_good _ _ _ _ Hs Hw C) as Hg.
  unfold offered_ok. cbn [ty_value].
  destruct src as [dir [es|]|its|names|]; cbn [candidates] in C.
  - destruct (bytes_eqb _ _); [|discriminate]. inversion C; subst. clear C.
    destruct Hw as [Hw1 Hw2].
    pose proof (pipeline_shows seed q _ Hg) as Sh. rewrite filenames_exact in Sh.
    rewrite !subset_bytes_complete by (intros x; apply Sh). cbn [andb].
    apply nodup_bytes_complete. apply pipeline_nodup; [exact Hg|].
    rewrite filenames_exact. apply expected_files_nodup; [|exact Hw2].
    eapply Forall_impl; [|exact Hw1]. intros e [_ B]. exact B.
  - destruct (bytes_eqb _ _); [|discriminate]. inversion C; subst.
    unfold gen_file_names. destruct (split_path seed). reflexivity.
  - destruct ir; [discriminate|]. inversion C; subst. clear C.
    pose proof (pipeline_shows seed q _ Hg) as Sh. unfold expected_fixed.
    rewrite !subset_bytes_complete by (intros x; apply Sh). reflexivity.
  - discriminate.
  - discriminate.
Qed.

(* ---- main theorem: the model satisfies the whole oracle ---- *)
Theorem model_satisfies_oracle homes t src (buf : bytes) r seed q :
  complete_model pr homes t src = MRes r seed q -> r_name r <> NVariable ->
  tree_wf buf t ->
  on_boundary buf (t_leaf_to t) = true -> on_boundary buf (t_cfrom t) = true ->
  on_boundary buf (t_cto t) = true ->
  is_bytes seed -> src_wf src ->
  term_ok CNormal (skipn (r_to r) buf) ->
  exists obs,
    Forall2 (fun it o => predicted_obs pr buf (r_from r) (r_to r) it = Some o) (r_items r) obs
    /\ check_C43 pr buf (r_name r) src (mkTyped q seed) r obs = true.
Proof.
  intros H Hv (W1 & W2 & W3) B1 B2 B3 Hs Hw Ht.
  destruct (complete_model_inv _ _ _ _ _ _ H Hv) as (raw & ir & C & Ei & En & Er).
  pose proof (candidates_good _ _ _ _ Hs Hw C) as Hg.
  assert (Hf : (r_from r <= length buf)%nat) by (destruct Er as [[-> _]|[-> _]]; lia).
  destruct (items_predicted q buf (r_from r) (r_to r) (r_items r) Hf Ht) as (obs & O1 & O2).
  { rewrite Ei. apply pipeline_items_good. exact Hg. }
  exists obs. split; [exact O1|].
  unfold check_C43. apply andb_true_iff. split.
  - unfold range_ok. destruct Er as [[-> ->]|[-> ->]]; rewrite ?B1, ?B2, ?B3, ?andb_true_r;
      apply andb_true_iff; split; apply Nat.leb_le; lia.
  - assert (A : items_ok pr (ty_style (mkTyped q seed)) (r_items r) obs
                && offered_ok src (mkTyped q seed) (r_items r) = true).
    { cbn [ty_style]. rewrite (items_ok_complete _ _ _ O2). cbn [andb]. rewrite Ei.
      apply (offered_ok_model src ir seed q raw Hs Hw C). }
    destruct En as [-> | ->]; exact A.
Qed.

End Full.
