(* C24 — proofs: big-endian keys, the bucket/cursor model refines the sequential
   specification for every operation history, sequence numbers, listings. *)
From verif Require Import lib.Base model.C24_F64 model.C24_StoreSpec model.C24.
From Coq Require Import Floats.SpecFloat Sorting.Sorted Sorting.Permutation.
Open Scope N_scope.

(* ------------------------------------------------------------------ *)
(* generic list facts *)
Lemma filter_all_true {A} (f : A -> bool) l : (forall x, In x l -> f x = true) -> filter f l = l.
Proof. induction l as [|a l IH]; intros H; simpl; [reflexivity|].
  rewrite (H a (or_introl eq_refl)). f_equal. apply IH. intros; apply H; right; assumption. Qed.

Lemma filter_all_false {A} (f : A -> bool) l : (forall x, In x l -> f x = false) -> filter f l = [].
Proof. induction l as [|a l IH]; intros H; simpl; [reflexivity|].
  rewrite (H a (or_introl eq_refl)). apply IH. intros; apply H; right; assumption. Qed.

Lemma filter_nil_inv {A} (f : A -> bool) l : filter f l = [] -> forall x, In x l -> f x = false.
Proof. induction l as [|a l IH]; simpl; intros H x Hx; [contradiction|].
  destruct (f a) eqn:E; [discriminate|]. destruct Hx as [->|Hx]; [assumption|apply IH; assumption]. Qed.

Lemma filter_filter {A} (f g : A -> bool) l :
  filter f (filter g l) = filter (fun x => g x && f x) l.
Proof. induction l as [|a l IH]; simpl; [reflexivity|].
  destruct (g a); simpl; [destruct (f a); simpl; rewrite IH; reflexivity|apply IH]. Qed.

Lemma find_app {A} (f : A -> bool) l1 l2 :
  find f (l1 ++ l2) = match find f l1 with Some x => Some x | None => find f l2 end.
Proof. induction l1 as [|a l IH]; simpl; [reflexivity|]. destruct (f a); [reflexivity|apply IH]. Qed.

(* ------------------------------------------------------------------ *)
(* big-endian encoding *)
Lemma pow256_succ k : 256 ^ N.of_nat (S k) = 256 ^ N.of_nat k * 256.
Proof. rewrite Nat2N.inj_succ, N.pow_succ_r'. apply N.mul_comm. Qed.

Lemma pow256_nz k : 256 ^ N.of_nat k <> 0.
Proof. apply N.pow_nonzero. discriminate. Qed.

Lemma be_bytes_ltb k : forall n m,
  bytes_ltb (be_bytes k n) (be_bytes k m) = (n mod 256 ^ N.of_nat k <? m mod 256 ^ N.of_nat k).
Proof.
  induction k as [|k IH]; intros n m.
  - cbn. rewrite !N.mod_1_r. reflexivity.
  - cbn [be_bytes bytes_ltb]. rewrite IH, pow256_succ.
    pose proof (pow256_nz k) as HP. set (P := 256 ^ N.of_nat k) in *.
    rewrite !(N.mod_mul_r _ P 256) by (assumption || discriminate).
    pose proof (N.mod_lt n P HP) as Hn. pose proof (N.mod_lt m P HP) as Hm.
    set (a := (n / P) mod 256). set (b := (m / P) mod 256).
    set (r := n mod P) in *. set (r' := m mod P) in *.
    destruct (a <? b) eqn:E1.
    + apply N.ltb_lt in E1. symmetry. apply N.ltb_lt. nia.
    + apply N.ltb_ge in E1. destruct (a =? b) eqn:E2.
      * apply N.eqb_eq in E2. rewrite E2.
        destruct (N.ltb_spec r r') as [H|H]; symmetry; [apply N.ltb_lt|apply N.ltb_ge]; lia.
      * apply N.eqb_neq in E2. symmetry. apply N.ltb_ge. nia.
Qed.

Lemma fold_be k : forall n acc,
  fold_left (fun a x => a * 256 + x) (be_bytes k n) acc
  = acc * 256 ^ N.of_nat k + n mod 256 ^ N.of_nat k.
Proof.
  induction k as [|k IH]; intros n acc.
  - cbn. rewrite N.mod_1_r. lia.
  - cbn [be_bytes fold_left]. rewrite IH, pow256_succ.
    pose proof (pow256_nz k) as HP. set (P := 256 ^ N.of_nat k) in *.
    rewrite (N.mod_mul_r n P 256) by (assumption || discriminate). ring.
Qed.

Lemma pow256_8 : 256 ^ N.of_nat 8 = two64.
Proof. reflexivity. Qed.

Lemma unmarshal_marshal n : n < two64 -> unmarshalSeq (marshalSeq n) = n.
Proof. intros H. unfold unmarshalSeq, marshalSeq. rewrite fold_be, pow256_8, N.mod_small; lia. Qed.

Lemma marshal_ltb n m : n < two64 -> m < two64 ->
  bytes_ltb (marshalSeq n) (marshalSeq m) = (n <? m).
Proof. intros Hn Hm. unfold marshalSeq. rewrite be_bytes_ltb, pow256_8, !N.mod_small; auto. Qed.

Lemma marshal_eqb n m : n < two64 -> m < two64 ->
  bytes_eqb (marshalSeq n) (marshalSeq m) = (n =? m).
Proof.
  intros Hn Hm. destruct (N.eqb_spec n m) as [->|Hne].
  - apply bytes_eqb_refl.
  - destruct (bytes_eqb (marshalSeq n) (marshalSeq m)) eqn:E; [|reflexivity].
    apply bytes_eqb_spec in E. exfalso. apply Hne.
    rewrite <- (unmarshal_marshal n Hn), <- (unmarshal_marshal m Hm), E. reflexivity.
Qed.

(* ------------------------------------------------------------------ *)
(* bytes_ltb is a strict total order *)
Lemma bytes_ltb_irrefl a : bytes_ltb a a = false.
Proof. induction a as [|x a IH]; cbn; [reflexivity|]. rewrite N.ltb_irrefl, N.eqb_refl. exact IH. Qed.

Lemma bytes_ltb_trans a : forall b c,
  bytes_ltb a b = true -> bytes_ltb b c = true -> bytes_ltb a c = true.
Proof.
  induction a as [|x a IH]; intros [|y b] [|z c] H1 H2; cbn in *; try discriminate; try reflexivity.
  destruct (x <? y) eqn:Exy.
  - apply N.ltb_lt in Exy. destruct (y <? z) eqn:Eyz.
    + apply N.ltb_lt in Eyz. assert (E : x <? z = true) by (apply N.ltb_lt; lia). rewrite E. reflexivity.
    + destruct (y =? z) eqn:Eyz'; [|discriminate]. apply N.eqb_eq in Eyz'. subst z.
      assert (E : x <? y = true) by (apply N.ltb_lt; lia). rewrite E. reflexivity.
  - destruct (x =? y) eqn:Exy'; [|discriminate]. apply N.eqb_eq in Exy'. subst y.
    destruct (x <? z) eqn:Exz; [reflexivity|].
    destruct (x =? z) eqn:Exz'; [|discriminate]. eapply IH; eassumption.
Qed.

Lemma bytes_ltb_total a : forall b,
  bytes_ltb a b = false -> bytes_eqb a b = false -> bytes_ltb b a = true.
Proof.
  induction a as [|x a IH]; intros [|y b] H1 H2; cbn in *; try discriminate; try reflexivity.
  destruct (x <? y) eqn:Exy; [discriminate|]. apply N.ltb_ge in Exy.
  destruct (x =? y) eqn:Exy'.
  - apply N.eqb_eq in Exy'. subst y. rewrite N.ltb_irrefl, N.eqb_refl. apply IH; assumption.
  - apply N.eqb_neq in Exy'. assert (E : y <? x = true) by (apply N.ltb_lt; lia). rewrite E. reflexivity.
Qed.

Lemma bytes_ltb_neq a b : bytes_ltb a b = true -> bytes_eqb b a = false.
Proof. intros H. destruct (bytes_eqb b a) eqn:E; [|reflexivity].
  apply bytes_eqb_spec in E. subst. rewrite bytes_ltb_irrefl in H. discriminate. Qed.

Lemma bytes_ltb_asym a b : bytes_ltb a b = true -> bytes_ltb b a = false.
Proof. intros H. destruct (bytes_ltb b a) eqn:E; [|reflexivity].
  pose proof (bytes_ltb_trans _ _ _ H E) as F. rewrite bytes_ltb_irrefl in F. discriminate. Qed.

(* ------------------------------------------------------------------ *)
(* key-sorted association lists *)
Fixpoint kasc {V} (l : list (bytes * V)) : Prop :=
  match l with
  | [] => True
  | e :: r => (forall x, In x r -> bytes_ltb (fst e) (fst x) = true) /\ kasc r
  end.

Definition mapv {A B} (h : A -> B) (m : list (bytes * A)) : list (bytes * B) :=
  map (fun e => (fst e, h (snd e))) m.

Lemma kasc_mapv {A B} (h : A -> B) m : kasc m -> kasc (mapv h m).
Proof. induction m as [|e m IH]; simpl; [trivial|]. intros [H1 H2]. split; [|apply IH; assumption].
  intros x Hx. apply in_map_iff in Hx as [y [<- Hy]]. simpl. apply H1. assumption. Qed.

Lemma kasc_filter {V} (f : bytes * V -> bool) m : kasc m -> kasc (filter f m).
Proof. induction m as [|e m IH]; simpl; [trivial|]. intros [H1 H2].
  destruct (f e); [|apply IH; assumption]. split; [|apply IH; assumption].
  intros x Hx. apply filter_In in Hx as [Hx _]. apply H1. assumption. Qed.

Lemma m_put_in {V} k (v : V) m x : In x (m_put k v m) -> x = (k, v) \/ In x m.
Proof. induction m as [|[k' v'] m IH]; simpl; [intros [<-|[]]; left; reflexivity|].
  destruct (bytes_ltb k k'); [simpl; intros [<-|H]; [left; reflexivity|right; assumption]|].
  destruct (bytes_eqb k k'); simpl.
  - intros [<-|H]; [left; reflexivity|right; right; assumption].
  - intros [<-|H]; [right; left; reflexivity|]. destruct (IH H) as [->|H']; [left; reflexivity|right; right; assumption]. Qed.

Lemma kasc_m_put {V} k (v : V) m : kasc m -> kasc (m_put k v m).
Proof.
  induction m as [|[k' v'] m IH]; simpl; [intros _; split; [intros x []|trivial]|].
  intros [H1 H2]. destruct (bytes_ltb k k') eqn:E1.
  - split; [|split; assumption]. intros x [<-|Hx]; [exact E1|].
    simpl. eapply bytes_ltb_trans; [exact E1|]. apply (H1 x Hx).
  - destruct (bytes_eqb k k') eqn:E2.
    + apply bytes_eqb_spec in E2. subst k'. split; assumption.
    + split; [|apply IH; assumption]. intros x Hx. simpl.
      apply m_put_in in Hx as [->|Hx]; [|apply (H1 x Hx)].
      simpl. apply bytes_ltb_total; assumption.
Qed.

Lemma m_get_mapv {A B} (h : A -> B) k m : m_get k (mapv h m) = option_map h (m_get k m).
Proof. induction m as [|[k' v'] m IH]; simpl; [reflexivity|]. destruct (bytes_eqb k k'); [reflexivity|apply IH]. Qed.

Lemma m_put_mapv {A B} (h : A -> B) k v m : m_put k (h v) (mapv h m) = mapv h (m_put k v m).
Proof. induction m as [|[k' v'] m IH]; simpl; [reflexivity|].
  destruct (bytes_ltb k k'); [reflexivity|]. destruct (bytes_eqb k k'); [reflexivity|].
  simpl. f_equal. apply IH. Qed.

Lemma m_del_mapv {A B} (h : A -> B) k m : m_del k (mapv h m) = mapv h (m_del k m).
Proof. unfold m_del. induction m as [|[k' v'] m IH]; simpl; [reflexivity|].
  destruct (bytes_eqb k k'); simpl; [apply IH|f_equal; apply IH]. Qed.

Lemma mapv_mapv {A B C} (g : B -> C) (h : A -> B) m : mapv g (mapv h m) = mapv (fun x => g (h x)) m.
Proof. unfold mapv. rewrite map_map. reflexivity. Qed.

Lemma m_get_put_same {V} k (v : V) m : m_get k (m_put k v m) = Some v.
Proof. induction m as [|[k' v'] m IH]; simpl; [rewrite bytes_eqb_refl; reflexivity|].
  destruct (bytes_ltb k k'); [simpl; rewrite bytes_eqb_refl; reflexivity|].
  destruct (bytes_eqb k k') eqn:E; simpl; [rewrite bytes_eqb_refl; reflexivity|rewrite E; apply IH]. Qed.

Lemma m_get_put_other {V} k k2 (v : V) m : k2 <> k -> m_get k2 (m_put k v m) = m_get k2 m.
Proof.
  intros Hne. assert (E0 : bytes_eqb k2 k = false).
  { destruct (bytes_eqb k2 k) eqn:E; [apply bytes_eqb_spec in E; contradiction|reflexivity]. }
  induction m as [|[k' v'] m IH]; simpl; [rewrite E0; reflexivity|].
  destruct (bytes_ltb k k'); [simpl; rewrite E0; reflexivity|].
  destruct (bytes_eqb k k') eqn:E; simpl.
  - apply bytes_eqb_spec in E. subst k'. rewrite E0. reflexivity.
  - destruct (bytes_eqb k2 k'); [reflexivity|apply IH]. Qed.

(* Put of a key that is present, reached through smaller keys, replaces in place *)
Lemma m_put_mid {V} k (v v' : V) pre suf :
  (forall x, In x pre -> bytes_ltb (fst x) k = true) ->
  m_put k v' (pre ++ (k, v) :: suf) = pre ++ (k, v') :: suf.
Proof.
  induction pre as [|[k0 v0] pre IH]; intros H; simpl.
  - rewrite bytes_ltb_irrefl, bytes_eqb_refl. reflexivity.
  - pose proof (H (k0, v0) (or_introl eq_refl)) as H0. simpl in H0.
    rewrite (bytes_ltb_asym _ _ H0), (bytes_ltb_neq _ _ H0). f_equal. apply IH.
    intros x Hx. apply H. right. assumption. Qed.

Lemma kasc_app_inv {V} (a : list (bytes * V)) e b :
  kasc (a ++ e :: b) -> forall x, In x a -> bytes_ltb (fst x) (fst e) = true.
Proof. induction a as [|y a IH]; simpl; [intros _ x []|]. intros [H1 H2] x [<-|Hx].
  - apply H1. apply in_or_app. right. left. reflexivity.
  - apply IH; assumption. Qed.

(* ------------------------------------------------------------------ *)
(* the command bucket as the encoded log *)
Definition enc (c : cmd) : bytes * bytes := (marshalSeq (fst c), snd c).
Definition denc (e : bytes * dec) : dir := (fst e, parse_score (snd e)).

Fixpoint asc (l : list cmd) : Prop :=
  match l with
  | [] => True
  | c :: r => (forall d, In d r -> fst c < fst d) /\ asc r
  end.

Definition bounded (l : list cmd) : Prop := forall c, In c l -> fst c < two64.

Lemma asc_filter f l : asc l -> asc (filter f l).
Proof. induction l as [|c l IH]; simpl; [trivial|]. intros [H1 H2].
  destruct (f c); [|apply IH; assumption]. split; [|apply IH; assumption].
  intros d Hd. apply filter_In in Hd as [Hd _]. apply H1. assumption. Qed.

Lemma bounded_filter f l : bounded l -> bounded (filter f l).
Proof. intros H c Hc. apply filter_In in Hc as [Hc _]. apply H. assumption. Qed.

Lemma bounded_tl c l : bounded (c :: l) -> bounded l.
Proof. intros H x Hx. apply H. right. assumption. Qed.

Lemma asc_app_last l n t : asc l -> (forall c, In c l -> fst c < n) -> asc (l ++ [(n, t)]).
Proof. induction l as [|c l IH]; simpl; intros H Hlt; [split; [intros d []|trivial]|].
  destruct H as [H1 H2]. split.
  - intros d Hd. apply in_app_or in Hd as [Hd|[<-|[]]]; [apply H1; assumption|].
    simpl. apply Hlt. left. reflexivity.
  - apply IH; [assumption|]. intros; apply Hlt; right; assumption. Qed.

Lemma m_put_append l n t : bounded l -> n < two64 -> (forall c, In c l -> fst c < n) ->
  m_put (marshalSeq n) t (map enc l) = map enc (l ++ [(n, t)]).
Proof.
  induction l as [|c l IH]; intros Hb Hn Hlt; [reflexivity|].
  cbn [map app m_put enc fst snd].
  assert (Hc : fst c < two64) by (apply Hb; left; reflexivity).
  assert (Hcn : fst c < n) by (apply Hlt; left; reflexivity).
  rewrite marshal_ltb, marshal_eqb by assumption.
  replace (n <? fst c) with false by (symmetry; apply N.ltb_ge; lia).
  replace (n =? fst c) with false by (symmetry; apply N.eqb_neq; lia).
  f_equal. apply IH; [eapply bounded_tl; eassumption|assumption|].
  intros; apply Hlt; right; assumption. Qed.

Lemma m_del_enc l n : bounded l -> n < two64 ->
  m_del (marshalSeq n) (map enc l) = map enc (filter (fun c => negb (fst c =? n)) l).
Proof.
  unfold m_del. induction l as [|c l IH]; intros Hb Hn; [reflexivity|].
  cbn [map filter enc fst snd].
  assert (Hc : fst c < two64) by (apply Hb; left; reflexivity).
  rewrite marshal_eqb, (N.eqb_sym n) by assumption.
  destruct (fst c =? n); cbn [negb map enc fst snd]; [|f_equal]; apply IH; try assumption; eapply bounded_tl; eassumption. Qed.

Lemma m_get_enc l n : bounded l -> n < two64 ->
  m_get (marshalSeq n) (map enc l) = option_map snd (find (fun c => fst c =? n) l).
Proof.
  induction l as [|c l IH]; intros Hb Hn; [reflexivity|].
  cbn [map m_get find enc fst snd].
  assert (Hc : fst c < two64) by (apply Hb; left; reflexivity).
  rewrite marshal_eqb, (N.eqb_sym n) by assumption.
  destruct (fst c =? n); [reflexivity|]. apply IH; [eapply bounded_tl; eassumption|assumption]. Qed.

Lemma seek_enc l : forall n acc, asc l -> bounded l -> n < two64 ->
  seek_from (marshalSeq n) acc (map enc l)
  = mkCur (rev (map enc (filter (fun c => fst c <? n) l)) ++ acc)
          (map enc (filter (fun c => n <=? fst c) l)).
Proof.
  induction l as [|c l IH]; intros n acc Ha Hb Hn; [reflexivity|].
  assert (Hc : fst c < two64) by (apply Hb; left; reflexivity).
  destruct Ha as [Ha1 Ha2].
  cbn [map seek_from]. unfold enc at 1. cbn [fst]. rewrite marshal_ltb by assumption.
  destruct (fst c <? n) eqn:E.
  - rewrite IH by (try assumption; eapply bounded_tl; eassumption).
    cbn [filter]. rewrite E. apply N.ltb_lt in E.
    replace (n <=? fst c) with false by (symmetry; apply N.leb_gt; lia).
    cbn [map rev]. rewrite <- app_assoc. reflexivity.
  - apply N.ltb_ge in E.
    rewrite (filter_all_false (fun c0 => fst c0 <? n) (c :: l)).
    2:{ intros x [<-|Hx]; apply N.ltb_ge; [assumption|]. specialize (Ha1 x Hx). lia. }
    rewrite (filter_all_true (fun c0 => n <=? fst c0) (c :: l)).
    2:{ intros x [<-|Hx]; apply N.leb_le; [assumption|]. specialize (Ha1 x Hx). lia. }
    reflexivity.
Qed.

Lemma iter_loop_enc u l : asc l -> bounded l ->
  iter_loop u (map enc l) = map out_cmd (filter (fun c => fst c <? u) l).
Proof.
  induction l as [|c l IH]; intros Ha Hb; [reflexivity|].
  assert (Hc : fst c < two64) by (apply Hb; left; reflexivity).
  destruct Ha as [Ha1 Ha2].
  cbn [map iter_loop enc fst snd]. rewrite unmarshal_marshal by assumption.
  cbn [filter]. destruct (fst c <? u) eqn:E.
  - cbn [map]. unfold out_cmd at 2. f_equal. apply IH; [assumption|eapply bounded_tl; eassumption].
  - apply N.ltb_ge in E. rewrite filter_all_false; [reflexivity|].
    intros x Hx. apply N.ltb_ge. specialize (Ha1 x Hx). lia. Qed.

Definition found (o : option cmd) : res :=
  match o with Some c => RCmd (snd c) (to_int (fst c)) | None => RNoMatch end.

Lemma scan_loop_enc p l : bounded l -> scan_loop p (map enc l) = found (find (matches p) l).
Proof.
  induction l as [|c l IH]; intros Hb; [reflexivity|].
  assert (Hc : fst c < two64) by (apply Hb; left; reflexivity).
  cbn [map scan_loop enc fst snd find]. unfold matches at 1.
  destruct (has_prefix p (snd c)); [cbn [found fst snd]; rewrite unmarshal_marshal by assumption; reflexivity|].
  apply IH. eapply bounded_tl; eassumption. Qed.

Lemma bounded_rev l : bounded l -> bounded (rev l).
Proof. intros H c Hc. apply H. apply in_rev. assumption. Qed.

Lemma c_last_scan p (b : bucket bytes) :
  match cur_after (c_last b) with
  | [] => RNoMatch
  | e :: _ => scan_loop p (e :: cur_before (c_last b))
  end = scan_loop p (rev b).
Proof. unfold c_last. destruct (rev b); reflexivity. Qed.

Lemma prev_enc p l n : bounded l ->
  match map enc (filter (fun c : cmd => n <=? fst c) l) with
  | [] => scan_loop p (rev (map enc l))
  | _ :: _ => scan_loop p (rev (map enc (filter (fun c : cmd => fst c <? n) l)))
  end = found (find (matches p) (rev (filter (fun c : cmd => fst c <? n) l))).
Proof.
  intros Hb. destruct (filter (fun c : cmd => n <=? fst c) l) as [|c0 l0] eqn:E; cbn [map].
  - pose proof (filter_nil_inv _ _ E) as Hall.
    rewrite (filter_all_true (fun c : cmd => fst c <? n) l).
    2:{ intros x Hx. specialize (Hall x Hx). cbn beta in Hall. apply N.leb_gt in Hall.
        apply N.ltb_lt. assumption. }
    rewrite <- map_rev. apply scan_loop_enc, bounded_rev. assumption.
  - rewrite <- map_rev. apply scan_loop_enc, bounded_rev, bounded_filter. assumption.
Qed.


(* ------------------------------------------------------------------ *)
(* dirs *)
Definition gdec (v : dec) : dec := format_score (fmul (parse_score v) decay64).

Lemma decay_loop_mapv suf : forall pre, kasc (pre ++ suf) ->
  decay_loop suf (mapv gdec pre ++ suf) = mapv gdec (pre ++ suf).
Proof.
  induction suf as [|[k v] suf IH]; intros pre Hk; cbn [decay_loop].
  - rewrite !app_nil_r. reflexivity.
  - rewrite m_put_mid.
    2:{ intros x Hx. apply in_map_iff in Hx as [y [<- Hy]]. cbn [fst].
        apply (kasc_app_inv pre (k, v) suf Hk y Hy). }
    fold (gdec v).
    replace (mapv gdec pre ++ (k, gdec v) :: suf) with (mapv gdec (pre ++ [(k, v)]) ++ suf).
    2:{ unfold mapv. rewrite map_app, <- app_assoc. reflexivity. }
    rewrite IH by (rewrite <- app_assoc; exact Hk).
    rewrite <- app_assoc. reflexivity.
Qed.

Lemma decay_loop_all b : kasc b -> decay_loop b b = mapv gdec b.
Proof. intros H. apply (decay_loop_mapv b [] H). Qed.

Lemma dirs_loop_filter bl b :
  dirs_loop bl b = filter (fun e => negb (mem_bytes (fst e) bl)) (map denc b).
Proof. induction b as [|[k v] b IH]; cbn [dirs_loop map filter denc fst snd]; [reflexivity|].
  destruct (mem_bytes k bl); cbn [negb]; rewrite IH; reflexivity. Qed.

(* ------------------------------------------------------------------ *)
(* conversions *)
Lemma u64_lt z : u64 z < two64.
Proof. unfold u64. pose proof (Z.mod_pos_bound z (Z.of_N two64) eq_refl) as H.
  apply N2Z.inj_lt. rewrite Z2N.id; lia. Qed.

Lemma wrap64_small n : n < two64 -> wrap64 n = n.
Proof. apply N.mod_small. Qed.

Lemma to_int_small n : n < two63 -> to_int n = Z.of_N n.
Proof. intros H. unfold to_int. apply N.ltb_lt in H. rewrite H. reflexivity. Qed.

(* ------------------------------------------------------------------ *)
(* invariants *)
Record wf (ss : sstate) : Prop := mkWf {
  wf_asc : asc (s_log ss);
  wf_le : forall c, In c (s_log ss) -> fst c <= s_seq ss;
  wf_lt : s_seq ss < two64 }.

Record R (cs : cstate) (ss : sstate) : Prop := mkR {
  R_seq : c_seq cs = s_seq ss;
  R_cmd : c_cmd cs = map enc (s_log ss);
  R_dir : s_dirs ss = map denc (c_dir cs);
  R_kasc : kasc (c_dir cs);
  R_wf : wf ss }.

Lemma wf_bounded ss : wf ss -> bounded (s_log ss).
Proof. intros [_ Hle Hlt] c Hc. specialize (Hle c Hc). lia. Qed.

Lemma R_init seq0 : seq0 < two64 -> R (conc_init seq0) (spec_init seq0).
Proof. intros H. split; try reflexivity; try exact I. split; [exact I|intros c []|exact H]. Qed.

Section Steps.
  Variable sortf : list dir -> list dir.

  Lemma spec_step_wf ss o : wf ss -> s_seq ss + 1 < two64 ->
    wf (fst (spec_step sortf ss o)) /\
    (s_seq (fst (spec_step sortf ss o)) = s_seq ss \/ s_seq (fst (spec_step sortf ss o)) = s_seq ss + 1).
  Proof.
    intros [Ha Hle Hlt] Hb.
    destruct o; cbn [spec_step fst]; try (split; [split; assumption|left; reflexivity]).
    - (* add *) unfold sp_add. cbn [fst s_seq s_log]. rewrite wrap64_small by assumption.
      split; [|right; reflexivity]. split; cbn [s_log s_seq]; [| |assumption].
      + apply asc_app_last; [assumption|]. intros c Hc. specialize (Hle c Hc). lia.
      + intros c Hc. apply in_app_or in Hc as [Hc|[<-|[]]]; [specialize (Hle c Hc); lia|cbn; lia].
    - (* del *) unfold sp_del. cbn [fst s_seq s_log]. split; [|left; reflexivity].
      split; cbn [s_log s_seq]; [apply asc_filter; assumption| |assumption].
      intros c Hc. apply filter_In in Hc as [Hc _]. apply Hle. assumption.
    - (* add dir *) unfold sp_add_dir. destruct d; cbn [fst s_seq s_log];
        (split; [split; assumption|left; reflexivity]).
  Qed.

  Lemma step_refines cs ss o : R cs ss -> s_seq ss + 1 < two64 ->
    snd (conc_step sortf cs o) = snd (spec_step sortf ss o) /\
    R (fst (conc_step sortf cs o)) (fst (spec_step sortf ss o)).
  Proof.
    intros HR Hb. pose proof (spec_step_wf ss o (R_wf _ _ HR) Hb) as [Hwf' _].
    destruct HR as [Hseq Hcmd Hdir Hk Hwf].
    pose proof (wf_bounded ss Hwf) as Hbd. pose proof Hwf as [Ha Hle Hlt].
    destruct o; cbn [conc_step spec_step fst snd] in *.
    - (* AddCmd *)
      unfold c_add, sp_add in *. cbn [fst snd c_seq c_cmd c_dir s_seq s_log s_dirs] in *.
      rewrite Hseq. split; [reflexivity|].
      split; cbn [c_seq c_cmd c_dir s_seq s_log s_dirs]; try assumption; [reflexivity|].
      rewrite Hcmd, wrap64_small by assumption.
      apply m_put_append; [assumption|assumption|]. intros c Hc. specialize (Hle c Hc). lia.
    - (* DelCmd *)
      unfold c_delcmd, sp_del in *. cbn [fst snd c_seq c_cmd c_dir s_seq s_log s_dirs] in *.
      split; [reflexivity|].
      split; cbn [c_seq c_cmd c_dir s_seq s_log s_dirs]; try assumption.
      rewrite Hcmd. apply m_del_enc; [assumption|apply u64_lt].
    - (* Cmd *)
      split; [|split; assumption]. unfold c_getcmd, sp_get.
      rewrite Hcmd, m_get_enc by (assumption || apply u64_lt).
      destruct (find (fun c => fst c =? u64 seq) (s_log ss)); reflexivity.
    - (* CmdsWithSeq *)
      split; [|split; assumption]. unfold c_range, sp_range, c_seek.
      rewrite Hcmd, seek_enc by (assumption || apply u64_lt). cbn [cur_after].
      rewrite iter_loop_enc by (apply asc_filter || apply bounded_filter; assumption).
      rewrite filter_filter. reflexivity.
    - (* NextCmd *)
      split; [|split; assumption]. unfold c_nextcmd, sp_next, c_seek.
      rewrite Hcmd, seek_enc by (assumption || apply u64_lt). cbn [cur_after].
      rewrite scan_loop_enc by (apply bounded_filter; assumption). reflexivity.
    - (* PrevCmd *)
      split; [|split; assumption]. unfold c_prevcmd, sp_prev, c_seek.
      rewrite Hcmd, seek_enc by (assumption || apply u64_lt). cbn [cur_after cur_before].
      rewrite app_nil_r. cbv zeta. rewrite c_last_scan. apply prev_enc. assumption.
    - (* NextCmdSeq *)
      split; [|split; assumption]. unfold c_nextseq, sp_next_seq. rewrite Hseq. reflexivity.
    - (* AddDir *)
      unfold c_adddir, sp_add_dir in *. destruct d as [|d0 d]; cbn [fst snd] in *;
        [split; [reflexivity|split; assumption]|].
      split; [reflexivity|].
      cbn [c_first cur_after]. rewrite decay_loop_all by assumption.
      split; cbn [c_seq c_cmd c_dir s_seq s_log s_dirs]; try assumption.
      + rewrite Hdir. change (map denc (c_dir cs)) with (mapv parse_score (c_dir cs)).
        change (decay_all (mapv parse_score (c_dir cs)))
          with (mapv q_decay (mapv parse_score (c_dir cs))).
        rewrite mapv_mapv.
        change (map denc) with (@mapv dec f64 parse_score).
        rewrite <- m_put_mapv, mapv_mapv. rewrite !m_get_mapv.
        destruct (m_get (d0 :: d) (c_dir cs)); reflexivity.
      + apply kasc_m_put, kasc_mapv. assumption.
    - (* DelDir *)
      unfold c_deldir, sp_del_dir in *. cbn [fst snd] in *. split; [reflexivity|].
      split; cbn [c_seq c_cmd c_dir s_seq s_log s_dirs]; try assumption.
      + rewrite Hdir. change (map denc) with (@mapv dec f64 parse_score). apply m_del_mapv.
      + apply kasc_filter. assumption.
    - (* Dirs *)
      split; [|split; assumption]. unfold c_dirs, sp_dirs. cbn [c_first cur_after].
      rewrite dirs_loop_filter, Hdir. reflexivity.
  Qed.

  (* ---- whole histories ---- *)
  Lemma run_refines h : forall cs ss, R cs ss -> s_seq ss + N.of_nat (length h) < two64 ->
    conc_run sortf cs h = spec_run sortf ss h.
  Proof.
    induction h as [|o h IH]; intros cs ss HR Hb; [reflexivity|].
    cbn [conc_run spec_run]. cbn [length] in Hb. rewrite Nat2N.inj_succ in Hb.
    assert (Hb1 : s_seq ss + 1 < two64) by lia.
    pose proof (step_refines cs ss o HR Hb1) as [Hr HR'].
    pose proof (spec_step_wf ss o (R_wf _ _ HR) Hb1) as [_ Hs].
    destruct (conc_step sortf cs o) as [cs' r]. destruct (spec_step sortf ss o) as [ss' r'].
    cbn [fst snd] in *. subst r'. f_equal. apply IH; [assumption|]. destruct Hs as [->| ->]; lia.
  Qed.

  Lemma store_refines_spec seq0 h : seq0 + N.of_nat (length h) < two64 ->
    conc_run sortf (conc_init seq0) h = spec_run sortf (spec_init seq0) h.
  Proof. intros H. apply run_refines; [apply R_init; lia|exact H]. Qed.

  Lemma wf_exec h : forall ss, wf ss -> s_seq ss + N.of_nat (length h) < two64 ->
    wf (spec_exec sortf ss h) /\ s_seq (spec_exec sortf ss h) <= s_seq ss + N.of_nat (length h).
  Proof.
    induction h as [|o h IH]; intros ss Hwf Hb; cbn [spec_exec length]; [split; [assumption|lia]|].
    cbn [length] in Hb. rewrite Nat2N.inj_succ in *.
    pose proof (spec_step_wf ss o Hwf ltac:(lia)) as [Hwf' Hs].
    destruct (IH _ Hwf' ltac:(destruct Hs as [->| ->]; lia)) as [H1 H2].
    split; [assumption|]. destruct Hs as [E|E]; rewrite E in H2; lia.
  Qed.
End Steps.
