(* C33 / styledown — the round-trip theorem: Render (Derender t defs) = t. *)
From verif Require Import lib.Base lib.Utf8 model.C34_width model.C33 model.C33_styledown
  proofs.C33_proofs proofs.C33_proofs2 proofs.C33_sd_flat proofs.C33_sd_table proofs.C33_sd_round.
Open Scope Z_scope.

Lemma in_flat s r t : In (s, r) (flat t) <-> exists x, In (s, x) t /\ In r x.
Proof.
  unfold flat. rewrite in_flat_map. split.
  - intros ([s' x] & Hin & Hm). cbn [fst snd] in Hm. apply in_map_iff in Hm.
    destruct Hm as (r' & E & Hr). inversion E; subst. eauto.
  - intros (x & Hin & Hr). exists (s, x). split; [exact Hin|]. cbn [fst snd]. apply in_map. exact Hr.
Qed.

Lemma in_fjoin p ps e : In p ps -> In e (flat p) -> In e (fjoin ps).
Proof.
  destruct ps as [|q r]; [intros []|]. rewrite fjoin_cons. intros [->|H] He.
  - apply in_or_app. left. exact He.
  - apply in_or_app. right. unfold fsep. apply in_flat_map. exists p. split; [exact H | right; exact He].
Qed.

Lemma flat_nonempty t : Normal t -> t <> [] -> flat t <> [].
Proof.
  destruct t as [|[s x] r]; [congruence|]. intros H _. apply Normal_cons in H. destruct H as (Hx & _).
  rewrite flat_cons. destruct x; [congruence | discriminate].
Qed.

Lemma flat_map_ext_in {A B} (f g : A -> list B) l :
  (forall a, In a l -> f a = g a) -> flat_map f l = flat_map g l.
Proof.
  induction l as [|a l IH]; intros H; [reflexivity|]. cbn [flat_map].
  rewrite (H a (or_introl eq_refl)), IH; [reflexivity|]. intros b Hb. apply H. right. exact Hb.
Qed.

Lemma flat_map_map {A B C} (g : B -> list C) (h : A -> B) l :
  flat_map g (map h l) = flat_map (fun x => g (h x)) l.
Proof. induction l as [|a l IH]; [reflexivity|]. cbn [map flat_map]. rewrite IH. reflexivity. Qed.

Lemma split_cfg_lines ls : Forall (fun l => ~ In NL l) ls ->
  split_lines (flat_map (fun l => l ++ [NL]) ls) = ls ++ [[]].
Proof.
  induction ls as [|l ls IH]; intros H; [reflexivity|]. inversion H; subst.
  cbn [flat_map app]. rewrite <- app_assoc. cbn [app]. rewrite split_lines_line by assumption.
  rewrite IH by assumption. reflexivity.
Qed.

Section Main.
  Variable w : N -> Z.
  Variable parse_def : list N -> option (N * list styling).
  Hypothesis w_nonneg : forall r, 0 <= w r.
  Hypothesis w_nl : w NL <> 1.
  Hypothesis w_builtin : forall c ats, lookup c builtin_chars = Some ats -> w c = 1.
  Hypothesis w_no_eol : W w no_eol <> 0.
  Hypothesis pd_width : forall l c ats, parse_def l = Some (c, ats) -> w c = 1 /\ In c l.
  Hypothesis pd_no_eol : parse_def no_eol = None.

  (* what Styledown can represent: newlines carry the default style and every
     other character occupies at least one column (the styles must have style
     characters: that is the success of Derender) *)
  Definition Representable (t : text) : Prop :=
    Normal t /\ PlainNL t
    /\ (forall sg r, In sg t -> In r (snd sg) -> r <> NL -> w r <> 0).

  Lemma parts_facts t : Representable t ->
    let parts := split_text [NL] t in
    fjoin parts = flat t
    /\ Forall (fun p => ~ In NL (content p)) parts
    /\ (forall p sg r, In p parts -> In sg p -> In r (snd sg) -> w r <> 0).
  Proof.
    intros (Hn & Hp & Hw). cbv zeta.
    assert (H12 : fjoin (split_text [NL] t) = flat t
                  /\ Forall (fun p => ~ In NL (content p)) (split_text [NL] t)).
    { unfold split_text. destruct t as [|sg t'] eqn:Et; [split; [reflexivity | constructor]|].
      rewrite <- Et in *. split.
      - rewrite split_text_go_flat by exact Hp. reflexivity.
      - apply split_text_go_no_nl. intros []. }
    destruct H12 as (H1 & H2). split; [exact H1|]. split; [exact H2|].
    intros p [s x] r Hin Hsg Hr. cbn [snd] in Hr.
    assert (Hnl : r <> NL).
    { intros ->. rewrite Forall_forall in H2. apply (H2 p Hin).
      unfold content. apply in_flat_map. exists (s, x). split; [exact Hsg | exact Hr]. }
    assert (Hf : In (s, r) (flat t)).
    { rewrite <- H1. apply (in_fjoin p); [exact Hin|]. apply in_flat. exists x. auto. }
    apply in_flat in Hf. destruct Hf as (x' & Hx' & Hr').
    apply (Hw (s, x') r Hx' Hr' Hnl).
  Qed.

  Theorem styledown_roundtrip t defs m :
    Representable t ->
    derender w parse_def t defs = Ok m ->
    render w parse_def m = Ok t.
  Proof.
    intros Hrep Hd. pose proof Hrep as (Hn & _ & _).
    destruct (parts_facts t Hrep) as (P1 & P2 & P3).
    unfold derender in Hd. cbv zeta in Hd.
    destruct (build_table parse_def (split_lines defs) [] []) as [[cfs0 user]|] eqn:Eb; [|discriminate].
    destruct (build_table_inv parse_def (split_lines defs) [] [] cfs0 user
                (split_lines_no_nl defs)) as (Hu & Hcu); try exact Eb.
    { intros c l H. discriminate. }
    { intros s c H. discriminate. }
    pose proof (add_builtins_ok parse_def cfs0 user Hcu) as Hcfs.
    set (cfs := add_builtins cfs0 user) in *.
    set (parts := split_text [NL] t) in *.
    set (trailing := match parts with [] => false | _ => is_nil (last parts []) end) in *.
    set (parts' := if trailing then removelast parts else parts) in *.
    destruct (derender_lines w cfs parts') as [ls|] eqn:El; [|discriminate].
    set (used := flat_map (fun l : list N * list N * list N => snd l) ls) in *.
    set (cs := dedup (filter (fun c => match lookup c user with Some _ => true | None => false end) used) []) in *.
    destruct (dedup_spec (filter (fun c => match lookup c user with Some _ => true | None => false end) used) [])
      as (Hnd & Hcs). fold cs in Hnd, Hcs.
    assert (Hcs' : forall c, In c cs <-> In c used /\ lookup c user <> None).
    { intros c. rewrite Hcs, filter_In. cbn [In]. destruct (lookup c user); split; intros; intuition congruence. }
    assert (Hsub : forall p, In p parts' -> In p parts).
    { subst parts'. destruct trailing; [intros p; apply In_removelast | auto]. }
    assert (P2' : Forall (fun p => ~ In NL (content p)) parts').
    { rewrite Forall_forall in *. intros p Hp. apply P2, Hsub, Hp. }
    (* the configuration stanza *)
    set (deflines := map (line_of user) cs).
    assert (Hdl : flat_map (fun c => match lookup c user with Some l => l ++ [NL] | None => [] end) cs
                  = flat_map (fun l => l ++ [NL]) deflines).
    { subst deflines. rewrite flat_map_map.
      apply flat_map_ext_in. intros c Hc. apply Hcs' in Hc. destruct Hc as (_ & Hc).
      unfold line_of. destruct (lookup c user); [reflexivity | congruence]. }
    rewrite Hdl in Hd.
    assert (Hdnl : Forall (fun l => ~ In NL l) deflines).
    { subst deflines. apply Forall_forall. intros l Hl. apply in_map_iff in Hl. destruct Hl as (c & <- & Hc).
      apply Hcs' in Hc. destruct Hc as (_ & Hc). unfold line_of.
      destruct (lookup c user) as [l|] eqn:E; [|congruence]. apply (Hu c l E). }
    assert (Hdw : forall l, In l deflines -> W w l <> 0).
    { subst deflines. intros l Hl. apply in_map_iff in Hl. destruct Hl as (c & <- & Hc).
      apply Hcs' in Hc. destruct Hc as (_ & Hc). unfold line_of.
      destruct (lookup c user) as [l|] eqn:E; [|congruence].
      destruct (Hu c l E) as (_ & _ & ats & Hp). destruct (pd_width l c ats Hp) as (Hw1 & Hin).
      pose proof (W_in w w_nonneg c l Hin). lia. }
    set (defs' := map (fun c => (c, atoms_of parse_def user c)) cs).
    assert (Hpc : forall b, parse_config parse_def (deflines ++ [[]]) b [] = Ok (b, defs')).
    { intros b. subst deflines defs'.
      rewrite (parse_config_defs parse_def pd_no_eol user cs b [] Hu Hnd); [reflexivity| |reflexivity].
      intros c Hc. apply Hcs' in Hc. tauto. }
    (* the style sheet Render reconstructs gives every used character its style *)
    assert (Hsheet : forall s c, cfs_lookup s cfs = Some c -> In c used ->
                       exists ats, sheet_lookup defs' c = Some ats /\ style_of ats = s).
    { intros s c Hl Hc. destruct (Hcfs s c Hl) as (ats & Hst & [(l & Hlu & Hp) | (Hlu & Hb)]).
      - exists ats. split; [|exact Hst]. unfold sheet_lookup. subst defs'. rewrite lookup_map_in.
        assert (Hin : In c cs) by (apply Hcs'; split; [exact Hc | congruence]).
        apply existsb_eqb_in in Hin. rewrite Hin. unfold atoms_of, line_of. rewrite Hlu, Hp. reflexivity.
      - exists ats. split; [|exact Hst]. unfold sheet_lookup. subst defs'. rewrite lookup_map_in.
        destruct (existsb (N.eqb c) cs) eqn:E; [|exact Hb].
        apply existsb_eqb_in in E. apply Hcs' in E. tauto. }
    (* rendering the content stanza *)
    destruct (render_body w w_nonneg cfs defs' parts' ls true b_empty El
                (fun p sg r Hp => P3 p sg r (Hsub p Hp)) Hsheet BInv_empty)
      as (tb & Hrp & Hbtb & Hftb).
    change (flat (b_result b_empty)) with (@nil (style * N)) in Hftb. cbn [app] in Hftb.
    (* now Render itself *)
    set (noeol_cfg := if trailing then [] else no_eol ++ [NL]) in *.
    set (config := noeol_cfg ++ flat_map (fun l => l ++ [NL]) deflines) in *.
    inversion Hd as [Hm]. clear Hd.
    fold (body ls). unfold render.
    rewrite (split_body w parse_def w_nonneg w_nl w_builtin pd_width cfs user Hcfs parts' ls _ El P2').
    rewrite (pair_body w parse_def w_nonneg w_nl w_builtin pd_width cfs user Hcfs parts' ls _ El).
    assert (Hrest : exists cfgl,
               pair_lines w (split_lines (if is_nil config then [] else NL :: config))
               = ([], split_lines (if is_nil config then [] else NL :: config))
               /\ match split_lines (if is_nil config then [] else NL :: config) with
                  | [] => Ok []
                  | x :: r => if is_nil x then Ok r else Err
                  end = Ok cfgl
               /\ parse_config parse_def cfgl false [] = Ok (negb trailing, defs')).
    { destruct (is_nil config) eqn:Ec.
      - apply is_nil_true in Ec. exists []. rewrite split_lines_nil. split; [reflexivity|]. split; [reflexivity|].
        subst config noeol_cfg. apply app_eq_nil in Ec. destruct Ec as (E1 & E2).
        destruct trailing; [|discriminate].
        assert (Hd0 : deflines = []).
        { destruct deflines as [|l r]; [reflexivity|]. cbn in E2. destruct l; discriminate. }
        specialize (Hpc false). rewrite Hd0 in Hpc. cbn in Hpc. cbn. inversion Hpc. reflexivity.
      - assert (Hsl : split_lines (NL :: config)
                      = [] :: (if trailing then [] else [no_eol]) ++ deflines ++ [[]]).
        { change (NL :: config) with ([] ++ NL :: config). rewrite split_lines_line by (intros []).
          f_equal. subst config noeol_cfg. destruct trailing.
          - cbn [app]. apply split_cfg_lines. exact Hdnl.
          - rewrite <- app_assoc. cbn [app]. rewrite split_lines_line by (vm_compute; intuition discriminate).
            rewrite split_cfg_lines by exact Hdnl. reflexivity. }
        rewrite Hsl. exists ((if trailing then [] else [no_eol]) ++ deflines ++ [[]]).
        split.
        + (* the empty separator line is not paired with the first configuration line *)
          destruct trailing.
          * cbn [app]. destruct deflines as [|l r] eqn:Ed.
            { exfalso. subst config noeol_cfg. cbn in Ec. discriminate. }
            cbn [app pair_lines]. change (W w []) with 0.
            destruct (0 =? W w l) eqn:E; [|reflexivity]. apply Z.eqb_eq in E.
            exfalso. apply (Hdw l); [left; reflexivity | lia].
          * cbn [app pair_lines]. change (W w []) with 0.
            destruct (0 =? W w no_eol) eqn:E; [|reflexivity]. apply Z.eqb_eq in E. exfalso. apply w_no_eol. lia.
        + split; [reflexivity|]. destruct trailing; cbn [app negb].
          * apply Hpc.
          * cbn [parse_config is_nil]. change (runes_eqb no_eol no_eol) with true. cbv iota. apply Hpc. }
    destruct Hrest as (cfgl & Hpl & Hcfg & Hpcfg).
    subst m. rewrite Hpl. cbn [fst snd]. rewrite app_nil_r, Hcfg, Hpcfg, Hrp.
    (* the result is normal and has the flat content of t *)
    f_equal. apply normal_flat_inj.
    - assert (Hnl1 : Normal (T [NL] [])) by (cbn; repeat split; congruence).
      destruct trailing; cbn [negb];
        [apply (proj1 (write_text_inv tb (T [NL] []) Hbtb Hnl1)) | apply (proj1 Hbtb)].
    - exact Hn.
    - rewrite <- P1. destruct trailing eqn:Et; cbn [negb].
      + rewrite flat_write_text, Hftb.
        assert (Hpne : parts <> []) by (intros E; subst trailing; rewrite E in Et; discriminate).
        assert (Hlast : last parts [] = []).
        { subst trailing. destruct parts; [congruence|]. apply is_nil_true. exact Et. }
        assert (Hsplit : parts = parts' ++ [[]]).
        { subst parts'. rewrite <- Hlast. apply app_removelast_last. exact Hpne. }
        change (flat (T [NL] [])) with [nlsep].
        destruct parts' as [|p0 r0] eqn:Erl.
        * exfalso. rewrite Hsplit in P1. cbn in P1.
          assert (Ht : t <> []).
          { intros E. apply Hpne. subst parts. rewrite E. reflexivity. }
          apply (flat_nonempty t Hn Ht). congruence.
        * rewrite Hsplit, fjoin_snoc_nil by congruence. reflexivity.
      + rewrite Hftb. reflexivity.
  Qed.
End Main.
