(* C04 — the printed order of map entries (reprMap sorts by CmpTotal and breaks
   ties on the key texts).
   (1) insertion sort gives one result for all permutations of its input when
       the comparison is a strict linear order on the elements present;
   (2) hence repr of a map does not depend on the iteration (insertion) order
       when CmpTotal is antisymmetric and transitive on the keys present and no
       two entries have tying keys with the same text;
   (3) CmpTotal is not transitive across exact and inexact numbers (C09), the
       tie-break then makes the comparison cyclic, and with a hash collision
       the printed order still depends on the insertion order — a closed
       witness through C07's trie model. *)
From verif Require Import lib.Base lib.Utf8 model.C03 model.C08_Value proofs.C08_Value_proofs
  proofs.C09_proofs model.C04 proofs.C04_text.
From verif Require model.C05 model.C07.
From Coq Require Import Permutation Sorted QArith.
Close Scope Q_scope.
Open Scope N_scope.

Section SortUnique.
  Context {A : Type}.
  Variable lt : A -> A -> bool.
  Variable P : A -> Prop.          (* the elements around *)
  Hypothesis total : forall a b, P a -> P b -> lt a b = true \/ lt b a = true \/ a = b.
  Hypothesis asym : forall a b, P a -> P b -> lt a b = true -> lt b a = false.
  Hypothesis trans : forall a b c, P a -> P b -> P c -> lt a b = true -> lt b c = true -> lt a c = true.

  (* descending: no element is less than a later one *)
  Definition Rr (a b : A) : Prop := lt a b = false.

  Lemma ge_trans x y z : P x -> P y -> P z -> lt x y = false -> lt y z = false -> lt x z = false.
  Proof.
    intros Px Py Pz H1 H2.
    destruct (total x y Px Py) as [E|[E|E]]; [congruence| |subst; exact H2].
    destruct (total y z Py Pz) as [F|[F|F]]; [congruence| |subst; exact H1].
    apply (asym z x Pz Px). exact (trans z y x Pz Py Px F E).
  Qed.

  Lemma ins_rev_sorted x racc : P x -> Forall P racc ->
    StronglySorted Rr racc -> StronglySorted Rr (ins_rev lt x racc).
  Proof.
    intros Px. induction racc as [|y r IH]; intros HP HS; cbn [ins_rev].
    - constructor; constructor.
    - inversion HS as [|? ? HS' Hy]; subst. inversion HP as [|? ? Py Pr]; subst.
      destruct (lt x y) eqn:E.
      + constructor; [apply IH; assumption|].
        eapply Permutation_Forall; [apply ins_rev_perm|].
        constructor; [exact (asym x y Px Py E)|exact Hy].
      + constructor; [exact HS|]. constructor; [exact E|].
        rewrite Forall_forall in *. intros z Hz. apply (ge_trans x y z); auto. apply Hy, Hz.
  Qed.

  Lemma fold_sorted l : forall racc, Forall P l -> Forall P racc -> StronglySorted Rr racc ->
    StronglySorted Rr (fold_left (fun r x => ins_rev lt x r) l racc).
  Proof.
    induction l as [|x l IH]; intros racc Hl Hr HS; [exact HS|]. cbn [fold_left].
    inversion Hl; subst. apply IH; [assumption| |apply ins_rev_sorted; assumption].
    eapply Permutation_Forall; [apply ins_rev_perm|]. constructor; assumption.
  Qed.

  Lemma sorted_unique l1 : forall l2, Forall P l1 ->
    StronglySorted Rr l1 -> StronglySorted Rr l2 -> Permutation l1 l2 -> l1 = l2.
  Proof.
    induction l1 as [|a l1 IH]; intros l2 HP S1 S2 Pm.
    - apply Permutation_nil in Pm. congruence.
    - destruct l2 as [|b l2]; [apply Permutation_sym, Permutation_nil in Pm; discriminate|].
      inversion S1 as [|? ? S1' Ha]; subst. inversion S2 as [|? ? S2' Hb]; subst.
      inversion HP as [|? ? Pa Pl]; subst.
      assert (Pb : P b).
      { rewrite Forall_forall in HP. apply HP. eapply Permutation_in; [apply Permutation_sym, Pm|left; reflexivity]. }
      assert (E : a = b).
      { assert (I1 : In a (b :: l2)) by (eapply Permutation_in; [exact Pm|left; reflexivity]).
        assert (I2 : In b (a :: l1)) by (eapply Permutation_in; [apply Permutation_sym, Pm|left; reflexivity]).
        destruct I1 as [->|I1]; [reflexivity|]. destruct I2 as [->|I2]; [reflexivity|].
        rewrite Forall_forall in Ha, Hb. specialize (Ha b I2). specialize (Hb a I1). unfold Rr in *.
        destruct (total a b Pa Pb) as [T|[T|T]]; congruence. }
      subst b. f_equal. apply IH; try assumption. eapply Permutation_cons_inv. exact Pm.
  Qed.

  Lemma fold_perm_nil l : Permutation l (fold_left (fun r x => ins_rev lt x r) l []).
  Proof.
    eapply perm_trans; [apply Permutation_rev|].
    pose proof (fold_ins_perm lt l []) as H. rewrite app_nil_r in H. exact H.
  Qed.

  Theorem isort_canonical l1 l2 : Forall P l1 -> Permutation l1 l2 -> isort lt l1 = isort lt l2.
  Proof.
    intros HP Pm. unfold isort. f_equal.
    assert (HP2 : Forall P l2) by (eapply Permutation_Forall; eassumption).
    apply sorted_unique.
    - eapply Permutation_Forall; [apply fold_perm_nil|exact HP].
    - apply fold_sorted; [assumption|constructor|constructor].
    - apply fold_sorted; [assumption|constructor|constructor].
    - eapply perm_trans; [apply Permutation_sym, fold_perm_nil|].
      eapply perm_trans; [exact Pm|apply fold_perm_nil].
  Qed.
End SortUnique.

(* ------------------------------------------------------------------ *)
Lemma bytes_cmp_eq x : forall y, bytes_cmp x y = OEq -> x = y.
Proof.
  induction x as [|a x IH]; intros [|b y] H; cbn in H; try discriminate; [reflexivity|].
  destruct (a ?= b) eqn:E; try discriminate. apply N.compare_eq in E. subst. f_equal. apply IH. exact H.
Qed.

(* the less function of reprMap is a strict linear order on the decorated
   entries present when CmpTotal is antisymmetric and transitive on their keys
   and tying keys have different texts *)
Section KeyOrder.
  Context {X : Type}.
  Variable rk : N -> Z.
  Variable P : value * (bytes * X) -> Prop.
  Hypothesis Hanti : forall x y, P x -> P y ->
    cmp_total rk (fst x) (fst y) = flip (cmp_total rk (fst y) (fst x)).
  Hypothesis Htrans : forall x y z, P x -> P y -> P z -> TransAt (cmp_total rk) (fst x) (fst y) (fst z).
  Hypothesis Hdistinct : forall x y, P x -> P y ->
    cmp_total rk (fst x) (fst y) = OEq -> fst (snd x) = fst (snd y) -> x = y.

  Notation lt := (@key_lt rk X).

  Lemma key_lt_total a b : P a -> P b -> lt a b = true \/ lt b a = true \/ a = b.
  Proof.
    intros Pa Pb. unfold key_lt. pose proof (Hanti a b Pa Pb) as A.
    pose proof (bytes_cmp_antisym (fst (snd a)) (fst (snd b))) as B.
    destruct (cmp_total rk (fst a) (fst b)) eqn:E1; destruct (cmp_total rk (fst b) (fst a)) eqn:E2;
      try discriminate A; try (left; reflexivity); try (right; left; reflexivity).
    - destruct (bytes_cmp (fst (snd a)) (fst (snd b))) eqn:F1;
        destruct (bytes_cmp (fst (snd b)) (fst (snd a))) eqn:F2; try discriminate B;
        try (left; reflexivity); try (right; left; reflexivity).
      + right. right. apply Hdistinct; try assumption. apply bytes_cmp_eq. exact F1.
      + exfalso. exact (bytes_cmp_never_unc _ _ F1).
    - exfalso. exact (cmp_total_never_unc rk _ _ E1).
  Qed.

  Lemma key_lt_asym a b : P a -> P b -> lt a b = true -> lt b a = false.
  Proof.
    intros Pa Pb. unfold key_lt. pose proof (Hanti a b Pa Pb) as A.
    pose proof (bytes_cmp_antisym (fst (snd a)) (fst (snd b))) as B.
    destruct (cmp_total rk (fst a) (fst b)) eqn:E1; destruct (cmp_total rk (fst b) (fst a)) eqn:E2;
      try discriminate A; try discriminate; try reflexivity.
    destruct (bytes_cmp (fst (snd a)) (fst (snd b))) eqn:F1;
      destruct (bytes_cmp (fst (snd b)) (fst (snd a))) eqn:F2; try discriminate B; try discriminate; reflexivity.
  Qed.

  Lemma key_lt_trans a b c : P a -> P b -> P c -> lt a b = true -> lt b c = true -> lt a c = true.
  Proof.
    intros Pa Pb Pc. unfold key_lt. pose proof (Htrans a b c Pa Pb Pc) as T. unfold TransAt in T.
    pose proof (bytes_cmp_trans (fst (snd a)) (fst (snd b)) (fst (snd c))) as TB.
    destruct (cmp_total rk (fst a) (fst b)) eqn:E1; try discriminate;
      destruct (cmp_total rk (fst b) (fst c)) eqn:E2; try discriminate; intros H1 H2.
    - rewrite (T OLt eq_refl). reflexivity.
    - rewrite (T OLt eq_refl). reflexivity.
    - rewrite (T OLt eq_refl). reflexivity.
    - rewrite (T OEq eq_refl).
      destruct (bytes_cmp (fst (snd a)) (fst (snd b))) eqn:F1; try discriminate.
      destruct (bytes_cmp (fst (snd b)) (fst (snd c))) eqn:F2; try discriminate.
      rewrite (TB OLt eq_refl). reflexivity.
  Qed.

  Theorem key_sort_canonical l1 l2 : Forall P l1 -> Permutation l1 l2 -> isort lt l1 = isort lt l2.
  Proof. apply (isort_canonical lt P key_lt_total key_lt_asym key_lt_trans). Qed.
End KeyOrder.

(* CmpTotal antisymmetric and transitive on the keys of m *)
Record KeysOrdered (rk : N -> Z) (m : list (value * value)) : Prop := {
  ko_anti : forall e1 e2, In e1 m -> In e2 m ->
    cmp_total rk (fst e1) (fst e2) = flip (cmp_total rk (fst e2) (fst e1));
  ko_trans : forall e1 e2 e3, In e1 m -> In e2 m -> In e3 m ->
    TransAt (cmp_total rk) (fst e1) (fst e2) (fst e3)
}.

(* C09: that holds when the numbers inside the keys are all exact, or all
   inexact (and the types have different ranks) *)
Lemma keys_ordered_of (p : value -> bool) rk m :
  (p = is_exact \/ p = is_float) -> injective rk -> wfb (VMap m) = true ->
  (forall e, In e m -> nums_all p (fst e) = true) -> KeysOrdered rk m.
Proof.
  intros Hp Inj W Hn.
  assert (Wk : forall e, In e m -> wf (fst e)) by (intros e He; apply (wf_map_in m e W He)).
  split.
  - intros e1 e2 H1 H2. apply cmpg_antisym; auto.
  - intros e1 e2 e3 H1 H2 H3. destruct Hp as [-> | ->].
    + apply cmp_total_trans_exact; auto.
    + apply cmp_total_trans_inexact; auto.
Qed.

Section ReprOrder.
Variable is_print : N -> bool.
Variable fmtF fmtE : N -> bytes.
Variable rk : N -> Z.
Notation repr := (C04.repr is_print fmtF fmtE rk).

(* tying keys print differently (a consequence of the round trip for values of
   the domain, see C04_main.v) *)
Definition TextsDistinct (m : list (value * value)) (ind : Z) : Prop :=
  forall e1 e2, In e1 m -> In e2 m -> cmp_total rk (fst e1) (fst e2) = OEq ->
    repr (fst e1) (ind + 1) = repr (fst e2) (ind + 1) -> e1 = e2.

Theorem repr_order_canonical_gen m1 m2 ind :
  Permutation m1 m2 -> KeysOrdered rk m1 -> TextsDistinct m1 ind ->
  repr (VMap m1) ind = repr (VMap m2) ind.
Proof.
  intros Pm KO TD. cbn [C04.repr]. f_equal. f_equal.
  set (dec := fun e : value * value => (fst e, (repr (fst e) (ind + 1), repr (snd e) (ind + 2)))).
  apply (key_sort_canonical rk (fun x => exists e, In e m1 /\ x = dec e)).
  - intros x y (e1 & H1 & ->) (e2 & H2 & ->). apply (ko_anti rk m1 KO); assumption.
  - intros x y z (e1 & H1 & ->) (e2 & H2 & ->) (e3 & H3 & ->). apply (ko_trans rk m1 KO); assumption.
  - intros x y (e1 & H1 & ->) (e2 & H2 & ->) E T. cbn [dec fst snd] in *. rewrite (TD e1 e2 H1 H2 E T). reflexivity.
  - apply Forall_forall. intros x Hx. apply in_map_iff in Hx as (e & <- & He). exists e. split; [exact He|reflexivity].
  - apply Permutation_map. exact Pm.
Qed.

(* through nesting: repr is compositional, so values whose parts print alike
   print alike *)
Definition SameText (v v' : value) : Prop := forall ind, repr v ind = repr v' ind.

Lemma same_text_list s s' l l' : Forall2 SameText l l' -> SameText (VList s l) (VList s' l').
Proof.
  intros F ind. cbn [C04.repr]. f_equal.
  generalize (@nil N) as buf. induction F as [|e e' l l' H _ IH]; intros buf; [reflexivity|].
  cbn [fold_left]. rewrite (H (ind + 1)%Z). apply IH.
Qed.

Lemma same_text_map_pointwise m m' :
  Forall2 (fun e e' => fst e = fst e' /\ SameText (snd e) (snd e')) m m' -> SameText (VMap m) (VMap m').
Proof.
  intros F ind. cbn [C04.repr]. f_equal. f_equal. f_equal.
  induction F as [|e e' m m' [Hk Hv] _ IH]; [reflexivity|]. cbn [map].
  rewrite Hk, (Hv (ind + 2)%Z), IH. reflexivity.
Qed.

Theorem repr_order_canonical_nested_gen m m'' m' :
  Permutation m m'' -> KeysOrdered rk m -> (forall ind, TextsDistinct m ind) ->
  Forall2 (fun e e' => fst e = fst e' /\ SameText (snd e) (snd e')) m'' m' ->
  SameText (VMap m) (VMap m').
Proof.
  intros Pm KO TD F ind. rewrite (repr_order_canonical_gen m m'' ind Pm KO (TD ind)).
  apply same_text_map_pointwise. exact F.
Qed.
End ReprOrder.

(* ------------------------------------------------------------------ *)
(* maps built by the trie model of pkg/persistent/hashmap (model/C07.v) with
   vals.Hash and vals.Equal (model/C08_Value.v) *)
Definition trie := C07.hmap value value.
Definition okey (k : value) : option value := match k with VNil => None | _ => Some k end.
Definition trie_build (es : list (value * value)) : option trie :=
  fold_left (fun om e => match om with
                         | Some m => C07.Assoc value value equal hash m (okey (fst e)) (snd e)
                         | None => None
                         end) es (Some C07.empty).
Definition trie_iter (m : trie) : list (value * value) :=
  map (fun kv => (match fst kv with Some k => k | None => VNil end, snd kv)) (C07.Iter m).
(* the map value whose entries were inserted in the order given *)
Definition map_of (es : list (value * value)) : option value :=
  match trie_build es with Some m => Some (VMap (trie_iter m)) | None => None end.

Definition rk0 (t : N) : Z := Z.of_N t.
Definition w_int0 := VInt 0.
Definition w_flt0 := VFloat 0.
Definition w_int := VInt 1477884782.
Definition w_flt := VFloat 4743985506046443520.        (* 1477884782.0 *)
Definition w_mapA := VMap [(VStr [107], VStr [97; 98])].     (* [&k=ab] *)
Definition w_mapB := VMap [(VStr [107], VStr [98; 65])].     (* [&k=bA] *)
Definition w_lstA := VList false [VMap [(VStr [97; 98], VInt 1)]].
Definition w_lstB := VList false [VMap [(VStr [98; 65], VInt 1)]].
(* the cyclic triple: c and z are exact, f is inexact, both tie with f *)
Definition w_c := VInt (-9007233084598711).
Definition w_f := VFloat 14069245252820358364.         (* -9007233084598712.0 *)
Definition w_z := VInt (-9007233084598713).

Definition fmtF0 (b : N) : bytes :=
  if b =? 0 then [48]
  else if b =? 14069245252820358364 then [45; 57; 48; 48; 55; 50; 51; 51; 48; 56; 52; 53; 57; 56; 55; 49; 50]
  else [49; 52; 55; 55; 56; 56; 52; 55; 56; 50].
Definition repr0 (v : value) : bytes := ReprPlain ascii_print fmtF0 fmtF0 rk0 v.

(* keys that tie under CmpTotal, are not Equal, and have the same Hash *)
Definition tie_collide (a b : value) : bool :=
  ordering_eqb (cmp_total rk0 a b) OEq && negb (equal a b) && (hash a =? hash b).

Lemma planted_pairs_tie_and_collide :
  tie_collide w_int0 w_flt0 = true /\ tie_collide w_int w_flt = true
  /\ tie_collide w_mapA w_mapB = true /\ tie_collide w_lstA w_lstB = true
  /\ tie_collide w_z w_f = true.
Proof. vm_compute. repeat split. Qed.

(* two insertion orders of the same entries: the maps are Equal, their printed
   texts differ *)
Definition order_matters2 (es1 es2 : list (value * value)) : bool :=
  match map_of es1, map_of es2 with
  | Some a, Some b => wfb a && wfb b && equal a b && equal b a && negb (bytes_eqb (repr0 a) (repr0 b))
  | _, _ => false
  end.
Definition order_matters (es : list (value * value)) : bool := order_matters2 es (rev es).

(* with the tie-break the former witnesses print in one order *)
Lemma old_witnesses_canonical :
  order_matters [(w_int0, VStr [120]); (w_flt0, VStr [121])] = false
  /\ order_matters [(w_int, VStr [120]); (w_flt, VStr [121])] = false
  /\ order_matters [(w_mapA, VStr [120]); (w_mapB, VStr [121])] = false
  /\ order_matters [(w_lstA, VStr [120]); (w_lstB, VStr [121])] = false.
Proof. vm_compute. repeat split. Qed.

(* the comparison of reprMap is cyclic on the triple: c < f and f < z by the
   texts (both tie with f), z < c by value *)
Definition lt0 (a b : value) : bool :=
  @key_lt rk0 unit (a, (repr0 a, tt)) (b, (repr0 b, tt)).
Lemma cyclic_triple : lt0 w_c w_f = true /\ lt0 w_f w_z = true /\ lt0 w_z w_c = true.
Proof. vm_compute. repeat split. Qed.

Definition es_zf := [(w_c, VStr [118]); (w_z, VStr [118]); (w_f, VStr [118])].
Definition es_fz := [(w_c, VStr [118]); (w_f, VStr [118]); (w_z, VStr [118])].

Lemma repr_order_refuted_w :
  exists es1 es2 a b, Permutation es1 es2 /\ map_of es1 = Some a /\ map_of es2 = Some b
    /\ wfb a = true /\ wfb b = true /\ equal a b = true /\ repr0 a <> repr0 b.
Proof.
  exists es_zf, es_fz. eexists. eexists.
  split; [unfold es_zf, es_fz; apply perm_skip, perm_swap|].
  split; [vm_compute; reflexivity|]. split; [vm_compute; reflexivity|].
  split; [vm_compute; reflexivity|]. split; [vm_compute; reflexivity|]. split; [vm_compute; reflexivity|].
  vm_compute. discriminate.
Qed.

(* at the level of iteration orders no collision is needed: the sort itself
   depends on the order in which the three entries arrive *)
Lemma sort_cyclic_w :
  repr0 (VMap es_zf) <> repr0 (VMap (rev es_zf)).
Proof. vm_compute. discriminate. Qed.
