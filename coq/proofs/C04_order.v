(* C04 — the printed order of map entries.
   (1) insertion sort gives one result for all permutations of its input when
       the comparison is a strict linear order on the elements present;
   (2) hence repr of a map does not depend on the iteration (insertion) order
       when no two entries tie and CmpTotal is a strict order on the keys;
   (3) in general it does: two keys that tie and collide in the hash come out
       of the hash map (C07's trie model) in insertion order and are printed in
       that order — a closed witness. *)
From verif Require Import lib.Base lib.Utf8 model.C03 model.C08_Value model.C04 proofs.C04_text.
From verif Require model.C05 model.C07.
From Coq Require Import Permutation Sorted QArith.
Close Scope Q_scope.
Open Scope N_scope.

Section SortUnique.
  Context {A : Type}.
  Variable lt : A -> A -> bool.
  Variable P : A -> Prop.          (* the elements around *)
  Hypothesis total : forall a b, P a -> P b -> lt a b = true \/ lt b a = true \/ a = b.
  Hypothesis asym : forall a b, P a -> P b -> lt a b = true -> lt b a = false.
  Hypothesis trans : forall a b c, P a -> P b -> P c -> lt a b = true -> lt b c = true -> lt a c = true.

  (* descending: no element is less than a later one *)
  Definition Rr (a b : A) : Prop := lt a b = false.

  Lemma ge_trans x y z : P x -> P y -> P z -> lt x y = false -> lt y z = false -> lt x z = false.
  Proof.
    intros Px Py Pz H1 H2.
    destruct (total x y Px Py) as [E|[E|E]]; [congruence| |subst; exact H2].
    destruct (total y z Py Pz) as [F|[F|F]]; [congruence| |subst; exact H1].
    apply (asym z x Pz Px). exact (trans z y x Pz Py Px F E).
  Qed.

  Lemma ins_rev_sorted x racc : P x -> Forall P racc ->
    StronglySorted Rr racc -> StronglySorted Rr (ins_rev lt x racc).
  Proof.
    intros Px. induction racc as [|y r IH]; intros HP HS; cbn [ins_rev].
    - constructor; constructor.
    - inversion HS as [|? ? HS' Hy]; subst. inversion HP as [|? ? Py Pr]; subst.
      destruct (lt x y) eqn:E.
      + constructor; [apply IH; assumption|].
        eapply Permutation_Forall; [apply ins_rev_perm|].
        constructor; [exact (asym x y Px Py E)|exact Hy].
      + constructor; [exact HS|]. constructor; [exact E|].
        rewrite Forall_forall in *. intros z Hz. apply (ge_trans x y z); auto. apply Hy, Hz.
  Qed.

  Lemma fold_sorted l : forall racc, Forall P l -> Forall P racc -> StronglySorted Rr racc ->
    StronglySorted Rr (fold_left (fun r x => ins_rev lt x r) l racc).
  Proof.
    induction l as [|x l IH]; intros racc Hl Hr HS; [exact HS|]. cbn [fold_left].
    inversion Hl; subst. apply IH; [assumption| |apply ins_rev_sorted; assumption].
    eapply Permutation_Forall; [apply ins_rev_perm|]. constructor; assumption.
  Qed.

  Lemma sorted_unique l1 : forall l2, Forall P l1 ->
    StronglySorted Rr l1 -> StronglySorted Rr l2 -> Permutation l1 l2 -> l1 = l2.
  Proof.
    induction l1 as [|a l1 IH]; intros l2 HP S1 S2 Pm.
    - apply Permutation_nil in Pm. congruence.
    - destruct l2 as [|b l2]; [apply Permutation_sym, Permutation_nil in Pm; discriminate|].
      inversion S1 as [|? ? S1' Ha]; subst. inversion S2 as [|? ? S2' Hb]; subst.
      inversion HP as [|? ? Pa Pl]; subst.
      assert (Pb : P b).
      { rewrite Forall_forall in HP. apply HP. eapply Permutation_in; [apply Permutation_sym, Pm|left; reflexivity]. }
      assert (E : a = b).
      { assert (I1 : In a (b :: l2)) by (eapply Permutation_in; [exact Pm|left; reflexivity]).
        assert (I2 : In b (a :: l1)) by (eapply Permutation_in; [apply Permutation_sym, Pm|left; reflexivity]).
        destruct I1 as [->|I1]; [reflexivity|]. destruct I2 as [->|I2]; [reflexivity|].
        rewrite Forall_forall in Ha, Hb. specialize (Ha b I2). specialize (Hb a I1). unfold Rr in *.
        destruct (total a b Pa Pb) as [T|[T|T]]; congruence. }
      subst b. f_equal. apply IH; try assumption. eapply Permutation_cons_inv. exact Pm.
  Qed.

  Lemma fold_perm_nil l : Permutation l (fold_left (fun r x => ins_rev lt x r) l []).
  Proof.
    eapply perm_trans; [apply Permutation_rev|].
    pose proof (fold_ins_perm lt l []) as H. rewrite app_nil_r in H. exact H.
  Qed.

  Theorem isort_canonical l1 l2 : Forall P l1 -> Permutation l1 l2 -> isort lt l1 = isort lt l2.
  Proof.
    intros HP Pm. unfold isort. f_equal.
    assert (HP2 : Forall P l2) by (eapply Permutation_Forall; eassumption).
    apply sorted_unique.
    - eapply Permutation_Forall; [apply fold_perm_nil|exact HP].
    - apply fold_sorted; [assumption|constructor|constructor].
    - apply fold_sorted; [assumption|constructor|constructor].
    - eapply perm_trans; [apply Permutation_sym, fold_perm_nil|].
      eapply perm_trans; [exact Pm|apply fold_perm_nil].
  Qed.
End SortUnique.

(* ------------------------------------------------------------------ *)
(* CmpTotal is a strict linear order on the keys present and no two different
   entries tie *)
Record StrictKeys (rk : N -> Z) (m : list (value * value)) : Prop := {
  sk_tie : forall e1 e2, In e1 m -> In e2 m -> cmp_total4 rk (fst e1) (fst e2) = OEq -> e1 = e2;
  sk_flip : forall e1 e2, In e1 m -> In e2 m ->
    cmp_total4 rk (fst e1) (fst e2) = OGt -> cmp_total4 rk (fst e2) (fst e1) = OLt;
  sk_asym : forall e1 e2, In e1 m -> In e2 m ->
    cmp_total4 rk (fst e1) (fst e2) = OLt -> cmp_total4 rk (fst e2) (fst e1) <> OLt;
  sk_trans : forall e1 e2 e3, In e1 m -> In e2 m -> In e3 m ->
    cmp_total4 rk (fst e1) (fst e2) = OLt -> cmp_total4 rk (fst e2) (fst e3) = OLt ->
    cmp_total4 rk (fst e1) (fst e3) = OLt
}.

Lemma cmp_total4_never_unc rk a b : cmp_total4 rk a b <> OUn.
Proof.
  destruct a; cbn [cmp_total4];
    match goal with |- context [Z.compare ?x ?y] => destruct (Z.compare x y) end; try discriminate;
    match goal with |- lift_total ?o <> OUn => destruct o; discriminate end.
Qed.

Section ReprOrder.
Variable is_print : N -> bool.
Variable fmtF fmtE : N -> bytes.
Variable rk : N -> Z.

Theorem repr_order_canonical_partial m1 m2 ind :
  Permutation m1 m2 -> StrictKeys rk m1 ->
  repr is_print fmtF fmtE rk (VMap m1) ind = repr is_print fmtF fmtE rk (VMap m2) ind.
Proof.
  intros Pm SK. cbn [repr]. f_equal. f_equal.
  set (dec := fun e : value * value =>
    (fst e, (repr is_print fmtF fmtE rk (fst e) (ind + 1), repr is_print fmtF fmtE rk (snd e) (ind + 2)))).
  rewrite !(isort_map (@key_lt rk value) (@key_lt rk (bytes * bytes)) dec (fun a b => eq_refl)).
  f_equal.
  apply (isort_canonical (@key_lt rk value) (fun e => In e m1)).
  - intros a b Ha Hb. unfold key_lt.
    destruct (cmp_total4 rk (fst a) (fst b)) eqn:E.
    + left. reflexivity.
    + right. right. apply (sk_tie rk m1 SK); assumption.
    + right. left. rewrite (sk_flip rk m1 SK a b Ha Hb E). reflexivity.
    + exfalso. exact (cmp_total4_never_unc rk _ _ E).
  - intros a b Ha Hb. unfold key_lt. destruct (cmp_total4 rk (fst a) (fst b)) eqn:E; try discriminate.
    intros _. pose proof (sk_asym rk m1 SK a b Ha Hb E) as N.
    destruct (cmp_total4 rk (fst b) (fst a)); try reflexivity. congruence.
  - intros a b c Ha Hb Hc. unfold key_lt.
    destruct (cmp_total4 rk (fst a) (fst b)) eqn:E1; try discriminate.
    destruct (cmp_total4 rk (fst b) (fst c)) eqn:E2; try discriminate.
    intros _ _. rewrite (sk_trans rk m1 SK a b c Ha Hb Hc E1 E2). reflexivity.
  - apply Forall_forall. auto.
  - exact Pm.
Qed.
(* the same through nesting: repr is compositional, so values whose parts print
   alike print alike; with the theorem above this covers maps rebuilt in other
   insertion orders anywhere inside lists and map values *)
Definition SameText (v v' : value) : Prop :=
  forall ind, repr is_print fmtF fmtE rk v ind = repr is_print fmtF fmtE rk v' ind.

Lemma same_text_list s s' l l' : Forall2 SameText l l' -> SameText (VList s l) (VList s' l').
Proof.
  intros F ind. cbn [repr]. f_equal.
  generalize (@nil N) as buf. induction F as [|e e' l l' H _ IH]; intros buf; [reflexivity|].
  cbn [fold_left]. rewrite (H (ind + 1)%Z). apply IH.
Qed.

Lemma same_text_map_pointwise m m' :
  Forall2 (fun e e' => fst e = fst e' /\ SameText (snd e) (snd e')) m m' -> SameText (VMap m) (VMap m').
Proof.
  intros F ind. cbn [repr]. f_equal. f_equal. f_equal.
  induction F as [|e e' m m' [Hk Hv] _ IH]; [reflexivity|]. cbn [map].
  rewrite Hk, (Hv (ind + 2)%Z), IH. reflexivity.
Qed.

Theorem repr_order_canonical_nested_partial m m'' m' :
  Permutation m m'' -> StrictKeys rk m ->
  Forall2 (fun e e' => fst e = fst e' /\ SameText (snd e) (snd e')) m'' m' ->
  SameText (VMap m) (VMap m').
Proof.
  intros Pm SK F ind. rewrite (repr_order_canonical_partial m m'' ind Pm SK).
  apply same_text_map_pointwise. exact F.
Qed.
End ReprOrder.

(* ------------------------------------------------------------------ *)
(* the refutation: maps built by the trie model of pkg/persistent/hashmap
   (model/C07.v) with vals.Hash and vals.Equal (model/C08_Value.v) *)
Definition trie := C07.hmap value value.
Definition okey (k : value) : option value := match k with VNil => None | _ => Some k end.
Definition trie_build (es : list (value * value)) : option trie :=
  fold_left (fun om e => match om with
                         | Some m => C07.Assoc value value equal hash m (okey (fst e)) (snd e)
                         | None => None
                         end) es (Some C07.empty).
Definition trie_iter (m : trie) : list (value * value) :=
  map (fun kv => (match fst kv with Some k => k | None => VNil end, snd kv)) (C07.Iter m).
(* the map value whose entries were inserted in the order given *)
Definition map_of (es : list (value * value)) : option value :=
  match trie_build es with Some m => Some (VMap (trie_iter m)) | None => None end.

Definition rk0 (t : N) : Z := Z.of_N t.
Definition fmtF0 (b : N) : bytes := if b =? 0 then [48] else [49; 52; 55; 55; 56; 56; 52; 55; 56; 50].
Definition repr0 (v : value) : bytes := ReprPlain ascii_print fmtF0 fmtF0 rk0 v.

(* keys that tie under CmpTotal, are not Equal, and have the same Hash *)
Definition tie_collide (a b : value) : bool :=
  ordering_eqb (cmp_total4 rk0 a b) OEq && negb (equal a b) && (hash a =? hash b).

Definition w_int0 := VInt 0.
Definition w_flt0 := VFloat 0.
Definition w_int := VInt 1477884782.
Definition w_flt := VFloat 4743985506046443520.        (* 1477884782.0 *)
Definition w_mapA := VMap [(VStr [107], VStr [97; 98])].     (* [&k=ab] *)
Definition w_mapB := VMap [(VStr [107], VStr [98; 65])].     (* [&k=bA] *)
Definition w_lstA := VList false [VMap [(VStr [97; 98], VInt 1)]].
Definition w_lstB := VList false [VMap [(VStr [98; 65], VInt 1)]].

Lemma planted_pairs_tie_and_collide :
  tie_collide w_int0 w_flt0 = true /\ tie_collide w_int w_flt = true
  /\ tie_collide w_mapA w_mapB = true /\ tie_collide w_lstA w_lstB = true.
Proof. vm_compute. repeat split. Qed.

(* two insertion orders of the same two entries: the maps are Equal, their
   printed texts differ *)
Definition order_matters (es : list (value * value)) : bool :=
  match map_of es, map_of (rev es) with
  | Some a, Some b => wfb a && wfb b && equal a b && equal b a && negb (bytes_eqb (repr0 a) (repr0 b))
  | _, _ => false
  end.

Lemma repr_order_refuted_w :
  exists es a b, map_of es = Some a /\ map_of (rev es) = Some b
    /\ wfb a = true /\ wfb b = true /\ equal a b = true /\ repr0 a <> repr0 b.
Proof.
  exists [(w_int0, VStr [120]); (w_flt0, VStr [121])].
  eexists. eexists. split; [vm_compute; reflexivity|]. split; [vm_compute; reflexivity|].
  split; [vm_compute; reflexivity|]. split; [vm_compute; reflexivity|]. split; [vm_compute; reflexivity|].
  vm_compute. discriminate.
Qed.

Lemma order_matters_all :
  order_matters [(w_int0, VStr [120]); (w_flt0, VStr [121])] = true
  /\ order_matters [(w_int, VStr [120]); (w_flt, VStr [121])] = true
  /\ order_matters [(w_mapA, VStr [120]); (w_mapB, VStr [121])] = true
  /\ order_matters [(w_lstA, VStr [120]); (w_lstB, VStr [121])] = true
  (* control: tie without collision is printed in one order *)
  /\ order_matters [(VInt 1, VStr [120]); (VFloat 4607182418800017408, VStr [121])] = false.
Proof. vm_compute. repeat split. Qed.
