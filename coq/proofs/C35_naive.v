(* C35: the opener lower bounds (openersBottom) of processEmphasis are only an
   optimisation: on delimiter stacks as the inline parser builds them (ids
   increase along the stack, closers are star or underscore runs) the model
   computes exactly what the loop that always searches the whole stack computes. *)
From Coq Require Import Arith Sorted.
From verif Require Import lib.Base lib.ListX model.C35_Bal model.C35_Inline model.C35.
Open Scope nat_scope.

Definition closer_ok (c : delim) : Prop := d_typ c = 42%N \/ d_typ c = 95%N.

Fixpoint dids (l : list entry) : list nat :=
  match l with
  | EDelim d :: r => d_id d :: dids r
  | EItem _ :: r => dids r
  | [] => []
  end.

Lemma bucket_inj c c' : closer_ok c -> closer_ok c' -> bucket c = bucket c' ->
  d_typ c = d_typ c' /\ d_n c mod 3 = d_n c' mod 3 /\ d_open c = d_open c'.
Proof.
  unfold bucket, closer_ok, US. intros H H' E.
  pose proof (Nat.mod_upper_bound (d_n c) 3 ltac:(lia)) as B1.
  pose proof (Nat.mod_upper_bound (d_n c') 3 ltac:(lia)) as B2.
  remember (d_n c mod 3) as m. remember (d_n c' mod 3) as m'.
  destruct H as [H|H], H' as [H'|H']; rewrite H, H' in *;
    change (N.eqb 42 95) with false in E; change (N.eqb 95 95) with true in E;
    destruct (d_open c), (d_open c'); repeat split; try reflexivity; lia.
Qed.

Lemma suitable_bucket p c c' : closer_ok c -> closer_ok c' -> bucket c = bucket c' ->
  suitable p c = suitable p c'.
Proof.
  intros H H' E. destruct (bucket_inj c c' H H' E) as (T & M & O).
  unfold suitable. rewrite T, O.
  rewrite (Nat.add_mod (d_n p) (d_n c) 3), (Nat.add_mod (d_n p) (d_n c') 3) by lia.
  rewrite M. reflexivity.
Qed.

Lemma suitable_use p k c : suitable (use p k) c = suitable p c.
Proof. reflexivity. Qed.

(* what find_opener returns is a split of the stack *)
Lemma find_opener_split : forall left stop c btw o rest,
  find_opener left stop c = Some (btw, o, rest) ->
  dids left = dids btw ++ d_id o :: dids rest
  /\ (forall p, In (EDelim p) rest -> In (EDelim p) left) /\ In (EDelim o) left.
Proof.
  induction left as [|e left IH]; intros stop c btw o rest H; [discriminate|].
  destruct e as [p|i]; simpl in H.
  - destruct (match stop with Some id => Nat.eqb id (d_id p) | None => false end); [discriminate|].
    destruct (suitable p c).
    + inversion H; subst. simpl. repeat split; auto.
    + destruct (find_opener left stop c) as [[[b o'] r]|] eqn:E; [|discriminate].
      inversion H; subst. destruct (IH _ _ _ _ _ E) as (D & S1 & S2).
      simpl. rewrite D. repeat split; auto; try (intros q Hq; right; auto); try (right; auto).
  - destruct (find_opener left stop c) as [[[b o'] r]|] eqn:E; [|discriminate].
    inversion H; subst. destruct (IH _ _ _ _ _ E) as (D & S1 & S2).
    simpl. repeat split; auto; try (intros q Hq; right; auto); try (right; auto).
Qed.

Lemma find_opener_none_all : forall left c,
  find_opener left None c = None -> forall p, In (EDelim p) left -> suitable p c = false.
Proof.
  induction left as [|e left IH]; intros c H p Hp; [destruct Hp|].
  destruct e as [q|i]; simpl in H.
  - destruct (suitable q c) eqn:S; [discriminate|].
    destruct (find_opener left None c) as [[[b o'] r]|] eqn:E; [discriminate|].
    destruct Hp as [Hp|Hp]; [inversion Hp; subst; exact S|]. eapply IH; eauto.
  - destruct (find_opener left None c) as [[[b o'] r]|] eqn:E; [discriminate|].
    destruct Hp as [Hp|Hp]; [discriminate|]. eapply IH; eauto.
Qed.

Lemma dids_in l p : In (EDelim p) l -> In (d_id p) (dids l).
Proof.
  induction l as [|e l IH]; intros H; [destruct H|]. destruct e as [q|i]; simpl.
  - destruct H as [H|H]; [inversion H; subst; left; reflexivity|right; auto].
  - destruct H as [H|H]; [discriminate|auto].
Qed.

(* the stop marker changes nothing when everything at or below it is unsuitable *)
Lemma find_opener_stop : forall left id c,
  StronglySorted gt (dids left) ->
  (forall p, In (EDelim p) left -> d_id p <= id -> suitable p c = false) ->
  find_opener left (Some id) c = find_opener left None c.
Proof.
  induction left as [|e left IH]; intros id c Hs Hu; [reflexivity|].
  destruct e as [p|i]; simpl.
  - simpl in Hs. apply StronglySorted_inv in Hs as [Hs Hall].
    destruct (Nat.eqb id (d_id p)) eqn:E.
    + apply Nat.eqb_eq in E.
      rewrite (Hu p (or_introl eq_refl)) by lia.
      destruct (find_opener left None c) as [[[b o] r]|] eqn:F; [|reflexivity].
      exfalso. destruct (find_opener_split _ _ _ _ _ _ F) as (_ & _ & Ho).
      assert (S1 : suitable o c = false).
      { apply Hu; [right; exact Ho|]. apply dids_in in Ho.
        rewrite Forall_forall in Hall. specialize (Hall _ Ho). lia. }
      (* but find_opener returns a suitable opener *)
      clear -F S1. revert b o r F S1. induction left as [|e l IHl]; intros b o r F S1; [discriminate|].
      destruct e as [q|i]; simpl in F.
      * destruct (suitable q c) eqn:Q.
        -- inversion F; subst. congruence.
        -- destruct (find_opener l None c) as [[[b' o'] r']|] eqn:G; [|discriminate].
           inversion F; subst. eapply IHl; eauto.
      * destruct (find_opener l None c) as [[[b' o'] r']|] eqn:G; [|discriminate].
        inversion F; subst. eapply IHl; eauto.
    + destruct (suitable p c); [reflexivity|].
      rewrite IH; [reflexivity|exact Hs|]. intros q Hq. apply Hu. right. exact Hq.
  - rewrite IH; [reflexivity|exact Hs|]. intros q Hq. apply Hu. right. exact Hq.
Qed.

(* the invariant of the loop *)
Definition right_ok (right : list entry) : Prop :=
  forall c, In (EDelim c) right -> d_close c = true -> closer_ok c.

Definition ob_ok (ob : ob_map2) (left right : list entry) : Prop :=
  forall b id, ob_lookup ob b = Some id ->
    (forall y, In y (dids right) -> id < y) /\
    (forall p, In (EDelim p) left -> d_id p <= id ->
       forall c, closer_ok c -> bucket c = b -> suitable p c = false).

Definition inv (left right : list entry) (ob : ob_map2) : Prop :=
  StronglySorted gt (dids left) /\ StronglySorted lt (dids right) /\
  (forall x y, In x (dids left) -> In y (dids right) -> x < y) /\
  right_ok right /\ ob_ok ob left right.

Lemma nearest_delim_in left id : nearest_delim left = Some id ->
  In id (dids left) /\ forall x, In x (dids left) -> StronglySorted gt (dids left) -> x <= id.
Proof.
  induction left as [|e l IH]; intros H; [discriminate|]. destruct e as [p|i]; simpl in *.
  - inversion H; subst. split; [left; reflexivity|]. intros x [Hx|Hx] Hs; [lia|].
    apply StronglySorted_inv in Hs as [_ Hall]. rewrite Forall_forall in Hall. specialize (Hall _ Hx). lia.
  - apply IH. exact H.
Qed.

Theorem pe_equals_naive : forall fuel left right ob,
  inv left right ob -> pe fuel left right ob = pe_naive fuel left right.
Proof.
  induction fuel as [|f IH]; intros left right ob (Sl & Sr & X & Rk & Ob); [reflexivity|].
  destruct right as [|e r]; [reflexivity|]. cbn [pe pe_naive].
  assert (Rk' : right_ok r) by (intros c Hc; apply Rk; right; exact Hc).
  destruct e as [c|i].
  2:{ apply IH. split; [exact Sl|split; [exact Sr|split; [exact X|split; [exact Rk'|]]]].
      intros b id Hb. destruct (Ob b id Hb) as [O1 O2]. split; [exact O1|].
        intros p [Hp|Hp]; [discriminate|]. apply O2. exact Hp. }
  simpl in Sr. apply StronglySorted_inv in Sr as [Sr Hc_lt]. rewrite Forall_forall in Hc_lt.
  assert (Xc : forall x, In x (dids left) -> x < d_id c) by (intros x Hx; apply X; [exact Hx|left; reflexivity]).
  assert (Xr : forall x y, In x (dids left) -> In y (dids r) -> x < y) by (intros x y Hx Hy; apply X; [exact Hx|right; exact Hy]).
  (* pushing c onto the left keeps the invariant for any ob that is ok *)
  assert (PUSH : forall ob', ob_ok ob' left (EDelim c :: r) ->
            inv (EDelim c :: left) r ob').
  { intros ob' Ob'. split; [|split; [|split; [|split]]]; auto.
    - simpl. constructor; [exact Sl|]. apply Forall_forall. intros x Hx. specialize (Xc x Hx). lia.
    - intros x y [Hx|Hx] Hy; [subst; apply Hc_lt; exact Hy|apply Xr; assumption].
    - intros b id Hb. destruct (Ob' b id Hb) as [O1 O2]. split.
      + intros y Hy. apply O1. right. exact Hy.
      + intros p [Hp|Hp] Hle.
        * inversion Hp; subst. specialize (O1 (d_id p) (or_introl eq_refl)). lia.
        * apply O2; assumption. }
  assert (PUSHI : forall ob' it, ob_ok ob' left (EDelim c :: r) -> inv (EItem it :: left) r ob').
  { intros ob' it Ob'. split; [|split; [|split; [|split]]]; auto.
    intros b id Hb. destruct (Ob' b id Hb) as [O1 O2]. split.
    - intros y Hy. apply O1. right. exact Hy.
    - intros p [Hp|Hp] Hle; [discriminate|]. apply O2; assumption. }
  destruct (negb (d_close c)) eqn:Cl.
  { apply IH. apply PUSH. exact Ob. }
  apply negb_false_iff in Cl.
  assert (Ck : closer_ok c) by (apply Rk; [left; reflexivity|exact Cl]).
  cbv zeta.
  assert (FO : find_opener left (ob_lookup ob (bucket c)) c = find_opener left None c).
  { destruct (ob_lookup ob (bucket c)) as [id|] eqn:L; [|reflexivity].
    apply find_opener_stop; [exact Sl|]. destruct (Ob _ _ L) as [_ O2].
    intros p Hp Hle. apply (O2 p Hp Hle c Ck eq_refl). }
  rewrite FO.
  destruct (find_opener left None c) as [[[btw o] rest]|] eqn:F.
  - (* match *)
    destruct (find_opener_split _ _ _ _ _ _ F) as (D & Sub & Ho).
    set (k := if Nat.leb 2 (d_rem o) && Nat.leb 2 (d_rem c) then 2 else 1).
    assert (Srest : StronglySorted gt (d_id o :: dids rest)).
    { rewrite D in Sl. clear -Sl. induction (dids btw) as [|x l IHl]; [exact Sl|].
      simpl in Sl. apply StronglySorted_inv in Sl as [Sl _]. auto. }
    assert (Inrest : forall x, In x (d_id o :: dids rest) -> In x (dids left)).
    { intros x Hx. rewrite D. apply in_or_app. right. exact Hx. }
    set (left' := EItem (INode (Nat.leb 2 (d_rem o) && Nat.leb 2 (d_rem c)) (map demote (rev btw)))
                  :: (if Nat.eqb (d_rem (use o k)) 0 then rest else EDelim (use o k) :: rest)).
    assert (DL : forall x, In x (dids left') -> In x (d_id o :: dids rest)).
    { unfold left'. simpl. destruct (Nat.eqb (d_rem o - k) 0); simpl; intros x Hx; [right; exact Hx|exact Hx]. }
    assert (SL' : StronglySorted gt (dids left')).
    { unfold left'. simpl. destruct (Nat.eqb (d_rem o - k) 0); simpl.
      - apply StronglySorted_inv in Srest as [S _]. exact S.
      - exact Srest. }
    assert (InL' : forall p, In (EDelim p) left' -> exists q, In (EDelim q) left /\ d_id q = d_id p /\ (forall c0, suitable p c0 = suitable q c0)).
    { unfold left'. intros p [Hp|Hp]; [discriminate|].
      destruct (Nat.eqb (d_rem (use o k)) 0).
      - exists p. repeat split; auto.
      - destruct Hp as [Hp|Hp].
        + inversion Hp; subst. exists o. repeat split; auto.
        + exists p. repeat split; auto. }
    assert (OB' : forall right', (forall y, In y (dids right') -> In y (dids (EDelim c :: r))) -> ob_ok ob left' right').
    { intros right' Hr b id Hb. destruct (Ob b id Hb) as [O1 O2]. split.
      - intros y Hy. apply O1. apply Hr. exact Hy.
      - intros p Hp Hle c0 Hc0 Hb0. destruct (InL' p Hp) as (q & Hq & Eid & Es).
        rewrite Es. apply O2; auto. lia. }
    fold k. fold left'.
    destruct (Nat.eqb (d_rem (use c k)) 0).
    + apply IH. split; [exact SL'|split; [exact Sr|split; [|split; [exact Rk'|]]]].
      * intros x y Hx Hy. apply Xr; [apply Inrest, DL, Hx|exact Hy].
      * apply (OB' r). intros y Hy. right. exact Hy.
    + apply IH. split; [exact SL'|split; [|split; [|split]]].
      * simpl. constructor; [exact Sr|]. apply Forall_forall. exact Hc_lt.
      * intros x y Hx Hy. apply X; [apply Inrest, DL, Hx|exact Hy].
      * intros c0 [Hc0|Hc0] Hcl; [inversion Hc0; subst; exact Ck|apply Rk'; assumption].
      * apply (OB' (EDelim (use c k) :: r)). intros y Hy. exact Hy.
  - (* no opener: the bound is set to the nearest delimiter *)
    assert (Ob'' : ob_ok ((bucket c, nearest_delim left) :: ob) left (EDelim c :: r)).
    { intros b id Hb. simpl in Hb. destruct (Nat.eqb b (bucket c)) eqn:B.
      - apply Nat.eqb_eq in B. subst b. destruct (nearest_delim_in left id Hb) as [Hin Hmax]. split.
        + intros y Hy. apply X; assumption.
        + intros p Hp _ c0 Hc0 Hb0. rewrite (suitable_bucket p c0 c Hc0 Ck Hb0).
          eapply find_opener_none_all; eauto.
      - apply Ob. exact Hb. }
    destruct (d_open c); apply IH; [apply PUSH|apply PUSHI]; exact Ob''.
Qed.

Corollary openers_bottom_only_optimises ents fuel :
  StronglySorted lt (dids ents) -> right_ok ents ->
  pe fuel [] ents [] = pe_naive fuel [] ents.
Proof.
  intros Hs Hr. apply pe_equals_naive.
  split; [constructor|split; [exact Hs|split; [intros x y []|split; [exact Hr|]]]].
  intros b id Hb. discriminate.
Qed.

(* the stacks the runner builds (and the parser: bufIdx grows along the stack) *)
Definition be_go := (fix go (i : nat) (l : list din) : list entry :=
     match l with
     | [] => []
     | Din t n o c :: r =>
       (if N.eqb t 120 then EItem (IText i 1) else EDelim (mkDelim i t n n o c)) :: go (S i) r
     end).
Lemma be_sorted : forall l i, StronglySorted lt (dids (be_go i l)) /\ Forall (fun x => i <= x) (dids (be_go i l)).
Proof.
  induction l as [|[t n o c] r IH]; intros i; simpl; [split; constructor|].
  destruct (IH (S i)) as [S1 S2]. destruct (N.eqb t 120); simpl.
  - split; [exact S1|]. eapply Forall_impl; [|exact S2]. simpl. intros; lia.
  - split.
    + constructor; [exact S1|]. eapply Forall_impl; [|exact S2]. simpl. intros; lia.
    + constructor; [lia|]. eapply Forall_impl; [|exact S2]. simpl. intros; lia.
Qed.
Lemma build_entries_sorted ds : StronglySorted lt (dids (build_entries ds)).
Proof. apply (be_sorted ds 0). Qed.
