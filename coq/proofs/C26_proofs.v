(* C26 — proofs: the witness checker is sound; every interleaving of the server
   model produces a linearizable history; unique sequence numbers and no lost
   or duplicated command as corollaries. *)
From verif Require Import lib.Base model.C24_F64 model.C24_StoreSpec model.C24 model.C26
  proofs.C24_proofs proofs.C24_more.
From Coq Require Import Floats.SpecFloat Sorting.Sorted Sorting.Permutation Lia.
Open Scope N_scope.

(* ------------------------------------------------------------------ *)
(* linearizability *)
Definition ret_time (h : history) (i : nat) : option N :=
  match nth_error h i with Some c => option_map snd (k_ret c) | None => None end.
Definition inv_time (h : history) (i : nat) : option N := option_map k_inv (nth_error h i).

(* a precedes b in real time: a's response came before b's invocation *)
Definition precedes (h : history) (a b : nat) : Prop :=
  exists ta tb, ret_time h a = Some ta /\ inv_time h b = Some tb /\ ta < tb.

(* replaying the calls in [order] on the specification yields every returned
   result (a Dirs listing up to the order among equal scores) *)
Fixpoint Legal (h : history) (st : sstate) (order : list nat) : Prop :=
  match order with
  | [] => True
  | i :: r =>
    exists c, nth_error h i = Some c
      /\ (forall o t, k_ret c = Some (o, t) -> res_ok (snd (spec_step isort_desc st (k_op c))) o)
      /\ Legal h (fst (spec_step isort_desc st (k_op c))) r
  end.

(* [order]: a total order on a set of calls that contains every returned call
   (calls still pending may or may not have taken effect), consistent with real
   time and with the sequential specification *)
Definition Linearization (st0 : sstate) (h : history) (order : list nat) : Prop :=
  NoDup order
  /\ (forall i c, nth_error h i = Some c -> k_ret c <> None -> In i order)
  /\ ForallOrdPairs (fun a b => ~ precedes h b a) order
  /\ Legal h st0 order.

Definition Linearizable (st0 : sstate) (h : history) : Prop :=
  exists order, Linearization st0 h order.

(* ------------------------------------------------------------------ *)
(* soundness of check_witness *)
Lemma existsb_eqb_false x l : existsb (Nat.eqb x) l = false -> ~ In x l.
Proof.
  intros H Hin. assert (E : existsb (Nat.eqb x) l = true).
  { apply existsb_exists. exists x. split; [exact Hin|apply Nat.eqb_refl]. }
  congruence.
Qed.

Lemma existsb_eqb_true x l : existsb (Nat.eqb x) l = true -> In x l.
Proof. intros H. apply existsb_exists in H as [y [Hy E]]. apply Nat.eqb_eq in E. subst. exact Hy. Qed.

Lemma nodupb_sound l : nodupb l = true -> NoDup l.
Proof.
  induction l as [|x l IH]; cbn [nodupb]; intros H; [constructor|].
  apply andb_true_iff in H as [H1 H2]. apply negb_true_iff in H1.
  constructor; [apply existsb_eqb_false, H1|apply IH, H2].
Qed.

Lemma returned_in_sound h order : returned_in h order = true ->
  forall i c, nth_error h i = Some c -> k_ret c <> None -> In i order.
Proof.
  unfold returned_in. intros H i c Hc Hr. rewrite forallb_forall in H.
  assert (Hi : In i (seq 0 (length h))).
  { apply in_seq. split; [lia|]. cbn. apply nth_error_Some. congruence. }
  specialize (H i Hi). rewrite Hc in H. destruct (k_ret c); [|congruence].
  apply existsb_eqb_true, H.
Qed.

Lemma rt_walk_sound h order : forall m, rt_walk h m order = true ->
  Forall (fun x => forall t, ret_time h x = Some t -> m <= t) order
  /\ ForallOrdPairs (fun a b => ~ precedes h b a) order.
Proof.
  induction order as [|i r IH]; intros m H; cbn [rt_walk] in H; [split; constructor|].
  destruct (nth_error h i) as [c|] eqn:Ec; [|discriminate].
  apply andb_true_iff in H as [H1 H2]. destruct (IH _ H2) as [IH1 IH2].
  split.
  - constructor.
    + intros t Ht. unfold ret_time in Ht. rewrite Ec in Ht.
      destruct (k_ret c) as [[o t']|]; [|discriminate]. cbn in Ht. injection Ht as <-.
      apply N.leb_le, H1.
    + eapply Forall_impl; [|exact IH1]. cbn beta. intros x Hx t Ht. specialize (Hx t Ht). lia.
  - constructor; [|exact IH2].
    rewrite Forall_forall in *. intros x Hx (ta & tb & Ha & Hb & Hlt).
    specialize (IH1 x Hx ta Ha). unfold inv_time in Hb. rewrite Ec in Hb. cbn in Hb.
    injection Hb as <-. lia.
Qed.

Lemma replay_sound h order : forall st, replay h st order = true -> Legal h st order.
Proof.
  induction order as [|i r IH]; intros st H; cbn [replay Legal] in *; [exact I|].
  destruct (nth_error h i) as [c|]; [|discriminate]. exists c. split; [reflexivity|].
  destruct (spec_step isort_desc st (k_op c)) as [st' e]. cbn [fst snd].
  apply andb_true_iff in H as [H1 H2]. split; [|apply IH, H2].
  intros o t Ho. rewrite Ho in H1. apply res_match_sound, H1.
Qed.

Lemma check_witness_linearization st0 h order :
  check_witness st0 h order = true -> Linearization st0 h order.
Proof.
  unfold check_witness. intros H.
  apply andb_true_iff in H as [H H4]. apply andb_true_iff in H as [H H3].
  apply andb_true_iff in H as [H1 H2].
  split; [apply nodupb_sound, H1|]. split; [apply returned_in_sound, H2|].
  split; [apply (rt_walk_sound h order 0 H3)|apply replay_sound, H4].
Qed.

Lemma check_witness_sound st0 h order : check_witness st0 h order = true -> Linearizable st0 h.
Proof. intros H. exists order. apply check_witness_linearization, H. Qed.

(* ------------------------------------------------------------------ *)
(* small list facts *)
Lemma NoDup_snoc {A} (l : list A) x : NoDup l -> ~ In x l -> NoDup (l ++ [x]).
Proof.
  induction l as [|a l IH]; intros Hn Hx; cbn; [constructor; [intros []|constructor]|].
  inversion Hn as [|? ? Ha Hl]; subst. constructor.
  - intros Hin. apply in_app_or in Hin as [Hin|[<-|[]]]; [contradiction|]. apply Hx. left. reflexivity.
  - apply IH; [exact Hl|]. intros Hin. apply Hx. right. exact Hin.
Qed.

Lemma fop_snoc {A} (P : A -> A -> Prop) l x :
  ForallOrdPairs P l -> Forall (fun a => P a x) l -> ForallOrdPairs P (l ++ [x]).
Proof.
  induction 1 as [|a l Ha Hl IH]; intros Hx; cbn; [constructor; constructor|].
  inversion Hx as [|? ? Hax Hlx]; subst. constructor.
  - apply Forall_app. split; [exact Ha|constructor; [exact Hax|constructor]].
  - apply IH, Hlx.
Qed.

Lemma fop_weaken {A} (P Q : A -> A -> Prop) l :
  (forall a b, In a l -> In b l -> P a b -> Q a b) -> ForallOrdPairs P l -> ForallOrdPairs Q l.
Proof.
  intros H Hp. induction Hp as [|a l Ha Hl IH]; [constructor|]. constructor.
  - rewrite Forall_forall in *. intros b Hb. apply H; [left; reflexivity|right; exact Hb|apply Ha, Hb].
  - apply IH. intros x y Hx Hy. apply H; right; assumption.
Qed.

Lemma nth_error_set_ret_eq h : forall i c v, nth_error h i = Some c ->
  nth_error (set_ret h i v) i = Some (mkCall (k_client c) (k_op c) (k_inv c) (Some v)).
Proof.
  induction h as [|x h IH]; intros [|i] c v H; cbn in *; try discriminate.
  - injection H as <-. reflexivity.
  - apply IH, H.
Qed.

Lemma nth_error_set_ret_ne h : forall i j v, j <> i -> nth_error (set_ret h i v) j = nth_error h j.
Proof.
  induction h as [|x h IH]; intros [|i] [|j] v H; cbn; try reflexivity; try lia.
  apply IH. lia.
Qed.

Lemma length_set_ret h : forall i v, length (set_ret h i v) = length h.
Proof. induction h as [|x h IH]; intros [|i] v; cbn; try reflexivity. f_equal. apply IH. Qed.

(* ------------------------------------------------------------------ *)
(* the insertion sort that executes the specification is a permutation *)
Lemma ins_desc_perm x l : Permutation (ins_desc x l) (x :: l).
Proof.
  induction l as [|y r IH]; cbn [ins_desc]; [reflexivity|].
  destruct (fltb (snd x) (snd y)); [|reflexivity].
  eapply perm_trans; [apply perm_skip, IH|apply perm_swap].
Qed.

Lemma isort_desc_perm l : Permutation (isort_desc l) l.
Proof.
  unfold isort_desc. induction l as [|x l IH]; cbn [fold_right]; [reflexivity|].
  eapply perm_trans; [apply ins_desc_perm|apply perm_skip, IH].
Qed.

(* any sort routine meeting sort.Sort's contract yields the specification's
   state and an acceptable result *)
Lemma step_sortf sortf st o : sort_contract sortf ->
  fst (spec_step sortf st o) = fst (spec_step isort_desc st o)
  /\ res_ok (snd (spec_step isort_desc st o)) (snd (spec_step sortf st o)).
Proof.
  intros Hs. destruct o; cbn [spec_step fst snd]; (split; [reflexivity|]);
    unfold sp_add, sp_del, sp_get, sp_range, sp_next, sp_prev, sp_next_seq, sp_add_dir, sp_del_dir, sp_dirs;
    cbn [snd]; try reflexivity.
  - destruct (find _ _); reflexivity.
  - destruct (find _ _); reflexivity.
  - destruct (find _ _); reflexivity.
  - destruct d; reflexivity.
  - cbn [res_ok]. destruct (Hs (filter (fun e => negb (mem_bytes (fst e) blacklist)) (s_dirs st))) as [Hp Hd].
    split; [|exact Hd]. eapply perm_trans; [apply isort_desc_perm|symmetry; exact Hp].
Qed.

(* ------------------------------------------------------------------ *)
(* the server model: every interleaving yields a linearizable history *)
Section ServerProof.
  Variable sortf : list dir -> list dir.
  Hypothesis sort_ok : sort_contract sortf.
  Variable st0 : sstate.

  (* the executed requests, in execution order, lead from st0 to the current
     database and produced the recorded results *)
  Fixpoint Run (h : history) (tbl : list (nat * res)) (st : sstate) (order : list nat) (fin : sstate) : Prop :=
    match order with
    | [] => st = fin
    | i :: r =>
      exists c, nth_error h i = Some c
        /\ lookup i tbl = Some (snd (spec_step sortf st (k_op c)))
        /\ Run h tbl (fst (spec_step sortf st (k_op c))) r fin
    end.

  Lemma Run_ext h h' tbl tbl' order : forall st fin,
    (forall j c, In j order -> nth_error h j = Some c ->
       exists c', nth_error h' j = Some c' /\ k_op c' = k_op c) ->
    (forall j, In j order -> lookup j tbl' = lookup j tbl) ->
    Run h tbl st order fin -> Run h' tbl' st order fin.
  Proof.
    induction order as [|i r IH]; intros st fin Hh Ht H; cbn [Run] in *; [exact H|].
    destruct H as (c & Hc & Hl & Hr).
    destruct (Hh i c (or_introl eq_refl) Hc) as (c' & Hc' & Hop).
    exists c'. rewrite Hop. split; [exact Hc'|]. split; [rewrite Ht by (left; reflexivity); exact Hl|].
    apply IH; [|intros; apply Ht; right; assumption|exact Hr].
    intros j cj Hj. apply Hh. right. exact Hj.
  Qed.

  Lemma Run_snoc h tbl order i c : forall st fin,
    Run h tbl st order fin -> nth_error h i = Some c ->
    lookup i tbl = Some (snd (spec_step sortf fin (k_op c))) ->
    Run h tbl st (order ++ [i]) (fst (spec_step sortf fin (k_op c))).
  Proof.
    induction order as [|j r IH]; intros st fin H Hc Hl; cbn [Run app] in *.
    - subst fin. exists c. repeat split; assumption.
    - destruct H as (cj & Hcj & Hlj & Hr). exists cj. split; [exact Hcj|]. split; [exact Hlj|].
      apply IH; assumption.
  Qed.

  Record Inv (s : sv) : Prop := mkInv {
    I_nodup : NoDup (v_lin s);
    I_dom : forall i, In i (v_lin s) -> (i < length (v_hist s))%nat;
    I_res : forall i, In i (v_lin s) <-> lookup i (v_res s) <> None;
    I_ret : forall i c o t, nth_error (v_hist s) i = Some c -> k_ret c = Some (o, t) ->
              lookup i (v_res s) = Some o /\ t < v_clock s;
    I_inv : forall i c, nth_error (v_hist s) i = Some c -> k_inv c < v_clock s;
    I_rt : ForallOrdPairs (fun a b => ~ precedes (v_hist s) b a) (v_lin s);
    I_run : Run (v_hist s) (v_res s) st0 (v_lin s) (v_st s) }.

  Lemma Inv_init : Inv (sv_init st0).
  Proof.
    split; cbn [sv_init v_st v_clock v_hist v_lin v_res].
    - constructor.
    - intros i [].
    - intros i. split; [intros []|cbn; congruence].
    - intros [|i] c o t H; discriminate.
    - intros [|i] c H; discriminate.
    - constructor.
    - reflexivity.
  Qed.

  Lemma precedes_same h h' a b :
    ret_time h' a = ret_time h a -> inv_time h' b = inv_time h b ->
    precedes h' a b -> precedes h a b.
  Proof. intros E1 E2 (ta & tb & H1 & H2 & H3). exists ta, tb. rewrite <- E1, <- E2. auto. Qed.

  Lemma Inv_step s a : Inv s -> Inv (sv_step sortf s a).
  Proof.
    intros [Hnd Hdom Hres Hret Hinv Hrt Hrun]. destruct a as [cl o|i|i]; cbn [sv_step].
    - (* invoke *)
      assert (Hnth : forall j, (j < length (v_hist s))%nat ->
                nth_error (v_hist s ++ [mkCall cl o (v_clock s) None]) j = nth_error (v_hist s) j).
      { intros j Hj. apply nth_error_app1, Hj. }
      split; cbn [v_st v_clock v_hist v_lin v_res].
      + exact Hnd.
      + intros j Hj. rewrite app_length. specialize (Hdom j Hj). lia.
      + exact Hres.
      + intros j c o' t Hc Hr.
        destruct (Nat.lt_ge_cases j (length (v_hist s))) as [Hlt|Hge].
        * rewrite Hnth in Hc by exact Hlt. destruct (Hret j c o' t Hc Hr). split; [assumption|lia].
        * rewrite nth_error_app2 in Hc by exact Hge.
          destruct (j - length (v_hist s))%nat as [|k]; cbn in Hc; [|destruct k; discriminate].
          injection Hc as <-. discriminate.
      + intros j c Hc.
        destruct (Nat.lt_ge_cases j (length (v_hist s))) as [Hlt|Hge].
        * rewrite Hnth in Hc by exact Hlt. specialize (Hinv j c Hc). lia.
        * rewrite nth_error_app2 in Hc by exact Hge.
          destruct (j - length (v_hist s))%nat as [|k]; cbn in Hc; [|destruct k; discriminate].
          injection Hc as <-. cbn. lia.
      + eapply fop_weaken; [|exact Hrt]. cbn beta. intros x y Hx Hy Hn Hp. apply Hn.
        eapply precedes_same; [| |exact Hp].
        * unfold ret_time. rewrite Hnth by (apply Hdom, Hy). reflexivity.
        * unfold inv_time. rewrite Hnth by (apply Hdom, Hx). reflexivity.
      + eapply Run_ext; [| |exact Hrun].
        * intros j c Hj Hc. exists c. rewrite Hnth by (apply Hdom, Hj). split; [exact Hc|reflexivity].
        * reflexivity.
    - (* execute *)
      destruct (nth_error (v_hist s) i) as [c|] eqn:Ec; [|split; assumption].
      destruct (lookup i (v_res s)) as [r0|] eqn:El; [split; assumption|].
      destruct (spec_step sortf (v_st s) (k_op c)) as [st' r] eqn:Es.
      assert (Hni : ~ In i (v_lin s)). { intros Hin. apply Hres in Hin. congruence. }
      assert (Hnr : k_ret c = None).
      { destruct (k_ret c) as [[o t]|] eqn:Er; [|reflexivity].
        destruct (Hret i c o t Ec Er) as [Hl _]. congruence. }
      split; cbn [v_st v_clock v_hist v_lin v_res].
      + apply NoDup_snoc; assumption.
      + intros j Hj. apply in_app_or in Hj as [Hj|[<-|[]]]; [apply Hdom, Hj|].
        apply nth_error_Some. congruence.
      + intros j. cbn [lookup]. destruct (Nat.eqb j i) eqn:Eji.
        * apply Nat.eqb_eq in Eji. subst j. split; [discriminate|]. intros _.
          apply in_or_app. right. left. reflexivity.
        * apply Nat.eqb_neq in Eji. rewrite <- Hres. split.
          -- intros Hj. apply in_app_or in Hj as [Hj|[<-|[]]]; [exact Hj|congruence].
          -- intros Hj. apply in_or_app. left. exact Hj.
      + intros j cj o t Hc Hr. destruct (Hret j cj o t Hc Hr) as [Hl Ht]. split; [|lia].
        cbn [lookup]. destruct (Nat.eqb j i) eqn:Eji; [|exact Hl].
        apply Nat.eqb_eq in Eji. subst j. congruence.
      + intros j cj Hc. specialize (Hinv j cj Hc). lia.
      + apply fop_snoc; [exact Hrt|]. apply Forall_forall. intros x Hx (ta & tb & Ha & _).
        unfold ret_time in Ha. rewrite Ec, Hnr in Ha. discriminate.
      + replace st' with (fst (spec_step sortf (v_st s) (k_op c))) by (rewrite Es; reflexivity).
        apply Run_snoc.
        * eapply Run_ext; [| |exact Hrun].
          -- intros j cj Hj Hc. exists cj. split; [exact Hc|reflexivity].
          -- intros j Hj. cbn [lookup]. destruct (Nat.eqb j i) eqn:Eji; [|reflexivity].
             apply Nat.eqb_eq in Eji. subst j. contradiction.
        * exact Ec.
        * cbn [lookup]. rewrite Nat.eqb_refl, Es. reflexivity.
    - (* respond *)
      destruct (nth_error (v_hist s) i) as [c|] eqn:Ec; [|split; assumption].
      destruct (lookup i (v_res s)) as [r|] eqn:El; [|split; assumption].
      destruct (k_ret c) as [x|] eqn:Er; [split; assumption|].
      set (h' := set_ret (v_hist s) i (r, v_clock s)).
      assert (Hi : nth_error h' i = Some (mkCall (k_client c) (k_op c) (k_inv c) (Some (r, v_clock s)))).
      { apply nth_error_set_ret_eq, Ec. }
      assert (Hne : forall j, j <> i -> nth_error h' j = nth_error (v_hist s) j).
      { intros j Hj. apply nth_error_set_ret_ne, Hj. }
      assert (Hinvt : forall j, inv_time h' j = inv_time (v_hist s) j).
      { intros j. unfold inv_time. destruct (Nat.eq_dec j i) as [->|Hj].
        - rewrite Hi, Ec. reflexivity.
        - rewrite Hne by exact Hj. reflexivity. }
      split; cbn [v_st v_clock v_hist v_lin v_res]; fold h'.
      + exact Hnd.
      + intros j Hj. unfold h'. rewrite length_set_ret. apply Hdom, Hj.
      + exact Hres.
      + intros j cj o t Hc Hr. destruct (Nat.eq_dec j i) as [->|Hj].
        * rewrite Hi in Hc. injection Hc as <-. cbn in Hr. injection Hr as <- <-. split; [exact El|lia].
        * rewrite Hne in Hc by exact Hj. destruct (Hret j cj o t Hc Hr). split; [assumption|lia].
      + intros j cj Hc. destruct (Nat.eq_dec j i) as [->|Hj].
        * rewrite Hi in Hc. injection Hc as <-. cbn. specialize (Hinv i c Ec). lia.
        * rewrite Hne in Hc by exact Hj. specialize (Hinv j cj Hc). lia.
      + eapply fop_weaken; [|exact Hrt]. cbn beta. intros x y Hx Hy Hn Hp. apply Hn.
        destruct (Nat.eq_dec y i) as [->|Hyi].
        * (* the call that just responded precedes nothing invoked so far *)
          exfalso. destruct Hp as (ta & tb & Ha & Hb & Hlt).
          unfold ret_time in Ha. rewrite Hi in Ha. cbn in Ha. injection Ha as <-.
          rewrite Hinvt in Hb. unfold inv_time in Hb.
          destruct (nth_error (v_hist s) x) as [cx|] eqn:Ex; [|discriminate].
          cbn in Hb. injection Hb as <-. specialize (Hinv x cx Ex). lia.
        * eapply precedes_same; [|apply Hinvt|exact Hp].
          unfold ret_time. rewrite Hne by exact Hyi. reflexivity.
      + eapply Run_ext; [| |exact Hrun].
        * intros j cj Hj Hc. destruct (Nat.eq_dec j i) as [->|Hji].
          -- rewrite Ec in Hc. injection Hc as <-. eexists. split; [exact Hi|reflexivity].
          -- exists cj. rewrite Hne by exact Hji. split; [exact Hc|reflexivity].
        * reflexivity.
  Qed.

  Lemma Inv_run acts : Inv (sv_run sortf st0 acts).
  Proof.
    unfold sv_run. generalize (sv_init st0) Inv_init. induction acts as [|a acts IH]; intros s Hs; cbn [fold_left].
    - exact Hs.
    - apply IH, Inv_step, Hs.
  Qed.

  Lemma Run_Legal h tbl order : forall st fin,
    (forall i c o t, nth_error h i = Some c -> k_ret c = Some (o, t) -> lookup i tbl = Some o) ->
    Run h tbl st order fin -> Legal h st order.
  Proof.
    induction order as [|i r IH]; intros st fin Hret H; cbn [Run Legal] in *; [exact I|].
    destruct H as (c & Hc & Hl & Hr). exists c. split; [exact Hc|].
    destruct (step_sortf sortf st (k_op c) sort_ok) as [Hst Hok]. split.
    - intros o t Ho. specialize (Hret i c o t Hc Ho). rewrite Hl in Hret. injection Hret as <-. exact Hok.
    - rewrite <- Hst. eapply IH; [exact Hret|exact Hr].
  Qed.

  Lemma server_model_linearizable acts :
    Linearization st0 (v_hist (sv_run sortf st0 acts)) (v_lin (sv_run sortf st0 acts)).
  Proof.
    destruct (Inv_run acts) as [Hnd Hdom Hres Hret Hinv Hrt Hrun].
    split; [exact Hnd|]. split; [|split; [exact Hrt|]].
    - intros i c Hc Hr. destruct (k_ret c) as [[o t]|] eqn:Er; [|congruence].
      apply Hres. destruct (Hret i c o t Hc Er) as [Hl _]. congruence.
    - eapply Run_Legal; [|exact Hrun]. intros i c o t Hc Hr. apply (Hret i c o t Hc Hr).
  Qed.
End ServerProof.

(* ------------------------------------------------------------------ *)
(* corollaries of linearizability *)
Lemma Legal_dom h order : forall st, Legal h st order -> forall i, In i order -> (i < length h)%nat.
Proof.
  induction order as [|j r IH]; intros st H i Hi; [contradiction|].
  cbn [Legal] in H. destruct H as (c & Hc & _ & Hr). destruct Hi as [<-|Hi].
  - apply nth_error_Some. congruence.
  - eapply IH; eassumption.
Qed.

Lemma Legal_length h order st : NoDup order -> Legal h st order -> (length order <= length h)%nat.
Proof.
  intros Hn Hl. rewrite <- (seq_length (length h) 0). apply NoDup_incl_length; [exact Hn|].
  intros i Hi. apply in_seq. pose proof (Legal_dom h order st Hl i Hi). lia.
Qed.

Lemma step_seq_cases st o :
  s_seq st + 1 < two64 ->
  s_seq (fst (spec_step isort_desc st o)) = s_seq st
  \/ s_seq (fst (spec_step isort_desc st o)) = s_seq st + 1.
Proof.
  intros Hb. pose proof (spec_step_seq isort_desc st o) as Hs.
  destruct o; try (left; exact Hs). right. rewrite Hs. apply wrap64_small, Hb.
Qed.

(* a returned AddCmd placed in a legal order got a number above the bucket
   sequence at the start of the order *)
Lemma legal_add_gt h order : forall st, Legal h st order ->
  s_seq st + N.of_nat (length order) < two63 ->
  forall i c t z tm, In i order -> nth_error h i = Some c -> k_op c = OAddCmd t ->
    k_ret c = Some (RInt z, tm) -> (Z.of_N (s_seq st) < z)%Z.
Proof.
  pose proof two63_lt_two64 as H64. unfold two63, two64 in H64.
  induction order as [|j r IH]; intros st H Hb i c t z tm Hi Hc Hop Hr; [contradiction|].
  cbn [Legal length] in *. rewrite Nat2N.inj_succ in Hb.
  destruct H as (cj & Hcj & Hok & Hl).
  destruct (step_seq_cases st (k_op cj) ltac:(unfold two64, two63 in *; lia)) as [E|E].
  - destruct Hi as [<-|Hi].
    + rewrite Hc in Hcj. injection Hcj as <-. rewrite Hop in E.
      cbn [spec_step sp_add fst s_seq] in E. rewrite wrap64_small in E by (unfold two64, two63 in *; lia). lia.
    + specialize (IH _ Hl ltac:(rewrite E; lia) i c t z tm Hi Hc Hop Hr). rewrite E in IH. exact IH.
  - destruct Hi as [<-|Hi].
    + rewrite Hc in Hcj. injection Hcj as <-. specialize (Hok _ _ Hr). rewrite Hop in Hok.
      cbn [spec_step sp_add snd res_ok] in Hok. injection Hok as <-.
      rewrite wrap64_small by (unfold two64, two63 in *; lia).
      rewrite to_int_small by (unfold two63 in *; lia). lia.
    + specialize (IH _ Hl ltac:(rewrite E; lia) i c t z tm Hi Hc Hop Hr). rewrite E in IH. lia.
Qed.

Lemma legal_adds_distinct h order : forall st, Legal h st order ->
  s_seq st + N.of_nat (length order) < two63 ->
  forall i j ci cj ti tj zi zj tmi tmj, In i order -> In j order -> i <> j ->
    nth_error h i = Some ci -> k_op ci = OAddCmd ti -> k_ret ci = Some (RInt zi, tmi) ->
    nth_error h j = Some cj -> k_op cj = OAddCmd tj -> k_ret cj = Some (RInt zj, tmj) ->
    zi <> zj.
Proof.
  pose proof two63_lt_two64 as H64. unfold two63, two64 in H64.
  induction order as [|x r IH]; intros st H Hb i j ci cj ti tj zi zj tmi tmj Hi Hj Hij Hci Hoi Hri Hcj Hoj Hrj;
    [contradiction|].
  cbn [Legal length] in *. rewrite Nat2N.inj_succ in Hb.
  destruct H as (cx & Hcx & Hok & Hl).
  assert (Hhead : forall c t z tm, nth_error h x = Some c -> k_op c = OAddCmd t ->
            k_ret c = Some (RInt z, tm) ->
            z = Z.of_N (s_seq (fst (spec_step isort_desc st (k_op cx))))).
  { intros c t z tm Hc Hop Hr. rewrite Hc in Hcx. injection Hcx as <-. specialize (Hok _ _ Hr).
    rewrite Hop in *. cbn [spec_step sp_add snd fst s_seq res_ok] in *. injection Hok as <-.
    rewrite wrap64_small by (unfold two64, two63 in *; lia).
    rewrite to_int_small by (unfold two63 in *; lia). reflexivity. }
  assert (Hb' : s_seq (fst (spec_step isort_desc st (k_op cx))) + N.of_nat (length r) < two63).
  { destruct (step_seq_cases st (k_op cx) ltac:(unfold two64, two63 in *; lia)) as [E|E]; rewrite E; lia. }
  destruct Hi as [<-|Hi], Hj as [<-|Hj].
  - congruence.
  - rewrite (Hhead _ _ _ _ Hci Hoi Hri).
    pose proof (legal_add_gt h r _ Hl Hb' j cj tj zj tmj Hj Hcj Hoj Hrj). lia.
  - rewrite (Hhead _ _ _ _ Hcj Hoj Hrj).
    pose proof (legal_add_gt h r _ Hl Hb' i ci ti zi tmi Hi Hci Hoi Hri). lia.
  - eapply (IH _ Hl Hb' i j); eassumption.
Qed.

(* sequence numbers are unique across all clients *)
Lemma seq_unique_across_clients st0 h : Linearizable st0 h ->
  s_seq st0 + N.of_nat (length h) < two63 ->
  forall i j ci cj ti tj zi zj tmi tmj, i <> j ->
    nth_error h i = Some ci -> k_op ci = OAddCmd ti -> k_ret ci = Some (RInt zi, tmi) ->
    nth_error h j = Some cj -> k_op cj = OAddCmd tj -> k_ret cj = Some (RInt zj, tmj) ->
    zi <> zj.
Proof.
  intros (order & Hnd & Hall & _ & Hl) Hb i j ci cj ti tj zi zj tmi tmj Hij Hci Hoi Hri Hcj Hoj Hrj.
  pose proof (Legal_length h order st0 Hnd Hl) as Hlen.
  eapply (legal_adds_distinct h order st0 Hl ltac:(lia) i j); try eassumption.
  - eapply Hall; [exact Hci|congruence].
  - eapply Hall; [exact Hcj|congruence].
Qed.
