(* C25 — the acceptor is exact: it accepts (history, acknowledged, observed dump)
   iff the dump shows the state after a prefix containing the acknowledged
   operations. *)
From verif Require Import lib.Base model.C24_F64 model.C24_StoreSpec model.C24 model.C25
  proofs.C24_proofs proofs.C24_more proofs.C25_resmatch proofs.C25_proofs.
From Coq Require Import Floats.SpecFloat Sorting.Sorted Sorting.Permutation Lia.
Open Scope N_scope.

Lemma dump_matches_complete st d : dump_shows st d -> dump_matches st d = true.
Proof.
  unfold dump_shows, dump_s, dump_ops. cbn [spec_run spec_step]. intros H.
  inversion H as [|? ? ? ? H1 H']; subst. inversion H' as [|? ? ? ? H2 H'']; subst.
  inversion H'' as [|? ? ? ? H3 _]; subst.
  unfold dump_matches.
  rewrite (res_match_complete _ _ H1), (res_match_complete _ _ H2), (res_match_complete _ _ H3).
  reflexivity.
Qed.

Lemma crash_ok_complete st h acked obs st' :
  CrashOk st h acked obs st' -> crash_ok st h acked obs = true.
Proof.
  intros (k & Hk & -> & Hd). unfold crash_ok, crash_state.
  pose proof (find_prefix_complete obs h st (length acked) O k Hk (dump_matches_complete _ _ Hd)) as Hne.
  destruct (find_prefix st h (length acked) 0 obs); [reflexivity|congruence].
Qed.

Lemma crash_ok_exact st h acked obs :
  crash_ok st h acked obs = true <-> exists st', CrashOk st h acked obs st'.
Proof.
  split; [apply crash_ok_sound|]. intros [st' H]. eapply crash_ok_complete, H.
Qed.
