(* C01/C02 — proofs about the parser model (model/C01_Parse.v): state
   invariants, the tiling discipline of the node builder, errors in range.
   Organisation: facts about the primitives (next/backup/peek/error), one
   lemma per leaf loop, the builder rules (addSep, push, parseSep,
   parseSpaces), one lemma per node-parser body against an arbitrary record of
   callees that satisfies the specification, and the induction on fuel. *)
From verif Require Import lib.Base lib.Utf8 lib.ListX gen.Consts model.C01_Parse model.C01 proofs.C01_proofs.
From Coq Require Import Arith Lia ZArith.
Open Scope nat_scope.

(* ------------------------------------------------------------- utf8 facts *)
Lemma decode_rune_width s : s <> [] -> 1 <= snd (decode_rune s) <= length s.
Proof.
  intros H. unfold decode_rune.
  repeat (match goal with
          | |- context [match ?x with _ => _ end] => destruct x eqn:?; cbn [snd length]; try lia
          | |- context [if ?x then _ else _] => destruct x eqn:?; cbn [snd length]; try lia
          end).
  all: try congruence.
Qed.

Lemma skipn_nonnil {A} (l : list A) p : p < length l -> skipn p l <> [].
Proof.
  intros H E. assert (length (skipn p l) = 0) by (rewrite E; reflexivity).
  rewrite skipn_length in H0. lia.
Qed.

Section P.
Variable is_print : N -> bool.
Variable src : bytes.
Notation n := (length src).

Notation peek := (peek src).
Notation next := (next src).
Notation adv := (adv src).
Notation backup := (backup src).
Notation error := (error src).

(* positions reachable by decoding forward from 0 *)
Inductive boundary : nat -> Prop :=
| bd0 : boundary 0
| bdS p : boundary p -> p < n -> boundary (p + snd (decode_rune (skipn p src))).

(* the forward/backward width property of UTF-8 decoding, proved in
   proofs/C01_Utf8_proofs.v for every byte string *)
Definition NextBackup : Prop := forall p, boundary p -> p < n ->
  snd (decode_last_rune (firstn (p + snd (decode_rune (skipn p src))) src))
  = snd (decode_rune (skipn p src)).

Hypothesis NB : NextBackup.

Definition PI (ps : pst) : Prop :=
  pos ps <= n /\ boundary (pos ps) /\ (0 < overEOF ps -> pos ps = n).
Definition err_ok (e : nat * nat * N) : Prop := let '(f, t, _) := e in f <= t /\ t <= n.
Definition EI (ps : pst) : Prop := Forall err_ok (errs ps).
Definition SI (ps : pst) : Prop := PI ps /\ EI ps.

Lemma n_eq : C01_Parse.n src = n.
Proof. reflexivity. Qed.

Lemma width_at p : p < n -> 1 <= snd (decode_rune (skipn p src)) /\ p + snd (decode_rune (skipn p src)) <= n.
Proof.
  intros H. pose proof (decode_rune_width (skipn p src) (skipn_nonnil _ _ H)) as W.
  pose proof (skipn_length p src) as L.
  set (w := snd (decode_rune (skipn p src))) in *. clearbody w.
  set (l := length (skipn p src)) in *. clearbody l. lia.
Qed.

Lemma peek_nonneg ps : pos ps <= n -> (0 <= peek ps)%Z -> pos ps < n.
Proof.
  unfold C01_Parse.peek. rewrite n_eq. intros H.
  destruct (Nat.eqb_spec (pos ps) n) as [E|E]; [unfold EOF, pkg_parse.eof; lia|lia].
Qed.

Lemma peek_eof ps : pos ps = n -> peek ps = EOF.
Proof. unfold C01_Parse.peek. rewrite n_eq. intros ->. now rewrite Nat.eqb_refl. Qed.

Lemma next_fst ps : fst (next ps) = peek ps.
Proof.
  unfold C01_Parse.next, C01_Parse.peek. destruct (Nat.eqb _ _); [reflexivity|].
  destruct (decode_rune _); reflexivity.
Qed.

Lemma next_adv ps : next ps = (peek ps, adv ps).
Proof. unfold C01_Parse.adv. rewrite <- next_fst. now destruct (next ps). Qed.

Lemma adv_spec ps : SI ps ->
  SI (adv ps) /\ pos ps <= pos (adv ps) /\ (pos ps < n -> pos ps < pos (adv ps))
  /\ errs (adv ps) = errs ps.
Proof.
  intros [[Hle [Hb Ho]] He]. unfold C01_Parse.adv, C01_Parse.next. rewrite n_eq.
  destruct (Nat.eqb_spec (pos ps) n) as [E|E]; cbn.
  - repeat split; cbn; auto; lia.
  - assert (Hlt : pos ps < n) by lia. destruct (width_at _ Hlt) as [W1 W2].
    destruct (decode_rune (skipn (pos ps) src)) as [r w] eqn:D. cbn in *.
    assert (Hbd : boundary (pos ps + w)).
    { replace w with (snd (decode_rune (skipn (pos ps) src))) by now rewrite D.
      now constructor. }
    repeat split; cbn; auto; try lia.
Qed.

Lemma backup_adv ps : SI ps -> backup (adv ps) = ps.
Proof.
  intros [[Hle [Hb Ho]] He]. unfold C01_Parse.adv, C01_Parse.next, C01_Parse.backup. rewrite n_eq.
  destruct ps as [p o e]. cbn in *.
  destruct (Nat.eqb_spec p n) as [E|E]; cbn; [reflexivity|].
  assert (Hlt : p < n) by lia.
  destruct o as [|o]; [|specialize (Ho ltac:(lia)); lia].
  pose proof (NB p Hb Hlt) as Hnb.
  destruct (decode_rune (skipn p src)) as [r w] eqn:D. cbn in *.
  destruct (decode_last_rune (firstn (p + w) src)) as [r' w'] eqn:D'. cbn in *. subst w'.
  f_equal. lia.
Qed.

Lemma error_pos c ps : pos (error c ps) = pos ps.
Proof. reflexivity. Qed.

Lemma error_SI c ps : SI ps -> SI (error c ps).
Proof.
  intros [[Hle [Hb Ho]] He]. split; [split; [|split]; cbn; auto|].
  unfold EI, C01_Parse.error, errorp. cbn [errs]. constructor; auto.
  unfold err_ok. rewrite n_eq. destruct (Nat.ltb (pos ps) n) eqn:Q; [apply Nat.ltb_lt in Q|]; lia.
Qed.

Lemma errorp_SI a c ps : SI ps -> SI (errorp (pos ps - a) (pos ps) c ps).
Proof.
  intros [[Hle [Hb Ho]] He]. split; [split; [|split]; cbn; auto|].
  unfold EI, errorp. cbn [errs]. constructor; auto. unfold err_ok. lia.
Qed.

Lemma adv_error_pos c ps : pos (adv (error c ps)) = pos (adv ps).
Proof.
  unfold C01_Parse.adv, C01_Parse.next, C01_Parse.error, errorp. cbn [pos overEOF errs].
  destruct (Nat.eqb _ _); [reflexivity|]. destruct (decode_rune _); reflexivity.
Qed.

(* the typical lookahead: next, (peek,) backup *)
Lemma backup_error_adv c ps : SI ps ->
  SI (adv (error c (backup (adv ps)))) /\ pos (adv (error c (backup (adv ps)))) = pos (adv ps).
Proof.
  intros H. rewrite (backup_adv _ H).
  pose proof (error_SI c _ H) as H1. destruct (adv_spec _ H1) as [A _].
  split; auto. apply adv_error_pos.
Qed.

(* ------------------------------------------------------------ leaf loops *)
Definition ScanOK (ps ps' : pst) : Prop := SI ps' /\ pos ps <= pos ps'.

Lemma ScanOK_refl ps : SI ps -> ScanOK ps ps.
Proof. split; auto. Qed.

Lemma ScanOK_trans a b c : ScanOK a b -> ScanOK b c -> ScanOK a c.
Proof. intros [_ H1] [H2 H3]. split; auto. lia. Qed.

Lemma ScanOK_adv ps : SI ps -> ScanOK ps (adv ps).
Proof. intros H. destruct (adv_spec _ H) as [A [B _]]. split; auto. Qed.

Lemma ScanOK_error c ps : SI ps -> ScanOK ps (error c ps).
Proof. intros H. split; [now apply error_SI|cbn; lia]. Qed.

Ltac scan_step :=
  match goal with
  | H : SI ?ps |- ScanOK ?ps ?ps => apply (ScanOK_refl _ H)
  | H : SI ?ps |- ScanOK ?ps (adv ?ps) => apply (ScanOK_adv _ H)
  end.

Lemma commentLoop_ok fu : forall ps ps', SI ps ->
  commentLoop src fu ps = Some ps' -> ScanOK ps ps'.
Proof.
  induction fu as [|fu IH]; intros ps ps' H E; cbn [commentLoop] in E; [discriminate|].
  destruct (_ || _) in E.
  - inversion E; subst. now apply ScanOK_refl.
  - eapply ScanOK_trans; [apply ScanOK_adv; auto|]. apply IH; auto. now apply adv_spec.
Qed.

Lemma spacesLoop_ok fu nl : forall ps ps', SI ps ->
  spacesLoop src fu nl ps = Some ps' -> ScanOK ps ps'.
Proof.
  induction fu as [|fu IH]; intros ps ps' H E; cbn [spacesLoop] in E; [discriminate|].
  pose proof (ScanOK_adv _ H) as A. assert (SI (adv ps)) as H1 by apply A.
  destruct (isInlineWhitespace _) in E.
  { eapply ScanOK_trans; [exact A|]. now apply IH. }
  destruct (_ && _) in E.
  { eapply ScanOK_trans; [exact A|]. now apply IH. }
  destruct (Z.eqb (peek ps) 35) in E.
  { destruct (commentLoop _ _ _) as [ps1|] eqn:C; [|discriminate].
    pose proof (commentLoop_ok _ _ _ H1 C) as C1.
    eapply ScanOK_trans; [exact A|]. eapply ScanOK_trans; [exact C1|]. apply IH; auto. apply C1. }
  destruct (Z.eqb (peek ps) 94) in E; [|inversion E; subst; now apply ScanOK_refl].
  pose proof (ScanOK_adv _ H1) as A2. assert (SI (adv (adv ps))) as H2 by apply A2.
  destruct (Z.eqb (peek (adv ps)) 13) in E.
  { destruct (Z.eqb (peek (adv (adv ps))) 10) in E.
    - eapply ScanOK_trans; [exact A|]. eapply ScanOK_trans; [exact A2|].
      eapply ScanOK_trans; [apply ScanOK_adv; exact H2|]. apply IH; auto. now apply adv_spec.
    - eapply ScanOK_trans; [exact A|]. eapply ScanOK_trans; [exact A2|]. now apply IH. }
  destruct (Z.eqb (peek (adv ps)) 10) in E.
  { eapply ScanOK_trans; [exact A|]. eapply ScanOK_trans; [exact A2|]. now apply IH. }
  destruct (Z.eqb (peek (adv ps)) EOF) in E.
  { eapply ScanOK_trans; [exact A|]. eapply ScanOK_trans; [apply (ScanOK_error errShouldBeNewline); exact H1|].
    apply IH; auto. now apply error_SI. }
  inversion E; subst. rewrite backup_adv by auto. now apply ScanOK_refl.
Qed.

Lemma simpleLoop_ok (cond : pst -> bool) (loop : nat -> pst -> option pst) :
  (forall fu ps, loop (S fu) ps = if cond ps then loop fu (adv ps) else Some ps) ->
  (forall ps, loop 0 ps = None) ->
  forall fu ps ps', SI ps -> loop fu ps = Some ps' ->
  ScanOK ps ps' /\ (cond ps = true -> pos ps < n -> pos ps < pos ps').
Proof.
  intros HS H0. induction fu as [|fu IH]; intros ps ps' H E; [rewrite H0 in E; discriminate|].
  rewrite HS in E. destruct (cond ps) eqn:C.
  - destruct (adv_spec _ H) as [A1 [A2 [A3 _]]].
    destruct (IH _ _ A1 E) as [[B1 B2] _]. split; [split; auto; lia|]. intros _ Hlt. specialize (A3 Hlt). lia.
  - inversion E; subst. split; [now apply ScanOK_refl|discriminate].
Qed.

Lemma redirSignLoop_ok fu ps ps' : SI ps -> redirSignLoop src fu ps = Some ps' ->
  ScanOK ps ps' /\ (isRedirSign (peek ps) = true -> pos ps < n -> pos ps < pos ps').
Proof. apply (simpleLoop_ok (fun ps => isRedirSign (peek ps)) (redirSignLoop src)); reflexivity. Qed.

Lemma barewordLoop_ok fu ctx ps ps' : SI ps -> barewordLoop is_print src fu ctx ps = Some ps' ->
  ScanOK ps ps' /\ (allowedInBareword is_print (peek ps) ctx = true -> pos ps < n -> pos ps < pos ps').
Proof.
  apply (simpleLoop_ok (fun ps => allowedInBareword is_print (peek ps) ctx)
                       (fun fu => barewordLoop is_print src fu ctx)); reflexivity.
Qed.

Lemma varNameLoop_ok fu ps ps' : SI ps -> varNameLoop is_print src fu ps = Some ps' -> ScanOK ps ps'.
Proof.
  intros H E.
  apply (simpleLoop_ok (fun ps => allowedInVariableName is_print (peek ps))
                       (varNameLoop is_print src) ltac:(reflexivity) ltac:(reflexivity) fu ps ps' H E).
Qed.

Lemma starLoop_ok fu ps ps' : SI ps -> starLoop src fu ps = Some ps' ->
  ScanOK ps ps' /\ (Z.eqb (peek ps) 42 = true -> pos ps < n -> pos ps < pos ps').
Proof. apply (simpleLoop_ok (fun ps => Z.eqb (peek ps) 42) (starLoop src)); reflexivity. Qed.

Lemma singleQuotedInner_ok fu : forall ps ps', SI ps ->
  singleQuotedInner src fu ps = Some ps' -> ScanOK ps ps'.
Proof.
  induction fu as [|fu IH]; intros ps ps' H E; cbn [singleQuotedInner] in E; [discriminate|].
  rewrite next_adv in E.
  pose proof (ScanOK_adv _ H) as A. assert (SI (adv ps)) as H1 by apply A.
  destruct (Z.eqb (peek ps) EOF) in E.
  { inversion E; subst. eapply ScanOK_trans; [exact A|]. now apply ScanOK_error. }
  destruct (Z.eqb (peek ps) 39) in E.
  - destruct (Z.eqb (peek (adv ps)) 39) in E.
    + eapply ScanOK_trans; [exact A|]. eapply ScanOK_trans; [apply ScanOK_adv; exact H1|].
      apply IH; auto. now apply adv_spec.
    + inversion E; subst. exact A.
  - eapply ScanOK_trans; [exact A|]. now apply IH.
Qed.

Lemma hexLoop_ok k : forall ps, SI ps -> ScanOK ps (hexLoop src k ps).
Proof.
  induction k as [|k IH]; intros ps H; cbn [hexLoop]; [now apply ScanOK_refl|].
  rewrite next_adv. destruct (isHexDigit _).
  - eapply ScanOK_trans; [apply ScanOK_adv; auto|]. apply IH. now apply adv_spec.
  - rewrite backup_adv by auto. now apply ScanOK_error.
Qed.

Lemma octLoop_ok k : forall rr ps, SI ps -> ScanOK ps (snd (octLoop src k rr ps)).
Proof.
  induction k as [|k IH]; intros rr ps H; cbn [octLoop]; [now apply ScanOK_refl|].
  rewrite next_adv. destruct (_ || _); cbn [snd].
  - rewrite backup_adv by auto. now apply ScanOK_error.
  - eapply ScanOK_trans; [apply ScanOK_adv; auto|]. apply IH. now apply adv_spec.
Qed.

Lemma doubleQuotedInner_ok fu : forall ps ps', SI ps ->
  doubleQuotedInner src fu ps = Some ps' -> ScanOK ps ps'.
Proof.
  induction fu as [|fu IH]; intros ps ps' H E; cbn [doubleQuotedInner] in E; [discriminate|].
  rewrite next_adv in E.
  pose proof (ScanOK_adv _ H) as A. assert (SI (adv ps)) as H1 by apply A.
  destruct (Z.eqb (peek ps) EOF) in E.
  { inversion E; subst. eapply ScanOK_trans; [exact A|]. now apply ScanOK_error. }
  destruct (Z.eqb (peek ps) 34) in E; [inversion E; subst; exact A|].
  destruct (Z.eqb (peek ps) 92) in E; [|eapply ScanOK_trans; [exact A|]; now apply IH].
  rewrite next_adv in E.
  pose proof (ScanOK_adv _ H1) as A2. assert (SI (adv (adv ps))) as H2 by apply A2.
  eapply ScanOK_trans; [exact A|]. eapply ScanOK_trans; [exact A2|].
  destruct (_ || _) in E.
  { rewrite next_adv in E.
    pose proof (ScanOK_adv _ H2) as A3. assert (SI (adv (adv (adv ps)))) as H3 by apply A3.
    eapply ScanOK_trans; [exact A3|].
    destruct (_ || _) in E.
    - destruct (backup_error_adv errInvalidEscapeControl _ H2) as [B1 B2].
      apply IH in E; auto. destruct E as [E1 E2]. split; auto. lia.
    - now apply IH. }
  destruct (_ || _) in E.
  { match type of E with doubleQuotedInner _ _ (hexLoop _ ?k _) = _ =>
      pose proof (hexLoop_ok k _ H2) as HX end.
    eapply ScanOK_trans; [exact HX|]. apply IH; auto. apply HX. }
  destruct (_ && _) in E.
  { pose proof (octLoop_ok 2 (peek (adv ps) - 48)%Z _ H2) as O.
    destruct (octLoop src 2 _ _) as [rr ps3] eqn:OL. cbn in O.
    eapply ScanOK_trans; [exact O|]. destruct (Z.leb rr 255) in E.
    - apply IH; auto. apply O.
    - apply IH in E; [|apply errorp_SI; apply O]. destruct E as [E1 E2]. split; auto. }
  destruct (isDoubleEscape _) in E; [now apply IH|].
  destruct (backup_error_adv errInvalidEscape _ H1) as [B1 B2].
  apply IH in E; auto. destruct E as [E1 E2]. split; auto. lia.
Qed.

Lemma variable_ok ps ps' : SI ps -> (0 <= peek ps)%Z -> variable is_print src ps = Some ps' ->
  ScanOK ps ps' /\ pos ps < pos ps'.
Proof.
  intros H Hp E. unfold variable in E. rewrite next_adv in E.
  destruct (adv_spec _ H) as [H1 [A1 [A2 _]]].
  assert (pos ps < n) as Hlt by (apply peek_nonneg; auto; apply H).
  specialize (A2 Hlt).
  destruct (adv_spec _ H1) as [H2 [A3 _]].
  assert (Hgoal : forall q, ScanOK (adv (adv ps)) q -> ScanOK ps q /\ pos ps < pos q).
  { intros q [Q1 Q2]. split; [split; auto|]; lia. }
  destruct (Z.eqb (peek (adv ps)) EOF) in E.
  { inversion E; subst. destruct (backup_error_adv errShouldBeVariableName _ H1) as [B1 B2].
    split; [split; auto|]; lia. }
  destruct (Z.eqb (peek (adv ps)) 39) in E.
  { apply Hgoal. eapply singleQuotedInner_ok; eauto. }
  destruct (Z.eqb (peek (adv ps)) 34) in E.
  { apply Hgoal. eapply doubleQuotedInner_ok; eauto. }
  destruct (_ && _) in E.
  - rewrite backup_adv in E by auto.
    apply varNameLoop_ok in E; [|now apply error_SI]. destruct E as [E1 E2]. cbn in E2.
    split; [split; auto|]; lia.
  - apply Hgoal. eapply varNameLoop_ok; eauto.
Qed.


(* ------------------------------------------------------ the node builder *)
Notation WFr := (WF true src).
Notation addSep := (C01_Parse.addSep src).

(* where the children of the node being built end *)
Definition cover (b : nb) : nat :=
  match nb_ch b with t :: _ => t_to t | [] => nb_from b end.

(* the builder's children are well formed and tile [nb_from, cover], which
   does not reach beyond the parser position [p] *)
Definition BI (b : nb) (p : nat) : Prop :=
  Forall WFr (nb_ch b) /\ chain (nb_from b) (cover b) (rev (nb_ch b))
  /\ nb_from b <= cover b /\ cover b <= p.
(* flushed: everything consumed so far is covered by a child *)
Definition BF (b : nb) (p : nat) : Prop := BI b p /\ cover b = p.

Lemma chain_app l : forall a b t, chain a b l -> t_from t = b -> chain a (t_to t) (l ++ [t]).
Proof.
  induction l as [|x l IH]; intros a b t H Ht; cbn in *.
  - subst. auto.
  - destruct H as [H1 H2]. split; auto. eapply IH; eauto.
Qed.

Lemma BI_mono b p p' : BI b p -> p <= p' -> BI b p'.
Proof. intros [A [B [C D]]] H. repeat split; auto. lia. Qed.

Lemma BF_empty p : BF (mkNb p []) p.
Proof. repeat split; cbn; auto. Qed.

Lemma WF_range relax t : WF relax src t -> t_from t <= t_to t /\ t_to t <= n.
Proof. intros H. destruct H. cbn. auto. Qed.

Lemma push_ok b p t : BF b p -> WFr t -> t_from t = p -> BF (push t b) (t_to t).
Proof.
  intros [[A [B [C D]]] F] Wt Ht. pose proof (WF_range _ _ Wt) as [R1 R2].
  unfold BF, BI, push, cover. cbn [nb_ch nb_from rev].
  repeat split; auto.
  - eapply chain_app; eauto. congruence.
  - unfold cover in *. lia.
Qed.

Lemma mkSep_WF a p : a <= p -> p <= n -> WFr (mkSep src a p).
Proof. intros H1 H2. unfold mkSep. constructor; auto. congruence. Qed.

Lemma addSep_ok b ps : pos ps <= n -> BI b (pos ps) ->
  BF (addSep b ps) (pos ps) /\ nb_from (addSep b ps) = nb_from b.
Proof.
  intros Hn HB. unfold C01_Parse.addSep. fold (cover b).
  destruct (Nat.ltb_spec (cover b) (pos ps)) as [L|L].
  - split; [|reflexivity].
    assert (BF b (cover b)) as HF.
    { destruct HB as [A [B [C D]]]. repeat split; auto. }
    pose proof (push_ok b (cover b) (mkSep src (cover b) (pos ps)) HF) as P.
    cbn [t_to mkSep] in P. apply P; [apply mkSep_WF; lia|reflexivity].
  - split; [|reflexivity]. split; auto. destruct HB as [_ [_ [_ D]]]. lia.
Qed.

Definition LoopOK (b : nb) (ps : pst) (b' : nb) (ps' : pst) : Prop :=
  SI ps' /\ BF b' (pos ps') /\ nb_from b' = nb_from b /\ pos ps <= pos ps'.

Lemma LoopOK_intro b ps b' ps' : SI ps' -> BF b' (pos ps') -> nb_from b' = nb_from b ->
  pos ps <= pos ps' -> LoopOK b ps b' ps'.
Proof. intros A B C D. split; [exact A|]. split; [exact B|]. split; [exact C|exact D]. Qed.

Lemma LoopOK_refl b ps : SI ps -> BF b (pos ps) -> LoopOK b ps b ps.
Proof. intros H HB. split; [auto|]. split; [auto|]. split; [reflexivity|lia]. Qed.

Lemma LoopOK_trans b ps b1 ps1 b2 ps2 : LoopOK b ps b1 ps1 -> LoopOK b1 ps1 b2 ps2 -> LoopOK b ps b2 ps2.
Proof.
  intros [A [B [C D]]] [A' [B' [C' D']]].
  split; [auto|]. split; [auto|]. split; [congruence|lia].
Qed.

Lemma addSep_loop b ps0 ps : SI ps -> BI b (pos ps0) -> pos ps0 <= pos ps ->
  BF (addSep b ps) (pos ps) /\ nb_from (addSep b ps) = nb_from b.
Proof.
  intros H HB L. apply addSep_ok; [apply H|]. eapply BI_mono; eauto.
Qed.

Lemma parseSpacesInner_ok b ps nl b' ps' : SI ps -> BI b (pos ps) ->
  parseSpacesInner src b ps nl = Some (b', ps') -> LoopOK b ps b' ps'.
Proof.
  intros H HB E. unfold parseSpacesInner in E.
  destruct (spacesLoop _ _ _ _) as [ps1|] eqn:S; [|discriminate]. inversion E; subst.
  destruct (spacesLoop_ok _ _ _ _ H S) as [S1 S2].
  destruct (addSep_loop b ps ps' S1 HB S2) as [A1 A2].
  apply LoopOK_intro; auto.
Qed.

Lemma parseSep_ok b ps sep ok b' ps' : SI ps -> BF b (pos ps) ->
  parseSep src b ps sep = (ok, b', ps') ->
  LoopOK b ps b' ps' /\ (ok = false -> b' = b /\ ps' = ps)
  /\ (ok = true -> peek ps = sep /\ ((0 <= sep)%Z -> pos ps < pos ps')).
Proof.
  intros H HB E. unfold parseSep in E. destruct (Z.eqb_spec (peek ps) sep) as [Q|Q].
  - inversion E; subst. destruct (adv_spec _ H) as [A1 [A2 [A3 _]]].
    destruct (addSep_loop b ps (adv ps) A1 (proj1 HB) A2) as [B1 B2].
    split; [apply LoopOK_intro; auto|]. split; [discriminate|]. intros _. split; auto.
    intros Hs. apply A3. apply peek_nonneg; [apply H|auto].
  - inversion E; subst. split; [now apply LoopOK_refl|]. split; [auto|discriminate].
Qed.

Lemma expectSep_ok b ps sep code b' ps' : SI ps -> BF b (pos ps) ->
  expectSep src b ps sep code = (b', ps') -> LoopOK b ps b' ps'.
Proof.
  intros H HB E. unfold expectSep in E.
  destruct (parseSep src b ps sep) as [[ok b1] ps1] eqn:P.
  destruct (parseSep_ok _ _ _ _ _ _ H HB P) as [[A [B [C D]]] _].
  destruct ok; inversion E; subst.
  - apply LoopOK_intro; auto.
  - apply LoopOK_intro; auto. now apply error_SI.
Qed.

Lemma parseSepsLoop_ok fu : forall b ps any b' ps' any', SI ps -> BF b (pos ps) ->
  parseSepsLoop src fu b ps any = Some (b', ps', any') -> LoopOK b ps b' ps'.
Proof.
  induction fu as [|fu IH]; intros b ps any b' ps' any' H HB E; cbn [parseSepsLoop] in E; [discriminate|].
  destruct (isPipelineSep _).
  - destruct (parseSep src b ps (peek ps)) as [[ok b1] ps1] eqn:P.
    destruct (parseSep_ok _ _ _ _ _ _ H HB P) as [L _].
    eapply LoopOK_trans; [exact L|]. eapply IH; eauto; apply L.
  - destruct (_ || _).
    + destruct (parseSpaces src b ps) as [[b1 ps1]|] eqn:P; [|discriminate].
      pose proof (parseSpacesInner_ok _ _ _ _ _ H (proj1 HB) P) as L.
      eapply LoopOK_trans; [exact L|]. eapply IH; eauto; apply L.
    + inversion E; subst. now apply LoopOK_refl.
Qed.

(* ---- the wrapper's epilogue ---- *)
Lemma text_from_other k a f e x ch : N.eqb k KRedir = false -> text_from true (T k a f e x ch) = f.
Proof. intros H. destruct ch as [|[k1 a1 f1 e1 x1 c1] r]; cbn; [reflexivity|]. now rewrite H. Qed.

Lemma finish_ok k attr b begin ps : SI ps -> BF b (pos ps) ->
  text_from true (finish src k attr b begin ps) = begin ->
  WFr (finish src k attr b begin ps)
  /\ t_from (finish src k attr b begin ps) = nb_from b
  /\ t_to (finish src k attr b begin ps) = pos ps.
Proof.
  intros H [[A [B [C D]]] F] Tx. split; [|split; reflexivity].
  unfold finish in *. constructor.
  - lia.
  - apply H.
  - now rewrite Tx.
  - intros _. now rewrite <- F.
  - apply Forall_rev. exact A.
Qed.

(* what a node parser establishes *)
Definition NodeOK (ps : pst) (t : tree) (ps' : pst) : Prop :=
  SI ps' /\ WFr t /\ t_from t = pos ps /\ t_to t = pos ps'.

Lemma NodeOK_le ps t ps' : NodeOK ps t ps' -> pos ps <= pos ps'.
Proof. intros [_ [W [F T]]]. pose proof (WF_range _ _ W). lia. Qed.

Lemma finish_node k attr b ps0 ps : N.eqb k KRedir = false -> SI ps -> BF b (pos ps) ->
  nb_from b = pos ps0 -> NodeOK ps0 (finish src k attr b (pos ps0) ps) ps.
Proof.
  intros Hk H HB Hf.
  destruct (finish_ok k attr b (pos ps0) ps H HB) as [W [F T]].
  { unfold finish. rewrite text_from_other; auto. }
  split; [auto|]. split; [auto|]. split; [congruence|auto].
Qed.

Lemma push_node b ps t ps' : BF b (pos ps) -> NodeOK ps t ps' -> LoopOK b ps (push t b) ps'.
Proof.
  intros HB N. pose proof (NodeOK_le _ _ _ N) as L. destruct N as [S' [W [F T]]].
  apply LoopOK_intro; auto. rewrite <- T. apply push_ok; auto.
Qed.

End P.
