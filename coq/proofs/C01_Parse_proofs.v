(* C01/C02 — proofs about the parser model (model/C01_Parse.v): state
   invariants, the tiling discipline of the node builder, errors in range.
   Organisation: facts about the primitives (next/backup/peek/error), one
   lemma per leaf loop, the builder rules (addSep, push, parseSep,
   parseSpaces), one lemma per node-parser body against an arbitrary record of
   callees that satisfies the specification, and the induction on fuel. *)
From verif Require Import lib.Base lib.Utf8 lib.ListX gen.Consts model.C01_Parse model.C01 proofs.C01_proofs proofs.C01_Utf8_proofs.
From Coq Require Import Arith Lia ZArith.
Open Scope nat_scope.

Lemma skipn_nonnil {A} (l : list A) p : p < length l -> skipn p l <> [].
Proof.
  intros H E. assert (length (skipn p l) = 0) by (rewrite E; reflexivity).
  rewrite skipn_length in H0. lia.
Qed.

Section P.
Variable is_print : N -> bool.
Variable src : bytes.
Notation n := (length src).

Notation peek := (peek src).
Notation next := (next src).
Notation adv := (adv src).
Notation backup := (backup src).
Notation error := (error src).

Notation boundary := (C01_Utf8_proofs.boundary src).
Notation NextBackup := (C01_Utf8_proofs.NextBackup src).

(* the forward/backward width property of UTF-8 decoding
   (C01_Utf8_proofs.next_backup, for every byte string) *)
Let NB : NextBackup := next_backup src.

Definition PI (ps : pst) : Prop :=
  pos ps <= n /\ boundary (pos ps) /\ (0 < overEOF ps -> pos ps = n).
Definition err_ok (e : nat * nat * N) : Prop := let '(f, t, _) := e in f <= t /\ t <= n.
Definition EI (ps : pst) : Prop := Forall err_ok (errs ps).
Definition SI (ps : pst) : Prop := PI ps /\ EI ps.

Lemma n_eq : C01_Parse.n src = n.
Proof. reflexivity. Qed.

Lemma width_at p : p < n -> 1 <= snd (decode_rune (skipn p src)) /\ p + snd (decode_rune (skipn p src)) <= n.
Proof.
  intros H. pose proof (decode_rune_width (skipn p src) (skipn_nonnil _ _ H)) as W.
  pose proof (skipn_length p src) as L.
  set (w := snd (decode_rune (skipn p src))) in *. clearbody w.
  set (l := length (skipn p src)) in *. clearbody l. lia.
Qed.

Lemma peek_nonneg ps : pos ps <= n -> (0 <= peek ps)%Z -> pos ps < n.
Proof.
  unfold C01_Parse.peek. rewrite n_eq. intros H.
  destruct (Nat.eqb_spec (pos ps) n) as [E|E]; [unfold EOF, pkg_parse.eof; lia|lia].
Qed.

Lemma peek_eof ps : pos ps = n -> peek ps = EOF.
Proof. unfold C01_Parse.peek. rewrite n_eq. intros ->. now rewrite Nat.eqb_refl. Qed.

Lemma next_fst ps : fst (next ps) = peek ps.
Proof.
  unfold C01_Parse.next, C01_Parse.peek. destruct (Nat.eqb _ _); [reflexivity|].
  destruct (decode_rune _); reflexivity.
Qed.

Lemma next_adv ps : next ps = (peek ps, adv ps).
Proof. unfold C01_Parse.adv. rewrite <- next_fst. now destruct (next ps). Qed.

Lemma adv_spec ps : SI ps ->
  SI (adv ps) /\ pos ps <= pos (adv ps) /\ (pos ps < n -> pos ps < pos (adv ps))
  /\ errs (adv ps) = errs ps.
Proof.
  intros [[Hle [Hb Ho]] He]. unfold C01_Parse.adv, C01_Parse.next. rewrite n_eq.
  destruct (Nat.eqb_spec (pos ps) n) as [E|E]; cbn.
  - repeat split; cbn; auto; lia.
  - assert (Hlt : pos ps < n) by lia. destruct (width_at _ Hlt) as [W1 W2].
    destruct (decode_rune (skipn (pos ps) src)) as [r w] eqn:D. cbn in *.
    assert (Hbd : boundary (pos ps + w)).
    { replace w with (snd (decode_rune (skipn (pos ps) src))) by now rewrite D.
      now constructor. }
    repeat split; cbn; auto; try lia.
Qed.

Lemma backup_adv ps : SI ps -> backup (adv ps) = ps.
Proof.
  intros [[Hle [Hb Ho]] He]. unfold C01_Parse.adv, C01_Parse.next, C01_Parse.backup. rewrite n_eq.
  destruct ps as [p o e]. cbn in *.
  destruct (Nat.eqb_spec p n) as [E|E]; cbn; [reflexivity|].
  assert (Hlt : p < n) by lia.
  destruct o as [|o]; [|specialize (Ho ltac:(lia)); lia].
  pose proof (NB p Hb Hlt) as Hnb.
  destruct (decode_rune (skipn p src)) as [r w] eqn:D. cbn in *.
  destruct (decode_last_rune (firstn (p + w) src)) as [r' w'] eqn:D'. cbn in *. subst w'.
  f_equal. lia.
Qed.

Lemma error_pos c ps : pos (error c ps) = pos ps.
Proof. reflexivity. Qed.

Lemma error_SI c ps : SI ps -> SI (error c ps).
Proof.
  intros [[Hle [Hb Ho]] He]. split; [split; [|split]; cbn; auto|].
  unfold EI, C01_Parse.error, errorp. cbn [errs]. constructor; auto.
  unfold err_ok. rewrite n_eq. destruct (Nat.ltb (pos ps) n) eqn:Q; [apply Nat.ltb_lt in Q|]; lia.
Qed.

Lemma errorp_SI a c ps : SI ps -> SI (errorp (pos ps - a) (pos ps) c ps).
Proof.
  intros [[Hle [Hb Ho]] He]. split; [split; [|split]; cbn; auto|].
  unfold EI, errorp. cbn [errs]. constructor; auto. unfold err_ok. lia.
Qed.

Lemma adv_error_pos c ps : pos (adv (error c ps)) = pos (adv ps).
Proof.
  unfold C01_Parse.adv, C01_Parse.next, C01_Parse.error, errorp. cbn [pos overEOF errs].
  destruct (Nat.eqb _ _); [reflexivity|]. destruct (decode_rune _); reflexivity.
Qed.

(* the typical lookahead: next, (peek,) backup *)
Lemma backup_error_adv c ps : SI ps ->
  SI (adv (error c (backup (adv ps)))) /\ pos (adv (error c (backup (adv ps)))) = pos (adv ps).
Proof.
  intros H. rewrite (backup_adv _ H).
  pose proof (error_SI c _ H) as H1. destruct (adv_spec _ H1) as [A _].
  split; auto. apply adv_error_pos.
Qed.

(* peeking an ASCII rune: the byte at pos is that rune and next advances by one *)
Lemma peek_ascii ps a : SI ps -> peek ps = Z.of_N a -> (a < 128)%N ->
  pos ps < n /\ skipn (pos ps) src = a :: skipn (S (pos ps)) src /\ pos (adv ps) = S (pos ps).
Proof.
  intros H Hp Ha. assert (pos ps < n) as Hlt by (apply peek_nonneg; [apply H|lia]).
  split; auto. unfold C01_Parse.peek, C01_Parse.adv, C01_Parse.next in *. rewrite n_eq in *.
  destruct (Nat.eqb_spec (pos ps) n) as [E|E]; [lia|].
  destruct (decode_rune (skipn (pos ps) src)) as [r w] eqn:D. cbn [fst snd pos] in *.
  apply N2Z.inj in Hp. subst r.
  destruct (decode_ascii _ _ _ D Ha) as [t [E1 E2]]. subst w.
  split; [|lia]. rewrite E1. f_equal.
  replace (S (pos ps)) with (pos ps + 1) by lia. rewrite <- skipn_skipn. now rewrite E1.
Qed.

(* ------------------------------------------------------------ leaf loops *)
Definition ScanOK (ps ps' : pst) : Prop := SI ps' /\ pos ps <= pos ps'.

Lemma ScanOK_refl ps : SI ps -> ScanOK ps ps.
Proof. split; auto. Qed.

Lemma ScanOK_trans a b c : ScanOK a b -> ScanOK b c -> ScanOK a c.
Proof. intros [_ H1] [H2 H3]. split; auto. lia. Qed.

Lemma ScanOK_adv ps : SI ps -> ScanOK ps (adv ps).
Proof. intros H. destruct (adv_spec _ H) as [A [B _]]. split; auto. Qed.

Lemma ScanOK_error c ps : SI ps -> ScanOK ps (error c ps).
Proof. intros H. split; [now apply error_SI|cbn; lia]. Qed.

Ltac scan_step :=
  match goal with
  | H : SI ?ps |- ScanOK ?ps ?ps => apply (ScanOK_refl _ H)
  | H : SI ?ps |- ScanOK ?ps (adv ?ps) => apply (ScanOK_adv _ H)
  end.

Lemma commentLoop_ok fu : forall ps ps', SI ps ->
  commentLoop src fu ps = Some ps' -> ScanOK ps ps'.
Proof.
  induction fu as [|fu IH]; intros ps ps' H E; cbn [commentLoop] in E; [discriminate|].
  destruct (_ || _) in E.
  - inversion E; subst. now apply ScanOK_refl.
  - eapply ScanOK_trans; [apply ScanOK_adv; auto|]. apply IH; auto. now apply adv_spec.
Qed.

Lemma spacesLoop_ok fu nl : forall ps ps', SI ps ->
  spacesLoop src fu nl ps = Some ps' -> ScanOK ps ps'.
Proof.
  induction fu as [|fu IH]; intros ps ps' H E; cbn [spacesLoop] in E; [discriminate|].
  pose proof (ScanOK_adv _ H) as A. assert (SI (adv ps)) as H1 by apply A.
  destruct (isInlineWhitespace _) in E.
  { eapply ScanOK_trans; [exact A|]. now apply IH. }
  destruct (_ && _) in E.
  { eapply ScanOK_trans; [exact A|]. now apply IH. }
  destruct (Z.eqb (peek ps) 35) in E.
  { destruct (commentLoop _ _ _) as [ps1|] eqn:C; [|discriminate].
    pose proof (commentLoop_ok _ _ _ H1 C) as C1.
    eapply ScanOK_trans; [exact A|]. eapply ScanOK_trans; [exact C1|]. apply IH; auto. apply C1. }
  destruct (Z.eqb (peek ps) 94) in E; [|inversion E; subst; now apply ScanOK_refl].
  pose proof (ScanOK_adv _ H1) as A2. assert (SI (adv (adv ps))) as H2 by apply A2.
  destruct (Z.eqb (peek (adv ps)) 13) in E.
  { destruct (Z.eqb (peek (adv (adv ps))) 10) in E.
    - eapply ScanOK_trans; [exact A|]. eapply ScanOK_trans; [exact A2|].
      eapply ScanOK_trans; [apply ScanOK_adv; exact H2|]. apply IH; auto. now apply adv_spec.
    - eapply ScanOK_trans; [exact A|]. eapply ScanOK_trans; [exact A2|]. now apply IH. }
  destruct (Z.eqb (peek (adv ps)) 10) in E.
  { eapply ScanOK_trans; [exact A|]. eapply ScanOK_trans; [exact A2|]. now apply IH. }
  destruct (Z.eqb (peek (adv ps)) EOF) in E.
  { eapply ScanOK_trans; [exact A|]. eapply ScanOK_trans; [apply (ScanOK_error errShouldBeNewline); exact H1|].
    apply IH; auto. now apply error_SI. }
  inversion E; subst. rewrite backup_adv by auto. now apply ScanOK_refl.
Qed.

Lemma simpleLoop_ok (cond : pst -> bool) (loop : nat -> pst -> option pst) :
  (forall fu ps, loop (S fu) ps = if cond ps then loop fu (adv ps) else Some ps) ->
  (forall ps, loop 0 ps = None) ->
  forall fu ps ps', SI ps -> loop fu ps = Some ps' ->
  ScanOK ps ps' /\ (cond ps = true -> pos ps < n -> pos ps < pos ps').
Proof.
  intros HS H0. induction fu as [|fu IH]; intros ps ps' H E; [rewrite H0 in E; discriminate|].
  rewrite HS in E. destruct (cond ps) eqn:C.
  - destruct (adv_spec _ H) as [A1 [A2 [A3 _]]].
    destruct (IH _ _ A1 E) as [[B1 B2] _]. split; [split; auto; lia|]. intros _ Hlt. specialize (A3 Hlt). lia.
  - inversion E; subst. split; [now apply ScanOK_refl|discriminate].
Qed.

Lemma redirSignLoop_ok fu ps ps' : SI ps -> redirSignLoop src fu ps = Some ps' ->
  ScanOK ps ps' /\ (isRedirSign (peek ps) = true -> pos ps < n -> pos ps < pos ps').
Proof. apply (simpleLoop_ok (fun ps => isRedirSign (peek ps)) (redirSignLoop src)); reflexivity. Qed.

Lemma barewordLoop_ok fu ctx ps ps' : SI ps -> barewordLoop is_print src fu ctx ps = Some ps' ->
  ScanOK ps ps' /\ (allowedInBareword is_print (peek ps) ctx = true -> pos ps < n -> pos ps < pos ps').
Proof.
  apply (simpleLoop_ok (fun ps => allowedInBareword is_print (peek ps) ctx)
                       (fun fu => barewordLoop is_print src fu ctx)); reflexivity.
Qed.

Lemma varNameLoop_ok fu ps ps' : SI ps -> varNameLoop is_print src fu ps = Some ps' -> ScanOK ps ps'.
Proof.
  intros H E.
  apply (simpleLoop_ok (fun ps => allowedInVariableName is_print (peek ps))
                       (varNameLoop is_print src) ltac:(reflexivity) ltac:(reflexivity) fu ps ps' H E).
Qed.

Lemma starLoop_ok fu ps ps' : SI ps -> starLoop src fu ps = Some ps' ->
  ScanOK ps ps' /\ (Z.eqb (peek ps) 42 = true -> pos ps < n -> pos ps < pos ps').
Proof. apply (simpleLoop_ok (fun ps => Z.eqb (peek ps) 42) (starLoop src)); reflexivity. Qed.

Lemma singleQuotedInner_ok fu : forall ps ps', SI ps ->
  singleQuotedInner src fu ps = Some ps' -> ScanOK ps ps'.
Proof.
  induction fu as [|fu IH]; intros ps ps' H E; cbn [singleQuotedInner] in E; [discriminate|].
  rewrite next_adv in E.
  pose proof (ScanOK_adv _ H) as A. assert (SI (adv ps)) as H1 by apply A.
  destruct (Z.eqb (peek ps) EOF) in E.
  { inversion E; subst. eapply ScanOK_trans; [exact A|]. now apply ScanOK_error. }
  destruct (Z.eqb (peek ps) 39) in E.
  - destruct (Z.eqb (peek (adv ps)) 39) in E.
    + eapply ScanOK_trans; [exact A|]. eapply ScanOK_trans; [apply ScanOK_adv; exact H1|].
      apply IH; auto. now apply adv_spec.
    + inversion E; subst. exact A.
  - eapply ScanOK_trans; [exact A|]. now apply IH.
Qed.

Lemma hexLoop_ok k : forall ps, SI ps -> ScanOK ps (hexLoop src k ps).
Proof.
  induction k as [|k IH]; intros ps H; cbn [hexLoop]; [now apply ScanOK_refl|].
  rewrite next_adv. destruct (isHexDigit _).
  - eapply ScanOK_trans; [apply ScanOK_adv; auto|]. apply IH. now apply adv_spec.
  - rewrite backup_adv by auto. now apply ScanOK_error.
Qed.

Lemma octLoop_ok k : forall rr ps, SI ps -> ScanOK ps (snd (octLoop src k rr ps)).
Proof.
  induction k as [|k IH]; intros rr ps H; cbn [octLoop]; [now apply ScanOK_refl|].
  rewrite next_adv. destruct (_ || _); cbn [snd].
  - rewrite backup_adv by auto. now apply ScanOK_error.
  - eapply ScanOK_trans; [apply ScanOK_adv; auto|]. apply IH. now apply adv_spec.
Qed.

Lemma doubleQuotedInner_ok fu : forall ps ps', SI ps ->
  doubleQuotedInner src fu ps = Some ps' -> ScanOK ps ps'.
Proof.
  induction fu as [|fu IH]; intros ps ps' H E; cbn [doubleQuotedInner] in E; [discriminate|].
  rewrite next_adv in E.
  pose proof (ScanOK_adv _ H) as A. assert (SI (adv ps)) as H1 by apply A.
  destruct (Z.eqb (peek ps) EOF) in E.
  { inversion E; subst. eapply ScanOK_trans; [exact A|]. now apply ScanOK_error. }
  destruct (Z.eqb (peek ps) 34) in E; [inversion E; subst; exact A|].
  destruct (Z.eqb (peek ps) 92) in E; [|eapply ScanOK_trans; [exact A|]; now apply IH].
  rewrite next_adv in E.
  pose proof (ScanOK_adv _ H1) as A2. assert (SI (adv (adv ps))) as H2 by apply A2.
  eapply ScanOK_trans; [exact A|]. eapply ScanOK_trans; [exact A2|].
  destruct (_ || _) in E.
  { rewrite next_adv in E.
    pose proof (ScanOK_adv _ H2) as A3. assert (SI (adv (adv (adv ps)))) as H3 by apply A3.
    eapply ScanOK_trans; [exact A3|].
    destruct (_ || _) in E.
    - destruct (backup_error_adv errInvalidEscapeControl _ H2) as [B1 B2].
      apply IH in E; auto. destruct E as [E1 E2]. split; auto. lia.
    - now apply IH. }
  destruct (_ || _) in E.
  { match type of E with doubleQuotedInner _ _ (hexLoop _ ?k _) = _ =>
      pose proof (hexLoop_ok k _ H2) as HX end.
    eapply ScanOK_trans; [exact HX|]. apply IH; auto. apply HX. }
  destruct (_ && _) in E.
  { pose proof (octLoop_ok 2 (peek (adv ps) - 48)%Z _ H2) as O.
    destruct (octLoop src 2 _ _) as [rr ps3] eqn:OL. cbn in O.
    eapply ScanOK_trans; [exact O|]. destruct (Z.leb rr 255) in E.
    - apply IH; auto. apply O.
    - apply IH in E; [|apply errorp_SI; apply O]. destruct E as [E1 E2]. split; auto. }
  destruct (isDoubleEscape _) in E; [now apply IH|].
  destruct (backup_error_adv errInvalidEscape _ H1) as [B1 B2].
  apply IH in E; auto. destruct E as [E1 E2]. split; auto. lia.
Qed.

Lemma variable_ok ps ps' : SI ps -> (0 <= peek ps)%Z -> variable is_print src ps = Some ps' ->
  ScanOK ps ps' /\ pos ps < pos ps'.
Proof.
  intros H Hp E. unfold variable in E. rewrite next_adv in E.
  destruct (adv_spec _ H) as [H1 [A1 [A2 _]]].
  assert (pos ps < n) as Hlt by (apply peek_nonneg; auto; apply H).
  specialize (A2 Hlt).
  destruct (adv_spec _ H1) as [H2 [A3 _]].
  assert (Hgoal : forall q, ScanOK (adv (adv ps)) q -> ScanOK ps q /\ pos ps < pos q).
  { intros q [Q1 Q2]. split; [split; auto|]; lia. }
  destruct (Z.eqb (peek (adv ps)) EOF) in E.
  { inversion E; subst. destruct (backup_error_adv errShouldBeVariableName _ H1) as [B1 B2].
    split; [split; auto|]; lia. }
  destruct (Z.eqb (peek (adv ps)) 39) in E.
  { apply Hgoal. eapply singleQuotedInner_ok; eauto. }
  destruct (Z.eqb (peek (adv ps)) 34) in E.
  { apply Hgoal. eapply doubleQuotedInner_ok; eauto. }
  destruct (_ && _) in E.
  - rewrite backup_adv in E by auto.
    apply varNameLoop_ok in E; [|now apply error_SI]. destruct E as [E1 E2]. cbn in E2.
    split; [split; auto|]; lia.
  - apply Hgoal. eapply varNameLoop_ok; eauto.
Qed.


(* ------------------------------------------------------ the node builder *)
Notation WFr := (WF src).
Notation addSep := (C01_Parse.addSep src).

(* where the children of the node being built end *)
Definition cover (b : nb) : nat :=
  match nb_ch b with t :: _ => t_to t | [] => nb_from b end.

(* the builder's children are well formed and tile [nb_from, cover], which
   does not reach beyond the parser position [p] *)
Definition BI (b : nb) (p : nat) : Prop :=
  Forall WFr (nb_ch b) /\ chain (nb_from b) (cover b) (rev (nb_ch b))
  /\ nb_from b <= cover b /\ cover b <= p.
(* flushed: everything consumed so far is covered by a child *)
Definition BF (b : nb) (p : nat) : Prop := BI b p /\ cover b = p.

Lemma chain_app l : forall a b t, chain a b l -> t_from t = b -> chain a (t_to t) (l ++ [t]).
Proof.
  induction l as [|x l IH]; intros a b t H Ht; cbn in *.
  - subst. auto.
  - destruct H as [H1 H2]. split; auto. eapply IH; eauto.
Qed.

Lemma BI_mono b p p' : BI b p -> p <= p' -> BI b p'.
Proof. intros [A [B [C D]]] H. repeat split; auto. lia. Qed.

Lemma BF_empty p : BF (mkNb p []) p.
Proof. repeat split; cbn; auto. Qed.

Lemma WF_range t : WF src t -> t_from t <= t_to t /\ t_to t <= n.
Proof. intros H. destruct H. cbn. auto. Qed.

Lemma push_ok b p t : BF b p -> WFr t -> t_from t = p -> BF (push t b) (t_to t).
Proof.
  intros [[A [B [C D]]] F] Wt Ht. pose proof (WF_range _ Wt) as [R1 R2].
  unfold BF, BI, push, cover. cbn [nb_ch nb_from rev].
  repeat split; auto.
  - eapply chain_app; eauto. congruence.
  - unfold cover in *. lia.
Qed.

Lemma mkSep_WF a p : a <= p -> p <= n -> WFr (mkSep src a p).
Proof. intros H1 H2. unfold mkSep. constructor; auto. congruence. Qed.

Lemma addSep_ok b ps : pos ps <= n -> BI b (pos ps) ->
  BF (addSep b ps) (pos ps) /\ nb_from (addSep b ps) = nb_from b.
Proof.
  intros Hn HB. unfold C01_Parse.addSep. fold (cover b).
  destruct (Nat.ltb_spec (cover b) (pos ps)) as [L|L].
  - split; [|reflexivity].
    assert (BF b (cover b)) as HF.
    { destruct HB as [A [B [C D]]]. repeat split; auto. }
    pose proof (push_ok b (cover b) (mkSep src (cover b) (pos ps)) HF) as P.
    cbn [t_to mkSep] in P. apply P; [apply mkSep_WF; lia|reflexivity].
  - split; [|reflexivity]. split; auto. destruct HB as [_ [_ [_ D]]]. lia.
Qed.

Definition LoopOK (b : nb) (ps : pst) (b' : nb) (ps' : pst) : Prop :=
  SI ps' /\ BF b' (pos ps') /\ nb_from b' = nb_from b /\ pos ps <= pos ps'.

Lemma LoopOK_intro b ps b' ps' : SI ps' -> BF b' (pos ps') -> nb_from b' = nb_from b ->
  pos ps <= pos ps' -> LoopOK b ps b' ps'.
Proof. intros A B C D. split; [exact A|]. split; [exact B|]. split; [exact C|exact D]. Qed.

Lemma LoopOK_refl b ps : SI ps -> BF b (pos ps) -> LoopOK b ps b ps.
Proof. intros H HB. split; [auto|]. split; [auto|]. split; [reflexivity|lia]. Qed.

Lemma LoopOK_trans b ps b1 ps1 b2 ps2 : LoopOK b ps b1 ps1 -> LoopOK b1 ps1 b2 ps2 -> LoopOK b ps b2 ps2.
Proof.
  intros [A [B [C D]]] [A' [B' [C' D']]].
  split; [auto|]. split; [auto|]. split; [congruence|lia].
Qed.

Lemma addSep_loop b ps0 ps : SI ps -> BI b (pos ps0) -> pos ps0 <= pos ps ->
  BF (addSep b ps) (pos ps) /\ nb_from (addSep b ps) = nb_from b.
Proof.
  intros H HB L. apply addSep_ok; [apply H|]. eapply BI_mono; eauto.
Qed.

Lemma parseSpacesInner_ok b ps nl b' ps' : SI ps -> BI b (pos ps) ->
  parseSpacesInner src b ps nl = Some (b', ps') -> LoopOK b ps b' ps'.
Proof.
  intros H HB E. unfold parseSpacesInner in E.
  destruct (spacesLoop _ _ _ _) as [ps1|] eqn:S; [|discriminate]. inversion E; subst.
  destruct (spacesLoop_ok _ _ _ _ H S) as [S1 S2].
  destruct (addSep_loop b ps ps' S1 HB S2) as [A1 A2].
  apply LoopOK_intro; auto.
Qed.

Lemma parseSep_ok b ps sep ok b' ps' : SI ps -> BF b (pos ps) ->
  parseSep src b ps sep = (ok, b', ps') ->
  LoopOK b ps b' ps' /\ (ok = false -> b' = b /\ ps' = ps)
  /\ (ok = true -> peek ps = sep /\ ((0 <= sep)%Z -> pos ps < pos ps')).
Proof.
  intros H HB E. unfold parseSep in E. destruct (Z.eqb_spec (peek ps) sep) as [Q|Q].
  - inversion E; subst. destruct (adv_spec _ H) as [A1 [A2 [A3 _]]].
    destruct (addSep_loop b ps (adv ps) A1 (proj1 HB) A2) as [B1 B2].
    split; [apply LoopOK_intro; auto|]. split; [discriminate|]. intros _. split; auto.
    intros Hs. apply A3. apply peek_nonneg; [apply H|auto].
  - inversion E; subst. split; [now apply LoopOK_refl|]. split; [auto|discriminate].
Qed.

Lemma expectSep_ok b ps sep code b' ps' : SI ps -> BF b (pos ps) ->
  expectSep src b ps sep code = (b', ps') -> LoopOK b ps b' ps'.
Proof.
  intros H HB E. unfold expectSep in E.
  destruct (parseSep src b ps sep) as [[ok b1] ps1] eqn:P.
  destruct (parseSep_ok _ _ _ _ _ _ H HB P) as [[A [B [C D]]] _].
  destruct ok; inversion E; subst.
  - apply LoopOK_intro; auto.
  - apply LoopOK_intro; auto. now apply error_SI.
Qed.

Lemma parseSepsLoop_ok fu : forall b ps any b' ps' any', SI ps -> BF b (pos ps) ->
  parseSepsLoop src fu b ps any = Some (b', ps', any') -> LoopOK b ps b' ps'.
Proof.
  induction fu as [|fu IH]; intros b ps any b' ps' any' H HB E; cbn [parseSepsLoop] in E; [discriminate|].
  destruct (isPipelineSep _).
  - destruct (parseSep src b ps (peek ps)) as [[ok b1] ps1] eqn:P.
    destruct (parseSep_ok _ _ _ _ _ _ H HB P) as [L _].
    eapply LoopOK_trans; [exact L|]. eapply IH; eauto; apply L.
  - destruct (_ || _).
    + destruct (parseSpaces src b ps) as [[b1 ps1]|] eqn:P; [|discriminate].
      pose proof (parseSpacesInner_ok _ _ _ _ _ H (proj1 HB) P) as L.
      eapply LoopOK_trans; [exact L|]. eapply IH; eauto; apply L.
    + inversion E; subst. now apply LoopOK_refl.
Qed.

(* ---- the wrapper's epilogue ---- *)
Lemma finish_ok k attr b ps : SI ps -> BF b (pos ps) ->
  WFr (finish src k attr b ps)
  /\ t_from (finish src k attr b ps) = nb_from b
  /\ t_to (finish src k attr b ps) = pos ps.
Proof.
  intros H [[A [B [C D]]] F]. split; [|split; reflexivity].
  unfold finish in *. constructor.
  - lia.
  - apply H.
  - reflexivity.
  - intros _. now rewrite <- F.
  - apply Forall_rev. exact A.
Qed.

(* what a node parser establishes *)
Definition NodeOK (ps : pst) (t : tree) (ps' : pst) : Prop :=
  SI ps' /\ WFr t /\ t_from t = pos ps /\ t_to t = pos ps'.

Lemma NodeOK_le ps t ps' : NodeOK ps t ps' -> pos ps <= pos ps'.
Proof. intros [_ [W [F T]]]. pose proof (WF_range _ W). lia. Qed.

Lemma finish_node k attr b ps0 ps : SI ps -> BF b (pos ps) ->
  nb_from b = pos ps0 -> NodeOK ps0 (finish src k attr b ps) ps.
Proof.
  intros H HB Hf.
  destruct (finish_ok k attr b ps H HB) as [W [F T]].
  split; [auto|]. split; [auto|]. split; [congruence|auto].
Qed.

Lemma push_node b ps t ps' : BF b (pos ps) -> NodeOK ps t ps' -> LoopOK b ps (push t b) ps'.
Proof.
  intros HB N. pose proof (NodeOK_le _ _ _ N) as L. destruct N as [S' [W [F T]]].
  apply LoopOK_intro; auto. rewrite <- T. apply (push_ok b (pos ps)); auto.
Qed.


Lemma LoopOK_SI b ps b' ps' : LoopOK b ps b' ps' -> SI ps'.
Proof. intros L; apply L. Qed.
Lemma LoopOK_BF b ps b' ps' : LoopOK b ps b' ps' -> BF b' (pos ps').
Proof. intros L; apply L. Qed.
Lemma LoopOK_BI b ps b' ps' : LoopOK b ps b' ps' -> BI b' (pos ps').
Proof. intros L; apply L. Qed.

Lemma LoopOK_error c b ps b' ps' : LoopOK b ps b' ps' -> LoopOK b ps b' (error c ps').
Proof. intros [A [B [C D]]]. apply LoopOK_intro; auto. now apply error_SI. Qed.

Lemma adv_addSep_ok b ps : SI ps -> BI b (pos ps) -> LoopOK b ps (addSep b (adv ps)) (adv ps).
Proof.
  intros H HB. destruct (adv_spec _ H) as [A1 [A2 _]].
  destruct (addSep_loop b ps (adv ps) A1 HB A2) as [B1 B2]. now apply LoopOK_intro.
Qed.

Lemma adv2_addSep_ok b ps : SI ps -> BI b (pos ps) -> LoopOK b ps (addSep b (adv (adv ps))) (adv (adv ps)).
Proof.
  intros H HB. destruct (adv_spec _ H) as [A1 [A2 _]]. destruct (adv_spec _ A1) as [A3 [A4 _]].
  destruct (addSep_loop b ps (adv (adv ps)) A3 HB ltac:(lia)) as [B1 B2]. apply LoopOK_intro; auto. lia.
Qed.

Lemma LoopOK_start ps : SI ps -> LoopOK (mkNb (pos ps) []) ps (mkNb (pos ps) []) ps.
Proof. intros H. apply LoopOK_refl; auto. apply BF_empty. Qed.

(* ------------------------------------- specifications of the node parsers *)
Definition NodeSpec (k : N) (p : pst -> option (tree * pst)) : Prop :=
  forall ps t ps', SI ps -> p ps = Some (t, ps') -> NodeOK ps t ps' /\ t_kind t = k.
Definition LoopSpec (l : nb -> pst -> option (nb * pst)) : Prop :=
  forall b ps b' ps', SI ps -> BF b (pos ps) -> l b ps = Some (b', ps') -> LoopOK b ps b' ps'.
Definition LoopSpecX {A} (l : nb -> pst -> option (nb * pst * A)) : Prop :=
  forall b ps b' ps' x, SI ps -> BF b (pos ps) -> l b ps = Some (b', ps', x) -> LoopOK b ps b' ps'.
Definition left_ok (left : option tree) (ps : pst) : Prop :=
  match left with
  | Some l => WFr l /\ t_to l = pos ps
  | None => True
  end.
Definition RedirSpec (p : option tree -> pst -> option (tree * pst)) : Prop :=
  forall left ps t ps', SI ps -> isRedirSign (peek ps) = true -> left_ok left ps ->
    p left ps = Some (t, ps') ->
    SI ps' /\ WFr t /\ t_to t = pos ps'
    /\ t_from t = match left with Some l => t_from l | None => pos ps end.

Record Good (c : callees) : Prop := mkGood {
  gChunk : NodeSpec KChunk (cChunk c);
  gChunkLoop : LoopSpec (cChunkLoop c);
  gPipeline : NodeSpec KPipeline (cPipeline c);
  gPipelineLoop : LoopSpecX (cPipelineLoop c);
  gForm : NodeSpec KForm (cForm c);
  gFormLoop : LoopSpec (cFormLoop c);
  gRedir : RedirSpec (cRedir c);
  gCompound : forall ctx, NodeSpec KCompound (cCompound c ctx);
  gCompoundLoop : forall ctx, LoopSpec (cCompoundLoop c ctx);
  gIndexing : forall ctx, NodeSpec KIndexing (cIndexing c ctx);
  gIndexingLoop : LoopSpec (cIndexingLoop c);
  gArray : NodeSpec KArray (cArray c);
  gArrayLoop : LoopSpec (cArrayLoop c);
  gPrimary : forall ctx, NodeSpec KPrimary (cPrimary c ctx);
  gLbracketLoop : forall hp he, LoopSpecX (fun b ps => cLbracketLoop c b hp he ps);
  gLambdaLoop : LoopSpec (cLambdaLoop c);
  gBracedLoop : LoopSpec (cBracedLoop c);
  gMapPair : NodeSpec KMapPair (cMapPair c)
}.

Lemma Good0 : Good callees0.
Proof. constructor; repeat intro; discriminate. Qed.

Section Body.
Variable c : callees.
Hypothesis G : Good c.

(* proof steps: [L : LoopOK b0 ps0 b ps] is the accumulated fact about the
   node under construction; each call extends it *)
Ltac ext L R :=
  let L' := fresh "L" in
  pose proof (LoopOK_trans _ _ _ _ _ _ L R) as L'; clear L; rename L' into L.
Tactic Notation "dopt" hyp(E) "as" simple_intropattern(p) ident(Q) :=
  match type of E with
  | match ?x with Some _ => _ | None => None end = Some _ =>
    destruct x as [p|] eqn:Q; [|discriminate E]
  end.
Tactic Notation "dlet" hyp(E) "as" simple_intropattern(p) ident(Q) :=
  match type of E with
  | (let '(_, _) := ?x in _) = Some _ => destruct x as p eqn:Q
  end.
(* extend L with a node parsed by a callee: [S] is the NodeSpec fact, [Q] the call *)
Ltac ext_node L S Q :=
  ext L (push_node _ _ _ _ (LoopOK_BF _ _ _ _ L) (proj1 (S _ _ _ (LoopOK_SI _ _ _ _ L) Q))).
Ltac ext_spaces L Q :=
  ext L (parseSpacesInner_ok _ _ _ _ _ (LoopOK_SI _ _ _ _ L) (LoopOK_BI _ _ _ _ L) Q).
Ltac ext_loop L S Q :=
  ext L (S _ _ _ _ (LoopOK_SI _ _ _ _ L) (LoopOK_BF _ _ _ _ L) Q).
Ltac ext_loopx L S Q :=
  ext L (S _ _ _ _ _ (LoopOK_SI _ _ _ _ L) (LoopOK_BF _ _ _ _ L) Q).
Ltac ext_sep L Q :=
  ext L (proj1 (parseSep_ok _ _ _ _ _ _ (LoopOK_SI _ _ _ _ L) (LoopOK_BF _ _ _ _ L) Q)).
Ltac ext_expect L Q :=
  ext L (expectSep_ok _ _ _ _ _ _ (LoopOK_SI _ _ _ _ L) (LoopOK_BF _ _ _ _ L) Q).
Ltac fin L :=
  split; [apply finish_node; [apply L|apply L|apply L]|reflexivity].

Lemma chunk_ok : NodeSpec KChunk (chunk_body src c).
Proof.
  intros ps t ps' H E. unfold chunk_body in E.
  pose proof (LoopOK_start _ H) as L.
  dopt E as [[b1 ps1] any1] Q1. unfold parseSeps in Q1.
  ext L (parseSepsLoop_ok _ _ _ _ _ _ _ (LoopOK_SI _ _ _ _ L) (LoopOK_BF _ _ _ _ L) Q1).
  dopt E as [b2 ps2] Q2. ext_loop L (gChunkLoop c G) Q2.
  inversion E; subst. fin L.
Qed.

Lemma chunkLoop_ok : LoopSpec (chunkLoop_body is_print src c).
Proof.
  intros b ps b' ps' H HB E. unfold chunkLoop_body in E.
  pose proof (LoopOK_refl _ _ H HB) as L.
  destruct (startsPipeline _ _); [|inversion E; subst; exact L].
  dopt E as [t1 ps1] Q1. ext_node L (gPipeline c G) Q1.
  dopt E as [[b2 ps2] any2] Q2. unfold parseSeps in Q2.
  ext L (parseSepsLoop_ok _ _ _ _ _ _ _ (LoopOK_SI _ _ _ _ L) (LoopOK_BF _ _ _ _ L) Q2).
  destruct any2.
  - ext_loop L (gChunkLoop c G) E. exact L.
  - inversion E; subst. exact L.
Qed.

Lemma pipeline_ok : NodeSpec KPipeline (pipeline_body src c).
Proof.
  intros ps t ps' H E. unfold pipeline_body in E.
  pose proof (LoopOK_start _ H) as L.
  dopt E as [t1 ps1] Q1. ext_node L (gForm c G) Q1.
  dopt E as [[b2 ps2] ok2] Q2. ext_loopx L (gPipelineLoop c G) Q2.
  destruct (negb ok2); [inversion E; subst; fin L|].
  dopt E as [b3 ps3] Q3. ext_spaces L Q3.
  destruct (Z.eqb _ 38).
  - ext L (adv_addSep_ok _ _ (LoopOK_SI _ _ _ _ L) (LoopOK_BI _ _ _ _ L)).
    dopt E as [b5 ps5] Q5. ext_spaces L Q5. inversion E; subst. fin L.
  - inversion E; subst. fin L.
Qed.

Lemma pipelineLoop_ok : LoopSpecX (pipelineLoop_body is_print src c).
Proof.
  intros b ps b' ps' x H HB E. unfold pipelineLoop_body in E.
  pose proof (LoopOK_refl _ _ H HB) as L.
  dlet E as [[ok1 b1] ps1] Q1. destruct (negb ok1); [inversion E; subst; exact L|].
  ext_sep L Q1. dopt E as [b2 ps2] Q2. ext_spaces L Q2.
  destruct (negb _).
  - inversion E; subst. now apply LoopOK_error.
  - dopt E as [t3 ps3] Q3. ext_node L (gForm c G) Q3. ext_loopx L (gPipelineLoop c G) E. exact L.
Qed.

Lemma form_ok : NodeSpec KForm (form_body src c).
Proof.
  intros ps t ps' H E. unfold form_body in E.
  pose proof (LoopOK_start _ H) as L.
  dopt E as [t1 ps1] Q1. ext_node L (gCompound c G CmdExpr) Q1.
  dopt E as [b2 ps2] Q2. ext_spaces L Q2.
  dopt E as [b3 ps3] Q3. ext_loop L (gFormLoop c G) Q3.
  inversion E; subst. fin L.
Qed.

Lemma formLoop_ok : LoopSpec (formLoop_body is_print src c).
Proof.
  intros b ps b' ps' H HB E. unfold formLoop_body in E.
  pose proof (LoopOK_refl _ _ H HB) as L.
  destruct (Z.eqb (peek ps) 38).
  { rewrite (backup_adv _ H) in E.
    destruct (negb _); [inversion E; subst; exact L|].
    dopt E as [t1 ps1] Q1. ext_node L (gMapPair c G) Q1. dopt E as [b2 ps2] Q2. ext_spaces L Q2.
    ext_loop L (gFormLoop c G) E. exact L. }
  destruct (startsCompound _ _ _).
  { dopt E as [cn ps1] Q1. destruct (gCompound c G NormalExpr _ _ _ H Q1) as [N K].
    destruct (isRedirSign (peek ps1)) eqn:RS.
    - dopt E as [t2 ps2] Q2. pose proof (NodeOK_le _ _ _ N) as Le. destruct N as [N1 [N2 [N3 N4]]].
      destruct (gRedir c G (Some cn) ps1 t2 ps2 N1 RS (conj N2 N4) Q2) as [R1 [R2 [R3 R4]]].
      assert (NodeOK ps t2 ps2) as N' by (split; [auto|split; [auto|split; [congruence|auto]]]).
      ext L (push_node _ _ _ _ (LoopOK_BF _ _ _ _ L) N').
      dopt E as [b3 ps3] Q3. ext_spaces L Q3. ext_loop L (gFormLoop c G) E. exact L.
    - ext L (push_node _ _ _ _ (LoopOK_BF _ _ _ _ L) N).
      dopt E as [b3 ps3] Q3. ext_spaces L Q3. ext_loop L (gFormLoop c G) E. exact L. }
  destruct (isRedirSign (peek ps)) eqn:RS; [|inversion E; subst; exact L].
  dopt E as [t1 ps1] Q1. destruct (gRedir c G None ps t1 ps1 H RS I Q1) as [R1 [R2 [R3 R4]]].
  assert (NodeOK ps t1 ps1) as N' by (split; [auto|split; [auto|split; auto]]).
  ext L (push_node _ _ _ _ (LoopOK_BF _ _ _ _ L) N').
  dopt E as [b2 ps2] Q2. ext_spaces L Q2. ext_loop L (gFormLoop c G) E. exact L.
Qed.

Lemma peek_sign_nonneg ps : isRedirSign (peek ps) = true -> (0 <= peek ps)%Z.
Proof. unfold isRedirSign. intros H. apply orb_true_iff in H as [H|H]; apply Z.eqb_eq in H; lia. Qed.

Lemma redir_ok : RedirSpec (redir_body src c).
Proof.
  intros left ps t ps' H RS HL E. unfold redir_body in E.
  set (b0 := match left with Some l => mkNb (t_from l) [l] | None => mkNb (pos ps) [] end) in *.
  assert (BF b0 (pos ps)) as HB0.
  { destruct left as [l|]; [|apply BF_empty]. destruct HL as [W Tl].
    pose proof (WF_range _ W) as [R1 R2].
    unfold b0, BF, BI, cover; cbn [nb_ch nb_from rev app chain]. repeat split; auto; lia. }
  dopt E as ps1 Q1.
  destruct (redirSignLoop_ok _ _ _ H Q1) as [[S1 Le1] Lt1].
  match type of E with (let '(_, _) := ?x in _) = _ => destruct x as [mode ps2] eqn:Q2 end.
  assert (SI ps2 /\ pos ps2 = pos ps1) as [S2 P2].
  { repeat (match type of Q2 with (if ?x then _ else _) = _ => destruct x end);
      inversion Q2; subst; split; auto; now apply error_SI. }
  destruct (addSep_loop b0 ps ps2 S2 (proj1 HB0) ltac:(lia)) as [A1 A2].
  assert (LoopOK b0 ps (addSep b0 ps2) ps2) as L by (apply LoopOK_intro; auto; lia).
  dopt E as [b2 ps3] Q3. ext_spaces L Q3.
  dlet E as [[isfd b3] ps4] Q4. ext_sep L Q4.
  dopt E as [t5 ps5] Q5. ext_node L (gCompound c G NormalExpr) Q5.
  inversion E; subst. clear E.
  match goal with |- context [finish _ _ _ _ ?p] => set (ps6 := p) end.
  assert (LoopOK b0 ps (push t5 b3) ps6) as L6.
  { unfold ps6. destruct (t_ch t5); [now apply LoopOK_error|exact L]. }
  destruct L6 as [S6 [B6 [Fr6 Le6]]].
  destruct (finish_ok KRedir (mode + (if isfd then 8 else 0))%N (push t5 b3) ps6 S6 B6) as [W [F T]].
  split; [exact S6|]. split; [exact W|]. split; [exact T|].
  rewrite F, Fr6. unfold b0. destruct left; reflexivity.
Qed.

Lemma compound_ok ctx : NodeSpec KCompound (compound_body src c ctx).
Proof.
  intros ps t ps' H E. unfold compound_body in E.
  pose proof (LoopOK_start _ H) as L.
  match type of E with (let '(_, _) := ?x in _) = _ => destruct x as [b1 ps1] eqn:Q1 end.
  assert (LoopOK (mkNb (pos ps) []) ps b1 ps1) as L1.
  { destruct (Z.eqb_spec (peek ps) 126) as [Tl|Tl]; [|inversion Q1; subst; exact L].
    inversion Q1; subst. clear Q1.
    destruct (peek_ascii ps 126 H Tl ltac:(reflexivity)) as [Hlt [Sk Pa]].
    destruct (adv_spec _ H) as [A1 _].
    rewrite Pa. replace (S (pos ps) - 1) with (pos ps) by lia.
    assert (Tx : [126%N] = slice src (pos ps) (S (pos ps))).
    { unfold slice. replace (S (pos ps) - pos ps) with 1 by lia. now rewrite Sk. }
    assert (WFr (T KPrimary PTilde (pos ps) (S (pos ps)) [126%N] [])) as Wp.
    { constructor; auto; try lia. congruence. }
    assert (WFr (T KIndexing NormalExpr (pos ps) (S (pos ps)) [126%N]
                   [T KPrimary PTilde (pos ps) (S (pos ps)) [126%N] []])) as Wi.
    { constructor; auto; try lia. intros _. cbn. auto. }
    apply LoopOK_intro; auto; [|lia].
    rewrite Pa. apply (push_ok _ (pos ps) _ (BF_empty _) Wi). reflexivity. }
  dopt E as [b2 ps2] Q2. ext_loop L1 (gCompoundLoop c G ctx) Q2.
  inversion E; subst. fin L1.
Qed.

Lemma compoundLoop_ok ctx : LoopSpec (compoundLoop_body is_print src c ctx).
Proof.
  intros b ps b' ps' H HB E. unfold compoundLoop_body in E.
  pose proof (LoopOK_refl _ _ H HB) as L.
  destruct (startsIndexing _ _ _); [|inversion E; subst; exact L].
  dopt E as [t1 ps1] Q1. ext_node L (gIndexing c G ctx) Q1.
  ext_loop L (gCompoundLoop c G ctx) E. exact L.
Qed.

Lemma indexing_ok ctx : NodeSpec KIndexing (indexing_body src c ctx).
Proof.
  intros ps t ps' H E. unfold indexing_body in E.
  pose proof (LoopOK_start _ H) as L.
  dopt E as [t1 ps1] Q1. ext_node L (gPrimary c G ctx) Q1.
  dopt E as [b2 ps2] Q2. ext_loop L (gIndexingLoop c G) Q2.
  inversion E; subst. fin L.
Qed.

Lemma indexingLoop_ok : LoopSpec (indexingLoop_body is_print src c).
Proof.
  intros b ps b' ps' H HB E. unfold indexingLoop_body in E.
  pose proof (LoopOK_refl _ _ H HB) as L.
  dlet E as [[ok1 b1] ps1] Q1. destruct (negb ok1); [inversion E; subst; exact L|].
  ext_sep L Q1.
  match type of E with context [cArray c ?p] => set (ps2 := p) in * end.
  assert (LoopOK b ps b1 ps2) as L2.
  { unfold ps2. destruct (_ && _); [now apply LoopOK_error|exact L]. }
  clear L. dopt E as [t3 ps3] Q3. ext_node L2 (gArray c G) Q3.
  dlet E as [[ok2 b4] ps4] Q4. ext_sep L2 Q4.
  destruct (negb ok2).
  - inversion E; subst. now apply LoopOK_error.
  - ext_loop L2 (gIndexingLoop c G) E. exact L2.
Qed.

Lemma array_ok : NodeSpec KArray (array_body src c).
Proof.
  intros ps t ps' H E. unfold array_body in E.
  pose proof (LoopOK_start _ H) as L.
  dopt E as [b1 ps1] Q1. ext_spaces L Q1.
  dopt E as [b2 ps2] Q2. ext_loop L (gArrayLoop c G) Q2.
  inversion E; subst. fin L.
Qed.

Lemma arrayLoop_ok : LoopSpec (arrayLoop_body is_print src c).
Proof.
  intros b ps b' ps' H HB E. unfold arrayLoop_body in E.
  pose proof (LoopOK_refl _ _ H HB) as L.
  destruct (startsCompound _ _ _); [|inversion E; subst; exact L].
  dopt E as [t1 ps1] Q1. ext_node L (gCompound c G NormalExpr) Q1.
  dopt E as [b2 ps2] Q2. ext_spaces L Q2.
  ext_loop L (gArrayLoop c G) E. exact L.
Qed.

Lemma lbracketLoop_ok hp he : LoopSpecX (fun b ps => lbracketLoop_body is_print src c b hp he ps).
Proof.
  intros b ps b' ps' x H HB E. unfold lbracketLoop_body in E.
  pose proof (LoopOK_refl _ _ H HB) as L.
  destruct (Z.eqb (peek ps) 38).
  { destruct (negb _).
    - ext L (adv_addSep_ok _ _ (LoopOK_SI _ _ _ _ L) (LoopOK_BI _ _ _ _ L)).
      dopt E as [b2 ps2] Q2. ext_spaces L Q2. inversion E; subst. exact L.
    - rewrite (backup_adv _ H) in E.
      dopt E as [t3 ps3] Q3. ext_node L (gMapPair c G) Q3.
      dopt E as [b4 ps4] Q4. ext_spaces L Q4.
      ext_loopx L (gLbracketLoop c G true he) E. exact L. }
  destruct (startsCompound _ _ _); [|inversion E; subst; exact L].
  dopt E as [t1 ps1] Q1. ext_node L (gCompound c G NormalExpr) Q1.
  dopt E as [b2 ps2] Q2. ext_spaces L Q2.
  ext_loopx L (gLbracketLoop c G hp true) E. exact L.
Qed.

Lemma lambdaLoop_ok : LoopSpec (lambdaLoop_body is_print src c).
Proof.
  intros b ps b' ps' H HB E. unfold lambdaLoop_body in E.
  pose proof (LoopOK_refl _ _ H HB) as L.
  destruct (Z.eqb (peek ps) 38).
  { dopt E as [t1 ps1] Q1. ext_node L (gMapPair c G) Q1.
    dopt E as [b2 ps2] Q2. ext_spaces L Q2. ext_loop L (gLambdaLoop c G) E. exact L. }
  destruct (startsCompound _ _ _); [|inversion E; subst; exact L].
  dopt E as [t1 ps1] Q1. ext_node L (gCompound c G NormalExpr) Q1.
  dopt E as [b2 ps2] Q2. ext_spaces L Q2. ext_loop L (gLambdaLoop c G) E. exact L.
Qed.

Lemma bracedLoop_ok : LoopSpec (bracedLoop_body src c).
Proof.
  intros b ps b' ps' H HB E. unfold bracedLoop_body in E.
  pose proof (LoopOK_refl _ _ H HB) as L.
  destruct (isBracedSep _); [|inversion E; subst; exact L].
  dopt E as [b1 ps1] Q1. ext_spaces L Q1.
  dlet E as [[ok2 b2] ps2] Q2. ext_sep L Q2.
  dopt E as [b3 ps3] Q3. ext_spaces L Q3.
  dopt E as [t4 ps4] Q4. ext_node L (gCompound c G BracedElemExpr) Q4.
  ext_loop L (gBracedLoop c G) E. exact L.
Qed.

Lemma mapPair_ok : NodeSpec KMapPair (mapPair_body src c).
Proof.
  intros ps t ps' H E. unfold mapPair_body in E.
  pose proof (LoopOK_start _ H) as L.
  dlet E as [[ok1 b1] ps1] Q1. ext_sep L Q1.
  dopt E as [k2 ps2] Q2. ext_node L (gCompound c G LHSExpr) Q2.
  match type of E with context [parseSep src _ ?p 61%Z] => set (ps3 := p) in * end.
  assert (LoopOK (mkNb (pos ps) []) ps (push k2 b1) ps3) as L3.
  { unfold ps3. destruct (t_ch k2); [now apply LoopOK_error|exact L]. }
  clear L. dlet E as [[eq4 b4] ps4] Q4. ext_sep L3 Q4.
  destruct eq4.
  - dopt E as [b5 ps5] Q5. ext_spaces L3 Q5.
    dopt E as [v6 ps6] Q6. ext_node L3 (gCompound c G NormalExpr) Q6.
    inversion E; subst. fin L3.
  - inversion E; subst. fin L3.
Qed.

Lemma finish_leaf ty ps ps' : SI ps' -> pos ps <= pos ps' ->
  NodeOK ps (finish src KPrimary ty (mkNb (pos ps) []) ps') ps'
  /\ t_kind (finish src KPrimary ty (mkNb (pos ps) []) ps') = KPrimary.
Proof.
  intros H Le. split; [|reflexivity]. split; [exact H|]. split; [|split; reflexivity].
  unfold finish. cbn [nb_from nb_ch rev]. constructor; auto; try apply H. congruence.
Qed.

Lemma primary_ok ctx : NodeSpec KPrimary (primary_body is_print src c ctx).
Proof.
  intros ps t ps' H E. unfold primary_body in E. cbv zeta in E.
  pose proof (LoopOK_start _ H) as L.
  destruct (negb (startsPrimary _ _ _)).
  { inversion E; subst. apply finish_leaf; [now apply error_SI|cbn; lia]. }
  destruct (allowedInBareword _ _ _).
  { dopt E as ps1 Q1. inversion E; subst. destruct (barewordLoop_ok _ _ _ _ H Q1) as [[A B] _].
    now apply finish_leaf. }
  destruct (adv_spec _ H) as [H1 [Le1 _]].
  destruct (Z.eqb (peek ps) 39).
  { dopt E as ps1 Q1. inversion E; subst. destruct (singleQuotedInner_ok _ _ _ H1 Q1) as [A B].
    apply finish_leaf; auto; lia. }
  destruct (Z.eqb (peek ps) 34).
  { dopt E as ps1 Q1. inversion E; subst. destruct (doubleQuotedInner_ok _ _ _ H1 Q1) as [A B].
    apply finish_leaf; auto; lia. }
  destruct (Z.eqb_spec (peek ps) 36) as [P36|_].
  { dopt E as ps1 Q1. inversion E; subst.
    destruct (variable_ok _ _ H ltac:(lia) Q1) as [[A B] _]. now apply finish_leaf. }
  destruct (Z.eqb (peek ps) 42).
  { dopt E as ps1 Q1. inversion E; subst. destruct (starLoop_ok _ _ _ H Q1) as [[A B] _].
    now apply finish_leaf. }
  destruct (Z.eqb (peek ps) 63).
  { destruct (hasPrefix2 _ _ _ _).
    - ext L (adv2_addSep_ok _ _ (LoopOK_SI _ _ _ _ L) (LoopOK_BI _ _ _ _ L)).
      dopt E as [t2 ps2] Q2. ext_node L (gChunk c G) Q2.
      dlet E as [b3 ps3] Q3. ext_expect L Q3. inversion E; subst. fin L.
    - inversion E; subst. now apply finish_leaf. }
  destruct (Z.eqb (peek ps) 40).
  { dlet E as [[ok1 b1] ps1] Q1. ext_sep L Q1.
    dopt E as [t2 ps2] Q2. ext_node L (gChunk c G) Q2.
    dlet E as [b3 ps3] Q3. ext_expect L Q3. inversion E; subst. fin L. }
  destruct (Z.eqb (peek ps) 91).
  { dlet E as [[ok1 b1] ps1] Q1. ext_sep L Q1.
    dopt E as [b2 ps2] Q2. ext_spaces L Q2.
    dopt E as [[b3 ps3] fl] Q3. ext_loopx L (gLbracketLoop c G false false) Q3.
    destruct fl as [[lone hasP] hasE].
    dlet E as [b4 ps4] Q4. ext_expect L Q4.
    destruct (lone || hasP).
    - inversion E; subst. destruct hasE; [apply (LoopOK_error errBothElementsAndPairs) in L|]; fin L.
    - inversion E; subst. fin L. }
  destruct (Z.eqb (peek ps) 123); [|inversion E; subst; now apply finish_leaf].
  dlet E as [[ok1 b1] ps1] Q1. ext_sep L Q1.
  match type of E with (if ?x then _ else _) = _ => destruct x end.
  - (* lambda *)
    dopt E as [b2 ps2] Q2. ext_spaces L Q2.
    dlet E as [[bar b3] ps3] Q3. ext_sep L Q3.
    dopt E as [b6 ps6] Q6.
    assert (LoopOK (mkNb (pos ps) []) ps b6 ps6) as L6.
    { destruct bar; [|inversion Q6; subst; exact L].
      dopt Q6 as [b4 ps4] Q4. ext_spaces L Q4.
      dopt Q6 as [b5 ps5] Q5. ext_loop L (gLambdaLoop c G) Q5.
      inversion Q6 as [Q7]. ext_expect L Q7. exact L. }
    clear L. dopt E as [t7 ps7] Q7. ext_node L6 (gChunk c G) Q7.
    dlet E as [b8 ps8] Q8. ext_expect L6 Q8. inversion E; subst. fin L6.
  - (* braced *)
    dopt E as [t2 ps2] Q2. ext_node L (gCompound c G BracedElemExpr) Q2.
    dopt E as [b3 ps3] Q3. ext_loop L (gBracedLoop c G) Q3.
    dlet E as [b4 ps4] Q4. ext_expect L Q4. inversion E; subst. fin L.
Qed.

End Body.

(* ------------------------------------------------------ induction on fuel *)
Lemma step_good c : Good c -> Good (step is_print src c).
Proof.
  intros G. constructor; cbn [step cChunk cChunkLoop cPipeline cPipelineLoop cForm cFormLoop cRedir
    cCompound cCompoundLoop cIndexing cIndexingLoop cArray cArrayLoop cPrimary cLbracketLoop
    cLambdaLoop cBracedLoop cMapPair]; intros.
  - now apply chunk_ok.
  - now apply chunkLoop_ok.
  - now apply pipeline_ok.
  - now apply pipelineLoop_ok.
  - now apply form_ok.
  - now apply formLoop_ok.
  - now apply redir_ok.
  - now apply compound_ok.
  - now apply compoundLoop_ok.
  - now apply indexing_ok.
  - now apply indexingLoop_ok.
  - now apply array_ok.
  - now apply arrayLoop_ok.
  - now apply primary_ok.
  - now apply lbracketLoop_ok.
  - now apply lambdaLoop_ok.
  - now apply bracedLoop_ok.
  - now apply mapPair_ok.
Qed.

Lemma parsers_good fuel : Good (parsers is_print src fuel).
Proof. induction fuel as [|f IH]; [apply Good0|cbn [parsers]; now apply step_good]. Qed.

End P.

(* -------------------------------------------------------------- parse.Parse *)
Section Top.
Variable is_print : N -> bool.
Variable src : bytes.

Lemma SI_ps0 : SI src ps0.
Proof.
  split; [split; [cbn; lia|split; [constructor|cbn; lia]]|constructor].
Qed.

Lemma report_in_range ps : EI src ps -> errs_in_range src (report src ps).
Proof.
  unfold EI, report, errs_in_range. intros H. apply Forall_forall. intros e Hin.
  apply in_map_iff in Hin as [[[f t] cd] [<- Hin]]. apply in_rev in Hin.
  rewrite Forall_forall in H. specialize (H _ Hin). cbn in *. exact H.
Qed.

(* every parse result of the model is a lossless tree (every node's text is
   the slice of its range) with all error ranges inside the source *)
Lemma parse_spec fuel t es :
  parse_fuel is_print src fuel = Some (t, es) -> Spec_C01 src t es.
Proof.
  unfold parse_fuel. intros E.
  destruct (cChunk _ _) as [[t0 ps]|] eqn:Q; [|discriminate]. inversion E; subst. clear E.
  destruct (gChunk _ _ (parsers_good is_print src fuel) _ _ _ SI_ps0 Q) as [[HS [W [F Tt]]] _].
  assert (SI src (done src ps)) as SD.
  { unfold done. destruct (Nat.eqb _ _); auto. now apply error_SI. }
  split; [exact W|]. split; [exact F|]. split; [|split].
  - rewrite (leaves_slice _ _ W), F. unfold slice. cbn [skipn]. now rewrite Nat.sub_0_r.
  - unfold done. rewrite Tt. change (C01_Parse.n src) with (length src).
    destruct (Nat.eqb_spec (pos ps) (length src)) as [Q1|Q1]; [now left|right].
    exists (mk_err src (pos ps, (if Nat.ltb (pos ps) (length src) then S (pos ps) else pos ps), errUnexpectedRune)).
    split; [|reflexivity]. unfold report. apply in_map. apply in_rev. rewrite rev_involutive.
    cbn. now left.
  - apply report_in_range. apply SD.
Qed.

End Top.

(* ---- statements used by props/C01.v ---- *)

Lemma next_backup_state src ps :
  pos ps <= length src -> boundary src (pos ps) -> (0 < overEOF ps -> pos ps = length src) ->
  backup src (snd (next src ps)) = ps.
Proof.
  intros A B C.
  pose (ps1 := mkPst (pos ps) (overEOF ps) []).
  assert (SI src ps1) as S1 by (split; [split; [exact A|split; [exact B|exact C]]|constructor]).
  pose proof (backup_adv (fun _ => true) src ps1 S1) as E.
  assert (forall e, backup src (snd (next src (mkPst (pos ps) (overEOF ps) e)))
                    = mkPst (pos (backup src (snd (next src ps1)))) (overEOF (backup src (snd (next src ps1)))) e) as G.
  { intros e. unfold C01_Parse.next, C01_Parse.backup, ps1. cbn [pos overEOF errs].
    destruct (Nat.eqb _ _); cbn [snd pos overEOF errs]; [reflexivity|].
    destruct (decode_rune _); cbn [snd pos overEOF errs].
    destruct (overEOF ps); [|reflexivity]. destruct (decode_last_rune _); reflexivity. }
  destruct ps as [p o e]. cbn [pos overEOF] in *. rewrite G.
  unfold C01_Parse.adv in E. rewrite E. reflexivity.
Qed.

Lemma parse_errors_in_range is_print src fuel t es :
  parse_fuel is_print src fuel = Some (t, es) -> errs_in_range src es.
Proof. intros E. apply (parse_spec is_print src fuel t es E). Qed.
