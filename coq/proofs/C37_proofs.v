(* Proofs for C37: the model of getContextDetails satisfies the line/column
   specification for every source text and every range inside it. *)
From Coq Require Import String.
From verif Require Import lib.Base lib.ListX model.C37.
Open Scope nat_scope.

(* ---------- lines: basic facts ---------- *)
Lemma lines_nonempty s : lines s <> [].
Proof. destruct s as [|c r]; simpl; [discriminate|]. destruct (is_nl c); [discriminate|].
  destruct (lines r); discriminate. Qed.

Lemma lines_cons_nl c r : is_nl c = true -> lines (c :: r) = [] :: lines r.
Proof. intros H; simpl; rewrite H; reflexivity. Qed.

Lemma lines_cons_other c r : is_nl c = false ->
  lines (c :: r) = (c :: hd [] (lines r)) :: tl (lines r).
Proof. intros H; simpl; rewrite H. destruct (lines r) eqn:E; [|reflexivity].
  exfalso; eapply lines_nonempty; eauto. Qed.

Definition glue (la lb : list bytes) : list bytes :=
  removelast la ++ (last la [] ++ hd [] lb) :: tl lb.

Lemma removelast_cons2 {A} (x y : A) l : removelast (x :: y :: l) = x :: removelast (y :: l).
Proof. reflexivity. Qed.
Lemma last_cons2 {A} (x y : A) l d : last (x :: y :: l) d = last (y :: l) d.
Proof. reflexivity. Qed.

Lemma lines_app a b : lines (a ++ b) = glue (lines a) (lines b).
Proof.
  induction a as [|c a IH].
  - simpl. unfold glue; simpl. destruct (lines b) eqn:E; [exfalso; eapply lines_nonempty; eauto|reflexivity].
  - rewrite <- app_comm_cons. destruct (is_nl c) eqn:Hc.
    + rewrite !lines_cons_nl by assumption. rewrite IH. unfold glue.
      destruct (lines a) as [|l ls] eqn:E; [exfalso; eapply lines_nonempty; eauto|].
      rewrite removelast_cons2, last_cons2. reflexivity.
    + rewrite !lines_cons_other by assumption. rewrite IH. unfold glue.
      destruct (lines a) as [|l [|l2 ls]] eqn:E; [exfalso; eapply lines_nonempty; eauto| |].
      * simpl. reflexivity.
      * cbn [hd tl]. rewrite !removelast_cons2, !last_cons2. reflexivity.
Qed.

Lemma count_nl_lines s : S (count_nl s) = length (lines s).
Proof. induction s as [|c r IH]; [reflexivity|]. destruct (is_nl c) eqn:Hc.
  - rewrite lines_cons_nl by assumption. simpl. rewrite Hc. simpl. congruence.
  - rewrite lines_cons_other by assumption. simpl count_nl. rewrite Hc. simpl.
    destruct (lines r) eqn:E; [exfalso; eapply lines_nonempty; eauto|]. simpl in *. congruence. Qed.

Lemma first_line_lines s : first_line s = hd [] (lines s).
Proof. induction s as [|c r IH]; [reflexivity|]. destruct (is_nl c) eqn:Hc.
  - rewrite lines_cons_nl by assumption. simpl. rewrite Hc. reflexivity.
  - rewrite lines_cons_other by assumption. simpl. rewrite Hc, IH. reflexivity. Qed.

Definition prep (p : bytes) (ls : list bytes) : list bytes :=
  match ls with l :: r => (p ++ l) :: r | [] => [] end.

Lemma last_line_acc_lines acc s : last_line_acc acc s = last (prep (rev acc) (lines s)) [].
Proof.
  revert acc; induction s as [|c r IH]; intros acc.
  - simpl. rewrite app_nil_r. reflexivity.
  - destruct (is_nl c) eqn:Hc.
    + rewrite lines_cons_nl by assumption. simpl last_line_acc. rewrite Hc, IH.
      simpl rev. unfold prep at 2. destruct (lines r) eqn:E; [exfalso; eapply lines_nonempty; eauto|].
      simpl prep. rewrite last_cons2. reflexivity.
    + rewrite lines_cons_other by assumption. simpl last_line_acc. rewrite Hc, IH.
      destruct (lines r) as [|l ls] eqn:E; [exfalso; eapply lines_nonempty; eauto|].
      simpl. rewrite <- app_assoc. reflexivity.
Qed.

Lemma last_line_lines s : last_line s = last (lines s) [].
Proof. unfold last_line. rewrite last_line_acc_lines. simpl.
  destruct (lines s); reflexivity. Qed.

Lemma sum_lens_app a b : sum_lens (a ++ b) = sum_lens a + sum_lens b.
Proof. induction a; simpl; lia. Qed.

Lemma sum_lens_lines s : sum_lens (lines s) = S (length s).
Proof. induction s as [|c r IH]; [reflexivity|]. destruct (is_nl c) eqn:Hc.
  - rewrite lines_cons_nl by assumption. simpl. lia.
  - rewrite lines_cons_other by assumption.
    destruct (lines r) as [|l ls] eqn:E; [exfalso; eapply lines_nonempty; eauto|].
    simpl in *. lia. Qed.

Lemma removelast_last_split {A} (l : list A) d : l <> [] -> l = removelast l ++ [last l d].
Proof. intros; apply app_removelast_last; assumption. Qed.

Lemma length_removelast {A} (l : list A) : length (removelast l) = length l - 1.
Proof. induction l as [|x [|y l] IH]; simpl in *; lia. Qed.

Lemma sum_lens_removelast s :
  sum_lens (removelast (lines s)) + length (last (lines s) []) = length s.
Proof.
  pose proof (sum_lens_lines s) as H.
  rewrite (removelast_last_split (lines s) [] (lines_nonempty s)) in H at 1.
  rewrite sum_lens_app in H. simpl in H. lia.
Qed.

(* the first (count_nl p) lines of p ++ rest are the complete lines of p *)
Lemma firstn_lines_prefix p rest :
  firstn (count_nl p) (lines (p ++ rest)) = removelast (lines p).
Proof.
  rewrite lines_app. unfold glue.
  assert (L : length (removelast (lines p)) = count_nl p).
  { rewrite length_removelast, <- count_nl_lines. lia. }
  rewrite <- L at 1. rewrite firstn_app, firstn_all, Nat.sub_diag. simpl. apply app_nil_r.
Qed.

Lemma skipn_lines_prefix p rest :
  skipn (count_nl p) (lines (p ++ rest)) =
  (last (lines p) [] ++ hd [] (lines rest)) :: tl (lines rest).
Proof.
  rewrite lines_app. unfold glue.
  assert (L : length (removelast (lines p)) = count_nl p).
  { rewrite length_removelast, <- count_nl_lines. lia. }
  rewrite <- L at 1. rewrite skipn_app, skipn_all, Nat.sub_diag. reflexivity.
Qed.

(* Key fact: (count_nl p + 1, 1 + |last_line p|) is the position just after p *)
Lemma offset_after_prefix p rest :
  offset_of (p ++ rest) (Z.of_nat (count_nl p) + 1) (1 + Z.of_nat (length (last_line p)))
  = Z.of_nat (length p).
Proof.
  unfold offset_of.
  replace (Z.to_nat (Z.of_nat (count_nl p) + 1 - 1)) with (count_nl p) by lia.
  rewrite firstn_lines_prefix, last_line_lines.
  pose proof (sum_lens_removelast p). lia.
Qed.

Lemma offset_col_linear src l c k : offset_of src l (c + k) = (offset_of src l c + k)%Z.
Proof. unfold offset_of. lia. Qed.

Lemma count_nl_app a b : count_nl (a ++ b) = count_nl a + count_nl b.
Proof. induction a as [|c a IH]; simpl; [reflexivity|]. rewrite IH. lia. Qed.

Lemma last_app_ne {A} (l1 l2 : list A) d : l2 <> [] -> last (l1 ++ l2) d = last l2 d.
Proof. intros H. induction l1 as [|x l1 IH]; [reflexivity|].
  simpl app. destruct (l1 ++ l2) eqn:E; [|rewrite last_cons2; exact IH].
  apply app_eq_nil in E as [_ E]. congruence. Qed.

Lemma last_glue la lb : lb <> [] -> tl lb <> [] -> last (glue la lb) [] = last lb [].
Proof.
  intros H1 H2. unfold glue. destruct lb as [|x [|y r]]; simpl in H2; try congruence.
  cbn [hd tl]. rewrite last_app_ne by discriminate. rewrite !last_cons2. reflexivity.
Qed.

Lemma last_line_app_nl a b : count_nl b <> 0 -> last_line (a ++ b) = last_line b.
Proof.
  intros H. rewrite !last_line_lines, lines_app. apply last_glue; [apply lines_nonempty|].
  pose proof (count_nl_lines b). destruct (lines b) as [|x [|y r]]; simpl in *; try lia. discriminate.
Qed.

Lemma last_line_nonl a : count_nl a = 0 -> last_line a = a.
Proof.
  intros H. rewrite last_line_lines. pose proof (count_nl_lines a) as L.
  pose proof (sum_lens_removelast a) as S1.
  assert (J : forall s, count_nl s = 0 -> lines s = [s]).
  { induction s as [|c r IH]; [reflexivity|]. simpl count_nl. destruct (is_nl c) eqn:Hc; [discriminate|].
    intros E. rewrite lines_cons_other by assumption. rewrite IH by exact E. reflexivity. }
  rewrite J by assumption. reflexivity.
Qed.

(* ---------- join / lines text ---------- *)
Lemma join_nl_cons l ls : ls <> [] -> join_nl (l :: ls) = l ++ NL :: join_nl ls.
Proof. destruct ls; [congruence|reflexivity]. Qed.

Lemma join_lines s : join_nl (lines s) = s.
Proof. induction s as [|c r IH]; [reflexivity|]. destruct (is_nl c) eqn:Hc.
  - rewrite lines_cons_nl by assumption. rewrite join_nl_cons by apply lines_nonempty.
    rewrite IH. simpl. unfold is_nl in Hc. apply N.eqb_eq in Hc. subst; reflexivity.
  - rewrite lines_cons_other by assumption.
    destruct (lines r) as [|l [|l2 ls]] eqn:E; [exfalso; eapply lines_nonempty; eauto| |].
    + simpl in *. congruence.
    + cbn [hd tl]. rewrite join_nl_cons by discriminate. rewrite join_nl_cons in IH by discriminate.
      rewrite <- IH. reflexivity. Qed.

(* join with a prefix on the first and a suffix on the last line *)
Lemma join_prep p ls : ls <> [] -> join_nl (prep p ls) = p ++ join_nl ls.
Proof. destruct ls as [|l [|l2 r]]; intros H; [congruence| |].
  - simpl. reflexivity.
  - unfold prep. rewrite !join_nl_cons by discriminate. rewrite <- app_assoc. reflexivity. Qed.

Lemma join_app_last ls l q : join_nl (ls ++ [l ++ q]) = join_nl (ls ++ [l]) ++ q.
Proof. induction ls as [|x [|y r] IH].
  - reflexivity.
  - simpl. rewrite <- app_assoc. reflexivity.
  - change ((x :: y :: r) ++ [l ++ q]) with (x :: ((y :: r) ++ [l ++ q])).
    change ((x :: y :: r) ++ [l]) with (x :: ((y :: r) ++ [l])).
    rewrite !join_nl_cons by (simpl; discriminate). rewrite IH. rewrite <- app_assoc. reflexivity. Qed.

(* the lines sl..sl+count_nl bd of before++bd++rest are head ++ bd ++ first_line rest *)
Lemma lines_text_range before bd rest :
  lines_text (before ++ bd ++ rest) (Z.of_nat (count_nl before) + 1)
             (Z.of_nat (count_nl before) + 1 + Z.of_nat (count_nl bd))
  = last_line before ++ bd ++ first_line rest.
Proof.
  unfold lines_text.
  replace (Z.to_nat (Z.of_nat (count_nl before) + 1 - 1)) with (count_nl before) by lia.
  replace (Z.to_nat (Z.of_nat (count_nl before) + 1 + Z.of_nat (count_nl bd) -
                     (Z.of_nat (count_nl before) + 1) + 1)) with (S (count_nl bd)) by lia.
  rewrite skipn_lines_prefix, <- last_line_lines.
  change ((last_line before ++ hd [] (lines (bd ++ rest))) :: tl (lines (bd ++ rest)))
    with (prep (last_line before) (hd [] (lines (bd ++ rest)) :: tl (lines (bd ++ rest)))).
  assert (HT : hd [] (lines (bd ++ rest)) :: tl (lines (bd ++ rest)) = lines (bd ++ rest)).
  { destruct (lines (bd ++ rest)) eqn:E; [exfalso; eapply lines_nonempty; eauto|reflexivity]. }
  rewrite HT.
  (* firstn commutes with prep *)
  assert (FP : forall p n ls, firstn (S n) (prep p ls) = prep p (firstn (S n) ls)).
  { intros p n [|l r]; reflexivity. }
  rewrite FP, join_prep.
  2:{ destruct (lines (bd ++ rest)) eqn:E; [exfalso; eapply lines_nonempty; eauto|simpl; discriminate]. }
  f_equal.
  (* first (count_nl bd + 1) lines of bd ++ rest *)
  rewrite lines_app. unfold glue.
  assert (L : length (removelast (lines bd)) = count_nl bd).
  { rewrite length_removelast, <- count_nl_lines. lia. }
  replace (S (count_nl bd)) with (length (removelast (lines bd)) + 1) by lia.
  rewrite firstn_app_2. cbn [firstn].
  rewrite join_app_last, <- removelast_last_split by apply lines_nonempty.
  rewrite join_lines, first_line_lines. reflexivity.
Qed.

(* ---------- ends_with_nl / removelast ---------- *)
Lemma ends_with_nl_spec s : ends_with_nl s = true -> s = removelast s ++ [NL].
Proof.
  unfold ends_with_nl. intros H. destruct (rev s) as [|c r] eqn:E; [discriminate|].
  assert (S1 : s = rev r ++ [c]). { rewrite <- (rev_involutive s), E. reflexivity. }
  unfold is_nl in H. apply N.eqb_eq in H. subst c. rewrite S1 at 2.
  rewrite removelast_last. exact S1.
Qed.

Lemma ends_with_nl_false_or s : ends_with_nl s = false -> True. Proof. trivial. Qed.

(* ---------- the main theorem ---------- *)
Theorem getContextDetails_meets_spec src from to :
  from <= to -> to <= length src ->
  check_C37 src from to (getContextDetails src from to) = true.
Proof.
  intros Hft Htl.
  set (before := firstn from src).
  set (body0 := firstn (to - from) (skipn from src)).
  set (after := skipn to src).
  assert (Hsrc : src = before ++ body0 ++ after).
  { unfold before, body0, after.
    rewrite <- (firstn_skipn from src) at 1. f_equal.
    rewrite <- (firstn_skipn (to - from) (skipn from src)) at 1. f_equal.
    rewrite skipn_skipn. f_equal. lia. }
  assert (Lb : length before = from) by (unfold before; rewrite firstn_length; lia).
  assert (Lb0 : length body0 = to - from).
  { unfold body0. rewrite firstn_length, skipn_length. lia. }
  unfold check_C37, getContextDetails, adj_to.
  fold before body0 after.
  (* uniform decomposition src = before ++ bd ++ rest with tail = first_line rest *)
  assert (exists bd rest tl to',
    (if ends_with_nl body0 then (removelast body0, @nil N) else (body0, first_line after)) = (bd, tl)
    /\ (if ends_with_nl body0 then to - 1 else to) = to'
    /\ src = before ++ bd ++ rest /\ tl = first_line rest /\ length bd = to' - from /\ from <= to'
    /\ bd = firstn (to' - from) (skipn from src)) as (bd & rest & tl & to' & E1 & E2 & E3 & E4 & E5 & E6 & E7).
  { destruct (ends_with_nl body0) eqn:EN.
    - pose proof (ends_with_nl_spec _ EN) as S1.
      assert (Lr : length body0 = S (length (removelast body0))).
      { rewrite S1 at 1. rewrite app_length. simpl. lia. }
      exists (removelast body0), (NL :: after), [], (to - 1). repeat split; try lia.
      + rewrite Hsrc at 1. rewrite S1 at 1. rewrite <- !app_assoc. reflexivity.
      + assert (F : firstn (length (removelast body0)) body0 = removelast body0).
        { generalize (removelast body0) S1. intros rl S2. rewrite S2.
          rewrite firstn_app, firstn_all, Nat.sub_diag. simpl. apply app_nil_r. }
        rewrite <- F. unfold body0 at 2. rewrite firstn_firstn. f_equal. lia.
    - exists body0, after, (first_line after), to. repeat split; try lia; assumption. }
  rewrite E1, E2. cbn [startLine startCol endLine endCol body head tail].
  clear E1 E2.
  assert (Hstart : offset_of src (Z.of_nat (count_nl before) + 1)
                     (1 + Z.of_nat (length (last_line before))) = Z.of_nat from).
  { rewrite E3. rewrite offset_after_prefix. lia. }
  repeat (apply andb_true_iff; split).
  - apply Z.eqb_eq. exact Hstart.
  - apply Z.leb_le. lia.
  - apply Z.leb_le. lia.
  - destruct (Nat.ltb from to') eqn:Hlt.
    + apply Nat.ltb_lt in Hlt.
      repeat (apply andb_true_iff; split); [apply Z.eqb_eq | apply Z.leb_le; lia | apply Z.leb_le].
      * destruct (Z.eqb_spec (Z.of_nat (count_nl before) + 1)
                            (Z.of_nat (count_nl before) + 1 + Z.of_nat (count_nl bd))) as [EQ|NE].
        -- replace (1 + Z.of_nat (length (last_line before)) + Z.of_nat (length bd) - 1)%Z
             with (1 + Z.of_nat (length (last_line before)) + (Z.of_nat (length bd) - 1))%Z by lia.
           rewrite <- EQ, offset_col_linear, Hstart. lia.
        -- assert (Hn : count_nl bd <> 0) by lia.
           pose proof (offset_after_prefix (before ++ bd) rest) as O.
           rewrite <- app_assoc, <- E3 in O.
           rewrite count_nl_app, last_line_app_nl in O by assumption.
           replace (Z.of_nat (length (last_line bd))) with
             (1 + Z.of_nat (length (last_line bd)) + -1)%Z by lia.
           rewrite offset_col_linear.
           replace (Z.of_nat (count_nl before) + 1 + Z.of_nat (count_nl bd))%Z
             with (Z.of_nat (count_nl before + count_nl bd) + 1)%Z by lia.
           rewrite O, app_length. lia.
      * destruct (Z.eqb_spec (Z.of_nat (count_nl before) + 1)
                            (Z.of_nat (count_nl before) + 1 + Z.of_nat (count_nl bd))) as [EQ|NE]; lia.
    + apply Nat.ltb_ge in Hlt. assert (to' = from) by lia. subst to'.
      assert (Hbd : bd = []) by (destruct bd; [reflexivity|simpl in E5; lia]). rewrite Hbd.
      cbn [count_nl length]. apply andb_true_iff; split; [apply Z.eqb_eq; lia|].
      destruct (Z.eqb_spec (Z.of_nat (count_nl before) + 1) (Z.of_nat (count_nl before) + 1 + Z.of_nat 0)); [|lia].
      apply Z.eqb_eq. lia.
  - apply bytes_eqb_spec. exact E7.
  - apply bytes_eqb_spec. rewrite E4. rewrite E3 at 1. symmetry. apply lines_text_range.
Qed.

(* ---------- Prop-level reading of the oracle, and its soundness ---------- *)
Definition Spec_C37 (src : bytes) (from to : nat) (d : details) : Prop :=
  let to' := adj_to src from to in
  offset_of src (startLine d) (startCol d) = Z.of_nat from
  /\ (1 <= startLine d)%Z /\ (1 <= startCol d)%Z
  /\ (from < to' -> offset_of src (endLine d) (endCol d) = (Z.of_nat to' - 1)%Z
                    /\ (startLine d <= endLine d)%Z /\ (0 <= endCol d)%Z)
  /\ (to' <= from -> endLine d = startLine d /\ endCol d = (startCol d - 1)%Z)
  /\ body d = firstn (to' - from) (skipn from src)
  /\ head d ++ body d ++ tail d = lines_text src (startLine d) (endLine d).

Lemma check_C37_sound src from to d : check_C37 src from to d = true -> Spec_C37 src from to d.
Proof.
  unfold check_C37, Spec_C37. intros H.
  destruct (Nat.ltb from (adj_to src from to)) eqn:L;
    [apply Nat.ltb_lt in L|apply Nat.ltb_ge in L];
  repeat match goal with
  | H : _ && _ = true |- _ => apply andb_true_iff in H; destruct H
  end;
  repeat match goal with
  | H : Z.eqb _ _ = true |- _ => apply Z.eqb_eq in H
  | H : Z.leb _ _ = true |- _ => apply Z.leb_le in H
  | H : bytes_eqb _ _ = true |- _ => apply bytes_eqb_spec in H
  end;
  repeat split; try assumption; try lia.
Qed.

Theorem context_positions src from to :
  from <= to -> to <= length src -> Spec_C37 src from to (getContextDetails src from to).
Proof. intros. apply check_C37_sound, getContextDetails_meets_spec; assumption. Qed.

(* describeRange picks the form from the numbers alone *)
Theorem describe_range_forms d :
  (startLine d = endLine d -> (endCol d < startCol d)%Z ->
     describeRange d = FPoint (startLine d) (startCol d))
  /\ (startLine d = endLine d -> (startCol d <= endCol d)%Z ->
     describeRange d = FLine (startLine d) (startCol d) (endCol d))
  /\ (startLine d <> endLine d ->
     describeRange d = FMulti (startLine d) (startCol d) (endLine d) (endCol d)).
Proof.
  unfold describeRange. repeat split; intros.
  - rewrite (proj2 (Z.eqb_eq _ _)) by assumption. rewrite (proj2 (Z.ltb_lt _ _)) by assumption. reflexivity.
  - rewrite (proj2 (Z.eqb_eq _ _)) by assumption. rewrite (proj2 (Z.ltb_ge _ _)) by assumption. reflexivity.
  - rewrite (proj2 (Z.eqb_neq _ _)) by assumption. reflexivity.
Qed.

(* an empty range is always printed as a point, on the model *)
Theorem empty_range_is_point src from :
  from <= length src ->
  describeRange (getContextDetails src from from) =
  FPoint (startLine (getContextDetails src from from)) (startCol (getContextDetails src from from)).
Proof.
  intros H. pose proof (context_positions src from from (le_n _) H) as S.
  destruct S as (_ & _ & _ & _ & S5 & _).
  assert (A : adj_to src from from = from).
  { unfold adj_to. rewrite Nat.sub_diag. reflexivity. }
  rewrite A in S5. destruct (S5 (le_n _)) as [E1 E2].
  apply describe_range_forms; [congruence|lia].
Qed.

(* non-vacuity: a concrete multi-line source and a range that ends right after a newline *)
Example context_example :
  let src := hx "61620a63640a0a65"%string in   (* "ab\ncd\n\ne" *)
  getContextDetails src 1 6 =
  mkDetails 1 2 2 2 (hx "620a6364"%string) (hx "61"%string) [] /\ 1 <= 6 /\ 6 <= length src.
Proof. vm_compute. repeat split; lia. Qed.
