(* C01 — specification of "lossless tree", soundness of the oracle check_C01,
   and generic facts about trees.  The theorems about the parser model are in
   proofs/C01_Parse_proofs.v. *)
From verif Require Import lib.Base lib.Utf8 lib.ListX model.C01_Parse model.C01.
From Coq Require Import Arith Lia.
Open Scope nat_scope.

(* children tile [a, b] in order *)
Fixpoint chain (a b : nat) (l : list tree) : Prop :=
  match l with
  | [] => a = b
  | t :: r => t_from t = a /\ chain (t_to t) b r
  end.

(* Every node covers a contiguous range inside the source, its text is the
   source slice of that range, and its children (if any) tile the range. *)
Inductive WF (src : bytes) : tree -> Prop :=
| WF_node k a f e x ch :
    f <= e -> e <= length src ->
    x = slice src f e ->
    (ch <> [] -> chain f e ch) ->
    Forall (WF src) ch ->
    WF src (T k a f e x ch).

Definition errs_in_range (src : bytes) (errs : list perr) : Prop :=
  Forall (fun e => e_from e <= e_to e /\ e_to e <= length src) errs.

(* The property on what a parse returned. *)
Definition Spec_C01 (src : bytes) (t : tree) (errs : list perr) : Prop :=
  WF src t
  /\ t_from t = 0
  /\ leaves t = firstn (t_to t) src
  /\ (t_to t = length src \/ exists e, In e errs /\ e_from e = t_to t)
  /\ errs_in_range src errs.


Lemma chainb_sound l : forall a b, chainb a b l = true -> chain a b l.
Proof.
  induction l as [|t r IH]; intros a b H; cbn in *.
  - now apply Nat.eqb_eq.
  - apply andb_true_iff in H as [H1 H2]. apply Nat.eqb_eq in H1. split; auto.
Qed.

Lemma chainb_complete l : forall a b, chain a b l -> chainb a b l = true.
Proof.
  induction l as [|t r IH]; intros a b H; cbn in *.
  - now apply Nat.eqb_eq.
  - destruct H as [H1 H2]. apply andb_true_iff; split; [now apply Nat.eqb_eq|auto].
Qed.

Lemma wfb_sound src : forall t, wfb src t = true -> WF src t.
Proof.
  fix IH 1. intros [k a f e x ch] H.
  cbn [wfb] in H.
  repeat (apply andb_true_iff in H as [H ?]).
  apply Nat.leb_le in H. 
  match goal with Hx : bytes_eqb _ _ = true |- _ => apply bytes_eqb_spec in Hx; rename Hx into Htx end.
  match goal with Hx : (_ <=? _) = true |- _ => apply Nat.leb_le in Hx; rename Hx into Hle end.
  constructor; auto.
  - intros Hne. destruct ch as [|c0 cr]; [congruence|]. now apply chainb_sound.
  - match goal with Hx : forallb _ _ = true |- _ => rename Hx into Hall end.
    clear - IH Hall. induction ch as [|c0 cr IHc]; constructor.
    + cbn in Hall. apply andb_true_iff in Hall as [Hc _]. now apply IH.
    + cbn in Hall. apply andb_true_iff in Hall as [_ Hr]. now apply IHc.
Qed.

Lemma wfb_complete src : forall t, WF src t -> wfb src t = true.
Proof.
  fix IH 2. intros t H. destruct H as [k a f e x ch Hfe Hel Hx Hch Hall].
  cbn [wfb]. repeat (apply andb_true_iff; split).
  - now apply Nat.leb_le.
  - now apply Nat.leb_le.
  - apply bytes_eqb_spec. exact Hx.
  - destruct ch as [|c0 cr]; [reflexivity|]. apply chainb_complete. apply Hch. congruence.
  - clear - IH Hall. induction Hall as [|c0 cr H0 Hr IHr]; cbn; [reflexivity|].
    apply andb_true_iff; split; [now apply IH|exact IHr].
Qed.

Lemma check_C01_sound src t errs : check_C01 src t errs = true -> Spec_C01 src t errs.
Proof.
  unfold check_C01, Spec_C01, lossless. intros H.
  apply andb_true_iff in H as [H Hr]. apply andb_true_iff in H as [Hw H].
  apply andb_true_iff in H as [H Hend]. apply andb_true_iff in H as [H0 Hl].
  apply Nat.eqb_eq in H0. apply bytes_eqb_spec in Hl.
  split; [now apply wfb_sound|].
  split; [assumption|]. split; [assumption|]. split.
  - apply orb_true_iff in Hend as [Hx|Hx].
    + left. now apply Nat.eqb_eq.
    + right. apply existsb_exists in Hx as [e [Hin He]]. exists e. split; auto. now apply Nat.eqb_eq.
  - unfold errs_in_range. apply Forall_forall. intros e Hin.
    rewrite forallb_forall in Hr. specialize (Hr e Hin). unfold err_in_range in Hr.
    apply andb_true_iff in Hr as [A B]. apply Nat.leb_le in A. apply Nat.leb_le in B. auto.
Qed.


(* ---- the leaves of a well-formed tree spell the slice of its range ---- *)
Lemma firstn_add {A} (l : list A) : forall m k, firstn (m + k) l = firstn m l ++ firstn k (skipn m l).
Proof.
  induction l as [|x l IH]; intros m k.
  - now rewrite skipn_nil, !firstn_nil.
  - destruct m as [|m]; [reflexivity|]. cbn. now rewrite IH.
Qed.

Lemma slice_app src a b c : a <= b -> b <= c -> slice src a b ++ slice src b c = slice src a c.
Proof.
  intros H1 H2. unfold slice.
  replace (c - a) with ((b - a) + (c - b)) by lia.
  rewrite firstn_add. f_equal. rewrite skipn_skipn. do 2 f_equal. lia.
Qed.

Lemma slice_empty src a : slice src a a = [].
Proof. unfold slice. now rewrite Nat.sub_diag. Qed.

Lemma chain_le src : forall l a b, Forall (WF src) l -> chain a b l -> a <= b.
Proof.
  induction l as [|t r IH]; intros a b Hall Hc; cbn in Hc; [lia|].
  destruct Hc as [Hf Hr]. inversion Hall as [|? ? Wt Wr]; subst.
  specialize (IH _ _ Wr Hr). destruct Wt; cbn in *. lia.
Qed.

Lemma leaves_chain src : forall l a b,
  Forall (WF src) l ->
  Forall (fun t => leaves t = slice src (t_from t) (t_to t)) l ->
  chain a b l -> flat_map leaves l = slice src a b.
Proof.
  induction l as [|t r IH]; intros a b Hw Hl Hc; cbn in *.
  - subst. now rewrite slice_empty.
  - destruct Hc as [Hf Hr]. inversion Hw as [|? ? Wt Wr]; subst. inversion Hl as [|? ? Lt Lr]; subst.
    rewrite Lt, (IH _ _ Wr Lr Hr). apply slice_app.
    + destruct Wt; cbn; lia.
    + eapply chain_le; eauto.
Qed.

Lemma leaves_slice src : forall t, WF src t -> leaves t = slice src (t_from t) (t_to t).
Proof.
  fix IH 2. intros t H. destruct H as [k a f e x ch Hfe Hel Hx Hch Hall].
  destruct ch as [|c0 cr].
  - cbn in *. exact Hx.
  - cbn [t_from t_to]. change (leaves (T k a f e x (c0 :: cr))) with (flat_map leaves (c0 :: cr)).
    apply leaves_chain; auto; [|apply Hch; congruence].
    clear - IH Hall. induction Hall as [|c1 cr' H1 Hr IHr]; constructor; auto.
Qed.

Lemma check_C01_complete src t errs : Spec_C01 src t errs -> wfb src t = true.
Proof. intros [W _]. now apply wfb_complete. Qed.
