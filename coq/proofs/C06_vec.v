(* C06 — vector level: every operation of *vector preserves the invariant and
   refines the corresponding list operation. *)
From Coq Require Import Lia ZArith List Bool Arith.
From verif Require Import lib.Base lib.ListX model.C06 proofs.C06_defs proofs.C06_tree proofs.C06_inv.
Open Scope nat_scope.

(* ---- list facts ---- *)
Lemma list_ext_nth_error {T} (l l' : list T) :
  length l = length l' -> (forall j, j < length l -> nth_error l j = nth_error l' j) -> l = l'.
Proof.
  revert l'; induction l as [|x l IH]; intros [|y l'] Hl H; simpl in *; try lia; auto.
  pose proof (H 0 ltac:(lia)) as H0. simpl in H0. inversion H0; subst. f_equal.
  apply IH; [lia|]. intros j Hj. apply (H (S j)). lia.
Qed.

Lemma nth_error_upd {T} k j (x : T) l :
  nth_error (upd k x l) j = if (j =? k) && (k <? length l) then Some x else nth_error l j.
Proof.
  destruct (Nat.eqb_spec j k) as [->|Ne]; simpl.
  - destruct (Nat.ltb_spec k (length l)).
    + apply nth_error_upd_same; assumption.
    + revert k H; induction l as [|y l IH]; intros [|k] H; simpl in *; try lia; auto. apply IH; lia.
  - apply nth_error_upd_other; assumption.
Qed.

Lemma nth_error_removelast {T} (l : list T) j : j < length l - 1 ->
  nth_error (removelast l) j = nth_error l j.
Proof.
  revert j; induction l as [|x [|y l] IH]; intros j H; simpl in *; try lia.
  destruct j; [reflexivity|]. apply IH. simpl. lia.
Qed.

Lemma removelast_length {T} (l : list T) : length (removelast l) = length l - 1.
Proof. induction l as [|x [|y l] IH]; simpl in *; lia. Qed.

Section Vec.
Variable b : Z.
Hypothesis Hb : (1 <= b)%Z.
Notation Bn := (B b).
Notation pw := (pw b).
Notation dig := (dig b).
Notation shape := (shape b).
Notation tget := (tget b).
Notation tsn := (tsn b).
Notation Inv := (Inv b).
Notation abs := (abs b).
Notation lookup := (lookup b).
Notation cnt := (cnt).

Lemma pw_mono h : pw h < pw (S h).
Proof. pose proof (B_ge2 b Hb). pose proof (pw_pos b Hb h). rewrite (pw_S b h). nia. Qed.

Lemma tsn_div c : tsn c / Bn * Bn = tsn c.
Proof.
  pose proof (B_ge2 b Hb). destruct (tsn_mult b c) as [L E]. rewrite E, Nat.div_mul by lia. reflexivity.
Qed.

(* everything the invariant gives, in one place *)
Lemma Inv_facts cz h r t : Inv (mkVec cz h r t) ->
  exists c L, cz = Z.of_nat c /\ tsn c = L * Bn /\ length t = c - L * Bn /\
    L <= pw h /\ (h = 0 \/ pw (h - 1) < L) /\ (0 < L -> shape h r L) /\
    L * Bn <= c <= L * Bn + Bn /\ (0 < c -> L * Bn < c) /\ L * Bn <= pw (S h) /\
    treeSize b (mkVec cz h r t) = Z.of_nat (L * Bn).
Proof.
  unfold C06_inv.Inv, C06_inv.cnt. cbn [count height root tail]. intros [Hc [Ht [H1 [H2 H3]]]].
  exists (Z.to_nat cz), (tsn (Z.to_nat cz) / Bn).
  pose proof (tsn_div (Z.to_nat cz)) as E. pose proof (tsn_bounds b Hb (Z.to_nat cz)) as [B1 [B2 B3]].
  rewrite E. repeat split; try assumption; try lia.
  - rewrite (pw_S b h). pose proof (B_ge2 b Hb). nia.
  - rewrite <- (treeSize_nat b Hb (Z.to_nat cz) h r t). rewrite Z2Nat.id by lia. reflexivity.
Qed.

Lemma mkInv c h r t L : tsn c = L * Bn -> length t = c - L * Bn ->
  L <= pw h -> (h = 0 \/ pw (h - 1) < L) -> (0 < L -> shape h r L) ->
  Inv (mkVec (Z.of_nat c) h r t).
Proof.
  intros E Ht H1 H2 H3. unfold C06_inv.Inv, C06_inv.cnt. cbn [count height root tail].
  rewrite Nat2Z.id. pose proof (B_ge2 b Hb).
  rewrite E, Nat.div_mul by lia. split; [lia|]. split; [exact Ht|]. auto.
Qed.

Lemma lookup_mk c h r t i :
  lookup (mkVec (Z.of_nat c) h r t) i =
  match (if i <? tsn c then tget h r i else nth_error t (i - tsn c)) with Some x => x | None => ANil end.
Proof. unfold C06_inv.lookup, C06_inv.cnt. cbn [count height root tail]. rewrite Nat2Z.id. reflexivity. Qed.

Lemma cnt_mk c h r t : cnt (mkVec (Z.of_nat c) h r t) = c.
Proof. unfold C06_inv.cnt. cbn [count]. apply Nat2Z.id. Qed.

Lemma mod_tail L n : L * Bn <= n < L * Bn + Bn -> n mod Bn = n - L * Bn.
Proof.
  intros H. pose proof (B_ge2 b Hb). replace n with ((n - L * Bn) + L * Bn) at 1 by lia.
  rewrite Nat.mod_add by lia. apply Nat.mod_small. lia.
Qed.

(* tget in terms of descend *)
Lemma tget_descend h r n cs : descend b h r (Z.of_nat n) = Some cs -> tget h r n = nth_error cs (n mod Bn).
Proof. unfold C06_tree.tget. intros ->. reflexivity. Qed.

Lemma descend_ok h : forall n L i, shape h n L -> i mod pw (S h) < L * Bn ->
  exists cs, descend b h n (Z.of_nat i) = Some cs /\ length cs = Bn.
Proof.
  induction h as [|h IH]; intros n L i Hs Hi.
  - simpl in Hs. destruct Hs as [[H _]|[H [cs [H1 H2]]]]; [subst; lia|]. subst. exists cs. split; [reflexivity|exact H2].
  - destruct L as [|L']; [lia|].
    destruct (shape_node b _ _ _ Hs ltac:(lia)) as [cs [-> Hl]].
    apply (shape_S_inv b) in Hs. destruct Hs as [HL [_ Hk]].
    rewrite (descend_S b Hb). assert (Hd : dig i (S h) < Bn) by (apply dig_lt; exact Hb).
    rewrite (nth_error_nth_len cs _ ANil) by lia.
    eapply IH; [apply Hk; exact Hd|]. apply (child_room b Hb). exact Hi.
Qed.

(* ---- Index ---- *)
Lemma index_lookup v n : Inv v -> n < cnt v -> index b v (Z.of_nat n) = Ok (Some (lookup v n)).
Proof.
  destruct v as [cz h r t]. intros HI Hn.
  destruct (Inv_facts _ _ _ _ HI) as [c [L [-> [Ets [Ht [H1 [H2 [H3 [Hb1 [Hb2 [Hb3 ETS]]]]]]]]]]].
  rewrite cnt_mk in Hn. unfold index. rewrite ETS. cbn [count height root tail].
  rewrite lookup_mk, Ets.
  destruct (Z.ltb_spec (Z.of_nat n) 0); [lia|]. destruct (Z.geb_spec (Z.of_nat n) (Z.of_nat c)); [lia|].
  cbn [orb]. rewrite (chunk_nat b Hb), (dig0 b).
  destruct (Z.geb_spec (Z.of_nat n) (Z.of_nat (L * Bn))) as [G|G];
  destruct (Nat.ltb_spec n (L * Bn)) as [G'|G']; try lia.
  - rewrite (mod_tail L) by lia.
    destruct (nth_error t (n - L * Bn)) eqn:E; [reflexivity|]. apply nth_error_None in E. lia.
  - assert (HL : 0 < L) by nia.
    assert (Hm : n mod pw (S h) = n) by (apply Nat.mod_small; lia).
    destruct (descend_ok h r L n (H3 HL) ltac:(lia)) as [cs [E El]].
    rewrite E. rewrite (tget_descend _ _ _ _ E).
    destruct (nth_error cs (n mod Bn)) eqn:E'; [reflexivity|]. apply nth_error_None in E'.
    pose proof (Nat.mod_upper_bound n Bn). pose proof (B_ge2 b Hb). lia.
Qed.

Lemma abs_zlen v : Inv v -> zlen (abs v) = count v.
Proof. intros [H _]. unfold zlen. rewrite abs_length. unfold C06_inv.cnt. lia. Qed.

Theorem index_ref v i : Inv v -> index b v i = Ok (l_index (abs v) i).
Proof.
  intros HI. unfold l_index. rewrite (abs_zlen v HI).
  destruct (Z.leb_spec 0 i) as [H0|H0]; destruct (Z.ltb_spec i (count v)) as [H1|H1]; cbn [andb].
  - replace i with (Z.of_nat (Z.to_nat i)) at 1 by lia.
    rewrite index_lookup by (try assumption; unfold C06_inv.cnt; lia).
    rewrite abs_nth by (unfold C06_inv.cnt; lia). reflexivity.
  - unfold index. destruct (Z.ltb_spec i 0); [lia|]. destruct (Z.geb_spec i (count v)); [reflexivity|lia].
  - unfold index. destruct (Z.ltb_spec i 0); [reflexivity|lia].
  - unfold index. destruct (Z.ltb_spec i 0); [reflexivity|lia].
Qed.

(* ---- tree size after one more / one fewer element ---- *)
Lemma div_qr q r : r < Bn -> (q * Bn + r) / Bn = q.
Proof. intros H. pose proof (B_ge2 b Hb). rewrite Nat.div_add_l by lia. rewrite Nat.div_small by lia. lia. Qed.

Lemma tsn_S_eq c L r : c = L * Bn + r -> r < Bn -> tsn (S c) = L * Bn.
Proof.
  intros -> Hr. unfold C06_defs.tsn. pose proof (B_ge2 b Hb).
  destruct (Nat.ltb_spec (S (L * Bn + r)) Bn) as [H1|H1].
  - assert (L = 0) by nia. subst; reflexivity.
  - replace (S (L * Bn + r) - 1) with (L * Bn + r) by lia. rewrite div_qr by exact Hr. reflexivity.
Qed.

Lemma seq_map_S {T} (f : nat -> T) n : map f (seq 0 (S n)) = map f (seq 0 n) ++ [f n].
Proof. rewrite seq_S, map_app. reflexivity. Qed.

Lemma nodeFromSlice_full t : length t = Bn -> nodeFromSlice b t = ANode t.
Proof.
  intros H. unfold nodeFromSlice. f_equal. rewrite firstn_app, H, Nat.sub_diag. simpl.
  rewrite <- H, firstn_all. apply app_nil_r.
Qed.

Lemma shiftr_nat c : Z.shiftr (Z.of_nat c) b = Z.of_nat (c / Bn).
Proof. rewrite Z.shiftr_div_pow2 by lia. rewrite <- (B_Z b), <- Nat2Z.inj_div. reflexivity. Qed.

Lemma shiftl1_nat h : Z.shiftl 1 (Z.of_nat h * b) = Z.of_nat (pw h).
Proof. rewrite Z.shiftl_1_l. symmetry. apply (pw_Z b Hb). Qed.

(* the common end of the two "tail is full" cases of Conj *)
Lemma conj_full_finish c L h r t h' r' x :
  c = L * Bn + Bn -> length t = Bn ->
  L + 1 <= pw h' -> (h' = 0 \/ pw (h' - 1) < L + 1) -> shape h' r' (L + 1) ->
  (forall i, i < L * Bn -> tget h' r' i = tget h r i) ->
  (forall i, L * Bn <= i < c -> tget h' r' i = nth_error t (i mod Bn)) ->
  tsn c = L * Bn ->
  Inv (mkVec (Z.of_nat c + 1) h' r' [x]) /\
  abs (mkVec (Z.of_nat c + 1) h' r' [x]) = abs (mkVec (Z.of_nat c) h r t) ++ [x].
Proof.
  intros Ec Ht H1 H2 Hs G1 G2 Ets. pose proof (B_ge2 b Hb) as HB.
  replace (Z.of_nat c + 1)%Z with (Z.of_nat (S c)) by lia.
  assert (Ets' : tsn (S c) = (L + 1) * Bn) by (apply (tsn_S_eq c (L + 1) 0); lia).
  split.
  - apply (mkInv (S c) h' r' [x] (L + 1)); auto. cbn [length]. nia.
  - unfold C06_inv.abs. rewrite !cnt_mk. rewrite seq_map_S. f_equal.
    + apply map_ext_in. intros i Hi. apply in_seq in Hi. rewrite !lookup_mk, Ets, Ets'.
      destruct (Nat.ltb_spec i ((L + 1) * Bn)); [|lia].
      destruct (Nat.ltb_spec i (L * Bn)).
      * rewrite G1 by lia. reflexivity.
      * rewrite G2 by lia. rewrite (mod_tail L) by lia. reflexivity.
    + rewrite lookup_mk, Ets'. destruct (Nat.ltb_spec c ((L + 1) * Bn)); [lia|].
      replace (c - (L + 1) * Bn) with 0 by lia. reflexivity.
Qed.

Theorem conj_ref v x : Inv v -> exists w, conj b v x = Ok w /\ Inv w /\ abs w = abs v ++ [x].
Proof.
  destruct v as [cz h r t]. intros HI. pose proof (B_ge2 b Hb) as HB.
  destruct (Inv_facts _ _ _ _ HI) as [c [L [-> [Ets [Ht [H1 [H2 [H3 [Hb1 [Hb2 [Hb3 ETS]]]]]]]]]]].
  unfold conj. rewrite ETS. cbn [count height root tail]. unfold tailMaxLen.
  rewrite (nodeSize_pow b), <- (B_Z b).
  destruct (Z.ltb_spec (Z.of_nat c - Z.of_nat (L * Bn)) (Z.of_nat Bn)) as [Hroom|Hfull].
  - (* room in the tail *)
    eexists; split; [reflexivity|].
    replace (Z.of_nat c + 1)%Z with (Z.of_nat (S c)) by lia.
    assert (Ets' : tsn (S c) = L * Bn) by (apply (tsn_S_eq c L (c - L * Bn)); lia).
    split.
    + apply (mkInv (S c) h r (t ++ [x]) L); auto. rewrite app_length. cbn [length]. lia.
    + unfold C06_inv.abs. rewrite !cnt_mk, seq_map_S. f_equal.
      * apply map_ext_in. intros i Hi. apply in_seq in Hi. rewrite !lookup_mk, Ets, Ets'.
        destruct (Nat.ltb_spec i (L * Bn)); [reflexivity|].
        rewrite nth_error_app1 by lia. reflexivity.
      * rewrite lookup_mk, Ets'. destruct (Nat.ltb_spec c (L * Bn)); [lia|].
        rewrite nth_error_app2 by lia. replace (c - L * Bn - length t) with 0 by lia. reflexivity.
  - (* tail full *)
    assert (Ec : c = L * Bn + Bn) by lia. assert (Ht' : length t = Bn) by lia.
    rewrite (nodeFromSlice_full t Ht'). rewrite shiftr_nat, shiftl1_nat.
    assert (Ediv : c / Bn = L + 1).
    { rewrite Ec. replace (L * Bn + Bn) with ((L + 1) * Bn + 0) by lia. apply div_qr. lia. }
    rewrite Ediv.
    destruct (Z.gtb_spec (Z.of_nat (L + 1)) (Z.of_nat (pw h))) as [Hov|Hnov].
    + (* new root *)
      assert (EL : L = pw h) by lia. pose proof (pw_pos b Hb h) as P.
      eexists; split; [reflexivity|].
      destruct (newPath_ok b Hb h t Ht') as [Hsn Hgn].
      assert (Hlen : length (upd 1 (newPath b h (ANode t)) (upd 0 r (newNode b))) = Bn)
        by (rewrite !upd_length; apply newNode_length).
      apply (conj_full_finish c L h r t (S h)); auto.
      * rewrite (pw_S b h). nia.
      * right. simpl. rewrite Nat.sub_0_r. lia.
      * cbn [C06_tree.shape]. right. split; [fold (pw (S h)); rewrite (pw_S b h); nia|].
        eexists; split; [reflexivity|]. split; [exact Hlen|]. intros k Hk.
        destruct k as [|[|k]].
        -- rewrite nth_upd_other by lia. rewrite nth_upd_same by (rewrite newNode_length; lia).
           replace (Nat.min (pw h) (L + 1 - 0 * pw h)) with L by lia. apply H3. lia.
        -- rewrite nth_upd_same by (rewrite upd_length, newNode_length; lia).
           replace (Nat.min (pw h) (L + 1 - 1 * pw h)) with 1 by lia. exact Hsn.
        -- rewrite !nth_upd_other by lia. unfold newNode. rewrite nth_repeat_nil.
           replace (Nat.min (pw h) (L + 1 - S (S k) * pw h)) with 0 by nia. apply shape_nil_0.
      * intros i Hi. rewrite (tget_S b Hb) by exact Hlen.
        assert (D : dig i (S h) = 0).
        { unfold C06_defs.dig. rewrite Nat.div_small by (rewrite (pw_S b h); nia). apply Nat.mod_0_l. lia. }
        rewrite D. rewrite nth_upd_other by lia. rewrite nth_upd_same by (rewrite newNode_length; lia). reflexivity.
      * intros i Hi. rewrite (tget_S b Hb) by exact Hlen.
        pose proof (pw_S b h) as EM. set (M := pw (S h)) in *.
        assert (HM : L * Bn = M) by (rewrite EM; nia).
        assert (HMB : Bn <= M) by nia.
        assert (D : dig i (S h) = 1).
        { unfold C06_defs.dig. fold M. replace i with ((i - M) + 1 * M) by lia.
          rewrite Nat.div_add by lia. rewrite (Nat.div_small (i - M)) by lia. apply Nat.mod_small. lia. }
        rewrite D. rewrite nth_upd_same by (rewrite upd_length, newNode_length; lia).
        apply Hgn. fold M. replace i with ((i - M) + 1 * M) by lia.
        rewrite Nat.mod_add by lia. rewrite Nat.mod_small by lia. lia.
    + (* push into the tree *)
      assert (HL : L < pw h) by lia.
      assert (Hpre : h = 0 \/ (0 < L /\ shape h r L)).
      { destruct H2 as [H2|H2]; [left; exact H2|right]. assert (0 < L) by lia. split; [assumption|apply H3; assumption]. }
      assert (Hp : ((c - 1) mod pw (S h)) / Bn = L).
      { rewrite Nat.mod_small by (rewrite (pw_S b h); nia).
        replace (c - 1) with (L * Bn + (Bn - 1)) by lia. apply div_qr. lia. }
      destruct (pushTail_ok b Hb h r L (c - 1) t Ht' Hpre HL Hp) as [r' [E [Hs' [G1 G2]]]].
      replace (Z.of_nat (c - 1) + 1)%Z with (Z.of_nat c) in E by lia. rewrite E.
      eexists; split; [reflexivity|].
      apply (conj_full_finish c L h r t h); auto.
      * lia.
      * destruct H2 as [H2|H2]; [left; exact H2|right; lia].
      * intros i Hi. apply G1. rewrite Nat.mod_small by lia. exact Hi.
      * intros i Hi. apply G2. rewrite Nat.mod_small by (rewrite (pw_S b h); nia).
        replace i with (L * Bn + (i - L * Bn)) by lia. apply div_qr. lia.
Qed.

(* ---- Assoc ---- *)
Lemma abs_upd w v n x : cnt w = cnt v -> n < cnt v ->
  (forall j, j < cnt v -> lookup w j = if j =? n then x else lookup v j) ->
  abs w = upd n x (abs v).
Proof.
  intros Ec Hn H. apply list_ext_nth_error.
  - rewrite upd_length, !abs_length. exact Ec.
  - intros j Hj. rewrite abs_length in Hj. rewrite nth_error_upd, abs_length.
    rewrite !abs_nth by lia. rewrite H by lia.
    destruct (Nat.eqb_spec j n); destruct (Nat.ltb_spec n (cnt v)); simpl; try reflexivity; lia.
Qed.

Theorem assoc_ref v i x : Inv v ->
  match l_assoc (abs v) i x with
  | Some l' => exists w, assoc b v i x = Ok (Some w) /\ Inv w /\ abs w = l'
  | None => assoc b v i x = Ok None
  end.
Proof.
  intros HI. unfold l_assoc. rewrite (abs_zlen v HI). unfold assoc.
  destruct (Z.leb_spec 0 i) as [H0|H0]; destruct (Z.ltb_spec i (count v)) as [H1|H1]; cbn [andb].
  2: { destruct (Z.eqb_spec i (count v)) as [E|E].
       - destruct (Z.ltb_spec i 0); [lia|]. destruct (Z.gtb_spec i (count v)); [lia|]. cbn [orb].
         destruct (conj_ref v x HI) as [w [Ew [Iw Aw]]]. rewrite Ew. eauto.
       - destruct (Z.ltb_spec i 0); [lia|]. destruct (Z.gtb_spec i (count v)); [reflexivity|lia]. }
  2: { destruct (Z.eqb_spec i (count v)); [destruct HI; lia|]. destruct (Z.ltb_spec i 0); [reflexivity|lia]. }
  2: { destruct (Z.eqb_spec i (count v)); [destruct HI; lia|]. destruct (Z.ltb_spec i 0); [reflexivity|lia]. }
  destruct (Z.ltb_spec i 0); [lia|]. destruct (Z.gtb_spec i (count v)); [lia|]. cbn [orb].
  destruct (Z.eqb_spec i (count v)); [lia|].
  destruct v as [cz h r t]. pose proof (B_ge2 b Hb) as HB.
  destruct (Inv_facts _ _ _ _ HI) as [c [L [-> [Ets [Ht [I2 [I3 [I4 [Hb1 [Hb2 [Hb3 ETS]]]]]]]]]]].
  rewrite ETS. cbn [count height root tail] in *.
  set (ni := Z.to_nat i). assert (Ei : i = Z.of_nat ni) by lia. rewrite Ei.
  assert (Hn : ni < c) by lia. rewrite (chunk_nat b Hb), (dig0 b).
  destruct (Z.geb_spec (Z.of_nat ni) (Z.of_nat (L * Bn))) as [G|G].
  - (* in the tail *)
    rewrite (mod_tail L) by lia. unfold set_nth.
    destruct (Nat.ltb_spec (ni - L * Bn) (length t)); [|lia].
    eexists; split; [reflexivity|]. split.
    + apply (mkInv c h r _ L); auto. rewrite upd_length. exact Ht.
    + apply abs_upd; rewrite ?cnt_mk; auto.
      intros j Hj. rewrite !lookup_mk, Ets.
      destruct (Nat.ltb_spec j (L * Bn)).
      * destruct (Nat.eqb_spec j ni); [lia|reflexivity].
      * rewrite nth_error_upd. destruct (Nat.eqb_spec j ni) as [->|Ne].
        -- rewrite Nat.eqb_refl. destruct (Nat.ltb_spec (ni - L * Bn) (length t)); [reflexivity|lia].
        -- destruct (Nat.eqb_spec (j - L * Bn) (ni - L * Bn)); [lia|reflexivity].
  - (* in the tree *)
    assert (HL : 0 < L) by nia.
    assert (Hm : ni mod pw (S h) = ni) by (apply Nat.mod_small; lia).
    destruct (doAssoc_ok b Hb h r L ni x (I4 HL) ltac:(lia)) as [r' [E [Hs' Gd]]].
    rewrite E. eexists; split; [reflexivity|]. split.
    + apply (mkInv c h r' t L); auto.
    + apply abs_upd; rewrite ?cnt_mk; auto.
      intros j Hj. rewrite !lookup_mk, Ets.
      destruct (Nat.ltb_spec j (L * Bn)).
      * rewrite Gd, Hm. rewrite (Nat.mod_small j) by lia.
        destruct (Nat.eqb_spec j ni); reflexivity.
      * destruct (Nat.eqb_spec j ni); [lia|reflexivity].
Qed.

(* ---- Pop ---- *)
Lemma removelast_map_seq {T} (f : nat -> T) n : removelast (map f (seq 0 (S n))) = map f (seq 0 n).
Proof. rewrite seq_map_S. apply removelast_last. Qed.

Lemma abs_pop w v : cnt v = S (cnt w) ->
  (forall j, j < cnt w -> lookup w j = lookup v j) -> abs w = removelast (abs v).
Proof.
  intros Ec H. unfold C06_inv.abs at 2. rewrite Ec, removelast_map_seq.
  apply map_ext_in. intros j Hj. apply in_seq in Hj. apply H. lia.
Qed.

Lemma inv_empty : Inv empty /\ abs empty = [].
Proof.
  split; [|reflexivity]. change empty with (mkVec (Z.of_nat 0) 0 ANil []).
  pose proof (B_ge2 b Hb). apply (mkInv 0 0 ANil [] 0); auto; try lia.
  unfold C06_defs.tsn. destruct (Nat.ltb_spec 0 Bn); lia.
Qed.

Theorem pop_ref v : Inv v ->
  match l_pop (abs v) with
  | Some l' => exists w, pop b v = Ok (Some w) /\ Inv w /\ abs w = l'
  | None => pop b v = Ok None
  end.
Proof.
  intros HI. destruct v as [cz h r t]. pose proof (B_ge2 b Hb) as HB.
  destruct (Inv_facts _ _ _ _ HI) as [c [L [-> [Ets [Ht [I2 [I3 [I4 [Hb1 [Hb2 [Hb3 ETS]]]]]]]]]]].
  unfold pop. rewrite ETS. cbn [count height root tail].
  pose proof (abs_length b (mkVec (Z.of_nat c) h r t)) as Hal. rewrite cnt_mk in Hal.
  destruct (Z.eqb_spec (Z.of_nat c) 0) as [E0|E0].
  { destruct (abs (mkVec (Z.of_nat c) h r t)); [reflexivity|simpl in Hal; lia]. }
  assert (Hne : l_pop (abs (mkVec (Z.of_nat c) h r t)) = Some (removelast (abs (mkVec (Z.of_nat c) h r t)))).
  { unfold l_pop. destruct (abs (mkVec (Z.of_nat c) h r t)); [simpl in Hal; lia|reflexivity]. }
  rewrite Hne.
  destruct (Z.eqb_spec (Z.of_nat c) 1) as [E1|E1].
  { exists empty. split; [reflexivity|]. destruct inv_empty as [Ie Ae]. split; [exact Ie|]. rewrite Ae.
    destruct (abs (mkVec (Z.of_nat c) h r t)) as [|a [|a' l]]; simpl in Hal; try lia. reflexivity. }
  assert (Hc2 : 2 <= c) by lia.
  destruct (Z.gtb_spec (Z.of_nat c - Z.of_nat (L * Bn)) 1) as [Hbig|Hone].
  - (* more than one element in the tail *)
    destruct t as [|t0 t']; [simpl in Ht; lia|]. set (t := t0 :: t') in *.
    eexists; split; [reflexivity|].
    replace (Z.of_nat c - 1)%Z with (Z.of_nat (c - 1)) by lia.
    assert (Ets' : tsn (c - 1) = L * Bn).
    { replace (c - 1) with (S (c - 2)) by lia. apply (tsn_S_eq (c - 2) L (c - 2 - L * Bn)); lia. }
    split.
    + apply (mkInv (c - 1) h r _ L); auto. rewrite removelast_length. lia.
    + apply abs_pop; rewrite !cnt_mk; [lia|]. intros j Hj. rewrite !lookup_mk, Ets, Ets'.
      destruct (Nat.ltb_spec j (L * Bn)); [reflexivity|].
      rewrite nth_error_removelast by lia. reflexivity.
  - (* the tail has one element: the last leaf becomes the tail *)
    assert (Ec : c = L * Bn + 1) by lia. assert (HL : 0 < L) by nia.
    assert (HLm : (L - 1) * Bn + Bn = L * Bn).
    { destruct L as [|L']; [lia|]. replace (S L' - 1) with L' by lia. lia. }
    pose proof (I4 HL) as Hs.
    assert (Ets' : tsn (c - 1) = (L - 1) * Bn).
    { replace (c - 1) with (S (c - 2)) by lia. apply (tsn_S_eq (c - 2) (L - 1) (Bn - 1)); lia. }
    unfold sliceFor. rewrite ETS. cbn [count height root tail].
    destruct (Z.geb_spec (Z.of_nat c - 2) (Z.of_nat (L * Bn))); [lia|].
    replace (Z.of_nat c - 2)%Z with (Z.of_nat (c - 2)) by lia.
    assert (Hm : (c - 2) mod pw (S h) = c - 2) by (apply Nat.mod_small; lia).
    destruct (descend_ok h r L (c - 2) Hs ltac:(lia)) as [leaf [Ed Hleaf]]. rewrite Ed.
    (* reading the new tail = reading the old last leaf *)
    assert (Gleaf : forall j, (L - 1) * Bn <= j < c - 1 -> nth_error leaf (j - (L - 1) * Bn) = tget h r j).
    { intros j Hj. assert (Ej : descend b h r (Z.of_nat j) = Some leaf).
      { rewrite <- Ed. apply (descend_leaf b Hb).
        replace j with ((L - 1) * Bn + (j - (L - 1) * Bn)) by lia.
        replace (c - 2) with ((L - 1) * Bn + (Bn - 1)) by lia. rewrite !div_qr by lia. reflexivity. }
      rewrite (tget_descend _ _ _ _ Ej). rewrite (mod_tail (L - 1)) by lia. reflexivity. }
    replace (Z.of_nat c - 1)%Z with (Z.of_nat (c - 1)) by lia.
    destruct h as [|h0].
    + (* height 0: one leaf; the root becomes irrelevant *)
      assert (L = 1) by (unfold C06_defs.pw in I2; simpl in I2; lia). subst L.
      destruct (shape_node b _ _ _ Hs HL) as [cs [-> Hcs]].
      cbn [popTail].
      replace (Z.of_nat c - 2)%Z with (Z.of_nat (c - 2)) by lia.
      rewrite (chunk_nat b Hb), (dig0 b).
      destruct (Nat.eqb_spec ((c - 2) mod Bn) 0) as [Ez|Ez].
      * exfalso. rewrite (mod_tail 0) in Ez by lia. lia.
      * eexists; split; [reflexivity|]. split.
        -- apply (mkInv (c - 1) 0 _ leaf 0); auto; try lia; try (rewrite Ets'; lia).
        -- apply abs_pop; rewrite !cnt_mk; [lia|]. intros j Hj. rewrite !lookup_mk, Ets, Ets'.
           destruct (Nat.ltb_spec j ((1 - 1) * Bn)); [lia|].
           destruct (Nat.ltb_spec j (1 * Bn)); [|lia]. rewrite Gleaf by lia. reflexivity.
    + (* height >= 1 *)
      assert (Hp : ((c - 2) mod pw (S (S h0))) / Bn = L - 1).
      { rewrite Hm. replace (c - 2) with ((L - 1) * Bn + (Bn - 1)) by lia. apply div_qr. lia. }
      destruct (popTail_ok b Hb h0 r L (c - 2) Hs HL Hp) as [r' [Ep [Hs' Gp]]].
      replace (Z.of_nat (c - 2) + 2)%Z with (Z.of_nat c) in Ep by lia. rewrite Ep.
      pose proof (pw_pos b Hb h0) as P.
      assert (I3' : pw h0 < L) by (destruct I3 as [I3|I3]; [discriminate|simpl in I3; rewrite Nat.sub_0_r in I3; exact I3]).
      destruct (shape_node b _ _ _ Hs' ltac:(lia)) as [cs' [-> Hcs']].
      apply (shape_S_inv b) in Hs'. destruct Hs' as [HLb' [_ Hk']].
      rewrite (nth_error_nth_len cs' 1 ANil) by lia.
      pose proof (Hk' 1 ltac:(lia)) as Hc1. pose proof (Hk' 0 ltac:(lia)) as Hc0.
      replace (Nat.min (pw h0) (L - 1 - 0 * pw h0)) with (pw h0) in Hc0 by lia.
      assert (Hlook : forall (hh : nat) (rr : any),
                 (forall j, j < (L - 1) * Bn -> tget hh rr j = tget (S h0) r j) ->
                 abs (mkVec (Z.of_nat (c - 1)) hh rr leaf) = removelast (abs (mkVec (Z.of_nat c) (S h0) r t))).
      { intros hh rr Hrr. apply abs_pop; rewrite !cnt_mk; [lia|]. intros j Hj. rewrite !lookup_mk, Ets, Ets'.
        destruct (Nat.ltb_spec j ((L - 1) * Bn)).
        - destruct (Nat.ltb_spec j (L * Bn)); [|nia]. rewrite Hrr by lia. reflexivity.
        - destruct (Nat.ltb_spec j (L * Bn)); [|lia]. rewrite Gleaf by lia. reflexivity. }
      destruct (nth 1 cs' ANil) as [|a|c1] eqn:E1'.
      * (* the root has a single child left: the tree loses a level *)
        apply shape_nil in Hc1. assert (EL : L - 1 = pw h0) by lia.
        rewrite (nth_error_nth_len cs' 0 ANil) by lia.
        destruct (shape_node b _ _ _ Hc0 P) as [cs0 [E0' Hcs0]]. rewrite E0'.
        eexists; split; [reflexivity|]. split.
        -- apply (mkInv (c - 1) h0 _ leaf (L - 1)); auto; try lia.
           ++ destruct h0; [left; reflexivity|right]. simpl. rewrite Nat.sub_0_r, EL. apply pw_mono.
           ++ intros _. rewrite EL, <- E0'. exact Hc0.
        -- apply Hlook. intros j Hj. rewrite <- Gp by (rewrite Nat.mod_small; lia).
           rewrite (tget_S b Hb) by exact Hcs'.
           assert (D : dig j (S h0) = 0).
           { unfold C06_defs.dig. rewrite Nat.div_small by (rewrite (pw_S b h0); nia). apply Nat.mod_0_l. lia. }
           rewrite D, E0'. reflexivity.
      * exfalso. eapply shape_not_val; exact Hc1.
      * assert (pw h0 < L - 1).
        { destruct (Nat.le_gt_cases (L - 1) (pw h0)); [|assumption].
          replace (Nat.min (pw h0) (L - 1 - 1 * pw h0)) with 0 in Hc1 by lia.
          apply shape_zero in Hc1. discriminate. }
        eexists; split; [reflexivity|]. split.
        -- apply (mkInv (c - 1) (S h0) _ leaf (L - 1)); auto; try lia.
           ++ right. simpl. rewrite Nat.sub_0_r. assumption.
           ++ intros _. cbn [C06_tree.shape]. right. split; [exact HLb'|]. exists cs'. auto.
        -- apply Hlook. intros j Hj. apply Gp. rewrite Nat.mod_small; lia.
Qed.

End Vec.
