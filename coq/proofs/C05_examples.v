(* C05: non-vacuity examples computed through the model *)
From Coq Require Import String.
From verif Require Import lib.Base model.C05.
Open Scope N_scope.

Lemma example_values :
  parse_num (fun _ => None) (hx "30373535"%string) = PNum (NInt 493)
  /\ dec_Z 755 = hx "373535"%string
  /\ parse_num (fun _ => None) (hx "2d315f302f306231305f30"%string) = PNum (NRat (-5) 2)
  /\ parse_num (fun _ => None) (hx "39323233333732303336383534373735383038"%string) = PNum (NBig 9223372036854775808)
  /\ non_number (hx "312f2d32"%string) = true
  /\ rne_bits false 1 (-1) = 4591870180066957722%N.
Proof. vm_compute. repeat split; reflexivity. Qed.
