(* C44 — proofs about the model of pkg/lsp/server.go (model/C44.v). *)
From verif Require Import lib.Base lib.Utf8 model.C44.
From Coq Require Import ZifyBool ZifyNat ZifyN.
Open Scope Z_scope.

(* ================================================================== *)
(* 1. "for i, r := range s": every rune has width >= 1 and the widths add up *)

Lemma decode_rune_width : forall s, s <> [] ->
  (1 <= snd (decode_rune s) <= length s)%nat.
Proof.
  intros s Hs. destruct s as [|p0 r1]; [congruence|]. clear Hs.
  unfold decode_rune.
  repeat (match goal with
          | |- context [match ?x with _ => _ end] => destruct x
          end; cbn [snd length]); lia.
Qed.

Definition widths_pos (its : list item) : Prop := Forall (fun it => (1 <= snd it)%nat) its.

Lemma items_fuel_ok : forall fuel s, (length s <= fuel)%nat ->
  widths_pos (items_fuel fuel s) /\ wsum (items_fuel fuel s) = length s.
Proof.
  induction fuel as [|f IH]; intros s Hl.
  - destruct s; [|cbn in Hl; lia]. cbn. split; [constructor|reflexivity].
  - destruct s as [|b r]; [cbn; split; [constructor|reflexivity]|].
    cbn [items_fuel].
    pose proof (decode_rune_width (b :: r) ltac:(congruence)) as Hw.
    set (rw := decode_rune (b :: r)) in *.
    assert (Hsk : length (skipn (snd rw) (b :: r)) = (length (b :: r) - snd rw)%nat)
      by apply skipn_length.
    destruct (IH (skipn (snd rw) (b :: r))) as [IH1 IH2]; [cbn [length] in *; lia|].
    split.
    + constructor; [lia|exact IH1].
    + cbn [wsum]. rewrite IH2, Hsk. lia.
Qed.

Lemma items_of_widths s : widths_pos (items_of s).
Proof. apply items_fuel_ok. unfold items_of. lia. Qed.

Lemma wsum_items_of s : wsum (items_of s) = length s.
Proof. apply items_fuel_ok. lia. Qed.

Lemma wsum_app a b : wsum (a ++ b) = (wsum a + wsum b)%nat.
Proof. induction a as [|x a IH]; cbn; [reflexivity|rewrite IH; lia]. Qed.

Lemma widths_pos_app a b : widths_pos (a ++ b) -> widths_pos a /\ widths_pos b.
Proof. unfold widths_pos. apply Forall_app. Qed.

(* a byte offset is on a rune boundary of s *)
Definition boundary (s : bytes) (o : nat) : Prop :=
  exists pre post, items_of s = pre ++ post /\ wsum pre = o.

Lemma boundary_le s o : boundary s o -> (o <= length s)%nat.
Proof.
  intros (pre & post & E & W). rewrite <- (wsum_items_of s), E, wsum_app. lia.
Qed.

(* ================================================================== *)
(* 2. The loop state after a run of runes *)

Definition run (rs : list N) (st : wstate) : wstate := fold_left (fun st r => step r st) rs st.

Lemma run_app a b st : run (a ++ b) st = run b (run a st).
Proof. apply fold_left_app. Qed.

Lemma runes_app a b : runes (a ++ b) = runes a ++ runes b.
Proof. apply map_app. Qed.

(* order on positions *)
Definition plt (a b : pos) : Prop := pline a < pline b \/ (pline a = pline b /\ pchar a < pchar b).
Definition ple (a b : pos) : Prop := pline a < pline b \/ (pline a = pline b /\ pchar a <= pchar b).

Lemma pos_lt_iff a b : pos_lt a b = true <-> plt a b.
Proof. unfold pos_lt, plt. destruct a, b; cbn. lia. Qed.

Lemma pos_eqb_eq a b : pos_eqb a b = true <-> a = b.
Proof.
  unfold pos_eqb. destruct a as [l c], b as [l' c']; cbn. split.
  - intros H. assert (l = l' /\ c = c') as [-> ->] by lia. reflexivity.
  - intros H. inversion H; subst. lia.
Qed.

Lemma step_le r st : ple (w_pos st) (w_pos (step r st)).
Proof.
  unfold step, ple. destruct st as [[l c] cr]; cbn.
  destruct (N.eqb r CR); cbn; [lia|].
  destruct (N.eqb r LF); [destruct cr; cbn; lia|].
  destruct (N.leb r 65535); cbn; lia.
Qed.

Lemma step_lt r st : ~ (w_cr st = true /\ r = LF) -> plt (w_pos st) (w_pos (step r st)).
Proof.
  unfold step, plt. destruct st as [[l c] cr]; cbn. intros H.
  destruct (N.eqb r CR); cbn; [lia|].
  destruct (N.eqb_spec r LF) as [E|E].
  - destruct cr; cbn; [exfalso; apply H; split; [reflexivity|exact E]|lia].
  - destruct (N.leb r 65535); cbn; lia.
Qed.

Lemma run_le rs : forall st, ple (w_pos st) (w_pos (run rs st)).
Proof.
  induction rs as [|r rs IH]; intros st; cbn.
  - unfold ple. lia.
  - specialize (IH (step r st)). pose proof (step_le r st). unfold run in IH. unfold ple in *. lia.
Qed.

Lemma step_cr r st : w_cr (step r st) = N.eqb r CR.
Proof. reflexivity. Qed.

Lemma run_lt x l st : (l <> [] \/ ~ (w_cr st = true /\ x = LF)) ->
  plt (w_pos st) (w_pos (run (x :: l) st)).
Proof.
  intros H. change (run (x :: l) st) with (run l (step x st)).
  destruct (N.eqb_spec x LF) as [E|E].
  - destruct (w_cr st) eqn:Ecr.
    + (* the first step does not move; the second one does *)
      destruct l as [|y l']; [destruct H as [H|H]; [congruence|exfalso; apply H; auto]|].
      change (run (y :: l') (step x st)) with (run l' (step y (step x st))).
      pose proof (step_le x st) as H1.
      assert (H2 : plt (w_pos (step x st)) (w_pos (step y (step x st)))).
      { apply step_lt. rewrite step_cr. subst x. cbn. intros [? ?]; discriminate. }
      pose proof (run_le l' (step y (step x st))) as H3.
      unfold plt, ple in *. lia.
    + assert (H1 : plt (w_pos st) (w_pos (step x st))).
      { apply step_lt. rewrite Ecr. intros [? ?]; discriminate. }
      pose proof (run_le l (step x st)) as H3. unfold plt, ple in *. lia.
  - assert (H1 : plt (w_pos st) (w_pos (step x st))).
    { apply step_lt. intros [? ?]; contradiction. }
    pose proof (run_le l (step x st)) as H3. unfold plt, ple in *. lia.
Qed.

Lemma run_cr_snoc rs r st : w_cr (run (rs ++ [r]) st) = N.eqb r CR.
Proof. rewrite run_app. reflexivity. Qed.

(* ================================================================== *)
(* 3. The walk computes the specified position of the prefix *)

Definition drop_lf (cr : bool) (rs : list N) : list N :=
  if cr then match rs with r :: rest => if N.eqb r LF then rest else rs | [] => rs end else rs.

Definition advance (p : pos) (rs : list N) : pos :=
  if has_brk rs then mkPos (pline p + count_breaks rs) (units_of (last_line rs))
  else mkPos (pline p) (pchar p + units_of rs).

Lemma has_brk_cons r rs : has_brk (r :: rs) = is_brk r || has_brk rs.
Proof. reflexivity. Qed.

Lemma count_breaks_cons r rs : count_breaks (r :: rs) =
  (if N.eqb r LF || (N.eqb r CR && negb (head_is_lf rs)) then 1 else 0) + count_breaks rs.
Proof. reflexivity. Qed.

Lemma last_line_cons r rs : last_line (r :: rs) =
  if has_brk rs then last_line rs else if is_brk r then rs else r :: rs.
Proof. reflexivity. Qed.

Lemma units_of_cons r rs : units_of (r :: rs) = units r + units_of rs.
Proof. reflexivity. Qed.

Lemma pos_eta p : mkPos (pline p) (pchar p) = p.
Proof. destruct p; reflexivity. Qed.

Lemma no_brk_count rs : has_brk rs = false -> count_breaks rs = 0.
Proof.
  induction rs as [|r rs IH]; [reflexivity|]. rewrite has_brk_cons, count_breaks_cons.
  intros H. apply orb_false_iff in H as [H1 H2]. rewrite (IH H2).
  unfold is_brk in H1. apply orb_false_iff in H1 as [H1a H1b]. rewrite H1a, H1b. reflexivity.
Qed.

Lemma no_brk_last_line rs : has_brk rs = false -> last_line rs = rs.
Proof.
  destruct rs as [|r rs]; [reflexivity|]. rewrite has_brk_cons, last_line_cons.
  intros H. apply orb_false_iff in H as [H1 H2]. rewrite H1, H2. reflexivity.
Qed.

Ltac brk_cases X :=
  let E := fresh "E" in
  destruct (has_brk X) eqn:E;
  [|rewrite ?(no_brk_count X E), ?(no_brk_last_line X E)]; f_equal; lia.

Lemma run_pos : forall rs st, w_pos (run rs st) = advance (w_pos st) (drop_lf (w_cr st) rs).
Proof.
  induction rs as [|r rest IH]; intros st.
  - cbn [run fold_left]. replace (drop_lf (w_cr st) []) with (@nil N) by (unfold drop_lf; destruct (w_cr st); reflexivity).
    unfold advance; cbn. destruct (w_pos st) as [l c]; cbn. f_equal; lia.
  - change (run (r :: rest) st) with (run rest (step r st)). rewrite IH, step_cr.
    destruct st as [[l c] cr]. cbn [w_pos w_cr].
    destruct (N.eqb_spec r CR) as [Ecr|Ecr].
    + (* \r *)
      subst r. unfold step; cbn [w_pos w_cr pline pchar]. change (N.eqb CR CR) with true. cbn iota.
      assert (Hd : drop_lf cr (CR :: rest) = CR :: rest) by (unfold drop_lf; destruct cr; reflexivity).
      rewrite Hd. unfold advance at 2. rewrite has_brk_cons. change (is_brk CR) with true. cbn [orb].
      rewrite count_breaks_cons, last_line_cons. change (N.eqb CR LF) with false. change (N.eqb CR CR) with true.
      change (is_brk CR) with true. cbn [orb andb].
      destruct rest as [|y rest2].
      * cbn. f_equal.
      * unfold drop_lf. cbn [head_is_lf]. destruct (N.eqb_spec y LF) as [Ey|Ey].
        -- subst y. cbn [negb]. unfold advance. cbn [pline pchar].
           rewrite (has_brk_cons LF rest2). change (is_brk LF) with true. cbn [orb].
           rewrite (count_breaks_cons LF rest2), (last_line_cons LF rest2).
           change (N.eqb LF LF) with true. change (is_brk LF) with true. cbn [orb].
           brk_cases rest2.
        -- cbn [negb]. unfold advance. cbn [pline pchar].
           brk_cases (y :: rest2).
    + destruct (N.eqb_spec r LF) as [Elf|Elf].
      * (* \n *)
        subst r. unfold step; cbn [w_pos w_cr pline pchar]. change (N.eqb LF CR) with false.
        change (N.eqb LF LF) with true. cbn iota.
        destruct cr.
        -- cbn [drop_lf]. unfold drop_lf. change (N.eqb LF LF) with true. cbn iota. reflexivity.
        -- unfold drop_lf. unfold advance. cbn [pline pchar].
           rewrite (has_brk_cons LF rest). change (is_brk LF) with true. cbn [orb].
           rewrite (count_breaks_cons LF rest), (last_line_cons LF rest).
           change (N.eqb LF LF) with true. change (is_brk LF) with true. cbn [orb].
           brk_cases rest.
      * (* an ordinary rune *)
        assert (Hb : is_brk r = false).
        { unfold is_brk. destruct (N.eqb_spec r CR); [contradiction|]. destruct (N.eqb_spec r LF); [contradiction|]. reflexivity. }
        assert (Hd : drop_lf cr (r :: rest) = r :: rest).
        { unfold drop_lf. destruct cr; [|reflexivity]. destruct (N.eqb_spec r LF); [contradiction|reflexivity]. }
        rewrite Hd. unfold drop_lf at 1.
        assert (Hs : w_pos (step r (mkW (mkPos l c) cr)) = mkPos l (c + units r)).
        { unfold step, units; cbn [w_pos w_cr pline pchar].
          destruct (N.eqb_spec r CR); [contradiction|]. destruct (N.eqb_spec r LF); [contradiction|].
          destruct (N.leb r 65535); reflexivity. }
        rewrite Hs. unfold advance. cbn [pline pchar].
        rewrite (has_brk_cons r rest), Hb. cbn [orb].
        rewrite (count_breaks_cons r rest), (last_line_cons r rest), Hb, (units_of_cons r rest).
        destruct (N.eqb_spec r CR); [contradiction|]. destruct (N.eqb_spec r LF); [contradiction|].
        cbn [orb andb].
        brk_cases rest.
Qed.

Lemma run_st0 rs : w_pos (run rs st0) = pos_of_prefix rs.
Proof.
  rewrite run_pos. cbn [st0 w_pos w_cr drop_lf]. unfold advance, pos_of_prefix. cbn [pline pchar].
  destruct (has_brk rs) eqn:E; [reflexivity|].
  rewrite (no_brk_count rs E), (no_brk_last_line rs E). reflexivity.
Qed.

(* ================================================================== *)
(* 4. lspPositionFromIdx *)

Definition ffrom (idx : Z) := fun (i : nat) (p : pos) (_ : pos) => (p, Z.ltb (Z.of_nat i) idx).
Definition fto (target : pos) := fun (i : nat) (p : pos) (_ : nat) => (i, pos_lt p target).

(* the callback is not called for the \n of a \r\n pair *)
Definition skipped (st : wstate) (it : item) : bool := w_cr st && N.eqb (fst it) LF.

Lemma walk_cons {A} it rest i st (f : nat -> pos -> A -> A * bool) acc :
  walk (it :: rest) i st f acc =
  if skipped st it then walk rest (i + snd it) (step (fst it) st) f acc
  else if snd (f i (w_pos st) acc) then walk rest (i + snd it) (step (fst it) st) f (fst (f i (w_pos st) acc))
       else fst (f i (w_pos st) acc).
Proof. reflexivity. Qed.

Lemma skipped_pos st it : skipped st it = true -> w_pos (step (fst it) st) = w_pos st.
Proof.
  unfold skipped. intros H. apply andb_true_iff in H as [Hcr Hlf]. apply N.eqb_eq in Hlf.
  unfold step. rewrite Hlf, Hcr. reflexivity.
Qed.

Lemma skipped_cr st it : skipped st it = true -> w_cr (step (fst it) st) = false.
Proof.
  unfold skipped. intros H. apply andb_true_iff in H as [_ Hlf]. apply N.eqb_eq in Hlf.
  rewrite step_cr, Hlf. reflexivity.
Qed.

Lemma walk_from_prefix : forall its i st idx acc,
  exists pre post, its = pre ++ post /\ walk its i st (ffrom idx) acc = w_pos (run (runes pre) st).
Proof.
  unfold ffrom.
  induction its as [|it rest IH]; intros i st idx acc.
  - exists [], []. split; reflexivity.
  - rewrite walk_cons. destruct (skipped st it).
    + destruct (IH (i + snd it)%nat (step (fst it) st) idx acc) as (pre & post & E & W).
      exists (it :: pre), post. split; [cbn; congruence|]. exact W.
    + cbn [fst snd]. destruct (Z.ltb (Z.of_nat i) idx).
      * destruct (IH (i + snd it)%nat (step (fst it) st) idx (w_pos st)) as (pre & post & E & W).
        exists (it :: pre), post. split; [cbn; congruence|]. exact W.
      * exists [], (it :: rest). split; reflexivity.
Qed.

(* past the target, with lastCR clear, the walk stops at once *)
Lemma walk_from_stop rest i st idx acc : idx < Z.of_nat i -> w_cr st = false ->
  walk rest i st (ffrom idx) acc = w_pos st.
Proof.
  unfold ffrom. intros Hi Hcr. destruct rest as [|it rest]; [reflexivity|].
  rewrite walk_cons. unfold skipped. rewrite Hcr. cbn [andb fst snd].
  replace (Z.of_nat i <? idx) with false by lia. reflexivity.
Qed.

Lemma walk_from_exact : forall pre post i st acc, widths_pos (pre ++ post) ->
  walk (pre ++ post) i st (ffrom (Z.of_nat (i + wsum pre))) acc = w_pos (run (runes pre) st).
Proof.
  induction pre as [|it pre IH]; intros post i st acc Hw.
  - cbn [app wsum runes map run fold_left]. replace (i + 0)%nat with i by lia.
    destruct post as [|it rest]; [reflexivity|].
    rewrite walk_cons. destruct (skipped st it) eqn:Sk.
    + cbn [app] in Hw. inversion Hw as [|? ? Hw1 Hw2]; subst.
      rewrite walk_from_stop; [apply skipped_pos, Sk|lia|apply skipped_cr, Sk].
    + unfold ffrom. cbn [fst snd]. rewrite Z.ltb_irrefl. reflexivity.
  - cbn [app] in Hw. inversion Hw as [|? ? Hw1 Hw2]; subst.
    cbn [app wsum]. rewrite walk_cons.
    replace (i + (snd it + wsum pre))%nat with ((i + snd it) + wsum pre)%nat by lia.
    destruct (skipped st it).
    + rewrite (IH post (i + snd it)%nat (step (fst it) st) acc Hw2). reflexivity.
    + assert (Hf : forall acc0, ffrom (Z.of_nat (i + snd it + wsum pre)) i (w_pos st) acc0 = (w_pos st, true)).
      { intros acc0. unfold ffrom. f_equal. lia. }
      rewrite !Hf. cbn [fst snd].
      rewrite (IH post (i + snd it)%nat (step (fst it) st) (w_pos st) Hw2). reflexivity.
Qed.

(* every result of lspPositionFromIdx is the position of some rune prefix *)
Lemma from_idx_total s idx :
  exists pre post, items_of s = pre ++ post /\
    lspPositionFromIdx s idx = pos_of_prefix (runes pre).
Proof.
  unfold lspPositionFromIdx, from_idx_items.
  destruct (walk_from_prefix (items_of s) O st0 idx (mkPos 0 0)) as (pre & post & E & W).
  exists pre, post. split; [exact E|]. unfold ffrom in W. rewrite W. apply run_st0.
Qed.

Lemma count_breaks_nonneg rs : 0 <= count_breaks rs.
Proof.
  induction rs as [|r rs IH]; [cbn; lia|]. rewrite count_breaks_cons.
  destruct (N.eqb r LF || (N.eqb r CR && negb (head_is_lf rs))); lia.
Qed.

Lemma units_of_nonneg rs : 0 <= units_of rs.
Proof.
  induction rs as [|r rs IH]; [cbn; lia|]. rewrite units_of_cons. unfold units.
  destruct (N.leb r 65535); lia.
Qed.

Lemma from_idx_nonneg s idx :
  0 <= pline (lspPositionFromIdx s idx) /\ 0 <= pchar (lspPositionFromIdx s idx).
Proof.
  destruct (from_idx_total s idx) as (pre & post & _ & ->). unfold pos_of_prefix; cbn.
  split; [apply count_breaks_nonneg|apply units_of_nonneg].
Qed.

(* at a rune boundary the result is exactly the specified position *)
Lemma from_idx_exact s pre post : items_of s = pre ++ post ->
  lspPositionFromIdx s (Z.of_nat (wsum pre)) = pos_of_prefix (runes pre).
Proof.
  intros E. unfold lspPositionFromIdx, from_idx_items. rewrite E.
  pose proof (items_of_widths s) as Hw. rewrite E in Hw.
  pose proof (walk_from_exact pre post O st0 (mkPos 0 0) Hw) as H. cbn [Nat.add] in H.
  unfold ffrom in H. rewrite H. apply run_st0.
Qed.

(* UTF-16 code units: the character of a boundary counts one unit per BMP rune
   and two per astral rune since the last line-break character *)
Lemma utf16_units_counted s pre post : items_of s = pre ++ post ->
  pchar (lspPositionFromIdx s (Z.of_nat (wsum pre))) = units_of (last_line (runes pre))
  /\ pline (lspPositionFromIdx s (Z.of_nat (wsum pre))) = count_breaks (runes pre).
Proof. intros E. rewrite (from_idx_exact s pre post E). split; reflexivity. Qed.

Lemma units_of_app a b : units_of (a ++ b) = units_of a + units_of b.
Proof. induction a as [|x a IH]; cbn [app units_of]; [lia|rewrite IH; lia]. Qed.

Lemma has_brk_app a b : has_brk (a ++ b) = has_brk a || has_brk b.
Proof. apply existsb_app. Qed.


(* ================================================================== *)
(* 5. lspPositionToIdx *)

Lemma walk_to_boundary : forall its i st target acc,
  exists pre post, its = pre ++ post /\ walk its i st (fto target) acc = (i + wsum pre)%nat.
Proof.
  unfold fto.
  induction its as [|it rest IH]; intros i st target acc.
  - exists [], []. split; [reflexivity|]. cbn. lia.
  - rewrite walk_cons. destruct (skipped st it).
    + destruct (IH (i + snd it)%nat (step (fst it) st) target acc) as (pre & post & E & W).
      exists (it :: pre), post. split; [cbn; congruence|]. rewrite W. cbn [wsum]. lia.
    + cbn [fst snd]. destruct (pos_lt (w_pos st) target).
      * destruct (IH (i + snd it)%nat (step (fst it) st) target i) as (pre & post & E & W).
        exists (it :: pre), post. split; [cbn; congruence|]. rewrite W. cbn [wsum]. lia.
      * exists [], (it :: rest). split; [reflexivity|]. cbn. lia.
Qed.

(* for every text and every position whatsoever the result is a rune boundary *)
Lemma to_idx_total s p : boundary s (lspPositionToIdx s p).
Proof.
  unfold lspPositionToIdx, to_idx_items, boundary.
  destruct (walk_to_boundary (items_of s) O st0 p O) as (pre & post & E & W).
  exists pre, post. split; [exact E|]. unfold fto in W. rewrite W. reflexivity.
Qed.

Lemma to_idx_in_range s p : (lspPositionToIdx s p <= length s)%nat.
Proof. apply boundary_le, to_idx_total. Qed.

Definition not_skipped_at (st : wstate) (b : list item) : Prop :=
  match b with [] => True | y :: _ => skipped st y = false end.

Lemma walk_to_exact : forall a b i st target acc,
  (forall a1 x a2, a = a1 ++ x :: a2 -> skipped (run (runes a1) st) x = false ->
     plt (w_pos (run (runes a1) st)) target) ->
  ~ plt (w_pos (run (runes a) st)) target ->
  not_skipped_at (run (runes a) st) b ->
  walk (a ++ b) i st (fto target) acc = (i + wsum a)%nat.
Proof.
  unfold fto.
  induction a as [|it a IH]; intros b i st target acc H1 H2 H3.
  - cbn [app wsum]. cbn [runes map run fold_left] in H2, H3.
    assert (E : pos_lt (w_pos st) target = false).
    { destruct (pos_lt (w_pos st) target) eqn:E; [|reflexivity]. apply pos_lt_iff in E. contradiction. }
    destruct b as [|it rest]; [cbn; lia|].
    rewrite walk_cons. cbn [not_skipped_at] in H3. rewrite H3. cbn [fst snd]. rewrite E. cbn. lia.
  - cbn [app wsum]. rewrite walk_cons.
    assert (IH' : forall acc', walk (a ++ b) (i + snd it) (step (fst it) st)
                   (fun (i0 : nat) (p : pos) (_ : nat) => (i0, pos_lt p target)) acc'
                   = (i + snd it + wsum a)%nat).
    { intros acc'. apply IH.
      - intros a1 x a2 Ea Sk. subst a. apply (H1 (it :: a1) x a2); [reflexivity|exact Sk].
      - exact H2.
      - exact H3. }
    destruct (skipped st it) eqn:Sk.
    + rewrite IH'. lia.
    + cbn [fst snd].
      assert (E : pos_lt (w_pos st) target = true).
      { apply pos_lt_iff. apply (H1 [] it a); [reflexivity|exact Sk]. }
      rewrite E, IH'. lia.
Qed.

Lemma run_cr_st0 rs : w_cr (run rs st0) = ends_cr rs.
Proof.
  destruct rs as [|r rs'] using rev_ind; [reflexivity|].
  rewrite run_cr_snoc. unfold ends_cr. rewrite rev_app_distr. reflexivity.
Qed.

(* the position of every boundary that is not strictly inside a \r\n pair maps
   back to that boundary *)
Lemma to_idx_items_exact pre post : inside_crlf (runes pre) (runes post) = false ->
  to_idx_items (pre ++ post) (pos_of_prefix (runes pre)) = wsum pre.
Proof.
  intros Hn. unfold to_idx_items. rewrite <- run_st0.
  apply (walk_to_exact pre post O st0 (w_pos (run (runes pre) st0)) O).
  - intros a1 x a2 E Sk. subst pre.
    rewrite runes_app, run_app. cbn [runes map]. apply run_lt. right.
    intros [Hcr Hx]. unfold skipped in Sk. rewrite Hcr, Hx in Sk. discriminate.
  - unfold plt; lia.
  - destruct post as [|y post']; [exact I|]. cbn [not_skipped_at]. unfold skipped.
    rewrite run_cr_st0. exact Hn.
Qed.

Lemma to_idx_exact s pre post : items_of s = pre ++ post ->
  inside_crlf (runes pre) (runes post) = false ->
  lspPositionToIdx s (pos_of_prefix (runes pre)) = wsum pre.
Proof. intros E H. unfold lspPositionToIdx. rewrite E. apply to_idx_items_exact, H. Qed.

(* \r\n is one line break: the \n does not move the position *)
Lemma pos_crlf_same a0 w1 w2 :
  pos_of_prefix (runes (a0 ++ [(CR, w1); (LF, w2)])) = pos_of_prefix (runes (a0 ++ [(CR, w1)])).
Proof.
  rewrite <- !run_st0.
  replace (a0 ++ [(CR, w1); (LF, w2)]) with ((a0 ++ [(CR, w1)]) ++ [(LF, w2)]) by (rewrite <- app_assoc; reflexivity).
  rewrite (runes_app (a0 ++ [(CR, w1)])), run_app.
  remember (run (runes (a0 ++ [(CR, w1)])) st0) as st eqn:Est.
  assert (Hcr : w_cr st = true).
  { subst st. rewrite runes_app. apply (run_cr_snoc (runes a0) CR st0). }
  change (run (runes [(LF, w2)]) st) with (step LF st).
  unfold step. rewrite Hcr. reflexivity.
Qed.

(* round trip offset -> position -> offset, for every rune boundary that is not
   strictly inside a \r\n pair *)
Lemma from_to_roundtrip s pre post : items_of s = pre ++ post ->
  inside_crlf (runes pre) (runes post) = false ->
  lspPositionToIdx s (lspPositionFromIdx s (Z.of_nat (wsum pre))) = wsum pre.
Proof. intros E H. rewrite (from_idx_exact s pre post E). apply (to_idx_exact s pre post E H). Qed.

Lemma ends_cr_items_inv pre : ends_cr (runes pre) = true -> exists a0 w, pre = a0 ++ [(CR, w)].
Proof.
  destruct pre as [|[r w] pre'] using rev_ind; [discriminate|].
  rewrite runes_app. unfold ends_cr. rewrite rev_app_distr. cbn. intros H.
  apply N.eqb_eq in H. subst r. exists pre', w. reflexivity.
Qed.

Lemma ends_cr_snoc_lf l : ends_cr (l ++ [LF]) = false.
Proof. unfold ends_cr. rewrite rev_app_distr. reflexivity. Qed.

(* round trip position -> offset -> position, for every exact position (also the
   position of a boundary inside a pair, which is the position of the boundary
   after the pair) *)
Lemma to_from_roundtrip s pre post : items_of s = pre ++ post ->
  lspPositionFromIdx s (Z.of_nat (lspPositionToIdx s (pos_of_prefix (runes pre)))) = pos_of_prefix (runes pre).
Proof.
  intros E. destruct (inside_crlf (runes pre) (runes post)) eqn:Hi.
  - unfold inside_crlf in Hi. apply andb_true_iff in Hi as [Hc Hl].
    apply ends_cr_items_inv in Hc as (a0 & w1 & ->).
    destruct post as [|[r w2] post']; [discriminate|]. cbn in Hl. apply N.eqb_eq in Hl. subst r.
    rewrite <- (pos_crlf_same a0 w1 w2).
    assert (E2 : items_of s = (a0 ++ [(CR, w1); (LF, w2)]) ++ post').
    { rewrite E, <- !app_assoc. reflexivity. }
    assert (Hn : inside_crlf (runes (a0 ++ [(CR, w1); (LF, w2)])) (runes post') = false).
    { unfold inside_crlf.
      replace (runes (a0 ++ [(CR, w1); (LF, w2)])) with ((runes a0 ++ [CR]) ++ [LF])
        by (rewrite runes_app, <- app_assoc; reflexivity).
      rewrite ends_cr_snoc_lf. reflexivity. }
    rewrite (to_idx_exact s _ post' E2 Hn). apply (from_idx_exact s _ post' E2).
  - rewrite (to_idx_exact s pre post E Hi). apply (from_idx_exact s pre post E).
Qed.

(* ================================================================== *)
(* 6. The oracle is sound for the Prop-level specification, and the model
      satisfies it outside the recorded finding class *)

Lemma splits_spec {A} (l : list A) pre post : In (pre, post) (splits l) <-> l = pre ++ post.
Proof.
  revert pre post. induction l as [|x l IH]; intros pre post; cbn [splits].
  - split.
    + intros [H|[]]. inversion H. reflexivity.
    + intros H. symmetry in H. apply app_eq_nil in H as [-> ->]. left. reflexivity.
  - split.
    + intros [H|H]; [inversion H; reflexivity|].
      apply in_map_iff in H as ([a b] & Hab & Hin). inversion Hab; subst. cbn.
      f_equal. apply IH, Hin.
    + intros H. destruct pre as [|y pre]; [left; cbn in H; subst; reflexivity|].
      right. cbn in H. inversion H; subst. apply in_map_iff. exists (pre, post). split; [reflexivity|].
      apply IH. reflexivity.
Qed.

(* the property on one lspPositionToIdx observation *)
Definition Spec_to_idx (s : bytes) (p : pos) (obs : Z) : Prop :=
  (exists o, boundary s o /\ obs = Z.of_nat o) /\
  (forall pre post, items_of s = pre ++ post ->
     inside_crlf (runes pre) (runes post) = false ->
     pos_of_prefix (runes pre) = p -> obs = Z.of_nat (wsum pre)).

(* the property on one lspPositionFromIdx observation *)
Definition Spec_from_idx (s : bytes) (idx : Z) (obs : pos) : Prop :=
  forall pre post, items_of s = pre ++ post -> Z.of_nat (wsum pre) = idx ->
    inside_crlf (runes pre) (runes post) = false ->
    obs = pos_of_prefix (runes pre).

Lemma check_to_idx_sound s p obs : check_to_idx s p obs = true -> Spec_to_idx s p obs.
Proof.
  unfold check_to_idx. intros H. apply andb_true_iff in H as [H1 H2]. split.
  - apply existsb_exists in H1 as ([pre post] & Hin & He). apply splits_spec in Hin. cbn in He.
    exists (wsum pre). split; [exists pre, post; split; [exact Hin|reflexivity]|lia].
  - intros pre post E Hi Hp. rewrite forallb_forall in H2.
    specialize (H2 (pre, post) (proj2 (splits_spec _ _ _) E)). cbn [fst snd] in H2.
    rewrite Hi in H2. cbn [negb andb] in H2.
    rewrite (proj2 (pos_eqb_eq _ _) Hp) in H2. lia.
Qed.

Lemma check_from_idx_sound s idx obs : check_from_idx s idx obs = true -> Spec_from_idx s idx obs.
Proof.
  unfold check_from_idx, Spec_from_idx. intros H pre post E Hw Hi. rewrite forallb_forall in H.
  specialize (H (pre, post) (proj2 (splits_spec _ _ _) E)). cbn [fst snd] in H.
  rewrite Hi in H. replace (Z.of_nat (wsum pre) =? idx) with true in H by lia. cbn [negb andb] in H.
  apply pos_eqb_eq, H.
Qed.

(* the model of lspPositionFromIdx satisfies the oracle for every text and offset *)
Lemma from_idx_meets_oracle s idx : check_from_idx s idx (lspPositionFromIdx s idx) = true.
Proof.
  unfold check_from_idx. apply forallb_forall. intros [pre post] Hin. apply splits_spec in Hin. cbn [fst snd].
  destruct (Z.eqb_spec (Z.of_nat (wsum pre)) idx) as [E|E]; [|reflexivity].
  destruct (inside_crlf (runes pre) (runes post)); [reflexivity|]. cbn [negb andb].
  subst idx. apply pos_eqb_eq. apply (from_idx_exact s pre post Hin).
Qed.

(* the model of lspPositionToIdx satisfies the oracle for every text and every
   position *)
Lemma to_idx_meets_oracle s p : check_to_idx s p (Z.of_nat (lspPositionToIdx s p)) = true.
Proof.
  unfold check_to_idx. apply andb_true_iff. split.
  - destruct (to_idx_total s p) as (pre & post & E & W). apply existsb_exists.
    exists (pre, post). split; [apply splits_spec, E|]. cbn [fst]. lia.
  - apply forallb_forall. intros [pre post] Hin. apply splits_spec in Hin. cbn [fst snd].
    destruct (inside_crlf (runes pre) (runes post)) eqn:Hi; [reflexivity|]. cbn [negb andb].
    destruct (pos_eqb (pos_of_prefix (runes pre)) p) eqn:Ep; [|reflexivity].
    apply pos_eqb_eq in Ep. subst p.
    rewrite (to_idx_exact s pre post Hin Hi). lia.
Qed.

(* ================================================================== *)
(* 7. The server as a state machine *)

Lemma run_session_length : forall rs m, length (snd (run_session m rs)) = length rs.
Proof.
  induction rs as [|r rs IH]; intros m; [reflexivity|]. cbn [run_session].
  destruct (handle m r) as [m1 o]. specialize (IH m1). destruct (run_session m1 rs) as [m2 os].
  cbn in *. congruence.
Qed.

(* what one request yields *)
Definition Answer (m : docs) (r : request) (o : outcome) : Prop :=
  match r with
  | DidOpen u t pe | DidChange u t pe =>
      o_reply o = ROk /\ o_diags o = Some (u, map (lspRangeFromRange t) pe)
  | Hover u p | Completion u p =>
      o_diags o = None /\
      match lookup u m with
      | None => o_reply o = RErr InvalidParams /\ o_dot o = None
      | Some d => o_reply o = ROk /\
                  exists k, o_dot o = Some (d_code d, k) /\ boundary (d_code d) k
                            /\ (k <= length (d_code d))%nat
      end
  | Noop => o_reply o = ROk /\ o_diags o = None
  | BadParams => o_reply o = RErr InvalidParams /\ o_diags o = None
  | UnknownMethod => o_reply o = RErr MethodNotFound /\ o_diags o = None
  end.

Lemma handle_answer m r : Answer m r (snd (handle m r)).
Proof.
  destruct r as [u t pe|u t pe|u p|u p| | |]; cbn [handle update Answer snd o_reply o_diags];
    try (split; reflexivity).
  - unfold at_pos. destruct (lookup u m) as [d|]; cbn; (split; [reflexivity|]).
    + split; [reflexivity|]. exists (lspPositionToIdx (d_code d) p).
      split; [reflexivity|]. split; [apply to_idx_total|apply to_idx_in_range].
    + split; reflexivity.
  - unfold at_pos. destruct (lookup u m) as [d|]; cbn; (split; [reflexivity|]).
    + split; [reflexivity|]. exists (lspPositionToIdx (d_code d) p).
      split; [reflexivity|]. split; [apply to_idx_total|apply to_idx_in_range].
    + split; reflexivity.
Qed.

(* every request of every history gets exactly one outcome, and it is a reply
   or one of the two error kinds *)
Lemma every_request_answered : forall rs m,
  length (snd (run_session m rs)) = length rs /\
  Forall (fun o => o_reply o = ROk \/ o_reply o = RErr InvalidParams \/ o_reply o = RErr MethodNotFound)
         (snd (run_session m rs)).
Proof.
  intros rs m. split; [apply run_session_length|]. revert m.
  induction rs as [|r rs IH]; intros m; [constructor|]. cbn [run_session].
  pose proof (handle_answer m r) as Ha.
  destruct (handle m r) as [m1 o]. specialize (IH m1). destruct (run_session m1 rs) as [m2 os].
  cbn [snd] in *. constructor; [|exact IH].
  destruct r; cbn [Answer] in Ha.
  - left. apply Ha.
  - left. apply Ha.
  - destruct Ha as [_ Ha]. destruct (lookup u m); [left|right; left]; apply Ha.
  - destruct Ha as [_ Ha]. destruct (lookup u m); [left|right; left]; apply Ha.
  - left. apply Ha.
  - right; left. apply Ha.
  - right; right. apply Ha.
Qed.

(* the documents map holds the latest text of every document of the history *)
Definition set_by (u : uri) (r : request) (cur : option document) : option document :=
  match r with
  | DidOpen v t pe | DidChange v t pe => if bytes_eqb v u then Some (mkDoc t pe) else cur
  | _ => cur
  end.
Fixpoint latest (u : uri) (rs : list request) (cur : option document) : option document :=
  match rs with [] => cur | r :: rest => latest u rest (set_by u r cur) end.

Lemma handle_lookup m r u : lookup u (fst (handle m r)) = set_by u r (lookup u m).
Proof.
  destruct r as [v t pe|v t pe|v p|v p| | |]; cbn [handle update fst]; try reflexivity.
  - cbn [set_by]. unfold at_pos. destruct (lookup v m); reflexivity.
  - cbn [set_by]. unfold at_pos. destruct (lookup v m); reflexivity.
Qed.

Lemma documents_latest : forall rs m u,
  lookup u (fst (run_session m rs)) = latest u rs (lookup u m).
Proof.
  induction rs as [|r rs IH]; intros m u; [reflexivity|]. cbn [run_session latest].
  pose proof (handle_lookup m r u) as Hl.
  destruct (handle m r) as [m1 o]. specialize (IH m1 u). destruct (run_session m1 rs) as [m2 os].
  cbn [fst] in *. rewrite IH, Hl. reflexivity.
Qed.

(* published diagnostics: one range per parse error, each end converted by
   lspPositionFromIdx, which at rune boundaries is the specified position *)
Lemma diagnostics_are_parse_errors m r u t pe :
  r = DidOpen u t pe \/ r = DidChange u t pe ->
  exists ds, o_diags (snd (handle m r)) = Some (u, ds) /\
    length ds = length pe /\
    (forall k f e, nth_error pe k = Some (f, e) ->
       exists d, nth_error ds k = Some d /\
         (forall pre post, items_of t = pre ++ post -> Z.of_nat (wsum pre) = f ->
            fst d = pos_of_prefix (runes pre)) /\
         (forall pre post, items_of t = pre ++ post -> Z.of_nat (wsum pre) = e ->
            snd d = pos_of_prefix (runes pre))).
Proof.
  intros Hr. exists (map (lspRangeFromRange t) pe).
  split; [destruct Hr; subst r; reflexivity|]. split; [apply map_length|].
  intros k f e Hk. exists (lspRangeFromRange t (f, e)). split.
  - rewrite nth_error_map, Hk. reflexivity.
  - unfold lspRangeFromRange; cbn [fst snd]. split; intros pre post E W; subst; apply (from_idx_exact t pre post E).
Qed.

Lemma no_spurious_diagnostics m r : is_update r = false -> o_diags (snd (handle m r)) = None.
Proof.
  destruct r as [v t pe|v t pe|v p|v p| | |]; cbn [is_update]; try discriminate; intros _; try reflexivity.
  - cbn. unfold at_pos. destruct (lookup v m); reflexivity.
  - cbn. unfold at_pos. destruct (lookup v m); reflexivity.
Qed.

(* ---- the session oracle: meaning, and the model satisfies it for every history *)

Lemma check_range_model t pe : check_range t pe (lspRangeFromRange t pe) = true.
Proof. unfold check_range, lspRangeFromRange. cbn [fst snd]. rewrite !from_idx_meets_oracle. reflexivity. Qed.

Lemma check_diag_model t pe : check_diag t pe (diags_of t pe) = true.
Proof.
  unfold check_diag, diags_of. rewrite map_length, Nat.eqb_refl. cbn [andb].
  apply andb_true_iff. split; apply forallb_forall.
  - intros p Hp. apply existsb_exists. exists (lspRangeFromRange t p).
    split; [apply in_map, Hp|apply check_range_model].
  - intros o Ho. apply in_map_iff in Ho as (p & <- & Hp). apply existsb_exists. exists p.
    split; [exact Hp|apply check_range_model].
Qed.

Definition Spec_range (t : bytes) (pe : Z * Z) (o : lrange) : Prop :=
  Spec_from_idx t (fst pe) (fst o) /\ Spec_from_idx t (snd pe) (snd o).

Lemma check_diag_sound t pe obs : check_diag t pe obs = true ->
  length pe = length obs /\
  (forall p, In p pe -> exists o, In o obs /\ Spec_range t p o) /\
  (forall o, In o obs -> exists p, In p pe /\ Spec_range t p o).
Proof.
  unfold check_diag. intros H. apply andb_true_iff in H as [H H3]. apply andb_true_iff in H as [H1 H2].
  split; [apply Nat.eqb_eq, H1|]. rewrite forallb_forall in H2, H3. split.
  - intros p Hp. specialize (H2 p Hp). apply existsb_exists in H2 as (o & Ho & Hc). exists o.
    split; [exact Ho|]. unfold check_range in Hc. apply andb_true_iff in Hc as [Ha Hb].
    split; apply check_from_idx_sound; assumption.
  - intros o Ho. specialize (H3 o Ho). apply existsb_exists in H3 as (p & Hp & Hc). exists p.
    split; [exact Hp|]. unfold check_range in Hc. apply andb_true_iff in Hc as [Ha Hb].
    split; apply check_from_idx_sound; assumption.
Qed.

(* what check_events demands of one event, given the documents of the history so far *)
Definition Spec_event (sm : spec_docs) (e : event) : Prop :=
  let sm' := spec_after sm (e_req e) in
  length (e_replies e) = (if e_call e then 1 else 0)%nat /\
  (forall d, In d (e_diags e) -> exists t pe, spec_lookup (fst d) sm' = Some (t, pe) /\ check_diag t pe (snd d) = true) /\
  (is_update (e_req e) = true -> e_diags e <> []).

Fixpoint Spec_events (sm : spec_docs) (evs : list event) : Prop :=
  match evs with
  | [] => True
  | e :: rest => Spec_event sm e /\ Spec_events (spec_after sm (e_req e)) rest
  end.

Lemma check_events_sound : forall evs sm, check_events sm evs = true -> Spec_events sm evs.
Proof.
  induction evs as [|e evs IH]; intros sm H; [exact I|]. cbn [check_events] in H.
  apply andb_true_iff in H as [H H4]. apply andb_true_iff in H as [H H3]. apply andb_true_iff in H as [H1 H2].
  split; [|apply IH, H4]. unfold Spec_event. split; [apply Nat.eqb_eq, H1|]. split.
  - intros d Hd. rewrite forallb_forall in H2. specialize (H2 d Hd).
    destruct (spec_lookup (fst d) (spec_after sm (e_req e))) as [[t pe]|]; [|discriminate].
    exists t, pe. split; [reflexivity|exact H2].
  - intros Hu. rewrite Hu in H3. destruct (e_diags e); [discriminate|congruence].
Qed.

(* the events the model itself produces for a history of requests *)
Fixpoint model_events (m : docs) (rs : list (request * bool)) : list event :=
  match rs with
  | [] => []
  | (r, call) :: rest =>
    let mo := handle m r in
    mkEv r call (if call then [o_reply (snd mo)] else [])
         (match o_diags (snd mo) with Some d => [d] | None => [] end)
    :: model_events (fst mo) rest
  end.

Definition agree (m : docs) (sm : spec_docs) : Prop :=
  forall u, spec_lookup u sm = match lookup u m with Some d => Some (d_code d, d_perrs d) | None => None end.

Lemma agree_step m sm r : agree m sm -> agree (fst (handle m r)) (spec_after sm r).
Proof.
  intros Ha u. rewrite handle_lookup.
  destruct r as [v t pe|v t pe|v p|v p| | |]; cbn [spec_after set_by]; try apply Ha.
  - cbn [spec_lookup]. destruct (bytes_eqb v u); [reflexivity|apply Ha].
  - cbn [spec_lookup]. destruct (bytes_eqb v u); [reflexivity|apply Ha].
Qed.

Lemma model_events_meet_oracle : forall rs m sm, agree m sm ->
  check_events sm (model_events m rs) = true.
Proof.
  induction rs as [|[r call] rs IH]; intros m sm Ha; [reflexivity|].
  cbn [model_events check_events e_req e_call e_replies e_diags].
  rewrite (IH (fst (handle m r)) (spec_after sm r) (agree_step m sm r Ha)), andb_true_r.
  apply andb_true_iff. split; [apply andb_true_iff; split|].
  - destruct call; reflexivity.
  - destruct (is_update r) eqn:Hu.
    + destruct r as [v t pe|v t pe|v p|v p| | |]; try discriminate;
        cbn [handle update snd o_diags forallb fst spec_after spec_lookup];
        rewrite bytes_eqb_refl, check_diag_model; reflexivity.
    + rewrite (no_spurious_diagnostics m r Hu). reflexivity.
  - destruct (is_update r) eqn:Hu; [|reflexivity].
    destruct r as [v t pe|v t pe|v p|v p| | |]; try discriminate; reflexivity.
Qed.

Lemma model_session_meets_oracle rs : check_session (model_events [] rs) true = true.
Proof. unfold check_session. cbn [andb]. apply model_events_meet_oracle. intros u. reflexivity. Qed.

Lemma model_session_corresponds : forall rs m, corr_events m (model_events m rs) = true.
Proof.
  induction rs as [|[r call] rs IH]; intros m; [reflexivity|].
  cbn [model_events corr_events e_req e_call e_replies e_diags].
  destruct (handle m r) as [m' o] eqn:E. cbn [fst snd]. rewrite IH, andb_true_r.
  apply andb_true_iff. split.
  - destruct call; cbn; [|reflexivity]. rewrite andb_true_r. destruct (o_reply o) as [|[| |]]; reflexivity.
  - destruct (o_diags o) as [[u ds]|]; [|reflexivity]. cbn. rewrite andb_true_r.
    unfold diag_eqb. cbn [fst snd]. rewrite bytes_eqb_refl. cbn [andb].
    apply list_eqb_spec; [|reflexivity]. intros x y. unfold lrange_eqb. split.
    + intros H. apply andb_true_iff in H as [H1 H2]. apply pos_eqb_eq in H1, H2.
      destruct x, y; cbn in *; congruence.
    + intros ->. apply andb_true_iff. split; apply pos_eqb_eq; reflexivity.
Qed.

Lemma session_oracle_sound evs alive :
  check_session evs alive = true -> alive = true /\ Spec_events [] evs.
Proof.
  unfold check_session. intros H. apply andb_true_iff in H as [Ha He].
  split; [exact Ha|apply check_events_sound, He].
Qed.

(* ================================================================== *)
(* 8. Updates handled back to back: publications arrive in update order *)

(* publications are sent synchronously by the handlers, which run one at a time:
   the only arrival order is the update order, and then the last publication a
   client receives for a document is about its latest text *)
Lemma burst_last_publication u ups order : ups <> [] ->
  In order (burst_orders u ups) -> check_burst u ups order = true.
Proof.
  intros Hne [<-|[]].
  unfold check_burst, burst_pubs_in_order. rewrite <- map_rev.
  destruct (rev ups) as [|[t pe] r] eqn:Er.
  - exfalso. apply Hne. rewrite <- (rev_involutive ups), Er. reflexivity.
  - cbn [map fst snd]. rewrite bytes_eqb_refl, check_diag_model. reflexivity.
Qed.
