(* C06 — the iterator (path stack, Next with carry and refill) yields exactly
   the abstraction of the range it was created for. *)
From Coq Require Import Lia ZArith List Bool Arith.
From verif Require Import lib.Base lib.ListX model.C06 proofs.C06_defs proofs.C06_tree proofs.C06_inv proofs.C06_vec proofs.C06_hist.
Open Scope nat_scope.

Section Iter.
Variable b : Z.
Hypothesis Hb : (1 <= b)%Z.
Notation Bn := (B b).
Notation pw := (pw b).
Notation dig := (dig b).
Notation shape := (shape b).
Notation tget := (tget b).
Notation tsn := (tsn b).
Notation Inv := (Inv b).
Notation abs := (abs b).
Notation lookup := (lookup b).

Definition child (n : any) (k : nat) : any := match n with ANode cs => nth k cs ANil | _ => ANil end.

(* the path of index i, as a total function *)
Fixpoint pathf (h : nat) (n : any) (i : nat) : list pathEntry :=
  match h with
  | O => [(n, dig i 0)]
  | S h' => (n, dig i (S h')) :: pathf h' (child n (dig i (S h'))) i
  end.

Lemma pathf_length h n i : length (pathf h n i) = S h.
Proof. revert n; induction h as [|h IH]; intros n; simpl; auto. Qed.

Lemma mkpath_pathf h : forall n L i, shape h n L -> i mod pw (S h) < L * Bn ->
  mkpath b h n (Z.of_nat i) = Some (pathf h n i).
Proof.
  induction h as [|h IH]; intros n L i Hs Hi.
  - cbn [mkpath pathf]. rewrite (chunk_nat b Hb). reflexivity.
  - destruct L as [|L']; [lia|].
    destruct (shape_node b _ _ _ Hs ltac:(lia)) as [cs [-> Hl]].
    apply (shape_S_inv b) in Hs. destruct Hs as [HL [_ Hk]].
    cbn [mkpath pathf child]. rewrite (chunk_nat b Hb).
    assert (Hd : dig i (S h) < Bn) by (apply dig_lt; exact Hb).
    rewrite (nth_error_nth_len cs _ ANil) by lia.
    pose proof (child_room b Hb _ _ _ Hi) as Hc. pose proof (Hk _ Hd) as Hsc.
    destruct (shape_node b _ _ _ Hsc ltac:(lia)) as [ccs [Ec _]].
    rewrite Ec. rewrite <- Ec. rewrite (IH _ _ i Hsc Hc). reflexivity.
Qed.

Definition lastcur (p : list pathEntry) : option any :=
  match rev p with e :: _ => current e | [] => None end.

Lemma lastcur_cons x p : p <> [] -> lastcur (x :: p) = lastcur p.
Proof.
  intros Hp. unfold lastcur. simpl. destruct (rev p) eqn:E.
  - apply (f_equal (@rev _)) in E. rewrite rev_involutive in E. simpl in E. congruence.
  - reflexivity.
Qed.

Lemma pathf_ne h n i : pathf h n i <> [].
Proof. destruct h; simpl; discriminate. Qed.

Lemma lastcur_pathf h : forall n L i, shape h n L -> i mod pw (S h) < L * Bn ->
  lastcur (pathf h n i) = tget h n i.
Proof.
  induction h as [|h IH]; intros n L i Hs Hi.
  - simpl in Hs. destruct Hs as [[H _]|[H [cs [H1 H2]]]]; [subst; lia|]. subst.
    unfold lastcur. simpl. unfold current. simpl. rewrite (dig0 b). reflexivity.
  - destruct L as [|L']; [lia|].
    destruct (shape_node b _ _ _ Hs ltac:(lia)) as [cs [-> Hl]].
    apply (shape_S_inv b) in Hs. destruct Hs as [HL [_ Hk]].
    cbn [pathf child]. rewrite lastcur_cons by apply pathf_ne.
    rewrite (tget_S b Hb) by exact Hl.
    apply (IH _ _ i (Hk _ (dig_lt b Hb _ _)) (child_room b Hb _ _ _ Hi)).
Qed.

(* ---- arithmetic of i+1 ---- *)
Lemma mod_succ i M : 0 < M ->
  (S (i mod M) < M -> (i + 1) mod M = S (i mod M) /\ (i + 1) / M = i / M) /\
  (S (i mod M) = M -> (i + 1) mod M = 0 /\ (i + 1) / M = S (i / M)).
Proof.
  intros HM. pose proof (Nat.div_mod i M ltac:(lia)) as E. pose proof (Nat.mod_upper_bound i M ltac:(lia)) as U.
  split; intros H.
  - destruct (Nat.div_mod_unique M ((i + 1) / M) (i / M) ((i + 1) mod M) (S (i mod M))) as [A1 A2];
      [apply Nat.mod_upper_bound; lia|lia|rewrite <- Nat.div_mod by lia; lia|]. split; congruence.
  - destruct (Nat.div_mod_unique M ((i + 1) / M) (S (i / M)) ((i + 1) mod M) 0) as [A1 A2];
      [apply Nat.mod_upper_bound; lia|lia|rewrite <- Nat.div_mod by lia; lia|]. split; congruence.
Qed.

Lemma mod_succ_cases i M : 0 < M -> S (i mod M) < M \/ S (i mod M) = M.
Proof. intros H. pose proof (Nat.mod_upper_bound i M ltac:(lia)). lia. Qed.

Lemma digits_zero h : forall j, j mod pw (S h) = 0 -> forall k, k <= h -> dig j k = 0.
Proof.
  induction h as [|h IH]; intros j Hj k Hk.
  - assert (k = 0) by lia. subst. rewrite (dig0 b). rewrite (pw1 b) in Hj. exact Hj.
  - rewrite (idx_split b Hb) in Hj. pose proof (pw_pos b Hb (S h)).
    destruct (Nat.eq_dec k (S h)) as [->|Ne]; [nia|]. apply IH; lia.
Qed.

Lemma refill_zero h : forall c L rest j, shape h c L -> 0 < L -> length rest = S h ->
  (forall k, k <= h -> dig j k = 0) -> refill (Some c) rest = Some (pathf h c j).
Proof.
  induction h as [|h IH]; intros c L rest j Hs HL Hr Hz.
  - destruct rest as [|e [|e' r]]; simpl in Hr; try lia.
    destruct (shape_node b _ _ _ Hs HL) as [cs [-> _]]. cbn [refill pathf]. rewrite Hz by lia. reflexivity.
  - destruct rest as [|e rest']; simpl in Hr; [lia|].
    destruct (shape_node b _ _ _ Hs HL) as [cs [-> Hl]].
    apply (shape_S_inv b) in Hs. destruct Hs as [HLb [_ Hk]]. pose proof (B_ge2 b Hb) as HB.
    cbn [refill pathf child]. rewrite (Hz (S h)) by lia.
    rewrite (nth_error_nth_len cs 0 ANil) by lia.
    pose proof (Hk 0 ltac:(lia)) as Hc0. pose proof (pw_pos b Hb h).
    rewrite (IH (nth 0 cs ANil) _ rest' j Hc0) by (try lia; intros; apply Hz; lia). reflexivity.
Qed.

Lemma advance_pathf h : forall n L i, shape h n L -> i mod pw (S h) < L * Bn ->
  ((i + 1) mod pw (S h) = 0 -> advance b (pathf h n i) = AdvNo) /\
  ((i + 1) mod pw (S h) <> 0 -> (i + 1) mod pw (S h) < L * Bn ->
     advance b (pathf h n i) = AdvOk (pathf h n (i + 1))).
Proof.
  pose proof (B_ge2 b Hb) as HB.
  induction h as [|h IH]; intros n L i Hs Hi.
  - rewrite (pw1 b). cbn [pathf advance]. rewrite !(dig0 b).
    destruct (mod_succ i Bn ltac:(lia)) as [A1 A2].
    destruct (mod_succ_cases i Bn ltac:(lia)) as [C|C].
    + destruct (A1 C) as [E _]. split; [lia|]. intros _ _.
      destruct (Nat.ltb_spec (S (i mod Bn)) Bn); [|lia]. cbn [refill]. rewrite E. reflexivity.
    + destruct (A2 C) as [E _]. split; [|lia]. intros _.
      destruct (Nat.ltb_spec (S (i mod Bn)) Bn); [lia|reflexivity].
  - destruct L as [|L']; [lia|]. set (L := S L') in *.
    destruct (shape_node b _ _ _ Hs ltac:(lia)) as [cs [-> Hl]].
    apply (shape_S_inv b) in Hs. destruct Hs as [HL [_ Hk]].
    pose proof (pw_pos b Hb (S h)) as PM.
    assert (Hd : dig i (S h) < Bn) by (apply dig_lt; exact Hb).
    pose proof (child_room b Hb _ _ _ Hi) as Hc. pose proof (Hk _ Hd) as Hsc.
    destruct (IH _ _ i Hsc Hc) as [IH1 IH2].
    cbn [pathf child advance].
    pose proof (idx_split b Hb h (i + 1)) as Sp.
    destruct (mod_succ i (pw (S h)) PM) as [A1 A2].
    destruct (mod_succ_cases i (pw (S h)) PM) as [C|C].
    + (* no carry out of the lower levels *)
      destruct (A1 C) as [E Ed].
      assert (D : dig (i + 1) (S h) = dig i (S h)) by (unfold C06_defs.dig; rewrite Ed; reflexivity).
      split; [intros Z0; rewrite Z0 in Sp; lia|]. intros _ Hlt.
      rewrite D.
      assert (Hc' : (i + 1) mod pw (S h) < Nat.min (pw h) (L - dig i (S h) * pw h) * Bn).
      { pose proof (child_room b Hb _ _ _ Hlt) as X. rewrite D in X. exact X. }
      rewrite (IH2 ltac:(lia) Hc'). reflexivity.
    + (* carry *)
      destruct (A2 C) as [E Ed]. rewrite (IH1 E).
      destruct (mod_succ (i / pw (S h)) Bn ltac:(lia)) as [B1 B2].
      fold (dig i (S h)) in B1, B2. replace (i / pw (S h) + 1) with (S (i / pw (S h))) in B1, B2 by lia.
      rewrite <- Ed in B1, B2. fold (dig (i + 1) (S h)) in B1, B2.
      destruct (Nat.ltb_spec (S (dig i (S h))) Bn) as [Lt|Ge].
      * destruct (B1 Lt) as [D _]. split; [intros Z0; rewrite Z0 in Sp; nia|]. intros _ Hlt.
        rewrite D. unfold current. cbn [fst snd]. rewrite (nth_error_nth_len cs _ ANil) by lia.
        pose proof (child_room b Hb _ _ _ Hlt) as X. rewrite D, E in X.
        pose proof (Hk _ Lt) as Hsc'.
        rewrite (refill_zero h _ _ _ (i + 1) Hsc' ltac:(lia) (pathf_length _ _ _) (digits_zero h _ E)).
        reflexivity.
      * assert (S (dig i (S h)) = Bn) by lia. destruct (B2 H) as [D _].
        split; [reflexivity|]. intros Nz. rewrite Sp, E, D in Nz. lia.
Qed.

(* ---- the loop ---- *)
Lemma it_run_ok cz h r t : Inv (mkVec cz h r t) ->
  forall c L, cz = Z.of_nat c -> tsn c = L * Bn -> length t = c - L * Bn ->
  L * Bn <= pw (S h) -> (0 < L -> shape h r L) ->
  forall en, en <= c ->
  forall m i fuel path acc, m = en - i -> i <= en -> m <= fuel ->
    (i < L * Bn -> path = pathf h r i) ->
    it_run b fuel (mkIter (mkVec cz h r t) (Z.of_nat (L * Bn)) (Z.of_nat i) (Z.of_nat en) path) acc
    = Ok (rev acc ++ map (lookup (mkVec cz h r t)) (seq i m)).
Proof.
  intros HI c L -> Ets Ht Hcap Hsh en Hen. pose proof (B_ge2 b Hb) as HB.
  induction m as [|m IH]; intros i fuel path acc Hm Hi Hf Hp.
  - assert (i = en) by lia. subst i. destruct fuel; cbn [it_run]; unfold it_hasElem; cbn [it_index it_end];
      rewrite Z.ltb_irrefl; simpl; rewrite app_nil_r; reflexivity.
  - destruct fuel as [|fuel]; [lia|]. cbn [it_run]. unfold it_hasElem. cbn [it_index it_end].
    destruct (Z.ltb_spec (Z.of_nat i) (Z.of_nat en)); [|lia].
    (* Elem *)
    assert (Hel : it_elem (mkIter (mkVec (Z.of_nat c) h r t) (Z.of_nat (L * Bn)) (Z.of_nat i) (Z.of_nat en) path)
                  = Some (lookup (mkVec (Z.of_nat c) h r t) i)).
    { unfold it_elem. cbn [it_index it_ts it_v it_path tail]. rewrite (lookup_mk b), Ets.
      destruct (Z.geb_spec (Z.of_nat i) (Z.of_nat (L * Bn))); destruct (Nat.ltb_spec i (L * Bn)); try lia.
      - replace (Z.to_nat (Z.of_nat i - Z.of_nat (L * Bn))) with (i - L * Bn) by lia.
        destruct (nth_error t (i - L * Bn)) eqn:E; [reflexivity|]. apply nth_error_None in E. lia.
      - rewrite (Hp ltac:(lia)). assert (HL : 0 < L) by nia.
        assert (Hm' : i mod pw (S h) = i) by (apply Nat.mod_small; lia).
        change (lastcur (pathf h r i) = Some match tget h r i with Some x => x | None => ANil end).
        rewrite (lastcur_pathf h r L i (Hsh HL)) by lia.
        destruct (get_ok b Hb h r L i (Hsh HL) ltac:(lia)) as [x ->]. reflexivity. }
    rewrite Hel.
    (* Next *)
    assert (Hnx : exists path', it_next b (mkIter (mkVec (Z.of_nat c) h r t) (Z.of_nat (L * Bn)) (Z.of_nat i) (Z.of_nat en) path)
                  = Some (mkIter (mkVec (Z.of_nat c) h r t) (Z.of_nat (L * Bn)) (Z.of_nat (S i)) (Z.of_nat en) path')
                  /\ (S i < L * Bn -> path' = pathf h r (S i))).
    { unfold it_next. cbn [it_index it_ts it_v it_path it_end].
      replace (Z.of_nat i + 1)%Z with (Z.of_nat (S i)) by lia.
      destruct (Z.geb_spec (Z.of_nat (S i)) (Z.of_nat (L * Bn))).
      - exists path. split; [reflexivity|lia].
      - assert (HL : 0 < L) by nia. rewrite (Hp ltac:(lia)).
        assert (M1 : i mod pw (S h) = i) by (apply Nat.mod_small; lia).
        assert (M2 : (i + 1) mod pw (S h) = i + 1) by (apply Nat.mod_small; lia).
        destruct (advance_pathf h r L i (Hsh HL) ltac:(lia)) as [_ A].
        rewrite A by lia. replace (i + 1) with (S i) by lia. eexists; split; [reflexivity|auto]. }
    destruct Hnx as [path' [-> Hp']].
    rewrite (IH (S i) fuel path' _ ltac:(lia) ltac:(lia) ltac:(lia) Hp').
    cbn [rev seq map]. rewrite <- app_assoc. reflexivity.
Qed.

Lemma firstn_skipn_map_seq {T} (f : nat -> T) c a m : a + m <= c ->
  firstn m (skipn a (map f (seq 0 c))) = map f (seq a m).
Proof.
  intros H. apply list_ext_nth_error.
  - rewrite firstn_length, skipn_length, !map_length, !seq_length. lia.
  - intros j Hj. rewrite firstn_length, skipn_length, map_length, seq_length in Hj.
    rewrite C06_hist.nth_error_firstn_lt by lia. rewrite C06_hist.nth_error_skipn_add.
    rewrite !nth_error_map. rewrite !(nth_error_nth' _ 0) by (rewrite seq_length; lia).
    rewrite !seq_nth by lia. reflexivity.
Qed.

Theorem iter_ref v bgn en : Inv v -> (0 <= bgn <= en)%Z -> (en <= count v)%Z ->
  iterate_range b v bgn en = Ok (firstn (Z.to_nat (en - bgn)) (skipn (Z.to_nat bgn) (abs v))).
Proof.
  destruct v as [cz h r t]. intros HI H1 H2. cbn [count] in H2.
  destruct (Inv_facts b Hb _ _ _ _ HI) as [c [L [Ec [Ets [Ht [I2 [I3 [I4 [Hb1 [Hb2 [Hb3 ETS]]]]]]]]]]].
  set (bn := Z.to_nat bgn). set (e := Z.to_nat en).
  assert (Eb : bgn = Z.of_nat bn) by lia. assert (Ee : en = Z.of_nat e) by lia.
  clearbody bn e. subst bgn en.
  unfold iterate_range, newIteratorWithRange. rewrite ETS. cbn [height root].
  assert (Hpath : exists path, (if (Z.of_nat bn >=? Z.of_nat (L * Bn))%Z
                   then Some (mkIter (mkVec cz h r t) (Z.of_nat (L * Bn)) (Z.of_nat bn) (Z.of_nat e) [])
                   else match mkpath b h r (Z.of_nat bn) with
                        | Some p => Some (mkIter (mkVec cz h r t) (Z.of_nat (L * Bn)) (Z.of_nat bn) (Z.of_nat e) p)
                        | None => None end)
                  = Some (mkIter (mkVec cz h r t) (Z.of_nat (L * Bn)) (Z.of_nat bn) (Z.of_nat e) path)
                  /\ (bn < L * Bn -> path = pathf h r bn)).
  { destruct (Z.geb_spec (Z.of_nat bn) (Z.of_nat (L * Bn))).
    - exists []. split; [reflexivity|lia].
    - assert (HL : 0 < L) by nia.
      rewrite (mkpath_pathf h r L bn (I4 HL)) by (rewrite Nat.mod_small; lia).
      eexists; split; [reflexivity|auto]. }
  destruct Hpath as [path [-> Hp]].
  replace (Z.to_nat (Z.of_nat e - Z.of_nat bn)) with (e - bn) by lia.
  rewrite (it_run_ok cz h r t HI c L Ec Ets Ht Hb3 I4 e ltac:(lia) (e - bn) bn (e - bn) path []
             eq_refl ltac:(lia) ltac:(lia) Hp).
  cbn [rev app]. f_equal. unfold C06_inv.abs, C06_inv.cnt. cbn [count]. rewrite Ec, Nat2Z.id.
  symmetry. apply firstn_skipn_map_seq. lia.
Qed.

End Iter.
