(* C07 — the trie invariant and the "32 slots" view of bitmap and array nodes. *)
From Coq Require Import Permutation ZifyBool ZifyNat ZifyN.
From verif Require Import lib.Base lib.ListX model.C07 proofs.C07_swar proofs.C07_bits proofs.C07_lists.
Open Scope nat_scope.

Lemma nth_error_Some_lt {A} (l : list A) c x : nth_error l c = Some x -> c < length l.
Proof. intros H. apply nth_error_Some. congruence. Qed.

Section Node.
Variables K V : Type.
Variable eqk : K -> K -> bool.
Variable hash : K -> N.
Hypothesis eqk_refl : forall a, eqk a a = true.
Hypothesis eqk_sym : forall a b, eqk a b = eqk b a.
Hypothesis eqk_trans : forall a b c, eqk a b = true -> eqk b c = true -> eqk a c = true.
Hypothesis hash_compat : forall a b, eqk a b = true -> hash a = hash b.
Hypothesis hash_bound : forall a, (hash a < 2 ^ 32)%N.

Notation node := (node K V).
Notation ent := (entry K V node).
Notation kv := (K * V)%type.
Notation mem := (s_mem eqk).
Notation rem := (s_remove eqk).
Notation look := (s_lookup eqk).
Notation NoDupK := (NoDupK eqk).

Definition eflat (e : ent) : list kv := match e with Leaf k v => [(k, v)] | Child c => flat c end.
Definition oflat (o : option ent) : list kv := match o with Some e => eflat e | None => [] end.
Definition sflat (sl : list (option ent)) : list kv := flat_map oflat sl.
Definition bslots (bm : N) (es : list ent) : list (option ent) := expandf (N.testbit bm) 32 0 es.
Definition aslots (cs : list (option node)) : list (option ent) := map (option_map Child) cs.

(* shift of the level with [d] levels left: 8 -> 0, 7 -> 5, .., 1 -> 35 *)
Definition shift_of (d : nat) : N := 5 * (8 - N.of_nat d).

Definition EntryOk (I : N -> node -> Prop) (s p : N) (c : nat) (e : ent) : Prop :=
  match e with
  | Leaf k v => (hash k mod 2 ^ (s + 5) = p + 2 ^ s * N.of_nat c)%N
  | Child ch => I (p + 2 ^ s * N.of_nat c)%N ch /\ flat ch <> []
  end.

Definition SlotsOk (I : N -> node -> Prop) (s p : N) (sl : list (option ent)) : Prop :=
  length sl = 32 /\ forall c e, nth_error sl c = Some (Some e) -> EntryOk I s p c e.

(* [Inv d p n]: n is a well-formed subtree on the level with d levels left,
   all of whose keys have the hash prefix p (the low shift_of d bits). *)
Fixpoint Inv (d : nat) (p : N) (n : node) : Prop :=
  match d with
  | O => False
  | S d' =>
    let s := shift_of (S d') in
    S d' <= 8 /\ (p < 2 ^ s)%N /\
    match n with
    | Bitmap bm es =>
      (s <= 30)%N /\ (bm < 2 ^ 32)%N /\ length es = rankf (N.testbit bm) 32 0
      /\ SlotsOk (Inv d') s p (bslots bm es)
    | Array nc cs =>
      (s <= 25)%N /\ nc = Z.of_nat (length (somes cs)) /\ (8 <= nc)%Z
      /\ SlotsOk (Inv d') s p (aslots cs)
    | Collision h kvs =>
      (h mod 2 ^ s = p)%N /\ (h < 2 ^ 32)%N /\ (forall k v, In (k, v) kvs -> hash k = h)
      /\ NoDupK kvs /\ kvs <> []
    end
  end.

(* ---- arithmetic of prefixes ---- *)
Lemma shift_step d : 1 <= S d -> S d <= 8 -> shift_of d = (shift_of (S d) + 5)%N.
Proof. unfold shift_of. lia. Qed.

Lemma shift_gt30 d : (30 < shift_of d)%N -> (32 <= shift_of d)%N.
Proof. unfold shift_of. lia. Qed.
Lemma shift_le25 d : (shift_of d <= 30)%N -> shift_of d <> 30%N -> (shift_of d <= 25)%N.
Proof. unfold shift_of. lia. Qed.
Lemma shift_le30_pred d : (shift_of (S d) <= 30)%N -> 1 <= d.
Proof. unfold shift_of. lia. Qed.

Lemma chunk_div s h : chunk s h = ((h / 2 ^ s) mod 32)%N.
Proof.
  unfold chunk. change chunkMask with (N.ones 5). rewrite N.land_ones, N.shiftr_div_pow2. reflexivity.
Qed.

Lemma low_step s h : (h mod 2 ^ (s + 5) = h mod 2 ^ s + 2 ^ s * chunk s h)%N.
Proof.
  rewrite chunk_div, N.pow_add_r. change (2 ^ 5)%N with 32%N.
  apply N.mod_mul_r; [apply N.pow_nonzero; discriminate|discriminate].
Qed.

Lemma split_prefix s p c h : (p < 2 ^ s)%N -> (c < 32)%N ->
  (h mod 2 ^ (s + 5) = p + 2 ^ s * c)%N -> (h mod 2 ^ s = p)%N /\ chunk s h = c.
Proof.
  intros Hp Hc H. rewrite low_step in H.
  assert (Hr : (h mod 2 ^ s < 2 ^ s)%N) by (apply N.mod_lt, N.pow_nonzero; discriminate).
  destruct (N.div_mod_unique (2 ^ s) (chunk s h) c (h mod 2 ^ s) p Hr Hp) as [E1 E2]; [lia|].
  split; assumption.
Qed.

Lemma prefix_child_lt s p c : (p < 2 ^ s)%N -> (c < 32)%N -> (p + 2 ^ s * c < 2 ^ (s + 5))%N.
Proof. intros Hp Hc. rewrite N.pow_add_r. change (2 ^ 5)%N with 32%N. nia. Qed.

Lemma mod_small_eq h s : (h < 2 ^ 32)%N -> (32 <= s)%N -> (h mod 2 ^ s = h)%N.
Proof.
  intros H Hs. apply N.mod_small. eapply N.lt_le_trans; [exact H|].
  apply N.pow_le_mono_r; [discriminate|exact Hs].
Qed.

(* ---- flat through the slots view ---- *)
Lemma flat_bitmap bm es : length es = rankf (N.testbit bm) 32 0 ->
  flat (Bitmap bm es) = sflat (bslots bm es).
Proof.
  intros H. unfold sflat, bslots. change (flat (Bitmap bm es)) with (flat_map eflat es).
  rewrite <- (somes_expandf (N.testbit bm) 32 0 es H) at 1. apply flat_map_somes.
Qed.

Lemma flat_array nc cs : flat (Array nc cs) = sflat (aslots cs).
Proof.
  unfold sflat, aslots. cbn [flat]. induction cs as [|[c|] cs IH]; simpl; [reflexivity| |exact IH].
  rewrite IH. reflexivity.
Qed.

Lemma somes_aslots cs : length (somes (aslots cs)) = length (somes cs).
Proof. unfold aslots, somes. induction cs as [|[c|] cs IH]; simpl; auto. Qed.

Lemma aslots_replace c x cs : aslots (replaceAt c x cs) = replaceAt c (option_map Child x) (aslots cs).
Proof. unfold aslots, replaceAt. rewrite map_app, firstn_map. cbn [map]. rewrite skipn_map. reflexivity. Qed.

Lemma aslots_nth cs c : nth_error (aslots cs) c = option_map (option_map Child) (nth_error cs c).
Proof. unfold aslots. apply nth_error_map. Qed.

(* ---- generic facts on slots ---- *)
Lemma sflat_replace sl c x :
  Permutation (sflat (replaceAt c x sl)) (oflat x ++ sflat (replaceAt c None sl)).
Proof.
  unfold sflat, replaceAt. rewrite !flat_map_app. simpl.
  rewrite app_assoc, (app_assoc (oflat x)).
  apply Permutation_app_tail. apply Permutation_app_comm.
Qed.

Lemma replaceAt_self {A} (sl : list A) c x : nth_error sl c = Some x -> replaceAt c x sl = sl.
Proof. intros H. symmetry. apply split_at. exact H. Qed.

Lemma sflat_split sl c o : nth_error sl c = Some o ->
  Permutation (sflat sl) (oflat o ++ sflat (replaceAt c None sl)).
Proof. intros H. rewrite <- (replaceAt_self sl c o H) at 1. apply sflat_replace. Qed.

Lemma mem_flat_map_false {A} (g : A -> list kv) k l :
  (forall y, In y l -> mem k (g y) = false) -> mem k (flat_map g l) = false.
Proof.
  induction l as [|a l IH]; simpl; intros H; [reflexivity|].
  rewrite mem_app, (H a) by (left; reflexivity). simpl. apply IH. intros y Hy. apply H. right; exact Hy.
Qed.

Lemma mem_sflat_false k sl :
  (forall c e, nth_error sl c = Some (Some e) -> mem k (eflat e) = false) -> mem k (sflat sl) = false.
Proof.
  intros H. apply mem_flat_map_false. intros [e|] Hy; [|reflexivity].
  apply In_nth_error in Hy as [c Hc]. eapply H. exact Hc.
Qed.

Lemma lift_mem k sl c o : nth_error sl c = Some o ->
  mem k (sflat (replaceAt c None sl)) = false -> mem k (sflat sl) = mem k (oflat o).
Proof.
  intros Hn Hr. rewrite (mem_perm K V eqk k _ _ (sflat_split sl c o Hn)), mem_app, Hr. apply orb_false_r.
Qed.

Lemma lift_assoc k v sl c o x' : nth_error sl c = Some o ->
  mem k (sflat (replaceAt c None sl)) = false ->
  Permutation (oflat x') ((k, v) :: rem k (oflat o)) ->
  Permutation (sflat (replaceAt c x' sl)) ((k, v) :: rem k (sflat sl)).
Proof.
  intros Hn Hr P. rewrite sflat_replace.
  rewrite (rem_perm K V eqk k _ _ (sflat_split sl c o Hn)), rem_app, (rem_id K V eqk k _ Hr).
  rewrite P. reflexivity.
Qed.

Lemma lift_without k sl c o x' : nth_error sl c = Some o ->
  mem k (sflat (replaceAt c None sl)) = false ->
  Permutation (oflat x') (rem k (oflat o)) ->
  Permutation (sflat (replaceAt c x' sl)) (rem k (sflat sl)).
Proof.
  intros Hn Hr P. rewrite sflat_replace.
  rewrite (rem_perm K V eqk k _ _ (sflat_split sl c o Hn)), rem_app, (rem_id K V eqk k _ Hr).
  rewrite P. reflexivity.
Qed.

Lemma lift_look k sl c o : NoDupK (sflat sl) -> nth_error sl c = Some o ->
  mem k (sflat (replaceAt c None sl)) = false -> look k (sflat sl) = look k (oflat o).
Proof.
  intros ND Hn Hr. rewrite (look_perm K V eqk eqk_sym eqk_trans k _ _ ND (sflat_split sl c o Hn)).
  rewrite look_app. destruct (look k (oflat o)); [reflexivity|]. apply look_none. exact Hr.
Qed.

Lemma NoDupK_flat_map_idx {A} (g : A -> list kv) l :
  (forall i x, nth_error l i = Some x -> NoDupK (g x)) ->
  (forall i j x y k v, i < j -> nth_error l i = Some x -> nth_error l j = Some y ->
     In (k, v) (g x) -> mem k (g y) = false) ->
  NoDupK (flat_map g l).
Proof.
  induction l as [|a l IH]; intros H1 H2; simpl; [exact I|].
  apply NoDupK_app. split; [apply (H1 0 a eq_refl)|]. split.
  - apply IH.
    + intros i x Hx. apply (H1 (S i) x Hx).
    + intros i j x y k v Hij Hx Hy. apply (H2 (S i) (S j) x y k v); [lia|exact Hx|exact Hy].
  - intros k v Hin. apply mem_flat_map_false. intros y Hy.
    apply In_nth_error in Hy as [j Hj]. apply (H2 0 (S j) a y k v); [lia|reflexivity|exact Hj|exact Hin].
Qed.

Lemma SlotsOk_replace I s p sl c x : SlotsOk I s p sl -> c < 32 ->
  (forall e, x = Some e -> EntryOk I s p c e) -> SlotsOk I s p (replaceAt c x sl).
Proof.
  intros [Hl H] Hc Hx. split; [rewrite replaceAt_length; lia|].
  intros c' e Hn. destruct (Nat.eq_dec c' c) as [->|Hne].
  - rewrite replaceAt_nth_same in Hn by lia. inversion Hn; subst. apply Hx. reflexivity.
  - rewrite replaceAt_nth_other in Hn by lia. apply H. exact Hn.
Qed.

Lemma slots_nonempty I s p sl : SlotsOk I s p sl -> somes sl <> [] -> sflat sl <> [].
Proof.
  intros [_ H] Hs.
  assert (exists c e, nth_error sl c = Some (Some e)) as (c & e & Hc).
  { clear H. induction sl as [|[e|] sl IH]; simpl in Hs; [congruence|exists 0, e; reflexivity|].
    destruct (IH Hs) as (c & e & Hc). exists (S c), e. exact Hc. }
  specialize (H c e Hc). intros E.
  pose proof (sflat_split sl c (Some e) Hc) as P. rewrite E in P. apply Permutation_nil in P.
  apply app_eq_nil in P as [P _]. destruct e as [k v|ch]; simpl in *; [discriminate|].
  destruct H as [_ H]. contradiction.
Qed.

(* ---- consequences of the invariant ---- *)
Lemma inv_level d p n : Inv d p n -> 1 <= d /\ d <= 8 /\ (p < 2 ^ shift_of d)%N.
Proof. destruct d; simpl; [tauto|]. intros (H1 & H2 & _). repeat split; [lia|exact H1|exact H2]. Qed.

Lemma slots_keys d' s p sl k v c e :
  (forall p n k v, Inv d' p n -> In (k, v) (flat n) -> (hash k mod 2 ^ shift_of d' = p)%N) ->
  shift_of d' = (s + 5)%N ->
  SlotsOk (Inv d') s p sl -> nth_error sl c = Some (Some e) -> In (k, v) (eflat e) ->
  (hash k mod 2 ^ (s + 5) = p + 2 ^ s * N.of_nat c)%N.
Proof.
  intros IH Hs [Hl H] Hn Hin. specialize (H c e Hn). destruct e as [k0 v0|ch]; simpl in *.
  - destruct Hin as [E|[]]. inversion E; subst. exact H.
  - destruct H as [H _]. rewrite <- Hs. eapply IH; eauto.
Qed.

Lemma in_sflat k v sl : In (k, v) (sflat sl) -> exists c e, nth_error sl c = Some (Some e) /\ In (k, v) (eflat e).
Proof.
  unfold sflat. rewrite in_flat_map. intros ([e|] & H1 & H2); [|destruct H2].
  apply In_nth_error in H1 as [c Hc]. exists c, e. auto.
Qed.

Lemma inv_keys d : forall p n k v, Inv d p n -> In (k, v) (flat n) -> (hash k mod 2 ^ shift_of d = p)%N.
Proof.
  induction d as [|d' IH]; intros p n k v HI Hin; [destruct HI|].
  pose proof (inv_level _ _ _ HI) as (L1 & L2 & L3).
  pose proof (shift_step d' L1 L2) as Hs.
  cbn [Inv] in HI. destruct HI as (_ & Hp & HI).
  assert (Hslots : forall sl, SlotsOk (Inv d') (shift_of (S d')) p sl -> In (k, v) (sflat sl) ->
                              (hash k mod 2 ^ shift_of (S d') = p)%N).
  { intros sl HS Hi. apply in_sflat in Hi as (c & e & Hc & Hi).
    pose proof (slots_keys d' _ p sl k v c e IH Hs HS Hc Hi) as Hk.
    assert (c < 32) by (destruct HS as [Hl _]; apply nth_error_Some_lt in Hc; lia).
    apply (split_prefix _ p (N.of_nat c) (hash k) Hp ltac:(lia) Hk). }
  destruct n as [bm es|nc cs|h kvs].
  - destruct HI as (_ & _ & Hwf & HS). rewrite (flat_bitmap bm es Hwf) in Hin. eauto.
  - destruct HI as (_ & _ & _ & HS). rewrite flat_array in Hin. eauto.
  - destruct HI as (Hh & _ & Hk & _). simpl in Hin. rewrite (Hk k v Hin). exact Hh.
Qed.

(* keys of other slots are different from a key that belongs to slot c0 *)
Lemma slot_other d' s p sl k c0 :
  shift_of d' = (s + 5)%N -> (p < 2 ^ s)%N ->
  SlotsOk (Inv d') s p sl -> (hash k mod 2 ^ s = p)%N -> c0 = N.to_nat (chunk s (hash k)) ->
  mem k (sflat (replaceAt c0 None sl)) = false.
Proof.
  intros Hs Hp HS Hk Hc0. apply mem_sflat_false. intros c e Hn.
  assert (Hc032 : c0 < 32) by (pose proof (chunk_lt s (hash k)); lia).
  destruct HS as [Hl HS'].
  destruct (Nat.eq_dec c c0) as [->|Hne].
  { rewrite replaceAt_nth_same in Hn by lia. discriminate. }
  rewrite replaceAt_nth_other in Hn by lia.
  assert (Hc : c < 32) by (apply nth_error_Some_lt in Hn; lia).
  apply mem_false_iff. intros k' v' Hin.
  destruct (eqk k k') eqn:E; [exfalso|reflexivity].
  pose proof (slots_keys d' s p sl k' v' c e (inv_keys d') Hs (conj Hl HS') Hn Hin) as Hk'.
  rewrite <- (hash_compat k k' E) in Hk'.
  destruct (split_prefix s p (N.of_nat c) (hash k) Hp ltac:(lia) Hk') as [_ Hch]. lia.
Qed.

Lemma NoDupK_sflat d' s p sl :
  (forall p n, Inv d' p n -> NoDupK (flat n)) ->
  shift_of d' = (s + 5)%N -> (p < 2 ^ s)%N -> SlotsOk (Inv d') s p sl -> NoDupK (sflat sl).
Proof.
  intros IH Hs Hp HS. apply NoDupK_flat_map_idx.
  - intros i [e|] Hx; [|exact I]. destruct HS as [_ HS]. specialize (HS i e Hx).
    destruct e as [k v|ch]; simpl in *; [auto|]. apply (IH _ _ (proj1 HS)).
  - intros i j [x|] [y|] k v Hij Hx Hy Hin; try reflexivity; [|destruct Hin].
    pose proof (slots_keys d' s p sl k v i x (inv_keys d') Hs HS Hx Hin) as Hk.
    assert (Hi : i < 32) by (destruct HS as [Hl _]; apply nth_error_Some_lt in Hx; lia).
    assert (Hj : j < 32) by (destruct HS as [Hl _]; apply nth_error_Some_lt in Hy; lia).
    apply mem_false_iff. intros k' v' Hin'. destruct (eqk k k') eqn:E; [exfalso|reflexivity].
    pose proof (slots_keys d' s p sl k' v' j y (inv_keys d') Hs HS Hy Hin') as Hk'.
    rewrite <- (hash_compat k k' E) in Hk'.
    destruct (split_prefix s p (N.of_nat i) (hash k) Hp ltac:(lia) Hk) as [_ E1].
    destruct (split_prefix s p (N.of_nat j) (hash k) Hp ltac:(lia) Hk') as [_ E2]. lia.
Qed.

Lemma inv_nodup d : forall p n, Inv d p n -> NoDupK (flat n).
Proof.
  induction d as [|d' IH]; intros p n HI; [destruct HI|].
  pose proof (inv_level _ _ _ HI) as (L1 & L2 & L3).
  pose proof (shift_step d' L1 L2) as Hs.
  cbn [Inv] in HI. destruct HI as (_ & Hp & HI).
  destruct n as [bm es|nc cs|h kvs].
  - destruct HI as (_ & _ & Hwf & HS). rewrite (flat_bitmap bm es Hwf).
    eapply NoDupK_sflat; eauto.
  - destruct HI as (_ & _ & _ & HS). rewrite flat_array. eapply NoDupK_sflat; eauto.
  - destruct HI as (_ & _ & _ & ND & _). exact ND.
Qed.

(* moving a collision node one level down (wrapping it) *)
Lemma inv_collision_down d' p h kvs :
  1 <= d' -> Inv (S d') p (Collision h kvs) ->
  Inv d' (p + 2 ^ shift_of (S d') * chunk (shift_of (S d')) h)%N (Collision h kvs).
Proof.
  intros Hd HI. pose proof (inv_level _ _ _ HI) as (L1 & L2 & L3).
  pose proof (shift_step d' L1 L2) as Hs. cbn [Inv] in HI.
  destruct HI as (_ & Hp & Hh & Hb & Hk & ND & Hne).
  destruct d' as [|d'']; [lia|]. cbn [Inv]. rewrite Hs.
  pose proof (chunk_lt (shift_of (S (S d''))) h) as Hc.
  split; [lia|]. split; [apply prefix_child_lt; assumption|].
  split; [rewrite low_step, Hh; reflexivity|]. auto.
Qed.

(* ---- the bitmap layer at a node ---- *)
Section BitmapAt.
Variables (bm : N) (es : list ent) (c : N).
Hypothesis Hbm : (bm < 2 ^ 32)%N.
Hypothesis Hwf : length es = rankf (N.testbit bm) 32 0.
Hypothesis Hc : (c < 32)%N.
Let c0 := N.to_nat c.
Let idx := N.to_nat (index bm (2 ^ c)).

Lemma idx_rank : idx = rankf (N.testbit bm) c0 0.
Proof. apply index_rank; assumption. Qed.

Lemma b_get : nth_error (bslots bm es) c0 =
  Some (if N.testbit bm c then nth_error es idx else None).
Proof.
  unfold bslots. rewrite (expandf_nth (N.testbit bm) 32 0 es c0) by (unfold c0; lia || exact Hwf).
  replace (0 + N.of_nat c0)%N with c by (unfold c0; lia). rewrite idx_rank. reflexivity.
Qed.

Lemma b_idx_lt : N.testbit bm c = true -> exists e, nth_error es idx = Some e.
Proof.
  intros Ht. assert (idx < length es).
  { rewrite idx_rank, Hwf. apply rankf_lt; [unfold c0; lia|].
    replace (0 + N.of_nat c0)%N with c by (unfold c0; lia). exact Ht. }
  destruct (nth_error es idx) eqn:E; [eauto|]. apply nth_error_None in E. lia.
Qed.

Lemma b_insert e : N.testbit bm c = false ->
  bslots (N.lor bm (2 ^ c)) (insertAt idx e es) = replaceAt c0 (Some e) (bslots bm es)
  /\ length (insertAt idx e es) = rankf (N.testbit (N.lor bm (2 ^ c))) 32 0
  /\ (N.lor bm (2 ^ c) < 2 ^ 32)%N.
Proof.
  intros Ht.
  destruct (expandf_insert (N.testbit bm) (N.testbit (N.lor bm (2 ^ c))) 32 0 es c0 e) as [E1 E2].
  - unfold c0; lia.
  - replace (0 + N.of_nat c0)%N with c by (unfold c0; lia). exact Ht.
  - exact Hwf.
  - intros x. replace (0 + N.of_nat c0)%N with c by (unfold c0; lia). apply lor_pow2_spec.
  - unfold bslots. rewrite idx_rank. split; [exact E1|]. split; [|apply lor_pow2_lt; assumption].
    rewrite E2. unfold insertAt. rewrite app_length. cbn [length].
    rewrite firstn_length, skipn_length.
    pose proof (rankf_le (N.testbit bm) c0 0).
    assert (rankf (N.testbit bm) c0 0 <= length es).
    { rewrite Hwf. replace 32 with (c0 + (32 - c0)) by (unfold c0; lia). rewrite rankf_add. lia. }
    lia.
Qed.

Lemma b_replace e : N.testbit bm c = true ->
  bslots bm (replaceAt idx e es) = replaceAt c0 (Some e) (bslots bm es)
  /\ length (replaceAt idx e es) = rankf (N.testbit bm) 32 0.
Proof.
  intros Ht.
  destruct (expandf_replace (N.testbit bm) 32 0 es c0 e) as [E1 E2].
  - unfold c0; lia.
  - replace (0 + N.of_nat c0)%N with c by (unfold c0; lia). exact Ht.
  - exact Hwf.
  - unfold bslots. rewrite idx_rank. split; [exact E1|]. rewrite E2. exact Hwf.
Qed.

Lemma b_remove : N.testbit bm c = true ->
  bslots (N.lxor bm (2 ^ c)) (removeAt idx es) = replaceAt c0 None (bslots bm es)
  /\ length (removeAt idx es) = rankf (N.testbit (N.lxor bm (2 ^ c))) 32 0
  /\ (N.lxor bm (2 ^ c) < 2 ^ 32)%N
  /\ S (rankf (N.testbit (N.lxor bm (2 ^ c))) 32 0) = rankf (N.testbit bm) 32 0.
Proof.
  intros Ht.
  destruct (expandf_remove (N.testbit bm) (N.testbit (N.lxor bm (2 ^ c))) 32 0 es c0) as (E1 & E2 & E3).
  - unfold c0; lia.
  - replace (0 + N.of_nat c0)%N with c by (unfold c0; lia). exact Ht.
  - exact Hwf.
  - intros x. replace (0 + N.of_nat c0)%N with c by (unfold c0; lia). apply lxor_pow2_spec. exact Ht.
  - unfold bslots. rewrite idx_rank. split; [exact E1|]. split; [exact E3|].
    split; [apply lxor_pow2_lt; assumption|exact E2].
Qed.
End BitmapAt.

Lemma bslots_length bm (es : list ent) : length (bslots bm es) = 32.
Proof. unfold bslots. apply expandf_length. Qed.

Lemma bslots_nth bm (es : list ent) j : j < 32 -> length es = rankf (N.testbit bm) 32 0 ->
  nth_error (bslots bm es) j =
  Some (if N.testbit bm (N.of_nat j) then nth_error es (rankf (N.testbit bm) j 0) else None).
Proof.
  intros Hj Hwf. unfold bslots. rewrite expandf_nth by assumption.
  replace (0 + N.of_nat j)%N with (N.of_nat j) by lia. reflexivity.
Qed.

(* ---- context of an operation with key k at a node on level S d' ---- *)
Lemma key_child d' p k :
  1 <= S d' -> S d' <= 8 -> (p < 2 ^ shift_of (S d'))%N ->
  (hash k mod 2 ^ shift_of (S d') = p)%N ->
  let s := shift_of (S d') in
  shift_of d' = (s + 5)%N
  /\ (hash k mod 2 ^ shift_of d' = p + 2 ^ s * N.of_nat (N.to_nat (chunk s (hash k))))%N
  /\ N.to_nat (chunk s (hash k)) < 32
  /\ (p + 2 ^ s * N.of_nat (N.to_nat (chunk s (hash k))) < 2 ^ shift_of d')%N.
Proof.
  intros L1 L2 Hp Hk s. pose proof (shift_step d' L1 L2) as Hs. fold s in Hs, Hp, Hk.
  pose proof (chunk_lt s (hash k)) as Hc. rewrite N2Nat.id.
  split; [exact Hs|]. split; [rewrite Hs, low_step, Hk; reflexivity|]. split; [lia|].
  rewrite Hs. apply prefix_child_lt; assumption.
Qed.

Lemma slots_get {A} (sl : list A) c : length sl = 32 -> c < 32 -> exists o, nth_error sl c = Some o.
Proof.
  intros Hl Hc. destruct (nth_error sl c) eqn:E; [eauto|]. apply nth_error_None in E. lia.
Qed.

(* ------------------------------------------------------------------ *)
(* find *)
Lemma find_spec d : forall p n k, Inv d p n -> (hash k mod 2 ^ shift_of d = p)%N ->
  find K V eqk d n (shift_of d) (hash k) k = FRes (look k (flat n)).
Proof.
  induction d as [|d' IH]; intros p n k HI Hk; [destruct HI|].
  pose proof (inv_level _ _ _ HI) as (L1 & L2 & L3).
  pose proof (inv_nodup _ _ _ HI) as ND.
  destruct (key_child d' p k L1 L2 L3 Hk) as (Hs & Hk' & Hc0 & Hp').
  set (s := shift_of (S d')) in *. set (c := chunk s (hash k)) in *.
  cbn [Inv] in HI. fold s in HI. destruct HI as (_ & Hp & HI).
  destruct n as [bm es|nc cs|h kvs]; cbn [find].
  - destruct HI as (Hs30 & Hbm & Hwf & HS).
    rewrite (flat_bitmap bm es Hwf) in *.
    pose proof (slot_other d' s p _ k _ Hs Hp HS Hk eq_refl) as Hoth.
    fold c in Hoth.
    pose proof (b_get bm es c Hbm Hwf (chunk_lt _ _)) as Hget.
    unfold bitmapFind. rewrite bitpos_pow2. fold c. rewrite land_pow2_zero.
    destruct (N.testbit bm c) eqn:Ht; cbn [negb].
    + destruct (b_idx_lt bm es c Hbm Hwf (chunk_lt _ _) Ht) as [e He]. rewrite He in *.
      rewrite (lift_look k _ _ _ ND Hget Hoth).
      destruct e as [k' v'|ch].
      * simpl. rewrite (eqk_sym k' k). destruct (eqk k k'); reflexivity.
      * change chunkBits with 5%N. rewrite <- Hs. destruct HS as [_ HS].
        destruct (HS _ _ Hget) as [HIc _]. apply (IH _ _ _ HIc). exact Hk'.
    + rewrite (lift_look k _ _ _ ND Hget Hoth). reflexivity.
  - destruct HI as (Hs25 & Hnc & Hnc8 & HS). rewrite flat_array in *.
    pose proof (slot_other d' s p _ k _ Hs Hp HS Hk eq_refl) as Hoth.
    fold c in Hoth.
    assert (Hl : length cs = 32) by (destruct HS as [Hl _]; unfold aslots in Hl; rewrite map_length in Hl; exact Hl).
    destruct (slots_get cs (N.to_nat c) Hl Hc0) as [o Ho]. fold c. rewrite Ho.
    assert (Hget : nth_error (aslots cs) (N.to_nat c) = Some (option_map Child o))
      by (rewrite aslots_nth, Ho; reflexivity).
    rewrite (lift_look k _ _ _ ND Hget Hoth).
    destruct o as [ch|]; [|reflexivity].
    change chunkBits with 5%N. rewrite <- Hs. destruct HS as [_ HS].
    destruct (HS _ _ Hget) as [HIc _]. apply (IH _ _ _ HIc). exact Hk'.
  - destruct (findIndex K V eqk k kvs) as [i|] eqn:E.
    + apply findIndex_some in E as (k' & v' & H1 & H2 & H3 & H4). rewrite H1. simpl. rewrite H4. reflexivity.
    + apply findIndex_none in E. simpl. symmetry. f_equal. apply look_none. exact E.
Qed.


(* ------------------------------------------------------------------ *)
(* assoc *)
Definition AssocPost (d : nat) (p : N) (n : node) (k : K) (v : V) (r : ares K V) : Prop :=
  match r with
  | AFail => False
  | ARes n' added =>
    Inv d p n' /\ Permutation (flat n') ((k, v) :: rem k (flat n)) /\ added = negb (mem k (flat n))
  end.

Definition AssocIH (d : nat) : Prop :=
  forall p n k v, Inv d p n -> (hash k mod 2 ^ shift_of d = p)%N ->
    AssocPost d p n k v (assoc K V eqk hash d n (shift_of d) (hash k) k v).

Lemma inv_empty_bitmap d p : 1 <= d -> d <= 8 -> (shift_of d <= 30)%N -> (p < 2 ^ shift_of d)%N ->
  Inv d p emptyBitmap.
Proof.
  intros H1 H2 H3 H4. destruct d as [|d']; [lia|]. cbn [Inv]. unfold emptyBitmap.
  assert (R : rankf (N.testbit 0) 32 0 = 0) by (apply rankf_false; intros; apply N.bits_0).
  split; [exact H2|]. split; [exact H4|]. split; [exact H3|]. split; [reflexivity|].
  split; [symmetry; exact R|].
  split; [apply bslots_length|]. intros c e Hn. exfalso.
  assert (c < 32) by (apply nth_error_Some_lt in Hn; rewrite bslots_length in Hn; exact Hn).
  rewrite bslots_nth in Hn by (assumption || (symmetry; exact R)).
  rewrite N.bits_0 in Hn. discriminate.
Qed.

Lemma inv_bitmap_intro d' p bm es sl :
  S d' <= 8 -> (p < 2 ^ shift_of (S d'))%N -> (shift_of (S d') <= 30)%N -> (bm < 2 ^ 32)%N ->
  length es = rankf (N.testbit bm) 32 0 -> bslots bm es = sl ->
  SlotsOk (Inv d') (shift_of (S d')) p sl -> Inv (S d') p (Bitmap bm es).
Proof. intros. subst sl. cbn [Inv]. auto 10. Qed.

Lemma perm_cons_nonnil {A} (l : list A) x r : Permutation l (x :: r) -> l <> [].
Proof. intros P E. subst. apply Permutation_nil in P. discriminate. Qed.

Lemma bitmap_rank_small d' p bm es :
  Inv (S d') p (Bitmap bm es) -> shift_of (S d') = 30%N -> rankf (N.testbit bm) 32 0 <= 4.
Proof.
  intros HI E30. pose proof (inv_level _ _ _ HI) as (L1 & L2 & L3).
  pose proof (shift_step d' L1 L2) as Hs.
  cbn [Inv] in HI. rewrite E30 in *. destruct HI as (_ & Hp & _ & Hbm & Hwf & HS).
  replace 32 with (4 + 28) by lia. rewrite rankf_add.
  pose proof (rankf_le (N.testbit bm) 4 0). rewrite (rankf_false _ 28); [lia|].
  intros x Hx1 Hx2. destruct (N.testbit bm x) eqn:Ht; [exfalso|reflexivity].
  assert (Hx : (x < 32)%N) by lia.
  pose proof (b_get bm es x Hbm Hwf Hx) as Hget. rewrite Ht in Hget.
  destruct (b_idx_lt bm es x Hbm Hwf Hx Ht) as [e He]. rewrite He in Hget.
  destruct HS as [_ HS]. specialize (HS _ _ Hget).
  assert (E230 : (2 ^ 30 = 1073741824)%N) by reflexivity.
  assert (E232 : (2 ^ 32 = 4294967296)%N) by reflexivity.
  assert (Hkey : forall k', (hash k' mod 2 ^ (30 + 5) = p + 2 ^ 30 * N.of_nat (N.to_nat x))%N -> False).
  { intros k' Hk'. rewrite mod_small_eq in Hk' by (apply hash_bound || lia).
    pose proof (hash_bound k'). rewrite E230, E232 in *. lia. }
  destruct e as [k' v'|ch]; cbn [EntryOk] in HS.
  - apply (Hkey k' HS).
  - destruct HS as [HIc Hne]. destruct (flat ch) as [|[k' v'] r] eqn:Ef; [contradiction|].
    apply (Hkey k'). rewrite <- Hs. apply (inv_keys d' _ ch k' v' HIc). rewrite Ef. left; reflexivity.
Qed.

(* ---- unpack ---- *)
Definition conv (rec : node -> N -> N -> K -> V -> ares K V) (s : N) (e : ent) : option node :=
  match e with
  | Child c => Some c
  | Leaf k v =>
    match rec emptyBitmap (s + chunkBits)%N (hash k) k v with ARes c _ => Some c | AFail => None end
  end.
Definition convo rec s (o : option ent) : option node :=
  match o with Some e => conv rec s e | None => None end.

Lemma unpackLoop_map rec s bm cnt : forall i es,
  length es = rankf (N.testbit bm) cnt i -> (forall e, In e es -> conv rec s e <> None) ->
  unpackLoop K V hash rec s cnt i bm es = Some (map (convo rec s) (expandf (N.testbit bm) cnt i es)).
Proof.
  induction cnt as [|cnt IH]; intros i es Hl Hc; [reflexivity|].
  cbn [unpackLoop expandf rankf] in *. destruct (N.testbit bm i).
  - destruct es as [|e r]; [discriminate|]. cbn [length] in Hl.
    rewrite (IH (i + 1)%N r) by (lia || (intros e0 He0; apply Hc; right; exact He0)).
    pose proof (Hc e (or_introl eq_refl)) as Hce. cbn [map convo].
    destruct e as [k v|ch]; cbn [conv] in *; [|reflexivity].
    destruct (rec emptyBitmap (s + chunkBits)%N (hash k) k v); [congruence|reflexivity].
  - rewrite (IH (i + 1)%N es) by assumption. reflexivity.
Qed.

Lemma unpackLoop_bslots rec s bm es :
  length es = rankf (N.testbit bm) 32 0 -> (forall e, In e es -> conv rec s e <> None) ->
  unpackLoop K V hash rec s 32 0 bm es = Some (map (convo rec s) (bslots bm es)).
Proof. intros H1 H2. unfold bslots. apply unpackLoop_map; assumption. Qed.

Lemma somes_bslots bm es : length es = rankf (N.testbit bm) 32 0 -> somes (bslots bm es) = es.
Proof. intros H. unfold bslots. apply somes_expandf. exact H. Qed.

Lemma in_somes {A} (e : A) l : In e (somes l) <-> In (Some e) l.
Proof.
  unfold somes. rewrite in_flat_map. split.
  - intros ([x|] & H1 & H2); [destruct H2 as [->|[]]; exact H1|destruct H2].
  - intros H. exists (Some e). split; [exact H|left; reflexivity].
Qed.

Lemma somes_app {A} (a b : list (option A)) : somes (a ++ b) = somes a ++ somes b.
Proof. unfold somes. apply flat_map_app. Qed.

Lemma somes_replace_length {A} (l : list (option A)) c o x : nth_error l c = Some o ->
  length (somes (replaceAt c x l)) + (if o then 1 else 0) = length (somes l) + (if x then 1 else 0).
Proof.
  intros H. rewrite (split_at c l o H) at 2. unfold replaceAt.
  rewrite !somes_app, !app_length. change (o :: skipn (S c) l) with ([o] ++ skipn (S c) l).
  change (x :: skipn (S c) l) with ([x] ++ skipn (S c) l). rewrite !somes_app, !app_length.
  destruct o, x; simpl; lia.
Qed.

Lemma perm_flat_map_pointwise {A B C} (g : B -> list C) (g' : A -> list C) (h : A -> B) l :
  (forall x, In x l -> Permutation (g (h x)) (g' x)) ->
  Permutation (flat_map g (map h l)) (flat_map g' l).
Proof.
  induction l as [|a l IH]; intros H; simpl; [constructor|].
  apply Permutation_app; [apply H; left; reflexivity|apply IH; intros x Hx; apply H; right; exact Hx].
Qed.

Lemma conv_ok d' s p sl : AssocIH d' -> shift_of d' = (s + 5)%N -> 1 <= d' -> d' <= 8 ->
  (s + 5 <= 30)%N -> (p < 2 ^ s)%N -> SlotsOk (Inv d') s p sl ->
  forall c e, nth_error sl c = Some (Some e) ->
  exists ch, conv (assoc K V eqk hash d') s e = Some ch
    /\ Inv d' (p + 2 ^ s * N.of_nat c)%N ch /\ flat ch <> [] /\ Permutation (flat ch) (eflat e).
Proof.
  intros IH Hs L1 L2 H30 Hp [Hl HS] c e Hn. specialize (HS c e Hn).
  assert (Hc : c < 32) by (apply nth_error_Some_lt in Hn; lia).
  destruct e as [k' v'|ch]; cbn [EntryOk conv] in *.
  - change chunkBits with 5%N. rewrite <- Hs.
    assert (HIe : Inv d' (p + 2 ^ s * N.of_nat c)%N emptyBitmap).
    { apply inv_empty_bitmap; try assumption; [lia|]. rewrite Hs. apply prefix_child_lt; [assumption|lia]. }
    pose proof (IH _ _ k' v' HIe ltac:(rewrite Hs; exact HS)) as A.
    destruct (assoc K V eqk hash d' emptyBitmap (shift_of d') (hash k') k' v') as [|n1 a1]; [destruct A|].
    destruct A as (I1 & P1 & _). exists n1. split; [reflexivity|]. split; [exact I1|].
    split; [eapply perm_cons_nonnil; exact P1|exact P1].
  - exists ch. destruct HS as [HI Hne]. auto.
Qed.

Lemma somes_map_length rec s (sl : list (option ent)) :
  (forall e, In (Some e) sl -> conv rec s e <> None) ->
  length (somes (map (convo rec s) sl)) = length (somes sl).
Proof.
  induction sl as [|[e|] sl IH]; intros H; cbn [map convo].
  - reflexivity.
  - destruct (conv rec s e) eqn:E.
    + unfold somes in *. cbn. f_equal. apply IH. intros e0 He0. apply H. right; exact He0.
    + exfalso. apply (H e); [left; reflexivity|exact E].
  - unfold somes in *. cbn. apply IH. intros e0 He0. apply H. right; exact He0.
Qed.

Lemma unpack_slots d' s p sl : AssocIH d' -> shift_of d' = (s + 5)%N -> 1 <= d' -> d' <= 8 ->
  (s + 5 <= 30)%N -> (p < 2 ^ s)%N -> SlotsOk (Inv d') s p sl ->
  let cs0 := map (convo (assoc K V eqk hash d') s) sl in
  SlotsOk (Inv d') s p (aslots cs0)
  /\ Permutation (sflat (aslots cs0)) (sflat sl)
  /\ length (somes cs0) = length (somes sl)
  /\ (forall c, nth_error sl c = Some None -> nth_error cs0 c = Some None)
  /\ (forall e, In (Some e) sl -> conv (assoc K V eqk hash d') s e <> None).
Proof.
  intros IH Hs L1 L2 H30 Hp HS cs0.
  pose proof (conv_ok d' s p sl IH Hs L1 L2 H30 Hp HS) as CO.
  assert (Hin : forall e, In (Some e) sl -> exists c, nth_error sl c = Some (Some e))
    by (intros e He; apply In_nth_error in He; exact He).
  split; [|split; [|split; [|split]]].
  - split.
    + unfold aslots, cs0. rewrite !map_length. apply HS.
    + intros c e' Hn. unfold cs0 in Hn. rewrite aslots_nth, nth_error_map in Hn.
      destruct (nth_error sl c) as [[e|]|] eqn:E; cbn in Hn; try discriminate.
      destruct (CO c e E) as (ch & E1 & E2 & E3 & _). rewrite E1 in Hn. cbn in Hn.
      inversion Hn; subst. cbn [EntryOk]. auto.
  - unfold sflat, aslots, cs0. rewrite map_map. apply perm_flat_map_pointwise.
    intros [e|] Hx; cbn; [|constructor].
    destruct (Hin e Hx) as [c Hc]. destruct (CO c e Hc) as (ch & E1 & _ & _ & E4). rewrite E1. exact E4.
  - apply somes_map_length. intros e He.
    destruct (Hin e He) as [c Hc]. destruct (CO c e Hc) as (ch & E1 & _). congruence.
  - intros c Hc. unfold cs0. rewrite nth_error_map, Hc. reflexivity.
  - intros e He. destruct (Hin e He) as [c Hc]. destruct (CO c e Hc) as (ch & E1 & _). congruence.
Qed.

Lemma bitmapAssoc_spec d' : AssocIH d' -> forall p bm es k v,
  Inv (S d') p (Bitmap bm es) -> (hash k mod 2 ^ shift_of (S d') = p)%N ->
  AssocPost (S d') p (Bitmap bm es) k v
    (bitmapAssoc K V eqk hash (assoc K V eqk hash d') bm es (shift_of (S d')) (hash k) k v).
Proof.
  intros IH p bm es k v HI Hk.
  pose proof (inv_level _ _ _ HI) as (L1 & L2 & L3).
  destruct (key_child d' p k L1 L2 L3 Hk) as (Hs & Hk' & Hc0 & Hp').
  pose proof (bitmap_rank_small d' p bm es HI) as Hsmall.
  set (s := shift_of (S d')) in *. set (c := chunk s (hash k)) in *.
  assert (Hc : (c < 32)%N) by apply chunk_lt.
  cbn [Inv] in HI. fold s in HI. destruct HI as (_ & Hp & Hs30 & Hbm & Hwf & HS).
  assert (Hd' : 1 <= d') by (apply shift_le30_pred; exact Hs30).
  assert (Hd8 : d' <= 8) by lia.
  pose proof (slot_other d' s p _ k _ Hs Hp HS Hk eq_refl) as Hoth. fold c in Hoth.
  pose proof (b_get bm es c Hbm Hwf Hc) as Hget.
  set (p' := (p + 2 ^ s * N.of_nat (N.to_nat c))%N) in *.
  unfold bitmapAssoc. rewrite bitpos_pow2. fold c. rewrite land_pow2_zero.
  (* the three ways to put an entry e' into the slot of a set bit *)
  assert (Replace : forall e' added, N.testbit bm c = true ->
            EntryOk (Inv d') s p (N.to_nat c) e' ->
            (forall o, nth_error (bslots bm es) (N.to_nat c) = Some o ->
               Permutation (eflat e') ((k, v) :: rem k (oflat o)) /\ added = negb (mem k (oflat o))) ->
            AssocPost (S d') p (Bitmap bm es) k v
              (ARes (Bitmap bm (replaceAt (N.to_nat (index bm (2 ^ c))) e' es)) added)).
  { intros e' added Ht HE HP. destruct (b_replace bm es c Hbm Hwf Hc e' Ht) as [R1 R2].
    destruct (HP _ Hget) as [P A]. cbn [AssocPost]. split; [|split].
    - eapply inv_bitmap_intro; try eassumption. fold s. apply SlotsOk_replace; [exact HS|exact Hc0|].
      intros e0 E0. inversion E0; subst. exact HE.
    - rewrite (flat_bitmap _ _ R2), R1, (flat_bitmap bm es Hwf). eapply lift_assoc; eauto.
    - rewrite (flat_bitmap bm es Hwf), (lift_mem k _ _ _ Hget Hoth). exact A. }
  destruct (N.testbit bm c) eqn:Ht; cbn [negb].
  - destruct (b_idx_lt bm es c Hbm Hwf Hc Ht) as [e He]. rewrite He in *.
    pose proof (proj2 HS _ _ Hget) as HE. destruct e as [k0 v0|ch]; cbn [EntryOk] in HE.
    + destruct (eqk k k0) eqn:E.
      * apply Replace; [reflexivity| |].
        -- cbn [EntryOk]. rewrite <- Hs. exact Hk'.
        -- intros o Ho. rewrite Hget in Ho. inversion Ho; subst o. cbn. rewrite E. cbn. split; reflexivity.
      * unfold createNode. change chunkBits with 5%N. rewrite <- Hs.
        destruct (hash k0 =? hash k)%N eqn:Eh.
        -- apply N.eqb_eq in Eh. apply Replace; [reflexivity| |].
           ++ cbn [EntryOk]. split; [|discriminate]. destruct d' as [|d'']; [lia|]. cbn [Inv].
              split; [lia|]. split; [exact Hp'|]. split; [rewrite Hs; exact HE|].
              split; [apply hash_bound|]. split.
              { intros k1 v1 [E1|[E1|[]]]; inversion E1; subst; [reflexivity|symmetry; exact Eh]. }
              split; [|discriminate]. cbn. rewrite (eqk_sym k0 k), E. auto.
           ++ intros o Ho. rewrite Hget in Ho. inversion Ho; subst o. cbn. rewrite E. cbn.
              split; [apply perm_swap|reflexivity].
        -- apply N.eqb_neq in Eh.
           assert (H30 : (shift_of d' <= 30)%N).
           { destruct (N.le_gt_cases (shift_of d') 30) as [L|L]; [exact L|exfalso].
             assert (32 <= shift_of d')%N by (apply shift_gt30; exact L).
             apply Eh. rewrite <- (mod_small_eq (hash k0) (shift_of d')), <- (mod_small_eq (hash k) (shift_of d'))
               by (apply hash_bound || assumption).
             rewrite Hk', Hs. exact HE. }
           assert (HIe : Inv d' p' emptyBitmap) by (apply inv_empty_bitmap; assumption).
           pose proof (IH _ _ k0 v0 HIe ltac:(rewrite Hs; exact HE)) as A1.
           destruct (assoc K V eqk hash d' emptyBitmap (shift_of d') (hash k0) k0 v0) as [|n1 a1]; [destruct A1|].
           destruct A1 as (I1 & P1 & _). cbn in P1.
           pose proof (IH _ _ k v I1 Hk') as A2.
           destruct (assoc K V eqk hash d' n1 (shift_of d') (hash k) k v) as [|n2 a2]; [destruct A2|].
           destruct A2 as (I2 & P2 & _).
           apply Replace; [reflexivity| |].
           ++ cbn [EntryOk]. split; [exact I2|eapply perm_cons_nonnil; exact P2].
           ++ intros o Ho. rewrite Hget in Ho. inversion Ho; subst o. cbn. rewrite E. cbn.
              split; [|reflexivity]. rewrite P2, (rem_perm K V eqk k _ _ P1). cbn. rewrite E. reflexivity.
    + destruct HE as [HIc Hne]. change chunkBits with 5%N. rewrite <- Hs.
      pose proof (IH _ _ k v HIc Hk') as A1.
      destruct (assoc K V eqk hash d' ch (shift_of d') (hash k) k v) as [|n1 a1]; [destruct A1|].
      destruct A1 as (I1 & P1 & A1).
      apply Replace; [reflexivity| |].
      * cbn [EntryOk]. split; [exact I1|eapply perm_cons_nonnil; exact P1].
      * intros o Ho. rewrite Hget in Ho. inversion Ho; subst o. cbn. split; [exact P1|exact A1].
  - change (N.div nodeCap 2) with 16%N.
    destruct (16 <=? N.of_nat (length es))%N eqn:E16.
    + (* unpack into an array node *)
      apply N.leb_le in E16.
      assert (Hs25 : (s <= 25)%N).
      { destruct (N.eq_dec s 30) as [E30|N30]; [specialize (Hsmall E30); lia|].
        apply shift_le25; assumption. }
      assert (H30 : (s + 5 <= 30)%N) by lia.
      change chunkBits with 5%N. rewrite <- Hs.
      assert (HIe : Inv d' p' emptyBitmap) by (apply inv_empty_bitmap; try assumption; lia).
      pose proof (IH _ _ k v HIe Hk') as A1.
      destruct (assoc K V eqk hash d' emptyBitmap (shift_of d') (hash k) k v) as [|n1 a1]; [destruct A1|].
      destruct A1 as (I1 & P1 & _). cbn in P1.
      destruct (unpack_slots d' s p _ IH Hs Hd' Hd8 H30 Hp HS) as (U1 & U2 & U3 & U4 & U5).
      unfold unpack. change (N.to_nat nodeCap) with 32.
      rewrite (unpackLoop_bslots (assoc K V eqk hash d') s bm es Hwf).
      2:{ intros e He. apply U5. apply in_somes. rewrite somes_bslots by exact Hwf. exact He. }
      fold c.
      remember (map (convo (assoc K V eqk hash d') s) (bslots bm es)) as cs0 eqn:Ecs0 in *.
      clear Ecs0.
      cbn [AssocPost]. rewrite (flat_bitmap bm es Hwf).
      pose proof (U4 (N.to_nat c) Hget) as Hc0n.
      assert (Hgeta : nth_error (aslots cs0) (N.to_nat c) = Some None)
        by (rewrite aslots_nth, Hc0n; reflexivity).
      pose proof (slot_other d' s p _ k _ Hs Hp U1 Hk eq_refl) as Hoth'. fold c in Hoth'.
      split; [|split].
      * cbn [Inv]. fold s. split; [exact L2|]. split; [exact Hp|]. split; [exact Hs25|].
        pose proof (somes_replace_length cs0 (N.to_nat c) None (Some n1) Hc0n) as SL. cbn in SL.
        assert (length (somes (bslots bm es)) = length es)
          by (rewrite somes_bslots by exact Hwf; reflexivity).
        split; [lia|]. split; [lia|].
        rewrite aslots_replace. cbn [option_map]. apply SlotsOk_replace; [exact U1|exact Hc0|].
        intros e0 E0. inversion E0; subst. cbn [EntryOk]. split; [exact I1|eapply perm_cons_nonnil; exact P1].
      * rewrite flat_array, aslots_replace. cbn [option_map].
        rewrite (lift_assoc k v _ _ None (Some (Child n1)) Hgeta Hoth' P1).
        apply perm_skip. apply rem_perm. exact U2.
      * rewrite (lift_mem k _ _ _ Hget Hoth). reflexivity.
    + (* a new leaf entry *)
      destruct (b_insert bm es c Hbm Hwf Hc (Leaf k v) Ht) as (R1 & R2 & R3).
      cbn [AssocPost]. rewrite (flat_bitmap bm es Hwf). split; [|split].
      * eapply inv_bitmap_intro; try eassumption. fold s. apply SlotsOk_replace; [exact HS|exact Hc0|].
        intros e0 E0. inversion E0; subst. cbn [EntryOk]. rewrite <- Hs. exact Hk'.
      * rewrite (flat_bitmap _ _ R2), R1. apply (lift_assoc k v _ _ None _ Hget Hoth). reflexivity.
      * rewrite (lift_mem k _ _ _ Hget Hoth). reflexivity.
Qed.

(* ---- collision nodes ---- *)
Lemma in_replaceAt {A} (x y : A) i l : In x (replaceAt i y l) -> x = y \/ In x l.
Proof.
  unfold replaceAt. intros H. apply in_app_or in H as [H|[H|H]].
  - right. rewrite <- (firstn_skipn i l). apply in_or_app. left; exact H.
  - left. congruence.
  - right. rewrite <- (firstn_skipn (S i) l). apply in_or_app. right; exact H.
Qed.

Lemma in_removeAt {A} (x : A) i l : In x (removeAt i l) -> In x l.
Proof.
  unfold removeAt. intros H. apply in_app_or in H as [H|H].
  - rewrite <- (firstn_skipn i l). apply in_or_app. left; exact H.
  - rewrite <- (firstn_skipn (S i) l). apply in_or_app. right; exact H.
Qed.

(* the entry found by findIndex, and the list around it *)
Lemma collision_split k kvs i : NoDupK kvs -> findIndex K V eqk k kvs = Some i ->
  exists k' v', nth_error kvs i = Some (k', v') /\ eqk k k' = true
    /\ rem k kvs = removeAt i kvs /\ mem k kvs = true
    /\ kvs = firstn i kvs ++ (k', v') :: skipn (S i) kvs.
Proof.
  intros ND Hf. apply findIndex_some in Hf as (k' & v' & H1 & H2 & H3 & H4).
  exists k', v'. pose proof (split_at i kvs _ H1) as Hsp.
  split; [exact H1|]. split; [exact H2|]. split; [|split; [|exact Hsp]].
  - rewrite Hsp at 1. rewrite Hsp in ND. apply NoDupK_app in ND as (_ & ND & _).
    cbn in ND. destruct ND as [ND _].
    unfold removeAt. rewrite rem_app.
    replace (rem k ((k', v') :: skipn (S i) kvs)) with (rem k (skipn (S i) kvs))
      by (cbn; rewrite H2; reflexivity).
    rewrite (rem_id K V eqk k _ H3), (rem_id K V eqk k (skipn (S i) kvs)); [reflexivity|].
    rewrite (mem_eqk K V eqk eqk_sym eqk_trans k k' _ H2). exact ND.
  - rewrite (mem_look K V eqk), H4. reflexivity.
Qed.

Lemma inv_collision_intro d p h kvs : 1 <= d -> d <= 8 -> (p < 2 ^ shift_of d)%N ->
  (h mod 2 ^ shift_of d = p)%N -> (h < 2 ^ 32)%N -> (forall k v, In (k, v) kvs -> hash k = h) ->
  NoDupK kvs -> kvs <> [] -> Inv d p (Collision h kvs).
Proof. intros. destruct d; [lia|]. cbn [Inv]. auto 10. Qed.

Lemma inv_wrap d' p h kvs k :
  Inv (S d') p (Collision h kvs) -> (hash k mod 2 ^ shift_of (S d') = p)%N -> hash k <> h ->
  Inv (S d') p (Bitmap (bitpos (shift_of (S d')) h) [Child (Collision h kvs)]).
Proof.
  intros HI Hk Hne. pose proof (inv_level _ _ _ HI) as (L1 & L2 & L3).
  pose proof HI as HI0. cbn [Inv] in HI. destruct HI as (_ & Hp & Hh & Hb & _).
  set (s := shift_of (S d')) in *.
  assert (Hs30 : (s <= 30)%N).
  { destruct (N.le_gt_cases s 30) as [L|L]; [exact L|exfalso].
    pose proof (shift_gt30 _ L) as L32. apply Hne.
    rewrite <- (mod_small_eq (hash k) s), <- (mod_small_eq h s) by (apply hash_bound || assumption).
    congruence. }
  assert (Hd' : 1 <= d') by (apply shift_le30_pred; exact Hs30).
  rewrite bitpos_pow2. set (c1 := chunk s h). assert (Hc1 : (c1 < 32)%N) by apply chunk_lt.
  assert (Hbit : N.testbit (2 ^ c1) c1 = true) by apply N.pow2_bits_true.
  assert (Hlt : (2 ^ c1 < 2 ^ 32)%N) by (apply N.pow_lt_mono_r; [reflexivity|exact Hc1]).
  assert (Hrank : rankf (N.testbit (2 ^ c1)) 32 0 = 1).
  { pose proof (eqb_pow2_rank (2 ^ c1) c1 Hlt Hc1 Hbit) as E. rewrite N.eqb_refl in E.
    symmetry in E. apply Nat.eqb_eq in E. exact E. }
  eapply inv_bitmap_intro; try eassumption; [rewrite Hrank; reflexivity|reflexivity|].
  fold s. split; [apply bslots_length|]. intros cc e Hn.
  assert (Hcc : cc < 32) by (apply nth_error_Some_lt in Hn; rewrite bslots_length in Hn; exact Hn).
  rewrite bslots_nth in Hn by (assumption || (rewrite Hrank; reflexivity)).
  rewrite N.pow2_bits_eqb in Hn. destruct (N.eqb_spec c1 (N.of_nat cc)) as [E|E]; [|discriminate].
  rewrite rankf_false in Hn.
  2:{ intros x _ Hx. apply N.pow2_bits_false. lia. }
  cbn in Hn. inversion Hn; subst e. cbn [EntryOk]. split; [|cbn; apply HI0].
  replace (N.of_nat cc) with c1 by lia. apply inv_collision_down; assumption.
Qed.

Lemma assoc_spec d : AssocIH d.
Proof.
  induction d as [|d' IH]; intros p n k v HI Hk; [destruct HI|].
  destruct n as [bm es|nc cs|h kvs].
  - cbn [assoc]. apply bitmapAssoc_spec; assumption.
  - pose proof (inv_level _ _ _ HI) as (L1 & L2 & L3).
    destruct (key_child d' p k L1 L2 L3 Hk) as (Hs & Hk' & Hc0 & Hp').
    set (s := shift_of (S d')) in *. set (c := chunk s (hash k)) in *.
    cbn [Inv] in HI. fold s in HI. destruct HI as (_ & Hp & Hs25 & Hnc & Hnc8 & HS).
    assert (Hd' : 1 <= d') by (apply shift_le30_pred; fold s; lia).
    pose proof (slot_other d' s p _ k _ Hs Hp HS Hk eq_refl) as Hoth. fold c in Hoth.
    assert (Hl : length cs = 32)
      by (destruct HS as [Hl _]; unfold aslots in Hl; rewrite map_length in Hl; exact Hl).
    destruct (slots_get cs (N.to_nat c) Hl Hc0) as [o Ho].
    assert (Hget : nth_error (aslots cs) (N.to_nat c) = Some (option_map Child o))
      by (rewrite aslots_nth, Ho; reflexivity).
    set (p' := (p + 2 ^ s * N.of_nat (N.to_nat c))%N) in *.
    cbn [assoc]. fold c. rewrite Ho. change chunkBits with 5%N. rewrite <- Hs.
    assert (Fin : forall n1 a1 nc', Inv d' p' n1 ->
              Permutation (flat n1) ((k, v) :: rem k (oflat (option_map Child o))) ->
              a1 = negb (mem k (oflat (option_map Child o))) ->
              nc' = Z.of_nat (length (somes (replaceAt (N.to_nat c) (Some n1) cs))) ->
              AssocPost (S d') p (Array nc cs) k v
                (ARes (Array nc' (replaceAt (N.to_nat c) (Some n1) cs)) a1)).
    { intros n1 a1 nc' I1 P1 A1 Enc. cbn [AssocPost]. rewrite !flat_array, aslots_replace.
      cbn [option_map]. split; [|split].
      - cbn [Inv]. fold s. split; [exact L2|]. split; [exact Hp|]. split; [exact Hs25|].
        split; [exact Enc|].
        pose proof (somes_replace_length cs (N.to_nat c) o (Some n1) Ho) as SL.
        split; [destruct o; cbn in SL; lia|].
        rewrite aslots_replace. cbn [option_map]. apply SlotsOk_replace; [exact HS|exact Hc0|].
        intros e0 E0. inversion E0; subst. cbn [EntryOk].
        split; [exact I1|eapply perm_cons_nonnil; exact P1].
      - eapply lift_assoc; eauto.
      - rewrite (lift_mem k _ _ _ Hget Hoth). exact A1. }
    pose proof (somes_replace_length cs (N.to_nat c) o) as SL.
    destruct o as [child|].
    + destruct (proj2 HS _ _ Hget) as [HIc _].
      pose proof (IH _ _ k v HIc Hk') as A1.
      destruct (assoc K V eqk hash d' child (shift_of d') (hash k) k v) as [|n1 a1]; [destruct A1|].
      destruct A1 as (I1 & P1 & A1). apply Fin; try assumption.
      specialize (SL (Some n1) Ho). cbn in SL. lia.
    + assert (HIe : Inv d' p' emptyBitmap) by (apply inv_empty_bitmap; try assumption; lia).
      pose proof (IH _ _ k v HIe Hk') as A1.
      destruct (assoc K V eqk hash d' emptyBitmap (shift_of d') (hash k) k v) as [|n1 a1]; [destruct A1|].
      destruct A1 as (I1 & P1 & _). apply Fin; try assumption; [reflexivity|].
      specialize (SL (Some n1) Ho). cbn in SL. lia.
  - pose proof (inv_level _ _ _ HI) as (L1 & L2 & L3).
    pose proof HI as HI0. cbn [Inv] in HI. destruct HI as (_ & Hp & Hh & Hb & Hkeys & ND & Hne).
    cbn [assoc]. destruct (hash k =? h)%N eqn:Eh.
    + apply N.eqb_eq in Eh. destruct (findIndex K V eqk k kvs) as [i|] eqn:Ef.
      * destruct (collision_split k kvs i ND Ef) as (k' & v' & H1 & H2 & H3 & H4 & H5).
        assert (P : Permutation (replaceAt i (k, v) kvs) ((k, v) :: rem k kvs)).
        { rewrite H3. unfold replaceAt, removeAt. symmetry. apply Permutation_middle. }
        cbn [AssocPost flat]. split; [|split; [exact P|rewrite H4; reflexivity]].
        apply inv_collision_intro; try assumption.
        -- intros k1 v1 Hin. apply in_replaceAt in Hin as [E|Hin]; [inversion E; subst k1 v1; exact Eh|eauto].
        -- eapply NoDupK_perm; [exact eqk_sym|symmetry; exact P|]. cbn.
           split; [apply mem_rem_same|apply NoDupK_rem; exact ND].
        -- eapply perm_cons_nonnil; exact P.
      * apply findIndex_none in Ef.
        assert (P : Permutation (kvs ++ [(k, v)]) ((k, v) :: rem k kvs)).
        { rewrite (rem_id K V eqk k _ Ef). symmetry. apply Permutation_cons_append. }
        cbn [AssocPost flat]. split; [|split; [exact P|rewrite Ef; reflexivity]].
        apply inv_collision_intro; try assumption.
        -- intros k1 v1 Hin. apply in_app_or in Hin as [Hin|[E|[]]]; [eauto|inversion E; subst k1 v1; exact Eh].
        -- eapply NoDupK_perm; [exact eqk_sym|symmetry; exact P|]. cbn.
           split; [apply mem_rem_same|apply NoDupK_rem; exact ND].
        -- eapply perm_cons_nonnil; exact P.
    + apply N.eqb_neq in Eh.
      pose proof (inv_wrap d' p h kvs k HI0 Hk Eh) as HIw.
      pose proof (bitmapAssoc_spec d' IH p _ _ k v HIw Hk) as A.
      destruct (bitmapAssoc K V eqk hash (assoc K V eqk hash d') (bitpos (shift_of (S d')) h)
                  [Child (Collision h kvs)] (shift_of (S d')) (hash k) k v) as [|n1 a1]; [destruct A|].
      cbn [AssocPost] in *. cbn [flat flat_map] in A. rewrite app_nil_r in A. exact A.
Qed.

(* ------------------------------------------------------------------ *)
(* without *)
Definition WithoutPost (d : nat) (p : N) (n : node) (k : K) (r : wres K V) : Prop :=
  match r with
  | WFail => False
  | WSame => mem k (flat n) = false
  | WEmpty => mem k (flat n) = true /\ rem k (flat n) = []
  | WNew n' del =>
    del = true /\ mem k (flat n) = true /\ Inv d p n'
    /\ Permutation (flat n') (rem k (flat n)) /\ flat n' <> []
  end.

Definition WithoutIH (d : nat) : Prop :=
  forall p n k, Inv d p n -> (hash k mod 2 ^ shift_of d = p)%N ->
    WithoutPost d p n k (without K V eqk d n (shift_of d) (hash k) k).

(* ---- pack ---- *)
Fixpoint maskc (i skip : N) (cs : list (option node)) : list (option node) :=
  match cs with
  | [] => []
  | x :: r => (if (i =? skip)%N then None else x) :: maskc (i + 1) skip r
  end.

Lemma maskc_id skip cs : forall i, (skip < i)%N -> maskc i skip cs = cs.
Proof.
  induction cs as [|x r IH]; intros i H; cbn [maskc]; [reflexivity|].
  destruct (N.eqb_spec i skip); [lia|]. rewrite IH by lia. reflexivity.
Qed.

Lemma maskc_replace skip cs : forall i, (i <= skip)%N -> N.to_nat (skip - i) < length cs ->
  maskc i skip cs = replaceAt (N.to_nat (skip - i)) None cs.
Proof.
  induction cs as [|x r IH]; intros i H Hl; cbn [maskc length] in *; [lia|].
  destruct (N.eqb_spec i skip) as [E|E].
  - subst. replace (N.to_nat (skip - skip)) with 0 by lia. rewrite replaceAt_0, maskc_id by lia. reflexivity.
  - replace (N.to_nat (skip - i)) with (S (N.to_nat (skip - (i + 1)))) by lia.
    rewrite replaceAt_S, IH by lia. reflexivity.
Qed.

Lemma packLoop_spec skip : forall cs i bm es, packLoop K V i skip cs = (bm, es) ->
  (forall y, N.testbit bm y = true -> (i <= y /\ y < i + N.of_nat (length cs))%N)
  /\ expandf (N.testbit bm) (length cs) i es = aslots (maskc i skip cs)
  /\ length es = rankf (N.testbit bm) (length cs) i.
Proof.
  induction cs as [|x r IH]; intros i bm es H; cbn [packLoop] in H.
  - inversion H; subst. split; [intros y Hy; rewrite N.bits_0 in Hy; discriminate|]. split; reflexivity.
  - destruct (packLoop K V (i + 1) skip r) as [bm0 es0] eqn:E.
    destruct (IH _ _ _ E) as (B & X & L).
    assert (Hi : N.testbit bm0 i = false).
    { destruct (N.testbit bm0 i) eqn:T; [|reflexivity]. apply B in T. lia. }
    assert (Keep : (bm, es) = (bm0, es0) ->
      (forall y, N.testbit bm y = true -> (i <= y /\ y < i + N.of_nat (length (x :: r)))%N)
      /\ expandf (N.testbit bm) (length (x :: r)) i es = None :: aslots (maskc (i + 1) skip r)
      /\ length es = rankf (N.testbit bm) (length (x :: r)) i).
    { intros E0. inversion E0; subst. cbn [length expandf rankf]. rewrite Hi.
      split; [intros y Hy; apply B in Hy; lia|]. split; [rewrite X; reflexivity|exact L]. }
    cbn [maskc]. destruct x as [c|].
    + revert H. destruct (N.eqb_spec i skip) as [Es|Es]; intros H; [apply Keep; congruence|].
      rewrite N.shiftl_1_l in H. inversion H; subst. cbn [length expandf rankf].
      rewrite lor_pow2_spec, N.eqb_refl, orb_true_r.
      assert (Ext : forall y, (i + 1 <= y)%N -> (y < i + 1 + N.of_nat (length r))%N ->
                N.testbit (N.lor bm0 (2 ^ i)) y = N.testbit bm0 y).
      { intros y H1 H2. rewrite lor_pow2_spec. destruct (N.eqb_spec y i); [lia|apply orb_false_r]. }
      rewrite (expandf_ext _ _ _ _ _ Ext), (rankf_ext _ _ _ _ Ext).
      split; [|split; [rewrite X; reflexivity|cbn [length]; lia]].
      intros y Hy. rewrite lor_pow2_spec in Hy. apply orb_true_iff in Hy as [Hy|Hy].
      * apply B in Hy. lia.
      * apply N.eqb_eq in Hy. lia.
    + revert H. destruct (i =? skip)%N; intros H; apply Keep; congruence.
Qed.

Lemma pack_spec d' p nc cs c0 ch :
  Inv (S d') p (Array nc cs) -> c0 < 32 -> nth_error cs c0 = Some (Some ch) ->
  exists bm es, pack K V nc cs (N.of_nat c0) = WNew (Bitmap bm es) true
    /\ (bm < 2 ^ 32)%N /\ length es = rankf (N.testbit bm) 32 0
    /\ bslots bm es = replaceAt c0 None (aslots cs) /\ Z.of_nat (length es) = (nc - 1)%Z.
Proof.
  intros HI Hc0 Hn. cbn [Inv] in HI. destruct HI as (_ & _ & _ & Hnc & _ & [Hl _]).
  unfold aslots in Hl. rewrite map_length in Hl.
  unfold pack. destruct (packLoop K V 0 (N.of_nat c0) cs) as [bm es] eqn:E.
  destruct (packLoop_spec _ _ _ _ _ E) as (B & X & L). rewrite Hl in *.
  rewrite maskc_replace in X by lia. replace (N.to_nat (N.of_nat c0 - 0)) with c0 in X by lia.
  assert (Hlen : Z.of_nat (length es) = (nc - 1)%Z).
  { rewrite <- (somes_expandf _ _ _ _ L), X, somes_aslots.
    pose proof (somes_replace_length cs c0 _ None Hn) as SL. cbn in SL. lia. }
  exists bm, es. rewrite Hlen, Z.eqb_refl. split; [reflexivity|]. split.
  - apply lt_pow2_bits. intros i Hi. destruct (N.testbit bm i) eqn:T; [|reflexivity]. apply B in T. lia.
  - split; [exact L|]. split; [|reflexivity]. unfold bslots. rewrite X. apply aslots_replace.
Qed.

(* ---- removing the entry of a set bit ---- *)
Lemma withoutEntry_spec d' p bm es k e :
  Inv (S d') p (Bitmap bm es) -> (hash k mod 2 ^ shift_of (S d') = p)%N ->
  let c := chunk (shift_of (S d')) (hash k) in
  N.testbit bm c = true ->
  nth_error (bslots bm es) (N.to_nat c) = Some (Some e) ->
  mem k (eflat e) = true -> rem k (eflat e) = [] ->
  WithoutPost (S d') p (Bitmap bm es) k
    (withoutEntry K V bm es (2 ^ c) (N.to_nat (index bm (2 ^ c)))).
Proof.
  intros HI Hk c Ht Hget Hm Hr.
  pose proof (inv_level _ _ _ HI) as (L1 & L2 & L3).
  destruct (key_child d' p k L1 L2 L3 Hk) as (Hs & Hk' & Hc0 & Hp').
  set (s := shift_of (S d')) in *. fold c in Hk', Hc0, Hp'.
  assert (Hc : (c < 32)%N) by apply chunk_lt.
  cbn [Inv] in HI. fold s in HI. destruct HI as (_ & Hp & Hs30 & Hbm & Hwf & HS).
  pose proof (slot_other d' s p _ k _ Hs Hp HS Hk eq_refl) as Hoth. fold c in Hoth.
  destruct (b_remove bm es c Hbm Hwf Hc Ht) as (R1 & R2 & R3 & R4).
  assert (P : Permutation (sflat (replaceAt (N.to_nat c) None (bslots bm es))) (rem k (sflat (bslots bm es)))).
  { apply (lift_without k _ _ _ None Hget Hoth). change (Permutation [] (rem k (eflat e))). rewrite Hr. constructor. }
  assert (Hmem : mem k (sflat (bslots bm es)) = true) by (rewrite (lift_mem k _ _ _ Hget Hoth); exact Hm).
  unfold withoutEntry. rewrite (eqb_pow2_rank bm c Hbm Hc Ht).
  destruct (rankf (N.testbit bm) 32 0 =? 1) eqn:E1.
  - apply Nat.eqb_eq in E1. cbn [WithoutPost]. rewrite (flat_bitmap bm es Hwf). split; [exact Hmem|].
    rewrite <- R1, <- (flat_bitmap _ _ R2) in P.
    assert (E0 : removeAt (N.to_nat (index bm (2 ^ c))) es = []) by (apply length_zero_iff_nil; lia).
    rewrite E0 in P. cbn [flat flat_map] in P. apply Permutation_nil in P. exact P.
  - apply Nat.eqb_neq in E1. cbn [WithoutPost]. rewrite (flat_bitmap bm es Hwf).
    assert (HS' : SlotsOk (Inv d') s p (replaceAt (N.to_nat c) None (bslots bm es)))
      by (apply SlotsOk_replace; [exact HS|exact Hc0|discriminate]).
    split; [reflexivity|]. split; [exact Hmem|]. split; [|split].
    + eapply inv_bitmap_intro; try eassumption.
    + rewrite (flat_bitmap _ _ R2), R1. exact P.
    + rewrite (flat_bitmap _ _ R2), R1. apply (slots_nonempty _ _ _ _ HS').
      rewrite <- R1, somes_bslots by exact R2.
      intros E0. rewrite E0 in R2. cbn [length] in R2. lia.
Qed.

Lemma bitmapWithout_spec d' : WithoutIH d' -> forall p bm es k,
  Inv (S d') p (Bitmap bm es) -> (hash k mod 2 ^ shift_of (S d') = p)%N ->
  WithoutPost (S d') p (Bitmap bm es) k
    (bitmapWithout K V eqk (without K V eqk d') bm es (shift_of (S d')) (hash k) k).
Proof.
  intros IH p bm es k HI Hk.
  pose proof (inv_level _ _ _ HI) as (L1 & L2 & L3).
  destruct (key_child d' p k L1 L2 L3 Hk) as (Hs & Hk' & Hc0 & Hp').
  pose proof (withoutEntry_spec d' p bm es k) as WE.
  pose proof HI as HI0.
  set (s := shift_of (S d')) in *. set (c := chunk s (hash k)) in *.
  assert (Hc : (c < 32)%N) by apply chunk_lt.
  cbn [Inv] in HI. fold s in HI. destruct HI as (_ & Hp & Hs30 & Hbm & Hwf & HS).
  pose proof (slot_other d' s p _ k _ Hs Hp HS Hk eq_refl) as Hoth. fold c in Hoth.
  pose proof (b_get bm es c Hbm Hwf Hc) as Hget.
  unfold bitmapWithout. rewrite bitpos_pow2. fold c. rewrite land_pow2_zero.
  destruct (N.testbit bm c) eqn:Ht; cbn [negb].
  - destruct (b_idx_lt bm es c Hbm Hwf Hc Ht) as [e He]. rewrite He in *.
    pose proof (proj2 HS _ _ Hget) as HE. destruct e as [k0 v0|ch]; cbn [EntryOk] in HE.
    + rewrite (eqk_sym k0 k). destruct (eqk k k0) eqn:E.
      * apply (WE _ HI0 Hk Ht Hget); cbn; rewrite E; reflexivity.
      * cbn [WithoutPost]. rewrite (flat_bitmap bm es Hwf), (lift_mem k _ _ _ Hget Hoth). cbn. rewrite E. reflexivity.
    + destruct HE as [HIc Hne]. change chunkBits with 5%N. rewrite <- Hs.
      pose proof (IH _ _ k HIc Hk') as A.
      destruct (without K V eqk d' ch (shift_of d') (hash k) k) as [| | |n1 del]; cbn [WithoutPost] in A.
      * destruct A.
      * cbn [WithoutPost]. rewrite (flat_bitmap bm es Hwf), (lift_mem k _ _ _ Hget Hoth). exact A.
      * destruct A as [A1 A2]. apply (WE _ HI0 Hk Ht Hget); assumption.
      * destruct A as (A1 & A2 & A3 & A4 & A5).
        destruct (b_replace bm es c Hbm Hwf Hc (Child n1) Ht) as [R1 R2].
        cbn [WithoutPost]. rewrite (flat_bitmap bm es Hwf).
        split; [exact A1|]. split; [rewrite (lift_mem k _ _ _ Hget Hoth); exact A2|]. split; [|split].
        -- eapply inv_bitmap_intro; try eassumption. fold s.
           apply SlotsOk_replace; [exact HS|exact Hc0|].
           intros e0 E0. inversion E0; subst. cbn [EntryOk]. auto.
        -- rewrite (flat_bitmap _ _ R2), R1. apply (lift_without k _ _ _ _ Hget Hoth). exact A4.
        -- rewrite (flat_bitmap _ _ R2), R1. intros E0.
           pose proof (sflat_replace (bslots bm es) (N.to_nat c) (Some (Child n1))) as P.
           rewrite E0 in P. apply Permutation_nil in P. apply app_eq_nil in P as [P _]. exact (A5 P).
  - cbn [WithoutPost]. rewrite (flat_bitmap bm es Hwf), (lift_mem k _ _ _ Hget Hoth). reflexivity.
Qed.

Lemma removeAt_length {A} i (l : list A) : i < length l -> length (removeAt i l) = length l - 1.
Proof. intros H. unfold removeAt. rewrite app_length, firstn_length, skipn_length. lia. Qed.

Lemma without_spec d : WithoutIH d.
Proof.
  induction d as [|d' IH]; intros p n k HI Hk; [destruct HI|].
  destruct n as [bm es|nc cs|h kvs].
  - cbn [without]. apply bitmapWithout_spec; assumption.
  - pose proof (inv_level _ _ _ HI) as (L1 & L2 & L3).
    destruct (key_child d' p k L1 L2 L3 Hk) as (Hs & Hk' & Hc0 & Hp').
    pose proof HI as HI0.
    set (s := shift_of (S d')) in *. set (c := chunk s (hash k)) in *.
    cbn [Inv] in HI. fold s in HI. destruct HI as (_ & Hp & Hs25 & Hnc & Hnc8 & HS).
    pose proof (slot_other d' s p _ k _ Hs Hp HS Hk eq_refl) as Hoth. fold c in Hoth.
    assert (Hl : length cs = 32)
      by (destruct HS as [Hl _]; unfold aslots in Hl; rewrite map_length in Hl; exact Hl).
    destruct (slots_get cs (N.to_nat c) Hl Hc0) as [o Ho].
    assert (Hget : nth_error (aslots cs) (N.to_nat c) = Some (option_map Child o))
      by (rewrite aslots_nth, Ho; reflexivity).
    cbn [without]. fold c. rewrite Ho.
    destruct o as [child|].
    2:{ cbn [WithoutPost]. rewrite flat_array, (lift_mem k _ _ _ Hget Hoth). reflexivity. }
    change chunkBits with 5%N. rewrite <- Hs. cbn [option_map] in Hget.
    destruct (proj2 HS _ _ Hget) as [HIc Hnec].
    pose proof (IH _ _ k HIc Hk') as A.
    pose proof (somes_replace_length cs (N.to_nat c) _ None Ho) as SLn. cbn in SLn.
    destruct (without K V eqk d' child (shift_of d') (hash k) k) as [| | |n1 del]; cbn [WithoutPost] in A.
    + destruct A.
    + cbn [WithoutPost]. rewrite flat_array, (lift_mem k _ _ _ Hget Hoth). exact A.
    + destruct A as [A1 A2]. change (Z.of_N (N.div nodeCap 4)) with 8%Z.
      assert (P : Permutation (sflat (replaceAt (N.to_nat c) None (aslots cs))) (rem k (sflat (aslots cs)))).
      { apply (lift_without k _ _ _ None Hget Hoth). change (Permutation [] (rem k (flat child))).
        rewrite A2. constructor. }
      assert (Hmem : mem k (sflat (aslots cs)) = true) by (rewrite (lift_mem k _ _ _ Hget Hoth); exact A1).
      assert (HS' : SlotsOk (Inv d') s p (replaceAt (N.to_nat c) None (aslots cs)))
        by (apply SlotsOk_replace; [exact HS|exact Hc0|discriminate]).
      destruct (nc <=? 8)%Z eqn:E8.
      * destruct (pack_spec d' p nc cs (N.to_nat c) child HI0 Hc0 Ho) as (bm & es & E & Hbm & Hwf & Hsl & Hlen).
        rewrite N2Nat.id in E. rewrite E. cbn [WithoutPost]. rewrite flat_array.
        split; [reflexivity|]. split; [exact Hmem|]. split; [|split].
        -- eapply inv_bitmap_intro; try eassumption. fold s. lia.
        -- rewrite (flat_bitmap _ _ Hwf), Hsl. exact P.
        -- rewrite (flat_bitmap _ _ Hwf), Hsl. apply (slots_nonempty _ _ _ _ HS').
           rewrite <- Hsl, somes_bslots by exact Hwf. intros E0. rewrite E0 in Hlen. cbn [length] in Hlen. lia.
      * apply Z.leb_gt in E8. cbn [WithoutPost]. rewrite !flat_array, aslots_replace. cbn [option_map].
        split; [reflexivity|]. split; [exact Hmem|]. split; [|split; [exact P|]].
        -- cbn [Inv]. fold s. split; [exact L2|]. split; [exact Hp|]. split; [exact Hs25|].
           split; [lia|]. split; [lia|]. rewrite aslots_replace. exact HS'.
        -- apply (slots_nonempty _ _ _ _ HS'). intros E0.
           pose proof (somes_aslots (replaceAt (N.to_nat c) None cs)) as SA.
           rewrite aslots_replace in SA. cbn [option_map] in SA. rewrite E0 in SA. cbn [length] in SA. lia.
    + destruct A as (A1 & A2 & A3 & A4 & A5).
      pose proof (somes_replace_length cs (N.to_nat c) _ (Some n1) Ho) as SL. cbn in SL.
      cbn [WithoutPost]. rewrite !flat_array, aslots_replace. cbn [option_map].
      split; [reflexivity|]. split; [rewrite (lift_mem k _ _ _ Hget Hoth); exact A2|]. split; [|split].
      * cbn [Inv]. fold s. split; [exact L2|]. split; [exact Hp|]. split; [exact Hs25|].
        split; [lia|]. split; [lia|]. rewrite aslots_replace. cbn [option_map].
        apply SlotsOk_replace; [exact HS|exact Hc0|].
        intros e0 E0. inversion E0; subst. cbn [EntryOk]. auto.
      * apply (lift_without k _ _ _ _ Hget Hoth). exact A4.
      * intros E0. pose proof (sflat_replace (aslots cs) (N.to_nat c) (Some (Child n1))) as P.
        rewrite E0 in P. apply Permutation_nil in P. apply app_eq_nil in P as [P _]. exact (A5 P).
  - pose proof (inv_level _ _ _ HI) as (L1 & L2 & L3).
    cbn [Inv] in HI. destruct HI as (_ & Hp & Hh & Hb & Hkeys & ND & Hne).
    cbn [without]. destruct (findIndex K V eqk k kvs) as [i|] eqn:Ef.
    + destruct (collision_split k kvs i ND Ef) as (k' & v' & H1 & H2 & H3 & H4 & H5).
      pose proof (nth_error_Some_lt _ _ _ H1) as Hi.
      pose proof (removeAt_length i kvs Hi) as RL.
      destruct (length kvs =? 1) eqn:E1.
      * apply Nat.eqb_eq in E1. cbn [WithoutPost flat]. split; [exact H4|].
        rewrite H3. apply length_zero_iff_nil. lia.
      * apply Nat.eqb_neq in E1. cbn [WithoutPost flat]. split; [reflexivity|]. split; [exact H4|].
        split; [|split; [rewrite H3; reflexivity|]].
        -- apply inv_collision_intro; try assumption.
           ++ intros k1 v1 Hin. apply in_removeAt in Hin. eauto.
           ++ rewrite <- H3. apply NoDupK_rem. exact ND.
           ++ intros E0. rewrite E0 in RL. cbn [length] in RL. lia.
        -- intros E0. rewrite E0 in RL. cbn [length] in RL. lia.
    + apply findIndex_none in Ef. cbn [WithoutPost flat]. exact Ef.
Qed.

(* ------------------------------------------------------------------ *)
(* the map: nil-key slot, count, iteration *)
Notation eqok := (eqo eqk).
Notation omem := (s_mem eqok).
Notation orem := (s_remove eqok).
Notation olook := (s_lookup eqok).
Notation ONoDupK := (C07_lists.NoDupK eqok).
Notation lift := (fun kv : K * V => (Some (fst kv), snd kv)).

Lemma eqo_refl a : eqok a a = true.
Proof. destruct a; cbn; auto. Qed.
Lemma eqo_sym a b : eqok a b = eqok b a.
Proof. destruct a, b; cbn; auto. Qed.
Lemma eqo_trans a b c : eqok a b = true -> eqok b c = true -> eqok a c = true.
Proof. destruct a, b, c; cbn; try discriminate; eauto. Qed.

Lemma olook_lift k l : olook (Some k) (map lift l) = look k l.
Proof. induction l as [|[k0 v0] l IH]; cbn; [reflexivity|]. rewrite IH. reflexivity. Qed.
Lemma olook_lift_none l : olook None (map lift l) = None.
Proof. induction l as [|[k0 v0] l IH]; cbn; auto. Qed.
Lemma omem_lift k l : omem (Some k) (map lift l) = mem k l.
Proof. induction l as [|[k0 v0] l IH]; simpl; [reflexivity|]. f_equal. exact IH. Qed.
Lemma omem_lift_none l : omem None (map lift l) = false.
Proof. induction l as [|[k0 v0] l IH]; cbn; auto. Qed.
Lemma orem_lift k l : orem (Some k) (map lift l) = map lift (rem k l).
Proof.
  induction l as [|[k0 v0] l IH]; simpl; [reflexivity|].
  destruct (eqk k k0); simpl; [exact IH|f_equal; exact IH].
Qed.
Lemma orem_lift_none l : orem None (map lift l) = map lift l.
Proof. induction l as [|[k0 v0] l IH]; simpl; [reflexivity|]. f_equal. exact IH. Qed.
Lemma ONoDupK_lift l : NoDupK l -> ONoDupK (map lift l).
Proof.
  induction l as [|[k0 v0] l IH]; cbn; [auto|]. intros [H1 H2]. split; [|auto].
  rewrite omem_lift. exact H1.
Qed.

Definition nilpart (m : hmap K V) : list (option K * V) :=
  match nilV m with Some v => [(None, v)] | None => [] end.

Lemma Iter_eq m : Iter m = nilpart m ++ map lift (flat (root m)).
Proof. reflexivity. Qed.

Definition MapInv (m : hmap K V) : Prop :=
  Inv 8 0 (root m) /\ count m = Z.of_nat (length (Iter m)).

Lemma inv_empty_root : Inv 8 0 emptyBitmap.
Proof. apply inv_empty_bitmap; [lia|lia|change (shift_of 8) with 0%N; lia|reflexivity]. Qed.

Lemma MapInv_empty : MapInv empty.
Proof. split; [exact inv_empty_root|reflexivity]. Qed.

Lemma Iter_nodup m : MapInv m -> ONoDupK (Iter m).
Proof.
  intros [HI _]. rewrite Iter_eq. pose proof (ONoDupK_lift _ (inv_nodup _ _ _ HI)) as ND.
  unfold nilpart. destruct (nilV m); cbn; [|exact ND]. split; [apply omem_lift_none|exact ND].
Qed.

Lemma key_root k : (hash k mod 2 ^ shift_of 8 = 0)%N.
Proof. change (shift_of 8) with 0%N. apply N.mod_1_r. Qed.

Lemma Index_spec m ko : MapInv m ->
  Index K V eqk hash m ko = FRes (olook ko (Iter m)).
Proof.
  intros [HI _]. rewrite Iter_eq. unfold nilpart. destruct ko as [k|]; cbn [Index].
  - change fuel0 with 8. change 0%N with (shift_of 8) at 1.
    rewrite (find_spec 8 0%N (root m) k HI (key_root k)).
    destruct (nilV m); cbn; rewrite olook_lift; reflexivity.
  - destruct (nilV m); cbn; [reflexivity|]. rewrite olook_lift_none. reflexivity.
Qed.

Lemma Assoc_spec m ko v : MapInv m ->
  exists m', Assoc K V eqk hash m ko v = Some m' /\ MapInv m'
    /\ Permutation (Iter m') ((ko, v) :: orem ko (Iter m)).
Proof.
  intros [HI Hc]. destruct ko as [k|]; cbn [Assoc].
  - change fuel0 with 8. change 0%N with (shift_of 8) at 1.
    pose proof (assoc_spec 8 0%N (root m) k v HI (key_root k)) as A.
    destruct (assoc K V eqk hash 8 (root m) (shift_of 8) (hash k) k v) as [|r added]; [destruct A|].
    destruct A as (I1 & P1 & A1). eexists. split; [reflexivity|].
    pose proof (rem_length K V eqk eqk_sym eqk_trans k _ (inv_nodup _ _ _ HI)) as RL.
    pose proof (Permutation_length P1) as PL. cbn [length] in PL.
    assert (Hn : nilpart {| count := if added then (count m + 1)%Z else count m; root := r; nilV := nilV m |}
                 = nilpart m) by reflexivity.
    split; [split; [exact I1|]|].
    + rewrite Iter_eq, Hn. cbn [root count]. rewrite Iter_eq in Hc. rewrite app_length, map_length in *.
      subst added. revert RL. destruct (mem k (flat (root m))); intros RL; cbn [negb]; lia.
    + rewrite !Iter_eq, Hn. cbn [root]. unfold s_remove. rewrite filter_app. fold (orem (Some k) (nilpart m)).
      fold (orem (Some k) (map lift (flat (root m)))). rewrite orem_lift.
      replace (orem (Some k) (nilpart m)) with (nilpart m)
        by (unfold nilpart; destruct (nilV m); reflexivity).
      rewrite (Permutation_map lift P1). cbn [map fst snd]. symmetry. apply Permutation_middle.
  - eexists. split; [reflexivity|]. rewrite Iter_eq in Hc.
    split; [split; [exact HI|]|].
    + rewrite Iter_eq. unfold nilpart in *. cbn [nilV root count].
      destruct (nilV m); cbn [app length] in *; lia.
    + rewrite !Iter_eq. unfold nilpart at 1. cbn [nilV root].
      unfold s_remove. rewrite filter_app. fold (orem None (nilpart m)).
      fold (orem None (map lift (flat (root m)))). rewrite orem_lift_none.
      replace (orem None (nilpart m)) with (@nil (option K * V))
        by (unfold nilpart; destruct (nilV m); reflexivity).
      reflexivity.
Qed.

Lemma Dissoc_spec m ko : MapInv m ->
  exists m', Dissoc K V eqk hash m ko = Some m' /\ MapInv m'
    /\ Permutation (Iter m') (orem ko (Iter m)).
Proof.
  intros [HI Hc]. destruct ko as [k|]; cbn [Dissoc].
  - change fuel0 with 8. change 0%N with (shift_of 8) at 1.
    pose proof (without_spec 8 0%N (root m) k HI (key_root k)) as A.
    pose proof (rem_length K V eqk eqk_sym eqk_trans k _ (inv_nodup _ _ _ HI)) as RL.
    assert (Hrem : orem (Some k) (Iter m) = nilpart m ++ map lift (rem k (flat (root m)))).
    { rewrite Iter_eq. unfold s_remove. rewrite filter_app. fold (orem (Some k) (nilpart m)).
      fold (orem (Some k) (map lift (flat (root m)))). rewrite orem_lift.
      f_equal. unfold nilpart; destruct (nilV m); reflexivity. }
    rewrite Hrem. rewrite Iter_eq, app_length, map_length in Hc.
    destruct (without K V eqk 8 (root m) (shift_of 8) (hash k) k) as [| | |r del]; cbn [WithoutPost] in A.
    + destruct A.
    + eexists. split; [reflexivity|]. rewrite (rem_id K V eqk k _ A).
      split; [split; [exact HI|]|reflexivity].
      rewrite Iter_eq, app_length, map_length. exact Hc.
    + destruct A as [A1 A2]. eexists. split; [reflexivity|]. rewrite A2 in *. rewrite A1 in RL.
      split; [split; [exact inv_empty_root|]|].
      * rewrite Iter_eq. cbn [root count nilV]. unfold nilpart in *. cbn [nilV flat emptyBitmap flat_map map].
        rewrite app_length. cbn [length] in *. lia.
      * rewrite Iter_eq. reflexivity.
    + destruct A as (A1 & A2 & A3 & A4 & _). subst del. eexists. split; [reflexivity|].
      pose proof (Permutation_length A4) as PL. rewrite A2 in RL.
      split; [split; [exact A3|]|].
      * rewrite Iter_eq. cbn [root count nilV]. unfold nilpart in *. cbn [nilV].
        rewrite app_length, map_length. lia.
      * rewrite Iter_eq. cbn [root]. apply Permutation_app_head. apply Permutation_map. exact A4.
  - eexists. split; [reflexivity|]. rewrite Iter_eq in Hc.
    assert (Hrem : orem None (Iter m) = map lift (flat (root m))).
    { rewrite Iter_eq. unfold s_remove. rewrite filter_app. fold (orem None (nilpart m)).
      fold (orem None (map lift (flat (root m)))). rewrite orem_lift_none.
      unfold nilpart; destruct (nilV m); reflexivity. }
    rewrite Hrem. split; [split; [exact HI|]|reflexivity].
    rewrite Iter_eq. unfold nilpart in *. cbn [nilV root count].
    destruct (nilV m); cbn [app length] in *; lia.
Qed.

(* ---- histories over a version store ---- *)
Definition Rel (m : hmap K V) (s : smap (option K) V) : Prop :=
  MapInv m /\ Permutation (Iter m) s.

Lemma Rel_step ms ss o : Forall2 Rel ms ss ->
  exists ms', m_step eqk hash ms o = Some ms' /\ Forall2 Rel ms' (s_step eqk ss o).
Proof.
  intros F.
  assert (Hnth : forall i, match nth_error ms i, nth_error ss i with
                           | Some m, Some s => Rel m s | None, None => True | _, _ => False end).
  { clear o. induction F as [|m0 s0 ms0 ss0 H0 F0 IH0]; intros [|i]; cbn; [exact I|exact I|exact H0|apply IH0]. }
  destruct o as [ver ko v|ver ko]; cbn [m_step s_step]; specialize (Hnth ver);
    destruct (nth_error ms ver) as [m|], (nth_error ss ver) as [s|]; try contradiction;
    try (exists ms; split; [reflexivity|exact F]); destruct Hnth as [HM HP].
  - destruct (Assoc_spec m ko v HM) as (m' & E & HM' & P'). rewrite E. cbn [option_map].
    eexists. split; [reflexivity|]. apply Forall2_app; [exact F|]. constructor; [|constructor].
    split; [exact HM'|]. rewrite P'. unfold s_assoc. apply perm_skip.
    apply (rem_perm (option K) V eqok). exact HP.
  - destruct (Dissoc_spec m ko HM) as (m' & E & HM' & P'). rewrite E. cbn [option_map].
    eexists. split; [reflexivity|]. apply Forall2_app; [exact F|]. constructor; [|constructor].
    split; [exact HM'|]. rewrite P'. unfold s_dissoc. apply (rem_perm (option K) V eqok). exact HP.
Qed.

Lemma Rel_run ops : forall ms ss, Forall2 Rel ms ss ->
  exists ms', m_run eqk hash ms ops = Some ms' /\ Forall2 Rel ms' (s_run eqk ss ops).
Proof.
  induction ops as [|o ops IH]; intros ms ss F; cbn [m_run s_run fold_left].
  - exists ms. auto.
  - destruct (Rel_step ms ss o F) as (ms1 & E & F1). rewrite E. apply IH. exact F1.
Qed.

(* what a related pair (map, reference dictionary) shows *)
Definition VSpec (s : smap (option K) V) (m : hmap K V) : Prop :=
  Len m = Z.of_nat (length s)
  /\ (forall ko, Index K V eqk hash m ko = FRes (olook ko s))
  /\ Permutation (Iter m) s
  /\ ONoDupK (Iter m).

Lemma Rel_VSpec m s : Rel m s -> VSpec s m.
Proof.
  intros [HM HP]. pose proof (Iter_nodup m HM) as ND. split; [|split; [|split]].
  - destruct HM as [_ Hc]. unfold Len. rewrite Hc, (Permutation_length HP). reflexivity.
  - intros ko. rewrite (Index_spec m ko HM). f_equal.
    apply (look_perm (option K) V eqok eqo_sym eqo_trans ko _ _ ND HP).
  - exact HP.
  - exact ND.
Qed.

Lemma history_refines ops :
  exists ms, m_run eqk hash [empty] ops = Some ms
    /\ Forall2 (fun m s => VSpec s m) ms (s_run eqk [[]] ops).
Proof.
  assert (F0 : Forall2 Rel [empty] [[]]).
  { constructor; [|constructor]. split; [exact MapInv_empty|reflexivity]. }
  destruct (Rel_run ops [empty] [[]] F0) as (ms & E & F).
  exists ms. split; [exact E|]. clear E F0. induction F; constructor; auto using Rel_VSpec.
Qed.

Lemma find_assoc_thm m ko v ko' : MapInv m ->
  exists m', Assoc K V eqk hash m ko v = Some m' /\ MapInv m' /\
    Index K V eqk hash m' ko' = if eqok ko' ko then FRes (Some v) else Index K V eqk hash m ko'.
Proof.
  intros HM. destruct (Assoc_spec m ko v HM) as (m' & E & HM' & P). exists m'. split; [exact E|].
  split; [exact HM'|]. rewrite (Index_spec m' ko' HM'), (Index_spec m ko' HM).
  rewrite (look_perm (option K) V eqok eqo_sym eqo_trans ko' _ _ (Iter_nodup m' HM') P). cbn [s_lookup].
  destruct (eqok ko' ko) eqn:E1; [reflexivity|]. f_equal.
  apply (look_rem_other (option K) V eqok eqo_sym eqo_trans). rewrite eqo_sym. exact E1.
Qed.

Lemma find_without_thm m ko ko' : MapInv m ->
  exists m', Dissoc K V eqk hash m ko = Some m' /\ MapInv m' /\
    Index K V eqk hash m' ko' = if eqok ko' ko then FRes None else Index K V eqk hash m ko'.
Proof.
  intros HM. destruct (Dissoc_spec m ko HM) as (m' & E & HM' & P). exists m'. split; [exact E|].
  split; [exact HM'|]. rewrite (Index_spec m' ko' HM'), (Index_spec m ko' HM).
  rewrite (look_perm (option K) V eqok eqo_sym eqo_trans ko' _ _ (Iter_nodup m' HM') P).
  destruct (eqok ko' ko) eqn:E1.
  - f_equal. rewrite <- (rem_eqk (option K) V eqok eqo_sym eqo_trans ko' ko _ E1).
    apply (look_rem_same (option K) V eqok).
  - f_equal. apply (look_rem_other (option K) V eqok eqo_sym eqo_trans). rewrite eqo_sym. exact E1.
Qed.

Lemma iter_find m : MapInv m -> forall ko, Index K V eqk hash m ko = FRes (olook ko (Iter m)).
Proof. intros HM ko. apply Index_spec. exact HM. Qed.

(* earlier versions stay what they were: the store only grows at the end *)
Lemma m_run_prefix ops : forall ms ms' : list (hmap K V), m_run eqk hash ms ops = Some ms' ->
  exists tl, ms' = ms ++ tl.
Proof.
  induction ops as [|o ops IH]; intros ms ms' H; cbn [m_run] in H.
  - inversion H. exists []. rewrite app_nil_r. reflexivity.
  - destruct (m_step eqk hash ms o) as [ms1|] eqn:E; [|discriminate].
    destruct (IH _ _ H) as [tl Htl].
    assert (exists t1, ms1 = ms ++ t1) as [t1 Ht1].
    { destruct o as [ver ko v|ver ko]; cbn [m_step] in E; destruct (nth_error ms ver).
      - destruct (Assoc K V eqk hash h ko v); cbn in E; inversion E. eauto.
      - inversion E. exists []. rewrite app_nil_r. reflexivity.
      - destruct (Dissoc K V eqk hash h ko); cbn in E; inversion E. eauto.
      - inversion E. exists []. rewrite app_nil_r. reflexivity. }
    exists (t1 ++ tl). rewrite Htl, Ht1, app_assoc. reflexivity.
Qed.

End Node.
