(* C23 — the theorems about the executable model (decoder = lib/Utf8.decode_rune):
   instantiation of the element-level and path-level results, the filter /
   nomatch behaviour of doGlob, and the refutation witnesses. *)
From verif Require Import lib.Base lib.Utf8 model.C23 proofs.C23_proofs proofs.C23_glob_proofs.
Open Scope nat_scope.

Lemma decode_rune_progress s : s <> [] -> 1 <= snd (decode_rune s) <= length s.
Proof.
  intros Hne. unfold decode_rune. destruct s as [|p0 r1]; [congruence|].
  destruct (p0 <? 128)%N; [simpl; lia|].
  destruct (first_info p0) as [[[sz lo] hi]|]; [|simpl; lia].
  destruct r1 as [|b1 r2]; [simpl; lia|].
  destruct ((b1 <? lo)%N || (hi <? b1)%N); [simpl; lia|].
  destruct sz as [|[|[|sz]]]; try (simpl; lia).
  - destruct r2 as [|b2 r3]; [simpl; lia|]. destruct (negb (is_cont b2)); [simpl; lia|].
    destruct r3 as [|b3 r4]; [simpl; lia|]. destruct (negb (is_cont b3)); simpl; lia.
  - destruct r2 as [|b2 r3]; [simpl; lia|]. destruct (negb (is_cont b2)); [simpl; lia|].
    destruct r3 as [|b3 r4]; [simpl; lia|]. destruct (negb (is_cont b3)); simpl; lia.
  - destruct r2 as [|b2 r3]; [simpl; lia|]. destruct (negb (is_cont b2)); [simpl; lia|].
    destruct sz as [|sz]; [simpl; lia|].
    destruct r3 as [|b3 r4]; [simpl; lia|]. destruct (negb (is_cont b3)); simpl; lia.
Qed.

(* the specification, with the concrete decoder *)
Definition ElemSpec := ElemMatches dec.
Definition ElemSpec0 := ElemMatches0 dec.
Definition PathSpec (fs : fsys) := PathMatches fs ElemSpec.
Definition PathSpec0 (fs : fsys) := PathMatches fs ElemSpec0.

Definition TopSpec (PS : list seg -> bytes -> entry -> Prop) (segs : list seg) (e : entry) : Prop :=
  match segs with
  | Slash :: rest => PS rest [SL] e
  | _ => PS segs [] e
  end.

Lemma ref_elem_iff segs name : ref_elem dec segs name = true <-> ElemSpec segs name.
Proof. apply ref_elem_spec. exact decode_rune_progress. Qed.

(* the reference enumeration yields exactly the specified paths *)
Lemma ref_glob_spec fs fuel segs dir l : ref_glob fuel fs segs dir = Some l ->
  forall e, In e l <-> PathSpec fs segs dir e.
Proof.
  intros H e. split.
  - intros Hin. pose proof (glob_gen_sound fs (ref_elem dec) _ _ _ _ H e Hin) as Hp.
    eapply PathMatches_mono with (Q := fun _ => True); [|exact Hp|apply Forall_forall; auto].
    intros s n _ Hs. apply ref_elem_iff, Hs.
  - intros Hp. eapply (glob_gen_complete fs (ref_elem dec)); [|exact H].
    eapply PathMatches_mono with (Q := fun _ => True); [|exact Hp|apply Forall_forall; auto].
    intros s n _ Hs. apply ref_elem_iff, Hs.
Qed.

Lemma ref_pattern_glob_spec fs fuel segs l : ref_pattern_glob fuel fs segs = Some l ->
  forall e, In e l <-> TopSpec (PathSpec fs) segs e.
Proof.
  unfold ref_pattern_glob, pattern_glob_gen, TopSpec. intros H e.
  destruct segs as [|[d| |w] tl]; eapply ref_glob_spec; exact H.
Qed.

(* ---- soundness of the model ---- *)
Definition seg_no_empty_lit (s : seg) : Prop := s <> Lit [].

Lemma glob_sound_weak fs fuel segs dir l : Forall seg_no_empty_lit segs ->
  glob fuel fs segs dir = Some l -> forall e, In e l -> PathSpec0 fs segs dir e.
Proof.
  intros Hn H e Hin. pose proof (glob_gen_sound fs (matchElement dec) _ _ _ _ H e Hin) as Hp.
  eapply PathMatches_mono with (Q := seg_no_empty_lit); [|exact Hp|exact Hn].
  intros s n Hs Hm. apply match_element_sound_weak; assumption.
Qed.

Definition hidden_uniform (segs : list seg) : Prop :=
  Forall wild_hidden segs \/ Forall no_hidden_star segs.

Lemma glob_sound_partial fs fuel segs dir l : Forall seg_no_empty_lit segs -> hidden_uniform segs ->
  glob fuel fs segs dir = Some l -> forall e, In e l -> PathSpec fs segs dir e.
Proof.
  intros Hn Hu H e Hin. pose proof (glob_gen_sound fs (matchElement dec) _ _ _ _ H e Hin) as Hp.
  destruct Hu as [Hu|Hu].
  - eapply PathMatches_mono with (Q := fun s => seg_no_empty_lit s /\ wild_hidden s); [|exact Hp|].
    + intros s n Hs Hm. apply match_element_sound_partial; [| |exact Hm].
      * eapply Forall_impl; [|exact Hs]. intros a [Ha _]; exact Ha.
      * left. eapply Forall_impl; [|exact Hs]. intros a [_ Ha]; exact Ha.
    + apply Forall_forall. intros x Hx. split; [eapply Forall_forall in Hn|eapply Forall_forall in Hu]; eauto.
  - eapply PathMatches_mono with (Q := fun s => seg_no_empty_lit s /\ no_hidden_star s); [|exact Hp|].
    + intros s n Hs Hm. apply match_element_sound_partial; [| |exact Hm].
      * eapply Forall_impl; [|exact Hs]. intros a [Ha _]; exact Ha.
      * right. eapply Forall_impl; [|exact Hs]. intros a [_ Ha]; exact Ha.
    + apply Forall_forall. intros x Hx. split; [eapply Forall_forall in Hn|eapply Forall_forall in Hu]; eauto.
Qed.

(* ---- completeness of the model, relative to completeness of the element
   matcher on the segments allowed by Q ---- *)
Definition ElemComplete (Q : seg -> Prop) : Prop :=
  forall s n, Forall Q s -> ElemSpec s n -> matchElement dec s n = true.

Lemma glob_complete_rel (Q : seg -> Prop) fs fuel segs dir l : ElemComplete Q -> Forall Q segs ->
  glob fuel fs segs dir = Some l -> forall e, PathSpec fs segs dir e -> In e l.
Proof.
  intros Hc HQ H e Hp. eapply (glob_gen_complete fs (matchElement dec)); [|exact H].
  eapply PathMatches_mono with (Q := Q); [|exact Hp|exact HQ].
  intros s n Hs Hm. apply Hc; assumption.
Qed.

(* ---- doGlob: but / type filters and the nomatch rule ---- *)
Lemma filter_out_spec type_ok g l :
  let keep := fun e : entry => negb (mem (fst e) (g_buts g)) && type_ok (g_type g) (snd e) in
  (filter_out type_ok g l = ONoMatch <-> filter keep l = [] /\ g_nomatch_ok g = false) /\
  (forall vs, filter_out type_ok g l = OPaths vs -> vs = map fst (filter keep l)).
Proof.
  intros keep. unfold filter_out. fold keep.
  destruct (filter keep l) as [|x r] eqn:Ef; simpl.
  - destruct (g_nomatch_ok g); simpl; split.
    + split; [discriminate|intros [_ H]; discriminate].
    + intros vs H; inversion H; reflexivity.
    + split; [auto|reflexivity].
    + intros vs H; discriminate.
  - split.
    + split; [discriminate|intros [H _]; discriminate].
    + intros vs H; inversion H; reflexivity.
Qed.

Lemma nomatch_raises_unless_ok fuel fs g o : doGlob fuel fs g = Some o ->
  exists l, pattern_glob fuel fs (g_segs g) = Some l /\
  let kept := filter (fun e : entry => negb (mem (fst e) (g_buts g)) && type_ok_impl (g_type g) (snd e)) l in
  (o = ONoMatch <-> kept = [] /\ g_nomatch_ok g = false) /\
  (o <> ONoMatch -> o = OPaths (map fst kept)).
Proof.
  unfold doGlob. destruct (pattern_glob fuel fs (g_segs g)) as [l|]; [|discriminate].
  intros H; inversion H; subst; clear H. exists l. split; [reflexivity|].
  destruct (filter_out_spec type_ok_impl g l) as [H1 H2]. split; [exact H1|].
  intros Hne. unfold filter_out in *.
  destruct (is_nil _ && negb (g_nomatch_ok g)); [congruence|reflexivity].
Qed.

Lemma mem_spec p l : mem p l = true <-> In p l.
Proof.
  unfold mem. rewrite existsb_exists. split.
  - intros (x & Hx & E). apply bytes_eqb_spec in E; subst; exact Hx.
  - intros H. exists p. split; [exact H|apply bytes_eqb_refl].
Qed.

Lemma but_type_filter fuel fs g vs : doGlob fuel fs g = Some (OPaths vs) ->
  exists l, pattern_glob fuel fs (g_segs g) = Some l /\
  forall p, In p vs <-> exists k, In (p, k) l /\ ~ In p (g_buts g) /\ type_ok_impl (g_type g) k = true.
Proof.
  intros H. destruct (nomatch_raises_unless_ok _ _ _ _ H) as (l & Hl & _ & H2).
  exists l. split; [exact Hl|]. specialize (H2 ltac:(discriminate)). inversion H2; subst; clear H2.
  intros p. rewrite in_map_iff. split.
  - intros ([p' k] & E & Hin). simpl in E; subst p'. apply filter_In in Hin as [Hin Hk]. simpl in Hk.
    apply andb_true_iff in Hk as [Hk1 Hk2]. exists k. repeat split; [exact Hin| |exact Hk2].
    intros Hb. apply mem_spec in Hb. rewrite Hb in Hk1. discriminate.
  - intros (k & Hin & Hb & Ht). exists (p, k). split; [reflexivity|]. apply filter_In. split; [exact Hin|].
    simpl. rewrite Ht. destruct (mem p (g_buts g)) eqn:Em; [apply mem_spec in Em; contradiction|reflexivity].
Qed.

(* ------------------------------------------------------------------ *)
(* refutation witnesses *)

Definition b_ (l : list N) : bytes := l.
Definition wStar := mkWild Star false [].
Definition wSS := mkWild StarStar false [].

(* *b*[set:c]d  against  bxbcd *)
Definition wit_segs_greedy : list seg :=
  [Wild wStar; Lit [98%N]; Wild (mkWild Star false [MSet [99%N]]); Lit [100%N]].
Definition wit_name_greedy : bytes := [98; 120; 98; 99; 100]%N.

Lemma match_element_complete_refuted :
  exists segs name, ElemSpec segs name /\ matchElement dec segs name = false.
Proof.
  exists wit_segs_greedy, wit_name_greedy. split; [apply ref_elem_iff|]; vm_compute; reflexivity.
Qed.

(* *[match-hidden]?x  against  .x *)
Definition wit_segs_hidden : list seg :=
  [Wild (mkWild Star true []); Wild (mkWild Question false []); Lit [120%N]].
Definition wit_name_hidden : bytes := [46; 120]%N.

Lemma match_element_sound_refuted :
  exists segs name, matchElement dec segs name = true /\ ~ ElemSpec segs name.
Proof.
  exists wit_segs_hidden, wit_name_hidden. split; [vm_compute; reflexivity|].
  intros H. apply ref_elem_iff in H. vm_compute in H. discriminate.
Qed.

(* the tree  x/x  and  .x *)
Definition wit_world : world :=
  mkWorld (Dir [([46; 120]%N, File); ([120%N], Dir [([120%N], File)])]) [] [47; 116]%N.

Lemma glob_sound_refuted :
  exists fs segs l e, pattern_glob 8 fs segs = Some l /\ In e l /\ ~ TopSpec (PathSpec fs) segs e.
Proof.
  exists (tree_fs wit_world), wit_segs_hidden, [([46; 120]%N, KFile)], ([46; 120]%N, KFile).
  split; [vm_compute; reflexivity|]. split; [left; reflexivity|].
  intros H.
  assert (Hr : ref_pattern_glob 8 (tree_fs wit_world) wit_segs_hidden = Some []) by (vm_compute; reflexivity).
  apply (ref_pattern_glob_spec _ _ _ _ Hr) in H. destruct H.
Qed.

Lemma glob_complete_refuted :
  exists fs segs l e, pattern_glob 8 fs segs = Some l /\ TopSpec (PathSpec fs) segs e /\ ~ In e l.
Proof.
  exists (tree_fs (mkWorld (Dir [(wit_name_greedy, File)]) [] [47; 116]%N)), wit_segs_greedy, [],
         (wit_name_greedy, KFile).
  split; [vm_compute; reflexivity|]. split; [|intros []].
  assert (Hr : ref_pattern_glob 8 (tree_fs (mkWorld (Dir [(wit_name_greedy, File)]) [] [47; 116]%N))
                 wit_segs_greedy = Some [(wit_name_greedy, KFile)]) by (vm_compute; reflexivity).
  apply (ref_pattern_glob_spec _ _ _ _ Hr). left; reflexivity.
Qed.

(* **x**  on  x/x : the path x/x is produced twice *)
Lemma glob_nodup_refuted :
  exists fs segs l, pattern_glob 8 fs segs = Some l /\ ~ NoDup (map fst l).
Proof.
  exists (tree_fs wit_world), [Wild wSS; Lit [120%N]; Wild wSS],
         [([120; 47; 120]%N, KFile); ([120; 47; 120]%N, KFile); ([120%N], KDir)].
  split; [vm_compute; reflexivity|]. simpl. intros H. inversion H as [|? ? Hn _]; subst.
  apply Hn. left; reflexivity.
Qed.

(* type:regular drops a symbolic link although the reference counts it as regular *)
Lemma type_regular_symlink_refuted :
  exists k, type_ok_doc (Some false) k = true /\ type_ok_impl (Some false) k = false.
Proof. exists KLink. split; reflexivity. Qed.
