(* C26 — proofs, part 2: no added command is lost or duplicated. *)
From verif Require Import lib.Base model.C24_F64 model.C24_StoreSpec model.C24 model.C26
  proofs.C24_proofs proofs.C24_more proofs.C26_proofs.
From Coq Require Import Floats.SpecFloat Sorting.Sorted Sorting.Permutation Lia.
Open Scope N_scope.

Lemma u64_of_N n : n < two64 -> u64 (Z.of_N n) = n.
Proof.
  intros H. unfold u64. rewrite Z.mod_small; [apply N2Z.id|].
  unfold two64 in *. lia.
Qed.

(* an entry of the log stays there unless a DelCmd names its number *)
Lemma step_keeps st o n t : In (n, t) (s_log st) ->
  (forall s, o = ODelCmd s -> u64 s <> n) ->
  In (n, t) (s_log (fst (spec_step isort_desc st o))).
Proof.
  intros Hin Hd. destruct o; cbn [spec_step fst]; try exact Hin.
  - unfold sp_add. cbn [fst s_log]. apply in_or_app. left. exact Hin.
  - unfold sp_del. cbn [fst s_log]. apply filter_In. split; [exact Hin|].
    cbn [fst]. apply negb_true_iff, N.eqb_neq. intros E. apply (Hd seq eq_refl). symmetry. exact E.
  - unfold sp_add_dir. destruct d; exact Hin.
Qed.

Definition no_delete_of (h : history) (n : N) : Prop :=
  forall k ck s, nth_error h k = Some ck -> k_op ck = ODelCmd s -> u64 s <> n.

(* once (n, t) is in the log and nothing deletes n, every later listing whose
   range contains n shows it *)
Lemma legal_listing_has h n t : no_delete_of h n ->
  forall order st, Legal h st order -> In (n, t) (s_log st) ->
  forall j cj a b l tm, In j order -> nth_error h j = Some cj -> k_op cj = OCmds a b ->
    k_ret cj = Some (RCmds l, tm) -> u64 a <= n -> n < u64 b ->
    In (t, to_int n) l.
Proof.
  intros Hnd. induction order as [|y r IH]; intros st Hl Hin j cj a b l tm Hj Hcj Hop Hr Ha Hb; [contradiction|].
  cbn [Legal] in Hl. destruct Hl as (cy & Hcy & Hok & Hl').
  destruct Hj as [<-|Hj].
  - rewrite Hcj in Hcy. injection Hcy as <-. specialize (Hok _ _ Hr). rewrite Hop in Hok.
    cbn [spec_step snd] in Hok. unfold sp_range in Hok. cbn [res_ok] in Hok. injection Hok as Hok. rewrite <- Hok.
    apply in_map_iff. exists (n, t). split; [reflexivity|].
    apply filter_In. split; [exact Hin|]. cbn [fst].
    apply andb_true_iff. split; [apply N.leb_le, Ha|apply N.ltb_lt, Hb].
  - eapply (IH _ Hl'); try eassumption.
    apply step_keeps; [exact Hin|]. intros s Hs. exact (Hnd _ _ _ Hcy Hs).
Qed.

(* An AddCmd that returned z before a listing was invoked, with z in the
   listing's range and never deleted, is in the listing. *)
Lemma legal_add_then_listing h order : forall st, Legal h st order ->
  NoDup order -> ForallOrdPairs (fun a b => ~ precedes h b a) order ->
  s_seq st + N.of_nat (length order) < two63 ->
  forall i ci t z tmi j cj a b l tmj,
    In i order -> In j order -> precedes h i j ->
    nth_error h i = Some ci -> k_op ci = OAddCmd t -> k_ret ci = Some (RInt z, tmi) ->
    nth_error h j = Some cj -> k_op cj = OCmds a b -> k_ret cj = Some (RCmds l, tmj) ->
    no_delete_of h (u64 z) -> u64 a <= u64 z -> u64 z < u64 b ->
    In (t, z) l.
Proof.
  pose proof two63_lt_two64 as H64. unfold two63, two64 in H64.
  induction order as [|x r IH];
    intros st Hl Hnd Hrt Hb i ci t z tmi j cj a b l tmj Hi Hj Hp Hci Hoi Hri Hcj Hoj Hrj Hdel Ha Hbb;
    [contradiction|].
  cbn [Legal length] in *. rewrite Nat2N.inj_succ in Hb.
  destruct Hl as (cx & Hcx & Hok & Hl').
  inversion Hnd as [|? ? Hx Hnd']; subst. inversion Hrt as [|? ? Hxr Hrt']; subst.
  assert (Hb' : s_seq (fst (spec_step isort_desc st (k_op cx))) + N.of_nat (length r) < two63).
  { destruct (step_seq_cases st (k_op cx) ltac:(unfold two64, two63 in *; lia)) as [E|E]; rewrite E; lia. }
  destruct Hi as [<-|Hi].
  - (* the AddCmd is placed first: its entry is in the log afterwards *)
    destruct Hj as [<-|Hj]; [rewrite Hci in Hcj; injection Hcj as <-; congruence|].
    rewrite Hci in Hcx. injection Hcx as <-. specialize (Hok _ _ Hri).
    rewrite Hoi in *. cbn [spec_step sp_add snd fst res_ok] in *. injection Hok as Hz.
    set (n := wrap64 (s_seq st + 1)) in *.
    assert (Hn : n = s_seq st + 1) by (apply wrap64_small; unfold two64, two63 in *; lia).
    assert (Hzn : u64 z = n).
    { rewrite <- Hz. rewrite to_int_small by (unfold two63 in *; lia).
      apply u64_of_N. unfold two64, two63 in *. lia. }
    rewrite Hzn in *.
    replace z with (to_int n) by exact Hz.
    eapply (legal_listing_has h n t Hdel r _ Hl'); try eassumption.
    cbn [s_log]. apply in_or_app. right. left. reflexivity.
  - destruct Hj as [<-|Hj].
    + (* the listing cannot be placed before a call that precedes it *)
      exfalso. rewrite Forall_forall in Hxr. apply (Hxr i Hi). exact Hp.
    + eapply (IH _ Hl' Hnd' Hrt' Hb' i ci t z tmi j cj); eassumption.
Qed.

(* every listing returned in a linearizable history is strictly increasing in
   the sequence numbers: no command appears twice *)
Lemma legal_listing_sorted h order : forall st, Legal h st order -> wf st ->
  s_seq st + N.of_nat (length order) < two63 ->
  forall j cj a b l tm, In j order -> nth_error h j = Some cj -> k_op cj = OCmds a b ->
    k_ret cj = Some (RCmds l, tm) -> StronglySorted Z.lt (map snd l).
Proof.
  pose proof two63_lt_two64 as H64. unfold two63, two64 in H64.
  induction order as [|x r IH]; intros st Hl Hwf Hb j cj a b l tm Hj Hcj Hop Hr; [contradiction|].
  cbn [Legal length] in *. rewrite Nat2N.inj_succ in Hb.
  destruct Hl as (cx & Hcx & Hok & Hl').
  destruct Hj as [<-|Hj].
  - rewrite Hcj in Hcx. injection Hcx as <-. specialize (Hok _ _ Hr). rewrite Hop in Hok.
    pose proof (step_res_sorted isort_desc st (OCmds a b) Hwf ltac:(unfold two63 in *; lia)) as Hs.
    cbn [spec_step snd] in *. unfold sp_range in *. cbn [res_ok] in Hok. injection Hok as Hok. rewrite <- Hok. exact Hs.
  - pose proof (spec_step_wf isort_desc st (k_op cx) Hwf ltac:(unfold two64, two63 in *; lia)) as [Hwf' Hs].
    eapply (IH _ Hl' Hwf'); try eassumption. destruct Hs as [->| ->]; lia.
Qed.

Lemma ssorted_nodup (l : list Z) : StronglySorted Z.lt l -> NoDup l.
Proof.
  induction 1 as [|a l Hs IH Hf]; constructor; [|assumption].
  intros Hin. rewrite Forall_forall in Hf. specialize (Hf a Hin). lia.
Qed.

Lemma wf_init seq0 : seq0 < two64 -> wf (spec_init seq0).
Proof. intros H. split; [exact I|intros c []|exact H]. Qed.

(* No added command is lost or duplicated. *)
Lemma no_lost_or_duplicate_add seq0 h : Linearizable (spec_init seq0) h ->
  seq0 + N.of_nat (length h) < two63 ->
  (* not lost *)
  (forall i ci t z tmi j cj a b l tmj,
     nth_error h i = Some ci -> k_op ci = OAddCmd t -> k_ret ci = Some (RInt z, tmi) ->
     nth_error h j = Some cj -> k_op cj = OCmds a b -> k_ret cj = Some (RCmds l, tmj) ->
     precedes h i j -> no_delete_of h (u64 z) -> u64 a <= u64 z -> u64 z < u64 b ->
     In (t, z) l)
  (* not duplicated *)
  /\ (forall j cj a b l tmj,
     nth_error h j = Some cj -> k_op cj = OCmds a b -> k_ret cj = Some (RCmds l, tmj) ->
     NoDup (map snd l)).
Proof.
  intros (order & Hnd & Hall & Hrt & Hl) Hb. pose proof two63_lt_two64 as H64.
  pose proof (Legal_length h order _ Hnd Hl) as Hlen. cbn [spec_init s_seq] in *.
  split.
  - intros i ci t z tmi j cj a b l tmj Hci Hoi Hri Hcj Hoj Hrj Hp Hdel Ha Hbb.
    eapply (legal_add_then_listing h order _ Hl Hnd Hrt ltac:(cbn; lia) i ci t z tmi j cj); try eassumption.
    + eapply Hall; [exact Hci|congruence].
    + eapply Hall; [exact Hcj|congruence].
  - intros j cj a b l tmj Hcj Hoj Hrj. apply ssorted_nodup.
    eapply (legal_listing_sorted h order _ Hl (wf_init seq0 ltac:(lia)) ltac:(cbn; lia) j cj); try eassumption.
    eapply Hall; [exact Hcj|congruence].
Qed.

(* whatever the interleaving of the server model, numbers are unique *)
Lemma server_model_seq_unique sortf : sort_contract sortf ->
  forall seq0 acts,
  let h := v_hist (sv_run sortf (spec_init seq0) acts) in
  seq0 + N.of_nat (length h) < two63 ->
  forall i j ci cj ti tj zi zj tmi tmj, i <> j ->
    nth_error h i = Some ci -> k_op ci = OAddCmd ti -> k_ret ci = Some (RInt zi, tmi) ->
    nth_error h j = Some cj -> k_op cj = OAddCmd tj -> k_ret cj = Some (RInt zj, tmj) ->
    zi <> zj.
Proof.
  intros Hs seq0 acts h Hb. apply (seq_unique_across_clients (spec_init seq0)); [|exact Hb].
  exists (v_lin (sv_run sortf (spec_init seq0) acts)). apply server_model_linearizable, Hs.
Qed.
