(* TEMPORARY while iterating; replaced by the real proof *)
From verif Require Import lib.Base model.C07.
Open Scope N_scope.
Lemma popCount_correct u : u < 2 ^ 32 -> popCount u = N.of_nat (rank u 32 0).
Proof. Admitted.
