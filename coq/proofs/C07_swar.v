(* C07 — the SWAR population count of hashmap.go computes the number of set
   bits of every 32-bit value.

   Proof: u = a + 2^16 b.  The first four steps act on the two halves
   independently ([step_lin]: [&] and [>>] distribute over the sum of a value
   below 2^16 and a multiple of 2^16), the facts needed about one half are
   checked for all 2^16 values of that half by vm_compute, and the fifth step
   adds the two half counts. *)
From Coq Require Import ZifyBool ZifyNat ZifyN.
From verif Require Import lib.Base model.C07.
Open Scope N_scope.

(* ---- a + 2^n b, bitwise ---- *)
Lemma cat_bits n a b i : a < 2 ^ n ->
  N.testbit (a + 2 ^ n * b) i = if i <? n then N.testbit a i else N.testbit b (i - n).
Proof.
  intros Ha. assert (H2 : 2 ^ n <> 0) by (apply N.pow_nonzero; discriminate).
  destruct (N.ltb_spec i n) as [L|L].
  - rewrite <- (N.mod_pow2_bits_low (a + 2 ^ n * b) n i L).
    rewrite (N.mul_comm (2 ^ n) b), N.mod_add, N.mod_small by assumption. reflexivity.
  - replace i with (i - n + n) at 1 by lia. rewrite <- N.div_pow2_bits.
    rewrite (N.mul_comm (2 ^ n) b), N.div_add, N.div_small by assumption. reflexivity.
Qed.

Lemma lt_pow2_testbit u n : u < 2 ^ n -> forall i, n <= i -> N.testbit u i = false.
Proof.
  intros H i Hi. destruct (N.eq_dec u 0) as [->|Hu]; [apply N.bits_0|].
  apply N.bits_above_log2. apply N.log2_lt_pow2 in H; lia.
Qed.

Lemma testbit_lt_pow2 u n : (forall i, n <= i -> N.testbit u i = false) -> u < 2 ^ n.
Proof.
  intros H. destruct (N.eq_dec u 0) as [->|Hu]; [apply N.neq_0_lt_0, N.pow_nonzero; discriminate|].
  apply N.log2_lt_pow2; [lia|]. destruct (N.lt_ge_cases (N.log2 u) n) as [L|L]; [exact L|].
  specialize (H _ L). rewrite N.bit_log2 in H by exact Hu. discriminate.
Qed.

Lemma land_lt a m n : a < 2 ^ n -> N.land a m < 2 ^ n.
Proof.
  intros H. apply testbit_lt_pow2. intros i Hi.
  rewrite N.land_spec, (lt_pow2_testbit a n H i Hi). reflexivity.
Qed.

Lemma land_cat n a b m : a < 2 ^ n ->
  N.land (a + 2 ^ n * b) m = N.land a m + 2 ^ n * N.land b (N.shiftr m n).
Proof.
  intros Ha. apply N.bits_inj. intros i.
  rewrite N.land_spec, !cat_bits by (assumption || (apply land_lt; assumption)).
  destruct (N.ltb_spec i n) as [L|L]; rewrite N.land_spec; [reflexivity|].
  rewrite N.shiftr_spec'. replace (i - n + n) with i by lia. reflexivity.
Qed.

Lemma shiftr_cat n a b w : w <= n ->
  N.shiftr (a + 2 ^ n * b) w = N.shiftr a w + 2 ^ (n - w) * b.
Proof.
  intros Hw. rewrite !N.shiftr_div_pow2.
  replace (2 ^ n * b) with (2 ^ (n - w) * b * 2 ^ w).
  - rewrite N.div_add by (apply N.pow_nonzero; discriminate). reflexivity.
  - replace n with (n - w + w) at 2 by lia. rewrite N.pow_add_r. lia.
Qed.

Definition step (w m x : N) : N := N.land x m + N.land (N.shiftr x w) m.

(* the step distributes over (value below 2^16) + (multiple of 2^16) *)
Lemma step_lin w m a b : w <= 16 -> a < 2 ^ 16 ->
  step w m (a + 2 ^ 16 * b) = step w m a + step w m (2 ^ 16 * b).
Proof.
  intros Hw Ha. unfold step.
  pose proof (land_cat 16 a b m Ha) as E1.
  pose proof (land_cat 16 0 b m ltac:(reflexivity)) as E2. rewrite N.add_0_l in E2.
  rewrite N.land_0_l, N.add_0_l in E2.
  rewrite (shiftr_cat 16 a b w Hw).
  pose proof (shiftr_cat 16 0 b w Hw) as E3. rewrite N.add_0_l, N.shiftr_0_l, N.add_0_l in E3.
  assert (Hs : N.shiftr a w < 2 ^ (16 - w)).
  { rewrite N.shiftr_div_pow2. apply N.div_lt_upper_bound; [apply N.pow_nonzero; discriminate|].
    rewrite <- N.pow_add_r. replace (w + (16 - w)) with 16 by lia. exact Ha. }
  pose proof (land_cat (16 - w) (N.shiftr a w) b m Hs) as E4.
  pose proof (land_cat (16 - w) 0 b m ltac:(apply N.neq_0_lt_0, N.pow_nonzero; discriminate)) as E5.
  rewrite N.add_0_l, N.land_0_l, N.add_0_l in E5.
  rewrite E1, E2, E3, E4, E5. lia.
Qed.

(* ---- exhaustive checks over one half ---- *)
Definition allb (n : N) (P : N -> bool) : bool :=
  snd (N.iter n (fun p => (fst p + 1, snd p && P (fst p))) (0, true)).

Lemma allb_spec n P : allb n P = true -> forall a, a < n -> P a = true.
Proof.
  unfold allb. revert P. induction n as [|n IH] using N.peano_ind; intros P H a Ha; [lia|].
  rewrite N.iter_succ in H.
  assert (F : forall k, fst (N.iter k (fun p => (fst p + 1, snd p && P (fst p))) (0, true)) = k).
  { induction k as [|k IHk] using N.peano_ind; [reflexivity|]. rewrite N.iter_succ. cbn [fst]. lia. }
  cbn [snd] in H. apply andb_true_iff in H as [H1 H2]. rewrite F in H2.
  destruct (N.eq_dec a n) as [->|Hne]; [exact H2|]. apply IH; [exact H1|lia].
Qed.

Definition f1 (x : N) := step 1 m1 x.
Definition f2 (x : N) := step 2 m2 (f1 x).
Definition f3 (x : N) := step 4 m4 (f2 x).
Definition f4 (x : N) := step 8 m8 (f3 x).

Definition H16 : N := 65536.

Definition lo_ok (a : N) : bool :=
  (f1 a <? H16) && (f2 a <? H16) && (f3 a <? H16) && (f4 a =? N.of_nat (rank a 16 0)).
Definition hi_ok (b : N) : bool :=
  let x := H16 * b in
  (f1 x mod H16 =? 0) && (f2 x mod H16 =? 0) && (f3 x mod H16 =? 0)
  && (f4 x =? H16 * N.of_nat (rank b 16 0)).

Lemma lo_all : allb H16 lo_ok = true.
Proof. vm_compute. reflexivity. Qed.
Lemma hi_all : allb H16 hi_ok = true.
Proof. vm_compute. reflexivity. Qed.

Lemma mult_form x : x mod H16 = 0 -> x = 2 ^ 16 * (x / H16).
Proof. intros H. change (2 ^ 16) with H16. pose proof (N.div_mod x H16 ltac:(discriminate)). lia. Qed.

Lemma f4_split a b : a < H16 -> b < H16 ->
  f4 (a + H16 * b) = N.of_nat (rank a 16 0) + H16 * N.of_nat (rank b 16 0).
Proof.
  intros Ha Hb.
  pose proof (allb_spec _ _ lo_all a Ha) as La. pose proof (allb_spec _ _ hi_all b Hb) as Lb.
  unfold lo_ok in La. unfold hi_ok in Lb. cbv zeta in Lb.
  repeat (apply andb_true_iff in La as [La ?]). repeat (apply andb_true_iff in Lb as [Lb ?]).
  repeat match goal with
         | H : (_ <? _) = true |- _ => apply N.ltb_lt in H
         | H : (_ =? _) = true |- _ => apply N.eqb_eq in H
         end.
  assert (E1 : f1 (a + H16 * b) = f1 a + f1 (H16 * b))
    by (apply (step_lin 1 m1 a b); [lia|exact Ha]).
  assert (E2 : f2 (a + H16 * b) = f2 a + f2 (H16 * b)).
  { unfold f2. rewrite E1, (mult_form (f1 (H16 * b))) by assumption.
    apply (step_lin 2 m2); [lia|assumption]. }
  assert (E3 : f3 (a + H16 * b) = f3 a + f3 (H16 * b)).
  { unfold f3. rewrite E2, (mult_form (f2 (H16 * b))) by assumption.
    apply (step_lin 4 m4); [lia|assumption]. }
  unfold f4 at 1. rewrite E3, (mult_form (f3 (H16 * b))) by assumption.
  rewrite (step_lin 8 m8) by (lia || assumption).
  rewrite <- (mult_form (f3 (H16 * b))) by assumption.
  fold (f4 a). fold (f4 (H16 * b)). congruence.
Qed.

(* ---- the number of set bits of a + 2^16 b ---- *)
Lemma rank_add u x y i : rank u (x + y) i = (rank u x i + rank u y (i + N.of_nat x))%nat.
Proof.
  revert i; induction x as [|x IH]; intros i.
  - cbn. replace (i + 0) with i by lia. reflexivity.
  - cbn [rank Nat.add]. rewrite IH. replace (i + 1 + N.of_nat x) with (i + N.of_nat (S x)) by lia. lia.
Qed.

Lemma rank_ext u v cnt i j :
  (forall x, (x < cnt)%nat -> N.testbit u (i + N.of_nat x) = N.testbit v (j + N.of_nat x)) ->
  rank u cnt i = rank v cnt j.
Proof.
  revert i j; induction cnt as [|c IH]; intros i j H; [reflexivity|]. cbn [rank].
  pose proof (H 0%nat ltac:(lia)) as H0. rewrite !N.add_0_r in H0. rewrite H0. f_equal.
  apply IH. intros x Hx. specialize (H (S x) ltac:(lia)).
  replace (i + 1 + N.of_nat x) with (i + N.of_nat (S x)) by lia.
  replace (j + 1 + N.of_nat x) with (j + N.of_nat (S x)) by lia. exact H.
Qed.

Lemma rank_split a b : a < H16 ->
  rank (a + H16 * b) 32 0 = (rank a 16 0 + rank b 16 0)%nat.
Proof.
  intros Ha. change 32%nat with (16 + 16)%nat. rewrite rank_add. f_equal.
  - apply rank_ext. intros x Hx. change H16 with (2 ^ 16). rewrite cat_bits by exact Ha.
    destruct (N.ltb_spec (0 + N.of_nat x) 16); [reflexivity|lia].
  - apply rank_ext. intros x Hx. change H16 with (2 ^ 16). rewrite cat_bits by exact Ha.
    destruct (N.ltb_spec (0 + N.of_nat 16 + N.of_nat x) 16); [lia|]. f_equal. lia.
Qed.

Lemma rank_le u cnt i : (rank u cnt i <= cnt)%nat.
Proof. revert i; induction cnt as [|c IH]; intros i; cbn; [lia|]. specialize (IH (i + 1)). destruct (N.testbit u i); lia. Qed.

Lemma popCount_correct u : u < 2 ^ 32 -> popCount u = N.of_nat (rank u 32 0).
Proof.
  intros Hu. set (a := u mod H16). set (b := u / H16).
  assert (Ha : a < H16) by (apply N.mod_lt; discriminate).
  assert (Hb : b < H16) by (apply N.div_lt_upper_bound; [discriminate|exact Hu]).
  assert (E : u = a + H16 * b) by (pose proof (N.div_mod u H16 ltac:(discriminate)); unfold a, b; lia).
  rewrite E, rank_split by exact Ha.
  change (popCount (a + H16 * b)) with (step 16 m16 (f4 (a + H16 * b))).
  rewrite f4_split by assumption.
  pose proof (rank_le a 16 0). pose proof (rank_le b 16 0).
  set (pa := N.of_nat (rank a 16 0)) in *. set (pb := N.of_nat (rank b 16 0)) in *.
  assert (Hpa : pa < H16) by (unfold pa, H16; lia). assert (Hpb : pb < H16) by (unfold pb, H16; lia).
  unfold step. change m16 with (N.ones 16). rewrite !N.land_ones, N.shiftr_div_pow2.
  change (2 ^ 16) with H16.
  rewrite (N.mul_comm H16 pb), N.mod_add, N.div_add, (N.mod_small pa), (N.div_small pa), N.add_0_l,
    (N.mod_small pb) by (assumption || discriminate).
  unfold pa, pb. lia.
Qed.
