(* C39 -- proofs, part 1: the lockset invariant (race freedom for ALL
   interleavings), the refutation with two importing threads, soundness of the
   acceptor. *)
From verif Require Import lib.Base model.C39.
From Coq Require Import Permutation.
Open Scope N_scope.

(* ------------------------------------------------------------------ *)
(* small facts *)

Lemma anyb_true {A} (f : A -> bool) l :
  anyb f l = true <-> exists x, In x l /\ f x = true.
Proof.
  induction l as [|y r IH]; simpl.
  - split; [discriminate|intros (x & [] & _)].
  - destruct (f y) eqn:E.
    + split; [intros _; exists y; auto|reflexivity].
    + rewrite IH. split.
      * intros (x & Hin & Hx). exists x; auto.
      * intros (x & [Heq|Hin] & Hx); [subst; congruence|exists x; auto].
Qed.

Lemma anyb_false {A} (f : A -> bool) l :
  anyb f l = false <-> forall x, In x l -> f x = false.
Proof.
  split.
  - intros H x Hin. destruct (f x) eqn:E; [|reflexivity].
    assert (anyb f l = true) by (apply anyb_true; exists x; auto). congruence.
  - intros H. destruct (anyb f l) eqn:E; [|reflexivity].
    apply anyb_true in E as (x & Hin & Hx). rewrite (H x Hin) in Hx. discriminate.
Qed.

Lemma slot_eqb_eq a b : slot_eqb a b = true <-> a = b.
Proof.
  destruct a as [a1 a2], b as [b1 b2]. unfold slot_eqb; simpl.
  rewrite andb_true_iff, !N.eqb_eq. split; [intros [-> ->]; reflexivity|intros E; inversion E; auto].
Qed.
Lemma slot_eqb_refl a : slot_eqb a a = true.
Proof. apply slot_eqb_eq; reflexivity. Qed.
Lemma lock_eqb_refl k : lock_eqb k k = true.
Proof. destruct k; simpl; [reflexivity|apply slot_eqb_refl]. Qed.

Lemma memN_In x l : memN x l = true <-> In x l.
Proof.
  induction l as [|y r IH]; simpl; [split; [discriminate|tauto]|].
  destruct (x =? y) eqn:E.
  - apply N.eqb_eq in E. subst. tauto.
  - apply N.eqb_neq in E. rewrite IH. split; [auto|intros [H|H]; [congruence|exact H]].
Qed.

Lemma memN_removeN_same t l : memN t (removeN t l) = false.
Proof.
  induction l as [|y r IH]; simpl; [reflexivity|].
  destruct (t =? y) eqn:E; [exact IH|]. simpl. rewrite E. exact IH.
Qed.
Lemma memN_removeN_other t u l : u <> t -> memN u (removeN t l) = memN u l.
Proof.
  intros Hne. induction l as [|y r IH]; simpl; [reflexivity|].
  destruct (t =? y) eqn:E.
  - apply N.eqb_eq in E. subst y. destruct (u =? t) eqn:E2; [apply N.eqb_eq in E2; congruence|exact IH].
  - simpl. rewrite IH. reflexivity.
Qed.

Lemma upd_same f t x : upd f t x t = x.
Proof. unfold upd. rewrite N.eqb_refl. reflexivity. Qed.
Lemma upd_other f t x u : u <> t -> upd f t x u = f u.
Proof. intros H. unfold upd. destruct (u =? t) eqn:E; [apply N.eqb_eq in E; congruence|reflexivity]. Qed.

Lemma run_app s1 s2 c : run (s1 ++ s2) c = run s2 (run s1 c).
Proof. unfold run. apply fold_left_app. Qed.

(* an invariant of every step is an invariant of every run *)
Lemma run_invariant (P : config -> Prop) :
  (forall c t, P c -> P (step c t)) -> forall sched c, P c -> P (run sched c).
Proof.
  intros Hs sched. induction sched as [|t r IH]; intros c Hc; simpl; [exact Hc|].
  apply IH. apply Hs. exact Hc.
Qed.

(* ------------------------------------------------------------------ *)
(* the lock discipline of the micro-operations *)

(* what an event must carry *)
Definition event_ok (e : event) : Prop :=
  match e_loc e with
  | LGlobal => if e_wr e then In (KMu, true) (e_locks e) else exists b, In (KMu, b) (e_locks e)
  | LBuiltin => e_wr e = false
  | LSlot s => if e_wr e then In (KVar s, true) (e_locks e) else exists b, In (KVar s, b) (e_locks e)
  | LModules => True
  end.

Definition plain_op (o : op) : Prop :=
  match o with OSet _ _ | OGet _ | OUseLookup _ | OUseInstall _ => True | _ => False end.

(* [disc m ops]: starting with ev.mu held in mode m, the operations acquire
   and release ev.mu in a well-bracketed way and touch ev.global / ev.builtin
   only while holding it (exclusively for the replacement) *)
Fixpoint disc (m : option bool) (ops : list op) : Prop :=
  match ops with
  | [] => True
  | o :: r =>
    match o with
    | OLockW => m = None /\ disc (Some true) r
    | OUnlockW => m = Some true /\ disc None r
    | OLockR => m = None /\ disc (Some false) r
    | OUnlockR => m = Some false /\ disc None r
    | ORdBuiltin | ORdGlobal | ORdGlobalC => m <> None /\ disc m r
    | OCompile _ => m = Some true /\ r = []
    | OWrGlobal _ _ => m = Some true /\ disc m r
    | _ => disc m r
    end
  end.

Lemma plain_disc ops : Forall plain_op ops -> forall m, disc m ops.
Proof.
  induction 1 as [|o r Ho _ IH]; intros m; simpl; [exact I|].
  destruct o; simpl in Ho; try contradiction; apply IH.
Qed.

Lemma compile_plain p : forall t k g g' fr xs,
  compile t k g p = Some (g', fr, xs) -> Forall plain_op xs.
Proof.
  induction p as [|s r IH]; intros t k g g' fr xs H; simpl in H.
  - inversion H; subst. constructor.
  - destruct s as [x v|x v|x|m].
    + destruct (compile t (k + 1) (ns_bind x (t, k) g) r) as [[[g1 f1] x1]|] eqn:E; [|discriminate].
      inversion H; subst. constructor; [exact I|eapply IH; eauto].
    + destruct (ns_lookup x g); [|discriminate].
      destruct (compile t k g r) as [[[g1 f1] x1]|] eqn:E; [|discriminate].
      inversion H; subst. constructor; [exact I|eapply IH; eauto].
    + destruct (ns_lookup x g); [|discriminate].
      destruct (compile t k g r) as [[[g1 f1] x1]|] eqn:E; [|discriminate].
      inversion H; subst. constructor; [exact I|eapply IH; eauto].
    + destruct (compile t k g r) as [[[g1 f1] x1]|] eqn:E; [|discriminate].
      inversion H; subst. constructor; [exact I|eapply IH; eauto].
Qed.

Lemma call_ops_plain g p : Forall plain_op (call_ops g p).
Proof.
  induction p as [|s r IH]; simpl; [constructor|].
  destruct s; try exact IH; destruct (ns_lookup x g); try exact IH; constructor; auto; exact I.
Qed.

Lemma job_ops_disc g0 j : disc None (job_ops g0 j).
Proof.
  destruct j as [p|p|p]; simpl.
  - repeat split; congruence.
  - repeat split; congruence.
  - repeat split; try congruence. apply plain_disc, call_ops_plain.
Qed.

(* ev.mu is never held exclusively and shared at the same time *)
Definition Excl (c : config) : Prop := c_w c <> None -> c_r c = [].
Definition Disc (c : config) : Prop := forall t, disc (mode_of c t) (t_ops (c_thr c t)).
Definition Inv1 (c : config) : Prop := Excl c /\ Disc c /\ Forall event_ok (c_trace c).

Lemma threads_of_spec g0 js : forall i t,
  threads_of g0 i js t = idle \/
  exists j, In j js /\ threads_of g0 i js t = mkThread (job_ops g0 j) [] false [].
Proof.
  induction js as [|j r IH]; intros i t; simpl; [left; reflexivity|].
  unfold upd. destruct (t =? i).
  - right. exists j. auto.
  - destruct (IH (i + 1) t) as [H|(j' & Hin & H)]; [left; exact H|right; exists j'; auto].
Qed.

Lemma init_Inv1 g0 st0 mods0 js : Inv1 (init g0 st0 mods0 js).
Proof.
  split; [|split].
  - intros _. reflexivity.
  - intros t. unfold init; simpl. unfold mode_of; simpl.
    destruct (threads_of_spec g0 js 0 t) as [H|(j & _ & H)]; rewrite H; simpl; [exact I|].
    apply job_ops_disc.
  - constructor.
Qed.

(* mode_of only looks at the lock fields *)
Lemma mode_of_ext c c' t : c_w c' = c_w c -> c_r c' = c_r c -> mode_of c' t = mode_of c t.
Proof. intros H1 H2. unfold mode_of. rewrite H1, H2. reflexivity. Qed.

Ltac inv_some := match goal with H : Some _ = Some _ |- _ => inversion H; subst; clear H end.

(* The main preservation lemma. *)
Lemma step_Inv1 c t : Inv1 c -> Inv1 (step c t).
Proof.
  intros (Hex & Hd & Htr). unfold step.
  destruct (step_opt c t) as [c'|] eqn:Hs; [|repeat split; assumption].
  unfold step_opt in Hs.
  pose proof (Hd t) as Hdt.
  destruct (t_ops (c_thr c t)) as [|o r] eqn:Hops; [discriminate|].
  (* frame: threads other than t keep their operations *)
  assert (Hframe : forall th' w' r' c'',
            c_thr c'' = upd (c_thr c) t th' -> c_w c'' = w' -> c_r c'' = r' ->
            (forall u, u <> t -> mode_of c'' u = mode_of c u) ->
            disc (mode_of c'' t) (t_ops th') -> Disc c'').
  { intros th' w' r' c'' Hthr _ _ Hoth Hself u. rewrite Hthr.
    destruct (N.eq_dec u t) as [->|Hne].
    - rewrite upd_same. exact Hself.
    - rewrite upd_other by exact Hne. rewrite Hoth by exact Hne. apply Hd. }
  destruct o; simpl in Hdt.
  - (* OLockW *)
    destruct (c_w c) eqn:Hw; [discriminate|]. destruct (c_r c) eqn:Hr; [|discriminate].
    inv_some. destruct Hdt as [_ Hdr]. split; [|split].
    + intros _. reflexivity.
    + eapply Hframe; simpl; eauto.
      * intros u Hne. unfold mode_of; simpl. rewrite Hw, Hr. simpl.
        destruct (t =? u) eqn:E; [apply N.eqb_eq in E; congruence|reflexivity].
      * unfold mode_of; simpl. rewrite N.eqb_refl. exact Hdr.
    + exact Htr.
  - (* OUnlockW *)
    destruct (c_w c) as [u|] eqn:Hw; [|discriminate].
    destruct (u =? t) eqn:E; [|discriminate]. apply N.eqb_eq in E; subst u.
    inv_some. destruct Hdt as [_ Hdr].
    assert (Hr : c_r c = []) by (apply Hex; rewrite Hw; discriminate).
    split; [|split].
    + intros Hc. simpl in Hc. congruence.
    + eapply Hframe; simpl; eauto.
      * intros u Hne. unfold mode_of; simpl. rewrite Hw, Hr. simpl.
        destruct (t =? u) eqn:E; [apply N.eqb_eq in E; congruence|reflexivity].
      * unfold mode_of; simpl. rewrite Hr. simpl. exact Hdr.
    + exact Htr.
  - (* OLockR *)
    destruct (c_w c) eqn:Hw; [discriminate|]. inv_some. destruct Hdt as [_ Hdr].
    split; [|split].
    + intros Hc. simpl in Hc. congruence.
    + eapply Hframe; simpl; eauto.
      * intros u Hne. unfold mode_of; simpl. rewrite Hw.
        destruct (u =? t) eqn:E; [apply N.eqb_eq in E; congruence|reflexivity].
      * unfold mode_of; simpl. rewrite N.eqb_refl. exact Hdr.
    + exact Htr.
  - (* OUnlockR *)
    inv_some. destruct Hdt as [Hm Hdr].
    assert (Hw : c_w c <> Some t).
    { intros Hw. unfold mode_of in Hm. rewrite Hw, N.eqb_refl in Hm. discriminate. }
    split; [|split].
    + intros Hc. simpl in *. rewrite (Hex Hc). reflexivity.
    + eapply Hframe; simpl; eauto.
      * intros u Hne. unfold mode_of; simpl. rewrite memN_removeN_other by exact Hne. reflexivity.
      * unfold mode_of; simpl. rewrite memN_removeN_same.
        destruct (c_w c) as [u|]; [|exact Hdr].
        destruct (u =? t) eqn:E; [apply N.eqb_eq in E; congruence|exact Hdr].
    + exact Htr.
  - (* ORdBuiltin *)
    inv_some. destruct Hdt as [Hm Hdr]. split; [exact Hex|split].
    + eapply Hframe; simpl; eauto.
    + simpl. constructor; [|exact Htr]. unfold event_ok; simpl. reflexivity.
  - (* ORdGlobal *)
    inv_some. destruct Hdt as [Hm Hdr]. split; [exact Hex|split].
    + eapply Hframe; simpl; eauto.
    + simpl. constructor; [|exact Htr]. unfold event_ok, ev_of, mu_locks; simpl.
      destruct (mode_of c t) as [b|]; [|congruence]. exists b. left; reflexivity.
  - (* OCompile *)
    destruct Hdt as [Hm Hr]. subst r.
    destruct (compile t 0 (t_snap (c_thr c t)) p) as [[[g' fr] xs]|] eqn:Hc; inv_some.
    + split; [exact Hex|split; [|exact Htr]].
      eapply Hframe; simpl; eauto. change (mode_of (with_thread c t _) t) with (mode_of c t).
      rewrite Hm. repeat split. apply plain_disc. eapply compile_plain; eauto.
    + split; [exact Hex|split; [|exact Htr]].
      eapply Hframe; simpl; eauto. change (mode_of (with_thread c t _) t) with (mode_of c t).
      rewrite Hm. repeat split.
  - (* OWrGlobal *)
    inv_some. destruct Hdt as [Hm Hdr]. split; [exact Hex|split].
    + eapply Hframe; simpl; eauto.
    + simpl. constructor; [|exact Htr]. unfold event_ok, ev_of, mu_locks; simpl.
      rewrite Hm. left; reflexivity.
  - (* OCheck *)
    destruct (compile t 0 (t_snap (c_thr c t)) p); inv_some;
      (split; [exact Hex|split; [|exact Htr]]); eapply Hframe; simpl; eauto.
  - (* ORdModKeys *)
    inv_some. split; [exact Hex|split].
    + eapply Hframe; simpl; eauto.
    + simpl. constructor; [|exact Htr]. exact I.
  - (* OSet *)
    inv_some. split; [exact Hex|split].
    + eapply Hframe; simpl; eauto.
    + simpl. constructor; [|exact Htr]. unfold event_ok; simpl. left; reflexivity.
  - (* OGet *)
    inv_some. split; [exact Hex|split].
    + eapply Hframe; simpl; eauto.
    + simpl. constructor; [|exact Htr]. unfold event_ok; simpl. exists false. left; reflexivity.
  - (* OUseLookup *)
    destruct (memN m (c_mods c)); inv_some; (split; [exact Hex|split]);
      try (eapply Hframe; simpl; eauto); simpl; constructor; try exact Htr; exact I.
  - (* OUseInstall *)
    inv_some. split; [exact Hex|split].
    + eapply Hframe; simpl; eauto.
    + simpl. constructor; [|exact Htr]. exact I.
  - (* ORdGlobalC *)
    inv_some. destruct Hdt as [Hm Hdr]. split; [exact Hex|split].
    + eapply Hframe; simpl; eauto.
    + simpl. constructor; [|exact Htr]. unfold event_ok, ev_of, mu_locks; simpl.
      destruct (mode_of c t) as [b|]; [|congruence]. exists b. left; reflexivity.
Qed.

Lemma reachable_Inv1 g0 st0 mods0 js sched : Inv1 (run sched (init g0 st0 mods0 js)).
Proof. apply run_invariant; [intros; apply step_Inv1; assumption|apply init_Inv1]. Qed.

(* ------------------------------------------------------------------ *)
(* from the discipline to race freedom *)

Definition race_free (tr : list event) : Prop :=
  forall a b, In a tr -> In b tr -> race a b = false.
Definition race_free_on (P : loc -> Prop) (tr : list event) : Prop :=
  forall a b, In a tr -> In b tr -> P (e_loc a) -> race a b = false.

Lemma protects_intro a b k ma mb :
  In (k, ma) (e_locks a) -> In (k, mb) (e_locks b) -> ma || mb = true -> protects a b = true.
Proof.
  intros Ha Hb Hm. unfold protects. apply anyb_true. exists (k, ma). split; [exact Ha|].
  apply anyb_true. exists (k, mb). split; [exact Hb|]. simpl. rewrite lock_eqb_refl. exact Hm.
Qed.

Lemma ok_no_race a b :
  event_ok a -> event_ok b -> e_loc a <> LModules -> race a b = false.
Proof.
  intros Ha Hb Hl. unfold race. destruct (conflict a b) eqn:Hc; [|reflexivity]. simpl.
  unfold conflict in Hc. apply andb_true_iff in Hc as [Hc Hw]. apply andb_true_iff in Hc as [_ Hloc].
  unfold event_ok in Ha, Hb.
  destruct (e_loc a) as [| | |s] eqn:La; destruct (e_loc b) as [| | |s'] eqn:Lb;
    simpl in Hloc; try discriminate; try congruence.
  - (* LGlobal *)
    destruct (e_wr a) eqn:Wa.
    + destruct (e_wr b).
      * rewrite (protects_intro a b KMu true true); auto.
      * destruct Hb as [mb Hb]. rewrite (protects_intro a b KMu true mb); auto.
    + simpl in Hw. rewrite Hw in Hb. destruct Ha as [ma Ha].
      rewrite (protects_intro a b KMu ma true); auto. apply orb_true_r.
  - (* LBuiltin: only reads *)
    rewrite Ha, Hb in Hw. discriminate.
  - (* LSlot *)
    apply slot_eqb_eq in Hloc. subst s'.
    destruct (e_wr a) eqn:Wa.
    + destruct (e_wr b).
      * rewrite (protects_intro a b (KVar s) true true); auto.
      * destruct Hb as [mb Hb]. rewrite (protects_intro a b (KVar s) true mb); auto.
    + simpl in Hw. rewrite Hw in Hb. destruct Ha as [ma Ha].
      rewrite (protects_intro a b (KVar s) ma true); auto. apply orb_true_r.
Qed.

(* ALL interleavings, ALL job sets (file imports included): no race on
   ev.global, ev.builtin or any variable *)
Lemma no_race_outside_modules g0 st0 mods0 js sched :
  race_free_on (fun l => l <> LModules) (c_trace (run sched (init g0 st0 mods0 js))).
Proof.
  destruct (reachable_Inv1 g0 st0 mods0 js sched) as (_ & _ & Htr).
  rewrite Forall_forall in Htr. intros a b Ha Hb Hl. apply ok_no_race; auto.
Qed.

(* every access to a variable is made under the variable's own lock,
   exclusively for writes (PtrVar.Get / PtrVar.Set) *)
Definition slot_event_ok (e : event) : Prop :=
  match e_loc e with
  | LSlot s => if e_wr e then In (KVar s, true) (e_locks e) else exists b, In (KVar s, b) (e_locks e)
  | _ => True
  end.

Lemma ptrvar_accesses_atomic g0 st0 mods0 js sched :
  Forall slot_event_ok (c_trace (run sched (init g0 st0 mods0 js)))
  /\ race_free_on (fun l => exists s, l = LSlot s) (c_trace (run sched (init g0 st0 mods0 js))).
Proof.
  split.
  - destruct (reachable_Inv1 g0 st0 mods0 js sched) as (_ & _ & Htr).
    eapply Forall_impl; [|exact Htr]. intros e He. unfold event_ok in He. unfold slot_event_ok.
    destruct (e_loc e); auto.
  - intros a b Ha Hb (s & Hs). eapply no_race_outside_modules; eauto. congruence.
Qed.

(* every access to ev.global is made holding ev.mu, exclusively for the replacement *)
Definition global_event_ok (e : event) : Prop :=
  match e_loc e with
  | LGlobal => if e_wr e then In (KMu, true) (e_locks e) else exists b, In (KMu, b) (e_locks e)
  | _ => True
  end.

Lemma global_accesses_locked g0 st0 mods0 js sched :
  Forall global_event_ok (c_trace (run sched (init g0 st0 mods0 js))).
Proof.
  destruct (reachable_Inv1 g0 st0 mods0 js sched) as (_ & _ & Htr).
  eapply Forall_impl; [|exact Htr]. intros e He. unfold event_ok in He. unfold global_event_ok.
  destruct (e_loc e); auto.
Qed.

(* ------------------------------------------------------------------ *)
(* jobs that import only modules that are already loaded *)

Definition prog_of (j : job) : list stmt := match j with JEval p | JCheck p | JCall p => p end.

Definition uses_loaded (mods : list N) (p : list stmt) : Prop :=
  forall m, In (SUse m) p -> memN m mods = true.
Definition no_file_use (mods : list N) (js : list job) : Prop :=
  forall j, In j js -> uses_loaded mods (prog_of j).

Definition op_nouse (mods : list N) (o : op) : Prop :=
  match o with
  | OUseInstall _ => False
  | OUseLookup m => memN m mods = true
  | OCompile p => uses_loaded mods p
  | _ => True
  end.

Definition Inv2 (mods : list N) (c : config) : Prop :=
  c_mods c = mods
  /\ (forall t, Forall (op_nouse mods) (t_ops (c_thr c t)))
  /\ Forall (fun e => e_loc e = LModules -> e_wr e = false) (c_trace c).

Lemma compile_nouse mods p : forall t k g g' fr xs,
  uses_loaded mods p -> compile t k g p = Some (g', fr, xs) -> Forall (op_nouse mods) xs.
Proof.
  induction p as [|s r IH]; intros t k g g' fr xs Hu H; simpl in H.
  - inversion H; subst. constructor.
  - assert (Hr : uses_loaded mods r) by (intros m Hm; apply Hu; right; exact Hm).
    destruct s as [x v|x v|x|m].
    + destruct (compile t (k + 1) (ns_bind x (t, k) g) r) as [[[g1 f1] x1]|] eqn:E; [|discriminate].
      inversion H; subst. constructor; [exact I|eapply IH; eauto].
    + destruct (ns_lookup x g); [|discriminate].
      destruct (compile t k g r) as [[[g1 f1] x1]|] eqn:E; [|discriminate].
      inversion H; subst. constructor; [exact I|eapply IH; eauto].
    + destruct (ns_lookup x g); [|discriminate].
      destruct (compile t k g r) as [[[g1 f1] x1]|] eqn:E; [|discriminate].
      inversion H; subst. constructor; [exact I|eapply IH; eauto].
    + destruct (compile t k g r) as [[[g1 f1] x1]|] eqn:E; [|discriminate].
      inversion H; subst. constructor; [simpl; apply Hu; left; reflexivity|eapply IH; eauto].
Qed.

Lemma call_ops_nouse mods g p : Forall (op_nouse mods) (call_ops g p).
Proof.
  induction p as [|s r IH]; simpl; [constructor|].
  destruct s; try exact IH; destruct (ns_lookup x g); try exact IH; constructor; auto; exact I.
Qed.

Lemma init_Inv2 g0 st0 mods0 js : no_file_use mods0 js -> Inv2 mods0 (init g0 st0 mods0 js).
Proof.
  intros Hn. split; [reflexivity|split; [|constructor]].
  intros t. unfold init; simpl.
  destruct (threads_of_spec g0 js 0 t) as [H|(j & Hin & H)]; rewrite H; simpl; [constructor|].
  pose proof (Hn j Hin) as Hj.
  destruct j as [p|p|p]; simpl in *.
  - repeat constructor. exact Hj.
  - repeat constructor.
  - repeat constructor. apply call_ops_nouse.
Qed.

Lemma step_Inv2 mods c t : Inv2 mods c -> Inv2 mods (step c t).
Proof.
  intros (Hm & Hops & Htr). unfold step.
  destruct (step_opt c t) as [c'|] eqn:Hs; [|repeat split; assumption].
  unfold step_opt in Hs. pose proof (Hops t) as Ht.
  destruct (t_ops (c_thr c t)) as [|o r] eqn:Hop; [discriminate|].
  inversion Ht as [|? ? Ho Hr]; subst.
  assert (Hframe : forall th' c'', c_thr c'' = upd (c_thr c) t th' ->
            Forall (op_nouse (c_mods c)) (t_ops th') ->
            forall u, Forall (op_nouse (c_mods c)) (t_ops (c_thr c'' u))).
  { intros th' c'' Hthr Hself u. rewrite Hthr. destruct (N.eq_dec u t) as [->|Hne].
    - rewrite upd_same. exact Hself.
    - rewrite upd_other by exact Hne. apply Hops. }
  destruct o; simpl in Ho.
  - destruct (c_w c); [discriminate|]. destruct (c_r c); [|discriminate]. inv_some.
    split; [reflexivity|split; [eapply Hframe; simpl; eauto|exact Htr]].
  - destruct (c_w c) as [u|]; [|discriminate]. destruct (u =? t); [|discriminate]. inv_some.
    split; [reflexivity|split; [eapply Hframe; simpl; eauto|exact Htr]].
  - destruct (c_w c); [discriminate|]. inv_some.
    split; [reflexivity|split; [eapply Hframe; simpl; eauto|exact Htr]].
  - inv_some. split; [reflexivity|split; [eapply Hframe; simpl; eauto|exact Htr]].
  - inv_some. split; [reflexivity|split; [eapply Hframe; simpl; eauto|]].
    simpl. constructor; [simpl; discriminate|exact Htr].
  - inv_some. split; [reflexivity|split; [eapply Hframe; simpl; eauto|]].
    simpl. constructor; [simpl; discriminate|exact Htr].
  - destruct (compile t 0 (t_snap (c_thr c t)) p) as [[[g' fr] xs]|] eqn:Hc; inv_some.
    + split; [reflexivity|split; [|exact Htr]]. eapply Hframe; simpl; eauto.
      constructor; [exact I|constructor; [exact I|]]. eapply compile_nouse; eauto.
    + split; [reflexivity|split; [|exact Htr]]. eapply Hframe; simpl; eauto.
      repeat constructor.
  - inv_some. split; [reflexivity|split; [eapply Hframe; simpl; eauto|]].
    simpl. constructor; [simpl; discriminate|exact Htr].
  - destruct (compile t 0 (t_snap (c_thr c t)) p); inv_some;
      (split; [reflexivity|split; [eapply Hframe; simpl; eauto|exact Htr]]).
  - inv_some. split; [reflexivity|split; [eapply Hframe; simpl; eauto|]].
    simpl. constructor; [simpl; reflexivity|exact Htr].
  - inv_some. split; [reflexivity|split; [eapply Hframe; simpl; eauto|]].
    simpl. constructor; [simpl; discriminate|exact Htr].
  - inv_some. split; [reflexivity|split; [eapply Hframe; simpl; eauto|]].
    simpl. constructor; [simpl; discriminate|exact Htr].
  - rewrite Ho in Hs. inv_some. split; [reflexivity|split; [eapply Hframe; simpl; eauto|]].
    simpl. constructor; [simpl; reflexivity|exact Htr].
  - contradiction.
  - inv_some. split; [reflexivity|split; [eapply Hframe; simpl; eauto|]].
    simpl. constructor; [simpl; discriminate|exact Htr].
Qed.

Lemma race_free_without_use g0 st0 mods0 js sched :
  no_file_use mods0 js -> race_free (c_trace (run sched (init g0 st0 mods0 js))).
Proof.
  intros Hn.
  assert (H2 : Inv2 mods0 (run sched (init g0 st0 mods0 js))).
  { apply run_invariant; [intros; apply step_Inv2; assumption|apply init_Inv2; exact Hn]. }
  destruct H2 as (_ & _ & Hm). rewrite Forall_forall in Hm.
  intros a b Ha Hb.
  destruct (e_loc a) eqn:La;
    try (eapply no_race_outside_modules; eauto; congruence).
  (* both on ev.modules: only reads *)
  unfold race, conflict. destruct (loc_eqb (e_loc a) (e_loc b)) eqn:Hl; [|rewrite andb_false_r; reflexivity].
  rewrite La in Hl. destruct (e_loc b) eqn:Lb; simpl in Hl; try discriminate.
  rewrite (Hm a Ha La), (Hm b Hb Lb). simpl. rewrite andb_false_r. reflexivity.
Qed.

(* ------------------------------------------------------------------ *)
(* the unrestricted statement is false: two threads importing a file module *)

Lemma has_race_spec tr :
  has_race tr = true <-> exists a b, In a tr /\ In b tr /\ race a b = true.
Proof.
  unfold has_race. rewrite anyb_true. split.
  - intros (a & Ha & H). apply anyb_true in H as (b & Hb & H). exists a, b. auto.
  - intros (a & b & Ha & Hb & H). exists a. split; [exact Ha|]. apply anyb_true. exists b. auto.
Qed.

Definition use_witness_jobs : list job := [JEval [SUse 7]; JEval [SUse 7]].
Definition use_witness_sched : list N := serial_sched 0 use_witness_jobs.

Lemma race_free_refuted :
  exists js sched, ~ race_free (c_trace (run sched (init [] [] [] js))).
Proof.
  exists [JEval [SUse 7]; JEval [SUse 8]], (serial_sched 0 [JEval [SUse 7]; JEval [SUse 8]]).
  intros H.
  assert (E : has_race (c_trace (run (serial_sched 0 [JEval [SUse 7]; JEval [SUse 8]])
                                   (init [] [] [] [JEval [SUse 7]; JEval [SUse 8]]))) = true)
    by (vm_compute; reflexivity).
  apply has_race_spec in E as (a & b & Ha & Hb & E). rewrite (H a b Ha Hb) in E. discriminate.
Qed.

(* ------------------------------------------------------------------ *)
(* soundness of the acceptor *)

Definition EnvAgree (a b : senv) : Prop :=
  (forall x v, In (x, v) a -> env_get x b = Some v) /\ (forall x v, In (x, v) b -> env_get x a = Some v).

(* [Replays e order o]: running the jobs of [order] one after the other from
   the variables e yields, for every job, exactly the result observed for it,
   and finally exactly the observed variables *)
Inductive Replays : senv -> list (nat * job) -> obs -> Prop :=
| RNil e o : EnvAgree e (o_final o) -> Replays e [] o
| RCons e i j rest o e' r :
    seq_job e j = (e', r) -> nth_error (o_res o) i = Some r ->
    Replays e' rest o -> Replays e ((i, j) :: rest) o.

Definition SerialOutcome (setup : list stmt) (js : list job) (o : obs) : Prop :=
  length (o_res o) = length js /\
  exists order, Permutation order (index_from 0 js) /\ Replays (setup_env setup) order o.

Lemma env_sub_spec a b :
  env_sub a b = true -> forall x v, In (x, v) a -> env_get x b = Some v.
Proof.
  unfold env_sub. rewrite forallb_forall. intros H x v Hin. specialize (H (x, v) Hin). simpl in H.
  destruct (env_get x b) as [w|]; [|discriminate]. apply N.eqb_eq in H. subst. reflexivity.
Qed.

Lemma env_equiv_spec a b : env_equiv a b = true -> EnvAgree a b.
Proof.
  unfold env_equiv. rewrite andb_true_iff. intros [H1 H2]. split; apply env_sub_spec; assumption.
Qed.

Lemma listN_eqb_eq a b : listN_eqb a b = true -> a = b.
Proof. apply list_eqb_spec. intros; apply N.eqb_eq. Qed.

Lemma result_eqb_eq a b : result_eqb a b = true -> a = b.
Proof.
  unfold result_eqb. rewrite andb_true_iff. intros [H1 H2].
  apply Bool.eqb_prop in H1. apply listN_eqb_eq in H2. destruct a, b; simpl in *; subst; reflexivity.
Qed.

Lemma selects_perm {A} (l : list A) : forall pre x rest,
  In (x, rest) (selects pre l) -> Permutation (x :: rest) (pre ++ l).
Proof.
  induction l as [|y r IH]; intros pre x rest Hin; simpl in Hin; [contradiction|].
  destruct Hin as [Heq|Hin].
  - inversion Heq; subst. rewrite rev_append_rev.
    apply Permutation_trans with (x :: pre ++ r).
    + constructor. apply Permutation_app_tail. apply Permutation_sym, Permutation_rev.
    + apply Permutation_middle.
  - apply IH in Hin. eapply Permutation_trans; [exact Hin|].
    simpl. apply Permutation_middle.
Qed.

Lemma search_sound o : forall fuel e rest,
  (forall i j, In (i, j) rest -> (i < length (o_res o))%nat) ->
  search fuel e rest o = true ->
  exists order, Permutation order rest /\ Replays e order o.
Proof.
  induction fuel as [|f IH]; intros e rest Hidx H; simpl in H; [discriminate|].
  destruct rest as [|p0 rest0].
  - exists []. split; [constructor|]. constructor. apply env_equiv_spec. exact H.
  - apply anyb_true in H as (pick & Hin & H).
    destruct pick as [[i j] rest']. destruct (seq_job e j) as [e' r] eqn:Hj.
    destruct (result_eqb r (nth i (o_res o) dummy_res)) eqn:Hr; [|discriminate].
    apply selects_perm in Hin. simpl in Hin.
    assert (Hidx' : forall i' j', In (i', j') rest' -> (i' < length (o_res o))%nat).
    { intros i' j' Hi. apply (Hidx i' j'). eapply Permutation_in; [exact Hin|]. right; exact Hi. }
    destruct (IH e' rest' Hidx' H) as (order & Hp & Hrep).
    exists ((i, j) :: order). split.
    + eapply Permutation_trans; [|exact Hin]. constructor. exact Hp.
    + econstructor; eauto. apply result_eqb_eq in Hr. rewrite Hr.
      apply nth_error_nth'. apply (Hidx i j). eapply Permutation_in; [exact Hin|]. left; reflexivity.
Qed.

Lemma index_from_bound {A} (l : list A) : forall i k x, In (k, x) (index_from i l) -> (k < i + length l)%nat.
Proof.
  induction l as [|y r IH]; intros i k x Hin; simpl in Hin; [contradiction|].
  destruct Hin as [Heq|Hin].
  - inversion Heq; subst. simpl. lia.
  - apply IH in Hin. simpl. lia.
Qed.

Lemma serial_outcome_ok_sound setup js o :
  serial_outcome_ok setup js o = true -> SerialOutcome setup js o.
Proof.
  unfold serial_outcome_ok. rewrite andb_true_iff. intros [Hl Hs].
  apply Nat.eqb_eq in Hl. split; [exact Hl|].
  eapply search_sound; [|exact Hs].
  intros i j Hin. apply index_from_bound in Hin. lia.
Qed.
