(* C01 — termination of the parser model: the leaf loops end within their fuel
   [lfuel = S (len src)] (every iteration consumes at least one byte or
   exits); the node parsers make progress (Primary/Indexing/Compound consume at
   least one byte when the next rune can start them, MapPair on an ampersand,
   Redir on a redirection sign); and, by a rank/fuel induction over the 18
   mutually recursive bodies ([FUELK*(len-pos) + rank <= fuel] suffices, a call
   without guaranteed progress going to a lower rank), parse_model never runs
   out of fuel. *)
From verif Require Import lib.Base lib.Utf8 lib.ListX gen.Consts model.C01_Parse model.C01
  proofs.C01_proofs proofs.C01_Utf8_proofs proofs.C01_Parse_proofs.
From Coq Require Import Arith Lia ZArith.
Open Scope nat_scope.

Section T.
Variable is_print : N -> bool.
Variable src : bytes.
Notation n := (length src).
Notation peek := (peek src).
Notation adv := (adv src).
Notation SI := (SI src).

Lemma peek_not_eof ps : pos ps <= n -> peek ps <> EOF -> pos ps < n.
Proof.
  intros H Hp. destruct (Nat.eq_dec (pos ps) n) as [E|E]; [|lia].
  exfalso. apply Hp. now apply peek_eof.
Qed.

Lemma adv_fuel ps fu : SI ps -> peek ps <> EOF -> n - pos ps < S fu ->
  SI (adv ps) /\ n - pos (adv ps) < fu.
Proof.
  intros H Hp Hf. destruct (adv_spec is_print src ps H) as [A [B [C _]]].
  assert (pos ps < n) as L by (apply peek_not_eof; auto; apply H).
  specialize (C L). split; auto. lia.
Qed.

Lemma SI_le ps : SI ps -> pos ps <= n.
Proof. intros H. apply H. Qed.

Lemma commentLoop_total fu : forall ps, SI ps -> n - pos ps < fu ->
  exists ps', commentLoop src fu ps = Some ps'.
Proof.
  induction fu as [|fu IH]; intros ps H Hf; [lia|]. cbn [commentLoop].
  destruct (Z.eqb_spec (peek ps) EOF) as [E|E]; cbn [orb]; [eauto|].
  destruct (_ || _); [eauto|].
  destruct (adv_fuel ps fu H E Hf) as [A B]. now apply IH.
Qed.

Lemma simpleLoop_total (cond : pst -> bool) (loop : nat -> pst -> option pst) :
  (forall fu ps, loop (S fu) ps = if cond ps then loop fu (adv ps) else Some ps) ->
  (forall ps, cond ps = true -> peek ps <> EOF) ->
  forall fu ps, SI ps -> n - pos ps < fu -> exists ps', loop fu ps = Some ps'.
Proof.
  intros HS Hc. induction fu as [|fu IH]; intros ps H Hf; [lia|]. rewrite HS.
  destruct (cond ps) eqn:C; [|eauto].
  destruct (adv_fuel ps fu H (Hc _ C) Hf) as [A B]. now apply IH.
Qed.

Lemma neg_not_allowed r : (r < 0)%Z -> allowedInVariableName is_print r = false.
Proof.
  intros H. unfold allowedInVariableName.
  repeat match goal with |- context [Z.leb ?a ?b] => destruct (Z.leb_spec a b); try lia end;
  repeat match goal with |- context [Z.eqb ?a ?b] => destruct (Z.eqb_spec a b); try lia end;
  try reflexivity.
Qed.

Lemma neg_not_bareword r ctx : (r < 0)%Z -> allowedInBareword is_print r ctx = false.
Proof.
  intros H. unfold allowedInBareword. rewrite (neg_not_allowed r H).
  repeat match goal with |- context [Z.eqb ?a ?b] => destruct (Z.eqb_spec a b); try lia end;
  try (cbn; now rewrite !andb_false_r).
Qed.

Lemma EOF_neg : (EOF < 0)%Z.
Proof. unfold EOF, pkg_parse.eof. lia. Qed.

Lemma redirSignLoop_total ps : SI ps -> exists ps', redirSignLoop src (lfuel src) ps = Some ps'.
Proof.
  intros H. apply (simpleLoop_total (fun ps => isRedirSign (peek ps)) (redirSignLoop src)); auto.
  - intros q C E. rewrite E in C. discriminate.
  - pose proof (SI_le _ H). unfold lfuel, C01_Parse.n. lia.
Qed.

Lemma barewordLoop_total ctx ps : SI ps -> exists ps', barewordLoop is_print src (lfuel src) ctx ps = Some ps'.
Proof.
  intros H. apply (simpleLoop_total (fun ps => allowedInBareword is_print (peek ps) ctx)
                                    (fun fu => barewordLoop is_print src fu ctx)); auto.
  - intros q C E. rewrite E, (neg_not_bareword _ _ EOF_neg) in C. discriminate.
  - pose proof (SI_le _ H). unfold lfuel, C01_Parse.n. lia.
Qed.

Lemma varNameLoop_total ps : SI ps -> exists ps', varNameLoop is_print src (lfuel src) ps = Some ps'.
Proof.
  intros H. apply (simpleLoop_total (fun ps => allowedInVariableName is_print (peek ps))
                                    (varNameLoop is_print src)); auto.
  - intros q C E. rewrite E, (neg_not_allowed _ EOF_neg) in C. discriminate.
  - pose proof (SI_le _ H). unfold lfuel, C01_Parse.n. lia.
Qed.

Lemma starLoop_total ps : SI ps -> exists ps', starLoop src (lfuel src) ps = Some ps'.
Proof.
  intros H. apply (simpleLoop_total (fun ps => Z.eqb (peek ps) 42) (starLoop src)); auto.
  - intros q C E. rewrite E in C. discriminate.
  - pose proof (SI_le _ H). unfold lfuel, C01_Parse.n. lia.
Qed.

Lemma singleQuotedInner_total fu : forall ps, SI ps -> n - pos ps < fu ->
  exists ps', singleQuotedInner src fu ps = Some ps'.
Proof.
  induction fu as [|fu IH]; intros ps H Hf; [lia|]. cbn [singleQuotedInner].
  rewrite (next_adv src).
  destruct (Z.eqb_spec (peek ps) EOF) as [E|E]; [eauto|].
  destruct (adv_fuel ps fu H E Hf) as [A B].
  destruct (Z.eqb (peek ps) 39); [|now apply IH].
  destruct (Z.eqb (peek (adv ps)) 39); [|eauto].
  destruct (adv_spec is_print src _ A) as [A2 [B2 _]]. apply IH; auto. lia.
Qed.

Lemma doubleQuotedInner_total fu : forall ps, SI ps -> n - pos ps < fu ->
  exists ps', doubleQuotedInner src fu ps = Some ps'.
Proof.
  induction fu as [|fu IH]; intros ps H Hf; [lia|]. cbn [doubleQuotedInner].
  rewrite (next_adv src).
  destruct (Z.eqb_spec (peek ps) EOF) as [E|E]; [eauto|].
  destruct (adv_fuel ps fu H E Hf) as [A B].
  destruct (Z.eqb (peek ps) 34); [eauto|].
  destruct (Z.eqb (peek ps) 92); [|now apply IH].
  rewrite (next_adv src).
  destruct (adv_spec is_print src _ A) as [A2 [B2 _]].
  destruct (_ || _).
  { rewrite (next_adv src). destruct (adv_spec is_print src _ A2) as [A3 [B3 _]].
    destruct (_ || _).
    - destruct (backup_error_adv is_print src errInvalidEscapeControl _ A2) as [C1 C2].
      apply IH; auto. lia.
    - apply IH; auto. lia. }
  destruct (_ || _).
  { match goal with |- context [hexLoop src ?k ?p] => pose proof (hexLoop_ok is_print src k p A2) as [X1 X2] end.
    apply IH; auto. lia. }
  destruct (_ && _).
  { pose proof (octLoop_ok is_print src 2 (peek (adv ps) - 48)%Z _ A2) as O.
    destruct (octLoop src 2 _ _) as [rr ps3]. cbn [snd] in O. destruct O as [X1 X2].
    destruct (Z.leb rr 255); apply IH; auto; try lia.
    - now apply errorp_SI.
    - cbn. lia. }
  destruct (isDoubleEscape _); [apply IH; auto; lia|].
  destruct (backup_error_adv is_print src errInvalidEscape _ A) as [C1 C2].
  apply IH; auto. lia.
Qed.

Lemma spacesLoop_total fu nl : forall ps, SI ps -> n - pos ps < fu ->
  exists ps', spacesLoop src fu nl ps = Some ps'.
Proof.
  induction fu as [|fu IH]; intros ps H Hf; [lia|]. cbn [spacesLoop].
  assert (forall r, (0 <= r)%Z -> peek ps = r -> peek ps <> EOF) as NE.
  { intros r Hr E E2. rewrite E2 in E. pose proof EOF_neg. lia. }
  destruct (isInlineWhitespace (peek ps)) eqn:W.
  { assert (peek ps <> EOF) as E by (intros E; rewrite E in W; discriminate).
    destruct (adv_fuel ps fu H E Hf) as [A B]. now apply IH. }
  destruct (nl && isWhitespace (peek ps)) eqn:W2.
  { assert (peek ps <> EOF) as E.
    { intros E; rewrite E in W2. now rewrite andb_false_r in W2. }
    destruct (adv_fuel ps fu H E Hf) as [A B]. now apply IH. }
  destruct (Z.eqb_spec (peek ps) 35) as [P|P].
  { destruct (adv_fuel ps fu H (NE 35%Z ltac:(lia) P) Hf) as [A B].
    destruct (commentLoop_total (lfuel src) (adv ps) A) as [ps1 C].
    { pose proof (SI_le _ A). unfold lfuel, C01_Parse.n. lia. }
    rewrite C. destruct (commentLoop_ok is_print src _ _ _ A C) as [C1 C2]. apply IH; auto. lia. }
  destruct (Z.eqb_spec (peek ps) 94) as [P2|P2]; [|eauto].
  destruct (adv_fuel ps fu H (NE 94%Z ltac:(lia) P2) Hf) as [A B].
  destruct (adv_spec is_print src _ A) as [A2 [B2 _]].
  destruct (Z.eqb (peek (adv ps)) 13).
  { destruct (Z.eqb (peek (adv (adv ps))) 10).
    - destruct (adv_spec is_print src _ A2) as [A3 [B3 _]]. apply IH; auto. lia.
    - apply IH; auto. lia. }
  destruct (Z.eqb (peek (adv ps)) 10); [apply IH; auto; lia|].
  destruct (Z.eqb (peek (adv ps)) EOF); [|eauto].
  apply IH; [now apply error_SI|cbn; lia].
Qed.

Lemma parseSpacesInner_total b ps nl : SI ps -> exists r, parseSpacesInner src b ps nl = Some r.
Proof.
  intros H. unfold parseSpacesInner.
  destruct (spacesLoop_total (lfuel src) nl ps H) as [ps1 E].
  { pose proof (SI_le _ H). unfold lfuel, C01_Parse.n. lia. }
  rewrite E. eauto.
Qed.

Lemma variable_total ps : SI ps -> exists ps', variable is_print src ps = Some ps'.
Proof.
  intros H. unfold variable. rewrite (next_adv src).
  destruct (adv_spec is_print src _ H) as [A [B _]].
  destruct (adv_spec is_print src _ A) as [A2 [B2 _]].
  assert (forall q, SI q -> n - pos q < lfuel src) as LF.
  { intros q Hq. pose proof (SI_le _ Hq). unfold lfuel, C01_Parse.n. lia. }
  destruct (Z.eqb _ EOF); [eauto|].
  destruct (Z.eqb _ 39); [apply singleQuotedInner_total; auto|].
  destruct (Z.eqb _ 34); [apply doubleQuotedInner_total; auto|].
  destruct (_ && _).
  - rewrite (backup_adv is_print src _ A). apply varNameLoop_total. now apply error_SI.
  - now apply varNameLoop_total.
Qed.

End T.

(* all leaf loops terminate within their fuel, in every reachable parser state *)
Lemma leaf_loops_total is_print src ps : SI src ps ->
  (forall b nl, exists r, parseSpacesInner src b ps nl = Some r)
  /\ (exists q, redirSignLoop src (lfuel src) ps = Some q)
  /\ (forall ctx, exists q, barewordLoop is_print src (lfuel src) ctx ps = Some q)
  /\ (exists q, varNameLoop is_print src (lfuel src) ps = Some q)
  /\ (exists q, starLoop src (lfuel src) ps = Some q)
  /\ (exists q, singleQuotedInner src (lfuel src) ps = Some q)
  /\ (exists q, doubleQuotedInner src (lfuel src) ps = Some q)
  /\ (exists q, variable is_print src ps = Some q).
Proof.
  intros H.
  assert (length src - pos ps < lfuel src) as LF.
  { pose proof (SI_le src _ H). unfold lfuel, C01_Parse.n. lia. }
  split; [intros; now apply (parseSpacesInner_total is_print)|].
  split; [now apply (redirSignLoop_total is_print)|].
  split; [intros; now apply barewordLoop_total|].
  split; [now apply varNameLoop_total|].
  split; [now apply (starLoop_total is_print)|].
  split; [now apply (singleQuotedInner_total is_print)|].
  split; [now apply (doubleQuotedInner_total is_print)|].
  now apply variable_total.
Qed.

(* ------------------------------------------------------------------------ *)
(* progress of the node parsers: what the loops that call them rely on      *)
Section TT.
Variable is_print : N -> bool.
Variable src : bytes.
Notation n := (length src).
Notation peek := (peek src).
Notation adv := (adv src).
Notation SI := (SI src).
Notation BF := (BF src).
Notation LoopOK := (LoopOK src).

(* ---- progress of the node parsers ---- *)
Record Prog (c : callees) : Prop := mkProg {
  pPrimary : forall ctx ps t ps', SI ps -> startsPrimary is_print (peek ps) ctx = true ->
    cPrimary c ctx ps = Some (t, ps') -> pos ps < pos ps';
  pIndexing : forall ctx ps t ps', SI ps -> startsPrimary is_print (peek ps) ctx = true ->
    cIndexing c ctx ps = Some (t, ps') -> pos ps < pos ps';
  pCompoundLoop : forall ctx b ps b' ps', SI ps -> BF b (pos ps) ->
    startsPrimary is_print (peek ps) ctx = true ->
    cCompoundLoop c ctx b ps = Some (b', ps') -> pos ps < pos ps';
  pCompound : forall ctx ps t ps', SI ps -> startsPrimary is_print (peek ps) ctx = true ->
    cCompound c ctx ps = Some (t, ps') -> pos ps < pos ps';
  pMapPair : forall ps t ps', SI ps -> peek ps = 38%Z ->
    cMapPair c ps = Some (t, ps') -> pos ps < pos ps';
  pRedir : forall left ps t ps', SI ps -> isRedirSign (peek ps) = true -> left_ok src left ps ->
    cRedir c left ps = Some (t, ps') -> pos ps < pos ps'
}.

Lemma Prog0 : Prog callees0.
Proof. constructor; intros; discriminate. Qed.

Lemma starts_not_eof ctx ps : startsPrimary is_print (peek ps) ctx = true -> peek ps <> EOF.
Proof.
  intros H E. rewrite E in H. unfold startsPrimary in H.
  rewrite (neg_not_bareword is_print _ _ EOF_neg) in H. discriminate.
Qed.

Lemma adv_strict ps : SI ps -> peek ps <> EOF -> pos ps < pos (adv ps).
Proof.
  intros H E. destruct (adv_spec is_print src ps H) as [A [_ [C _]]].
  apply C. apply (peek_not_eof src); auto. apply H.
Qed.

Lemma LoopOK_le b ps b' ps' : LoopOK b ps b' ps' -> pos ps <= pos ps'.
Proof. intros L. apply L. Qed.

Lemma parseSep_strict b ps sep b' ps' : SI ps ->
  parseSep src b ps sep = (true, b', ps') -> peek ps <> EOF -> pos ps < pos ps'.
Proof.
  intros H E NE. unfold parseSep in E. destruct (Z.eqb _ _); inversion E; subst. now apply adv_strict.
Qed.

Lemma parseSep_peek b ps sep : peek ps = sep -> parseSep src b ps sep = (true, C01_Parse.addSep src b (adv ps), adv ps).
Proof. intros E. unfold parseSep. now rewrite E, Z.eqb_refl. Qed.

Section Step.
Variable c : callees.
Hypothesis G : Good src c.
Hypothesis P : Prog c.

Ltac ext L R :=
  let L' := fresh "L" in
  pose proof (LoopOK_trans src _ _ _ _ _ _ L R) as L'; clear L; rename L' into L.
Tactic Notation "dopt" hyp(E) "as" simple_intropattern(p) ident(Q) :=
  match type of E with
  | match ?x with Some _ => _ | None => None end = Some _ =>
    destruct x as [p|] eqn:Q; [|discriminate E]
  end.
Tactic Notation "dlet" hyp(E) "as" simple_intropattern(p) ident(Q) :=
  match type of E with
  | (let '(_, _) := ?x in _) = Some _ => destruct x as p eqn:Q
  end.
Ltac sSI L := constr:(LoopOK_SI src _ _ _ _ L).
Ltac ext_node L S Q :=
  ext L (push_node src _ _ _ _ (LoopOK_BF src _ _ _ _ L) (proj1 (S _ _ _ (LoopOK_SI src _ _ _ _ L) Q))).
Ltac ext_spaces L Q :=
  ext L (parseSpacesInner_ok is_print src _ _ _ _ _ (LoopOK_SI src _ _ _ _ L) (LoopOK_BI src _ _ _ _ L) Q).
Ltac ext_loop L S Q :=
  ext L (S _ _ _ _ (LoopOK_SI src _ _ _ _ L) (LoopOK_BF src _ _ _ _ L) Q).
Ltac ext_loopx L S Q :=
  ext L (S _ _ _ _ _ (LoopOK_SI src _ _ _ _ L) (LoopOK_BF src _ _ _ _ L) Q).
Ltac ext_sep L Q :=
  ext L (proj1 (parseSep_ok is_print src _ _ _ _ _ _ (LoopOK_SI src _ _ _ _ L) (LoopOK_BF src _ _ _ _ L) Q)).
Ltac ext_expect L Q :=
  ext L (expectSep_ok is_print src _ _ _ _ _ _ (LoopOK_SI src _ _ _ _ L) (LoopOK_BF src _ _ _ _ L) Q).
(* forget the past: a fresh chain rooted at the current state *)
Ltac reroot L :=
  let L' := fresh "L" in
  pose proof (LoopOK_refl src _ _ (LoopOK_SI src _ _ _ _ L) (LoopOK_BF src _ _ _ _ L)) as L';
  clear L; rename L' into L.
Ltac le_of L := let X := fresh "Le" in pose proof (LoopOK_le _ _ _ _ L) as X.

Lemma indexing_prog ctx ps t ps' : SI ps -> startsPrimary is_print (peek ps) ctx = true ->
  indexing_body src c ctx ps = Some (t, ps') -> pos ps < pos ps'.
Proof.
  intros H SP E. unfold indexing_body in E.
  pose proof (LoopOK_start src _ H) as L.
  dopt E as [t1 ps1] Q1. pose proof (pPrimary c P _ _ _ _ H SP Q1) as Lt.
  ext_node L (gPrimary src c G ctx) Q1. reroot L.
  dopt E as [b2 ps2] Q2. ext_loop L (gIndexingLoop src c G) Q2. le_of L.
  inversion E; subst. lia.
Qed.

Lemma compoundLoop_prog ctx b ps b' ps' : SI ps -> BF b (pos ps) ->
  startsPrimary is_print (peek ps) ctx = true ->
  compoundLoop_body is_print src c ctx b ps = Some (b', ps') -> pos ps < pos ps'.
Proof.
  intros H HB SP E. unfold compoundLoop_body, startsIndexing in E. rewrite SP in E.
  pose proof (LoopOK_refl src _ _ H HB) as L.
  dopt E as [t1 ps1] Q1. pose proof (pIndexing c P _ _ _ _ H SP Q1) as Lt.
  ext_node L (gIndexing src c G ctx) Q1. reroot L.
  ext_loop L (gCompoundLoop src c G ctx) E. le_of L. lia.
Qed.

Lemma compound_prog ctx ps t ps' : SI ps -> startsPrimary is_print (peek ps) ctx = true ->
  compound_body src c ctx ps = Some (t, ps') -> pos ps < pos ps'.
Proof.
  intros H SP E.
  destruct (compound_ok is_print src c G ctx ps t ps' H E) as [N _].
  unfold compound_body in E.
  destruct (Z.eqb_spec (peek ps) 126) as [Tl|Tl].
  - (* tilde consumed *)
    pose proof (adv_strict _ H (starts_not_eof _ _ SP)) as Lt.
    match type of E with context [cCompoundLoop c ctx ?b ?p] =>
      assert (BF b (pos p)) as HB end.
    { destruct (peek_ascii is_print src ps 126 H Tl ltac:(reflexivity)) as [Hlt [Sk Pa]].
      rewrite Pa. replace (S (pos ps) - 1) with (pos ps) by lia.
      assert (Tx : [126%N] = slice src (pos ps) (S (pos ps))).
      { unfold slice. replace (S (pos ps) - pos ps) with 1 by lia. now rewrite Sk. }
      assert (C01_proofs.WF src (T KIndexing NormalExpr (pos ps) (S (pos ps)) [126%N]
                   [T KPrimary PTilde (pos ps) (S (pos ps)) [126%N] []])) as Wi.
      { constructor; auto; try lia; [intros _; cbn; auto|].
        repeat constructor; auto; try lia. congruence. }
      pose proof (push_ok src _ (pos ps) _ (BF_empty src _) Wi eq_refl) as X. cbn [t_to] in X. exact X. }
    destruct (adv_spec is_print src _ H) as [H1 _].
    pose proof (LoopOK_refl src _ _ H1 HB) as L.
    cbv zeta in E. dopt E as [b2 ps2] Q2. ext_loop L (gCompoundLoop src c G ctx) Q2. le_of L.
    inversion E; subst. lia.
  - cbv zeta in E. dopt E as [b2 ps2] Q2.
    pose proof (pCompoundLoop c P _ _ _ _ _ H (BF_empty src _) SP Q2) as Lt.
    inversion E; subst. exact Lt.
Qed.

Lemma mapPair_prog ps t ps' : SI ps -> peek ps = 38%Z ->
  mapPair_body src c ps = Some (t, ps') -> pos ps < pos ps'.
Proof.
  intros H P38 E. unfold mapPair_body in E.
  pose proof (LoopOK_start src _ H) as L.
  rewrite (parseSep_peek _ _ _ P38) in E.
  assert (peek ps <> EOF) as NE by (rewrite P38; unfold EOF, pkg_parse.eof; lia).
  pose proof (adv_strict _ H NE) as Lt.
  ext L (adv_addSep_ok is_print src _ _ (LoopOK_SI src _ _ _ _ L) (LoopOK_BI src _ _ _ _ L)).
  reroot L.
  dopt E as [k2 ps2] Q2. ext_node L (gCompound src c G LHSExpr) Q2.
  match type of E with context [parseSep src _ ?p 61%Z] => set (ps3 := p) in * end.
  assert (LoopOK (C01_Parse.addSep src (mkNb (pos ps) []) (adv ps)) (adv ps) (push k2 (C01_Parse.addSep src (mkNb (pos ps) []) (adv ps))) ps3) as L3.
  { unfold ps3. destruct (t_ch k2); [now apply LoopOK_error|exact L]. }
  clear L. dlet E as [[eq4 b4] ps4] Q4. ext_sep L3 Q4.
  destruct eq4.
  - dopt E as [b5 ps5] Q5. ext_spaces L3 Q5.
    dopt E as [v6 ps6] Q6. ext_node L3 (gCompound src c G NormalExpr) Q6. le_of L3.
    inversion E; subst. lia.
  - le_of L3. inversion E; subst. lia.
Qed.

Lemma redir_prog left ps t ps' : SI ps -> isRedirSign (peek ps) = true -> left_ok src left ps ->
  redir_body src c left ps = Some (t, ps') -> pos ps < pos ps'.
Proof.
  intros H RS HL E.
  destruct (redir_ok is_print src c G left ps t ps' H RS HL E) as [S' [W [T F]]].
  (* the sign is consumed and the node ends where parsing stopped *)
  unfold redir_body in E.
  dopt E as ps1 Q1.
  destruct (redirSignLoop_ok is_print src _ _ _ H Q1) as [[S1 Le1] Lt1].
  assert (pos ps < n) as Hlt by (apply (peek_nonneg src); [apply H|now apply peek_sign_nonneg]).
  specialize (Lt1 RS Hlt).
  match type of E with (let '(_, _) := ?x in _) = _ => destruct x as [mode ps2] eqn:Q2 end.
  assert (SI ps2 /\ pos ps2 = pos ps1) as [S2 P2].
  { repeat (match type of Q2 with (if ?x then _ else _) = _ => destruct x end);
      inversion Q2; subst; split; auto; now apply error_SI. }
  match type of E with context [parseSpaces src ?b ps2] => set (b1 := b) in * end.
  assert (BF b1 (pos ps2)) as HB1.
  { unfold b1. apply addSep_ok; [apply S2|].
    destruct left as [l|].
    - destruct HL as [Wl Tl]. pose proof (WF_range src _ Wl) as [R1 R2].
      unfold BI, cover; cbn [nb_ch nb_from rev app chain]. repeat split; auto; lia.
    - apply (BI_mono src _ (pos ps)); [apply BF_empty|lia]. }
  pose proof (LoopOK_refl src _ _ S2 HB1) as L.
  dopt E as [b2 ps3] Q3. ext_spaces L Q3.
  dlet E as [[isfd b3] ps4] Q4. ext_sep L Q4.
  dopt E as [t5 ps5] Q5. ext_node L (gCompound src c G NormalExpr) Q5. le_of L.
  inversion E; subst. destruct (t_ch t5); cbn [pos C01_Parse.error errorp]; lia.
Qed.


Lemma primary_prog ctx ps t ps' : SI ps -> startsPrimary is_print (peek ps) ctx = true ->
  primary_body is_print src c ctx ps = Some (t, ps') -> pos ps < pos ps'.
Proof.
  intros H SP E.
  pose proof (starts_not_eof _ _ SP) as NE.
  pose proof (adv_strict _ H NE) as Lt1.
  destruct (adv_spec is_print src _ H) as [H1 _].
  unfold primary_body in E. cbv zeta in E. rewrite SP in E. cbn [negb] in E.
  destruct (allowedInBareword is_print (peek ps) ctx) eqn:AB.
  { dopt E as ps1 Q1. inversion E; subst. destruct (barewordLoop_ok is_print src _ _ _ _ H Q1) as [_ B].
    apply B; auto. apply (peek_not_eof src); auto. apply H. }
  destruct (Z.eqb (peek ps) 39) eqn:P39.
  { dopt E as ps1 Q1. inversion E; subst. destruct (singleQuotedInner_ok is_print src _ _ _ H1 Q1) as [_ B]. lia. }
  destruct (Z.eqb (peek ps) 34) eqn:P34.
  { dopt E as ps1 Q1. inversion E; subst. destruct (doubleQuotedInner_ok is_print src _ _ _ H1 Q1) as [_ B]. lia. }
  destruct (Z.eqb (peek ps) 36) eqn:P36; [apply Z.eqb_eq in P36|].
  { dopt E as ps1 Q1. inversion E; subst.
    destruct (variable_ok is_print src _ _ H ltac:(lia) Q1) as [_ B]. exact B. }
  destruct (Z.eqb (peek ps) 42) eqn:P42.
  { dopt E as ps1 Q1. inversion E; subst. destruct (starLoop_ok is_print src _ _ _ H Q1) as [_ B].
    apply B; auto. apply (peek_not_eof src); auto. apply H. }
  pose proof (LoopOK_start src _ H) as L.
  destruct (Z.eqb (peek ps) 63) eqn:P63.
  { destruct (hasPrefix2 _ _ _ _).
    - ext L (adv2_addSep_ok is_print src _ _ (LoopOK_SI src _ _ _ _ L) (LoopOK_BI src _ _ _ _ L)).
      destruct (adv_spec is_print src _ H1) as [_ [Le2 _]]. reroot L.
      dopt E as [t2 ps2] Q2. ext_node L (gChunk src c G) Q2.
      dlet E as [b3 ps3] Q3. ext_expect L Q3. le_of L. inversion E; subst. lia.
    - inversion E; subst. exact Lt1. }
  destruct (Z.eqb (peek ps) 40) eqn:P40; [apply Z.eqb_eq in P40|].
  { rewrite (parseSep_peek _ _ _ P40) in E.
    ext L (adv_addSep_ok is_print src _ _ (LoopOK_SI src _ _ _ _ L) (LoopOK_BI src _ _ _ _ L)). reroot L.
    dopt E as [t2 ps2] Q2. ext_node L (gChunk src c G) Q2.
    dlet E as [b3 ps3] Q3. ext_expect L Q3. le_of L. inversion E; subst. lia. }
  destruct (Z.eqb (peek ps) 91) eqn:P91; [apply Z.eqb_eq in P91|].
  { rewrite (parseSep_peek _ _ _ P91) in E.
    ext L (adv_addSep_ok is_print src _ _ (LoopOK_SI src _ _ _ _ L) (LoopOK_BI src _ _ _ _ L)). reroot L.
    dopt E as [b2 ps2] Q2. ext_spaces L Q2.
    dopt E as [[b3 ps3] fl] Q3. ext_loopx L (gLbracketLoop src c G false false) Q3.
    destruct fl as [[lone hasP] hasE].
    dlet E as [b4 ps4] Q4. ext_expect L Q4. le_of L.
    destruct (lone || hasP); inversion E; subst; [destruct hasE|]; cbn [pos C01_Parse.error errorp]; lia. }
  destruct (Z.eqb (peek ps) 123) eqn:P123; [apply Z.eqb_eq in P123|exfalso].
  2:{ (* startsPrimary but none of the cases: impossible *)
      unfold startsPrimary in SP. rewrite AB, P39, P34, P36, P42, P63, P40, P91, P123 in SP. discriminate. }
  rewrite (parseSep_peek _ _ _ P123) in E.
  ext L (adv_addSep_ok is_print src _ _ (LoopOK_SI src _ _ _ _ L) (LoopOK_BI src _ _ _ _ L)). reroot L.
  match type of E with (if ?x then _ else _) = _ => destruct x end.
  - dopt E as [b2 ps2] Q2. ext_spaces L Q2.
    dlet E as [[bar b3] ps3] Q3. ext_sep L Q3.
    dopt E as [b6 ps6] Q6.
    assert (pos (adv ps) <= pos ps6 /\ SI ps6 /\ BF b6 (pos ps6)) as [Le6 [S6 B6]].
    { destruct bar; [|inversion Q6; subst; split; [apply L|split; apply L]].
      dopt Q6 as [b4 ps4] Q4. ext_spaces L Q4.
      dopt Q6 as [b5 ps5] Q5. ext_loop L (gLambdaLoop src c G) Q5.
      inversion Q6 as [Q7]. ext_expect L Q7. split; [apply L|split; apply L]. }
    clear L. pose proof (LoopOK_refl src _ _ S6 B6) as L.
    dopt E as [t7 ps7] Q7. ext_node L (gChunk src c G) Q7.
    dlet E as [b8 ps8] Q8. ext_expect L Q8. le_of L. inversion E; subst. lia.
  - dopt E as [t2 ps2] Q2. ext_node L (gCompound src c G BracedElemExpr) Q2.
    dopt E as [b3 ps3] Q3. ext_loop L (gBracedLoop src c G) Q3.
    dlet E as [b4 ps4] Q4. ext_expect L Q4. le_of L. inversion E; subst. lia.
Qed.

Lemma step_prog : Prog (step is_print src c).
Proof.
  constructor; cbn [step cPrimary cIndexing cCompoundLoop cCompound cMapPair cRedir]; intros.
  - eapply primary_prog; eauto.
  - eapply indexing_prog; eauto.
  - eapply compoundLoop_prog; eauto.
  - eapply compound_prog; eauto.
  - eapply mapPair_prog; eauto.
  - eapply redir_prog; eauto.
Qed.

End Step.


(* ------------------------------------------------------------------------ *)
(* termination of the node parsers within the fuel bound                     *)

Lemma spacesLoop_progress fu nl ps ps' : SI ps ->
  isInlineWhitespace (peek ps) || Z.eqb (peek ps) 35 || (nl && isWhitespace (peek ps)) = true ->
  spacesLoop src fu nl ps = Some ps' -> pos ps < pos ps'.
Proof.
  intros H C E. destruct fu as [|fu]; [discriminate|]. cbn [spacesLoop] in E.
  assert (peek ps <> EOF) as NE.
  { intros X. rewrite X in C. cbn in C. now rewrite andb_false_r in C. }
  pose proof (adv_strict _ H NE) as Lt. destruct (adv_spec is_print src _ H) as [H1 _].
  destruct (isInlineWhitespace (peek ps)).
  { destruct (spacesLoop_ok is_print src _ _ _ _ H1 E) as [_ B]. lia. }
  destruct (nl && isWhitespace (peek ps)).
  { destruct (spacesLoop_ok is_print src _ _ _ _ H1 E) as [_ B]. lia. }
  cbn [orb] in C. rewrite orb_false_r in C. rewrite C in E.
  destruct (commentLoop src (lfuel src) (adv ps)) as [ps1|] eqn:Q; [|discriminate].
  destruct (commentLoop_ok is_print src _ _ _ H1 Q) as [S1 B1].
  destruct (spacesLoop_ok is_print src _ _ _ _ S1 E) as [_ B]. lia.
Qed.

Lemma parseSpaces_progress b ps nl b' ps' : SI ps ->
  isInlineWhitespace (peek ps) || Z.eqb (peek ps) 35 || (nl && isWhitespace (peek ps)) = true ->
  parseSpacesInner src b ps nl = Some (b', ps') -> pos ps < pos ps'.
Proof.
  intros H C E. unfold parseSpacesInner in E.
  destruct (spacesLoop src (lfuel src) nl ps) as [ps1|] eqn:Q; [|discriminate].
  inversion E; subst. eapply spacesLoop_progress; eauto.
Qed.

Lemma parseSepsLoop_total fu : forall b ps any, SI ps -> BF b (pos ps) -> n - pos ps < fu ->
  exists r, parseSepsLoop src fu b ps any = Some r.
Proof.
  induction fu as [|fu IH]; intros b ps any H HB Hf; [lia|]. cbn [parseSepsLoop].
  destruct (isPipelineSep (peek ps)) eqn:PS.
  - assert (peek ps <> EOF) as NE by (intros E; rewrite E in PS; discriminate).
    rewrite (parseSep_peek b ps (peek ps) eq_refl).
    pose proof (adv_addSep_ok is_print src b ps H (proj1 HB)) as L.
    pose proof (adv_strict _ H NE). pose proof (SI_le src _ (LoopOK_SI src _ _ _ _ L)).
    apply IH; [apply L|apply L|lia].
  - destruct (isInlineWhitespace (peek ps) || Z.eqb (peek ps) 35) eqn:C; [|eauto].
    destruct (parseSpacesInner_total is_print src b ps false H) as [[b1 ps1] Q]. unfold parseSpaces. rewrite Q.
    pose proof (parseSpacesInner_ok is_print src _ _ _ _ _ H (proj1 HB) Q) as L.
    assert (pos ps < pos ps1) as Lt.
    { eapply parseSpaces_progress; eauto. now rewrite C. }
    pose proof (SI_le src _ (LoopOK_SI src _ _ _ _ L)).
    apply IH; [apply L|apply L|lia].
Qed.

Lemma parseSepsLoop_progress fu : forall b ps any b' ps', SI ps -> BF b (pos ps) ->
  parseSepsLoop src fu b ps any = Some (b', ps', true) -> any = true \/ pos ps < pos ps'.
Proof.
  induction fu as [|fu IH]; intros b ps any b' ps' H HB E; [discriminate|]. cbn [parseSepsLoop] in E.
  destruct (isPipelineSep (peek ps)) eqn:PS.
  - assert (peek ps <> EOF) as NE by (intros X; rewrite X in PS; discriminate).
    rewrite (parseSep_peek b ps (peek ps) eq_refl) in E.
    pose proof (adv_addSep_ok is_print src b ps H (proj1 HB)) as L.
    pose proof (adv_strict _ H NE).
    pose proof (parseSepsLoop_ok is_print src _ _ _ _ _ _ _ (LoopOK_SI src _ _ _ _ L) (LoopOK_BF src _ _ _ _ L) E) as L2.
    pose proof (LoopOK_le _ _ _ _ L2). right. lia.
  - destruct (isInlineWhitespace (peek ps) || Z.eqb (peek ps) 35) eqn:C.
    + unfold parseSpaces in E. destruct (parseSpacesInner src b ps false) as [[b1 ps1]|] eqn:Q; [|discriminate].
      pose proof (parseSpacesInner_ok is_print src _ _ _ _ _ H (proj1 HB) Q) as L.
      destruct (IH _ _ _ _ _ (LoopOK_SI src _ _ _ _ L) (LoopOK_BF src _ _ _ _ L) E) as [A|A]; [now left|].
      pose proof (LoopOK_le _ _ _ _ L). right. lia.
    + inversion E; subst. now left.
Qed.

Definition bud (ps : pst) (r : nat) : nat := 24 * (n - pos ps) + r.

Definition NodeT (r : nat) (p : pst -> option (tree * pst)) (k : nat) : Prop :=
  forall ps, SI ps -> bud ps r <= k -> exists x, p ps = Some x.
Definition LoopT {A} (r : nat) (l : nb -> pst -> option A) (k : nat) : Prop :=
  forall b ps, SI ps -> BF b (pos ps) -> bud ps r <= k -> exists x, l b ps = Some x.

(* rank of each parser: a call without guaranteed progress goes to a lower rank *)
Record Tot (k : nat) (c : callees) : Prop := mkTot {
  tChunk : NodeT 10 (cChunk c) k;
  tChunkLoop : LoopT 9 (cChunkLoop c) k;
  tPipeline : NodeT 8 (cPipeline c) k;
  tPipelineLoop : LoopT 1 (cPipelineLoop c) k;
  tForm : NodeT 7 (cForm c) k;
  tFormLoop : LoopT 6 (cFormLoop c) k;
  tRedir : forall left ps, SI ps -> isRedirSign (peek ps) = true -> left_ok src left ps ->
           bud ps 5 <= k -> exists x, cRedir c left ps = Some x;
  tCompound : forall ctx, NodeT 4 (cCompound c ctx) k;
  tCompoundLoop : forall ctx, LoopT 3 (cCompoundLoop c ctx) k;
  tIndexing : forall ctx, NodeT 2 (cIndexing c ctx) k;
  tIndexingLoop : LoopT 1 (cIndexingLoop c) k;
  tArray : NodeT 6 (cArray c) k;
  tArrayLoop : LoopT 5 (cArrayLoop c) k;
  tPrimary : forall ctx, NodeT 1 (cPrimary c ctx) k;
  tLbracketLoop : forall hp he, LoopT 6 (fun b ps => cLbracketLoop c b hp he ps) k;
  tLambdaLoop : LoopT 6 (cLambdaLoop c) k;
  tBracedLoop : LoopT 5 (cBracedLoop c) k;
  tMapPair : NodeT 5 (cMapPair c) k
}.

Lemma Tot0 : Tot 0 callees0.
Proof. constructor; repeat intro; unfold bud in *; lia. Qed.


Section TotStep.
Variable c : callees.
Variable k : nat.
Hypothesis G : Good src c.
Hypothesis P : Prog c.
Hypothesis TT : Tot k c.

Ltac ext L R :=
  let L' := fresh "L" in
  pose proof (LoopOK_trans src _ _ _ _ _ _ L R) as L'; clear L; rename L' into L.
Ltac ext_node L S Q :=
  ext L (push_node src _ _ _ _ (LoopOK_BF src _ _ _ _ L) (proj1 (S _ _ _ (LoopOK_SI src _ _ _ _ L) Q))).
Ltac ext_spaces L Q :=
  ext L (parseSpacesInner_ok is_print src _ _ _ _ _ (LoopOK_SI src _ _ _ _ L) (LoopOK_BI src _ _ _ _ L) Q).
Ltac ext_loop L S Q :=
  ext L (S _ _ _ _ (LoopOK_SI src _ _ _ _ L) (LoopOK_BF src _ _ _ _ L) Q).
Ltac ext_loopx L S Q :=
  ext L (S _ _ _ _ _ (LoopOK_SI src _ _ _ _ L) (LoopOK_BF src _ _ _ _ L) Q).
Ltac ext_sep L Q :=
  ext L (proj1 (parseSep_ok is_print src _ _ _ _ _ _ (LoopOK_SI src _ _ _ _ L) (LoopOK_BF src _ _ _ _ L) Q)).
Ltac ext_expect L Q :=
  ext L (expectSep_ok is_print src _ _ _ _ _ _ (LoopOK_SI src _ _ _ _ L) (LoopOK_BF src _ _ _ _ L) Q).
Ltac reroot L :=
  let L' := fresh "L" in
  pose proof (LoopOK_refl src _ _ (LoopOK_SI src _ _ _ _ L) (LoopOK_BF src _ _ _ _ L)) as L';
  clear L; rename L' into L.
Ltac pre L :=
  let X := fresh "Le" in pose proof (LoopOK_le _ _ _ _ L) as X;
  let Y := fresh "Sn" in pose proof (SI_le src _ (LoopOK_SI src _ _ _ _ L)) as Y.
Ltac bd := unfold bud in *; lia.

(* a call to a node parser of the previous level *)
Tactic Notation "tnode" ident(L) constr(TL) constr(GL) "as" simple_intropattern(p) ident(Q) :=
  pre L; destruct (TL _ (LoopOK_SI src _ _ _ _ L) ltac:(bd)) as [p Q]; rewrite Q; cbv beta iota;
  ext_node L GL Q.
Tactic Notation "tloop" ident(L) constr(TL) constr(GL) "as" simple_intropattern(p) ident(Q) :=
  pre L; destruct (TL _ _ (LoopOK_SI src _ _ _ _ L) (LoopOK_BF src _ _ _ _ L) ltac:(bd)) as [p Q];
  rewrite Q; cbv beta iota; ext_loop L GL Q.
Tactic Notation "tloopx" ident(L) constr(TL) constr(GL) "as" simple_intropattern(p) ident(Q) :=
  pre L; destruct (TL _ _ (LoopOK_SI src _ _ _ _ L) (LoopOK_BF src _ _ _ _ L) ltac:(bd)) as [p Q];
  rewrite Q; cbv beta iota; ext_loopx L GL Q.
Tactic Notation "tspaces" ident(L) "as" simple_intropattern(p) ident(Q) :=
  match goal with |- context [parseSpacesInner src ?b ?ps ?nl] =>
    destruct (parseSpacesInner_total is_print src b ps nl (LoopOK_SI src _ _ _ _ L)) as [p Q];
    rewrite Q; cbv beta iota; ext_spaces L Q end.
Tactic Notation "tsep" ident(L) "as" simple_intropattern(p) ident(Q) :=
  match goal with |- context [parseSep src ?b ?ps ?sep] =>
    destruct (parseSep src b ps sep) as p eqn:Q; cbv beta iota end.
Tactic Notation "texpect" ident(L) "as" simple_intropattern(p) ident(Q) :=
  match goal with |- context [expectSep src ?b ?ps ?sep ?cd] =>
    destruct (expectSep src b ps sep cd) as p eqn:Q; cbv beta iota; ext_expect L Q end.

Lemma chunk_tot : NodeT 10 (chunk_body src c) (S k).
Proof.
  intros ps H Hb. unfold chunk_body, parseSeps.
  pose proof (LoopOK_start src _ H) as L.
  destruct (parseSepsLoop_total (lfuel src) _ ps false H (BF_empty src _)) as [[[b1 ps1] any1] Q1].
  { pose proof (SI_le src _ H). unfold lfuel, C01_Parse.n. lia. }
  rewrite Q1. cbv beta iota.
  ext L (parseSepsLoop_ok is_print src _ _ _ _ _ _ _ (LoopOK_SI src _ _ _ _ L) (LoopOK_BF src _ _ _ _ L) Q1).
  tloop L (tChunkLoop k c TT) (gChunkLoop src c G) as [b2 ps2] Q2. eauto.
Qed.

Lemma chunkLoop_tot : LoopT 9 (chunkLoop_body is_print src c) (S k).
Proof.
  intros b ps H HB Hb. unfold chunkLoop_body, parseSeps.
  pose proof (LoopOK_refl src _ _ H HB) as L.
  destruct (startsPipeline _ _); [|eauto].
  tnode L (tPipeline k c TT) (gPipeline src c G) as [t1 ps1] Q1. pre L.
  destruct (parseSepsLoop_total (lfuel src) (push t1 b) ps1 false (LoopOK_SI src _ _ _ _ L) (LoopOK_BF src _ _ _ _ L)) as [[[b2 ps2] any2] Q2].
  { pose proof (SI_le src _ (LoopOK_SI src _ _ _ _ L)). unfold lfuel, C01_Parse.n. lia. }
  rewrite Q2. cbv beta iota.
  destruct any2; [|eauto].
  destruct (parseSepsLoop_progress _ _ _ _ _ _ (LoopOK_SI src _ _ _ _ L) (LoopOK_BF src _ _ _ _ L) Q2) as [X|Lt]; [discriminate|].
  ext L (parseSepsLoop_ok is_print src _ _ _ _ _ _ _ (LoopOK_SI src _ _ _ _ L) (LoopOK_BF src _ _ _ _ L) Q2).
  pre L. apply (tChunkLoop k c TT); [apply L|apply L|bd].
Qed.

Lemma pipeline_tot : NodeT 8 (pipeline_body src c) (S k).
Proof.
  intros ps H Hb. unfold pipeline_body, parseSpaces.
  pose proof (LoopOK_start src _ H) as L.
  tnode L (tForm k c TT) (gForm src c G) as [t1 ps1] Q1.
  tloopx L (tPipelineLoop k c TT) (gPipelineLoop src c G) as [[b2 ps2] ok2] Q2.
  destruct (negb ok2); [eauto|].
  tspaces L as [b3 ps3] Q3.
  destruct (Z.eqb _ 38); [|eauto].
  ext L (adv_addSep_ok is_print src _ _ (LoopOK_SI src _ _ _ _ L) (LoopOK_BI src _ _ _ _ L)).
  tspaces L as [b5 ps5] Q5. eauto.
Qed.

Lemma sep_strict b ps sep b' ps' : SI ps ->
  parseSep src b ps sep = (true, b', ps') -> (0 <= sep)%Z -> pos ps < pos ps'.
Proof.
  intros H E Hs. unfold parseSep in E. destruct (Z.eqb_spec (peek ps) sep) as [Q|Q]; [|discriminate].
  assert (ps' = adv ps) by congruence. subst ps'.
  apply adv_strict; auto. rewrite Q. unfold EOF, pkg_parse.eof. lia.
Qed.

Ltac selfcall L TL := pre L; apply TL; [apply L|apply L|bd].

Lemma pipelineLoop_tot : LoopT 1 (pipelineLoop_body is_print src c) (S k).
Proof.
  intros b ps H HB Hb. unfold pipelineLoop_body, parseSpacesAndNewlines.
  pose proof (LoopOK_refl src _ _ H HB) as L.
  tsep L as [[ok1 b1] ps1] Q1. destruct ok1; cbn [negb]; [|eauto].
  pose proof (sep_strict _ _ _ _ _ H Q1 ltac:(lia)) as Lt. ext_sep L Q1. reroot L.
  tspaces L as [b2 ps2] Q2.
  destruct (negb _); [eauto|].
  tnode L (tForm k c TT) (gForm src c G) as [t3 ps3] Q3.
  selfcall L (tPipelineLoop k c TT).
Qed.

Lemma form_tot : NodeT 7 (form_body src c) (S k).
Proof.
  intros ps H Hb. unfold form_body, parseSpaces.
  pose proof (LoopOK_start src _ H) as L.
  tnode L (tCompound k c TT CmdExpr) (gCompound src c G CmdExpr) as [t1 ps1] Q1.
  tspaces L as [b2 ps2] Q2.
  tloop L (tFormLoop k c TT) (gFormLoop src c G) as [b3 ps3] Q3. eauto.
Qed.

Lemma formLoop_tot : LoopT 6 (formLoop_body is_print src c) (S k).
Proof.
  intros b ps H HB Hb. unfold formLoop_body, parseSpaces. cbv zeta.
  pose proof (LoopOK_refl src _ _ H HB) as L.
  destruct (Z.eqb_spec (peek ps) 38) as [P38|_].
  { rewrite (backup_adv is_print src _ H). destruct (negb _); [eauto|].
    tnode L (tMapPair k c TT) (gMapPair src c G) as [t1 ps1] Q1.
    pose proof (pMapPair c P _ _ _ H P38 Q1) as Lt. reroot L.
    tspaces L as [b2 ps2] Q2. selfcall L (tFormLoop k c TT). }
  destruct (startsCompound is_print (peek ps) NormalExpr) eqn:SC.
  { pre L. destruct (tCompound k c TT NormalExpr _ H ltac:(bd)) as [[cn ps1] Q1]. rewrite Q1. cbv beta iota.
    destruct (gCompound src c G NormalExpr _ _ _ H Q1) as [N _].
    pose proof (pCompound c P _ _ _ _ H SC Q1) as Lt.
    destruct (isRedirSign (peek ps1)) eqn:RS.
    - destruct N as [N1 [N2 [N3 N4]]]. pose proof (SI_le src _ N1) as Sn1.
      destruct (tRedir k c TT (Some cn) ps1 N1 RS (conj N2 N4) ltac:(bd)) as [[t2 ps2] Q2].
      rewrite Q2. cbv beta iota.
      destruct (gRedir src c G (Some cn) ps1 t2 ps2 N1 RS (conj N2 N4) Q2) as [R1 [R2 [R3 R4]]].
      assert (NodeOK src ps t2 ps2) as N' by (split; [auto|split; [auto|split; [congruence|auto]]]).
      pose proof (NodeOK_le src _ _ _ N') as Le2.
      pose proof (WF_range src _ R2) as [Rg _]. rewrite R3, R4 in Rg.
      ext L (push_node src _ _ _ _ (LoopOK_BF src _ _ _ _ L) N'). reroot L.
      assert (pos ps < pos ps2) as Lt2.
      { pose proof (WF_range src _ N2) as [Rc _]. rewrite N3, N4 in Rc.
        pose proof (pRedir c P (Some cn) ps1 t2 ps2 N1 RS (conj N2 N4) Q2). lia. }
      tspaces L as [b3 ps3] Q3. selfcall L (tFormLoop k c TT).
    - ext L (push_node src _ _ _ _ (LoopOK_BF src _ _ _ _ L) N). reroot L.
      tspaces L as [b3 ps3] Q3. selfcall L (tFormLoop k c TT). }
  destruct (isRedirSign (peek ps)) eqn:RS; [|eauto].
  pre L. destruct (tRedir k c TT None ps H RS I ltac:(bd)) as [[t1 ps1] Q1]. rewrite Q1. cbv beta iota.
  destruct (gRedir src c G None ps t1 ps1 H RS I Q1) as [R1 [R2 [R3 R4]]].
  assert (NodeOK src ps t1 ps1) as N' by (split; [auto|split; [auto|split; auto]]).
  pose proof (pRedir c P None ps t1 ps1 H RS I Q1) as Lt.
  ext L (push_node src _ _ _ _ (LoopOK_BF src _ _ _ _ L) N'). reroot L.
  tspaces L as [b2 ps2] Q2. selfcall L (tFormLoop k c TT).
Qed.

Lemma redir_tot left ps : SI ps -> isRedirSign (peek ps) = true -> left_ok src left ps ->
  bud ps 5 <= S k -> exists x, redir_body src c left ps = Some x.
Proof.
  intros H RS HL Hb. unfold redir_body, parseSpaces.
  set (b0 := match left with Some l => mkNb (t_from l) [l] | None => mkNb (pos ps) [] end) in *.
  assert (BF b0 (pos ps)) as HB0.
  { destruct left as [l|]; [|apply BF_empty]. destruct HL as [W Tl].
    pose proof (WF_range src _ W) as [R1 R2].
    unfold b0, C01_Parse_proofs.BF, BI, cover; cbn [nb_ch nb_from rev app chain]. repeat split; auto; lia. }
  destruct (redirSignLoop_total is_print src ps H) as [ps1 Q1]. rewrite Q1.
  destruct (redirSignLoop_ok is_print src _ _ _ H Q1) as [[S1 Le1] _].
  match goal with |- context [let '(_, _) := ?x in _] => destruct x as [mode ps2] eqn:Q2 end.
  assert (SI ps2 /\ pos ps2 = pos ps1) as [S2 P2].
  { repeat (match type of Q2 with (if ?x then _ else _) = _ => destruct x end);
      inversion Q2; subst; split; auto; now apply error_SI. }
  destruct (addSep_loop src b0 ps ps2 S2 (proj1 HB0) ltac:(lia)) as [A1 A2].
  assert (LoopOK b0 ps (C01_Parse.addSep src b0 ps2) ps2) as L by (apply LoopOK_intro; auto; lia).
  tspaces L as [b2 ps3] Q3.
  tsep L as [[isfd b3] ps4] Q4. ext_sep L Q4.
  tnode L (tCompound k c TT NormalExpr) (gCompound src c G NormalExpr) as [t5 ps5] Q5. eauto.
Qed.

Lemma compound_tot ctx : NodeT 4 (compound_body src c ctx) (S k).
Proof.
  intros ps H Hb. unfold compound_body.
  destruct (Z.eqb_spec (peek ps) 126) as [Tl|Tl]; cbv zeta beta iota.
  - assert (peek ps <> EOF) as NE by (rewrite Tl; unfold EOF, pkg_parse.eof; lia).
    pose proof (adv_strict _ H NE) as Lt. destruct (adv_spec is_print src _ H) as [H1 _].
    match goal with |- context [cCompoundLoop c ctx ?b ?p] => assert (BF b (pos p)) as HB end.
    { destruct (peek_ascii is_print src ps 126 H Tl ltac:(reflexivity)) as [Hlt [Sk Pa]].
      rewrite Pa. replace (S (pos ps) - 1) with (pos ps) by lia.
      assert (Tx : [126%N] = slice src (pos ps) (S (pos ps))).
      { unfold slice. replace (S (pos ps) - pos ps) with 1 by lia. now rewrite Sk. }
      assert (C01_proofs.WF src (T KIndexing NormalExpr (pos ps) (S (pos ps)) [126%N]
                   [T KPrimary PTilde (pos ps) (S (pos ps)) [126%N] []])) as Wi.
      { constructor; auto; try lia; [intros _; cbn; auto|].
        repeat constructor; auto; try lia. congruence. }
      pose proof (push_ok src _ (pos ps) _ (BF_empty src _) Wi eq_refl) as X. cbn [t_to] in X. exact X. }
    pose proof (SI_le src _ H1) as Sn.
    destruct (tCompoundLoop k c TT ctx _ _ H1 HB ltac:(bd)) as [[b2 ps2] Q2]. rewrite Q2. eauto.
  - destruct (tCompoundLoop k c TT ctx _ _ H (BF_empty src _) ltac:(bd)) as [[b2 ps2] Q2]. rewrite Q2. eauto.
Qed.

Lemma compoundLoop_tot ctx : LoopT 3 (compoundLoop_body is_print src c ctx) (S k).
Proof.
  intros b ps H HB Hb. unfold compoundLoop_body.
  pose proof (LoopOK_refl src _ _ H HB) as L.
  destruct (startsIndexing is_print (peek ps) ctx) eqn:SP; [|eauto].
  tnode L (tIndexing k c TT ctx) (gIndexing src c G ctx) as [t1 ps1] Q1.
  pose proof (pIndexing c P _ _ _ _ H SP Q1) as Lt. reroot L.
  selfcall L (tCompoundLoop k c TT ctx).
Qed.

Lemma indexing_tot ctx : NodeT 2 (indexing_body src c ctx) (S k).
Proof.
  intros ps H Hb. unfold indexing_body.
  pose proof (LoopOK_start src _ H) as L.
  tnode L (tPrimary k c TT ctx) (gPrimary src c G ctx) as [t1 ps1] Q1.
  tloop L (tIndexingLoop k c TT) (gIndexingLoop src c G) as [b2 ps2] Q2. eauto.
Qed.

Lemma indexingLoop_tot : LoopT 1 (indexingLoop_body is_print src c) (S k).
Proof.
  intros b ps H HB Hb. unfold indexingLoop_body.
  pose proof (LoopOK_refl src _ _ H HB) as L.
  tsep L as [[ok1 b1] ps1] Q1. destruct ok1; cbn [negb]; [|eauto].
  pose proof (sep_strict _ _ _ _ _ H Q1 ltac:(lia)) as Lt. ext_sep L Q1. reroot L.
  match goal with |- context [cArray c ?p] => set (ps2 := p) in * end.
  assert (LoopOK b1 ps1 b1 ps2) as L2.
  { unfold ps2. destruct (_ && _); [now apply LoopOK_error|exact L]. }
  clear L. tnode L2 (tArray k c TT) (gArray src c G) as [t3 ps3] Q3.
  tsep L2 as [[ok2 b4] ps4] Q4. ext_sep L2 Q4.
  destruct ok2; cbn [negb]; [|eauto].
  selfcall L2 (tIndexingLoop k c TT).
Qed.

Lemma array_tot : NodeT 6 (array_body src c) (S k).
Proof.
  intros ps H Hb. unfold array_body, parseSpacesAndNewlines.
  pose proof (LoopOK_start src _ H) as L.
  tspaces L as [b1 ps1] Q1.
  tloop L (tArrayLoop k c TT) (gArrayLoop src c G) as [b2 ps2] Q2. eauto.
Qed.

Lemma arrayLoop_tot : LoopT 5 (arrayLoop_body is_print src c) (S k).
Proof.
  intros b ps H HB Hb. unfold arrayLoop_body, parseSpacesAndNewlines.
  pose proof (LoopOK_refl src _ _ H HB) as L.
  destruct (startsCompound is_print (peek ps) NormalExpr) eqn:SC; [|eauto].
  tnode L (tCompound k c TT NormalExpr) (gCompound src c G NormalExpr) as [t1 ps1] Q1.
  pose proof (pCompound c P _ _ _ _ H SC Q1) as Lt. reroot L.
  tspaces L as [b2 ps2] Q2. selfcall L (tArrayLoop k c TT).
Qed.

Lemma lbracketLoop_tot hp he : LoopT 6 (fun b ps => lbracketLoop_body is_print src c b hp he ps) (S k).
Proof.
  intros b ps H HB Hb. unfold lbracketLoop_body, parseSpacesAndNewlines. cbv zeta.
  pose proof (LoopOK_refl src _ _ H HB) as L.
  destruct (Z.eqb_spec (peek ps) 38) as [P38|_].
  { destruct (negb _).
    - ext L (adv_addSep_ok is_print src _ _ (LoopOK_SI src _ _ _ _ L) (LoopOK_BI src _ _ _ _ L)).
      tspaces L as [b2 ps2] Q2. eauto.
    - rewrite (backup_adv is_print src _ H).
      tnode L (tMapPair k c TT) (gMapPair src c G) as [t3 ps3] Q3.
      pose proof (pMapPair c P _ _ _ H P38 Q3) as Lt. reroot L.
      tspaces L as [b4 ps4] Q4. selfcall L (tLbracketLoop k c TT true he). }
  destruct (startsCompound is_print (peek ps) NormalExpr) eqn:SC; [|eauto].
  tnode L (tCompound k c TT NormalExpr) (gCompound src c G NormalExpr) as [t1 ps1] Q1.
  pose proof (pCompound c P _ _ _ _ H SC Q1) as Lt. reroot L.
  tspaces L as [b2 ps2] Q2. selfcall L (tLbracketLoop k c TT hp true).
Qed.

Lemma lambdaLoop_tot : LoopT 6 (lambdaLoop_body is_print src c) (S k).
Proof.
  intros b ps H HB Hb. unfold lambdaLoop_body, parseSpacesAndNewlines. cbv zeta.
  pose proof (LoopOK_refl src _ _ H HB) as L.
  destruct (Z.eqb_spec (peek ps) 38) as [P38|_].
  { tnode L (tMapPair k c TT) (gMapPair src c G) as [t1 ps1] Q1.
    pose proof (pMapPair c P _ _ _ H P38 Q1) as Lt. reroot L.
    tspaces L as [b2 ps2] Q2. selfcall L (tLambdaLoop k c TT). }
  destruct (startsCompound is_print (peek ps) NormalExpr) eqn:SC; [|eauto].
  tnode L (tCompound k c TT NormalExpr) (gCompound src c G NormalExpr) as [t1 ps1] Q1.
  pose proof (pCompound c P _ _ _ _ H SC Q1) as Lt. reroot L.
  tspaces L as [b2 ps2] Q2. selfcall L (tLambdaLoop k c TT).
Qed.

Lemma bracedLoop_tot : LoopT 5 (bracedLoop_body src c) (S k).
Proof.
  intros b ps H HB Hb. unfold bracedLoop_body, parseSpacesAndNewlines.
  pose proof (LoopOK_refl src _ _ H HB) as L.
  destruct (isBracedSep (peek ps)) eqn:BS; [|eauto].
  tspaces L as [b1 ps1] Q1. pre L.
  tsep L as [[ok2 b2] ps2] Q2.
  (* a comma or whitespace was consumed *)
  assert (pos ps < pos ps2) as Lt.
  { unfold isBracedSep in BS. apply orb_true_iff in BS as [BS|BS].
    - apply Z.eqb_eq in BS.
      destruct (isWhitespace (peek ps)) eqn:W; [rewrite BS in W; discriminate|].
      (* no space consumed: the state is unchanged, the comma is parsed *)
      destruct ok2.
      + pose proof (sep_strict _ _ _ _ _ (LoopOK_SI src _ _ _ _ L) Q2 ltac:(lia)). lia.
      + exfalso. unfold parseSpacesInner in Q1.
        destruct (spacesLoop src (lfuel src) true ps) as [q|] eqn:SL; [|discriminate]. inversion Q1; subst.
        unfold lfuel in SL. cbn [spacesLoop] in SL. rewrite BS in SL. cbn in SL. inversion SL; subst.
        unfold parseSep in Q2. rewrite BS in Q2. cbn in Q2. discriminate.
    - pose proof (parseSpaces_progress b ps true b1 ps1 H ltac:(rewrite BS; apply orb_true_r) Q1).
      destruct (parseSep_ok is_print src _ _ _ _ _ _ (LoopOK_SI src _ _ _ _ L) (LoopOK_BF src _ _ _ _ L) Q2) as [L2 _].
      pose proof (LoopOK_le _ _ _ _ L2). lia. }
  ext_sep L Q2. reroot L.
  tspaces L as [b3 ps3] Q3.
  tnode L (tCompound k c TT BracedElemExpr) (gCompound src c G BracedElemExpr) as [t4 ps4] Q4.
  selfcall L (tBracedLoop k c TT).
Qed.

Lemma mapPair_tot : NodeT 5 (mapPair_body src c) (S k).
Proof.
  intros ps H Hb. unfold mapPair_body, parseSpacesAndNewlines.
  pose proof (LoopOK_start src _ H) as L.
  tsep L as [[ok1 b1] ps1] Q1. ext_sep L Q1.
  tnode L (tCompound k c TT LHSExpr) (gCompound src c G LHSExpr) as [k2 ps2] Q2.
  match goal with |- context [parseSep src _ ?p 61%Z] => set (ps3 := p) in * end.
  assert (LoopOK (mkNb (pos ps) []) ps (push k2 b1) ps3) as L3.
  { unfold ps3. destruct (t_ch k2); [now apply LoopOK_error|exact L]. }
  clear L. tsep L3 as [[eq4 b4] ps4] Q4. ext_sep L3 Q4.
  destruct eq4; [|eauto].
  tspaces L3 as [b5 ps5] Q5.
  tnode L3 (tCompound k c TT NormalExpr) (gCompound src c G NormalExpr) as [v6 ps6] Q6. eauto.
Qed.

Lemma primary_tot ctx : NodeT 1 (primary_body is_print src c ctx) (S k).
Proof.
  intros ps H Hb. unfold primary_body, parseSpacesAndNewlines. cbv zeta.
  destruct (startsPrimary is_print (peek ps) ctx) eqn:SP; cbn [negb]; [|eauto].
  pose proof (starts_not_eof _ _ SP) as NE.
  pose proof (adv_strict _ H NE) as Lt1.
  destruct (adv_spec is_print src _ H) as [H1 _].
  destruct (allowedInBareword is_print (peek ps) ctx).
  { destruct (barewordLoop_total is_print src ctx ps H) as [q Q]. rewrite Q. eauto. }
  destruct (Z.eqb (peek ps) 39).
  { destruct (singleQuotedInner_total is_print src (lfuel src) (adv ps) H1) as [q Q].
    { pose proof (SI_le src _ H1). unfold lfuel, C01_Parse.n. lia. }
    rewrite Q. eauto. }
  destruct (Z.eqb (peek ps) 34).
  { destruct (doubleQuotedInner_total is_print src (lfuel src) (adv ps) H1) as [q Q].
    { pose proof (SI_le src _ H1). unfold lfuel, C01_Parse.n. lia. }
    rewrite Q. eauto. }
  destruct (Z.eqb (peek ps) 36).
  { destruct (variable_total is_print src ps H) as [q Q]. rewrite Q. eauto. }
  destruct (Z.eqb (peek ps) 42).
  { destruct (starLoop_total is_print src ps H) as [q Q]. rewrite Q. eauto. }
  pose proof (LoopOK_start src _ H) as L.
  destruct (Z.eqb (peek ps) 63).
  { destruct (hasPrefix2 _ _ _ _); [|eauto].
    ext L (adv2_addSep_ok is_print src _ _ (LoopOK_SI src _ _ _ _ L) (LoopOK_BI src _ _ _ _ L)).
    destruct (adv_spec is_print src _ H1) as [_ [Le2 _]]. reroot L.
    tnode L (tChunk k c TT) (gChunk src c G) as [t2 ps2] Q2.
    texpect L as [b3 ps3] Q3. eauto. }
  destruct (Z.eqb_spec (peek ps) 40) as [P40|_].
  { rewrite (parseSep_peek _ _ _ P40). cbv beta iota.
    ext L (adv_addSep_ok is_print src _ _ (LoopOK_SI src _ _ _ _ L) (LoopOK_BI src _ _ _ _ L)). reroot L.
    tnode L (tChunk k c TT) (gChunk src c G) as [t2 ps2] Q2.
    texpect L as [b3 ps3] Q3. eauto. }
  destruct (Z.eqb_spec (peek ps) 91) as [P91|_].
  { rewrite (parseSep_peek _ _ _ P91). cbv beta iota.
    ext L (adv_addSep_ok is_print src _ _ (LoopOK_SI src _ _ _ _ L) (LoopOK_BI src _ _ _ _ L)). reroot L.
    tspaces L as [b2 ps2] Q2.
    tloopx L (tLbracketLoop k c TT false false) (gLbracketLoop src c G false false) as [[b3 ps3] [[lone hasP] hasE]] Q3.
    texpect L as [b4 ps4] Q4.
    destruct (lone || hasP); eauto. }
  destruct (Z.eqb_spec (peek ps) 123) as [P123|_]; [|eauto].
  rewrite (parseSep_peek _ _ _ P123). cbv beta iota.
  ext L (adv_addSep_ok is_print src _ _ (LoopOK_SI src _ _ _ _ L) (LoopOK_BI src _ _ _ _ L)). reroot L.
  match goal with |- context [if ?x then _ else _] => destruct x end.
  - tspaces L as [b2 ps2] Q2.
    tsep L as [[bar b3] ps3] Q3. ext_sep L Q3.
    destruct bar.
    + tspaces L as [b4 ps4] Q4.
      tloop L (tLambdaLoop k c TT) (gLambdaLoop src c G) as [b5 ps5] Q5.
      texpect L as [b6 ps6] Q6.
      tnode L (tChunk k c TT) (gChunk src c G) as [t7 ps7] Q7.
      texpect L as [b8 ps8] Q8. eauto.
    + tnode L (tChunk k c TT) (gChunk src c G) as [t7 ps7] Q7.
      texpect L as [b8 ps8] Q8. eauto.
  - tnode L (tCompound k c TT BracedElemExpr) (gCompound src c G BracedElemExpr) as [t2 ps2] Q2.
    tloop L (tBracedLoop k c TT) (gBracedLoop src c G) as [b3 ps3] Q3.
    texpect L as [b4 ps4] Q4. eauto.
Qed.

Lemma step_tot : Tot (S k) (step is_print src c).
Proof.
  constructor; cbn [step cChunk cChunkLoop cPipeline cPipelineLoop cForm cFormLoop cRedir
    cCompound cCompoundLoop cIndexing cIndexingLoop cArray cArrayLoop cPrimary cLbracketLoop
    cLambdaLoop cBracedLoop cMapPair]; intros.
  - apply chunk_tot.
  - apply chunkLoop_tot.
  - apply pipeline_tot.
  - apply pipelineLoop_tot.
  - apply form_tot.
  - apply formLoop_tot.
  - now apply redir_tot.
  - apply compound_tot.
  - apply compoundLoop_tot.
  - apply indexing_tot.
  - apply indexingLoop_tot.
  - apply array_tot.
  - apply arrayLoop_tot.
  - apply primary_tot.
  - apply lbracketLoop_tot.
  - apply lambdaLoop_tot.
  - apply bracedLoop_tot.
  - apply mapPair_tot.
Qed.

End TotStep.

Lemma parsers_prog fuel : Prog (parsers is_print src fuel).
Proof.
  induction fuel as [|f IH]; [apply Prog0|]. cbn [parsers].
  apply step_prog; [apply parsers_good|exact IH].
Qed.

Lemma parsers_tot fuel : Tot fuel (parsers is_print src fuel).
Proof.
  induction fuel as [|f IH]; [apply Tot0|]. cbn [parsers].
  apply step_tot; [apply parsers_good|apply parsers_prog|exact IH].
Qed.

(* the fuel of parse_model always suffices *)
Lemma parse_total : exists t es, parse_model is_print src = Some (t, es).
Proof.
  unfold parse_model, parse_fuel.
  destruct (tChunk _ _ (parsers_tot (FUELK * C01_Parse.n src + FUELK)) ps0 (SI_ps0 src)) as [[t ps] Q].
  { unfold bud, FUELK, C01_Parse.n. cbn [pos ps0]. lia. }
  rewrite Q. eauto.
Qed.

End TT.

Lemma parse_total_lossless is_print src :
  exists t es, parse_model is_print src = Some (t, es) /\ Spec_C01 src t es.
Proof.
  destruct (parse_total is_print src) as [t [es E]]. exists t, es. split; [exact E|].
  exact (parse_spec is_print src _ t es E).
Qed.
