(* C01 — termination of the leaf loops of the parser model within their fuel
   [lfuel = S (len src)] (every iteration consumes at least one byte or exits),
   and progress of the node parsers (Primary/Indexing/Compound consume at least
   one byte when the next rune can start them, MapPair on an ampersand, Redir on
   a redirection sign).  The fuel bound of the 18 mutually recursive node
   parsers is covered by the sweep in C01_sweep.v only; see checks/C01.md. *)
From verif Require Import lib.Base lib.Utf8 lib.ListX gen.Consts model.C01_Parse model.C01
  proofs.C01_proofs proofs.C01_Utf8_proofs proofs.C01_Parse_proofs.
From Coq Require Import Arith Lia ZArith.
Open Scope nat_scope.

Section T.
Variable is_print : N -> bool.
Variable src : bytes.
Notation n := (length src).
Notation peek := (peek src).
Notation adv := (adv src).
Notation SI := (SI src).

Lemma peek_not_eof ps : pos ps <= n -> peek ps <> EOF -> pos ps < n.
Proof.
  intros H Hp. destruct (Nat.eq_dec (pos ps) n) as [E|E]; [|lia].
  exfalso. apply Hp. now apply peek_eof.
Qed.

Lemma adv_fuel ps fu : SI ps -> peek ps <> EOF -> n - pos ps < S fu ->
  SI (adv ps) /\ n - pos (adv ps) < fu.
Proof.
  intros H Hp Hf. destruct (adv_spec is_print src ps H) as [A [B [C _]]].
  assert (pos ps < n) as L by (apply peek_not_eof; auto; apply H).
  specialize (C L). split; auto. lia.
Qed.

Lemma SI_le ps : SI ps -> pos ps <= n.
Proof. intros H. apply H. Qed.

Lemma commentLoop_total fu : forall ps, SI ps -> n - pos ps < fu ->
  exists ps', commentLoop src fu ps = Some ps'.
Proof.
  induction fu as [|fu IH]; intros ps H Hf; [lia|]. cbn [commentLoop].
  destruct (Z.eqb_spec (peek ps) EOF) as [E|E]; cbn [orb]; [eauto|].
  destruct (_ || _); [eauto|].
  destruct (adv_fuel ps fu H E Hf) as [A B]. now apply IH.
Qed.

Lemma simpleLoop_total (cond : pst -> bool) (loop : nat -> pst -> option pst) :
  (forall fu ps, loop (S fu) ps = if cond ps then loop fu (adv ps) else Some ps) ->
  (forall ps, cond ps = true -> peek ps <> EOF) ->
  forall fu ps, SI ps -> n - pos ps < fu -> exists ps', loop fu ps = Some ps'.
Proof.
  intros HS Hc. induction fu as [|fu IH]; intros ps H Hf; [lia|]. rewrite HS.
  destruct (cond ps) eqn:C; [|eauto].
  destruct (adv_fuel ps fu H (Hc _ C) Hf) as [A B]. now apply IH.
Qed.

Lemma neg_not_allowed r : (r < 0)%Z -> allowedInVariableName is_print r = false.
Proof.
  intros H. unfold allowedInVariableName.
  repeat match goal with |- context [Z.leb ?a ?b] => destruct (Z.leb_spec a b); try lia end;
  repeat match goal with |- context [Z.eqb ?a ?b] => destruct (Z.eqb_spec a b); try lia end;
  try reflexivity.
Qed.

Lemma neg_not_bareword r ctx : (r < 0)%Z -> allowedInBareword is_print r ctx = false.
Proof.
  intros H. unfold allowedInBareword. rewrite (neg_not_allowed r H).
  repeat match goal with |- context [Z.eqb ?a ?b] => destruct (Z.eqb_spec a b); try lia end;
  try (cbn; now rewrite !andb_false_r).
Qed.

Lemma EOF_neg : (EOF < 0)%Z.
Proof. unfold EOF, pkg_parse.eof. lia. Qed.

Lemma redirSignLoop_total ps : SI ps -> exists ps', redirSignLoop src (lfuel src) ps = Some ps'.
Proof.
  intros H. apply (simpleLoop_total (fun ps => isRedirSign (peek ps)) (redirSignLoop src)); auto.
  - intros q C E. rewrite E in C. discriminate.
  - pose proof (SI_le _ H). unfold lfuel, C01_Parse.n. lia.
Qed.

Lemma barewordLoop_total ctx ps : SI ps -> exists ps', barewordLoop is_print src (lfuel src) ctx ps = Some ps'.
Proof.
  intros H. apply (simpleLoop_total (fun ps => allowedInBareword is_print (peek ps) ctx)
                                    (fun fu => barewordLoop is_print src fu ctx)); auto.
  - intros q C E. rewrite E, (neg_not_bareword _ _ EOF_neg) in C. discriminate.
  - pose proof (SI_le _ H). unfold lfuel, C01_Parse.n. lia.
Qed.

Lemma varNameLoop_total ps : SI ps -> exists ps', varNameLoop is_print src (lfuel src) ps = Some ps'.
Proof.
  intros H. apply (simpleLoop_total (fun ps => allowedInVariableName is_print (peek ps))
                                    (varNameLoop is_print src)); auto.
  - intros q C E. rewrite E, (neg_not_allowed _ EOF_neg) in C. discriminate.
  - pose proof (SI_le _ H). unfold lfuel, C01_Parse.n. lia.
Qed.

Lemma starLoop_total ps : SI ps -> exists ps', starLoop src (lfuel src) ps = Some ps'.
Proof.
  intros H. apply (simpleLoop_total (fun ps => Z.eqb (peek ps) 42) (starLoop src)); auto.
  - intros q C E. rewrite E in C. discriminate.
  - pose proof (SI_le _ H). unfold lfuel, C01_Parse.n. lia.
Qed.

Lemma singleQuotedInner_total fu : forall ps, SI ps -> n - pos ps < fu ->
  exists ps', singleQuotedInner src fu ps = Some ps'.
Proof.
  induction fu as [|fu IH]; intros ps H Hf; [lia|]. cbn [singleQuotedInner].
  rewrite (next_adv src).
  destruct (Z.eqb_spec (peek ps) EOF) as [E|E]; [eauto|].
  destruct (adv_fuel ps fu H E Hf) as [A B].
  destruct (Z.eqb (peek ps) 39); [|now apply IH].
  destruct (Z.eqb (peek (adv ps)) 39); [|eauto].
  destruct (adv_spec is_print src _ A) as [A2 [B2 _]]. apply IH; auto. lia.
Qed.

Lemma doubleQuotedInner_total fu : forall ps, SI ps -> n - pos ps < fu ->
  exists ps', doubleQuotedInner src fu ps = Some ps'.
Proof.
  induction fu as [|fu IH]; intros ps H Hf; [lia|]. cbn [doubleQuotedInner].
  rewrite (next_adv src).
  destruct (Z.eqb_spec (peek ps) EOF) as [E|E]; [eauto|].
  destruct (adv_fuel ps fu H E Hf) as [A B].
  destruct (Z.eqb (peek ps) 34); [eauto|].
  destruct (Z.eqb (peek ps) 92); [|now apply IH].
  rewrite (next_adv src).
  destruct (adv_spec is_print src _ A) as [A2 [B2 _]].
  destruct (_ || _).
  { rewrite (next_adv src). destruct (adv_spec is_print src _ A2) as [A3 [B3 _]].
    destruct (_ || _).
    - destruct (backup_error_adv is_print src errInvalidEscapeControl _ A2) as [C1 C2].
      apply IH; auto. lia.
    - apply IH; auto. lia. }
  destruct (_ || _).
  { match goal with |- context [hexLoop src ?k ?p] => pose proof (hexLoop_ok is_print src k p A2) as [X1 X2] end.
    apply IH; auto. lia. }
  destruct (_ && _).
  { pose proof (octLoop_ok is_print src 2 (peek (adv ps) - 48)%Z _ A2) as O.
    destruct (octLoop src 2 _ _) as [rr ps3]. cbn [snd] in O. destruct O as [X1 X2].
    destruct (Z.leb rr 255); apply IH; auto; try lia.
    - now apply errorp_SI.
    - cbn. lia. }
  destruct (isDoubleEscape _); [apply IH; auto; lia|].
  destruct (backup_error_adv is_print src errInvalidEscape _ A) as [C1 C2].
  apply IH; auto. lia.
Qed.

Lemma spacesLoop_total fu nl : forall ps, SI ps -> n - pos ps < fu ->
  exists ps', spacesLoop src fu nl ps = Some ps'.
Proof.
  induction fu as [|fu IH]; intros ps H Hf; [lia|]. cbn [spacesLoop].
  assert (forall r, (0 <= r)%Z -> peek ps = r -> peek ps <> EOF) as NE.
  { intros r Hr E E2. rewrite E2 in E. pose proof EOF_neg. lia. }
  destruct (isInlineWhitespace (peek ps)) eqn:W.
  { assert (peek ps <> EOF) as E by (intros E; rewrite E in W; discriminate).
    destruct (adv_fuel ps fu H E Hf) as [A B]. now apply IH. }
  destruct (nl && isWhitespace (peek ps)) eqn:W2.
  { assert (peek ps <> EOF) as E.
    { intros E; rewrite E in W2. now rewrite andb_false_r in W2. }
    destruct (adv_fuel ps fu H E Hf) as [A B]. now apply IH. }
  destruct (Z.eqb_spec (peek ps) 35) as [P|P].
  { destruct (adv_fuel ps fu H (NE 35%Z ltac:(lia) P) Hf) as [A B].
    destruct (commentLoop_total (lfuel src) (adv ps) A) as [ps1 C].
    { pose proof (SI_le _ A). unfold lfuel, C01_Parse.n. lia. }
    rewrite C. destruct (commentLoop_ok is_print src _ _ _ A C) as [C1 C2]. apply IH; auto. lia. }
  destruct (Z.eqb_spec (peek ps) 94) as [P2|P2]; [|eauto].
  destruct (adv_fuel ps fu H (NE 94%Z ltac:(lia) P2) Hf) as [A B].
  destruct (adv_spec is_print src _ A) as [A2 [B2 _]].
  destruct (Z.eqb (peek (adv ps)) 13).
  { destruct (Z.eqb (peek (adv (adv ps))) 10).
    - destruct (adv_spec is_print src _ A2) as [A3 [B3 _]]. apply IH; auto. lia.
    - apply IH; auto. lia. }
  destruct (Z.eqb (peek (adv ps)) 10); [apply IH; auto; lia|].
  destruct (Z.eqb (peek (adv ps)) EOF); [|eauto].
  apply IH; [now apply error_SI|cbn; lia].
Qed.

Lemma parseSpacesInner_total b ps nl : SI ps -> exists r, parseSpacesInner src b ps nl = Some r.
Proof.
  intros H. unfold parseSpacesInner.
  destruct (spacesLoop_total (lfuel src) nl ps H) as [ps1 E].
  { pose proof (SI_le _ H). unfold lfuel, C01_Parse.n. lia. }
  rewrite E. eauto.
Qed.

Lemma variable_total ps : SI ps -> exists ps', variable is_print src ps = Some ps'.
Proof.
  intros H. unfold variable. rewrite (next_adv src).
  destruct (adv_spec is_print src _ H) as [A [B _]].
  destruct (adv_spec is_print src _ A) as [A2 [B2 _]].
  assert (forall q, SI q -> n - pos q < lfuel src) as LF.
  { intros q Hq. pose proof (SI_le _ Hq). unfold lfuel, C01_Parse.n. lia. }
  destruct (Z.eqb _ EOF); [eauto|].
  destruct (Z.eqb _ 39); [apply singleQuotedInner_total; auto|].
  destruct (Z.eqb _ 34); [apply doubleQuotedInner_total; auto|].
  destruct (_ && _).
  - rewrite (backup_adv is_print src _ A). apply varNameLoop_total. now apply error_SI.
  - now apply varNameLoop_total.
Qed.

End T.

(* all leaf loops terminate within their fuel, in every reachable parser state *)
Lemma leaf_loops_total is_print src ps : SI src ps ->
  (forall b nl, exists r, parseSpacesInner src b ps nl = Some r)
  /\ (exists q, redirSignLoop src (lfuel src) ps = Some q)
  /\ (forall ctx, exists q, barewordLoop is_print src (lfuel src) ctx ps = Some q)
  /\ (exists q, varNameLoop is_print src (lfuel src) ps = Some q)
  /\ (exists q, starLoop src (lfuel src) ps = Some q)
  /\ (exists q, singleQuotedInner src (lfuel src) ps = Some q)
  /\ (exists q, doubleQuotedInner src (lfuel src) ps = Some q)
  /\ (exists q, variable is_print src ps = Some q).
Proof.
  intros H.
  assert (length src - pos ps < lfuel src) as LF.
  { pose proof (SI_le src _ H). unfold lfuel, C01_Parse.n. lia. }
  split; [intros; now apply (parseSpacesInner_total is_print)|].
  split; [now apply (redirSignLoop_total is_print)|].
  split; [intros; now apply barewordLoop_total|].
  split; [now apply varNameLoop_total|].
  split; [now apply (starLoop_total is_print)|].
  split; [now apply (singleQuotedInner_total is_print)|].
  split; [now apply (doubleQuotedInner_total is_print)|].
  now apply variable_total.
Qed.

(* ------------------------------------------------------------------------ *)
(* progress of the node parsers: what the loops that call them rely on      *)
Section TT.
Variable is_print : N -> bool.
Variable src : bytes.
Notation n := (length src).
Notation peek := (peek src).
Notation adv := (adv src).
Notation SI := (SI src).
Notation BF := (BF src).
Notation LoopOK := (LoopOK src).

(* ---- progress of the node parsers ---- *)
Record Prog (c : callees) : Prop := mkProg {
  pPrimary : forall ctx ps t ps', SI ps -> startsPrimary is_print (peek ps) ctx = true ->
    cPrimary c ctx ps = Some (t, ps') -> pos ps < pos ps';
  pIndexing : forall ctx ps t ps', SI ps -> startsPrimary is_print (peek ps) ctx = true ->
    cIndexing c ctx ps = Some (t, ps') -> pos ps < pos ps';
  pCompoundLoop : forall ctx b ps b' ps', SI ps -> BF b (pos ps) ->
    startsPrimary is_print (peek ps) ctx = true ->
    cCompoundLoop c ctx b ps = Some (b', ps') -> pos ps < pos ps';
  pCompound : forall ctx ps t ps', SI ps -> startsPrimary is_print (peek ps) ctx = true ->
    cCompound c ctx ps = Some (t, ps') -> pos ps < pos ps';
  pMapPair : forall ps t ps', SI ps -> peek ps = 38%Z ->
    cMapPair c ps = Some (t, ps') -> pos ps < pos ps';
  pRedir : forall left ps t ps', SI ps -> isRedirSign (peek ps) = true -> left_ok src left ps ->
    cRedir c left ps = Some (t, ps') -> pos ps < pos ps'
}.

Lemma Prog0 : Prog callees0.
Proof. constructor; intros; discriminate. Qed.

Lemma starts_not_eof ctx ps : startsPrimary is_print (peek ps) ctx = true -> peek ps <> EOF.
Proof.
  intros H E. rewrite E in H. unfold startsPrimary in H.
  rewrite (neg_not_bareword is_print _ _ EOF_neg) in H. discriminate.
Qed.

Lemma adv_strict ps : SI ps -> peek ps <> EOF -> pos ps < pos (adv ps).
Proof.
  intros H E. destruct (adv_spec is_print src ps H) as [A [_ [C _]]].
  apply C. apply (peek_not_eof src); auto. apply H.
Qed.

Lemma LoopOK_le b ps b' ps' : LoopOK b ps b' ps' -> pos ps <= pos ps'.
Proof. intros L. apply L. Qed.

Lemma parseSep_strict b ps sep b' ps' : SI ps ->
  parseSep src b ps sep = (true, b', ps') -> peek ps <> EOF -> pos ps < pos ps'.
Proof.
  intros H E NE. unfold parseSep in E. destruct (Z.eqb _ _); inversion E; subst. now apply adv_strict.
Qed.

Lemma parseSep_peek b ps sep : peek ps = sep -> parseSep src b ps sep = (true, C01_Parse.addSep src b (adv ps), adv ps).
Proof. intros E. unfold parseSep. now rewrite E, Z.eqb_refl. Qed.

Section Step.
Variable c : callees.
Hypothesis G : Good src c.
Hypothesis P : Prog c.

Ltac ext L R :=
  let L' := fresh "L" in
  pose proof (LoopOK_trans src _ _ _ _ _ _ L R) as L'; clear L; rename L' into L.
Tactic Notation "dopt" hyp(E) "as" simple_intropattern(p) ident(Q) :=
  match type of E with
  | match ?x with Some _ => _ | None => None end = Some _ =>
    destruct x as [p|] eqn:Q; [|discriminate E]
  end.
Tactic Notation "dlet" hyp(E) "as" simple_intropattern(p) ident(Q) :=
  match type of E with
  | (let '(_, _) := ?x in _) = Some _ => destruct x as p eqn:Q
  end.
Ltac sSI L := constr:(LoopOK_SI src _ _ _ _ L).
Ltac ext_node L S Q :=
  ext L (push_node src _ _ _ _ (LoopOK_BF src _ _ _ _ L) (proj1 (S _ _ _ (LoopOK_SI src _ _ _ _ L) Q))).
Ltac ext_spaces L Q :=
  ext L (parseSpacesInner_ok is_print src _ _ _ _ _ (LoopOK_SI src _ _ _ _ L) (LoopOK_BI src _ _ _ _ L) Q).
Ltac ext_loop L S Q :=
  ext L (S _ _ _ _ (LoopOK_SI src _ _ _ _ L) (LoopOK_BF src _ _ _ _ L) Q).
Ltac ext_loopx L S Q :=
  ext L (S _ _ _ _ _ (LoopOK_SI src _ _ _ _ L) (LoopOK_BF src _ _ _ _ L) Q).
Ltac ext_sep L Q :=
  ext L (proj1 (parseSep_ok is_print src _ _ _ _ _ _ (LoopOK_SI src _ _ _ _ L) (LoopOK_BF src _ _ _ _ L) Q)).
Ltac ext_expect L Q :=
  ext L (expectSep_ok is_print src _ _ _ _ _ _ (LoopOK_SI src _ _ _ _ L) (LoopOK_BF src _ _ _ _ L) Q).
(* forget the past: a fresh chain rooted at the current state *)
Ltac reroot L :=
  let L' := fresh "L" in
  pose proof (LoopOK_refl src _ _ (LoopOK_SI src _ _ _ _ L) (LoopOK_BF src _ _ _ _ L)) as L';
  clear L; rename L' into L.
Ltac le_of L := let X := fresh "Le" in pose proof (LoopOK_le _ _ _ _ L) as X.

Lemma indexing_prog ctx ps t ps' : SI ps -> startsPrimary is_print (peek ps) ctx = true ->
  indexing_body src c ctx ps = Some (t, ps') -> pos ps < pos ps'.
Proof.
  intros H SP E. unfold indexing_body in E.
  pose proof (LoopOK_start src _ H) as L.
  dopt E as [t1 ps1] Q1. pose proof (pPrimary c P _ _ _ _ H SP Q1) as Lt.
  ext_node L (gPrimary src c G ctx) Q1. reroot L.
  dopt E as [b2 ps2] Q2. ext_loop L (gIndexingLoop src c G) Q2. le_of L.
  inversion E; subst. lia.
Qed.

Lemma compoundLoop_prog ctx b ps b' ps' : SI ps -> BF b (pos ps) ->
  startsPrimary is_print (peek ps) ctx = true ->
  compoundLoop_body is_print src c ctx b ps = Some (b', ps') -> pos ps < pos ps'.
Proof.
  intros H HB SP E. unfold compoundLoop_body, startsIndexing in E. rewrite SP in E.
  pose proof (LoopOK_refl src _ _ H HB) as L.
  dopt E as [t1 ps1] Q1. pose proof (pIndexing c P _ _ _ _ H SP Q1) as Lt.
  ext_node L (gIndexing src c G ctx) Q1. reroot L.
  ext_loop L (gCompoundLoop src c G ctx) E. le_of L. lia.
Qed.

Lemma compound_prog ctx ps t ps' : SI ps -> startsPrimary is_print (peek ps) ctx = true ->
  compound_body src c ctx ps = Some (t, ps') -> pos ps < pos ps'.
Proof.
  intros H SP E.
  destruct (compound_ok is_print src c G ctx ps t ps' H E) as [N _].
  unfold compound_body in E.
  destruct (Z.eqb_spec (peek ps) 126) as [Tl|Tl].
  - (* tilde consumed *)
    pose proof (adv_strict _ H (starts_not_eof _ _ SP)) as Lt.
    match type of E with context [cCompoundLoop c ctx ?b ?p] =>
      assert (BF b (pos p)) as HB end.
    { destruct (peek_ascii is_print src ps 126 H Tl ltac:(reflexivity)) as [Hlt [Sk Pa]].
      rewrite Pa. replace (S (pos ps) - 1) with (pos ps) by lia.
      assert (Tx : [126%N] = slice src (pos ps) (S (pos ps))).
      { unfold slice. replace (S (pos ps) - pos ps) with 1 by lia. now rewrite Sk. }
      assert (C01_proofs.WF true src (T KIndexing NormalExpr (pos ps) (S (pos ps)) [126%N]
                   [T KPrimary PTilde (pos ps) (S (pos ps)) [126%N] []])) as Wi.
      { constructor; auto; try lia; [intros _; cbn; auto|].
        repeat constructor; auto; try lia. congruence. }
      pose proof (push_ok src _ (pos ps) _ (BF_empty src _) Wi eq_refl) as X. cbn [t_to] in X. exact X. }
    destruct (adv_spec is_print src _ H) as [H1 _].
    pose proof (LoopOK_refl src _ _ H1 HB) as L.
    cbv zeta in E. dopt E as [b2 ps2] Q2. ext_loop L (gCompoundLoop src c G ctx) Q2. le_of L.
    inversion E; subst. lia.
  - cbv zeta in E. dopt E as [b2 ps2] Q2.
    pose proof (pCompoundLoop c P _ _ _ _ _ H (BF_empty src _) SP Q2) as Lt.
    inversion E; subst. exact Lt.
Qed.

Lemma mapPair_prog ps t ps' : SI ps -> peek ps = 38%Z ->
  mapPair_body src c ps = Some (t, ps') -> pos ps < pos ps'.
Proof.
  intros H P38 E. unfold mapPair_body in E.
  pose proof (LoopOK_start src _ H) as L.
  rewrite (parseSep_peek _ _ _ P38) in E.
  assert (peek ps <> EOF) as NE by (rewrite P38; unfold EOF, pkg_parse.eof; lia).
  pose proof (adv_strict _ H NE) as Lt.
  ext L (adv_addSep_ok is_print src _ _ (LoopOK_SI src _ _ _ _ L) (LoopOK_BI src _ _ _ _ L)).
  reroot L.
  dopt E as [k2 ps2] Q2. ext_node L (gCompound src c G LHSExpr) Q2.
  match type of E with context [parseSep src _ ?p 61%Z] => set (ps3 := p) in * end.
  assert (LoopOK (C01_Parse.addSep src (mkNb (pos ps) []) (adv ps)) (adv ps) (push k2 (C01_Parse.addSep src (mkNb (pos ps) []) (adv ps))) ps3) as L3.
  { unfold ps3. destruct (t_ch k2); [now apply LoopOK_error|exact L]. }
  clear L. dlet E as [[eq4 b4] ps4] Q4. ext_sep L3 Q4.
  destruct eq4.
  - dopt E as [b5 ps5] Q5. ext_spaces L3 Q5.
    dopt E as [v6 ps6] Q6. ext_node L3 (gCompound src c G NormalExpr) Q6. le_of L3.
    inversion E; subst. lia.
  - le_of L3. inversion E; subst. lia.
Qed.

Lemma redir_prog left ps t ps' : SI ps -> isRedirSign (peek ps) = true -> left_ok src left ps ->
  redir_body src c left ps = Some (t, ps') -> pos ps < pos ps'.
Proof.
  intros H RS HL E.
  destruct (redir_ok is_print src c G left ps t ps' H RS HL E) as [S' [W [T F]]].
  (* the sign is consumed and the node ends where parsing stopped *)
  unfold redir_body in E.
  dopt E as ps1 Q1.
  destruct (redirSignLoop_ok is_print src _ _ _ H Q1) as [[S1 Le1] Lt1].
  assert (pos ps < n) as Hlt by (apply (peek_nonneg src); [apply H|now apply peek_sign_nonneg]).
  specialize (Lt1 RS Hlt).
  match type of E with (let '(_, _) := ?x in _) = _ => destruct x as [mode ps2] eqn:Q2 end.
  assert (SI ps2 /\ pos ps2 = pos ps1) as [S2 P2].
  { repeat (match type of Q2 with (if ?x then _ else _) = _ => destruct x end);
      inversion Q2; subst; split; auto; now apply error_SI. }
  match type of E with context [parseSpaces src ?b ps2] => set (b1 := b) in * end.
  assert (BF b1 (pos ps2)) as HB1.
  { unfold b1. apply addSep_ok; [apply S2|].
    destruct left as [l|].
    - destruct HL as [Wl [Tl Kl]]. pose proof (WF_range src true _ Wl) as [R1 R2].
      unfold BI, cover; cbn [nb_ch nb_from rev app chain]. repeat split; auto; lia.
    - apply (BI_mono src _ (pos ps)); [apply BF_empty|lia]. }
  pose proof (LoopOK_refl src _ _ S2 HB1) as L.
  dopt E as [b2 ps3] Q3. ext_spaces L Q3.
  dlet E as [[isfd b3] ps4] Q4. ext_sep L Q4.
  dopt E as [t5 ps5] Q5. ext_node L (gCompound src c G NormalExpr) Q5. le_of L.
  inversion E; subst. destruct (t_ch t5); cbn [pos C01_Parse.error errorp]; lia.
Qed.


Lemma primary_prog ctx ps t ps' : SI ps -> startsPrimary is_print (peek ps) ctx = true ->
  primary_body is_print src c ctx ps = Some (t, ps') -> pos ps < pos ps'.
Proof.
  intros H SP E.
  pose proof (starts_not_eof _ _ SP) as NE.
  pose proof (adv_strict _ H NE) as Lt1.
  destruct (adv_spec is_print src _ H) as [H1 _].
  unfold primary_body in E. cbv zeta in E. rewrite SP in E. cbn [negb] in E.
  destruct (allowedInBareword is_print (peek ps) ctx) eqn:AB.
  { dopt E as ps1 Q1. inversion E; subst. destruct (barewordLoop_ok is_print src _ _ _ _ H Q1) as [_ B].
    apply B; auto. apply (peek_not_eof src); auto. apply H. }
  destruct (Z.eqb (peek ps) 39) eqn:P39.
  { dopt E as ps1 Q1. inversion E; subst. destruct (singleQuotedInner_ok is_print src _ _ _ H1 Q1) as [_ B]. lia. }
  destruct (Z.eqb (peek ps) 34) eqn:P34.
  { dopt E as ps1 Q1. inversion E; subst. destruct (doubleQuotedInner_ok is_print src _ _ _ H1 Q1) as [_ B]. lia. }
  destruct (Z.eqb (peek ps) 36) eqn:P36; [apply Z.eqb_eq in P36|].
  { dopt E as ps1 Q1. inversion E; subst.
    destruct (variable_ok is_print src _ _ H ltac:(lia) Q1) as [_ B]. exact B. }
  destruct (Z.eqb (peek ps) 42) eqn:P42.
  { dopt E as ps1 Q1. inversion E; subst. destruct (starLoop_ok is_print src _ _ _ H Q1) as [_ B].
    apply B; auto. apply (peek_not_eof src); auto. apply H. }
  pose proof (LoopOK_start src _ H) as L.
  destruct (Z.eqb (peek ps) 63) eqn:P63.
  { destruct (hasPrefix2 _ _ _ _).
    - ext L (adv2_addSep_ok is_print src _ _ (LoopOK_SI src _ _ _ _ L) (LoopOK_BI src _ _ _ _ L)).
      destruct (adv_spec is_print src _ H1) as [_ [Le2 _]]. reroot L.
      dopt E as [t2 ps2] Q2. ext_node L (gChunk src c G) Q2.
      dlet E as [b3 ps3] Q3. ext_expect L Q3. le_of L. inversion E; subst. lia.
    - inversion E; subst. exact Lt1. }
  destruct (Z.eqb (peek ps) 40) eqn:P40; [apply Z.eqb_eq in P40|].
  { rewrite (parseSep_peek _ _ _ P40) in E.
    ext L (adv_addSep_ok is_print src _ _ (LoopOK_SI src _ _ _ _ L) (LoopOK_BI src _ _ _ _ L)). reroot L.
    dopt E as [t2 ps2] Q2. ext_node L (gChunk src c G) Q2.
    dlet E as [b3 ps3] Q3. ext_expect L Q3. le_of L. inversion E; subst. lia. }
  destruct (Z.eqb (peek ps) 91) eqn:P91; [apply Z.eqb_eq in P91|].
  { rewrite (parseSep_peek _ _ _ P91) in E.
    ext L (adv_addSep_ok is_print src _ _ (LoopOK_SI src _ _ _ _ L) (LoopOK_BI src _ _ _ _ L)). reroot L.
    dopt E as [b2 ps2] Q2. ext_spaces L Q2.
    dopt E as [[b3 ps3] fl] Q3. ext_loopx L (gLbracketLoop src c G false false) Q3.
    destruct fl as [[lone hasP] hasE].
    dlet E as [b4 ps4] Q4. ext_expect L Q4. le_of L.
    destruct (lone || hasP); inversion E; subst; [destruct hasE|]; cbn [pos C01_Parse.error errorp]; lia. }
  destruct (Z.eqb (peek ps) 123) eqn:P123; [apply Z.eqb_eq in P123|exfalso].
  2:{ (* startsPrimary but none of the cases: impossible *)
      unfold startsPrimary in SP. rewrite AB, P39, P34, P36, P42, P63, P40, P91, P123 in SP. discriminate. }
  rewrite (parseSep_peek _ _ _ P123) in E.
  ext L (adv_addSep_ok is_print src _ _ (LoopOK_SI src _ _ _ _ L) (LoopOK_BI src _ _ _ _ L)). reroot L.
  match type of E with (if ?x then _ else _) = _ => destruct x end.
  - dopt E as [b2 ps2] Q2. ext_spaces L Q2.
    dlet E as [[bar b3] ps3] Q3. ext_sep L Q3.
    dopt E as [b6 ps6] Q6.
    assert (pos (adv ps) <= pos ps6 /\ SI ps6 /\ BF b6 (pos ps6)) as [Le6 [S6 B6]].
    { destruct bar; [|inversion Q6; subst; split; [apply L|split; apply L]].
      dopt Q6 as [b4 ps4] Q4. ext_spaces L Q4.
      dopt Q6 as [b5 ps5] Q5. ext_loop L (gLambdaLoop src c G) Q5.
      inversion Q6 as [Q7]. ext_expect L Q7. split; [apply L|split; apply L]. }
    clear L. pose proof (LoopOK_refl src _ _ S6 B6) as L.
    dopt E as [t7 ps7] Q7. ext_node L (gChunk src c G) Q7.
    dlet E as [b8 ps8] Q8. ext_expect L Q8. le_of L. inversion E; subst. lia.
  - dopt E as [t2 ps2] Q2. ext_node L (gCompound src c G BracedElemExpr) Q2.
    dopt E as [b3 ps3] Q3. ext_loop L (gBracedLoop src c G) Q3.
    dlet E as [b4 ps4] Q4. ext_expect L Q4. le_of L. inversion E; subst. lia.
Qed.

Lemma step_prog : Prog (step is_print src c).
Proof.
  constructor; cbn [step cPrimary cIndexing cCompoundLoop cCompound cMapPair cRedir]; intros.
  - eapply primary_prog; eauto.
  - eapply indexing_prog; eauto.
  - eapply compoundLoop_prog; eauto.
  - eapply compound_prog; eauto.
  - eapply mapPair_prog; eauto.
  - eapply redir_prog; eauto.
Qed.

End Step.

Lemma parsers_prog fuel : Prog (parsers is_print src fuel).
Proof.
  induction fuel as [|f IH]; [apply Prog0|]. cbn [parsers].
  apply step_prog; [apply parsers_good|exact IH].
Qed.

End TT.
