(* C32 -- termination of the loop's own steps: without further requests the
   loop settles (blocks in its select with nothing pending, or returns) after a
   bounded number of steps, whatever the select chooses. *)
From verif Require Import lib.Base gen.Consts model.C32 proofs.C32_proofs.
Open Scope nat_scope.

Definition rank (p : pc) : nat :=
  match p with
  | PSelect => 0 | PRedrawing => 1 | PExtracted _ => 2 | PTop => 3
  | PDrain => 4 | PAfterHandle => 5 | PHandling => 6
  | PFinal _ => 3 | PFinalRedrawing _ => 2 | PFinalDone _ => 1 | PReturned _ => 0
  end.

(* pending work: every token, queued event and pending return costs 10 *)
Definition measure (s : st) : nat :=
  10 * ((if tok s then 1 else 0) + length (inq s) + (match ret s with Some _ => 1 | None => 0 end))
  + rank (pcs s).

(* every step of the loop itself strictly decreases the measure: all
   loop-only executions are finite, for every resolution of the select *)
Lemma loop_step_decreases : forall s l s',
  loop_label l = true -> step s l = Some s' -> measure s' < measure s.
Proof.
  intros [q t f r p] l s' Hl Hs.
  destruct l as [o|tt]; [destruct o|destruct tt]; try discriminate Hl;
    destruct p; simpl in Hs; try discriminate Hs;
    repeat match type of Hs with
           | context [if ?c then _ else _] => destruct c eqn:?
           | context [match ?c with _ => _ end] => destruct c eqn:?
           end; try discriminate Hs; inversion Hs; subst; clear Hs;
    unfold measure; simpl; try lia;
    repeat match goal with |- context [if ?c then _ else _] => destruct c end;
    repeat match goal with |- context [match ?c with _ => _ end] => destruct c end; simpl; lia.
Qed.

Definition settled (s : st) : bool := quiescent s || is_returned (pcs s).

(* hence, from any state, the loop alone reaches a settled state *)
Lemma loop_settles_n : forall n s, measure s <= n ->
  exists ts s', (forall l, In l ts -> loop_label l = true) /\ length ts <= n /\
                run s ts = Some s' /\ settled s' = true.
Proof.
  induction n as [|n IH]; intros s Hm.
  - destruct (settled s) eqn:E.
    + exists [], s; split; [intros ? []|]; split; [simpl; lia|]; split; [reflexivity|assumption].
    + unfold settled in E; apply orb_false_iff in E as [Eq Er].
      destruct (loop_progress s Er Eq) as (l & s1 & Hl & Hs).
      pose proof (loop_step_decreases _ _ _ Hl Hs); lia.
  - destruct (settled s) eqn:E.
    + exists [], s; split; [intros ? []|]; split; [simpl; lia|]; split; [reflexivity|assumption].
    + unfold settled in E; apply orb_false_iff in E as [Eq Er].
      destruct (loop_progress s Er Eq) as (l & s1 & Hl & Hs).
      pose proof (loop_step_decreases _ _ _ Hl Hs) as Hd.
      destruct (IH s1 ltac:(lia)) as (ts & s' & Hall & Hlen & Hr & Hset).
      exists (l :: ts), s'; split; [|split; [|split]].
      * intros x [<-|Hx]; auto.
      * simpl; lia.
      * simpl; rewrite Hs; exact Hr.
      * assumption.
Qed.

Lemma loop_settles : forall s,
  exists ts s', (forall l, In l ts -> loop_label l = true) /\ length ts <= measure s /\
                run s ts = Some s' /\ settled s' = true.
Proof. intros s; apply loop_settles_n; lia. Qed.
