(* C32 -- termination of the loop's own steps: without further requests the
   loop settles (blocks in its select with nothing pending, or returns) after a
   bounded number of steps, whatever the select chooses.  Also: the swapped
   order of the two halves of Redraw loses a full redraw (witness). *)
From verif Require Import lib.Base gen.Consts model.C32 proofs.C32_proofs.
Open Scope nat_scope.

Definition rank (p : pc) : nat :=
  match p with
  | PSelect => 0 | PRedrawing => 1 | PExtracted _ => 2 | PTop => 3
  | PDrain => 4 | PAfterHandle => 5 | PHandling => 6
  | PFinal _ => 3 | PFinalRedrawing _ => 2 | PFinalDone _ => 1 | PReturned _ => 0
  end.

(* pending work: every token, queued event and pending return costs 10 *)
Definition measure (s : st) : nat :=
  10 * ((if tok s then 1 else 0) + length (inq s) + (match ret s with Some _ => 1 | None => 0 end))
  + rank (pcs s).

(* every step of the loop itself strictly decreases the measure: all
   loop-only executions are finite, for every resolution of the select *)
Lemma loop_step_decreases : forall s l s',
  loop_label l = true -> step s l = Some s' -> measure s' < measure s.
Proof.
  intros [q t f r p pf pn md] l s' Hl Hs. unfold step, step_ord in Hs.
  destruct l as [o|tt]; [destruct o|destruct tt]; try discriminate Hl;
    destruct p; simpl in Hs; try discriminate Hs;
    repeat match type of Hs with
           | context [if ?c then _ else _] => destruct c eqn:?
           | context [match ?c with _ => _ end] => destruct c eqn:?
           end; try discriminate Hs; inversion Hs; subst; clear Hs;
    unfold measure; simpl; try lia;
    repeat match goal with |- context [if ?c then _ else _] => destruct c end;
    repeat match goal with |- context [match ?c with _ => _ end] => destruct c end; simpl; lia.
Qed.

(* the loop's own steps do not touch the state of in-flight Redraw calls *)
Lemma loop_step_keeps_calls : forall s l s',
  loop_label l = true -> step s l = Some s' ->
  mid s' = mid s /\ pendf s' = pendf s /\ pendn s' = pendn s.
Proof.
  intros [q t f r p pf pn md] l s' Hl Hs. unfold step, step_ord in Hs.
  destruct l as [o|tt]; [destruct o|destruct tt]; try discriminate Hl;
    destruct p; simpl in Hs; try discriminate Hs;
    repeat match type of Hs with
           | context [if ?c then _ else _] => destruct c eqn:?
           | context [match ?c with _ => _ end] => destruct c eqn:?
           end; try discriminate Hs; inversion Hs; subst; clear Hs; simpl; auto.
Qed.

Definition settled (s : st) : bool := loop_idle s || is_returned (pcs s).

(* hence, from any state, the loop alone reaches a settled state *)
Lemma loop_settles_n : forall n s, measure s <= n -> mid s = None ->
  exists ts s', (forall l, In l ts -> loop_label l = true) /\ length ts <= n /\
                run s ts = Some s' /\ settled s' = true.
Proof.
  induction n as [|n IH]; intros s Hm Hmd.
  - destruct (settled s) eqn:E.
    + exists [], s; split; [intros ? []|]; split; [simpl; lia|]; split; [reflexivity|assumption].
    + unfold settled in E; apply orb_false_iff in E as [Eq Er].
      destruct (loop_progress s Er Eq Hmd) as (l & s1 & Hl & Hs).
      pose proof (loop_step_decreases _ _ _ Hl Hs); lia.
  - destruct (settled s) eqn:E.
    + exists [], s; split; [intros ? []|]; split; [simpl; lia|]; split; [reflexivity|assumption].
    + unfold settled in E; apply orb_false_iff in E as [Eq Er].
      destruct (loop_progress s Er Eq Hmd) as (l & s1 & Hl & Hs).
      pose proof (loop_step_decreases _ _ _ Hl Hs) as Hd.
      destruct (loop_step_keeps_calls _ _ _ Hl Hs) as (Hk & _ & _).
      destruct (IH s1 ltac:(lia) ltac:(congruence)) as (ts & s' & Hall & Hlen & Hr & Hset).
      exists (l :: ts), s'; split; [|split; [|split]].
      * intros x [<-|Hx]; auto.
      * simpl; lia.
      * simpl; rewrite Hs; exact Hr.
      * assumption.
Qed.

Lemma loop_settles : forall s, mid s = None ->
  exists ts s', (forall l, In l ts -> loop_label l = true) /\ length ts <= measure s /\
                run s ts = Some s' /\ settled s' = true.
Proof. intros s Hmd; apply loop_settles_n; [lia|assumption]. Qed.

(* ---------- why the order inside Redraw matters ---------- *)
(* With the halves swapped (token first, then flag) there is a run in which a
   Redraw(true) is invoked and completes, the loop is blocked with nothing
   pending and no call in flight, and no full redraw started after the request:
   the loop took the token and extracted the flag between the two halves. *)
Definition swapped_witness : list label :=
  [Tau TExtract; Obs (CRedrawStart false); Obs CRedrawEnd;
   Obs (ERedrawCall true); Tau (TRFirst true);
   Tau TSelToken; Tau TExtract; Obs (CRedrawStart false); Obs CRedrawEnd;
   Tau TRSecond; Obs OQuiesce].

Lemma swapped_redraw_loses_full :
  exists ts s,
    run_ord true init ts = Some s /\ quiescent s = true /\ full s = true /\
    proj ts = [CRedrawStart false; CRedrawEnd; ERedrawCall true;
               CRedrawStart false; CRedrawEnd; OQuiesce] /\
    check_C32 (proj ts) = false.
Proof. exists swapped_witness; eexists; vm_compute; repeat split; reflexivity. Qed.

(* the same steps are not a run of the model of the code: there the flag is set
   first and the loop cannot extract it until the token has been sent *)
Lemma code_order_rejects_swapped_witness :
  run init swapped_witness = None /\
  accepts [CRedrawStart false; CRedrawEnd; ERedrawCall true;
           CRedrawStart false; CRedrawEnd; OQuiesce] = false.
Proof. vm_compute; split; reflexivity. Qed.

(* the whole-call step is the composition of the invocation and the two halves *)
Lemma redraw_atomic_is_two_halves : forall s f, mid s = None ->
  step s (Obs (ERedraw f)) = run s [Obs (ERedrawCall f); Tau (TRFirst f); Tau TRSecond].
Proof.
  intros [q t fl r p pf pn md] f H; simpl in H; subst md.
  destruct f; reflexivity.
Qed.
