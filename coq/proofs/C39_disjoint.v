(* C39 -- proofs, part 3: evaluations whose programs only use variables they
   declare themselves never touch each other's variables, in any interleaving
   (so the only effect they share is the namespace, which part 2 shows to be
   the one of a serial order). *)
From verif Require Import lib.Base model.C39 proofs.C39_proofs proofs.C39_serial.
Open Scope N_scope.

(* a program is self-contained when every name it reads or assigns is declared
   earlier in the same program: static_ok [] p *)
Definition disjoint_job (j : job) : Prop :=
  match j with
  | JEval p => static_ok [] p = true
  | JCheck _ => True          (* any program may be checked *)
  | JCall _ => False
  end.

Definition own_op (t : N) (o : op) : Prop :=
  match o with
  | OSet s _ | OGet s => fst s = t
  | OCompile p => static_ok [] p = true
  | _ => True
  end.

Definition own_event (e : event) : Prop :=
  match e_loc e with LSlot s => fst s = e_tid e | _ => True end.

Lemma ns_lookup_remove_other x y g : x <> y -> ns_lookup x (ns_remove y g) = ns_lookup x g.
Proof.
  intros Hne. induction g as [|[z s] r IH]; simpl; [reflexivity|].
  destruct (y =? z) eqn:E.
  - apply N.eqb_eq in E. subst z. destruct (x =? y) eqn:E2; [apply N.eqb_eq in E2; congruence|exact IH].
  - simpl. rewrite IH. reflexivity.
Qed.

Lemma ns_lookup_bind x y s g :
  ns_lookup x (ns_bind y s g) = if x =? y then Some s else ns_lookup x g.
Proof.
  unfold ns_bind; simpl. destruct (x =? y) eqn:E; [reflexivity|].
  apply N.eqb_neq in E. apply ns_lookup_remove_other. exact E.
Qed.

(* names of dom resolve to slots of thread t *)
Definition resolves_own (t : N) (dom : list N) (g : ns) : Prop :=
  forall x, memN x dom = true -> exists s, ns_lookup x g = Some s /\ fst s = t.

Lemma compile_own p : forall t k g dom g' fr xs,
  static_ok dom p = true -> resolves_own t dom g ->
  compile t k g p = Some (g', fr, xs) -> Forall (own_op t) xs.
Proof.
  induction p as [|s r IH]; intros t k g dom g' fr xs Hs Hr H; simpl in H, Hs.
  - inversion H; subst. constructor.
  - destruct s as [x v|x v|x|m].
    + destruct (compile t (k + 1) (ns_bind x (t, k) g) r) as [[[g1 f1] x1]|] eqn:E; [|discriminate].
      inversion H; subst. constructor; [reflexivity|].
      eapply (IH t (k + 1) (ns_bind x (t, k) g) (x :: dom)); eauto.
      intros y Hy. rewrite ns_lookup_bind. simpl in Hy.
      destruct (y =? x); [exists (t, k); auto|apply Hr; exact Hy].
    + destruct (memN x dom) eqn:Hm; [|discriminate].
      destruct (Hr x Hm) as (s & Hl & Hown). rewrite Hl in H.
      destruct (compile t k g r) as [[[g1 f1] x1]|] eqn:E; [|discriminate].
      inversion H; subst g' fr xs. constructor; [exact Hown|eapply IH; eauto].
    + destruct (memN x dom) eqn:Hm; [|discriminate].
      destruct (Hr x Hm) as (s & Hl & Hown). rewrite Hl in H.
      destruct (compile t k g r) as [[[g1 f1] x1]|] eqn:E; [|discriminate].
      inversion H; subst g' fr xs. constructor; [exact Hown|eapply IH; eauto].
    + destruct (compile t k g r) as [[[g1 f1] x1]|] eqn:E; [|discriminate].
      inversion H; subst. constructor; [exact I|eapply IH; eauto].
Qed.

Definition Inv4 (c : config) : Prop :=
  (forall t, Forall (own_op t) (t_ops (c_thr c t))) /\ Forall own_event (c_trace c).

Lemma init_Inv4 g0 st0 mods0 js :
  (forall j, In j js -> disjoint_job j) -> Inv4 (init g0 st0 mods0 js).
Proof.
  intros Hd. split; [|constructor]. intros t. unfold init; simpl.
  destruct (threads_of_spec g0 js 0 t) as [H|(j & Hin & H)]; rewrite H; simpl; [constructor|].
  pose proof (Hd j Hin) as Hj. destruct j as [p|p|p]; simpl in *.
  - repeat constructor. exact Hj.
  - repeat constructor.
  - contradiction.
Qed.

Lemma step_Inv4 c t : Inv4 c -> Inv4 (step c t).
Proof.
  intros (Hops & Htr). unfold step.
  destruct (step_opt c t) as [c'|] eqn:Hs; [|split; assumption].
  unfold step_opt in Hs. pose proof (Hops t) as Ht.
  destruct (t_ops (c_thr c t)) as [|o r] eqn:Hop; [discriminate|].
  apply Forall_cons_iff in Ht as [Ho Hr].
  assert (Hframe : forall th' c'', c_thr c'' = upd (c_thr c) t th' ->
            Forall (own_op t) (t_ops th') ->
            forall u, Forall (own_op u) (t_ops (c_thr c'' u))).
  { intros th' c'' Hthr Hself u. rewrite Hthr. destruct (N.eq_dec u t) as [->|Hne].
    - rewrite upd_same. exact Hself.
    - rewrite upd_other by exact Hne. apply Hops. }
  destruct o; simpl in Ho.
  - destruct (c_w c); [discriminate|]. destruct (c_r c); [|discriminate]. inv_some.
    split; [eapply Hframe; simpl; eauto|exact Htr].
  - destruct (c_w c) as [u|]; [|discriminate]. destruct (u =? t); [|discriminate]. inv_some.
    split; [eapply Hframe; simpl; eauto|exact Htr].
  - destruct (c_w c); [discriminate|]. inv_some.
    split; [eapply Hframe; simpl; eauto|exact Htr].
  - inv_some. split; [eapply Hframe; simpl; eauto|exact Htr].
  - inv_some. split; [eapply Hframe; simpl; eauto|].
    simpl. constructor; [exact I|exact Htr].
  - inv_some. split; [eapply Hframe; simpl; eauto|].
    simpl. constructor; [exact I|exact Htr].
  - destruct (compile t 0 (t_snap (c_thr c t)) p) as [[[g' fr] xs]|] eqn:Hc; inv_some.
    + split; [|exact Htr]. eapply Hframe; simpl; eauto.
      constructor; [exact I|constructor; [exact I|]].
      eapply (compile_own p t 0 _ []); eauto. intros x Hx. discriminate.
    + split; [|exact Htr]. eapply Hframe; simpl; eauto. repeat constructor.
  - inv_some. split; [eapply Hframe; simpl; eauto|].
    simpl. constructor; [exact I|exact Htr].
  - destruct (compile t 0 (t_snap (c_thr c t)) p); inv_some;
      (split; [eapply Hframe; simpl; eauto|exact Htr]).
  - inv_some. split; [eapply Hframe; simpl; eauto|].
    simpl. constructor; [exact I|exact Htr].
  - inv_some. split; [eapply Hframe; simpl; eauto|].
    simpl. constructor; [first [exact Ho|reflexivity]|exact Htr].
  - inv_some. split; [eapply Hframe; simpl; eauto|].
    simpl. constructor; [first [exact Ho|reflexivity]|exact Htr].
  - destruct (memN m (c_mods c)); inv_some; (split; [eapply Hframe; simpl; eauto|]);
      try (constructor; [exact I|exact Hr]); simpl; constructor; try exact Htr; exact I.
  - inv_some. split; [eapply Hframe; simpl; eauto|].
    simpl. constructor; [exact I|exact Htr].
  - inv_some. split; [eapply Hframe; simpl; eauto|].
    simpl. constructor; [exact I|exact Htr].
Qed.

(* ALL interleavings of self-contained evaluations and checks: every variable
   access is made by the thread that declared the variable, and the namespace
   is the one of the serial order given by the commits. *)
Lemma serializable_disjoint_partial g0 st0 mods0 js sched :
  (forall j, In j js -> disjoint_job j) ->
  let c := run sched (init g0 st0 mods0 js) in
  Forall own_event (c_trace c)
  /\ c_global c = ns_after (eval_prog js) (rev (c_commits c)) g0
  /\ NoDup (c_commits c).
Proof.
  intros Hd c.
  assert (H : Inv4 c).
  { apply run_invariant; [intros; apply step_Inv4; assumption|apply init_Inv4; exact Hd]. }
  destruct H as [_ H]. split; [exact H|].
  destruct (global_update_atomic g0 st0 mods0 js sched) as (H1 & H2 & _). auto.
Qed.

(* ------------------------------------------------------------------ *)
(* the unrestricted serializability statement is false of the model: thread 0
   declares n30 = 7; thread 1 compiles after the commit of thread 0 and reads
   the variable before thread 0 has assigned it *)
Definition nil_witness_jobs : list job := [JEval [SDecl 30 7]; JEval [SGet 30]].
Definition nil_witness_sched : list N := [0;0;0;0;0;0; 1;1;1;1;1;1;1; 0].

Lemma serializable_refuted :
  exists setup js sched,
    let '(g0, st0) := setup_state setup in
    serial_outcome_ok setup js
      (obs_of (run sched (init g0 st0 [] js)) (length js)) = false.
Proof. exists [], nil_witness_jobs, nil_witness_sched. vm_compute. reflexivity. Qed.
