(* Proofs for C35: well-formedness and termination of the kernels of pkg/md. *)
From Coq Require Import Arith.
From verif Require Import lib.Base lib.ListX model.C35_Bal model.C35_Inline model.C35.
Open Scope N_scope.

(* ================= balanced token sequences ================= *)
Section Bal.
Context {K : Type}.

Inductive Bal : list (tok K) -> Prop :=
| Bal_nil : Bal []
| Bal_leaf ts : Bal ts -> Bal (TL :: ts)
| Bal_pair k a b : Bal a -> Bal b -> Bal (TO k :: a ++ TC k :: b).

Lemma Bal_app a b : Bal a -> Bal b -> Bal (a ++ b).
Proof.
  intros Ha Hb. induction Ha as [|ts Ha IH|k x y Hx IHx Hy IHy]; simpl.
  - exact Hb.
  - constructor. exact IH.
  - rewrite <- app_assoc. simpl. constructor; assumption.
Qed.

Variable eqb : K -> K -> bool.
Hypothesis eqb_eq : forall x y, eqb x y = true <-> x = y.

(* the checker read as a relation, with the stack of still-open kinds *)
Lemma bal_check_split : forall n ts st, (length ts <= n)%nat ->
  bal_check eqb st ts = true ->
  exists a rest, ts = a ++ rest /\ Bal a /\
    match st with
    | [] => rest = []
    | k :: st' => exists r, rest = TC k :: r /\ bal_check eqb st' r = true
    end.
Proof.
  induction n as [|n IH]; intros ts st Hlen H.
  - destruct ts; [|simpl in Hlen; lia]. simpl in H. destruct st; [|discriminate].
    exists [], []. repeat split; constructor.
  - destruct ts as [|t ts].
    + simpl in H. destruct st; [|discriminate]. exists [], []. repeat split; constructor.
    + simpl in Hlen. destruct t as [k|k|].
      * (* open *) simpl in H.
        destruct (IH ts (k :: st) ltac:(lia) H) as (a & rest & E & Ba & r & Er & Hr).
        subst rest.
        assert (Lr : (length r <= n)%nat).
        { subst ts. rewrite app_length in Hlen. simpl in Hlen. lia. }
        destruct (IH r st Lr Hr) as (a2 & rest2 & E2 & Ba2 & Hst).
        exists (TO k :: a ++ TC k :: a2), rest2. split; [|split].
        -- subst ts r. simpl. rewrite <- app_assoc. reflexivity.
        -- constructor; assumption.
        -- exact Hst.
      * (* close *) simpl in H. destruct st as [|k' st']; [discriminate|].
        apply andb_true_iff in H as [E H]. apply eqb_eq in E. subst k'.
        exists [], (TC k :: ts). repeat split; [constructor|]. exists ts. split; [reflexivity|exact H].
      * (* leaf *) simpl in H.
        destruct (IH ts st ltac:(lia) H) as (a & rest & E & Ba & Hst).
        exists (TL :: a), rest. subst ts. repeat split; [constructor; assumption|exact Hst].
Qed.

Theorem bal_check_sound ts : bal_check eqb [] ts = true -> Bal ts.
Proof.
  intros H. destruct (bal_check_split (length ts) ts [] (le_n _) H) as (a & rest & E & Ba & Hr).
  subst rest. rewrite app_nil_r in E. subst. exact Ba.
Qed.

(* a balanced block in front does not disturb the checker *)
Lemma bal_check_skip a : Bal a -> forall st rest,
  bal_check eqb st (a ++ rest) = bal_check eqb st rest.
Proof.
  intros Ha. induction Ha as [|ts Ha IH|k x y Hx IHx Hy IHy]; intros st rest; simpl.
  - reflexivity.
  - apply IH.
  - rewrite <- app_assoc. rewrite IHx. simpl.
    rewrite (proj2 (eqb_eq k k) eq_refl). simpl. apply IHy.
Qed.

Theorem bal_check_complete ts : Bal ts -> bal_check eqb [] ts = true.
Proof. intros H. rewrite <- (app_nil_r ts). rewrite bal_check_skip by assumption. reflexivity. Qed.

(* closing the innermost n open kinds *)
Lemma bal_check_closes : forall n st rest,
  (n <= length st)%nat ->
  bal_check eqb st (map TC (firstn n st) ++ rest) = bal_check eqb (skipn n st) rest.
Proof.
  induction n as [|n IH]; intros st rest Hn; [reflexivity|].
  destruct st as [|k st]; [simpl in Hn; lia|]. simpl.
  rewrite (proj2 (eqb_eq k k) eq_refl). simpl. apply IH. simpl in Hn. lia.
Qed.
End Bal.

(* ================= container blocks are closed LIFO ================= *)
(* The bookkeeping of blockTree: containers are opened one at a time and
   closed by closeBlocks(keep), which closes containers[len-1] down to
   containers[keep]; render ends with closeBlocks(0). *)
Inductive bstep := SOpen (k : N) | SCloseTo (keep : nat) | SLeaf.

(* state: open containers, innermost first *)
Definition close_to (keep : nat) (st : list N) : list (tok N) * list N :=
  let n := (length st - keep)%nat in (map TC (firstn n st), skipn n st).

Fixpoint run_blocks (steps : list bstep) (st : list N) : list (tok N) :=
  match steps with
  | [] => fst (close_to 0 st)
  | SOpen k :: r => TO k :: run_blocks r (k :: st)
  | SCloseTo keep :: r => let '(out, st') := close_to keep st in out ++ run_blocks r st'
  | SLeaf :: r => TL :: run_blocks r st
  end.

Lemma run_blocks_balanced steps : forall st,
  bal_check N.eqb st (run_blocks steps st) = true.
Proof.
  induction steps as [|s steps IH]; intros st.
  - simpl. rewrite Nat.sub_0_r. rewrite firstn_all.
    rewrite <- (app_nil_r (map TC st)).
    rewrite <- (firstn_all st) at 2.
    rewrite (bal_check_closes N.eqb N.eqb_eq (length st) st []) by lia.
    rewrite skipn_all. reflexivity.
  - destruct s as [k|keep|]; simpl.
    + apply IH.
    + rewrite (bal_check_closes N.eqb N.eqb_eq) by lia. apply IH.
    + apply IH.
Qed.

Theorem blocks_closed_lifo steps : Bal (run_blocks steps []).
Proof. apply (bal_check_sound N.eqb N.eqb_eq). apply run_blocks_balanced. Qed.

(* ================= emphasis output is well nested ================= *)
Section ItemInd.
Variable P : item -> Prop.
Hypothesis Htext : forall id len, P (IText id len).
Hypothesis Hnode : forall s kids, Forall P kids -> P (INode s kids).
Fixpoint item_ind2 (i : item) : P i :=
  match i with
  | IText id len => Htext id len
  | INode s kids =>
    Hnode s kids ((fix go (l : list item) : Forall P l :=
                     match l with
                     | [] => Forall_nil P
                     | k :: t => Forall_cons k (item_ind2 k) (go t)
                     end) kids)
  end.
End ItemInd.

Definition flat_kids (l : list item) : list otok :=
  (fix fl (l : list item) : list otok :=
     match l with [] => [] | k :: t => flat_item k ++ fl t end) l.

Lemma flat_item_node s kids :
  flat_item (INode s kids) = OStart s :: flat_kids kids ++ [OEnd s].
Proof. reflexivity. Qed.

Lemma flat_item_bal i : Bal (map otok_tok (flat_item i)).
Proof.
  induction i as [id len|s kids IH] using item_ind2.
  - simpl. destruct (Nat.eqb len 0); simpl; repeat constructor.
  - rewrite flat_item_node. simpl. rewrite map_app. simpl.
    apply (Bal_pair s _ []); [|constructor].
    induction IH as [|k t Hk Ht IHt]; simpl; [constructor|].
    rewrite map_app. apply Bal_app; assumption.
Qed.

Lemma flatten_bal l : Bal (map otok_tok (flatten l)).
Proof.
  induction l as [|e l IH]; simpl; [constructor|].
  unfold flatten in *. simpl. rewrite map_app. apply Bal_app; [|exact IH].
  apply flat_item_bal.
Qed.

Lemma bool_eqb_eq x y : Bool.eqb x y = true <-> x = y.
Proof. destruct x, y; simpl; split; congruence. Qed.

Theorem emphasis_well_nested ents l :
  process_emphasis ents = Some l ->
  bal_check Bool.eqb [] (map otok_tok (flatten l)) = true.
Proof. intros _. apply (bal_check_complete Bool.eqb bool_eqb_eq). apply flatten_bal. Qed.

(* ================= processEmphasis terminates ================= *)
Lemma find_opener_rem : forall left stop c btw o rest,
  find_opener left stop c = Some (btw, o, rest) ->
  rem_sum left = (rem_sum btw + d_rem o + rem_sum rest)%nat.
Proof.
  induction left as [|e left IH]; intros stop c btw o rest H; [discriminate|].
  destruct e as [p|i]; simpl in H.
  - destruct (match stop with Some id => Nat.eqb id (d_id p) | None => false end); [discriminate|].
    destruct (suitable p c).
    + inversion H; subst. simpl. lia.
    + destruct (find_opener left stop c) as [[[b o'] r]|] eqn:E; [|discriminate].
      inversion H; subst. simpl. rewrite (IH _ _ _ _ _ E). lia.
  - destruct (find_opener left stop c) as [[[b o'] r]|] eqn:E; [|discriminate].
    inversion H; subst. simpl. apply (IH _ _ _ _ _ E).
Qed.

Lemma pe_terminates : forall fuel left right ob,
  (pe_measure left right < fuel)%nat -> pe fuel left right ob <> None.
Proof.
  induction fuel as [|f IH]; intros left right ob Hm; [lia|].
  unfold pe_measure in *. destruct right as [|e r]; cbn [pe]; [discriminate|].
  destruct e as [c|i].
  - destruct (negb (d_close c)).
    + apply IH. cbn [rem_sum length] in *. lia.
    + cbv zeta.
      destruct (find_opener left (ob_lookup ob (bucket c)) c) as [[[btw o] rest]|] eqn:E.
      * pose proof (find_opener_rem _ _ _ _ _ _ E) as R.
        remember (if Nat.leb 2 (d_rem o) && Nat.leb 2 (d_rem c) then 2%nat else 1%nat) as k eqn:Ek.
        assert (Hk : (1 <= k)%nat).
        { subst k. destruct (Nat.leb 2 (d_rem o) && Nat.leb 2 (d_rem c)); lia. }
        assert (Uc : d_rem (use c k) = (d_rem c - k)%nat) by reflexivity.
        assert (Uo : d_rem (use o k) = (d_rem o - k)%nat) by reflexivity.
        destruct (Nat.eqb (d_rem (use c k)) 0) eqn:Ec;
          [apply Nat.eqb_eq in Ec|apply Nat.eqb_neq in Ec];
          (destruct (Nat.eqb (d_rem (use o k)) 0) eqn:Eo;
           [apply Nat.eqb_eq in Eo|apply Nat.eqb_neq in Eo]);
          apply IH; cbn [rem_sum length] in *; lia.
      * destruct (d_open c); apply IH; cbn [rem_sum length demote] in *; lia.
  - apply IH. cbn [rem_sum length] in *. lia.
Qed.

Theorem process_emphasis_terminates ents : process_emphasis ents <> None.
Proof.
  unfold process_emphasis.
  pose proof (pe_terminates (S (pe_measure [] ents)) [] ents [] (Nat.lt_succ_diag_r _)) as H.
  destruct (pe (S (pe_measure [] ents)) [] ents []); [discriminate|congruence].
Qed.

(* ================= delimiter classification = the documented table ================= *)
Theorem flank_table us sp pp sn pn :
  sp && pp = false -> sn && pn = false ->
  can_open_close us sp pp sn pn =
  (table_open us (cat sp pp) (cat sn pn), table_close us (cat sp pp) (cat sn pn)).
Proof. destruct us, sp, pp, sn, pn; simpl; intros; try discriminate; reflexivity. Qed.

(* ================= escapeHTML ================= *)
Definition raw_special (c : N) : bool := (c =? 60) || (c =? 62) || (c =? 34).

Lemma esc_byte_no_special c : existsb raw_special (esc_byte c) = false.
Proof.
  unfold esc_byte.
  destruct (c =? 38) eqn:E1; [reflexivity|].
  destruct (c =? 34) eqn:E2; [reflexivity|].
  destruct (c =? 60) eqn:E3; [reflexivity|].
  destruct (c =? 62) eqn:E4; [reflexivity|].
  simpl. unfold raw_special. rewrite E2, E3, E4. reflexivity.
Qed.

Lemma escape_no_special s : existsb raw_special (escape_html s) = false.
Proof.
  induction s as [|c s IH]; [reflexivity|].
  unfold escape_html in *. simpl. rewrite existsb_app, esc_byte_no_special, IH. reflexivity.
Qed.

Lemma escape_unescape s : unescape4 0 (escape_html s) = s.
Proof.
  induction s as [|c s IH]; [reflexivity|].
  unfold escape_html in *. simpl flat_map. unfold esc_byte.
  destruct (c =? 38) eqn:E1.
  { apply N.eqb_eq in E1. subst c. simpl. f_equal. exact IH. }
  destruct (c =? 34) eqn:E2.
  { apply N.eqb_eq in E2. subst c. simpl. f_equal. exact IH. }
  destruct (c =? 60) eqn:E3.
  { apply N.eqb_eq in E3. subst c. simpl. f_equal. exact IH. }
  destruct (c =? 62) eqn:E4.
  { apply N.eqb_eq in E4. subst c. simpl. f_equal. exact IH. }
  simpl. rewrite E1. f_equal. exact IH.
Qed.

Theorem html_escape_safe s : escape_safe s (escape_html s) = true.
Proof.
  unfold escape_safe. rewrite escape_unescape, bytes_eqb_refl.
  change (fun c : N => (c =? 60) || (c =? 62) || (c =? 34)) with raw_special.
  rewrite escape_no_special. reflexivity.
Qed.

(* ================= line splitting is lossless ================= *)
Lemma split_lines_cons_nl r : split_lines (NL :: r) = [] :: split_lines r.
Proof. reflexivity. Qed.

Lemma no_nl_split s : forallb (fun l => negb (existsb (fun c => c =? NL) l)) (split_lines s) = true.
Proof.
  induction s as [|c r IH]; [reflexivity|]. simpl.
  destruct (c =? NL) eqn:E; simpl; [exact IH|].
  destruct (split_lines r) as [|l ls]; simpl in *; rewrite E; simpl; [reflexivity|exact IH].
Qed.

Lemma join_split s :
  join_lines (split_lines s) ++ (if ends_nl s then [NL] else []) = s.
Proof.
  assert (G : forall s, match split_lines s with
                        | [] => s = []
                        | _ => join_lines (split_lines s) ++ (if ends_nl s then [NL] else []) = s
                        end).
  { clear s. induction s as [|c r IH]; [reflexivity|].
    assert (EN : forall x y (t : bytes), ends_nl (x :: y :: t) = ends_nl (y :: t)).
    { intros x y t. unfold ends_nl. change (rev (x :: y :: t)) with (rev (y :: t) ++ [x]).
      destruct (rev (y :: t)) eqn:E; [|reflexivity].
      apply (f_equal (@length N)) in E. rewrite rev_length in E. discriminate. }
    simpl split_lines. destruct (c =? NL) eqn:E.
    - apply N.eqb_eq in E. subst c.
      destruct (split_lines r) as [|l ls] eqn:S.
      + subst r. reflexivity.
      + destruct r as [|y t]; [discriminate|]. rewrite EN.
        change (join_lines ([] :: l :: ls)) with ([] ++ NL :: join_lines (l :: ls)).
        simpl app. f_equal. exact IH.
    - destruct (split_lines r) as [|l ls] eqn:S.
      + subst r. simpl. unfold ends_nl. simpl. rewrite E. reflexivity.
      + destruct r as [|y t]; [discriminate|]. rewrite EN.
        destruct ls as [|l2 ls2].
        * simpl in *. f_equal. exact IH.
        * change (join_lines ((c :: l) :: l2 :: ls2)) with ((c :: l) ++ NL :: join_lines (l2 :: ls2)).
          change (join_lines (l :: l2 :: ls2)) with (l ++ NL :: join_lines (l2 :: ls2)) in IH.
          simpl. f_equal. exact IH. }
  specialize (G s). destruct (split_lines s) eqn:E; [subst; reflexivity|exact G].
Qed.

Theorem line_split_lossless s : check_lines s (split_lines s) = true.
Proof.
  unfold check_lines. rewrite no_nl_split. simpl. apply bytes_eqb_spec. apply join_split.
Qed.

(* ================= HTML well-formedness checker is sound ================= *)
Definition WellFormedHTML (out : bytes) : Prop :=
  exists ts, lex_html None out = Some ts /\ Bal ts.

Theorem html_wf_sound out : html_wf out = true -> WellFormedHTML out.
Proof.
  unfold html_wf, WellFormedHTML. destruct (lex_html None out) as [ts|]; [|discriminate].
  intros H. exists ts. split; [reflexivity|].
  apply (bal_check_sound bytes_eqb bytes_eqb_spec). exact H.
Qed.

(* ================= code spans ================= *)
Lemma index_run_spec : forall fuel s k i j,
  index_run fuel s k i = Some j -> (i <= j)%nat /\ (k <= span is_bt (skipn j s))%nat.
Proof.
  induction fuel as [|f IH]; intros s k i j H; [discriminate|]. simpl in H.
  destruct (Nat.ltb (length s) (i + k)); [discriminate|].
  destruct (Nat.leb k (span is_bt (skipn i s))) eqn:E.
  - inversion H; subst. apply Nat.leb_le in E. split; [lia|exact E].
  - apply IH in H. destruct H. split; [lia|assumption].
Qed.

(* what is found is a run of exactly k backticks at or after i *)
Theorem codespan_closer_exact : forall fuel s k i j,
  find_backtick_run fuel s k i = Some j ->
  (i <= j)%nat /\ span is_bt (skipn j s) = k.
Proof.
  induction fuel as [|f IH]; intros s k i j H; [discriminate|]. cbn [find_backtick_run] in H.
  destruct (Nat.leb (length s) i); [discriminate|].
  destruct (index_run (S (length s)) s k i) as [j0|] eqn:E; [|discriminate].
  apply index_run_spec in E. destruct E as [E1 E2].
  destruct (Nat.eqb (span is_bt (skipn j0 s)) k) eqn:Q.
  - inversion H; subst. apply Nat.eqb_eq in Q. split; [exact E1|exact Q].
  - apply IH in H. destruct H. split; [lia|assumption].
Qed.

(* ================= parseLinkTail never runs out of fuel ================= *)
Lemma nth_is_lt k (t : bytes) b : nth_is k t b = true -> (k < length t)%nat.
Proof.
  unfold nth_is. destruct (nth_error t k) eqn:E; [|discriminate].
  intros _. apply nth_error_Some. congruence.
Qed.

Lemma char_ref_len_le s : (char_ref_len s <= length s)%nat.
Proof.
  unfold char_ref_len.
  destruct s as [|a r]; [simpl; lia|].
  destruct (negb (a =? 38)); [simpl; lia|].
  assert (AL : forall t : bytes,
    ((let k := span is_alnum t in
      if Nat.leb 1 k && nth_is k t 59 then (k + 2)%nat else 0%nat) <= length (a :: t))%nat).
  { intros t. cbv zeta. destruct (Nat.leb 1 (span is_alnum t) && nth_is (span is_alnum t) t 59) eqn:E;
      [|simpl; lia].
    apply andb_true_iff in E as [_ E]. apply nth_is_lt in E. simpl. lia. }
  destruct r as [|h [|c r3]]; try apply AL.
  destruct (h =? 35); [|apply AL].
  destruct ((c =? 120) || (c =? 88)); cbv zeta.
  - destruct (Nat.leb 1 (span is_hex r3) && Nat.leb (span is_hex r3) 6 && nth_is (span is_hex r3) r3 59) eqn:E;
      [|simpl; lia].
    apply andb_true_iff in E as [_ E]. apply nth_is_lt in E. simpl. lia.
  - destruct (Nat.leb 1 (span is_digit (c :: r3)) && Nat.leb (span is_digit (c :: r3)) 7
              && nth_is (span is_digit (c :: r3)) (c :: r3) 59) eqn:E; [|simpl; lia].
    apply andb_true_iff in E as [_ E]. apply nth_is_lt in E. simpl in *. lia.
Qed.

Lemma parse_charref_shorter s bs r : s <> [] -> parse_charref s = (bs, r) -> (length r < length s)%nat.
Proof.
  intros Hs H. unfold parse_charref in H. destruct (Nat.eqb (char_ref_len s) 0) eqn:E.
  - inversion H; subst. destruct s; [congruence|simpl; lia].
  - inversion H; subst. apply Nat.eqb_neq in E. rewrite skipn_length.
    pose proof (char_ref_len_le s). destruct s; [congruence|]. simpl length in *. lia.
Qed.

Lemma parse_backslash_shorter r b r' : parse_backslash r = (b, r') -> (length r' <= length r)%nat.
Proof.
  unfold parse_backslash. destruct r as [|c t]; intros H.
  - inversion H; subst. simpl. lia.
  - destruct (is_ascii_punct c); inversion H; subst; simpl; lia.
Qed.

Lemma bare_dest_total : forall fuel s acc bal,
  (length s < fuel)%nat -> bare_dest fuel s acc bal <> None.
Proof.
  induction fuel as [|f IH]; intros s acc bal Hl; [lia|]. simpl.
  destruct s as [|c r]; [discriminate|]. simpl in Hl.
  destruct (is_ascii_control c || (c =? 32)); [discriminate|].
  destruct (c =? 40); [apply IH; lia|].
  destruct (c =? 41).
  { destruct bal; [discriminate|apply IH; lia]. }
  destruct (c =? 92).
  { destruct (parse_backslash r) as [b r'] eqn:E. apply parse_backslash_shorter in E. apply IH. lia. }
  destruct (c =? 38).
  { destruct (parse_charref (c :: r)) as [bs r'] eqn:E.
    apply parse_charref_shorter in E; [|discriminate]. simpl in E. apply IH. lia. }
  apply IH. lia.
Qed.

Lemma skip_ws_length s : (length (skip_ws s) <= length s)%nat.
Proof. induction s as [|c r IH]; simpl; [lia|]. destruct (is_ws c); simpl; lia. Qed.

Lemma tail_after_dest_no_fuel fuel total d rest : tail_after_dest fuel total d rest <> TailFuel.
Proof.
  unfold tail_after_dest. cbv zeta.
  destruct (skip_ws rest) as [|q r2].
  - destruct (skip_ws []); [discriminate|]. destruct (_ =? 41); discriminate.
  - destruct ((q =? 39) || (q =? 34) || (q =? 40)).
    + destruct (title_body _ q _ r2 []) as [[t rest2]|]; [|discriminate].
      destruct (skip_ws rest2); [discriminate|]. destruct (_ =? 41); discriminate.
    + destruct (skip_ws (q :: r2)); [discriminate|]. destruct (_ =? 41); discriminate.
Qed.

Theorem parse_link_tail_total text : parse_link_tail text <> TailFuel.
Proof.
  unfold parse_link_tail.
  destruct text as [|c0 rest0]; [discriminate|].
  destruct (negb (c0 =? 40)); [discriminate|].
  destruct rest0 as [|x0 rest1]; [discriminate|].
  destruct (skip_ws (x0 :: rest1)) as [|c r] eqn:S1; [discriminate|].
  pose proof (skip_ws_length (x0 :: rest1)) as L1. rewrite S1 in L1.
  cbv zeta. destruct (c =? 60).
  - destruct (angle_dest _ r []) as [[d rest]|]; [apply tail_after_dest_no_fuel|discriminate].
  - destruct (bare_dest _ (c :: r) [] 0) as [[[d rest] bal]|] eqn:B.
    + destruct bal; [apply tail_after_dest_no_fuel|discriminate].
    + exfalso. revert B. apply bare_dest_total. simpl in *. lia.
Qed.
