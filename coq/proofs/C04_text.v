(* C04 — facts about the text repr produces: the insertion sort, the closed form
   of the list / map builders, ASCII words read by C03's reader, and the
   characters of number texts. *)
From verif Require Import lib.Base lib.ListX lib.Utf8 lib.Utf8_proofs model.C03 proofs.C03_proofs
  model.C08_Value model.C04.
From verif Require model.C05 proofs.C05_proofs proofs.C05_float_proofs.
From Coq Require Import Permutation ZifyBool ZifyNat ZifyN.
Open Scope N_scope.

Ltac blia := unfold bytes in *; lia.

(* ------------------------------------------------------------------ *)
(* insertion sort *)
Section SortFacts.
  Context {A : Type}.
  Variable lt : A -> A -> bool.

  Lemma ins_rev_perm x racc : Permutation (x :: racc) (ins_rev lt x racc).
  Proof.
    induction racc as [|y r IH]; [reflexivity|]. cbn [ins_rev].
    destruct (lt x y); [|reflexivity].
    eapply perm_trans; [apply perm_swap|]. apply perm_skip. exact IH.
  Qed.

  Lemma fold_ins_perm l : forall racc,
    Permutation (rev l ++ racc) (fold_left (fun r x => ins_rev lt x r) l racc).
  Proof.
    induction l as [|x l IH]; intros racc; [reflexivity|]. cbn [fold_left rev].
    rewrite <- app_assoc. cbn [app].
    eapply perm_trans; [|apply IH]. apply Permutation_app_head. apply ins_rev_perm.
  Qed.

  Lemma isort_perm l : Permutation l (isort lt l).
  Proof.
    unfold isort. eapply perm_trans; [|apply Permutation_rev].
    eapply perm_trans; [|apply fold_ins_perm]. rewrite app_nil_r. apply Permutation_rev.
  Qed.

  Lemma isort_in l x : In x (isort lt l) -> In x l.
  Proof. intros H. eapply Permutation_in; [apply Permutation_sym, isort_perm|exact H]. Qed.

  Lemma isort_length l : length (isort lt l) = length l.
  Proof. symmetry. apply Permutation_length, isort_perm. Qed.

  Lemma isort_nil : isort lt [] = [].
  Proof. reflexivity. Qed.
End SortFacts.

(* sorting commutes with a decoration that the comparison does not look at *)
Lemma ins_rev_map {A B} (lt : A -> A -> bool) (lt' : B -> B -> bool) (f : A -> B) :
  (forall a b, lt' (f a) (f b) = lt a b) ->
  forall x racc, ins_rev lt' (f x) (map f racc) = map f (ins_rev lt x racc).
Proof.
  intros H x racc. induction racc as [|y r IH]; [reflexivity|]. cbn [map ins_rev].
  rewrite H. destruct (lt x y); [|reflexivity]. cbn [map]. rewrite IH. reflexivity.
Qed.

Lemma isort_map {A B} (lt : A -> A -> bool) (lt' : B -> B -> bool) (f : A -> B) :
  (forall a b, lt' (f a) (f b) = lt a b) ->
  forall l, isort lt' (map f l) = map f (isort lt l).
Proof.
  intros H l. unfold isort. rewrite map_rev. f_equal.
  change (@nil B) with (map f []). generalize (@nil A) as racc.
  induction l as [|x l IH]; intros racc; [reflexivity|]. cbn [map fold_left].
  rewrite (ins_rev_map lt lt' f H). apply IH.
Qed.

(* ------------------------------------------------------------------ *)
(* closed form of the builders *)

(* x1 preceded by sep1, every later x by sep *)
Fixpoint items_text (sep1 sep : bytes) (xs : list bytes) : bytes :=
  match xs with
  | [] => []
  | x :: r => sep1 ++ x ++ items_text sep sep r
  end.

Definition sep_first (ind : Z) : bytes := if (0 <=? ind)%Z then 10 :: spaces (ind + 1) else [].
Definition sep_next (ind : Z) : bytes := if (0 <=? ind)%Z then 10 :: spaces (ind + 1) else [32].
Definition sep_close (ind : Z) : bytes := if (0 <=? ind)%Z then 10 :: spaces ind else [].

Lemma fold_write_next ind xs : forall buf, (1 < length buf)%nat ->
  fold_left (fun b x => lb_write ind b x) xs buf = buf ++ items_text (sep_next ind) (sep_next ind) xs.
Proof.
  induction xs as [|x xs IH]; intros buf L; cbn [fold_left items_text]; [rewrite app_nil_r; reflexivity|].
  rewrite IH.
  - unfold lb_write, sep_next. destruct buf as [|b0 buf']; [cbn in L; lia|].
    destruct (0 <=? ind)%Z.
    + rewrite <- !app_assoc. cbn [app]. reflexivity.
    + replace (Nat.ltb 1 (length (b0 :: buf'))) with true by (symmetry; apply Nat.ltb_lt; exact L).
      rewrite <- !app_assoc. cbn [app]. reflexivity.
  - unfold lb_write. destruct buf as [|b0 buf']; [cbn in L; lia|].
    destruct (0 <=? ind)%Z; [|destruct (Nat.ltb 1 (length (b0 :: buf')))];
      rewrite ?app_length; cbn [length] in *; blia.
Qed.

Lemma fold_write ind x xs : x <> [] ->
  fold_left (fun b y => lb_write ind b y) (x :: xs) [] =
  91 :: items_text (sep_first ind) (sep_next ind) (x :: xs).
Proof.
  intros Hx. cbn [fold_left items_text]. rewrite fold_write_next.
  - unfold lb_write, sep_first. cbn [length Nat.ltb Nat.leb]. destruct (0 <=? ind)%Z.
    + cbn [app]. rewrite <- ?app_assoc. cbn [app]. reflexivity.
    + cbn [app]. rewrite <- ?app_assoc. cbn [app]. reflexivity.
  - unfold lb_write. cbn [length Nat.ltb Nat.leb]. destruct x as [|x0 x']; [congruence|].
    destruct (0 <=? ind)%Z; rewrite ?app_length; cbn [length app]; blia.
Qed.

Lemma lb_string_items ind x xs : x <> [] ->
  lb_string ind (fold_left (fun b y => lb_write ind b y) (x :: xs) []) =
  91 :: items_text (sep_first ind) (sep_next ind) (x :: xs) ++ sep_close ind ++ [93].
Proof.
  intros Hx. rewrite (fold_write ind x xs Hx). unfold lb_string, sep_close.
  destruct (0 <=? ind)%Z; cbn [app]; rewrite <- ?app_assoc; reflexivity.
Qed.

(* the text after white space has been skipped: an item, then what separates it
   from the next one (or the closing bracket) *)
Fixpoint tail_text (sep close : bytes) (xs : list bytes) (t : bytes) : bytes :=
  match xs with
  | [] => 93 :: t
  | x :: r => x ++ (match r with [] => close | _ => sep end) ++ tail_text sep close r t
  end.

Lemma items_tail sep close xs t : forall sep1, xs <> [] ->
  items_text sep1 sep xs ++ close ++ 93 :: t = sep1 ++ tail_text sep close xs t.
Proof.
  induction xs as [|x xs IH]; intros sep1 Hne; [congruence|]. cbn [items_text tail_text].
  destruct xs as [|y ys].
  - cbn [items_text tail_text]. rewrite <- !app_assoc. cbn [app]. reflexivity.
  - rewrite <- !app_assoc. f_equal. f_equal. apply IH. discriminate.
Qed.

(* white space *)
Definition all_ws (s : bytes) : Prop := Forall (fun c => is_ws c = true) s.

Lemma spaces_ws n : all_ws (spaces n).
Proof. unfold spaces, all_ws. induction (Z.to_nat n); cbn [repeat]; constructor; [reflexivity|assumption]. Qed.
Lemma sep_first_ws ind : all_ws (sep_first ind).
Proof. unfold sep_first. destruct (0 <=? ind)%Z; [constructor; [reflexivity|apply spaces_ws]|constructor]. Qed.
Lemma sep_next_ws ind : all_ws (sep_next ind).
Proof.
  unfold sep_next. destruct (0 <=? ind)%Z; [constructor; [reflexivity|apply spaces_ws]|].
  constructor; [reflexivity|constructor].
Qed.
Lemma sep_close_ws ind : all_ws (sep_close ind).
Proof. unfold sep_close. destruct (0 <=? ind)%Z; [constructor; [reflexivity|apply spaces_ws]|constructor]. Qed.

Lemma skip_ws_app w s : all_ws w -> skip_ws (w ++ s) = skip_ws s.
Proof.
  induction 1 as [|c w Hc _ IH]; [reflexivity|]. cbn [app]. unfold skip_ws in *. cbn [skip_while].
  rewrite Hc. exact IH.
Qed.

(* ------------------------------------------------------------------ *)
(* ASCII words *)
Lemma chunks_fuel_ascii s : Forall (fun b => b < 128) s -> forall f, (length s <= f)%nat ->
  chunks_fuel f s = map (fun b => (b, [b])) s.
Proof.
  induction 1 as [|b s Hb _ IH]; intros f L; [apply chunks_fuel_nil|].
  destruct f as [|f]; [cbn in L; lia|]. rewrite chunks_fuel_S by discriminate.
  rewrite (decode1 b s Hb). cbn [fst snd firstn skipn map]. f_equal. apply IH. cbn in L. lia.
Qed.

Lemma chunks_ascii s : Forall (fun b => b < 128) s -> chunks s = map (fun b => (b, [b])) s.
Proof. intros H. unfold chunks. apply chunks_fuel_ascii; [exact H|lia]. Qed.

Lemma ascii_good s : Forall (fun b => b < 128) s -> Forall good (chunks s).
Proof.
  intros H. rewrite (chunks_ascii s H). apply Forall_map. eapply Forall_impl; [|exact H].
  cbn beta. intros b Hb. split; cbn [fst snd]; [apply encode_rune_ascii; exact Hb|apply valid_rune_ascii; exact Hb].
Qed.

Section Words.
Variable is_print : N -> bool.

(* an ASCII word all of whose bytes may stand in a bareword is read as itself *)
Lemma read_bare_ascii ctx s t :
  s <> [] -> Forall (fun b => b < 128) s -> hd 0 s <> 126 ->
  Forall (fun b => allowed_in_bareword is_print b ctx = true) s ->
  term_ok is_print ctx t ->
  read_compound is_print ctx (s ++ t) = COk [(TBare, s)] t.
Proof.
  intros Hne Ha Hh Hb Ht. destruct s as [|b0 s']; [congruence|]. cbn [hd] in Hh.
  apply read_compound_bare; try assumption.
  - apply ascii_good; exact Ha.
  - rewrite (chunks_ascii _ Ha). apply Forall_map. exact Hb.
Qed.

(* $name for an ASCII name of variable-name bytes *)
Lemma read_var_ascii ctx name t :
  name <> [] -> Forall (fun b => b < 128) name ->
  Forall (fun b => allowed_in_varname is_print b = true) name ->
  term_ok is_print ctx t ->
  read_compound is_print ctx (36 :: name ++ t) = COk [(TVar, name)] t.
Proof.
  intros Hne Ha Hv Ht.
  assert (Pk : peek ((36 :: name) ++ t) = Some 36) by (cbn [app]; apply peek_ascii; lia).
  change (36 :: name ++ t) with ((36 :: name) ++ t).
  apply (read_compound_one is_print ctx _ TVar name t 36); try assumption.
  - lia.
  - apply starts_primary_dollar.
  - unfold read_primary. rewrite Pk, starts_primary_dollar, dollar_not_bareword.
    cbn [negb N.eqb Pos.eqb app]. rewrite next_ascii by lia. cbn [snd].
    rewrite (read_variable_bare is_print ctx name t); try assumption; [reflexivity|apply ascii_good; exact Ha|].
    rewrite (chunks_ascii _ Ha). apply Forall_map. exact Hv.
  - discriminate.
Qed.

(* what a terminator looks like to C03's reader *)
Lemma read_compound_term ctx t : term_ok is_print ctx t -> read_compound is_print ctx t = COk [] t.
Proof.
  intros Ht. unfold read_compound.
  assert (P : peek_is t 126 = false).
  { apply (term_ok_peek_is is_print ctx); [exact Ht|]. unfold starts_primary, allowed_in_bareword, allowed_in_varname.
    cbn [N.eqb Pos.eqb N.leb N.compare Pos.compare Pos.compare_cont andb orb].
    destruct ctx; reflexivity. }
  rewrite P. apply read_indexings_term. exact Ht.
Qed.

(* a compound that yields at least one word starts with a rune that starts a primary *)
Lemma read_compound_head ctx src ws rest :
  read_compound is_print ctx src = COk ws rest -> ws <> [] ->
  exists r, peek src = Some r /\ starts_primary is_print r ctx = true.
Proof.
  unfold read_compound, peek_is. intros H Hne. destruct (peek src) as [r|] eqn:P.
  - exists r. split; [reflexivity|].
    destruct (r =? 126) eqn:E.
    + apply N.eqb_eq in E. subst r. unfold starts_primary, allowed_in_bareword, allowed_in_varname.
      cbn [N.eqb Pos.eqb N.leb N.compare Pos.compare Pos.compare_cont andb orb]. destruct ctx; reflexivity.
    + rewrite read_indexings_S, P in H. destruct (starts_primary is_print r ctx); [reflexivity|].
      cbn [negb] in H. inversion H; subst. congruence.
  - rewrite read_indexings_S, P in H. inversion H; subst. congruence.
Qed.

(* C03's reader does not read bracketed or parenthesised primaries *)
Lemma read_compound_bracket ctx c rest : c = 91 \/ c = 40 ->
  read_compound is_print ctx (c :: rest) = COther.
Proof.
  intros Hc. assert (Pk : peek (c :: rest) = Some c) by (apply peek_ascii; lia).
  unfold read_compound, peek_is. rewrite Pk.
  replace (c =? 126) with false by (destruct Hc; subst; reflexivity).
  rewrite read_indexings_S, Pk.
  assert (SP : starts_primary is_print c ctx = true).
  { unfold starts_primary. destruct Hc; subst; cbn [N.eqb Pos.eqb]; rewrite ?orb_true_r; reflexivity. }
  rewrite SP. cbn [negb]. unfold read_primary. rewrite Pk, SP. cbn [negb].
  assert (AB : allowed_in_bareword is_print c ctx = false).
  { unfold allowed_in_bareword, allowed_in_varname.
    destruct Hc; subst; cbn [N.eqb Pos.eqb N.leb N.compare Pos.compare Pos.compare_cont andb orb];
      destruct ctx; reflexivity. }
  rewrite AB. destruct Hc; subst; reflexivity.
Qed.

End Words.

(* ------------------------------------------------------------------ *)
(* characters of number texts *)
Definition nchar (c : N) : bool :=
  C05.is_dec c || (c =? 45) || (c =? 43) || (c =? 46) || (c =? 47) || (c =? 101)
  || (c =? 78) || (c =? 97) || (c =? 73) || (c =? 110) || (c =? 102).

Lemma nchar_cases c : nchar c = true ->
  (48 <= c <= 57) \/ c = 45 \/ c = 43 \/ c = 46 \/ c = 47 \/ c = 101
  \/ c = 78 \/ c = 97 \/ c = 73 \/ c = 110 \/ c = 102.
Proof. unfold nchar, C05.is_dec. lia. Qed.

Lemma nchar_ascii c : nchar c = true -> c < 128.
Proof. intros H. apply nchar_cases in H. lia. Qed.

Lemma nchar_bareword is_print c ctx : nchar c = true -> allowed_in_bareword is_print c ctx = true.
Proof.
  intros H. apply nchar_cases in H. unfold allowed_in_bareword, allowed_in_varname.
  destruct H as [[H1 H2]|H].
  - replace (48 <=? c) with true by lia. replace (c <=? 57) with true by lia.
    cbn [andb]. rewrite !orb_true_r. reflexivity.
  - repeat (destruct H as [H|H]; [subst c; cbn [N.eqb Pos.eqb N.leb N.compare Pos.compare Pos.compare_cont andb orb];
      rewrite ?orb_true_r; reflexivity|]).
    subst c; cbn [N.eqb Pos.eqb N.leb N.compare Pos.compare Pos.compare_cont andb orb]; rewrite ?orb_true_r; reflexivity.
Qed.

Lemma nchar_not c : nchar c = true ->
  is_ws c = false /\ c <> 35 /\ c <> 94 /\ c <> 126 /\ c <> 59.
Proof. intros H. apply nchar_cases in H. unfold is_ws. lia. Qed.

Lemma forallb_nchar_digits l : forallb C05.is_dec l = true -> forallb nchar l = true.
Proof.
  intros H. rewrite forallb_forall in *. intros x Hx. specialize (H x Hx). unfold nchar. rewrite H. reflexivity.
Qed.

Lemma nchar_dec_N n : forallb nchar (C05.dec_N n) = true /\ C05.dec_N n <> [].
Proof.
  unfold C05.dec_N. destruct (C05_proofs.digits_of_spec n) as (F & _ & (d & r & E & _)).
  cbv zeta in F. split.
  - rewrite forallb_forall in *. intros c Hc. apply in_map_iff in Hc as (x & <- & Hx).
    specialize (F x Hx). unfold C05.dchar, nchar, C05.is_dec. lia.
  - rewrite E. discriminate.
Qed.

Lemma nchar_dec_Z z : forallb nchar (C05.dec_Z z) = true /\ C05.dec_Z z <> [].
Proof.
  unfold C05.dec_Z. destruct (z <? 0)%Z.
  - split; [|discriminate]. cbn [forallb]. rewrite (proj1 (nchar_dec_N _)). reflexivity.
  - apply nchar_dec_N.
Qed.

Lemma nchar_sign sg : C05_float_proofs.sign_part sg -> forallb nchar sg = true.
Proof. intros [->| ->]; reflexivity. Qed.
Lemma nchar_frac m : C05_float_proofs.frac_part m -> forallb nchar m = true.
Proof.
  intros [->|(fp & -> & _ & F)]; [reflexivity|]. cbn [forallb]. rewrite (forallb_nchar_digits _ F). reflexivity.
Qed.

Lemma nchar_shape_f s : C05.shape_f s = true -> forallb nchar s = true /\ s <> [].
Proof.
  intros H. apply C05_float_proofs.shape_f_inv in H as (sg & d & ip & m & -> & Hs & Hd & Hm).
  split.
  - rewrite !forallb_app, (nchar_sign _ Hs), (forallb_nchar_digits _ Hd), (nchar_frac _ Hm). reflexivity.
  - destruct sg; discriminate.
Qed.

Lemma nchar_shape_e s : C05.shape_e s = true -> forallb nchar s = true /\ s <> [].
Proof.
  intros H. apply C05_float_proofs.shape_e_inv in H as (sg & d & m & sgn & ex & -> & Hs & Hd & Hm & Hsgn & Hex).
  split.
  - rewrite forallb_app. cbn [forallb]. rewrite forallb_app. cbn [forallb].
    rewrite (nchar_sign _ Hs), (nchar_frac _ Hm), (forallb_nchar_digits _ Hex).
    assert (nchar d = true) by (unfold nchar; rewrite Hd; reflexivity).
    assert (nchar sgn = true) by (destruct Hsgn; subst; reflexivity).
    rewrite H, H0. reflexivity.
  - destruct sg; discriminate.
Qed.

(* ------------------------------------------------------------------ *)
(* the entries of a map in printed order: sorted by CmpTotal on the keys, ties
   broken by the key texts.  Every decoration of the entries that carries the
   key and the key text is sorted the same way. *)
Definition sorted_entries (rk : N -> Z) (ktext : value -> bytes) (m : list (value * value))
  : list (value * value) :=
  map (fun x => snd (snd x))
      (isort (@key_lt rk (value * value)) (map (fun e => (fst e, (ktext (fst e), e))) m)).

Lemma isort_dec {X} (rk : N -> Z) (ktext : value -> bytes) (g : value * value -> X) m :
  isort (@key_lt rk X) (map (fun e => (fst e, (ktext (fst e), g e))) m)
  = map (fun e => (fst e, (ktext (fst e), g e))) (sorted_entries rk ktext m).
Proof.
  set (base := fun e : value * value => (fst e, (ktext (fst e), e))).
  set (f := fun x : value * (bytes * (value * value)) => (fst x, (fst (snd x), g (snd (snd x))))).
  assert (E : map (fun e => (fst e, (ktext (fst e), g e))) m = map f (map base m))
    by (rewrite map_map; reflexivity).
  rewrite E. rewrite (isort_map (@key_lt rk (value * value)) (@key_lt rk X) f (fun a b => eq_refl)).
  unfold sorted_entries. fold base. rewrite map_map. apply map_ext_in.
  intros x Hx. apply isort_in in Hx. apply in_map_iff in Hx as (e & <- & _). reflexivity.
Qed.

Lemma sorted_entries_perm rk ktext m : Permutation m (sorted_entries rk ktext m).
Proof.
  unfold sorted_entries.
  set (base := fun e : value * value => (fst e, (ktext (fst e), e))).
  assert (E : m = map (fun x : value * (bytes * (value * value)) => snd (snd x)) (map base m)).
  { rewrite map_map. cbn [base snd]. symmetry. apply map_id. }
  rewrite E at 1. apply Permutation_map. apply isort_perm.
Qed.

Lemma sorted_entries_in rk ktext m e : In e (sorted_entries rk ktext m) -> In e m.
Proof. intros H. eapply Permutation_in; [apply Permutation_sym, sorted_entries_perm|exact H]. Qed.

Lemma sorted_entries_length rk ktext m : length (sorted_entries rk ktext m) = length m.
Proof. symmetry. apply Permutation_length, sorted_entries_perm. Qed.
