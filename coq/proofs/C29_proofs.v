(* C29 — proofs: the position specification (what a walk must return), the
   in-memory cursor refines it for every walk, and additions by other sessions
   are invisible to the database cursor's backward step. *)
From verif Require Import lib.Base model.C24_F64 model.C24_StoreSpec model.C29.
Open Scope Z_scope.

(* ------------------------------------------------------------------ *)
(* the position specification *)
Lemma skipn_nth {A} (l : list A) : forall j c, nth_error l j = Some c -> skipn j l = c :: skipn (S j) l.
Proof. induction l as [|a l IH]; intros [|j] c H; cbn in *; try discriminate.
  - injection H as ->. reflexivity.
  - apply IH. assumption. Qed.

Lemma pos_back_from l : forall k j, (j + k <= length l)%nat ->
  pos_run l (Z.of_nat j - 1) (repeat MPrev k) = map OCmd (firstn k (skipn j l)).
Proof.
  induction k as [|k IH]; intros j H; [reflexivity|].
  cbn [repeat pos_run pos_move].
  replace (Z.min (Z.of_nat j - 1 + 1) (Z.of_nat (length l))) with (Z.of_nat j) by lia.
  destruct (nth_error l j) as [c|] eqn:E.
  2:{ apply nth_error_None in E. lia. }
  unfold pos_get at 1. replace (Z.of_nat j <? 0) with false by (symmetry; apply Z.ltb_ge; lia).
  rewrite Nat2Z.id, E, (skipn_nth l j c E). cbn [firstn map]. f_equal.
  replace (Z.of_nat j) with (Z.of_nat (S j) - 1) by lia. apply IH. lia.
Qed.

(* k steps back from the start visit the first k entries of the visit list *)
Lemma pos_walk_back l k : (k <= length l)%nat ->
  pos_run l (-1) (repeat MPrev k) = map OCmd (firstn k l).
Proof. intros H. apply (pos_back_from l k 0). lia. Qed.

(* a step forward after a step back returns to the same position *)
Lemma pos_forward_retraces n k : -1 <= k < n -> pos_move n MNext (pos_move n MPrev k) = k.
Proof. cbn. lia. Qed.

Lemma pos_get_ends l : pos_get l (-1) = OEnd /\ pos_get l (Z.of_nat (length l)) = OEnd.
Proof. split; [reflexivity|]. unfold pos_get.
  replace (Z.of_nat (length l) <? 0) with false by (symmetry; apply Z.ltb_ge; lia).
  rewrite Nat2Z.id. replace (nth_error l (length l)) with (@None hcmd); [reflexivity|].
  symmetry. apply nth_error_None. lia. Qed.

Lemma pos_ends_idempotent n : 0 <= n -> pos_move n MPrev n = n /\ pos_move n MNext (-1) = -1.
Proof. cbn. lia. Qed.

(* ------------------------------------------------------------------ *)
(* the in-memory cursor *)
Section Mem.
  Variable p : bytes.
  Notation F := (filter (hmatch p)).

  Definition mem_all (c : memcur) : list hcmd := rev (mc_before c) ++ mc_after c.

  Definition mem_k (c : memcur) : Z :=
    if mc_low c then Z.of_nat (length (F (mc_after c)))
    else match mc_after c with
         | [] => -1
         | _ :: a' => Z.of_nat (length (F a'))
         end.

  Definition mem_inv (c : memcur) : Prop :=
    mc_prefix c = p
    /\ (mc_low c = true -> mc_before c = [])
    /\ (mc_low c = false -> forall x a', mc_after c = x :: a' -> hmatch p x = true).

  Definition mem_view (c : memcur) : list hcmd := rev (F (mem_all c)).

  Lemma filter_app' (l1 l2 : list hcmd) : F (l1 ++ l2) = F l1 ++ F l2.
  Proof. apply filter_app. Qed.

  Lemma scan_down_spec before : forall after,
    let c' := mem_scan_down p before after in
    mem_inv c' /\ mem_all c' = rev before ++ after
    /\ mem_k c' = Z.of_nat (length (F after)).
  Proof.
    induction before as [|x b IH]; intros after; cbn [mem_scan_down].
    - unfold mem_inv, mem_all, mem_k. cbn. repeat split; try reflexivity. intros; discriminate.
    - destruct (hmatch p x) eqn:E.
      + unfold mem_inv, mem_all, mem_k. cbn [mc_prefix mc_before mc_after mc_low rev].
        repeat split; try reflexivity; try (intros; discriminate).
        * intros _ y a' H. injection H as <- _. exact E.
        * rewrite <- app_assoc. reflexivity.
      + destruct (IH (x :: after)) as [H1 [H2 H3]]. repeat split; try apply H1.
        * rewrite H2. cbn [rev]. rewrite <- app_assoc. reflexivity.
        * rewrite H3. cbn [filter]. rewrite E. reflexivity.
  Qed.

  Lemma scan_up_spec after : forall before,
    let c' := mem_scan_up p before after in
    mem_inv c' /\ mem_all c' = rev before ++ after
    /\ mem_k c' = Z.of_nat (length (F after)) - 1.
  Proof.
    induction after as [|x a IH]; intros before; cbn [mem_scan_up].
    - unfold mem_inv, mem_all, mem_k. cbn. repeat split; try reflexivity; intros; discriminate.
    - destruct (hmatch p x) eqn:E.
      + unfold mem_inv, mem_all, mem_k. cbn [mc_prefix mc_before mc_after mc_low].
        repeat split; try reflexivity; try (intros; discriminate).
        * intros _ y a' H. injection H as <- _. exact E.
        * cbn [filter]. rewrite E. cbn [length]. lia.
      + destruct (IH (x :: before)) as [H1 [H2 H3]]. repeat split; try apply H1.
        * rewrite H2. cbn [rev]. rewrite <- app_assoc. reflexivity.
        * rewrite H3. cbn [filter]. rewrite E. reflexivity.
  Qed.

  Lemma mem_k_le c : mem_inv c -> -1 <= mem_k c <= Z.of_nat (length (mem_view c)).
  Proof.
    intros [_ [Hlow Hm]]. unfold mem_k, mem_view, mem_all. rewrite rev_length, filter_app', app_length.
    destruct (mc_low c); [lia|]. destruct (mc_after c) as [|x a']; [lia|].
    cbn [filter]. destruct (hmatch p x); cbn [length]; lia.
  Qed.

  Lemma mem_prev_spec c : mem_inv c ->
    mem_inv (mem_prev c) /\ mem_all (mem_prev c) = mem_all c
    /\ mem_k (mem_prev c) = Z.min (mem_k c + 1) (Z.of_nat (length (mem_view c))).
  Proof.
    intros Hinv. pose proof Hinv as [Hp [Hlow Hm]]. unfold mem_prev.
    destruct (mc_low c) eqn:El.
    - split; [exact Hinv|split; [reflexivity|]].
      unfold mem_k, mem_view, mem_all. rewrite El, (Hlow eq_refl). cbn [rev app].
      rewrite rev_length. lia.
    - rewrite Hp. destruct (scan_down_spec (mc_before c) (mc_after c)) as [H1 [H2 H3]].
      repeat split; try apply H1; [exact H2|]. rewrite H3.
      unfold mem_view, mem_all, mem_k. rewrite El, rev_length, filter_app', app_length.
      destruct (mc_after c) as [|x a'] eqn:Ea; [cbn; lia|].
      cbn [filter]. rewrite (Hm eq_refl x a' eq_refl). cbn [length]. lia.
  Qed.

  Lemma mem_next_spec c : mem_inv c ->
    mem_inv (mem_next c) /\ mem_all (mem_next c) = mem_all c
    /\ mem_k (mem_next c) = Z.max (mem_k c - 1) (-1).
  Proof.
    intros Hinv. pose proof Hinv as [Hp [Hlow Hm]]. unfold mem_next.
    destruct (mc_low c) eqn:El.
    - rewrite Hp. destruct (scan_up_spec (mc_after c) []) as [H1 [H2 H3]].
      repeat split; try apply H1.
      + rewrite H2. unfold mem_all. rewrite (Hlow eq_refl). reflexivity.
      + rewrite H3. unfold mem_k. rewrite El. lia.
    - destruct (mc_after c) as [|x a'] eqn:Ea.
      + split; [exact Hinv|split; [reflexivity|]]. unfold mem_k. rewrite El, Ea. reflexivity.
      + rewrite Hp. destruct (scan_up_spec a' (x :: mc_before c)) as [H1 [H2 H3]].
        repeat split; try apply H1.
        * rewrite H2. unfold mem_all. rewrite Ea. cbn [rev]. rewrite <- app_assoc. reflexivity.
        * rewrite H3. unfold mem_k. rewrite El, Ea. lia.
  Qed.

  Lemma mem_get_spec c : mem_inv c -> obs_of (mem_get c) = pos_get (mem_view c) (mem_k c).
  Proof.
    intros [Hp [Hlow Hm]]. unfold mem_get, mem_k, mem_view, mem_all.
    destruct (mc_low c) eqn:El.
    - rewrite (Hlow eq_refl). cbn [rev app].
      replace (length (F (mc_after c))) with (length (rev (F (mc_after c)))) by apply rev_length.
      symmetry. apply pos_get_ends.
    - destruct (mc_after c) as [|x a'] eqn:Ea; [reflexivity|].
      rewrite filter_app'. cbn [filter]. rewrite (Hm eq_refl x a' eq_refl).
      rewrite rev_app_distr. cbn [rev]. rewrite <- app_assoc. cbn [app].
      unfold pos_get. replace (Z.of_nat (length (F a')) <? 0) with false by (symmetry; apply Z.ltb_ge; lia).
      rewrite Nat2Z.id, nth_error_app2 by (rewrite rev_length; lia).
      rewrite rev_length, Nat.sub_diag. reflexivity.
  Qed.

  Lemma mem_run_spec ms : forall c, mem_inv c ->
    mem_run c ms = pos_run (mem_view c) (mem_k c) ms.
  Proof.
    induction ms as [|m ms IH]; intros c Hinv; [reflexivity|].
    cbn [mem_run pos_run].
    assert (H : mem_inv (mem_move m c) /\ mem_all (mem_move m c) = mem_all c
                /\ mem_k (mem_move m c) = pos_move (Z.of_nat (length (mem_view c))) m (mem_k c)).
    { destruct m; cbn [mem_move pos_move].
      - apply mem_prev_spec; assumption.
      - apply mem_next_spec; assumption.
      - split; [exact Hinv|split; reflexivity]. }
    destruct H as [H1 [H2 H3]].
    assert (Hv : mem_view (mem_move m c) = mem_view c) by (unfold mem_view; rewrite H2; reflexivity).
    rewrite <- H3, <- Hv. f_equal; [apply mem_get_spec; assumption|]. apply IH. assumption.
  Qed.
End Mem.

(* every walk of a fresh in-memory cursor returns what the position
   specification returns on the matching commands, newest first *)
Lemma mem_cursor_walk cmds p ms :
  mem_run (mem_cursor cmds p) ms = pos_run (visit_list cmds p false) (-1) ms.
Proof.
  rewrite (mem_run_spec p ms (mem_cursor cmds p)).
  - unfold mem_view, mem_all, mem_k, mem_cursor, visit_list. cbn [mc_before mc_after mc_low].
    rewrite rev_involutive, app_nil_r. reflexivity.
  - unfold mem_inv, mem_cursor. cbn. repeat split; intros; discriminate.
Qed.

(* ------------------------------------------------------------------ *)
(* additions by other sessions and the database cursor *)
Lemma filter_all_false' {A} (f : A -> bool) l : (forall x, In x l -> f x = false) -> filter f l = [].
Proof. induction l as [|a l IH]; intros H; simpl; [reflexivity|].
  rewrite (H a (or_introl eq_refl)). apply IH. intros; apply H; right; assumption. Qed.

(* a backward step from a position at or below the session's upper bound reads
   the same command whatever has been appended with numbers at or above it *)
Lemma sp_prev_ignores_later db later (seq : Z) p :
  (forall c, In c later -> (u64 seq <= fst c)%N) ->
  sp_prev (mkS (s_seq db) (s_log db ++ later) (s_dirs db)) seq p = sp_prev db seq p.
Proof.
  intros H. unfold sp_prev. cbn [s_log]. rewrite filter_app.
  rewrite (filter_all_false' _ later), app_nil_r; [reflexivity|].
  intros c Hc. apply N.ltb_ge. apply H. assumption.
Qed.

Lemma db_prev_ignores_later db later c :
  (forall e, In e later -> (u64 (dc_seq c) <= fst e)%N) ->
  db_prev (mkS (s_seq db) (s_log db ++ later) (s_dirs db)) c = db_prev db c.
Proof. intros H. unfold db_prev. destruct (dc_seq c <? 0); [reflexivity|].
  rewrite sp_prev_ignores_later by assumption. reflexivity. Qed.

(* ------------------------------------------------------------------ *)
(* the de-duplicated visit list: every text once, at its first (= most recent,
   the list being newest first) occurrence *)
Lemma dedup_first_spec l : forall seen,
  NoDup (map fst (dedup_first seen l))
  /\ (forall c, In c (dedup_first seen l) -> In c l /\ mem_bytes (fst c) seen = false).
Proof.
  induction l as [|a l IH]; intros seen; cbn [dedup_first].
  - split; [constructor|intros c []].
  - destruct (mem_bytes (fst a) seen) eqn:E.
    + destruct (IH seen) as [H1 H2]. split; [exact H1|].
      intros c Hc. destruct (H2 c Hc) as [Hin Hm]. split; [right; exact Hin|exact Hm].
    + destruct (IH (fst a :: seen)) as [H1 H2]. cbn [map]. split.
      * constructor; [|exact H1]. intros Hin. apply in_map_iff in Hin as [c [Hc1 Hc2]].
        destruct (H2 c Hc2) as [_ Hm]. unfold mem_bytes in Hm. cbn [existsb] in Hm.
        rewrite Hc1, bytes_eqb_refl in Hm. discriminate.
      * intros c [<-|Hc]; [split; [left; reflexivity|exact E]|].
        destruct (H2 c Hc) as [Hin Hm]. split; [right; exact Hin|].
        unfold mem_bytes in *. cbn [existsb] in Hm. apply orb_false_iff in Hm as [_ Hm]. exact Hm.
Qed.

Lemma dedup_first_nodup l : NoDup (map fst (dedup_first [] l)).
Proof. apply dedup_first_spec. Qed.

(* what is dropped is a repetition of a text kept earlier (more recent) *)
Lemma dedup_first_keeps_first l : forall seen c, In c l -> mem_bytes (fst c) seen = false ->
  exists c', In c' (dedup_first seen l) /\ fst c' = fst c.
Proof.
  induction l as [|a l IH]; intros seen c Hin Hs; [destruct Hin|]. cbn [dedup_first].
  destruct (mem_bytes (fst a) seen) eqn:E.
  - destruct Hin as [->|Hin]; [congruence|]. apply IH; assumption.
  - destruct (bytes_eqb (fst c) (fst a)) eqn:Eq.
    + apply bytes_eqb_spec in Eq. exists a. split; [left; reflexivity|symmetry; exact Eq].
    + destruct Hin as [->|Hin]; [rewrite bytes_eqb_refl in Eq; discriminate|].
      destruct (IH (fst a :: seen) c Hin) as [c' [H1 H2]].
      { unfold mem_bytes in *. cbn [existsb]. rewrite Eq. exact Hs. }
      exists c'. split; [right; exact H1|exact H2].
Qed.

(* ---- combinations stated in props/C29.v ---- *)
Lemma mem_walk_back cmds p k : (k <= length (filter (hmatch p) cmds))%nat ->
  mem_run (mem_cursor cmds p) (repeat MPrev k)
  = map OCmd (firstn k (rev (filter (hmatch p) cmds))).
Proof. intros H. rewrite mem_cursor_walk. apply pos_walk_back. unfold visit_list. rewrite rev_length. exact H. Qed.

Lemma pos_ends l :
  (pos_get l (-1) = OEnd /\ pos_get l (Z.of_nat (length l)) = OEnd)
  /\ (pos_move (Z.of_nat (length l)) MPrev (Z.of_nat (length l)) = Z.of_nat (length l)
      /\ pos_move (Z.of_nat (length l)) MNext (-1) = -1).
Proof. split; [apply pos_get_ends|apply pos_ends_idempotent; lia]. Qed.

Lemma dedup_first_summary l :
  NoDup (map fst (dedup_first [] l))
  /\ (forall c, In c (dedup_first [] l) -> In c l)
  /\ (forall c, In c l -> exists c', In c' (dedup_first [] l) /\ fst c' = fst c).
Proof. split; [apply dedup_first_nodup|]. split.
  - intros c H. apply (dedup_first_spec l [] ). exact H.
  - intros c H. apply dedup_first_keeps_first; [exact H|reflexivity]. Qed.
