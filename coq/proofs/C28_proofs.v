(* C28 — proofs about the buffer-command model (part 1: the builtins). *)
From Coq Require Import Permutation.
From verif Require Import lib.Base lib.ListX lib.Utf8 model.C28.
Open Scope nat_scope.

(* ------------------------------------------------------------------ *)
(* list helpers *)

Lemma count_while_le {A} (f : A -> bool) l : count_while f l <= length l.
Proof. induction l as [|x l IH]; simpl; [lia|]. destruct (f x); simpl; lia. Qed.

(* the first [count_while f l] elements satisfy f, the next one (if any) does not *)
Lemma count_while_true {A} (f : A -> bool) (dflt : A) l i :
  i < count_while f l -> f (nth i l dflt) = true.
Proof.
  revert i; induction l as [|x l IH]; intros i Hi; simpl in *; [lia|].
  destruct (f x) eqn:Hx; [|lia].
  destruct i as [|i]; [exact Hx|]. apply IH; lia.
Qed.

Lemma count_while_stop {A} (f : A -> bool) (dflt : A) l :
  count_while f l = length l \/ f (nth (count_while f l) l dflt) = false.
Proof.
  induction l as [|x l IH]; simpl; [left; reflexivity|].
  destruct (f x) eqn:Hx; [|right; exact Hx].
  destruct IH as [IH|IH]; [left; congruence|right; exact IH].
Qed.

Lemma count_while_all {A} (f : A -> bool) l :
  forallb f l = true -> count_while f l = length l.
Proof.
  induction l as [|x l IH]; simpl; [reflexivity|]. intros H.
  apply andb_true_iff in H as [Hx Hl]. rewrite Hx, IH; auto.
Qed.

Lemma length_slice_le {A} (l : list A) i j : length (slice l i j) <= j - i.
Proof. unfold slice. rewrite firstn_length. lia. Qed.

Lemma length_slice {A} (l : list A) i j : i <= j -> j <= length l -> length (slice l i j) = j - i.
Proof. intros H1 H2. unfold slice. rewrite firstn_length, skipn_length. lia. Qed.

Lemma split4 {A} (l : list A) a b c e : a <= b -> b <= c -> c <= e ->
  l = firstn a l ++ slice l a b ++ slice l b c ++ slice l c e ++ skipn e l.
Proof.
  intros H1 H2 H3. unfold slice.
  rewrite <- (firstn_skipn a l) at 1. f_equal.
  rewrite <- (firstn_skipn (b - a) (skipn a l)) at 1. f_equal.
  rewrite skipn_skipn. replace (a + (b - a)) with b by lia.
  rewrite <- (firstn_skipn (c - b) (skipn b l)) at 1. f_equal.
  rewrite skipn_skipn. replace (b + (c - b)) with c by lia.
  rewrite <- (firstn_skipn (e - c) (skipn c l)) at 1. f_equal.
  rewrite skipn_skipn. f_equal. lia.
Qed.

(* l = firstn k l ++ l[k] :: l[k+1] :: skipn (k+2) l *)
Lemma split_two (l : list N) k : S k < length l ->
  l = firstn k l ++ nth k l 0%N :: nth (S k) l 0%N :: skipn (S (S k)) l.
Proof.
  revert l; induction k as [|k IH]; intros l H.
  - destruct l as [|a [|b t]]; simpl in *; try lia. reflexivity.
  - destruct l as [|a t]; simpl in *; [lia|]. f_equal. apply IH. lia.
Qed.

(* ------------------------------------------------------------------ *)
(* the pure movers stay inside the buffer *)

Lemma find_first_eol_le l : find_first_eol l <= length l.
Proof. apply count_while_le. Qed.

Lemma find_last_sol_le l : find_last_sol l <= length l.
Proof. unfold find_last_sol. lia. Qed.

Lemma trim_len_le wc w wmax l : trim_len wc w wmax l <= length l.
Proof.
  revert w; induction l as [|r l IH]; intros w; simpl; [lia|].
  destruct (wmax <? w + wc r)%Z; [lia|]. specialize (IH (w + wc r)%Z). lia.
Qed.

Lemma move_left_range rs d : d <= length rs -> move_left rs d <= length rs.
Proof. unfold move_left. lia. Qed.

Lemma move_right_range rs d : d <= length rs -> move_right rs d <= length rs.
Proof. unfold move_right. intros H. destruct (d <? length rs) eqn:E; [apply Nat.ltb_lt in E|]; lia. Qed.

Lemma move_sol_le rs d : move_sol rs d <= d.
Proof. unfold move_sol. pose proof (find_last_sol_le (firstn d rs)) as H. rewrite firstn_length in H. lia. Qed.

Lemma move_sol_range rs d : d <= length rs -> move_sol rs d <= length rs.
Proof. pose proof (move_sol_le rs d). lia. Qed.

Lemma move_eol_range rs d : d <= length rs -> move_eol rs d <= length rs.
Proof.
  unfold move_eol. intros H. pose proof (find_first_eol_le (skipn d rs)) as H1.
  rewrite skipn_length in H1. lia.
Qed.

Lemma move_eol_ge rs d : d <= move_eol rs d.
Proof. unfold move_eol. lia. Qed.

Lemma move_up_range wc rs d : d <= length rs -> move_up wc rs d <= length rs.
Proof.
  intros H. unfold move_up.
  pose proof (move_sol_le rs d) as Hsol. unfold move_sol in Hsol.
  destruct (find_last_sol (firstn d rs) =? 0) eqn:E; [exact H|].
  apply Nat.eqb_neq in E.
  set (sol := find_last_sol (firstn d rs)) in *.
  set (pe := sol - 1).
  pose proof (find_last_sol_le (firstn pe rs)) as H1. rewrite firstn_length in H1.
  set (ps := find_last_sol (firstn pe rs)) in *.
  pose proof (trim_len_le wc 0%Z (wsum wc (slice rs sol d)) (slice rs ps pe)) as H2.
  pose proof (length_slice_le rs ps pe) as H3.
  lia.
Qed.

Lemma move_down_range wc rs d : d <= length rs -> move_down wc rs d <= length rs.
Proof.
  intros H. unfold move_down.
  pose proof (move_eol_range rs d H) as He. unfold move_eol in He.
  set (eol := d + find_first_eol (skipn d rs)) in *.
  destruct (eol =? length rs) eqn:E; [exact H|]. apply Nat.eqb_neq in E.
  set (ns := eol + 1).
  pose proof (find_first_eol_le (skipn ns rs)) as H1. rewrite skipn_length in H1.
  set (ne := ns + find_first_eol (skipn ns rs)) in *.
  pose proof (trim_len_le wc 0%Z (wsum wc (slice rs (find_last_sol (firstn d rs)) d)) (slice rs ns ne)) as H2.
  pose proof (length_slice_le rs ns ne) as H3.
  lia.
Qed.

(* ------------------------------------------------------------------ *)
(* word movers, for every categoriser *)
Section WordsRange.
  Variable cat : N -> Z.

  Lemma skip_cat_left_le c rs pos : skip_cat_left cat c rs pos <= pos.
  Proof. unfold skip_cat_left. lia. Qed.

  Lemma skip_cat_right_ge c rs pos : pos <= skip_cat_right cat c rs pos.
  Proof. unfold skip_cat_right. lia. Qed.

  Lemma skip_cat_right_range c rs pos : pos <= length rs -> skip_cat_right cat c rs pos <= length rs.
  Proof.
    unfold skip_cat_right. intros H.
    pose proof (count_while_le (in_cat cat c) (skipn pos rs)) as H1. rewrite skipn_length in H1. lia.
  Qed.

  Lemma skip_same_cat_left_le rs pos : skip_same_cat_left cat rs pos <= pos.
  Proof. unfold skip_same_cat_left. destruct (pos =? 0); [lia|apply skip_cat_left_le]. Qed.

  Lemma skip_same_cat_right_ge rs pos : pos <= skip_same_cat_right cat rs pos.
  Proof. unfold skip_same_cat_right. destruct (pos =? length rs); [lia|apply skip_cat_right_ge]. Qed.

  Lemma skip_same_cat_right_range rs pos : pos <= length rs -> skip_same_cat_right cat rs pos <= length rs.
  Proof. unfold skip_same_cat_right. intros H. destruct (pos =? length rs); [lia|apply skip_cat_right_range; exact H]. Qed.

  Lemma move_left_gw_le rs d : move_left_gw cat rs d <= d.
  Proof.
    unfold move_left_gw, skip_ws_left.
    pose proof (skip_same_cat_left_le rs (skip_cat_left cat 0%Z rs d)).
    pose proof (skip_cat_left_le 0%Z rs d). lia.
  Qed.

  Lemma move_right_gw_ge rs d : d <= move_right_gw cat rs d.
  Proof.
    unfold move_right_gw, skip_ws_right.
    pose proof (skip_cat_right_ge 0%Z rs d) as H1.
    destruct (d <? skip_cat_right cat 0%Z rs d); [exact H1|].
    pose proof (skip_same_cat_right_ge rs (skip_cat_right cat 0%Z rs d)) as H2.
    pose proof (skip_cat_right_ge 0%Z rs (skip_same_cat_right cat rs (skip_cat_right cat 0%Z rs d))) as H3.
    lia.
  Qed.

  Lemma move_right_gw_range rs d : d <= length rs -> move_right_gw cat rs d <= length rs.
  Proof.
    intros H. unfold move_right_gw, skip_ws_right.
    pose proof (skip_cat_right_range 0%Z rs d H) as H1.
    destruct (d <? skip_cat_right cat 0%Z rs d); [exact H1|].
    apply skip_cat_right_range. apply skip_same_cat_right_range. exact H1.
  Qed.

  Lemma move_left_gw_range rs d : d <= length rs -> move_left_gw cat rs d <= length rs.
  Proof. pose proof (move_left_gw_le rs d). lia. Qed.
End WordsRange.

(* ------------------------------------------------------------------ *)
(* kill: exactly the text between the old dot and the mover's target goes away *)

Lemma kill_deletes_between (m : list N -> nat -> nat) rs d :
  make_kill m rs d =
  (firstn (Nat.min d (m rs d)) rs ++ skipn (Nat.max d (m rs d)) rs, Nat.min d (m rs d)).
Proof.
  unfold make_kill.
  destruct (m rs d <? d) eqn:E1.
  - apply Nat.ltb_lt in E1. rewrite Nat.min_r, Nat.max_l by lia. reflexivity.
  - apply Nat.ltb_ge in E1. destruct (d <? m rs d) eqn:E2.
    + apply Nat.ltb_lt in E2. rewrite Nat.min_l, Nat.max_r by lia. reflexivity.
    + apply Nat.ltb_ge in E2. assert (m rs d = d) as -> by lia.
      rewrite Nat.min_id, Nat.max_id, firstn_skipn. reflexivity.
Qed.

Lemma kill_range (m : list N -> nat -> nat) rs d : d <= length rs ->
  snd (make_kill m rs d) <= length (fst (make_kill m rs d)).
Proof.
  intros H. rewrite kill_deletes_between. simpl.
  rewrite app_length, firstn_length, skipn_length. lia.
Qed.

(* what is left is a sub-text: nothing is added, and the length drops by the distance *)
Lemma kill_length (m : list N -> nat -> nat) rs d : d <= length rs -> m rs d <= length rs ->
  length (fst (make_kill m rs d)) + (Nat.max d (m rs d) - Nat.min d (m rs d)) = length rs.
Proof.
  intros H1 H2. rewrite kill_deletes_between. simpl.
  rewrite app_length, firstn_length, skipn_length. lia.
Qed.

(* ------------------------------------------------------------------ *)
(* transpose-rune *)

Lemma transpose_runes_perm rs d : d <= length rs ->
  Permutation rs (fst (transpose_runes rs d)) /\
  snd (transpose_runes rs d) <= length (fst (transpose_runes rs d)).
Proof.
  intros H. unfold transpose_runes.
  destruct rs as [|a0 t0] eqn:Ers; [simpl in *; split; [constructor|lia]|].
  rewrite <- Ers in *. assert (Hlen : 1 <= length rs) by (rewrite Ers; simpl; lia).
  destruct (d =? 0) eqn:E0.
  - apply Nat.eqb_eq in E0. subst d. rewrite Ers.
    destruct t0 as [|b t]; simpl; split; try apply Permutation_refl; try lia.
    apply perm_swap.
  - apply Nat.eqb_neq in E0.
    destruct (d =? length rs) eqn:E1.
    + apply Nat.eqb_eq in E1.
      destruct (length rs =? 1) eqn:E2; [simpl; split; [apply Permutation_refl|lia]|].
      apply Nat.eqb_neq in E2. simpl fst; simpl snd.
      assert (Hs : S (length rs - 2) < length rs) by lia.
      pose proof (split_two rs (length rs - 2) Hs) as Hsp.
      replace (S (length rs - 2)) with (length rs - 1) in Hsp by lia.
      replace (S (length rs - 1)) with (length rs) in Hsp by lia.
      rewrite skipn_all in Hsp.
      split.
      * rewrite Hsp at 1. apply Permutation_app_head. apply perm_swap.
      * rewrite app_length, firstn_length. simpl. lia.
    + apply Nat.eqb_neq in E1. simpl fst; simpl snd.
      assert (Hs : S (d - 1) < length rs) by lia.
      pose proof (split_two rs (d - 1) Hs) as Hsp.
      replace (S (d - 1)) with d in Hsp by lia.
      replace (S d) with (d + 1) in Hsp by lia.
      split.
      * rewrite Hsp at 1. apply Permutation_app_head. apply perm_swap.
      * rewrite app_length, firstn_length. simpl. rewrite skipn_length. lia.
Qed.

(* exact shape in the three situations *)
Lemma transpose_runes_shape rs d : d <= length rs ->
  transpose_runes rs d = (rs, d) \/
  exists p a b q, rs = p ++ a :: b :: q /\ transpose_runes rs d = (p ++ b :: a :: q, length p + 2)
                  /\ (d = 0 /\ p = [] \/ d = length rs /\ q = [] \/ d = length p + 1).
Proof.
  intros H. unfold transpose_runes.
  destruct rs as [|a0 t0] eqn:Ers; [left; reflexivity|].
  rewrite <- Ers in *. assert (Hlen : 1 <= length rs) by (rewrite Ers; simpl; lia).
  destruct (d =? 0) eqn:E0.
  - apply Nat.eqb_eq in E0. subst d. rewrite Ers.
    destruct t0 as [|b t]; [left; reflexivity|]. right.
    exists [], a0, b, t. simpl. auto.
  - apply Nat.eqb_neq in E0.
    destruct (d =? length rs) eqn:E1.
    + apply Nat.eqb_eq in E1.
      destruct (length rs =? 1) eqn:E2; [left; reflexivity|]. apply Nat.eqb_neq in E2. right.
      assert (Hs : S (length rs - 2) < length rs) by lia.
      pose proof (split_two rs (length rs - 2) Hs) as Hsp.
      replace (S (length rs - 2)) with (length rs - 1) in Hsp by lia.
      replace (S (length rs - 1)) with (length rs) in Hsp by lia.
      rewrite skipn_all in Hsp.
      exists (firstn (length rs - 2) rs), (nth (length rs - 2) rs 0%N), (nth (length rs - 1) rs 0%N), [].
      split; [exact Hsp|]. split.
      * f_equal. rewrite firstn_length. lia.
      * right; left; auto.
    + apply Nat.eqb_neq in E1. right.
      assert (Hs : S (d - 1) < length rs) by lia.
      pose proof (split_two rs (d - 1) Hs) as Hsp.
      replace (S (d - 1)) with d in Hsp by lia.
      replace (S d) with (d + 1) in Hsp by lia.
      exists (firstn (d - 1) rs), (nth (d - 1) rs 0%N), (nth d rs 0%N), (skipn (d + 1) rs).
      split; [exact Hsp|]. split.
      * f_equal. rewrite firstn_length. lia.
      * right; right. rewrite firstn_length. lia.
Qed.
