(* C04 — oracle soundness and small facts about model/C04.v. *)
From verif Require Import lib.Base lib.Utf8 model.C03 model.C08_Value model.C04.
From verif Require model.C05.
Open Scope N_scope.

(* The property on observables, as a proposition: evaluating the printed text
   gave exactly one value; that value is eq to the original when every NaN is
   taken as one self-equal token (so it has the same shape, every number has the
   same exact / inexact representation, and a NaN stands where a NaN stood);
   the implementation's own Equal agrees unless a NaN is inside; and the text
   printed after rebuilding the maps in other insertion orders is the same. *)
Definition Spec_C04 (v : value) (res : N) (back : value) (go_eq : bool)
                    (text : bytes) (alts : list bytes) : Prop :=
  res = resValue
  /\ equal (denan v) (denan back) = true
  /\ (has_nan v = false -> go_eq = true)
  /\ (forall t, In t alts -> t = text).

Lemma check_C04_sound v res back go_eq text alts :
  check_C04 v res back go_eq text alts = true -> Spec_C04 v res back go_eq text alts.
Proof.
  unfold check_C04, Spec_C04, eqn. intros H.
  apply andb_true_iff in H as [H Halts]. apply andb_true_iff in H as [H Hgo].
  apply andb_true_iff in H as [Hres Heq].
  repeat split.
  - apply N.eqb_eq in Hres. exact Hres.
  - exact Heq.
  - intros Hn. rewrite Hn in Hgo. exact Hgo.
  - intros t Ht. rewrite forallb_forall in Halts. specialize (Halts t Ht).
    apply bytes_eqb_spec in Halts. symmetry. exact Halts.
Qed.
