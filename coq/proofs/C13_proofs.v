(* C13 — proofs, part 2: list indexing, slicing and element replacement against
   nth_error / firstn / skipn, and soundness of the list part of the oracle. *)
From verif Require Import lib.Base lib.Utf8 model.C13 proofs.C13_convert_proofs.
Open Scope Z_scope.

(* ---------- list facts ---------- *)
Lemma nth_error_skipn {A} (l : list A) : forall k i, nth_error (skipn k l) i = nth_error l (k + i).
Proof.
  induction l as [|x l IH]; intros k i.
  - rewrite skipn_nil. destruct i, k; reflexivity.
  - destruct k; [reflexivity|]. simpl. apply IH.
Qed.

Lemma nth_error_firstn_lt {A} (l : list A) : forall n i, (i < n)%nat -> nth_error (firstn n l) i = nth_error l i.
Proof.
  induction l as [|x l IH]; intros n i H.
  - rewrite firstn_nil. reflexivity.
  - destruct n; [lia|]. destruct i; [reflexivity|]. simpl. apply IH. lia.
Qed.

Lemma nth_error_nth_default (l : list N) i x : nth_error l i = Some x -> nth i l 0%N = x.
Proof. revert i. induction l as [|y l IH]; intros [|i]; simpl; try discriminate; [congruence|apply IH]. Qed.

Lemma nth_error_some_nth (l : list N) i : (i < length l)%nat -> nth_error l i = Some (nth i l 0%N).
Proof. revert i. induction l as [|y l IH]; intros [|i]; simpl; try lia; [reflexivity|]. intros H. apply IH. lia. Qed.

Lemma list_set_length {A} (l : list A) : forall k v, length (list_set l k v) = length l.
Proof. induction l as [|x l IH]; intros [|k] v; simpl; try reflexivity. f_equal. apply IH. Qed.

Lemma list_set_same {A} (l : list A) : forall k v, (k < length l)%nat -> nth_error (list_set l k v) k = Some v.
Proof. induction l as [|x l IH]; intros [|k] v; simpl; try lia; [reflexivity|]. intros H. apply IH. lia. Qed.

Lemma list_set_other {A} (l : list A) : forall k v j, j <> k -> nth_error (list_set l k v) j = nth_error l j.
Proof.
  induction l as [|x l IH]; intros [|k] v [|j] H; simpl; try reflexivity; try congruence.
  apply IH. congruence.
Qed.

(* a sub-list, element by element *)
Lemma sub_list_elems {A} (l : list A) lo hi : 0 <= lo <= hi -> hi <= zlen l ->
  length (sub_list l lo hi) = Z.to_nat (hi - lo) /\
  forall i, (i < Z.to_nat (hi - lo))%nat -> nth_error (sub_list l lo hi) i = nth_error l (Z.to_nat lo + i).
Proof.
  unfold zlen, sub_list. intros H1 H2. split.
  - rewrite firstn_length, skipn_length. lia.
  - intros i Hi. rewrite nth_error_firstn_lt by assumption. apply nth_error_skipn.
Qed.

(* ---------- indexing a list ---------- *)
Theorem index_list_ref : forall l raw, zlen l <= MaxInt ->
  match ref_index (zlen l) raw with
  | RIndex k => exists x, indexList l raw = Ok (VElem x) /\ nth_error l (Z.to_nat k) = Some x
  | RSlice lo hi =>
    indexList l raw = Ok (VList (firstn (Z.to_nat (hi - lo)) (skipn (Z.to_nat lo) l)))
    /\ 0 <= lo <= hi /\ hi <= zlen l
  | RError => exists e, indexList l raw = Err e
  end.
Proof.
  intros l raw Hlen.
  assert (in_int_range (zlen l)) as Hn by (unfold in_int_range, zlen in *; lia).
  pose proof (convert_matches_ref (zlen l) raw Hn) as C.
  destruct (ref_index (zlen l) raw) as [k|lo hi|] eqn:R.
  - destruct (to_ref_index _ _ C) as [u E]. unfold indexList. rewrite E. cbn [bind].
    pose proof (ref_index_index_range _ _ _ R) as Rg.
    eexists. split; [reflexivity|]. apply nth_error_some_nth. unfold zlen in Rg. lia.
  - unfold indexList. rewrite (to_ref_slice _ _ _ C).
    cbn [bind]. split; [reflexivity|].
    apply (ref_index_slice_range (zlen l) raw lo hi); [unfold zlen; lia|assumption].
  - destruct (to_ref_error _ C) as [e E]. unfold indexList. rewrite E. eexists. reflexivity.
Qed.

(* the same slice, stated element by element *)
Theorem slice_list_ref : forall l raw lo hi, zlen l <= MaxInt ->
  ref_index (zlen l) raw = RSlice lo hi ->
  exists r, indexList l raw = Ok (VList r) /\
    length r = Z.to_nat (hi - lo) /\
    forall i, (i < Z.to_nat (hi - lo))%nat -> nth_error r i = nth_error l (Z.to_nat lo + i).
Proof.
  intros l raw lo hi Hlen R. pose proof (index_list_ref l raw Hlen) as H. rewrite R in H.
  destruct H as (E & H1 & H2). eexists. split; [exact E|].
  apply (sub_list_elems l lo hi H1 H2).
Qed.

(* ---------- replacing an element ---------- *)
Theorem assoc_changes_only_i : forall l raw v, zlen l <= MaxInt ->
  match ref_index (zlen l) raw with
  | RIndex k => exists l', assocList l raw v = Ok (VList l') /\
      length l' = length l /\
      nth_error l' (Z.to_nat k) = Some v /\
      forall j, j <> Z.to_nat k -> nth_error l' j = nth_error l j
  | RSlice _ _ => assocList l raw v = Err EAssocSlice
  | RError => exists e, assocList l raw v = Err e
  end.
Proof.
  intros l raw v Hlen.
  assert (in_int_range (zlen l)) as Hn by (unfold in_int_range, zlen in *; lia).
  pose proof (convert_matches_ref (zlen l) raw Hn) as C.
  destruct (ref_index (zlen l) raw) as [k|lo hi|] eqn:R.
  - destruct (to_ref_index _ _ C) as [u E]. unfold assocList. rewrite E. cbn [bind].
    pose proof (ref_index_index_range _ _ _ R) as Rg. unfold zlen in Rg.
    eexists. split; [reflexivity|]. split; [apply list_set_length|]. split.
    + apply list_set_same. lia.
    + intros j Hj. apply list_set_other. assumption.
  - unfold assocList. rewrite (to_ref_slice _ _ _ C). reflexivity.
  - destruct (to_ref_error _ C) as [e E]. unfold assocList. rewrite E. eexists. reflexivity.
Qed.

(* ---------- the oracle's list part is sound for the element-wise statement ---------- *)
Lemma listN_eqb_eq a b : listN_eqb a b = true -> a = b.
Proof. apply list_eqb_spec. intros; apply N.eqb_eq. Qed.

Lemma elems_between_spec l lo hi : 0 <= lo <= hi -> hi <= zlen l ->
  length (elems_between l lo hi) = Z.to_nat (hi - lo) /\
  forall i, (i < Z.to_nat (hi - lo))%nat ->
    nth_error (elems_between l lo hi) i = nth_error l (Z.to_nat lo + i).
Proof.
  intros H1 H2. unfold elems_between. split; [rewrite map_length, seq_length; reflexivity|].
  intros i Hi. rewrite nth_error_map.
  assert (nth_error (seq (Z.to_nat lo) (Z.to_nat (hi - lo))) i = Some (Z.to_nat lo + i)%nat) as E.
  { rewrite (nth_error_nth' _ 0%nat) by (rewrite seq_length; assumption).
    rewrite seq_nth by assumption. reflexivity. }
  rewrite E. cbn [option_map]. symmetry. apply nth_error_some_nth. unfold zlen in H2. lia.
Qed.

Lemma replaced_at_spec l k v : 0 <= k < zlen l ->
  length (replaced_at l k v) = length l /\
  nth_error (replaced_at l k v) (Z.to_nat k) = Some v /\
  forall j, j <> Z.to_nat k -> nth_error (replaced_at l k v) j = nth_error l j.
Proof.
  intros Hk. unfold replaced_at, zlen in *.
  split; [rewrite map_length, seq_length; reflexivity|].
  assert (forall j, (j < length l)%nat -> nth_error (seq 0 (length l)) j = Some j) as S.
  { intros j Hj. rewrite (nth_error_nth' _ 0%nat) by (rewrite seq_length; assumption).
    rewrite seq_nth by assumption. reflexivity. }
  split.
  - rewrite nth_error_map, S by lia. cbn [option_map]. rewrite Nat.eqb_refl. reflexivity.
  - intros j Hj. destruct (Nat.lt_ge_cases j (length l)) as [Lt|Ge].
    + rewrite nth_error_map, S by assumption. cbn [option_map].
      apply Nat.eqb_neq in Hj. rewrite Hj. symmetry. apply nth_error_some_nth. assumption.
    + rewrite (proj2 (nth_error_None _ _)) by (rewrite map_length, seq_length; assumption).
      symmetry. apply nth_error_None. assumption.
Qed.

(* what an accepted observation of a list operation means *)
Theorem oracle_sound_index_list : forall l raw ob,
  check_C13 (OpIndexList l raw) ob = true -> unspecified (zlen l) raw = false ->
  match ref_index (zlen l) raw with
  | RIndex k => exists x, ob = ObsVal (VElem x) /\ nth_error l (Z.to_nat k) = Some x
  | RSlice lo hi => exists r, ob = ObsVal (VList r) /\ length r = Z.to_nat (hi - lo) /\
      forall i, (i < Z.to_nat (hi - lo))%nat -> nth_error r i = nth_error l (Z.to_nat lo + i)
  | RError => exists e, ob = ObsErr e
  end.
Proof.
  intros l raw ob H U. cbn [check_C13] in H. rewrite U in H. cbn [orb] in H.
  destruct (ref_index (zlen l) raw) as [k|lo hi|] eqn:R.
  - destruct ob as [e|sl a b|[x|r|r]]; try discriminate.
    apply N.eqb_eq in H. subst x. eexists. split; [reflexivity|].
    pose proof (ref_index_index_range _ _ _ R) as Rg. unfold zlen in Rg.
    apply nth_error_some_nth. lia.
  - destruct ob as [e|sl a b|[x|r|r]]; try discriminate.
    apply listN_eqb_eq in H. subst r. eexists. split; [reflexivity|].
    destruct (ref_index_slice_range (zlen l) raw lo hi) as [H1 H2]; [unfold zlen; lia|assumption|].
    apply elems_between_spec; assumption.
  - destruct ob as [e|sl a b|x]; try discriminate. eexists. reflexivity.
Qed.

Theorem oracle_sound_assoc_list : forall l raw v ob,
  check_C13 (OpAssocList l raw v) ob = true -> unspecified (zlen l) raw = false ->
  match ref_index (zlen l) raw with
  | RIndex k => exists l', ob = ObsVal (VList l') /\ length l' = length l /\
      nth_error l' (Z.to_nat k) = Some v /\
      forall j, j <> Z.to_nat k -> nth_error l' j = nth_error l j
  | RSlice _ _ => True
  | RError => exists e, ob = ObsErr e
  end.
Proof.
  intros l raw v ob H U. cbn [check_C13] in H. rewrite U in H. cbn [orb] in H.
  destruct (ref_index (zlen l) raw) as [k|lo hi|] eqn:R; [| exact I |].
  - destruct ob as [e|sl a b|[x|r|r]]; try discriminate.
    apply listN_eqb_eq in H. subst r. eexists. split; [reflexivity|].
    apply replaced_at_spec. apply (ref_index_index_range _ _ _ R).
  - destruct ob as [e|sl a b|x]; try discriminate. eexists. reflexivity.
Qed.

(* ---------- the model passes the oracle on every list operation ---------- *)
Lemma listN_eqb_refl a : listN_eqb a a = true.
Proof. apply list_eqb_spec; [intros; apply N.eqb_eq|reflexivity]. Qed.

Lemma nth_error_ext_eq {A} (a : list A) : forall b, (forall i, nth_error a i = nth_error b i) -> a = b.
Proof.
  induction a as [|x a IH]; intros [|y b] H; try reflexivity.
  - specialize (H O). discriminate.
  - specialize (H O). discriminate.
  - pose proof (H O) as H0. simpl in H0. inversion H0; subst. f_equal.
    apply IH. intros i. exact (H (S i)).
Qed.

Lemma elems_between_sub_list l lo hi : 0 <= lo <= hi -> hi <= zlen l ->
  sub_list l lo hi = elems_between l lo hi.
Proof.
  intros H1 H2. destruct (sub_list_elems l lo hi H1 H2) as [L1 E1].
  destruct (elems_between_spec l lo hi H1 H2) as [L2 E2].
  apply nth_error_ext_eq. intros i. destruct (Nat.lt_ge_cases i (Z.to_nat (hi - lo))) as [Lt|Ge].
  - rewrite E1, E2 by assumption. reflexivity.
  - rewrite (proj2 (nth_error_None _ _)) by lia. symmetry. apply nth_error_None. lia.
Qed.
