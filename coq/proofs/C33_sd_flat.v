(* C33 / styledown — styled content character by character ([flat]): the builder
   appends it, a normal text is determined by it, SplitByRune at newlines that
   carry the default style can be undone. *)
From verif Require Import lib.Base lib.Utf8 model.C34_width model.C33 model.C33_styledown
  proofs.C33_proofs proofs.C33_proofs2.
Open Scope Z_scope.

Definition flat (t : text) : list (style * N) :=
  flat_map (fun sg : seg => map (pair (fst sg)) (snd sg)) t.

Lemma flat_app a b : flat (a ++ b) = flat a ++ flat b.
Proof. unfold flat. apply flat_map_app. Qed.

Lemma flat_cons s x r : flat ((s, x) :: r) = map (pair s) x ++ flat r.
Proof. reflexivity. Qed.

Lemma flat_single s x : flat [(s, x)] = map (pair s) x.
Proof. cbn. apply app_nil_r. Qed.

Lemma flat_result tb : flat (b_result tb) = flat (b_segs tb) ++ map (pair (b_style tb)) (b_text tb).
Proof.
  unfold b_result, b_is_empty.
  destruct (b_segs tb) eqn:E1; destruct (b_text tb) eqn:E2; cbn [is_nil andb];
    rewrite ?flat_app, ?flat_single; cbn [flat flat_map map app]; rewrite ?app_nil_r; reflexivity.
Qed.

Lemma flat_write_text tb t : flat (b_result (write_text tb t)) = flat (b_result tb) ++ flat t.
Proof.
  rewrite !flat_result. unfold write_text.
  destruct t as [|[s0 x0] t1]; [cbn; rewrite app_nil_r; reflexivity|].
  set (tb1 := if style_eqb (b_style tb) s0 then _ else tb).
  set (t' := if style_eqb (b_style tb) s0 then t1 else _).
  assert (H1 : flat (b_segs tb1) ++ map (pair (b_style tb1)) (b_text tb1) ++ flat t'
               = flat (b_segs tb) ++ map (pair (b_style tb)) (b_text tb) ++ flat ((s0, x0) :: t1)).
  { subst tb1 t'. destruct (style_eqb (b_style tb) s0) eqn:Em; [|reflexivity].
    apply style_eqb_spec in Em. cbn [b_segs b_style b_text].
    rewrite map_app, flat_cons, <- Em, <- app_assoc. reflexivity. }
  transitivity (flat (b_segs tb1) ++ map (pair (b_style tb1)) (b_text tb1) ++ flat t');
    [| etransitivity; [exact H1 | apply app_assoc]].
  clear H1.
  destruct t' as [|sg t''] eqn:Et; [cbn; rewrite app_nil_r; reflexivity|].
  cbn [b_segs b_style b_text]. rewrite <- Et.
  assert (Hne : t' <> []) by (rewrite Et; congruence).
  rewrite flat_app.
  assert (Hs : flat (if is_nil (b_text tb1) then b_segs tb1 else b_segs tb1 ++ [(b_style tb1, b_text tb1)])
               = flat (b_segs tb1) ++ map (pair (b_style tb1)) (b_text tb1)).
  { destruct (b_text tb1); cbn [is_nil map]; [rewrite app_nil_r; reflexivity|].
    rewrite flat_app, flat_single. reflexivity. }
  rewrite Hs, <- !app_assoc. do 2 f_equal.
  transitivity (flat (removelast t' ++ [last_seg t']));
    [| f_equal; apply removelast_last_seg; exact Hne].
  rewrite flat_app. destruct (last_seg t') as [sl xl]. rewrite flat_single. reflexivity.
Qed.

(* ---- a normal text is determined by its flat content ---- *)

Lemma flat_hd_style t : Normal t ->
  match flat t with [] => t = [] | (s, _) :: _ => hd_style t = Some s end.
Proof.
  destruct t as [|[s x] r]; [reflexivity|]. intros H. apply Normal_cons in H. destruct H as (Hx & _).
  rewrite flat_cons. destruct x as [|c x']; [congruence|]. reflexivity.
Qed.

Lemma run_eq s x a s' y b :
  hd_style a <> Some s -> hd_style b <> Some s' -> Normal a -> Normal b ->
  x <> [] -> y <> [] ->
  map (pair s) x ++ flat a = map (pair s') y ++ flat b ->
  s = s' /\ x = y /\ flat a = flat b.
Proof.
  intros Ha Hb Na Nb Hx Hy E.
  assert (Es : s = s').
  { destruct x as [|c x']; [congruence|]. destruct y as [|d y']; [congruence|]. cbn in E. congruence. }
  subst s'. split; [reflexivity|].
  revert y Hy E. induction x as [|c x IH]; intros y Hy E; [congruence|].
  destruct y as [|d y]; [congruence|]. cbn [map app] in E. inversion E as [[Ec E']]. subst d.
  destruct x as [|c2 x2]; destruct y as [|d2 y2].
  - cbn in E'. auto.
  - exfalso. cbn [map app] in E'. pose proof (flat_hd_style a Na) as Hh. rewrite E' in Hh. congruence.
  - exfalso. cbn [map app] in E'. pose proof (flat_hd_style b Nb) as Hh. rewrite <- E' in Hh. congruence.
  - destruct (IH ltac:(congruence) (d2 :: y2) ltac:(congruence) E') as (E1 & E2).
    split; [congruence | exact E2].
Qed.

Lemma normal_flat_inj a : forall b, Normal a -> Normal b -> flat a = flat b -> a = b.
Proof.
  induction a as [|[s x] a IH]; intros b Na Nb E.
  - destruct b as [|[s' y] b]; [reflexivity|]. apply Normal_cons in Nb. destruct Nb as (Hy & _).
    rewrite flat_cons in E. destruct y; [congruence | discriminate].
  - destruct b as [|[s' y] b].
    + apply Normal_cons in Na. destruct Na as (Hx & _). rewrite flat_cons in E. destruct x; [congruence | discriminate].
    + apply Normal_cons in Na. destruct Na as (Hx & Ha & Na).
      apply Normal_cons in Nb. destruct Nb as (Hy & Hb & Nb).
      rewrite !flat_cons in E.
      destruct (run_eq s x a s' y b Ha Hb Na Nb Hx Hy E) as (-> & -> & E').
      f_equal. apply IH; assumption.
Qed.

(* ---- SplitByRune('\n') at the flat level ---- *)

Definition nlsep : style * N := (style0, NL).
Definition fjoin (ps : list text) : list (style * N) :=
  match ps with
  | [] => []
  | p :: r => flat p ++ flat_map (fun q => nlsep :: flat q) r
  end.
Definition fsep (ps : list text) : list (style * N) := flat_map (fun q => nlsep :: flat q) ps.

Lemma fjoin_cons p r : fjoin (p :: r) = flat p ++ fsep r.
Proof. reflexivity. Qed.
Lemma fsep_join ps : ps <> [] -> fsep ps = nlsep :: fjoin ps.
Proof. destruct ps; [congruence|]. reflexivity. Qed.
Lemma fsep_app a b : fsep (a ++ b) = fsep a ++ fsep b.
Proof. apply flat_map_app. Qed.

(* every newline of the text lies in a segment with the default style *)
Definition PlainNL (t : text) : Prop := Forall (fun sg : seg => In NL (snd sg) -> fst sg = style0) t.

Lemma flat_tfs sg : flat (text_from_seg sg) = map (pair (fst sg)) (snd sg).
Proof.
  unfold text_from_seg. destruct sg as [s x]; cbn [fst snd]. destruct x; cbn [is_nil]; [reflexivity|].
  apply flat_single.
Qed.

Lemma map_pair_sepcat (s : style) rest :
  map (pair s) (sepcat [NL] rest) = flat_map (fun q => (s, NL) :: map (pair s) q) rest.
Proof.
  induction rest as [|q r IH]; [reflexivity|].
  unfold sepcat in *. cbn [flat_map]. rewrite map_app, IH. reflexivity.
Qed.

Lemma sepcat_in_nl rest : rest <> [] -> In NL (sepcat [NL] rest).
Proof. destruct rest; [congruence|]. intros _. cbn. left. reflexivity. Qed.

Lemma split_text_go_flat t : forall paste,
  PlainNL t ->
  fjoin (split_text_go [NL] t paste) = flat (b_result paste) ++ flat t.
Proof.
  induction t as [|[s x] r IH]; intros paste Hp; cbn [split_text_go].
  - cbn. rewrite !app_nil_r. reflexivity.
  - inversion Hp as [|? ? Hs Hr]; subst. cbn [fst snd] in Hs.
    pose proof (split_bytes_join [NL] x ltac:(congruence)) as Hx.
    destruct (split_bytes [NL] x) as [|p0 rest] eqn:Es.
    + cbn in Hx. subst x. rewrite IH by exact Hr. reflexivity.
    + rewrite join_cons in Hx.
      destruct rest as [|q rest'] eqn:Er.
      * rewrite IH by exact Hr. rewrite flat_write_text, flat_tfs. cbn [fst snd].
        cbn in Hx. rewrite app_nil_r in Hx. subst x. rewrite flat_cons, app_assoc. reflexivity.
      * rewrite <- Er in *. assert (Hne : rest <> []) by (rewrite Er; congruence).
        assert (Hs0 : s = style0).
        { apply Hs. rewrite <- Hx. apply in_or_app. right. apply sepcat_in_nl. exact Hne. }
        subst s.
        rewrite fjoin_cons, fsep_app.
        rewrite (fsep_join (split_text_go [NL] r _)) by apply split_text_go_nonempty.
        rewrite IH by exact Hr. rewrite !flat_write_text, !flat_tfs. cbn [fst snd].
        change (flat (b_result b_empty)) with (@nil (style * N)). cbn [app].
        rewrite flat_cons, <- Hx, map_app, map_pair_sepcat.
        assert (Hm : fsep (map (fun p : bytes => text_from_seg (style0, p)) (removelast rest))
                     = flat_map (fun q => (style0, NL) :: map (pair style0) q) (removelast rest)).
        { clear. induction (removelast rest) as [|p l IHl]; [reflexivity|].
          unfold fsep in *. cbn [map flat_map]. rewrite flat_tfs, IHl. reflexivity. }
        rewrite Hm.
        rewrite (app_removelast_last [] Hne) at 3. rewrite flat_map_app. cbn [flat_map].
        rewrite app_nil_r, <- !app_assoc. reflexivity.
Qed.

(* the parts contain no newline *)
Lemma split_go_no_nl s : forall cur,
  ~ In NL cur -> Forall (fun p => ~ In NL p) (split_go [NL] s 0 cur).
Proof.
  induction s as [|c r IH]; intros cur Hc; cbn [split_go].
  - constructor; [|constructor]. intros H. apply in_rev in H. contradiction.
  - cbn [is_prefix length Nat.sub]. rewrite andb_true_r.
    destruct (N.eqb NL c) eqn:E.
    + constructor; [intros H; apply in_rev in H; contradiction|]. apply IH. intros [].
    + apply IH. apply N.eqb_neq in E. intros [H|H]; [congruence | contradiction].
Qed.

Lemma split_bytes_no_nl x : Forall (fun p => ~ In NL p) (split_bytes [NL] x).
Proof. apply split_go_no_nl. intros []. Qed.

Lemma In_removelast {A} (l : list A) x : In x (removelast l) -> In x l.
Proof.
  induction l as [|a l IH]; [intros []|]. destruct l as [|b l']; [intros []|].
  change (removelast (a :: b :: l')) with (a :: removelast (b :: l')).
  intros [H|H]; [left; exact H | right; apply IH; exact H].
Qed.

Lemma split_text_go_no_nl t : forall paste,
  ~ In NL (content (b_result paste)) ->
  Forall (fun p => ~ In NL (content p)) (split_text_go [NL] t paste).
Proof.
  induction t as [|[s x] r IH]; intros paste Hp; cbn [split_text_go].
  - constructor; [exact Hp | constructor].
  - pose proof (split_bytes_no_nl x) as Hx.
    destruct (split_bytes [NL] x) as [|p0 rest]; [apply IH; exact Hp|].
    inversion Hx as [|? ? Hp0 Hrest]; subst.
    assert (H1 : ~ In NL (content (b_result (write_text paste (text_from_seg (s, p0)))))).
    { rewrite content_write_text, content_tfs. cbn [snd]. intros H. apply in_app_or in H. tauto. }
    destruct rest as [|q rest']; [apply IH; exact H1|].
    constructor; [exact H1|]. apply Forall_app. split.
    + apply Forall_forall. intros y Hy. apply in_map_iff in Hy. destruct Hy as (p & <- & Hin).
      rewrite content_tfs. cbn [snd]. rewrite Forall_forall in Hrest. apply Hrest.
      apply In_removelast. exact Hin.
    + apply IH. rewrite content_write_text, content_tfs. cbn [snd].
      change (content (b_result b_empty)) with (@nil N). cbn [app].
      rewrite Forall_forall in Hrest. apply Hrest.
      destruct (exists_last (l := q :: rest') ltac:(congruence)) as (l' & a & E). rewrite E, last_last.
      apply in_or_app. right. left. reflexivity.
Qed.
