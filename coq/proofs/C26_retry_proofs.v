(* C26 — proofs about the client's retry on ErrShutdown: retries preserve
   linearizability and never execute a request twice. *)
From verif Require Import lib.Base model.C24_F64 model.C24_StoreSpec model.C24 model.C26 model.C26_retry
  proofs.C24_proofs proofs.C24_more proofs.C26_proofs.
From Coq Require Import Floats.SpecFloat Sorting.Sorted Sorting.Permutation Lia.
Open Scope N_scope.

Section RetryProof.
  Variable sortf : list dir -> list dir.
  Variable st0 : sstate.

  (* the server component of a retry run is a run of the server model *)
  Lemma rrun_projects acts : forall s,
    (exists a', r_sv s = fold_left (sv_step sortf) a' (sv_init st0)) ->
    exists a'', r_sv (fold_left (rstep sortf) acts s) = fold_left (sv_step sortf) a'' (sv_init st0).
  Proof.
    induction acts as [|a acts IH]; intros s Hs; cbn [fold_left]; [exact Hs|].
    apply IH. destruct Hs as [a' Ha'].
    assert (Hstep : forall x, exists a'', sv_step sortf (r_sv s) x = fold_left (sv_step sortf) a'' (sv_init st0)).
    { intros x. exists (a' ++ [x]). rewrite fold_left_app, <- Ha'. reflexivity. }
    destruct a as [cl o|i|i|i|i]; cbn [rstep].
    - apply Hstep.
    - destruct (can_attempt s i); exists a'; exact Ha'.
    - destruct (can_attempt s i); exists a'; exact Ha'.
    - destruct (mem_nat i (r_sent s)); [apply Hstep|exists a'; exact Ha'].
    - apply Hstep.
  Qed.

  Lemma rrun_is_sv_run acts : exists a', r_sv (rrun sortf st0 acts) = sv_run sortf st0 a'.
  Proof. apply rrun_projects. exists []. reflexivity. Qed.

  (* how a server step changes the execution order *)
  Lemma sv_step_lin s a :
    v_lin (sv_step sortf s a) = v_lin s
    \/ exists i, a = AExec i /\ v_lin (sv_step sortf s a) = v_lin s ++ [i].
  Proof.
    destruct a as [cl o|i|i]; cbn [sv_step].
    - left. reflexivity.
    - destruct (nth_error (v_hist s) i); [|left; reflexivity].
      destruct (lookup i (v_res s)); [left; reflexivity|].
      destruct (spec_step sortf (v_st s) (k_op c)). right. exists i. split; reflexivity.
    - destruct (nth_error (v_hist s) i); [|left; reflexivity].
      destruct (lookup i (v_res s)); [|left; reflexivity].
      destruct (k_ret c); left; reflexivity.
  Qed.

  Record RInv (s : rsv) : Prop := mkRInv {
    RI_sent : NoDup (r_sent s);
    RI_exec : forall i, In i (v_lin (r_sv s)) -> In i (r_sent s);
    RI_att : forall i, (attempts_failed i s <= max_attempts)%nat;
    RI_sent_att : forall i, In i (r_sent s) -> (attempts_failed i s < max_attempts)%nat }.

  Lemma mem_nat_in i l : mem_nat i l = true <-> In i l.
  Proof.
    unfold mem_nat. split.
    - intros H. apply existsb_exists in H as [y [Hy E]]. apply Nat.eqb_eq in E. subst. exact Hy.
    - intros H. apply existsb_exists. exists i. split; [exact H|apply Nat.eqb_refl].
  Qed.

  Lemma can_attempt_true s i : can_attempt s i = true ->
    ~ In i (r_sent s) /\ (attempts_failed i s < max_attempts)%nat.
  Proof.
    unfold can_attempt. destruct (nth_error _ i); [|discriminate]. intros H.
    apply andb_true_iff in H as [H1 H2]. apply negb_true_iff in H1. apply Nat.ltb_lt in H2.
    split; [|exact H2]. intros Hin. apply mem_nat_in in Hin. congruence.
  Qed.

  Lemma RInv_step s a : RInv s -> RInv (rstep sortf s a).
  Proof.
    intros [Hs He Ha Hsa]. destruct a as [cl o|i|i|i|i]; cbn [rstep].
    - split; cbn [r_sent r_sv r_failed]; try assumption.
    - destruct (can_attempt s i) eqn:E; [|split; assumption].
      apply can_attempt_true in E as [Hni Hlt].
      split; cbn [r_sent r_sv r_failed]; try assumption.
      + intros j. unfold attempts_failed in *. cbn [r_failed count_occ].
        destruct (Nat.eq_dec i j) as [->|Hij]; [lia|apply Ha].
      + intros j Hj. unfold attempts_failed in *. cbn [r_failed count_occ].
        destruct (Nat.eq_dec i j) as [->|Hij]; [contradiction|apply Hsa, Hj].
    - destruct (can_attempt s i) eqn:E; [|split; assumption].
      apply can_attempt_true in E as [Hni Hlt].
      split; cbn [r_sent r_sv r_failed]; try assumption.
      + constructor; assumption.
      + intros j Hj. right. apply He, Hj.
      + intros j [<-|Hj]; [exact Hlt|apply Hsa, Hj].
    - destruct (mem_nat i (r_sent s)) eqn:E; [|split; assumption].
      apply mem_nat_in in E.
      split; cbn [r_sent r_sv r_failed]; try assumption.
      intros j Hj. destruct (sv_step_lin (r_sv s) (AExec i)) as [Hl|(i' & Hi' & Hl)]; rewrite Hl in Hj.
      + apply He, Hj.
      + injection Hi' as <-. apply in_app_or in Hj as [Hj|[<-|[]]]; [apply He, Hj|exact E].
    - split; cbn [r_sent r_sv r_failed]; try assumption.
      intros j Hj. destruct (sv_step_lin (r_sv s) (ARespond i)) as [Hl|(i' & Hi' & Hl)]; [|discriminate].
      rewrite Hl in Hj. apply He, Hj.
  Qed.

  Lemma RInv_invoke_exec s cl o : RInv s -> forall j,
    In j (v_lin (sv_step sortf (r_sv s) (AInvoke cl o))) -> In j (r_sent s).
  Proof. intros [_ He _ _] j Hj. apply He. exact Hj. Qed.

  Lemma RInv_run acts : RInv (rrun sortf st0 acts).
  Proof.
    unfold rrun. assert (H0 : RInv (rinit st0)).
    { split; cbn; [constructor|intros i []|intros i; unfold attempts_failed, max_attempts; cbn; lia|intros i []]. }
    revert H0. generalize (rinit st0). induction acts as [|a acts IH]; intros s Hs; cbn [fold_left]; [exact Hs|].
    apply IH, RInv_step, Hs.
  Qed.

  (* the bucket sequence counts the executed AddCmd requests *)
  Lemma Run_seq h tbl order : forall st fin, Run sortf h tbl st order fin ->
    s_seq st + N.of_nat (length order) < two64 ->
    s_seq fin = s_seq st + N.of_nat (length (filter (is_add h) order)).
  Proof.
    induction order as [|i r IH]; intros st fin H Hb; cbn [Run filter length] in *; [subst; lia|].
    rewrite Nat2N.inj_succ in Hb. destruct H as (c & Hc & _ & Hr).
    pose proof (spec_step_seq sortf st (k_op c)) as Hs.
    unfold is_add at 1. rewrite Hc.
    destruct (k_op c) eqn:Eo; cbn [length];
      try (rewrite (IH _ _ Hr) by (rewrite Hs; lia); rewrite Hs; lia).
    rewrite wrap64_small in Hs by lia.
    rewrite (IH _ _ Hr) by (rewrite Hs; lia). rewrite Hs, Nat2N.inj_succ. lia.
  Qed.

  Lemma retry_at_most_once acts :
    let s := rrun sortf st0 acts in
    NoDup (v_lin (r_sv s))
    /\ NoDup (r_sent s)
    /\ (forall i, In i (v_lin (r_sv s)) -> In i (r_sent s))
    /\ (forall i, (attempts_failed i s <= max_attempts)%nat
                  /\ (In i (r_sent s) -> (attempts_failed i s < max_attempts)%nat))
    /\ (s_seq st0 + N.of_nat (length (v_hist (r_sv s))) < two64 ->
        s_seq (v_st (r_sv s)) = s_seq st0 + N.of_nat (length (adds_executed (r_sv s)))).
  Proof.
    intros s. destruct (RInv_run acts) as [Hs He Ha Hsa]. fold s in Hs, He, Ha, Hsa.
    destruct (rrun_is_sv_run acts) as [a' Ea']. fold s in Ea'.
    pose proof (Inv_run sortf st0 a') as Hinv. rewrite <- Ea' in Hinv.
    destruct Hinv as [Hnd Hdom _ _ _ _ Hrun].
    split; [exact Hnd|]. split; [exact Hs|]. split; [exact He|]. split; [intros i; split; [apply Ha|apply Hsa]|].
    intros Hb. unfold adds_executed. apply (Run_seq _ _ _ _ _ Hrun).
    assert (Hlen : (length (v_lin (r_sv s)) <= length (v_hist (r_sv s)))%nat).
    { rewrite <- (seq_length (length (v_hist (r_sv s))) 0). apply NoDup_incl_length; [exact Hnd|].
      intros i Hi. apply in_seq. specialize (Hdom i Hi). lia. }
    lia.
  Qed.

  Hypothesis sort_ok : sort_contract sortf.

  Lemma retry_linearizable acts :
    Linearization st0 (v_hist (r_sv (rrun sortf st0 acts))) (v_lin (r_sv (rrun sortf st0 acts))).
  Proof.
    destruct (rrun_is_sv_run acts) as [a' Ea']. rewrite Ea'.
    apply server_model_linearizable, sort_ok.
  Qed.
End RetryProof.
