(* C29 — proofs, part 2: the composed model (dbStoreCursor over the store
   specification with its frozen upper bound, hybrid hand-off, dedup stack)
   refines the position specification for every walk and every interleaving of
   additions by this and other sessions. *)
From verif Require Import lib.Base model.C24_F64 model.C24_StoreSpec model.C24
  proofs.C24_proofs model.C29 proofs.C29_proofs.
From Coq Require Import ZifyN ZifyNat.
Open Scope Z_scope.

(* ------------------------------------------------------------------ *)
(* generic list facts *)
Lemma find_hd {X} (f : X -> bool) l : find f l = hd_error (filter f l).
Proof. induction l as [|a l IH]; cbn; [reflexivity|]. destruct (f a); [reflexivity|exact IH]. Qed.

Lemma filter_rev' {X} (f : X -> bool) l : filter f (rev l) = rev (filter f l).
Proof. induction l as [|a l IH]; cbn; [reflexivity|]. rewrite filter_app, IH. cbn.
  destruct (f a); cbn; [reflexivity|apply app_nil_r]. Qed.

Lemma filter_comm {X} (f g : X -> bool) l : filter f (filter g l) = filter g (filter f l).
Proof. induction l as [|a l IH]; cbn; [reflexivity|].
  destruct (g a) eqn:Eg, (f a) eqn:Ef; cbn; rewrite ?Eg, ?Ef, IH; reflexivity. Qed.

Lemma firstn_S_nth {X} (l : list X) : forall j c, nth_error l j = Some c ->
  firstn (S j) l = firstn j l ++ [c].
Proof. induction l as [|a l IH]; intros [|j] c H; cbn in *; try discriminate.
  - injection H as ->. reflexivity.
  - f_equal. apply IH. exact H. Qed.

Lemma rev_eq_nil {X} (l : list X) : rev l = [] -> l = [].
Proof. intros H. rewrite <- (rev_involutive l), H. reflexivity. Qed.

Lemma rev_eq_cons {X} (l : list X) x r : rev l = x :: r -> l = rev r ++ [x].
Proof. intros H. rewrite <- (rev_involutive l), H. reflexivity. Qed.

Lemma asc_split l1 : forall x l2, asc (l1 ++ x :: l2) ->
  (forall c, In c l1 -> (fst c < fst x)%N) /\ (forall c, In c l2 -> (fst x < fst c)%N).
Proof.
  induction l1 as [|a l1 IH]; intros x l2 H; cbn in H.
  - split; [intros c []|apply H].
  - destruct H as [H1 H2]. destruct (IH x l2 H2) as [I1 I2]. split; [|exact I2].
    intros c [<-|Hc]; [|apply I1; exact Hc]. apply H1. apply in_or_app. right. left. reflexivity.
Qed.

Lemma u64_of_N m : (m < two64)%N -> u64 (Z.of_N m) = m.
Proof. intros H. unfold u64. rewrite Z.mod_small, N2Z.id; [reflexivity|]. unfold two64 in *. lia. Qed.

Lemma hmatch_out p c : hmatch p (out_cmd c) = matches p c.
Proof. reflexivity. Qed.

Lemma filter_hmatch_map p l :
  filter (hmatch p) (map out_cmd l) = map out_cmd (filter (matches p) l).
Proof. induction l as [|a l IH]; cbn [map filter]; [reflexivity|]. rewrite hmatch_out.
  destruct (matches p a); cbn [map]; rewrite IH; reflexivity. Qed.

Lemma is_end_obs o : is_end o = match obs_of o with OEnd => true | _ => false end.
Proof. destruct o; reflexivity. Qed.

Lemma pos_get_in l k : 0 <= k < Z.of_nat (length l) ->
  exists c, nth_error l (Z.to_nat k) = Some c /\ pos_get l k = OCmd c.
Proof.
  intros H. destruct (nth_error l (Z.to_nat k)) as [c|] eqn:E.
  - exists c. split; [reflexivity|]. unfold pos_get. rewrite E.
    replace (k <? 0) with false by (symmetry; apply Z.ltb_ge; lia). reflexivity.
  - apply nth_error_None in E. lia.
Qed.

Lemma pos_get_app1 l1 l2 k : k < Z.of_nat (length l1) -> pos_get (l1 ++ l2) k = pos_get l1 k.
Proof. intros H. unfold pos_get. destruct (k <? 0) eqn:E; [reflexivity|]. apply Z.ltb_ge in E.
  rewrite nth_error_app1 by lia. reflexivity. Qed.

(* ---- de-duplication, list level ---- *)
Lemma dedup_snoc X : forall seen c,
  dedup_first seen (X ++ [c]) = dedup_first seen X ++
    (if mem_bytes (fst c) seen || occ (dedup_first seen X) (fst c) then [] else [c]).
Proof.
  assert (Hb : forall a b c : bool, (a || b) || c = b || (a || c)) by (intros [] [] []; reflexivity).
  induction X as [|a X IH]; intros seen c; cbn [app dedup_first].
  - cbn [occ existsb]. rewrite orb_false_r. destruct (mem_bytes (fst c) seen); reflexivity.
  - destruct (mem_bytes (fst a) seen) eqn:E.
    + apply IH.
    + rewrite IH. cbn [app]. f_equal. unfold mem_bytes, occ. cbn [existsb]. rewrite Hb. reflexivity.
Qed.

Lemma dedup_prefix X : forall Y seen, exists Z, dedup_first seen (X ++ Y) = dedup_first seen X ++ Z.
Proof.
  induction X as [|a X IH]; intros Y seen; cbn [app dedup_first].
  - exists (dedup_first seen Y). reflexivity.
  - destruct (mem_bytes (fst a) seen); [apply IH|].
    destruct (IH Y (fst a :: seen)) as [Z HZ]. exists Z. rewrite HZ. reflexivity.
Qed.

Lemma filter_len {X} (f : X -> bool) l : (length (filter f l) <= length l)%nat.
Proof. induction l as [|a l IH]; cbn; [lia|]. destruct (f a); cbn; lia. Qed.

(* ------------------------------------------------------------------ *)
Section Sim.
  Variable p : bytes.
  Variable U : N.                   (* the upper bound frozen at session start *)
  Variable stored : list cmd.       (* the database's commands at session start *)
  Variable session : list hcmd.     (* the session's commands at cursor creation *)
  Hypothesis Hasc : asc stored.
  Hypothesis Hlt : forall c, In c stored -> (fst c < U)%N.
  Hypothesis HU0 : (0 < U)%N.
  Hypothesis HU63 : (U < two63)%N.

  Definition upper : Z := Z.of_N U.

  (* a database state during the session: the stored commands plus commands
     added since (by anyone), numbered from the upper bound on *)
  Definition good (db : sstate) : Prop :=
    exists later, s_log db = stored ++ later /\ forall c, In c later -> (U <= fst c < two63)%N.

  Definition A : list cmd := filter (matches p) stored.

  Lemma A_in x : In x A -> In x stored /\ matches p x = true.
  Proof. intros H. apply filter_In in H. exact H. Qed.

  Lemma A_lt x : In x A -> (fst x < U)%N.
  Proof. intros H. apply Hlt. apply A_in. exact H. Qed.

  Lemma A_asc : asc A.
  Proof. apply asc_filter. exact Hasc. Qed.

  Lemma two63_64 : (two63 < two64)%N.
  Proof. reflexivity. Qed.

  Lemma sp_prev_A db s n : good db -> u64 s = n -> (n <= U)%N ->
    sp_prev db s p = found (hd_error (rev (filter (fun c : cmd => (fst c <? n)%N) A))).
  Proof.
    intros [later [Hl Hb]] Hu Hn. unfold sp_prev. rewrite Hl, Hu, filter_app.
    rewrite (filter_all_false _ later), app_nil_r.
    2:{ intros c Hc. apply N.ltb_ge. specialize (Hb c Hc). lia. }
    rewrite find_hd, filter_rev'. unfold A. rewrite (filter_comm _ (matches p)). reflexivity.
  Qed.

  Lemma sp_next_A db s n : good db -> u64 s = n -> (n <= U)%N ->
    exists later', (forall c, In c later' -> (U <= fst c < two63)%N) /\
      sp_next db s p = found (hd_error (filter (fun c : cmd => (n <=? fst c)%N) A ++ later')).
  Proof.
    intros [later [Hl Hb]] Hu Hn. exists (filter (matches p) later). split.
    - intros c Hc. apply filter_In in Hc as [Hc _]. apply Hb. exact Hc.
    - unfold sp_next. rewrite Hl, Hu, filter_app.
      rewrite (filter_all_true _ later).
      2:{ intros c Hc. apply N.leb_le. specialize (Hb c Hc). lia. }
      rewrite find_hd, filter_app. unfold A. rewrite (filter_comm _ (matches p)). reflexivity.
  Qed.

  (* the three kinds of state of the database cursor *)
  Definition d_top : dbcur := mkDb p upper [] upper true.      (* past the newest end *)
  Definition d_low : dbcur := mkDb p upper [] (-1) true.       (* past the oldest end *)
  Definition d_at (x : cmd) : dbcur := mkDb p upper (snd x) (Z.of_N (fst x)) false.

  (* [db_at d j]: the cursor is at the j-th newest matching stored command, or
     past the oldest one (j = number of matching stored commands) *)
  Definition db_at (d : dbcur) (j : Z) : Prop :=
    (d = d_low /\ j = Z.of_nat (length A))
    \/ (exists A1 x A2, A = A1 ++ x :: A2 /\ d = d_at x /\ j = Z.of_nat (length A2)).

  Lemma db_at_range d j : db_at d j -> 0 <= j <= Z.of_nat (length A).
  Proof. intros [[_ ->]|[A1 [x [A2 [HA [_ ->]]]]]]; [lia|]. rewrite HA, app_length. cbn [length]. lia. Qed.

  Lemma found_at x : In x A -> found (Some x) = RCmd (snd x) (Z.of_N (fst x)).
  Proof. intros H. cbn [found]. rewrite to_int_small; [reflexivity|]. pose proof (A_lt x H). lia. Qed.

  Lemma filter_lt_split A1 x A2 : A = A1 ++ x :: A2 ->
    filter (fun c : cmd => (fst c <? fst x)%N) A = A1.
  Proof.
    intros HA. pose proof A_asc as Ha. rewrite HA in Ha. destruct (asc_split _ _ _ Ha) as [H1 H2].
    rewrite HA, filter_app. cbn [filter]. rewrite N.ltb_irrefl.
    rewrite (filter_all_true _ A1), (filter_all_false _ A2), app_nil_r; [reflexivity| |].
    - intros c Hc. apply N.ltb_ge. specialize (H2 c Hc). lia.
    - intros c Hc. apply N.ltb_lt. apply H1. exact Hc.
  Qed.

  Lemma filter_ge_split A1 x A2 : A = A1 ++ x :: A2 ->
    filter (fun c : cmd => (fst x + 1 <=? fst c)%N) A = A2.
  Proof.
    intros HA. pose proof A_asc as Ha. rewrite HA in Ha. destruct (asc_split _ _ _ Ha) as [H1 H2].
    rewrite HA, filter_app. cbn [filter].
    replace (fst x + 1 <=? fst x)%N with false by (symmetry; apply N.leb_gt; lia).
    rewrite (filter_all_false _ A1), (filter_all_true _ A2); [reflexivity| |].
    - intros c Hc. apply N.leb_le. specialize (H2 c Hc). lia.
    - intros c Hc. apply N.leb_gt. specialize (H1 c Hc). lia.
  Qed.

  (* ---- Prev ---- *)
  Lemma db_prev_top db : good db -> db_at (db_prev db d_top) 0.
  Proof.
    intros Hg. unfold db_prev. cbn [dc_seq dc_prefix d_top].
    replace (upper <? 0) with false by (symmetry; apply Z.ltb_ge; unfold upper; lia).
    rewrite (sp_prev_A db upper U Hg).
    2:{ unfold upper. apply u64_of_N. pose proof two63_64. lia. }
    2:{ lia. }
    rewrite (filter_all_true _ A) by (intros c Hc; apply N.ltb_lt, A_lt, Hc).
    destruct (rev A) as [|x r] eqn:E.
    - apply rev_eq_nil in E. left. cbn [hd_error found db_set]. split; [reflexivity|]. rewrite E. reflexivity.
    - apply rev_eq_cons in E. right. exists (rev r), x, []. split; [exact E|].
      cbn [hd_error]. rewrite found_at by (rewrite E; apply in_or_app; right; left; reflexivity).
      split; reflexivity.
  Qed.

  Lemma db_prev_at db A1 x A2 : good db -> A = A1 ++ x :: A2 ->
    db_at (db_prev db (d_at x)) (Z.of_nat (length A2) + 1).
  Proof.
    intros Hg HA. assert (Hx : In x A) by (rewrite HA; apply in_or_app; right; left; reflexivity).
    pose proof (A_lt x Hx) as Hxl. pose proof two63_64 as H64.
    unfold db_prev. cbn [dc_seq dc_prefix d_at].
    replace (Z.of_N (fst x) <? 0) with false by (symmetry; apply Z.ltb_ge; lia).
    rewrite (sp_prev_A db (Z.of_N (fst x)) (fst x) Hg) by (try apply u64_of_N; lia).
    rewrite (filter_lt_split A1 x A2 HA).
    destruct (rev A1) as [|y r] eqn:E.
    - apply rev_eq_nil in E. left. cbn [hd_error found db_set]. split; [reflexivity|].
      rewrite HA, E. cbn [app length]. lia.
    - apply rev_eq_cons in E. right. exists (rev r), y, (x :: A2). split.
      + rewrite HA, E, <- app_assoc. reflexivity.
      + cbn [hd_error]. rewrite found_at.
        2:{ rewrite HA, E. apply in_or_app. left. apply in_or_app. right. left. reflexivity. }
        split; [reflexivity|]. cbn [length]. lia.
  Qed.

  Lemma db_prev_spec db d j : good db -> db_at d j ->
    db_at (db_prev db d) (Z.min (j + 1) (Z.of_nat (length A))).
  Proof.
    intros Hg [[-> ->]|[A1 [x [A2 [HA [-> ->]]]]]].
    - replace (Z.min _ _) with (Z.of_nat (length A)) by lia. left. split; reflexivity.
    - replace (Z.min _ _) with (Z.of_nat (length A2) + 1).
      + apply (db_prev_at db A1 x A2 Hg HA).
      + rewrite HA, app_length. cbn [length]. lia.
  Qed.

  (* ---- Next ---- *)
  Lemma db_next_core db d n : good db ->
    dc_prefix d = p -> dc_upper d = upper -> -1 <= dc_seq d < upper ->
    u64 (dc_seq d + 1) = n -> (n <= U)%N ->
    db_next db d = match filter (fun c : cmd => (n <=? fst c)%N) A with
                   | y :: _ => d_at y
                   | [] => d_top
                   end.
  Proof.
    intros Hg Hp Hup Hs Hu Hn. unfold db_next. rewrite Hp, Hup.
    replace (upper <=? dc_seq d) with false by (symmetry; apply Z.leb_gt; lia).
    destruct (sp_next_A db (dc_seq d + 1) n Hg Hu Hn) as [later' [Hb Hr]]. rewrite Hr. cbv zeta.
    assert (Hup0 : 0 < upper) by (unfold upper; lia).
    destruct (filter (fun c : cmd => (n <=? fst c)%N) A) as [|y r] eqn:E; cbn [app].
    - destruct later' as [|z lr]; cbn [hd_error found].
      + replace (0 <? upper) with true by (symmetry; apply Z.ltb_lt; lia).
        replace (upper <=? 0) with false by (symmetry; apply Z.leb_gt; lia).
        cbn [db_set]. rewrite Hp, Hup. reflexivity.
      + specialize (Hb z (or_introl eq_refl)). rewrite to_int_small by lia.
        replace (Z.of_N (fst z) <? upper) with false by (symmetry; apply Z.ltb_ge; unfold upper; lia).
        replace (upper <=? Z.of_N (fst z)) with true by (symmetry; apply Z.leb_le; unfold upper; lia).
        reflexivity.
    - assert (Hy : In y A).
      { assert (H : In y (filter (fun c : cmd => (n <=? fst c)%N) A)) by (rewrite E; left; reflexivity).
        apply filter_In in H. apply H. }
      cbn [hd_error]. rewrite (found_at y Hy). pose proof (A_lt y Hy).
      replace (Z.of_N (fst y) <? upper) with true by (symmetry; apply Z.ltb_lt; unfold upper; lia).
      replace (upper <=? Z.of_N (fst y)) with false by (symmetry; apply Z.leb_gt; unfold upper; lia).
      cbn [db_set]. rewrite Hp, Hup. reflexivity.
  Qed.

  Lemma db_next_spec db d j : good db -> db_at d j ->
    (j = 0 -> db_next db d = d_top)
    /\ (1 <= j -> exists A1 y A2, A = A1 ++ y :: A2 /\ db_next db d = d_at y
                                 /\ j - 1 = Z.of_nat (length A2)).
  Proof.
    pose proof two63_64 as H64.
    intros Hg [[-> ->]|[A1 [x [A2 [HA [-> ->]]]]]].
    - rewrite (db_next_core db d_low 0%N Hg); try reflexivity; try (unfold upper; cbn [dc_seq d_low]; lia).
      rewrite (filter_all_true _ A) by (intros; apply N.leb_le; lia).
      destruct A as [|y A'] eqn:E; split; intros Hj; cbn [length] in Hj; try lia; try reflexivity.
      exists [], y, A'. split; [reflexivity|]. split; [reflexivity|]. cbn [length]. lia.
    - assert (Hx : In x A) by (rewrite HA; apply in_or_app; right; left; reflexivity).
      pose proof (A_lt x Hx) as Hxl.
      rewrite (db_next_core db (d_at x) (fst x + 1)%N Hg); try reflexivity;
        try (cbn [dc_seq d_at]; unfold upper; lia).
      2:{ cbn [dc_seq d_at]. replace (Z.of_N (fst x) + 1) with (Z.of_N (fst x + 1)) by lia.
          apply u64_of_N. lia. }
      rewrite (filter_ge_split A1 x A2 HA).
      destruct A2 as [|y A2']; split; intros Hj; cbn [length] in Hj; try lia; try reflexivity.
      exists (A1 ++ [x]), y, A2'. split; [rewrite HA, <- app_assoc; reflexivity|].
      split; [reflexivity|]. cbn [length]. lia.
  Qed.

  (* ---- Get ---- *)
  Lemma db_get_top : db_get d_top = None. Proof. reflexivity. Qed.
  Lemma db_get_low : db_get d_low = None. Proof. reflexivity. Qed.
  Lemma db_get_at x : In x A -> db_get (d_at x) = Some (out_cmd x).
  Proof. intros H. unfold db_get, out_cmd. cbn [dc_end d_at dc_text dc_seq].
    rewrite to_int_small; [reflexivity|]. pose proof (A_lt x H). lia. Qed.

  (* ------------------------------------------------------------------ *)
  (* the hybrid cursor *)
  Definition Sl : list hcmd := rev (filter (hmatch p) session).   (* session part, newest first *)
  Definition Dl : list hcmd := rev (map out_cmd A).                (* stored part, newest first *)
  Definition L : list hcmd := Sl ++ Dl.
  Definition ns : Z := Z.of_nat (length Sl).
  Definition n : Z := Z.of_nat (length L).

  Lemma L_len : n = ns + Z.of_nat (length A).
  Proof. unfold n, ns, L, Dl. rewrite app_length, rev_length, map_length. lia. Qed.

  Definition Inv (h : hybcur) (k : Z) : Prop :=
    mem_inv p (hc_session h) /\ mem_view p (hc_session h) = Sl /\
    ((hc_use_shared h = false /\ hc_shared h = d_top /\ mem_k p (hc_session h) = k /\ -1 <= k < ns)
     \/ (hc_use_shared h = true /\ mem_k p (hc_session h) = ns /\ db_at (hc_shared h) (k - ns))).

  Lemma Inv_range h k : Inv h k -> -1 <= k <= n.
  Proof. intros [_ [_ [[_ [_ [_ H]]]|[_ [_ H]]]]]; rewrite L_len.
    - unfold ns in *. lia.
    - apply db_at_range in H. unfold ns in *. lia. Qed.

  Lemma nth_Dl A1 x A2 : A = A1 ++ x :: A2 -> nth_error Dl (length A2) = Some (out_cmd x).
  Proof.
    intros HA. unfold Dl. rewrite HA, map_app. cbn [map]. rewrite rev_app_distr. cbn [rev].
    rewrite nth_error_app1 by (rewrite app_length, rev_length, map_length; cbn [length]; lia).
    rewrite nth_error_app2 by (rewrite rev_length, map_length; lia).
    rewrite rev_length, map_length, Nat.sub_diag. reflexivity.
  Qed.

  Lemma hyb_get_spec h k : Inv h k -> obs_of (hyb_get h) = pos_get L k.
  Proof.
    intros [Hi [Hv [[Hus [Hsh [Hk Hr]]]|[Hus [Hk Hd]]]]]; unfold hyb_get; rewrite Hus.
    - rewrite (mem_get_spec p _ Hi), Hv, Hk. unfold L. symmetry. apply pos_get_app1. unfold ns in Hr. lia.
    - destruct Hd as [[-> Hj]|[A1 [x [A2 [HA [-> Hj]]]]]].
      + rewrite db_get_low. cbn [obs_of]. replace k with n by (rewrite L_len; lia).
        symmetry. apply pos_get_ends.
      + assert (Hx : In x A) by (rewrite HA; apply in_or_app; right; left; reflexivity).
        rewrite (db_get_at x Hx). cbn [obs_of]. unfold pos_get.
        replace (k <? 0) with false by (symmetry; apply Z.ltb_ge; unfold ns in *; lia).
        unfold L. rewrite nth_error_app2 by (unfold ns in *; lia).
        replace (Z.to_nat k - length Sl)%nat with (length A2) by (unfold ns in *; lia).
        rewrite (nth_Dl A1 x A2 HA). reflexivity.
  Qed.

  Lemma mem_view_prev c : mem_inv p c -> mem_view p (mem_prev c) = mem_view p c.
  Proof. intros H. destruct (mem_prev_spec p c H) as [_ [Ha _]]. unfold mem_view. rewrite Ha. reflexivity. Qed.

  Lemma mem_view_next c : mem_inv p c -> mem_view p (mem_next c) = mem_view p c.
  Proof. intros H. destruct (mem_next_spec p c H) as [_ [Ha _]]. unfold mem_view. rewrite Ha. reflexivity. Qed.

  Lemma hyb_prev_spec db h k : good db -> Inv h k -> Inv (hyb_prev db h) (Z.min (k + 1) n).
  Proof.
    intros Hg [Hi [Hv [[Hus [Hsh [Hk Hr]]]|[Hus [Hk Hd]]]]]; unfold hyb_prev; rewrite Hus.
    - destruct (mem_prev_spec p _ Hi) as [Hi' [_ Hk']]. pose proof (mem_view_prev _ Hi) as Hv'.
      rewrite Hv, Hk in Hk'. fold ns in Hk'. rewrite Hv in Hv'.
      cbv zeta. rewrite is_end_obs, (mem_get_spec p _ Hi'), Hv', Hk'.
      pose proof L_len as HL.
      destruct (Z.eq_dec (k + 1) ns) as [E|E].
      + replace (Z.min (k + 1) ns) with ns in * by lia.
        unfold ns at 1. rewrite (proj2 (pos_get_ends Sl)).
        split; [exact Hi'|]. split; [exact Hv'|]. right. cbn [hc_use_shared hc_session hc_shared].
        split; [reflexivity|]. split; [exact Hk'|]. rewrite Hsh.
        replace (Z.min (k + 1) n - ns) with 0 by lia. apply db_prev_top. exact Hg.
      + replace (Z.min (k + 1) ns) with (k + 1) in * by lia.
        destruct (pos_get_in Sl (k + 1)) as [c [_ Hc]]; [unfold ns in *; lia|]. rewrite Hc.
        split; [exact Hi'|]. split; [exact Hv'|]. left. cbn [hc_use_shared hc_session hc_shared].
        repeat split; try assumption; try lia.
    - split; [exact Hi|]. split; [exact Hv|]. right. cbn [hc_use_shared hc_session hc_shared].
      split; [reflexivity|]. split; [exact Hk|].
      pose proof (db_at_range _ _ Hd) as Hj. pose proof L_len as HL.
      replace (Z.min (k + 1) n - ns) with (Z.min (k - ns + 1) (Z.of_nat (length A))) by lia.
      apply db_prev_spec; assumption.
  Qed.

  Lemma hyb_next_spec db h k : good db -> Inv h k -> Inv (hyb_next db h) (Z.max (k - 1) (-1)).
  Proof.
    intros Hg [Hi [Hv [[Hus [Hsh [Hk Hr]]]|[Hus [Hk Hd]]]]]; unfold hyb_next; rewrite Hus; cbn [negb].
    - destruct (mem_next_spec p _ Hi) as [Hi' [_ Hk']]. pose proof (mem_view_next _ Hi) as Hv'.
      rewrite Hv in Hv'. rewrite Hk in Hk'.
      split; [exact Hi'|]. split; [exact Hv'|]. left. cbn [hc_use_shared hc_session hc_shared].
      repeat split; try assumption; lia.
    - cbv zeta. pose proof (db_at_range _ _ Hd) as Hj.
      destruct (db_next_spec db _ _ Hg Hd) as [H0 H1].
      destruct (Z.eq_dec (k - ns) 0) as [E|E].
      + rewrite (H0 E), db_get_top. cbn [is_end].
        destruct (mem_next_spec p _ Hi) as [Hi' [_ Hk']]. pose proof (mem_view_next _ Hi) as Hv'.
        rewrite Hv in Hv'. rewrite Hk in Hk'.
        split; [exact Hi'|]. split; [exact Hv'|]. left. cbn [hc_use_shared hc_session hc_shared].
        unfold ns in *. repeat split; try reflexivity; lia.
      + destruct (H1 ltac:(lia)) as [A1 [y [A2 [HA [Hn Hl]]]]]. rewrite Hn.
        assert (Hy : In y A) by (rewrite HA; apply in_or_app; right; left; reflexivity).
        rewrite (db_get_at y Hy). cbn [is_end].
        split; [exact Hi|]. split; [exact Hv|]. right. cbn [hc_use_shared hc_session hc_shared].
        split; [reflexivity|]. split; [exact Hk|]. right. exists A1, y, A2.
        split; [exact HA|]. split; [reflexivity|]. unfold ns in *. lia.
  Qed.

  Lemma mem_cursor_inv : mem_inv p (mem_cursor session p).
  Proof. unfold mem_inv, mem_cursor. cbn. repeat split; intros; discriminate. Qed.

  Lemma hyb_init : Inv (hyb_cursor upper session p) (-1).
  Proof.
    unfold hyb_cursor, Inv. cbn [hc_session hc_shared hc_use_shared].
    split; [apply mem_cursor_inv|]. split.
    - unfold mem_view, mem_all, mem_cursor, Sl. cbn [mc_before mc_after]. rewrite rev_involutive, app_nil_r. reflexivity.
    - left. repeat split; try reflexivity. unfold ns. lia.
  Qed.

  (* ------------------------------------------------------------------ *)
  (* the dedup cursor over the hybrid cursor *)
  Definition DL : list hcmd := dedup_first [] L.
  Definition Cst (ki : Z) (stack : list hcmd) : Prop :=
    dedup_first [] (firstn (Z.to_nat (ki + 1)) L) = stack.

  Lemma Cst_prefix ki stack : Cst ki stack -> exists Z, DL = stack ++ Z.
  Proof. intros <-. destruct (dedup_prefix (firstn (Z.to_nat (ki + 1)) L) (skipn (Z.to_nat (ki + 1)) L) []) as [Z HZ].
    rewrite firstn_skipn in HZ. exists Z. exact HZ. Qed.

  Lemma Cst_len ki stack : Cst ki stack -> (length stack <= length DL)%nat.
  Proof. intros H. destruct (Cst_prefix _ _ H) as [Z ->]. rewrite app_length. lia. Qed.

  Lemma Cst_full ki stack : Cst ki stack -> n <= ki + 1 -> stack = DL.
  Proof. intros <- H. unfold DL. rewrite firstn_all2 by (unfold n in H; lia). reflexivity. Qed.

  Lemma ded_loop_spec db : good db -> forall fuel h ki stack,
    Inv h ki -> Cst ki stack -> n - ki < Z.of_nat fuel ->
    exists h' ki' stack',
      ded_loop fuel db h stack = Some (mkDed h' (Z.of_nat (length stack)) stack')
      /\ Inv h' ki' /\ Cst ki' stack'
      /\ ((stack' = stack /\ ki' = n) \/ (exists c, stack' = stack ++ [c])).
  Proof.
    intros Hg. induction fuel as [|f IH]; intros h ki stack Hi Hc Hf.
    - pose proof (Inv_range _ _ Hi). lia.
    - cbn [ded_loop]. pose proof (Inv_range _ _ Hi) as Hr.
      pose proof (hyb_prev_spec db h ki Hg Hi) as Hi1. pose proof (hyb_get_spec _ _ Hi1) as Hget.
      destruct (Z_lt_le_dec (ki + 1) n) as [Hlt'|Hge].
      + replace (Z.min (ki + 1) n) with (ki + 1) in * by lia.
        destruct (pos_get_in L (ki + 1)) as [c [Hnth Hpg]]; [unfold n in *; lia|]. rewrite Hpg in Hget.
        destruct (hyb_get (hyb_prev db h)) as [c'|]; cbn [obs_of] in Hget; [|discriminate].
        injection Hget as ->.
        assert (Hc1 : dedup_first [] (firstn (Z.to_nat (ki + 1 + 1)) L)
                      = stack ++ (if occ stack (fst c) then [] else [c])).
        { replace (Z.to_nat (ki + 1 + 1)) with (S (Z.to_nat (ki + 1))) by lia.
          rewrite (firstn_S_nth L _ c Hnth), dedup_snoc. unfold Cst in Hc. rewrite Hc.
          unfold mem_bytes. cbn [existsb orb]. reflexivity. }
        destruct (occ stack (fst c)) eqn:Eo; cbn [negb].
        * rewrite app_nil_r in Hc1. apply (IH _ (ki + 1) stack Hi1 Hc1). lia.
        * exists (hyb_prev db h), (ki + 1), (stack ++ [c]). split; [reflexivity|].
          split; [exact Hi1|]. split; [exact Hc1|]. right. exists c. reflexivity.
      + replace (Z.min (ki + 1) n) with n in * by lia.
        unfold n in Hget. rewrite (proj2 (pos_get_ends L)) in Hget.
        destruct (hyb_get (hyb_prev db h)) as [c'|]; cbn [obs_of] in Hget; [discriminate|].
        exists (hyb_prev db h), n, stack. split; [reflexivity|]. split; [exact Hi1|].
        split; [|left; split; reflexivity].
        unfold Cst in *. rewrite <- Hc. rewrite !firstn_all2 by (unfold n in *; lia). reflexivity.
  Qed.

  Definition DRel (d : dedcur) (kd : Z) : Prop :=
    exists ki, Inv (dd_inner d) ki /\ Cst ki (dd_stack d) /\
      ((-1 <= dd_current d <= Z.of_nat (length (dd_stack d)) - 1 /\ kd = dd_current d)
       \/ (dd_current d = Z.of_nat (length (dd_stack d)) /\ ki = n /\ kd = dd_current d)
       \/ (dd_current d = 0 /\ dd_stack d = [] /\ ki = -1 /\ kd = -1)).

  Lemma ded_get_spec d kd : DRel d kd -> obs_of (ded_get d) = pos_get DL kd.
  Proof.
    intros [ki [Hi [Hc Hcase]]]. unfold ded_get. destruct (Cst_prefix _ _ Hc) as [Z HZ].
    destruct Hcase as [[Hr ->]|[[Hcur [-> ->]]|[Hcur [Hst [-> ->]]]]].
    - destruct (dd_current d <? 0) eqn:E.
      + apply Z.ltb_lt in E. replace (dd_current d) with (-1) by lia. reflexivity.
      + apply Z.ltb_ge in E.
        replace (dd_current d <? Z.of_nat (length (dd_stack d))) with true by (symmetry; apply Z.ltb_lt; lia).
        unfold pos_get. replace (dd_current d <? 0) with false by (symmetry; apply Z.ltb_ge; lia).
        rewrite HZ, nth_error_app1 by lia. destruct (nth_error (dd_stack d) _); reflexivity.
    - replace (dd_current d <? 0) with false by (symmetry; apply Z.ltb_ge; lia).
      replace (dd_current d <? Z.of_nat (length (dd_stack d))) with false by (symmetry; apply Z.ltb_ge; lia).
      rewrite (hyb_get_spec _ _ Hi). unfold n. rewrite (proj2 (pos_get_ends L)).
      rewrite Hcur, (Cst_full _ _ Hc) by lia. symmetry. apply pos_get_ends.
    - rewrite Hcur, Hst. cbn [length]. cbn. rewrite (hyb_get_spec _ _ Hi). reflexivity.
  Qed.

  Lemma ded_next_spec d kd : DRel d kd -> DRel (ded_next d) (Z.max (kd - 1) (-1)).
  Proof.
    intros [ki [Hi [Hc Hcase]]]. exists ki. unfold ded_next.
    destruct (0 <=? dd_current d) eqn:E; [apply Z.leb_le in E|apply Z.leb_gt in E];
      cbn [dd_inner dd_stack dd_current]; (split; [exact Hi|]); (split; [exact Hc|]); left;
      destruct Hcase as [[Hr ->]|[[Hcur [-> ->]]|[Hcur [Hst [-> ->]]]]];
      try rewrite Hst in *; cbn [length] in *; lia.
  Qed.

  Lemma ded_prev_spec db fuel d kd : good db -> DRel d kd -> n + 1 < Z.of_nat fuel ->
    exists d', ded_prev fuel db d = Some d' /\ DRel d' (Z.min (kd + 1) (Z.of_nat (length DL))).
  Proof.
    intros Hg [ki [Hi [Hc Hcase]]] Hf. unfold ded_prev. pose proof (Cst_len _ _ Hc) as Hlen.
    pose proof (Inv_range _ _ Hi) as Hr.
    destruct (dd_current d <? Z.of_nat (length (dd_stack d)) - 1) eqn:E.
    - apply Z.ltb_lt in E. eexists. split; [reflexivity|]. exists ki.
      cbn [dd_inner dd_stack dd_current]. split; [exact Hi|]. split; [exact Hc|]. left.
      destruct Hcase as [[Hr' ->]|[[Hcur [-> ->]]|[Hcur [Hst [-> ->]]]]];
        try rewrite Hst in *; cbn [length] in *; lia.
    - apply Z.ltb_ge in E.
      destruct (ded_loop_spec db Hg fuel _ ki _ Hi Hc ltac:(lia)) as [h' [ki' [stack' [Hl [Hi' [Hc' Hres]]]]]].
      rewrite Hl. eexists. split; [reflexivity|]. exists ki'.
      cbn [dd_inner dd_stack dd_current]. split; [exact Hi'|]. split; [exact Hc'|].
      pose proof (Cst_len _ _ Hc') as Hlen'.
      destruct Hres as [[-> ->]|[c ->]].
      + right. left. pose proof (Cst_full _ _ Hc' ltac:(lia)) as Hfull.
        assert (Hm : length (dd_stack d) = length DL) by (rewrite Hfull at 1; reflexivity).
        split; [reflexivity|]. split; [reflexivity|].
        destruct Hcase as [[Hr' ->]|[[Hcur [-> ->]]|[Hcur [Hst [-> ->]]]]];
          try rewrite Hst in *; cbn [length] in *; lia.
      + left. rewrite app_length in *. cbn [length] in *.
        destruct Hcase as [[Hr' ->]|[[Hcur [-> ->]]|[Hcur [Hst [-> ->]]]]].
        * lia.
        * pose proof (Cst_full _ _ Hc ltac:(lia)) as Hfull.
          assert (Hm : length (dd_stack d) = length DL) by (rewrite Hfull at 1; reflexivity). lia.
        * rewrite Hst in *. cbn [length] in *. lia.
  Qed.

  Lemma ded_init : DRel (ded_cursor (hyb_cursor upper session p)) (-1).
  Proof. exists (-1). cbn [ded_cursor dd_inner dd_stack dd_current]. split; [apply hyb_init|].
    split; [reflexivity|]. right. right. repeat split. Qed.

  (* ------------------------------------------------------------------ *)
  (* additions during the session *)
  Definition dbinv (db : sstate) : Prop := good db /\ (U <= s_seq db + 1)%N.

  Lemma apply_ev_inv e db sess : dbinv db -> (s_seq db + 2 < two63)%N ->
    dbinv (fst (apply_ev (db, sess) e))
    /\ s_seq (fst (apply_ev (db, sess) e)) = (s_seq db + 1)%N
    /\ (length sess <= length (snd (apply_ev (db, sess) e)))%nat.
  Proof.
    intros [[later [Hl Hb]] Hs] Hbd. pose proof two63_64 as H64.
    assert (Hw : wrap64 (s_seq db + 1) = (s_seq db + 1)%N) by (apply wrap64_small; lia).
    assert (Hgood : good (mkS (s_seq db + 1) (s_log db ++ [((s_seq db + 1)%N, match e with ESess t => t | EOther t => t end)]) (s_dirs db))).
    { exists (later ++ [((s_seq db + 1)%N, match e with ESess t => t | EOther t => t end)]).
      cbn [s_log]. split; [rewrite Hl, app_assoc; reflexivity|].
      intros c Hc. apply in_app_or in Hc as [Hc|[<-|[]]]; [apply Hb; exact Hc|]. cbn [fst]. lia. }
    destruct e as [t|t]; unfold apply_ev, db_add, sp_add; cbn [fst snd]; rewrite Hw; cbn [fst snd s_seq].
    - split; [split; [exact Hgood|cbn [s_seq]; lia]|]. split; [reflexivity|].
      unfold mem_add. rewrite app_length. cbn [length]. lia.
    - split; [split; [exact Hgood|cbn [s_seq]; lia]|]. split; [reflexivity|]. lia.
  Qed.

  Lemma evs_inv evs : forall db sess, dbinv db ->
    (s_seq db + N.of_nat (length evs) + 1 < two63)%N ->
    dbinv (fst (fold_left apply_ev evs (db, sess)))
    /\ s_seq (fst (fold_left apply_ev evs (db, sess))) = (s_seq db + N.of_nat (length evs))%N
    /\ (length sess <= length (snd (fold_left apply_ev evs (db, sess))))%nat.
  Proof.
    induction evs as [|e evs IH]; intros db sess Hd Hb; cbn [fold_left length fst snd] in *.
    - split; [exact Hd|]. split; [lia|lia].
    - destruct (apply_ev_inv e db sess Hd ltac:(lia)) as [H1 [H2 H3]].
      destruct (apply_ev (db, sess) e) as [db1 sess1]. cbn [fst snd] in *.
      destruct (IH db1 sess1 H1 ltac:(lia)) as [I1 [I2 I3]].
      split; [exact I1|]. split; lia.
  Qed.

  Lemma n_bound : n <= Z.of_nat (length session + length stored).
  Proof. rewrite L_len. unfold ns, Sl, A. rewrite rev_length.
    pose proof (filter_len (hmatch p) session). pose proof (filter_len (matches p) stored). lia. Qed.

  (* ---- whole walks ---- *)
  Lemma walk_hyb w : forall db sess h k, dbinv db ->
    (s_seq db + N.of_nat (evcount w) + 1 < two63)%N -> Inv h k ->
    walk_run (db, sess) (CHyb h) w = pos_run L k (map snd w).
  Proof.
    induction w as [|[evs m] w IH]; intros db sess h k Hd Hb Hi; [reflexivity|].
    cbn [walk_run map snd pos_run evcount] in *. rewrite Nat2N.inj_add in Hb.
    destruct (evs_inv evs db sess Hd ltac:(lia)) as [Hd' [Hs' _]].
    destruct (fold_left apply_ev evs (db, sess)) as [db' sess']. cbn [fst snd] in *.
    destruct Hd' as [Hg' Hu'].
    destruct m; cbn [cur_move cur_get pos_move].
    - pose proof (hyb_prev_spec db' h k Hg' Hi) as Hi'. fold n. f_equal; [apply hyb_get_spec; exact Hi'|].
      apply IH; [split; assumption|lia|exact Hi'].
    - pose proof (hyb_next_spec db' h k Hg' Hi) as Hi'. f_equal; [apply hyb_get_spec; exact Hi'|].
      apply IH; [split; assumption|lia|exact Hi'].
    - f_equal; [apply hyb_get_spec; exact Hi|]. apply IH; [split; assumption|lia|exact Hi].
  Qed.

  Lemma walk_ded w : forall db sess d kd, dbinv db ->
    (s_seq db + N.of_nat (evcount w) + 1 < two63)%N ->
    (length session <= length sess)%nat -> DRel d kd ->
    walk_run (db, sess) (CDed d) w = pos_run DL kd (map snd w).
  Proof.
    induction w as [|[evs m] w IH]; intros db sess d kd Hd Hb Hls Hr; [reflexivity|].
    cbn [walk_run map snd pos_run evcount] in *. rewrite Nat2N.inj_add in Hb.
    destruct (evs_inv evs db sess Hd ltac:(lia)) as [Hd' [Hs' Hl']].
    destruct (fold_left apply_ev evs (db, sess)) as [db' sess']. cbn [fst snd] in *.
    destruct Hd' as [Hg' Hu'].
    destruct m; cbn [cur_move cur_get pos_move].
    - destruct (ded_prev_spec db' (S (S (length (s_log db') + length sess'))) d kd Hg' Hr) as [d' [Hp' Hr']].
      { pose proof n_bound. destruct Hg' as [later [Hlog _]]. rewrite Hlog, app_length. lia. }
      rewrite Hp'. cbn [cur_get]. f_equal; [apply ded_get_spec; exact Hr'|].
      apply IH; [split; assumption|lia|lia|exact Hr'].
    - pose proof (ded_next_spec d kd Hr) as Hr'. f_equal; [apply ded_get_spec; exact Hr'|].
      apply IH; [split; assumption|lia|lia|exact Hr'].
    - f_equal; [apply ded_get_spec; exact Hr|]. apply IH; [split; assumption|lia|lia|exact Hr].
  Qed.

  Lemma L_visit : L = visit_list (map out_cmd stored ++ session) p false.
  Proof. unfold L, Sl, Dl, A, visit_list. rewrite filter_app, rev_app_distr, filter_hmatch_map. reflexivity. Qed.

  Lemma DL_visit : DL = visit_list (map out_cmd stored ++ session) p true.
  Proof. unfold DL. rewrite L_visit. reflexivity. Qed.
End Sim.

(* ------------------------------------------------------------------ *)
(* the whole scenario *)
Theorem scenario_refines_spec pre mid p dedup w :
  (N.of_nat (length pre) + N.of_nat (length mid) + N.of_nat (evcount w) + 2 < two63)%N ->
  scenario pre mid p dedup w
  = pos_run (visit_list (session_view pre mid) p dedup) (-1) (map snd w).
Proof.
  intros Hb. pose proof two63_64 as H64. unfold session_view. cbv zeta.
  set (db0 := spec_exec isort_desc (spec_init 0) pre).
  assert (Hwf0 : wf (spec_init 0)) by (split; [exact I|intros x []|reflexivity]).
  destruct (wf_exec isort_desc pre (spec_init 0) Hwf0) as [Hwf Hle].
  { cbn [spec_init s_seq]. lia. }
  fold db0 in Hwf, Hle. cbn [spec_init s_seq] in Hle.
  set (U := (s_seq db0 + 1)%N).
  assert (HU0 : (0 < U)%N) by (unfold U; lia).
  assert (HU63 : (U < two63)%N) by (unfold U; lia).
  pose proof (wf_asc _ Hwf) as Hasc.
  assert (Hlt : forall c, In c (s_log db0) -> (fst c < U)%N).
  { intros c Hc. pose proof (wf_le _ Hwf c Hc). unfold U. lia. }
  assert (Hd0 : dbinv U (s_log db0) db0).
  { split; [exists []; split; [rewrite app_nil_r; reflexivity|intros c []]|unfold U; lia]. }
  unfold scenario. fold db0.
  assert (Hup : next_seq db0 = upper U).
  { unfold next_seq, sp_next_seq, upper. fold U. rewrite wrap64_small, to_int_small by lia. reflexivity. }
  rewrite Hup.
  destruct (evs_inv U (s_log db0) HU0 HU63 mid db0 [] Hd0 ltac:(lia)) as [Hd1 [Hs1 _]].
  destruct (fold_left apply_ev mid (db0, [])) as [db1 sess1]. cbn [fst snd] in *.
  unfold new_cursor. destruct dedup.
  - rewrite <- DL_visit.
    apply (walk_ded p U (s_log db0) sess1 Hasc Hlt HU0 HU63); [exact Hd1|lia|lia|apply ded_init; assumption].
  - rewrite <- L_visit.
    apply (walk_hyb p U (s_log db0) sess1 Hasc Hlt HU0 HU63); [exact Hd1|lia|apply hyb_init; assumption].
Qed.

(* ---- consequences for particular walks (facts about the position cursor) ---- *)
Fixpoint pos_after (n : Z) (k : Z) (ms : list move) : Z :=
  match ms with [] => k | m :: ms' => pos_after n (pos_move n m k) ms' end.

Lemma pos_run_app l a : forall k b,
  pos_run l k (a ++ b) = pos_run l k a ++ pos_run l (pos_after (Z.of_nat (length l)) k a) b.
Proof. induction a as [|m a IH]; intros k b; cbn [app pos_run pos_after]; [reflexivity|]. rewrite IH. reflexivity. Qed.

Lemma pos_after_prev n j : forall s, s + Z.of_nat j <= n -> pos_after n s (repeat MPrev j) = s + Z.of_nat j.
Proof. induction j as [|j IH]; intros s H; cbn [repeat pos_after pos_move]; [lia|].
  rewrite IH by lia. lia. Qed.

Lemma pos_stay_low l j : forall s, Z.of_nat (length l) - 1 <= s <= Z.of_nat (length l) ->
  pos_run l s (repeat MPrev j) = repeat OEnd j.
Proof.
  induction j as [|j IH]; intros s H; cbn [repeat pos_run pos_move]; [reflexivity|].
  replace (Z.min (s + 1) (Z.of_nat (length l))) with (Z.of_nat (length l)) by lia.
  rewrite (proj2 (pos_get_ends l)). f_equal. apply IH. lia.
Qed.

Lemma pos_stay_top l j : pos_run l (-1) (repeat MNext j) = repeat OEnd j.
Proof. induction j as [|j IH]; cbn [repeat pos_run pos_move]; [reflexivity|].
  replace (Z.max (-1 - 1) (-1)) with (-1) by lia. cbn [pos_get Z.ltb Z.compare]. f_equal. exact IH. Qed.

Lemma pos_fwd l j : forall i, (i <= length l)%nat -> (j <= i + 1)%nat ->
  pos_run l (Z.of_nat i) (repeat MNext j) = firstn j (map OCmd (rev (firstn i l)) ++ [OEnd]).
Proof.
  induction j as [|j IH]; intros i Hi Hj; [reflexivity|].
  cbn [repeat pos_run pos_move]. destruct i as [|i].
  - assert (j = 0)%nat by lia. subst j. reflexivity.
  - replace (Z.max (Z.of_nat (S i) - 1) (-1)) with (Z.of_nat i) by lia.
    destruct (pos_get_in l (Z.of_nat i)) as [c [Hn Hg]]; [lia|]. rewrite Nat2Z.id in Hn.
    rewrite Hg, (firstn_S_nth l i c Hn), rev_app_distr. cbn [rev app map firstn]. f_equal.
    apply IH; lia.
Qed.

Lemma pos_back_then_fwd l k j : (1 <= k <= length l)%nat -> (j <= k)%nat ->
  pos_run l (-1) (repeat MPrev k ++ repeat MNext j)
  = map OCmd (firstn k l) ++ firstn j (map OCmd (rev (firstn (k - 1) l)) ++ [OEnd]).
Proof.
  intros Hk Hj. rewrite pos_run_app, pos_walk_back by lia. f_equal.
  rewrite pos_after_prev by lia. replace (-1 + Z.of_nat k) with (Z.of_nat (k - 1)) by lia.
  apply pos_fwd; lia.
Qed.

Lemma pos_back_past_end l j :
  pos_run l (-1) (repeat MPrev (length l + j)) = map OCmd l ++ repeat OEnd j.
Proof.
  rewrite repeat_app, pos_run_app, pos_walk_back, firstn_all by lia. f_equal.
  rewrite pos_after_prev by lia. apply pos_stay_low. lia.
Qed.

Lemma pos_run_in l c : forall ms k, In (OCmd c) (pos_run l k ms) -> In c l.
Proof.
  induction ms as [|m ms IH]; intros k H; cbn [pos_run] in H; [destruct H|].
  destruct H as [H|H]; [|eapply IH; exact H].
  unfold pos_get in H. destruct (_ <? 0); [discriminate|].
  destruct (nth_error l _) as [c'|] eqn:E; [|discriminate]. injection H as ->.
  eapply nth_error_In. exact E.
Qed.

Lemma visit_list_in view p dedup c : In c (visit_list view p dedup) -> In c view /\ hmatch p c = true.
Proof.
  unfold visit_list. intros H. assert (H' : In c (rev (filter (hmatch p) view))).
  { destruct dedup; [|exact H]. apply (proj2 (dedup_first_spec _ []) c H). }
  apply in_rev in H'. apply filter_In in H'. exact H'.
Qed.

(* ---- the headline statements, over the composed model ---- *)
Section Headlines.
  Variables (pre : list op) (mid : list ev) (p : bytes) (w : list step).
  Hypothesis Hb : (N.of_nat (length pre) + N.of_nat (length mid) + N.of_nat (evcount w) + 2 < two63)%N.

  Lemma walk_back_newest_first k :
    map snd w = repeat MPrev k -> (k <= length (filter (hmatch p) (session_view pre mid)))%nat ->
    scenario pre mid p false w
    = map OCmd (firstn k (rev (filter (hmatch p) (session_view pre mid)))).
  Proof. intros Hw Hk. rewrite scenario_refines_spec, Hw by exact Hb. apply pos_walk_back.
    unfold visit_list. rewrite rev_length. exact Hk. Qed.

  Lemma walk_back_dedup k :
    map snd w = repeat MPrev k ->
    (k <= length (dedup_first [] (rev (filter (hmatch p) (session_view pre mid)))))%nat ->
    scenario pre mid p true w
    = map OCmd (firstn k (dedup_first [] (rev (filter (hmatch p) (session_view pre mid))))).
  Proof. intros Hw Hk. rewrite scenario_refines_spec, Hw by exact Hb. apply pos_walk_back. exact Hk. Qed.

  Lemma forward_retraces dedup k j :
    map snd w = repeat MPrev k ++ repeat MNext j ->
    (1 <= k <= length (visit_list (session_view pre mid) p dedup))%nat -> (j <= k)%nat ->
    scenario pre mid p dedup w
    = map OCmd (firstn k (visit_list (session_view pre mid) p dedup))
      ++ firstn j (map OCmd (rev (firstn (k - 1) (visit_list (session_view pre mid) p dedup))) ++ [OEnd]).
  Proof. intros Hw Hk Hj. rewrite scenario_refines_spec, Hw by exact Hb. apply pos_back_then_fwd; assumption. Qed.

  Lemma end_of_history_both_ends dedup j :
    (map snd w = repeat MPrev (length (visit_list (session_view pre mid) p dedup) + j) ->
     scenario pre mid p dedup w
     = map OCmd (visit_list (session_view pre mid) p dedup) ++ repeat OEnd j)
    /\ (map snd w = repeat MNext j -> scenario pre mid p dedup w = repeat OEnd j).
  Proof. split; intros Hw; rewrite scenario_refines_spec, Hw by exact Hb;
    [apply pos_back_past_end|apply pos_stay_top]. Qed.

  Lemma concurrent_adds_invisible dedup c :
    In (OCmd c) (scenario pre mid p dedup w) -> In c (session_view pre mid) /\ hmatch p c = true.
  Proof. rewrite scenario_refines_spec by exact Hb. intros H. apply pos_run_in in H.
    apply visit_list_in in H. exact H. Qed.
End Headlines.
