(* C02 — specification, soundness of the oracle check_C02, and the
   definition-level theorems about the Partial flag and isSyntaxComplete. *)
From verif Require Import lib.Base lib.Utf8 model.C01_Parse model.C02.
From Coq Require Import Arith Lia.
Open Scope nat_scope.

(* The property on the observations: [full] are the errors of the whole text,
   [pre] the observations of its proper rune-boundary prefixes. *)
Definition Spec_C02 (src : bytes) (full : list perr) (pre : list pobs) : Prop :=
  (* every error marked partial starts at the very end of the input *)
  (forall e, In e full -> e_partial e = true -> e_from e = length src)
  /\ (forall o, In o pre -> forall e, In e (p_errs o) -> e_partial e = true -> e_from e = p_len o)
  (* for a valid program: each prefix has only partial errors, and when it has
     one, Enter inserts a newline instead of submitting *)
  /\ (full = [] -> forall o, In o pre ->
        (forall e, In e (p_errs o) -> e_partial e = true)
        /\ (p_errs o <> [] -> p_complete o = false)).

Lemma partial_at_end_sound len es :
  partial_at_end len es = true -> forall e, In e es -> e_partial e = true -> e_from e = len.
Proof.
  unfold partial_at_end. intros H e Hin Hp. rewrite forallb_forall in H.
  specialize (H e Hin). rewrite Hp in H. cbn in H. now apply Nat.eqb_eq.
Qed.

Lemma check_C02_sound src full pre : check_C02 src full pre = true -> Spec_C02 src full pre.
Proof.
  unfold check_C02, Spec_C02. intros H.
  apply andb_true_iff in H as [H Hv]. apply andb_true_iff in H as [Hf Hp].
  split; [now apply partial_at_end_sound|]. split.
  - intros o Ho. rewrite forallb_forall in Hp. specialize (Hp o Ho). now apply partial_at_end_sound.
  - intros -> o Ho. rewrite forallb_forall in Hv. specialize (Hv o Ho).
    unfold prefix_ok in Hv. apply andb_true_iff in Hv as [A B]. split.
    + intros e He. rewrite forallb_forall in A. now apply A.
    + intros Hne. destruct (p_errs o); [congruence|]. now apply negb_true_iff in B.
Qed.

(* ---- the model: Partial is "From = len(src)", for every text ---- *)
Lemma report_partial_iff src ps e :
  In e (report src ps) -> (e_partial e = true <-> e_from e = length src).
Proof.
  unfold report. intros H. apply in_map_iff in H as [[[f t] cd] [<- _]].
  cbn. unfold n. apply Nat.eqb_eq.
Qed.

Lemma partial_iff_at_end is_print src fuel t es :
  parse_fuel is_print src fuel = Some (t, es) ->
  forall e, In e es -> (e_partial e = true <-> e_from e = length src).
Proof.
  unfold parse_fuel. destruct (cChunk _) as [[t0 ps]|]; [|discriminate].
  intros H; inversion H; subst. intros e. apply report_partial_iff.
Qed.

(* isSyntaxComplete says "submit" exactly when no error is partial *)
Lemma enter_agrees is_print src fuel t es :
  parse_fuel is_print src fuel = Some (t, es) ->
  (isSyntaxComplete src es = false <-> exists e, In e es /\ e_partial e = true).
Proof.
  intros H. pose proof (partial_iff_at_end _ _ _ _ _ H) as P.
  unfold isSyntaxComplete. split.
  - intros Hc. destruct (existsb (fun e => Nat.eqb (e_from e) (length src)) es) eqn:Ex.
    + apply existsb_exists in Ex as [e [Hin He]]. exists e. split; auto.
      apply P; auto. now apply Nat.eqb_eq.
    + exfalso. assert (forallb (fun e => negb (Nat.eqb (e_from e) (length src))) es = true); [|congruence].
      apply forallb_forall. intros e Hin. apply negb_true_iff.
      destruct (Nat.eqb (e_from e) (length src)) eqn:Eq; auto.
      assert (existsb (fun e => Nat.eqb (e_from e) (length src)) es = true); [|congruence].
      apply existsb_exists. eauto.
  - intros [e [Hin Hp]]. apply P in Hp; auto.
    destruct (forallb _ es) eqn:Fa; auto. rewrite forallb_forall in Fa.
    specialize (Fa e Hin). rewrite Hp, Nat.eqb_refl in Fa. discriminate.
Qed.

(* every partial error of the model points at the end of the text *)
Lemma partial_errors_point_at_eof is_print src fuel t es :
  parse_fuel is_print src fuel = Some (t, es) ->
  partial_at_end (length src) es = true.
Proof.
  intros H. unfold partial_at_end. apply forallb_forall. intros e Hin.
  destruct (e_partial e) eqn:Ep; cbn; auto.
  apply Nat.eqb_eq. eapply partial_iff_at_end; eauto.
Qed.
