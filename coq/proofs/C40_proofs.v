(* C40 -- the resource ledger is balanced on every exit path. *)
From verif Require Import lib.Base model.C42_Ports model.C40.
From Coq Require Import ZifyBool ZifyNat.
Open Scope nat_scope.

(* ---------------------------------------------------------------- the oracle *)
Definition Spec_C40 (c : case) : Prop :=
  (c_fd_growth c <= 0)%Z /\ (c_gor_growth c <= 0)%Z /\ c_out c <> OCrash.

Lemma check_C40_sound : forall c, check_C40 c = true -> Spec_C40 c.
Proof.
  intros c H. unfold check_C40 in H.
  apply andb_true_iff in H as [H H3]. apply andb_true_iff in H as [H1 H2].
  repeat split; try lia.
  intros E. rewrite E in H3. discriminate.
Qed.
