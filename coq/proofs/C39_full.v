(* C39 -- proofs, part 4: serializability of self-contained evaluations.
   Every complete interleaving has exactly the observation of a serial
   schedule (the threads one after the other, in commit order). *)
From verif Require Import lib.Base model.C39 proofs.C39_proofs proofs.C39_serial proofs.C39_disjoint.
Open Scope N_scope.

(* ------------------------------------------------------------------ *)
(* 1. the code of a self-contained program does not depend on the namespace *)

Definition own_xs (t : N) (p : list stmt) : list op :=
  match compile t 0 [] p with Some (_, _, xs) => xs | None => [] end.

Lemma compile_indep p : forall t k g1 g2 dom,
  static_ok dom p = true ->
  (forall x, memN x dom = true -> ns_lookup x g1 = ns_lookup x g2 /\ ns_lookup x g1 <> None) ->
  exists g1' g2' fr xs,
    compile t k g1 p = Some (g1', fr, xs) /\ compile t k g2 p = Some (g2', fr, xs).
Proof.
  induction p as [|s r IH]; intros t k g1 g2 dom Hs Hd; simpl in Hs |- *.
  - exists g1, g2, [], []. auto.
  - destruct s as [x v|x v|x|m].
    + destruct (IH t (k + 1) (ns_bind x (t, k) g1) (ns_bind x (t, k) g2) (x :: dom) Hs)
        as (a & b & fr & xs & H1 & H2).
      { intros y Hy. rewrite !ns_lookup_bind. simpl in Hy.
        destruct (y =? x); [split; [reflexivity|discriminate]|apply Hd; exact Hy]. }
      rewrite H1, H2. eauto 8.
    + destruct (memN x dom) eqn:Hm; [|discriminate].
      destruct (Hd x Hm) as [He Hn]. rewrite <- He.
      destruct (ns_lookup x g1) as [s|]; [|congruence].
      destruct (IH t k g1 g2 dom Hs Hd) as (a & b & fr & xs & H1 & H2).
      rewrite H1, H2. eauto 8.
    + destruct (memN x dom) eqn:Hm; [|discriminate].
      destruct (Hd x Hm) as [He Hn]. rewrite <- He.
      destruct (ns_lookup x g1) as [s|]; [|congruence].
      destruct (IH t k g1 g2 dom Hs Hd) as (a & b & fr & xs & H1 & H2).
      rewrite H1, H2. eauto 8.
    + destruct (IH t k g1 g2 dom Hs Hd) as (a & b & fr & xs & H1 & H2).
      rewrite H1, H2. eauto 8.
Qed.

Lemma compile_self_contained t p g :
  static_ok [] p = true -> exists g' fr, compile t 0 g p = Some (g', fr, own_xs t p).
Proof.
  intros Hs. destruct (compile_indep p t 0 g [] [] Hs) as (a & b & fr & xs & H1 & H2).
  { intros x Hx. discriminate. }
  unfold own_xs. rewrite H2. eauto.
Qed.

Lemma compile_length p : forall t k g g' fr xs,
  compile t k g p = Some (g', fr, xs) -> length xs = length p.
Proof.
  induction p as [|s r IH]; intros t k g g' fr xs H; simpl in H.
  - inversion H; reflexivity.
  - destruct s as [x v|x v|x|m].
    + destruct (compile t (k + 1) (ns_bind x (t, k) g) r) as [[[g1 f1] x1]|] eqn:E; [|discriminate].
      inversion H; subst. simpl. f_equal. eapply IH; eauto.
    + destruct (ns_lookup x g); [|discriminate].
      destruct (compile t k g r) as [[[g1 f1] x1]|] eqn:E; [|discriminate].
      inversion H; subst. simpl. f_equal. eapply IH; eauto.
    + destruct (ns_lookup x g); [|discriminate].
      destruct (compile t k g r) as [[[g1 f1] x1]|] eqn:E; [|discriminate].
      inversion H; subst. simpl. f_equal. eapply IH; eauto.
    + destruct (compile t k g r) as [[[g1 f1] x1]|] eqn:E; [|discriminate].
      inversion H; subst. simpl. f_equal. eapply IH; eauto.
Qed.

(* ------------------------------------------------------------------ *)
(* 2. the private computation of a thread is the same in every interleaving *)

Definition is_acc (o : op) : bool := match o with OSet _ _ | OGet _ => true | _ => false end.

(* the variable accesses thread t still has to make *)
Fixpoint pending (t : N) (ops : list op) : list op :=
  match ops with
  | [] => []
  | OCompile p :: _ => filter is_acc (own_xs t p)   (* the step replaces the whole continuation *)
  | OSet s v :: r => OSet s v :: pending t r
  | OGet s :: r => OGet s :: pending t r
  | _ :: r => pending t r
  end.

Fixpoint exec_own (ops : list op) (log : list (slot * N)) (outs : list N) : list (slot * N) * list N :=
  match ops with
  | [] => (log, outs)
  | OSet s v :: r => exec_own r ((s, v) :: log) outs
  | OGet s :: r => exec_own r log (store_get s log :: outs)
  | _ :: r => exec_own r log outs
  end.

Definition mine (t : N) (st : list (slot * N)) : list (slot * N) :=
  filter (fun sv => fst (fst sv) =? t) st.

(* where the private computation of thread t will end, seen from c *)
Definition G (t : N) (c : config) : list (slot * N) * list N :=
  exec_own (pending t (t_ops (c_thr c t))) (mine t (c_store c)) (t_outs (c_thr c t)).

Lemma pending_plain t xs : Forall plain_op xs -> pending t xs = filter is_acc xs.
Proof.
  induction 1 as [|o r Ho _ IH]; simpl; [reflexivity|].
  destruct o; simpl in Ho; try contradiction; simpl; rewrite IH; reflexivity.
Qed.

Lemma store_get_mine s st : store_get s (mine (fst s) st) = store_get s st.
Proof.
  induction st as [|[s' v] r IH]; simpl; [reflexivity|].
  destruct (fst s' =? fst s) eqn:E; simpl.
  - destruct (slot_eqb s s'); [reflexivity|exact IH].
  - destruct (slot_eqb s s') eqn:E2; [|exact IH].
    apply slot_eqb_eq in E2. subst s'. rewrite N.eqb_refl in E. discriminate.
Qed.

Lemma exec_own_filter xs : forall log outs,
  exec_own (filter is_acc xs) log outs = exec_own xs log outs.
Proof.
  induction xs as [|o r IH]; intros log outs; simpl; [reflexivity|].
  destruct o; simpl; apply IH.
Qed.

(* one step of any thread leaves every G unchanged *)
Lemma step_G c t : Inv4 c -> forall u, G u (step c t) = G u c.
Proof.
  intros (Hops & _). unfold step.
  destruct (step_opt c t) as [c'|] eqn:Hs; [|reflexivity].
  unfold step_opt in Hs. pose proof (Hops t) as Ht.
  destruct (t_ops (c_thr c t)) as [|o r] eqn:Hop; [discriminate|].
  apply Forall_cons_iff in Ht as [Ho Hr].
  (* a step that changes only thread t, keeping store and outputs, and whose
     new operations have the same pending accesses *)
  assert (Hsame : forall th' c'',
            c_thr c'' = upd (c_thr c) t th' -> c_store c'' = c_store c ->
            t_outs th' = t_outs (c_thr c t) ->
            pending t (t_ops th') = pending t (o :: r) ->
            forall u, G u c'' = G u c).
  { intros th' c'' Hthr Hst Hout Hp u. unfold G. rewrite Hthr, Hst. destruct (N.eq_dec u t) as [->|Hn].
    - rewrite upd_same, Hop, Hp, Hout. reflexivity.
    - rewrite upd_other by exact Hn. reflexivity. }
  destruct o; simpl in Ho.
  - destruct (c_w c); [discriminate|]. destruct (c_r c); [|discriminate]. inv_some.
    eapply Hsame; simpl; eauto.
  - destruct (c_w c) as [x|]; [|discriminate]. destruct (x =? t); [|discriminate]. inv_some.
    eapply Hsame; simpl; eauto.
  - destruct (c_w c); [discriminate|]. inv_some. eapply Hsame; simpl; eauto.
  - inv_some. eapply Hsame; simpl; eauto.
  - inv_some. eapply Hsame; simpl; eauto.
  - inv_some. eapply Hsame; simpl; eauto.
  - (* OCompile *)
    destruct (compile_self_contained t p (t_snap (c_thr c t)) Ho) as (g' & fr & Hc).
    rewrite Hc in Hs. inv_some.
    assert (Hpl : Forall plain_op (own_xs t p)) by (eapply compile_plain; eauto).
    eapply Hsame; [reflexivity|reflexivity|reflexivity|].
    change (pending t (own_xs t p) = filter is_acc (own_xs t p)). apply pending_plain. exact Hpl.
  - inv_some. eapply Hsame; simpl; eauto.
  - (* OCheck *)
    destruct (compile t 0 (t_snap (c_thr c t)) p); inv_some; eapply Hsame; simpl; eauto.
  - inv_some. eapply Hsame; simpl; eauto.
  - (* OSet *)
    inv_some. intros u. unfold G. simpl. destruct (N.eq_dec u (fst s)) as [->|Hn].
    + rewrite upd_same, Hop. simpl. rewrite N.eqb_refl. reflexivity.
    + rewrite upd_other by exact Hn.
      destruct (fst s =? u) eqn:E; [apply N.eqb_eq in E; congruence|reflexivity].
  - (* OGet *)
    inv_some. intros u. unfold G. simpl. destruct (N.eq_dec u (fst s)) as [->|Hn].
    + rewrite upd_same, Hop. simpl. rewrite store_get_mine. reflexivity.
    + rewrite upd_other by exact Hn. reflexivity.
  - destruct (memN m (c_mods c)); inv_some; eapply Hsame; simpl; eauto.
  - inv_some. eapply Hsame; simpl; eauto.
  - inv_some. eapply Hsame; simpl; eauto.
Qed.

Lemma run_G sched : forall c, Inv4 c -> forall u, G u (run sched c) = G u c.
Proof.
  induction sched as [|t r IH]; intros c H4 u; simpl; [reflexivity|].
  rewrite (IH (step c t) (step_Inv4 c t H4)). apply step_G. exact H4.
Qed.

(* ------------------------------------------------------------------ *)
(* 3. a finished self-contained evaluation has committed *)

Definition Inv5 (P : N -> option (list stmt)) (c : config) : Prop :=
  forall t p, P t = Some p -> Forall quiet (t_ops (c_thr c t)) -> In t (c_commits c).

Ltac notquiet H :=
  repeat (apply Forall_cons_iff in H as [? H]); simpl in *; contradiction.

Lemma step_Inv5 P g0 c t : Inv3 P g0 c -> Inv4 c -> Inv5 P c -> Inv5 P (step c t).
Proof.
  intros (Hph & _) (Hown & _) H5 u p Hp Hq. unfold step in *.
  destruct (step_opt c t) as [c'|] eqn:Hs; [|apply (H5 u p Hp Hq)].
  destruct (step_shared c t c' Hs) as (Hthr & _ & Hsh).
  assert (Hmono : forall x, In x (c_commits c) -> In x (c_commits c')).
  { intros x Hx. destruct Hsh as [[_ E]|(g' & fr & r & _ & _ & E)]; rewrite E; [exact Hx|right; exact Hx]. }
  destruct (N.eq_dec u t) as [->|Hne].
  2:{ rewrite (Hthr u Hne) in Hq. apply Hmono. apply (H5 u p Hp Hq). }
  pose proof (Hph t) as Ht. pose proof (Hown t) as Ho.
  unfold step_opt in Hs.
  remember (t_ops (c_thr c t)) as tops eqn:Htops.
  inversion Ht as [p0 Hp0 Hn Hops|p0 Hl Hp0 Hn Hops|p0 Hl Hp0 Hn Hops|p0 Hl Hp0 Hn Hsn Hops
                   |p0 g' fr xs Hl Hp0 Hn Hcm Hops|ops Hqo Hops]; try rewrite <- Hops in Hs.
  - destruct (c_w c); [discriminate|]. destruct (c_r c); [|discriminate]. inv_some.
    simpl in Hq. rewrite upd_same in Hq. simpl in Hq. notquiet Hq.
  - inv_some. simpl in Hq. rewrite upd_same in Hq. simpl in Hq. notquiet Hq.
  - inv_some. simpl in Hq. rewrite upd_same in Hq. simpl in Hq. notquiet Hq.
  - rewrite <- Hops in Ho. apply Forall_cons_iff in Ho as [Ho _]. simpl in Ho.
    destruct (compile_self_contained t p0 (t_snap (c_thr c t)) Ho) as (g' & fr & Hc).
    rewrite Hc in Hs. inv_some. simpl in Hq. rewrite upd_same in Hq. simpl in Hq. notquiet Hq.
  - inv_some. simpl. left; reflexivity.
  - subst ops. apply Hmono. apply (H5 t p Hp). rewrite <- Htops. exact Hqo.
Qed.

(* ------------------------------------------------------------------ *)
(* 3b. a Check linearizes at its snapshot: what it compiled against is the
   namespace produced by the evaluations that precede it in the
   linearization order *)

Definition check_prog (js : list job) (t : N) : option (list stmt) :=
  match nth_error js (N.to_nat t) with Some (JCheck p) => Some p | _ => None end.

Fixpoint before (t : N) (l : list N) : list N :=
  match l with [] => [] | x :: r => if x =? t then [] else x :: before t r end.

Lemma before_app_in t l x : In t l -> before t (l ++ x) = before t l.
Proof.
  induction l as [|y r IH]; simpl; [intros []|]. intros H.
  destruct (y =? t) eqn:E; [reflexivity|]. f_equal. apply IH.
  destruct H as [H|H]; [subst; rewrite N.eqb_refl in E; discriminate|exact H].
Qed.

Lemma before_app_notin t l : ~ In t l -> before t (l ++ [t]) = l.
Proof.
  induction l as [|y r IH]; simpl; intros H; [rewrite N.eqb_refl; reflexivity|].
  destruct (y =? t) eqn:E; [apply N.eqb_eq in E; subst; exfalso; apply H; left; reflexivity|].
  f_equal. apply IH. intros Hin. apply H. right; exact Hin.
Qed.

Definition is_some {A} (o : option A) : bool := match o with Some _ => true | None => false end.
Definition is_none {A} (o : option A) : bool := match o with Some _ => false | None => true end.

Lemma ns_after_filter P l : forall g,
  ns_after P (filter (fun t => is_some (P t)) l) g = ns_after P l g.
Proof.
  unfold ns_after. induction l as [|x r IH]; intros g; simpl; [reflexivity|].
  destruct (P x) eqn:E; simpl; [rewrite E|]; apply IH.
Qed.

Lemma filter_rev_N (f : N -> bool) l : filter f (rev l) = rev (filter f l).
Proof.
  induction l as [|x r IH]; simpl; [reflexivity|].
  rewrite filter_app, IH. simpl. destruct (f x); simpl; [reflexivity|apply app_nil_r].
Qed.

Definition nocheck (o : op) : Prop := match o with OCheck _ | ORdGlobalC => False | _ => True end.
Definition prelock (o : op) : Prop := match o with OLockR | ORdBuiltin => True | _ => False end.
Definition postop (o : op) : Prop := match o with OUnlockR | ORdModKeys => True | _ => False end.

Lemma plain_nocheck xs : Forall plain_op xs -> Forall nocheck xs.
Proof. intros H. eapply Forall_impl; [|exact H]. intros o Ho. destruct o; simpl in *; auto. Qed.

(* what a step does to the linearization order *)
Lemma step_lin c t c' :
  step_opt c t = Some c' ->
  exists o r, t_ops (c_thr c t) = o :: r
    /\ c_lin c' = (match o with OWrGlobal _ _ | ORdGlobalC => t :: c_lin c | _ => c_lin c end)
    /\ (forall u, u <> t -> c_thr c' u = c_thr c u).
Proof.
  unfold step_opt. destruct (t_ops (c_thr c t)) as [|o r] eqn:Hops; [discriminate|].
  intros Hs. exists o, r. split; [reflexivity|].
  destruct o;
    repeat match type of Hs with
           | context [match ?x with _ => _ end] => destruct x eqn:?; try discriminate
           end;
    inv_some; simpl; (split; [reflexivity|intros; apply upd_other; assumption]).
Qed.

Section Checks.
Variable P Q : N -> option (list stmt).
Variable g0 : ns.
Hypothesis PQ : forall t, Q t <> None -> P t = None.

Definition snap_ok (c : config) (t : N) : Prop :=
  In t (c_lin c) /\ t_snap (c_thr c t) = ns_after P (before t (rev (c_lin c))) g0.

Inductive cphase (c : config) (t : N) : list op -> Prop :=
| ChPre p pre : Q t = Some p -> Forall prelock pre -> ~ In t (c_lin c) -> t_err (c_thr c t) = false ->
    cphase c t (pre ++ [ORdGlobalC; OUnlockR; ORdModKeys; OCheck p])
| ChPost p mid : Q t = Some p -> Forall postop mid -> snap_ok c t -> t_err (c_thr c t) = false ->
    cphase c t (mid ++ [OCheck p])
| ChDone p : Q t = Some p -> snap_ok c t ->
    t_err (c_thr c t) = is_none (compile t 0 (t_snap (c_thr c t)) p) ->
    cphase c t []
| ChOther ops : Q t = None -> Forall nocheck ops -> t_err (c_thr c t) = false -> cphase c t ops.

Definition Inv7 (c : config) : Prop :=
  (forall t, cphase c t (t_ops (c_thr c t)))
  /\ c_commits c = filter (fun t => is_some (P t)) (c_lin c)
  /\ NoDup (c_lin c)
  /\ (forall t, In t (c_lin c) -> P t <> None \/ Q t <> None).

Lemma snap_ok_frame c c' u x :
  snap_ok c u -> (c_lin c' = c_lin c \/ c_lin c' = x :: c_lin c) ->
  t_snap (c_thr c' u) = t_snap (c_thr c u) -> snap_ok c' u.
Proof.
  intros [Hin Hs] [E|E] Ht; unfold snap_ok; rewrite E, Ht.
  - split; assumption.
  - split; [right; exact Hin|]. simpl. rewrite before_app_in by (apply -> in_rev; exact Hin). exact Hs.
Qed.

Lemma cphase_frame c c' u x ops :
  cphase c u ops -> (c_lin c' = c_lin c \/ (c_lin c' = x :: c_lin c /\ x <> u)) ->
  c_thr c' u = c_thr c u -> cphase c' u ops.
Proof.
  intros Hph Hl Ht.
  assert (Hl' : c_lin c' = c_lin c \/ c_lin c' = x :: c_lin c) by (destruct Hl as [E|[E _]]; auto).
  destruct Hph as [p pre Hq Hpre Hn He|p mid Hq Hmid Hs He|p Hq Hs He|ops Hq Hn He].
  - apply ChPre; auto; [|rewrite Ht; exact He].
    destruct Hl as [E|[E Hx]]; rewrite E; [exact Hn|]. intros [H|H]; [congruence|exact (Hn H)].
  - apply ChPost; auto; [|rewrite Ht; exact He]. eapply snap_ok_frame; eauto. rewrite Ht; reflexivity.
  - eapply ChDone; eauto; [eapply snap_ok_frame; eauto; rewrite Ht; reflexivity|]. rewrite Ht. exact He.
  - apply ChOther; auto. rewrite Ht. exact He.
Qed.

(* a step of a thread that is not a Check keeps it so *)
Lemma step_other c t c' o r :
  step_opt c t = Some c' -> t_ops (c_thr c t) = o :: r ->
  nocheck o -> (forall p, o = OCompile p -> static_ok [] p = true) -> Forall nocheck r ->
  Forall nocheck (t_ops (c_thr c' t)) /\ t_err (c_thr c' t) = t_err (c_thr c t).
Proof.
  unfold step_opt. intros Hs Hops Hn Hc Hr. rewrite Hops in Hs.
  destruct o; simpl in Hn; try contradiction;
    try (destruct (compile_self_contained t p (t_snap (c_thr c t)) (Hc p eq_refl)) as (g' & fr & Hcc);
         rewrite Hcc in Hs; inv_some; simpl; rewrite upd_same; simpl; split; [|reflexivity];
         constructor; [exact I|constructor; [exact I|]]; apply plain_nocheck; eapply compile_plain; eauto);
    repeat match type of Hs with
           | context [match ?x with _ => _ end] => destruct x eqn:?; try discriminate
           end;
    inv_some; simpl; rewrite upd_same; simpl; (split; [|reflexivity]);
    try exact Hr; constructor; [exact I|exact Hr].
Qed.

Lemma step_Inv7 c t : Inv3 P g0 c -> Inv4 c -> Inv7 c -> Inv7 (step c t).
Proof.
  intros (Hph3 & Hg3 & Hnd3 & _) (Hown & _) (Hcp & Hcm & Hnd & Hpq). unfold step.
  destruct (step_opt c t) as [c'|] eqn:Hs; [|repeat split; assumption].
  destruct (step_lin c t c' Hs) as (o & r & Hops & Hlin & Hthr).
  destruct (step_shared c t c' Hs) as (_ & _ & Hsh).
  pose proof (Hcp t) as Ht. rewrite Hops in Ht.
  (* the other threads *)
  assert (Hothers : forall u, u <> t -> cphase c' u (t_ops (c_thr c' u))).
  { intros u Hne. rewrite (Hthr u Hne). apply (cphase_frame c c' u t); [apply Hcp| |apply Hthr; exact Hne].
    rewrite Hlin. destruct o; auto. }
  (* the current namespace is the one produced by the whole order so far *)
  assert (Hglob : c_global c = ns_after P (rev (c_lin c)) g0).
  { rewrite Hg3, Hcm, <- filter_rev_N. apply ns_after_filter. }
  (* the head operation decides *)
  assert (Hcases :
    (* ordinary operation *)
    (nocheck o /\ (forall g fr, o <> OWrGlobal g fr)) \/ (exists g fr, o = OWrGlobal g fr) \/ ~ nocheck o)
    by (destruct o; simpl; auto; try (left; split; [exact I|intros; discriminate]); right; left; eauto).
  destruct Hcases as [[Hno Hnw]|[(g & fr & ->)|Hck]].
  - (* lin and commits unchanged *)
    assert (El : c_lin c' = c_lin c) by (rewrite Hlin; destruct o; try reflexivity; [exfalso; eapply Hnw; eauto|contradiction]).
    assert (Ec : c_commits c' = c_commits c).
    { destruct Hsh as [[_ E]|(g & fr & r' & E & _)]; [exact E|]. rewrite Hops in E. inversion E; subst. exfalso; eapply Hnw; eauto. }
    split; [|rewrite El, Ec; repeat split; assumption].
    intros u. destruct (N.eq_dec u t) as [->|Hne]; [|apply Hothers; exact Hne].
    (* thread t: by its phase *)
    inversion Ht as [p pre Hq Hpre Hn He Hl|p mid Hq Hmid Hso He Hl|p Hq Hso He Hl|ops Hq Hnc He Hl].
    + (* before the snapshot: the head is OLockR or ORdBuiltin *)
      destruct pre as [|o' pre']; simpl in Hl; inversion Hl; subst; [simpl in Hno; contradiction|].
      apply Forall_cons_iff in Hpre as [Ho' Hpre'].
      unfold step_opt in Hs. rewrite Hops in Hs.
      destruct o; simpl in Ho'; try contradiction.
      * destruct (c_w c); [discriminate|]. inv_some. simpl. rewrite upd_same. simpl.
        apply ChPre; auto. simpl. rewrite upd_same. exact He.
      * inv_some. simpl. rewrite upd_same. simpl.
        apply ChPre; auto. simpl. rewrite upd_same. exact He.
    + (* after the snapshot *)
      destruct mid as [|o' mid']; simpl in Hl; inversion Hl; subst.
      * (* OCheck *)
        unfold step_opt in Hs. rewrite Hops in Hs.
        destruct (compile t 0 (t_snap (c_thr c t)) p) eqn:Hc; inv_some; simpl; rewrite upd_same; simpl.
        -- eapply (ChDone _ t p); auto.
           ++ eapply (snap_ok_frame c _ t t); eauto. simpl. rewrite upd_same. reflexivity.
           ++ simpl. rewrite upd_same. simpl. rewrite Hc. exact He.
        -- eapply (ChDone _ t p); auto.
           ++ eapply (snap_ok_frame c _ t t); eauto. simpl. rewrite upd_same. reflexivity.
           ++ simpl. rewrite upd_same. simpl. rewrite Hc. reflexivity.
      * apply Forall_cons_iff in Hmid as [Ho' Hmid'].
        unfold step_opt in Hs. rewrite Hops in Hs.
        destruct o; simpl in Ho'; try contradiction; inv_some; simpl; rewrite upd_same; simpl.
        -- apply ChPost; auto; [eapply (snap_ok_frame c _ t t); eauto; simpl; rewrite upd_same; reflexivity|].
           simpl. rewrite upd_same. exact He.
        -- apply ChPost; auto; [eapply (snap_ok_frame c _ t t); eauto; simpl; rewrite upd_same; reflexivity|].
           simpl. rewrite upd_same. exact He.
    + (* not a Check *)
      subst ops. apply Forall_cons_iff in Hnc as [_ Hr].
      destruct (step_other c t c' o r Hs Hops Hno) as [Hn' He']; [|exact Hr|].
      { intros p0 ->. pose proof (Hown t) as Hw. rewrite Hops in Hw.
        apply Forall_cons_iff in Hw as [Hw _]. exact Hw. }
      apply ChOther; auto. rewrite He'. exact He.
  - (* OWrGlobal: an evaluation commits *)
    assert (Hp : exists p, P t = Some p /\ ~ In t (c_commits c)).
    { pose proof (Hph3 t) as H3. rewrite Hops in H3.
      inversion H3 as [| | | |p g1 f1 xs Hl Hp Hn _|ops Hq]; subst; [eauto|].
      apply Forall_cons_iff in Hq as [Hq _]. destruct Hq. }
    destruct Hp as (p & Hp & Hnc).
    assert (El : c_lin c' = t :: c_lin c) by (rewrite Hlin; reflexivity).
    assert (Ec : c_commits c' = t :: c_commits c).
    { destruct Hsh as [[_ E]|(g1 & f1 & r' & _ & _ & E)]; [|exact E].
      unfold step_opt in Hs. rewrite Hops in Hs. inv_some. reflexivity. }
    assert (Hnl : ~ In t (c_lin c)).
    { intros Hin. apply Hnc. rewrite Hcm. apply filter_In. split; [exact Hin|]. rewrite Hp. reflexivity. }
    split; [|split; [|split]].
    + intros u. destruct (N.eq_dec u t) as [->|Hne]; [|apply Hothers; exact Hne].
      inversion Ht as [p' pre Hq Hpre Hn He Hl|p' mid Hq Hmid Hso He Hl|p' Hq Hso He Hl|ops Hq Hnc' He Hl].
      * destruct pre as [|o' pre']; simpl in Hl; inversion Hl; subst.
        apply Forall_cons_iff in Hpre as [Ho' _]. destruct Ho'.
      * destruct mid as [|o' mid']; simpl in Hl; inversion Hl; subst.
        apply Forall_cons_iff in Hmid as [Ho' _]. destruct Ho'.
      * subst ops. apply Forall_cons_iff in Hnc' as [_ Hr].
        destruct (step_other c t c' _ r Hs Hops I) as [Hn' He']; [intros; discriminate|exact Hr|].
        apply ChOther; auto. rewrite He'. exact He.
    + rewrite El, Ec. simpl. rewrite Hp. simpl. f_equal. exact Hcm.
    + rewrite El. constructor; assumption.
    + rewrite El. intros u [<-|Hin]; [left; congruence|apply Hpq; exact Hin].
  - (* OCheck or ORdGlobalC: thread t is a Check *)
    inversion Ht as [p pre Hq Hpre Hn He Hl|p mid Hq Hmid Hso He Hl|p Hq Hso He Hl|ops Hq Hnc He Hl].
    + destruct pre as [|o' pre']; simpl in Hl.
      2:{ inversion Hl as [[E1 E2]]. apply Forall_cons_iff in Hpre as [Ho' _]. rewrite E1 in Ho'.
          exfalso. apply Hck. destruct o; simpl in Ho'; try contradiction; exact I. }
      inversion Hl; subst.
      (* the snapshot *)
      assert (El : c_lin c' = t :: c_lin c) by (rewrite Hlin; reflexivity).
      assert (Ec : c_commits c' = c_commits c).
      { destruct Hsh as [[_ E]|(g & fr & r' & E & _)]; [exact E|]. rewrite Hops in E. discriminate. }
      assert (Hpt : P t = None) by (apply PQ; congruence).
      split; [|split; [|split]].
      * intros u. destruct (N.eq_dec u t) as [->|Hne]; [|apply Hothers; exact Hne].
        unfold step_opt in Hs. rewrite Hops in Hs. inv_some. simpl. rewrite upd_same. simpl.
        apply (ChPost _ t p [OUnlockR; ORdModKeys]); auto.
        -- repeat constructor.
        -- split; [left; reflexivity|]. simpl. rewrite upd_same. simpl.
           rewrite before_app_notin by (intros Hin; apply Hn; apply in_rev; exact Hin). exact Hglob.
        -- simpl. rewrite upd_same. exact He.
      * rewrite El, Ec. simpl. rewrite Hpt. simpl. exact Hcm.
      * rewrite El. constructor; assumption.
      * rewrite El. intros u [<-|Hin]; [right; congruence|apply Hpq; exact Hin].
    + (* OCheck at the head of mid ++ [OCheck p] *)
      destruct mid as [|o' mid']; simpl in Hl.
      2:{ inversion Hl as [[E1 E2]]. apply Forall_cons_iff in Hmid as [Ho' _]. rewrite E1 in Ho'.
          exfalso. apply Hck. destruct o; simpl in Ho'; try contradiction; exact I. }
      inversion Hl; subst.
      assert (El : c_lin c' = c_lin c) by (rewrite Hlin; reflexivity).
      assert (Ec : c_commits c' = c_commits c).
      { destruct Hsh as [[_ E]|(g & fr & r' & E & _)]; [exact E|]. rewrite Hops in E. discriminate. }
      split; [|rewrite El, Ec; repeat split; assumption].
      intros u. destruct (N.eq_dec u t) as [->|Hne]; [|apply Hothers; exact Hne].
      unfold step_opt in Hs. rewrite Hops in Hs.
      destruct (compile t 0 (t_snap (c_thr c t)) p) eqn:Hc; inv_some; simpl; rewrite upd_same; simpl.
      * eapply (ChDone _ t p); auto.
        -- eapply (snap_ok_frame c _ t t); eauto. simpl. rewrite upd_same. reflexivity.
        -- simpl. rewrite upd_same. simpl. rewrite Hc. exact He.
      * eapply (ChDone _ t p); auto.
        -- eapply (snap_ok_frame c _ t t); eauto. simpl. rewrite upd_same. reflexivity.
        -- simpl. rewrite upd_same. simpl. rewrite Hc. reflexivity.
    + subst ops. apply Forall_cons_iff in Hnc as [Hno _]. contradiction.
Qed.

(* a finished thread: a Check has taken its snapshot and reports exactly
   whether its program compiles against it; any other thread has no error *)
Lemma cphase_done c t :
  cphase c t [] ->
  (exists p, Q t = Some p /\ snap_ok c t
             /\ t_err (c_thr c t) = is_none (compile t 0 (t_snap (c_thr c t)) p))
  \/ (Q t = None /\ t_err (c_thr c t) = false).
Proof.
  intros H. inversion H as [p pre Hq Hpre Hn He Hl|p mid Hq Hmid Hso He Hl|p Hq Hso He|ops Hq Hnc He].
  - destruct pre; discriminate.
  - destruct mid; discriminate.
  - left; eauto.
  - right; auto.
Qed.

End Checks.
(* ------------------------------------------------------------------ *)
(* 4. a thread running alone from the start of Eval finishes and commits *)

Fixpoint mu (ops : list op) : nat :=
  match ops with
  | [] => 0
  | OUseLookup _ :: r => 2 + mu r
  | _ :: r => 1 + mu r
  end.

Lemma run_cons t l c : run (t :: l) c = run l (step c t).
Proof. reflexivity. Qed.

Lemma run_plain_alone : forall n c t,
  Forall plain_op (t_ops (c_thr c t)) -> (mu (t_ops (c_thr c t)) <= n)%nat ->
  let c' := run (repeatN t n) c in
  t_ops (c_thr c' t) = [] /\ c_w c' = c_w c /\ c_r c' = c_r c /\ c_commits c' = c_commits c
  /\ (forall u, u <> t -> c_thr c' u = c_thr c u) /\ c_lin c' = c_lin c.
Proof.
  induction n as [|n IH]; intros c t Hpl Hmu; simpl.
  - destruct (t_ops (c_thr c t)) as [|o r] eqn:Hops; [auto 7|].
    destruct o; simpl in Hmu; lia.
  - destruct (t_ops (c_thr c t)) as [|o r] eqn:Hops.
    + assert (E : step c t = c) by (unfold step, step_opt; rewrite Hops; reflexivity).
      rewrite E. apply IH; rewrite Hops; [constructor|simpl; lia].
    + apply Forall_cons_iff in Hpl as [Ho Hr].
      assert (Hnext : forall c1 ops1,
                step c t = c1 -> t_ops (c_thr c1 t) = ops1 -> Forall plain_op ops1 ->
                (mu ops1 <= n)%nat -> c_w c1 = c_w c -> c_r c1 = c_r c ->
                c_commits c1 = c_commits c -> c_lin c1 = c_lin c -> (forall u, u <> t -> c_thr c1 u = c_thr c u) ->
                let c' := run (repeatN t n) (step c t) in
                t_ops (c_thr c' t) = [] /\ c_w c' = c_w c /\ c_r c' = c_r c
                /\ c_commits c' = c_commits c /\ (forall u, u <> t -> c_thr c' u = c_thr c u)
                /\ c_lin c' = c_lin c).
      { intros c1 ops1 E1 E2 Hp1 Hm1 Hw1 Hr1 Hc1 Hl1 Ho1. rewrite E1.
        destruct (IH c1 t) as (A & B & C & D & E & L); [rewrite E2; exact Hp1|rewrite E2; exact Hm1|].
        repeat split; try congruence. intros u Hu. rewrite (E u Hu). apply Ho1; exact Hu. }
      destruct o; simpl in Ho; try contradiction.
      * eapply Hnext; [unfold step, step_opt; rewrite Hops; reflexivity|simpl; rewrite upd_same; reflexivity
                       |exact Hr|simpl in Hmu |- *; lia|reflexivity|reflexivity|reflexivity|reflexivity|].
        intros u Hu. simpl. apply upd_other; exact Hu.
      * eapply Hnext; [unfold step, step_opt; rewrite Hops; reflexivity|simpl; rewrite upd_same; reflexivity
                       |exact Hr|simpl in Hmu |- *; lia|reflexivity|reflexivity|reflexivity|reflexivity|].
        intros u Hu. simpl. apply upd_other; exact Hu.
      * destruct (memN m (c_mods c)) eqn:Hm.
        -- eapply Hnext; [unfold step, step_opt; rewrite Hops, Hm; reflexivity|simpl; rewrite upd_same; reflexivity
                          |exact Hr|simpl in Hmu |- *; lia|reflexivity|reflexivity|reflexivity|reflexivity|].
           intros u Hu. simpl. apply upd_other; exact Hu.
        -- eapply Hnext; [unfold step, step_opt; rewrite Hops, Hm; reflexivity|simpl; rewrite upd_same; reflexivity
                          |constructor; [exact I|exact Hr]|simpl in Hmu |- *; lia|reflexivity|reflexivity|reflexivity|reflexivity|].
           intros u Hu. simpl. apply upd_other; exact Hu.
      * eapply Hnext; [unfold step, step_opt; rewrite Hops; reflexivity|simpl; rewrite upd_same; reflexivity
                       |exact Hr|simpl in Hmu |- *; lia|reflexivity|reflexivity|reflexivity|reflexivity|].
        intros u Hu. simpl. apply upd_other; exact Hu.
Qed.

Lemma mu_le xs : (mu xs <= 2 * length xs)%nat.
Proof. induction xs as [|o r IH]; simpl; [lia|]. destruct o; simpl; lia. Qed.

Definition start_ops (p : list stmt) : list op := [OLockW; ORdBuiltin; ORdGlobal; OCompile p].

Lemma solo_eval c t p n :
  t_ops (c_thr c t) = start_ops p -> static_ok [] p = true ->
  c_w c = None -> c_r c = [] -> (6 + 2 * length p <= n)%nat ->
  let c' := run (repeatN t n) c in
  t_ops (c_thr c' t) = [] /\ c_w c' = None /\ c_r c' = []
  /\ (forall u, u <> t -> c_thr c' u = c_thr c u) /\ c_commits c' = t :: c_commits c
  /\ c_lin c' = t :: c_lin c.
Proof.
  intros Hops Hs Hw Hr Hn.
  destruct (compile_self_contained t p (c_global c) Hs) as (g' & fr & Hc).
  do 6 (destruct n as [|n]; [simpl in Hn; lia|]).
  cbn [repeatN]. rewrite !run_cons.
  (* 1: Lock *)
  set (c1 := step c t).
  assert (F1 : t_ops (c_thr c1 t) = [ORdBuiltin; ORdGlobal; OCompile p] /\ c_w c1 = Some t /\ c_r c1 = []
               /\ c_commits c1 = c_commits c /\ c_global c1 = c_global c
               /\ (forall u, u <> t -> c_thr c1 u = c_thr c u) /\ c_lin c1 = c_lin c).
  { unfold c1, step, step_opt. rewrite Hops. unfold start_ops. rewrite Hw, Hr. simpl. rewrite upd_same.
    repeat split; auto. intros; apply upd_other; assumption. }
  clearbody c1. destruct F1 as (O1 & W1 & R1 & C1 & G1 & U1 & L1).
  (* 2: read ev.builtin *)
  set (c2 := step c1 t).
  assert (F2 : t_ops (c_thr c2 t) = [ORdGlobal; OCompile p] /\ c_w c2 = Some t /\ c_r c2 = []
               /\ c_commits c2 = c_commits c /\ c_global c2 = c_global c
               /\ (forall u, u <> t -> c_thr c2 u = c_thr c u) /\ c_lin c2 = c_lin c).
  { unfold c2, step, step_opt. rewrite O1. simpl. rewrite upd_same.
    repeat split; auto. intros u Hu. rewrite upd_other by exact Hu. apply U1; exact Hu. }
  clearbody c2. destruct F2 as (O2 & W2 & R2 & C2 & G2 & U2 & L2).
  (* 3: read ev.global *)
  set (c3 := step c2 t).
  assert (F3 : t_ops (c_thr c3 t) = [OCompile p] /\ t_snap (c_thr c3 t) = c_global c
               /\ c_w c3 = Some t /\ c_r c3 = []
               /\ c_commits c3 = c_commits c
               /\ (forall u, u <> t -> c_thr c3 u = c_thr c u) /\ c_lin c3 = c_lin c).
  { unfold c3, step, step_opt. rewrite O2. simpl. rewrite upd_same. simpl.
    repeat split; auto. intros u Hu. rewrite upd_other by exact Hu. apply U2; exact Hu. }
  clearbody c3. destruct F3 as (O3 & S3 & W3 & R3 & C3 & U3 & L3).
  (* 4: compile *)
  set (c4 := step c3 t).
  assert (F4 : t_ops (c_thr c4 t) = OWrGlobal g' fr :: OUnlockW :: own_xs t p
               /\ c_w c4 = Some t /\ c_r c4 = [] /\ c_commits c4 = c_commits c
               /\ (forall u, u <> t -> c_thr c4 u = c_thr c u) /\ c_lin c4 = c_lin c).
  { unfold c4, step, step_opt. rewrite O3, S3, Hc. simpl. rewrite upd_same. simpl.
    repeat split; auto. intros u Hu. rewrite upd_other by exact Hu. apply U3; exact Hu. }
  clearbody c4. destruct F4 as (O4 & W4 & R4 & C4 & U4 & L4).
  (* 5: replace ev.global *)
  set (c5 := step c4 t).
  assert (F5 : t_ops (c_thr c5 t) = OUnlockW :: own_xs t p
               /\ c_w c5 = Some t /\ c_r c5 = [] /\ c_commits c5 = t :: c_commits c
               /\ (forall u, u <> t -> c_thr c5 u = c_thr c u) /\ c_lin c5 = t :: c_lin c).
  { unfold c5, step, step_opt. rewrite O4. simpl. rewrite upd_same. simpl.
    repeat split; auto; try congruence. intros u Hu. rewrite upd_other by exact Hu. apply U4; exact Hu. }
  clearbody c5. destruct F5 as (O5 & W5 & R5 & C5 & U5 & L5).
  (* 6: unlock *)
  set (c6 := step c5 t).
  assert (F6 : t_ops (c_thr c6 t) = own_xs t p
               /\ c_w c6 = None /\ c_r c6 = [] /\ c_commits c6 = t :: c_commits c
               /\ (forall u, u <> t -> c_thr c6 u = c_thr c u) /\ c_lin c6 = t :: c_lin c).
  { unfold c6, step, step_opt. rewrite O5, W5, N.eqb_refl. simpl. rewrite upd_same. simpl.
    repeat split; auto. intros u Hu. rewrite upd_other by exact Hu. apply U5; exact Hu. }
  clearbody c6. destruct F6 as (O6 & W6 & R6 & C6 & U6 & L6).
  (* the rest: plain operations *)
  assert (Hlen : length (own_xs t p) = length p) by (eapply compile_length; eauto).
  destruct (run_plain_alone n c6 t) as (A & B & C & D & E & L).
  { rewrite O6. eapply compile_plain; eauto. }
  { rewrite O6. pose proof (mu_le (own_xs t p)). simpl in Hn. lia. }
  repeat split; try congruence. intros u Hu. rewrite (E u Hu). apply U6; exact Hu.
Qed.

Definition check_ops (p : list stmt) : list op :=
  [OLockR; ORdBuiltin; ORdGlobalC; OUnlockR; ORdModKeys; OCheck p].

(* a Check running alone finishes, taking its snapshot of the current namespace *)
Lemma solo_check c t p n :
  t_ops (c_thr c t) = check_ops p -> c_w c = None -> c_r c = [] -> (6 <= n)%nat ->
  let c' := run (repeatN t n) c in
  t_ops (c_thr c' t) = [] /\ c_w c' = None /\ c_r c' = []
  /\ (forall u, u <> t -> c_thr c' u = c_thr c u) /\ c_commits c' = c_commits c
  /\ c_lin c' = t :: c_lin c.
Proof.
  intros Hops Hw Hr Hn.
  do 6 (destruct n as [|n]; [lia|]).
  cbn [repeatN]. rewrite !run_cons.
  set (c1 := step c t).
  assert (F1 : t_ops (c_thr c1 t) = [ORdBuiltin; ORdGlobalC; OUnlockR; ORdModKeys; OCheck p]
               /\ c_w c1 = None /\ c_r c1 = [t] /\ c_commits c1 = c_commits c
               /\ (forall u, u <> t -> c_thr c1 u = c_thr c u) /\ c_lin c1 = c_lin c).
  { unfold c1, step, step_opt. rewrite Hops. unfold check_ops. rewrite Hw. simpl. rewrite upd_same, Hr.
    repeat split; auto. intros; apply upd_other; assumption. }
  clearbody c1. destruct F1 as (O1 & W1 & R1 & C1 & U1 & L1).
  set (c2 := step c1 t).
  assert (F2 : t_ops (c_thr c2 t) = [ORdGlobalC; OUnlockR; ORdModKeys; OCheck p]
               /\ c_w c2 = None /\ c_r c2 = [t] /\ c_commits c2 = c_commits c
               /\ (forall u, u <> t -> c_thr c2 u = c_thr c u) /\ c_lin c2 = c_lin c).
  { unfold c2, step, step_opt. rewrite O1. simpl. rewrite upd_same.
    repeat split; auto. intros u Hu. rewrite upd_other by exact Hu. apply U1; exact Hu. }
  clearbody c2. destruct F2 as (O2 & W2 & R2 & C2 & U2 & L2).
  set (c3 := step c2 t).
  assert (F3 : t_ops (c_thr c3 t) = [OUnlockR; ORdModKeys; OCheck p]
               /\ c_w c3 = None /\ c_r c3 = [t] /\ c_commits c3 = c_commits c
               /\ (forall u, u <> t -> c_thr c3 u = c_thr c u) /\ c_lin c3 = t :: c_lin c).
  { unfold c3, step, step_opt. rewrite O2. simpl. rewrite upd_same. simpl.
    repeat split; auto; try congruence. intros u Hu. rewrite upd_other by exact Hu. apply U2; exact Hu. }
  clearbody c3. destruct F3 as (O3 & W3 & R3 & C3 & U3 & L3).
  set (c4 := step c3 t).
  assert (F4 : t_ops (c_thr c4 t) = [ORdModKeys; OCheck p]
               /\ c_w c4 = None /\ c_r c4 = [] /\ c_commits c4 = c_commits c
               /\ (forall u, u <> t -> c_thr c4 u = c_thr c u) /\ c_lin c4 = t :: c_lin c).
  { unfold c4, step, step_opt. rewrite O3. simpl. rewrite upd_same, R3. simpl. rewrite N.eqb_refl.
    repeat split; auto. intros u Hu. rewrite upd_other by exact Hu. apply U3; exact Hu. }
  clearbody c4. destruct F4 as (O4 & W4 & R4 & C4 & U4 & L4).
  set (c5 := step c4 t).
  assert (F5 : t_ops (c_thr c5 t) = [OCheck p]
               /\ c_w c5 = None /\ c_r c5 = [] /\ c_commits c5 = c_commits c
               /\ (forall u, u <> t -> c_thr c5 u = c_thr c u) /\ c_lin c5 = t :: c_lin c).
  { unfold c5, step, step_opt. rewrite O4. simpl. rewrite upd_same.
    repeat split; auto. intros u Hu. rewrite upd_other by exact Hu. apply U4; exact Hu. }
  clearbody c5. destruct F5 as (O5 & W5 & R5 & C5 & U5 & L5).
  set (c6 := step c5 t).
  assert (F6 : t_ops (c_thr c6 t) = []
               /\ c_w c6 = None /\ c_r c6 = [] /\ c_commits c6 = c_commits c
               /\ (forall u, u <> t -> c_thr c6 u = c_thr c u) /\ c_lin c6 = t :: c_lin c).
  { unfold c6, step, step_opt. rewrite O5.
    destruct (compile t 0 (t_snap (c_thr c5 t)) p); simpl; rewrite upd_same;
      (repeat split; auto; intros u Hu; rewrite upd_other by exact Hu; apply U5; exact Hu). }
  clearbody c6. destruct F6 as (O6 & W6 & R6 & C6 & U6 & L6).
  destruct (run_plain_alone n c6 t) as (A & B & C & D & E & L).
  { rewrite O6. constructor. }
  { rewrite O6. simpl. lia. }
  repeat split; try congruence. intros u Hu. rewrite (E u Hu). apply U6; exact Hu.
Qed.

Definition blocks (F : nat) (order : list N) : list N := flat_map (fun t => repeatN t F) order.

(* the serial schedule: every thread of [order] alone in one block *)
Lemma serial_run F : forall order c,
  NoDup order ->
  (forall t, In t order ->
     (exists p, t_ops (c_thr c t) = start_ops p /\ static_ok [] p = true /\ (6 + 2 * length p <= F)%nat)
     \/ (exists p, t_ops (c_thr c t) = check_ops p /\ (6 <= F)%nat)) ->
  c_w c = None -> c_r c = [] ->
  let c' := run (blocks F order) c in
  (forall t, In t order -> t_ops (c_thr c' t) = [])
  /\ c_lin c' = rev order ++ c_lin c
  /\ (forall u, ~ In u order -> c_thr c' u = c_thr c u)
  /\ c_w c' = None /\ c_r c' = [].
Proof.
  induction order as [|t rest IH]; intros c Hnd Hst Hw Hr; simpl.
  - repeat split; auto. intros t [].
  - inversion Hnd as [|? ? Hnin Hnd']; subst.
    rewrite run_app.
    assert (Hone : let c1 := run (repeatN t F) c in
              t_ops (c_thr c1 t) = [] /\ c_w c1 = None /\ c_r c1 = []
              /\ (forall u, u <> t -> c_thr c1 u = c_thr c u) /\ c_lin c1 = t :: c_lin c).
    { destruct (Hst t (or_introl eq_refl)) as [(p & Hops & Hs & Hf)|(p & Hops & Hf)].
      - destruct (solo_eval c t p F Hops Hs Hw Hr Hf) as (A & B & C & D & _ & E). auto.
      - destruct (solo_check c t p F Hops Hw Hr Hf) as (A & B & C & D & _ & E). auto. }
    destruct Hone as (A & B & C & D & E).
    set (c1 := run (repeatN t F) c) in *. clearbody c1.
    destruct (IH c1 Hnd') as (A' & B' & C' & D' & E'); auto.
    { intros t' Hin. assert (Hne : t' <> t) by (intros ->; contradiction).
      rewrite (D t' Hne). apply Hst. right; exact Hin. }
    repeat split; auto.
    + intros t' [->|Hin]; [|apply A'; exact Hin]. rewrite C' by exact Hnin. exact A.
    + rewrite B', E. rewrite <- app_assoc. reflexivity.
    + intros u Hu. rewrite C' by (intros Hin; apply Hu; right; exact Hin).
      apply D. intros ->. apply Hu. left; reflexivity.
Qed.

(* ------------------------------------------------------------------ *)
(* 5. the theorem *)

(* self-contained evaluations, and static checks of ANY program *)
Definition mixed_jobs (js : list job) : Prop :=
  forall j, In j js -> (exists p, j = JEval p /\ static_ok [] p = true) \/ (exists p, j = JCheck p).

Fixpoint total_len (js : list job) : nat :=
  match js with [] => 0 | j :: r => length (prog_of j) + total_len r end.

Lemma total_len_ge js j : In j js -> (length (prog_of j) <= total_len js)%nat.
Proof.
  induction js as [|j' r IH]; simpl; [intros []|]. intros [->|Hin]; [lia|]. apply IH in Hin. lia.
Qed.

Lemma results_of_ext c c' : (forall t, t_err (c_thr c t) = t_err (c_thr c' t) /\ t_outs (c_thr c t) = t_outs (c_thr c' t)) ->
  forall n i, results_of c i n = results_of c' i n.
Proof.
  intros H n. induction n as [|n IH]; intros i; simpl; [reflexivity|].
  destruct (H i) as [-> ->]. rewrite IH. reflexivity.
Qed.

Lemma init_thread g0 st0 mods0 js t :
  c_thr (init g0 st0 mods0 js) t =
  match nth_error js (N.to_nat t) with
  | Some j => mkThread (job_ops g0 j) [] false []
  | None => idle
  end.
Proof.
  unfold init; simpl. rewrite threads_of_nth.
  assert (E : (t <? 0) = false) by (apply N.ltb_ge; lia). rewrite E, N.sub_0_r. reflexivity.
Qed.

Lemma serializable_disjoint g0 st0 mods0 js sched :
  mixed_jobs js ->
  let c0 := init g0 st0 mods0 js in
  let c := run sched c0 in
  (forall t, t_ops (c_thr c t) = []) ->
  (* the serial order is the linearization order: an Eval at the moment it
     replaced ev.global, a Check at the moment it read its snapshot *)
  let order := rev (c_lin c) in
  exists F,
    NoDup order
    /\ (forall t, t_ops (c_thr (run (blocks F order) c0) t) = [])
    /\ obs_of (run (blocks F order) c0) (length js) = obs_of c (length js).
Proof.
  intros Hev c0 c Hdone order.
  set (P := eval_prog js). set (Q := check_prog js).
  assert (PQ : forall t, Q t <> None -> P t = None).
  { intros t. unfold P, Q, eval_prog, check_prog.
    destruct (nth_error js (N.to_nat t)) as [[p|p|p]|]; congruence. }
  assert (Hthr0 : forall t, c_thr c0 t = match nth_error js (N.to_nat t) with
                                         | Some j => mkThread (job_ops g0 j) [] false []
                                         | None => idle end).
  { intros t. apply init_thread. }
  assert (Hdisj : forall j, In j js -> disjoint_job j).
  { intros j Hin. destruct (Hev j Hin) as [(p & -> & Hs)|(p & ->)]; [exact Hs|exact I]. }
  assert (H40 : Inv4 c0) by (apply init_Inv4; exact Hdisj).
  assert (H50 : Inv5 P c0).
  { intros t p Hp Hq. exfalso. rewrite Hthr0 in Hq. unfold P, eval_prog in Hp.
    destruct (nth_error js (N.to_nat t)) as [[p'|p'|p']|]; try discriminate.
    simpl in Hq. notquiet Hq. }
  assert (H70 : Inv7 P Q g0 c0).
  { split; [|split; [reflexivity|split; [constructor|intros t []]]].
    intros t. rewrite Hthr0. unfold Q, check_prog.
    destruct (nth_error js (N.to_nat t)) as [j|] eqn:Hn; simpl.
    - destruct j as [p|p|p]; simpl.
      + apply ChOther; [unfold Q, check_prog; rewrite Hn; reflexivity|repeat constructor|].
        rewrite Hthr0, Hn. reflexivity.
      + apply (ChPre P Q g0 c0 t p [OLockR; ORdBuiltin]);
          [unfold Q, check_prog; rewrite Hn; reflexivity|repeat constructor|intros []|].
        rewrite Hthr0, Hn. reflexivity.
      + exfalso. destruct (Hev _ (nth_error_In _ _ Hn)) as [(p' & E & _)|(p' & E)]; discriminate.
    - apply ChOther; [unfold Q, check_prog; rewrite Hn; reflexivity|constructor|].
      rewrite Hthr0, Hn. reflexivity. }
  assert (Hall : forall s, Inv3 P g0 (run s c0) /\ Inv4 (run s c0) /\ Inv5 P (run s c0)
                           /\ Inv7 P Q g0 (run s c0)).
  { intros s. apply (run_invariant (fun x => Inv3 P g0 x /\ Inv4 x /\ Inv5 P x /\ Inv7 P Q g0 x)).
    - intros x t (A & B & C & D). split; [apply step_Inv3; exact A|split; [apply step_Inv4; exact B|split]].
      + eapply step_Inv5; eauto.
      + apply (step_Inv7 P Q g0 PQ); assumption.
    - split; [apply init_Inv3|split; [exact H40|split; [exact H50|exact H70]]]. }
  destruct (Hall sched) as ((_ & Hg & _ & _) & H4 & H5 & (Hcp & Hcm & Hnd & Hpq)).
  fold c in Hg, H4, H5, Hcp, Hcm, Hnd, Hpq.
  set (F := (6 + 2 * total_len js)%nat).
  exists F.
  assert (Hnd' : NoDup order) by (apply NoDup_rev; exact Hnd).
  (* every linearized thread starts at the beginning of its job *)
  assert (Hstart : forall t, In t order ->
     (exists p, t_ops (c_thr c0 t) = start_ops p /\ static_ok [] p = true /\ (6 + 2 * length p <= F)%nat)
     \/ (exists p, t_ops (c_thr c0 t) = check_ops p /\ (6 <= F)%nat)).
  { intros t Hin. apply in_rev in Hin. pose proof (Hpq t Hin) as Hp. unfold P, Q, eval_prog, check_prog in Hp.
    rewrite Hthr0. destruct (nth_error js (N.to_nat t)) as [[p|p|p]|] eqn:Hn.
    - left. apply nth_error_In in Hn. destruct (Hev _ Hn) as [(p' & Heq & Hs)|(p' & Heq)]; [|discriminate].
      inversion Heq; subst p'. exists p. repeat split; auto.
      pose proof (total_len_ge js _ Hn) as Hl. simpl in Hl. unfold F. lia.
    - right. exists p. split; [reflexivity|unfold F; lia].
    - destruct Hp as [Hp|Hp]; congruence.
    - destruct Hp as [Hp|Hp]; congruence. }
  destruct (serial_run F order c0 Hnd' Hstart eq_refl eq_refl) as (A & B & C & _ & _).
  set (cs := run (blocks F order) c0) in *.
  assert (Hlin : c_lin cs = c_lin c).
  { rewrite B. simpl. rewrite app_nil_r. unfold order. apply rev_involutive. }
  destruct (Hall (blocks F order)) as ((_ & Hg_s & _ & _) & _ & _ & (Hcp_s & Hcm_s & _ & _)).
  fold cs in Hg_s, Hcp_s, Hcm_s.
  (* the serial run is complete *)
  assert (Hdone_s : forall t, t_ops (c_thr cs t) = []).
  { intros t. destruct (in_dec N.eq_dec t order) as [Hin|Hnin]; [apply A; exact Hin|].
    rewrite (C t Hnin), Hthr0.
    destruct (nth_error js (N.to_nat t)) as [j|] eqn:Hn; [|reflexivity].
    exfalso. apply Hnin. apply -> in_rev.
    destruct (Hev j (nth_error_In _ _ Hn)) as [(p & -> & _)|(p & ->)].
    - assert (Hc : In t (c_commits c)).
      { apply (H5 t p); [unfold P, eval_prog; rewrite Hn; reflexivity|rewrite Hdone; constructor]. }
      rewrite Hcm in Hc. apply filter_In in Hc. apply Hc.
    - pose proof (Hcp t) as Ht. rewrite Hdone in Ht.
      destruct (cphase_done P Q g0 c t Ht) as [(p' & _ & [Hin _] & _)|[Hq _]]; [exact Hin|].
      unfold Q, check_prog in Hq. rewrite Hn in Hq. discriminate. }
  split; [exact Hnd'|split; [exact Hdone_s|]].
  (* same linearization, hence same namespace *)
  assert (Hglob : c_global cs = c_global c) by (rewrite Hg_s, Hg, Hcm_s, Hcm, Hlin; reflexivity).
  (* same private computations *)
  assert (Hpriv : forall u, mine u (c_store cs) = mine u (c_store c)
                            /\ t_outs (c_thr cs u) = t_outs (c_thr c u)).
  { intros u. pose proof (run_G sched c0 H40 u) as E1. pose proof (run_G (blocks F order) c0 H40 u) as E2.
    fold c in E1. fold cs in E2.
    unfold G in E1, E2. rewrite Hdone in E1. rewrite Hdone_s in E2. simpl in E1, E2.
    rewrite <- E2 in E1. inversion E1. auto. }
  (* same verdict of every Check: it compiled against the same snapshot *)
  assert (Herr : forall t, t_err (c_thr cs t) = t_err (c_thr c t)).
  { intros t. pose proof (Hcp t) as H1. pose proof (Hcp_s t) as H2.
    rewrite Hdone in H1. rewrite Hdone_s in H2.
    destruct (cphase_done P Q g0 c t H1) as [(p & Hq & [_ Hs] & He)|[Hq He]];
      destruct (cphase_done P Q g0 cs t H2) as [(p' & Hq' & [_ Hs'] & He')|[Hq' He']];
      congruence. }
  unfold obs_of. f_equal.
  - unfold final_of. rewrite Hglob. apply map_ext. intros [x s]. simpl. f_equal.
    rewrite <- (store_get_mine s (c_store cs)), <- (store_get_mine s (c_store c)).
    destruct (Hpriv (fst s)) as [-> _]. reflexivity.
  - apply results_of_ext. intros t. split; [apply Herr|apply Hpriv].
Qed.

(* A finished Check reports exactly whether its program compiles against the
   namespace produced by the evaluations that precede it in the linearization
   order - in every interleaving. *)
Lemma check_linearizes g0 st0 mods0 js sched t p :
  mixed_jobs js ->
  let c := run sched (init g0 st0 mods0 js) in
  check_prog js t = Some p -> t_ops (c_thr c t) = [] ->
  In t (c_lin c)
  /\ t_snap (c_thr c t) = ns_after (eval_prog js) (before t (rev (c_lin c))) g0
  /\ t_err (c_thr c t) = is_none (compile t 0 (t_snap (c_thr c t)) p).
Proof.
  intros Hev c Hq Hdone.
  set (c0 := init g0 st0 mods0 js).
  set (P := eval_prog js). set (Q := check_prog js).
  assert (PQ : forall t, Q t <> None -> P t = None).
  { intros u. unfold P, Q, eval_prog, check_prog.
    destruct (nth_error js (N.to_nat u)) as [[q|q|q]|]; congruence. }
  assert (Hthr0 : forall t, c_thr c0 t = match nth_error js (N.to_nat t) with
                                         | Some j => mkThread (job_ops g0 j) [] false []
                                         | None => idle end).
  { intros u. apply init_thread. }
  assert (H40 : Inv4 c0).
  { apply init_Inv4. intros j Hin. destruct (Hev j Hin) as [(q & -> & Hs)|(q & ->)]; [exact Hs|exact I]. }
  assert (H70 : Inv7 P Q g0 c0).
  { split; [|split; [reflexivity|split; [constructor|intros u []]]].
    intros u. rewrite Hthr0. unfold Q, check_prog.
    destruct (nth_error js (N.to_nat u)) as [j|] eqn:Hn; simpl.
    - destruct j as [q|q|q]; simpl.
      + apply ChOther; [unfold Q, check_prog; rewrite Hn; reflexivity|repeat constructor|].
        rewrite Hthr0, Hn. reflexivity.
      + apply (ChPre P Q g0 c0 u q [OLockR; ORdBuiltin]);
          [unfold Q, check_prog; rewrite Hn; reflexivity|repeat constructor|intros []|].
        rewrite Hthr0, Hn. reflexivity.
      + exfalso. destruct (Hev _ (nth_error_In _ _ Hn)) as [(p' & E & _)|(p' & E)]; discriminate.
    - apply ChOther; [unfold Q, check_prog; rewrite Hn; reflexivity|constructor|].
      rewrite Hthr0, Hn. reflexivity. }
  assert (Hall : Inv3 P g0 c /\ Inv4 c /\ Inv7 P Q g0 c).
  { apply (run_invariant (fun x => Inv3 P g0 x /\ Inv4 x /\ Inv7 P Q g0 x)).
    - intros x u (A & B & D). split; [apply step_Inv3; exact A|split; [apply step_Inv4; exact B|]].
      apply (step_Inv7 P Q g0 PQ); assumption.
    - split; [apply init_Inv3|split; [exact H40|exact H70]]. }
  destruct Hall as (_ & _ & (Hcp & _)). pose proof (Hcp t) as Ht. rewrite Hdone in Ht.
  destruct (cphase_done P Q g0 c t Ht) as [(p' & Hq' & [Hin Hs] & He)|[Hq' _]].
  - assert (p' = p) by (unfold Q in Hq'; congruence). subst p'. auto.
  - unfold Q in Hq'. congruence.
Qed.
