(* C39 -- proofs, part 4: serializability of self-contained evaluations.
   Every complete interleaving has exactly the observation of a serial
   schedule (the threads one after the other, in commit order). *)
From verif Require Import lib.Base model.C39 proofs.C39_proofs proofs.C39_serial proofs.C39_disjoint.
Open Scope N_scope.

(* ------------------------------------------------------------------ *)
(* 1. the code of a self-contained program does not depend on the namespace *)

Definition own_xs (t : N) (p : list stmt) : list op :=
  match compile t 0 [] p with Some (_, _, xs) => xs | None => [] end.

Lemma compile_indep p : forall t k g1 g2 dom,
  static_ok dom p = true ->
  (forall x, memN x dom = true -> ns_lookup x g1 = ns_lookup x g2 /\ ns_lookup x g1 <> None) ->
  exists g1' g2' fr xs,
    compile t k g1 p = Some (g1', fr, xs) /\ compile t k g2 p = Some (g2', fr, xs).
Proof.
  induction p as [|s r IH]; intros t k g1 g2 dom Hs Hd; simpl in Hs |- *.
  - exists g1, g2, [], []. auto.
  - destruct s as [x v|x v|x|m].
    + destruct (IH t (k + 1) (ns_bind x (t, k) g1) (ns_bind x (t, k) g2) (x :: dom) Hs)
        as (a & b & fr & xs & H1 & H2).
      { intros y Hy. rewrite !ns_lookup_bind. simpl in Hy.
        destruct (y =? x); [split; [reflexivity|discriminate]|apply Hd; exact Hy]. }
      rewrite H1, H2. eauto 8.
    + destruct (memN x dom) eqn:Hm; [|discriminate].
      destruct (Hd x Hm) as [He Hn]. rewrite <- He.
      destruct (ns_lookup x g1) as [s|]; [|congruence].
      destruct (IH t k g1 g2 dom Hs Hd) as (a & b & fr & xs & H1 & H2).
      rewrite H1, H2. eauto 8.
    + destruct (memN x dom) eqn:Hm; [|discriminate].
      destruct (Hd x Hm) as [He Hn]. rewrite <- He.
      destruct (ns_lookup x g1) as [s|]; [|congruence].
      destruct (IH t k g1 g2 dom Hs Hd) as (a & b & fr & xs & H1 & H2).
      rewrite H1, H2. eauto 8.
    + destruct (IH t k g1 g2 dom Hs Hd) as (a & b & fr & xs & H1 & H2).
      rewrite H1, H2. eauto 8.
Qed.

Lemma compile_self_contained t p g :
  static_ok [] p = true -> exists g' fr, compile t 0 g p = Some (g', fr, own_xs t p).
Proof.
  intros Hs. destruct (compile_indep p t 0 g [] [] Hs) as (a & b & fr & xs & H1 & H2).
  { intros x Hx. discriminate. }
  unfold own_xs. rewrite H2. eauto.
Qed.

Lemma compile_length p : forall t k g g' fr xs,
  compile t k g p = Some (g', fr, xs) -> length xs = length p.
Proof.
  induction p as [|s r IH]; intros t k g g' fr xs H; simpl in H.
  - inversion H; reflexivity.
  - destruct s as [x v|x v|x|m].
    + destruct (compile t (k + 1) (ns_bind x (t, k) g) r) as [[[g1 f1] x1]|] eqn:E; [|discriminate].
      inversion H; subst. simpl. f_equal. eapply IH; eauto.
    + destruct (ns_lookup x g); [|discriminate].
      destruct (compile t k g r) as [[[g1 f1] x1]|] eqn:E; [|discriminate].
      inversion H; subst. simpl. f_equal. eapply IH; eauto.
    + destruct (ns_lookup x g); [|discriminate].
      destruct (compile t k g r) as [[[g1 f1] x1]|] eqn:E; [|discriminate].
      inversion H; subst. simpl. f_equal. eapply IH; eauto.
    + destruct (compile t k g r) as [[[g1 f1] x1]|] eqn:E; [|discriminate].
      inversion H; subst. simpl. f_equal. eapply IH; eauto.
Qed.

(* ------------------------------------------------------------------ *)
(* 2. the private computation of a thread is the same in every interleaving *)

Definition is_acc (o : op) : bool := match o with OSet _ _ | OGet _ => true | _ => false end.

(* the variable accesses thread t still has to make *)
Fixpoint pending (t : N) (ops : list op) : list op :=
  match ops with
  | [] => []
  | OCompile p :: _ => filter is_acc (own_xs t p)   (* the step replaces the whole continuation *)
  | OSet s v :: r => OSet s v :: pending t r
  | OGet s :: r => OGet s :: pending t r
  | _ :: r => pending t r
  end.

Fixpoint exec_own (ops : list op) (log : list (slot * N)) (outs : list N) : list (slot * N) * list N :=
  match ops with
  | [] => (log, outs)
  | OSet s v :: r => exec_own r ((s, v) :: log) outs
  | OGet s :: r => exec_own r log (store_get s log :: outs)
  | _ :: r => exec_own r log outs
  end.

Definition mine (t : N) (st : list (slot * N)) : list (slot * N) :=
  filter (fun sv => fst (fst sv) =? t) st.

(* where the private computation of thread t will end, seen from c *)
Definition G (t : N) (c : config) : list (slot * N) * list N :=
  exec_own (pending t (t_ops (c_thr c t))) (mine t (c_store c)) (t_outs (c_thr c t)).

Lemma pending_plain t xs : Forall plain_op xs -> pending t xs = filter is_acc xs.
Proof.
  induction 1 as [|o r Ho _ IH]; simpl; [reflexivity|].
  destruct o; simpl in Ho; try contradiction; simpl; rewrite IH; reflexivity.
Qed.

Lemma store_get_mine s st : store_get s (mine (fst s) st) = store_get s st.
Proof.
  induction st as [|[s' v] r IH]; simpl; [reflexivity|].
  destruct (fst s' =? fst s) eqn:E; simpl.
  - destruct (slot_eqb s s'); [reflexivity|exact IH].
  - destruct (slot_eqb s s') eqn:E2; [|exact IH].
    apply slot_eqb_eq in E2. subst s'. rewrite N.eqb_refl in E. discriminate.
Qed.

Lemma exec_own_filter xs : forall log outs,
  exec_own (filter is_acc xs) log outs = exec_own xs log outs.
Proof.
  induction xs as [|o r IH]; intros log outs; simpl; [reflexivity|].
  destruct o; simpl; apply IH.
Qed.

Definition NoErr (c : config) : Prop := forall t, t_err (c_thr c t) = false.

(* one step of any thread leaves every G unchanged *)
Lemma step_G c t : Inv4 c -> NoErr c ->
  (forall u, G u (step c t) = G u c) /\ NoErr (step c t).
Proof.
  intros (Hops & _) Hne. unfold step.
  destruct (step_opt c t) as [c'|] eqn:Hs; [|split; [reflexivity|exact Hne]].
  unfold step_opt in Hs. pose proof (Hops t) as Ht.
  destruct (t_ops (c_thr c t)) as [|o r] eqn:Hop; [discriminate|].
  apply Forall_cons_iff in Ht as [Ho Hr].
  (* a step that changes only thread t, keeping store and outputs, and whose
     new operations have the same pending accesses *)
  assert (Hsame : forall th' c'',
            c_thr c'' = upd (c_thr c) t th' -> c_store c'' = c_store c ->
            t_outs th' = t_outs (c_thr c t) -> t_err th' = false ->
            pending t (t_ops th') = pending t (o :: r) ->
            (forall u, G u c'' = G u c) /\ NoErr c'').
  { intros th' c'' Hthr Hst Hout Herr Hp. split.
    - intros u. unfold G. rewrite Hthr, Hst. destruct (N.eq_dec u t) as [->|Hn].
      + rewrite upd_same, Hop, Hp, Hout. reflexivity.
      + rewrite upd_other by exact Hn. reflexivity.
    - intros u. rewrite Hthr. destruct (N.eq_dec u t) as [->|Hn].
      + rewrite upd_same. exact Herr.
      + rewrite upd_other by exact Hn. apply Hne. }
  pose proof (Hne t) as Het.
  destruct o; simpl in Ho.
  - destruct (c_w c); [discriminate|]. destruct (c_r c); [|discriminate]. inv_some.
    eapply Hsame; simpl; eauto.
  - destruct (c_w c) as [x|]; [|discriminate]. destruct (x =? t); [|discriminate]. inv_some.
    eapply Hsame; simpl; eauto.
  - destruct (c_w c); [discriminate|]. inv_some. eapply Hsame; simpl; eauto.
  - inv_some. eapply Hsame; simpl; eauto.
  - inv_some. eapply Hsame; simpl; eauto.
  - inv_some. eapply Hsame; simpl; eauto.
  - (* OCompile *)
    destruct (compile_self_contained t p (t_snap (c_thr c t)) Ho) as (g' & fr & Hc).
    rewrite Hc in Hs. inv_some.
    assert (Hpl : Forall plain_op (own_xs t p)) by (eapply compile_plain; eauto).
    eapply Hsame; [reflexivity|reflexivity|reflexivity|exact Het|].
    change (pending t (own_xs t p) = filter is_acc (own_xs t p)). apply pending_plain. exact Hpl.
  - inv_some. eapply Hsame; simpl; eauto.
  - (* OCheck *)
    destruct (compile_self_contained t p (t_snap (c_thr c t)) Ho) as (g' & fr & Hc).
    rewrite Hc in Hs. inv_some. eapply Hsame; simpl; eauto.
  - inv_some. eapply Hsame; simpl; eauto.
  - (* OSet *)
    inv_some. split.
    + intros u. unfold G. simpl. destruct (N.eq_dec u (fst s)) as [->|Hn].
      * rewrite upd_same, Hop. simpl. rewrite N.eqb_refl. reflexivity.
      * rewrite upd_other by exact Hn.
        destruct (fst s =? u) eqn:E; [apply N.eqb_eq in E; congruence|reflexivity].
    + intros u. simpl. destruct (N.eq_dec u (fst s)) as [->|Hn].
      * rewrite upd_same. exact Het.
      * rewrite upd_other by exact Hn. apply Hne.
  - (* OGet *)
    inv_some. split.
    + intros u. unfold G. simpl. destruct (N.eq_dec u (fst s)) as [->|Hn].
      * rewrite upd_same, Hop. simpl. rewrite store_get_mine. reflexivity.
      * rewrite upd_other by exact Hn. reflexivity.
    + intros u. simpl. destruct (N.eq_dec u (fst s)) as [->|Hn].
      * rewrite upd_same. exact Het.
      * rewrite upd_other by exact Hn. apply Hne.
  - destruct (memN m (c_mods c)); inv_some; eapply Hsame; simpl; eauto.
  - inv_some. eapply Hsame; simpl; eauto.
Qed.

Lemma run_G sched : forall c, Inv4 c -> NoErr c ->
  (forall u, G u (run sched c) = G u c) /\ NoErr (run sched c).
Proof.
  induction sched as [|t r IH]; intros c H4 Hne; simpl; [split; [reflexivity|exact Hne]|].
  destruct (step_G c t H4 Hne) as [Hg Hne'].
  destruct (IH (step c t) (step_Inv4 c t H4) Hne') as [Hg' Hne''].
  split; [|exact Hne'']. intros u. rewrite Hg'. apply Hg.
Qed.

(* ------------------------------------------------------------------ *)
(* 3. a finished self-contained evaluation has committed *)

Definition Inv5 (P : N -> option (list stmt)) (c : config) : Prop :=
  forall t p, P t = Some p -> Forall quiet (t_ops (c_thr c t)) -> In t (c_commits c).

Ltac notquiet H :=
  repeat (apply Forall_cons_iff in H as [? H]); simpl in *; contradiction.

Lemma step_Inv5 P g0 c t : Inv3 P g0 c -> Inv4 c -> Inv5 P c -> Inv5 P (step c t).
Proof.
  intros (Hph & _) (Hown & _) H5 u p Hp Hq. unfold step in *.
  destruct (step_opt c t) as [c'|] eqn:Hs; [|apply (H5 u p Hp Hq)].
  destruct (step_shared c t c' Hs) as (Hthr & _ & Hsh).
  assert (Hmono : forall x, In x (c_commits c) -> In x (c_commits c')).
  { intros x Hx. destruct Hsh as [[_ E]|(g' & fr & r & _ & _ & E)]; rewrite E; [exact Hx|right; exact Hx]. }
  destruct (N.eq_dec u t) as [->|Hne].
  2:{ rewrite (Hthr u Hne) in Hq. apply Hmono. apply (H5 u p Hp Hq). }
  pose proof (Hph t) as Ht. pose proof (Hown t) as Ho.
  unfold step_opt in Hs.
  remember (t_ops (c_thr c t)) as tops eqn:Htops.
  inversion Ht as [p0 Hp0 Hn Hops|p0 Hl Hp0 Hn Hops|p0 Hl Hp0 Hn Hops|p0 Hl Hp0 Hn Hsn Hops
                   |p0 g' fr xs Hl Hp0 Hn Hcm Hops|ops Hqo Hops]; try rewrite <- Hops in Hs.
  - destruct (c_w c); [discriminate|]. destruct (c_r c); [|discriminate]. inv_some.
    simpl in Hq. rewrite upd_same in Hq. simpl in Hq. notquiet Hq.
  - inv_some. simpl in Hq. rewrite upd_same in Hq. simpl in Hq. notquiet Hq.
  - inv_some. simpl in Hq. rewrite upd_same in Hq. simpl in Hq. notquiet Hq.
  - rewrite <- Hops in Ho. apply Forall_cons_iff in Ho as [Ho _]. simpl in Ho.
    destruct (compile_self_contained t p0 (t_snap (c_thr c t)) Ho) as (g' & fr & Hc).
    rewrite Hc in Hs. inv_some. simpl in Hq. rewrite upd_same in Hq. simpl in Hq. notquiet Hq.
  - inv_some. simpl. left; reflexivity.
  - subst ops. apply Hmono. apply (H5 t p Hp). rewrite <- Htops. exact Hqo.
Qed.

(* ------------------------------------------------------------------ *)
(* 4. a thread running alone from the start of Eval finishes and commits *)

Fixpoint mu (ops : list op) : nat :=
  match ops with
  | [] => 0
  | OUseLookup _ :: r => 2 + mu r
  | _ :: r => 1 + mu r
  end.

Lemma run_cons t l c : run (t :: l) c = run l (step c t).
Proof. reflexivity. Qed.

Lemma run_plain_alone : forall n c t,
  Forall plain_op (t_ops (c_thr c t)) -> (mu (t_ops (c_thr c t)) <= n)%nat ->
  let c' := run (repeatN t n) c in
  t_ops (c_thr c' t) = [] /\ c_w c' = c_w c /\ c_r c' = c_r c /\ c_commits c' = c_commits c
  /\ (forall u, u <> t -> c_thr c' u = c_thr c u).
Proof.
  induction n as [|n IH]; intros c t Hpl Hmu; simpl.
  - destruct (t_ops (c_thr c t)) as [|o r] eqn:Hops; [auto 6|].
    destruct o; simpl in Hmu; lia.
  - destruct (t_ops (c_thr c t)) as [|o r] eqn:Hops.
    + assert (E : step c t = c) by (unfold step, step_opt; rewrite Hops; reflexivity).
      rewrite E. apply IH; rewrite Hops; [constructor|simpl; lia].
    + apply Forall_cons_iff in Hpl as [Ho Hr].
      assert (Hnext : forall c1 ops1,
                step c t = c1 -> t_ops (c_thr c1 t) = ops1 -> Forall plain_op ops1 ->
                (mu ops1 <= n)%nat -> c_w c1 = c_w c -> c_r c1 = c_r c ->
                c_commits c1 = c_commits c -> (forall u, u <> t -> c_thr c1 u = c_thr c u) ->
                let c' := run (repeatN t n) (step c t) in
                t_ops (c_thr c' t) = [] /\ c_w c' = c_w c /\ c_r c' = c_r c
                /\ c_commits c' = c_commits c /\ (forall u, u <> t -> c_thr c' u = c_thr c u)).
      { intros c1 ops1 E1 E2 Hp1 Hm1 Hw1 Hr1 Hc1 Ho1. rewrite E1.
        destruct (IH c1 t) as (A & B & C & D & E); [rewrite E2; exact Hp1|rewrite E2; exact Hm1|].
        repeat split; try congruence. intros u Hu. rewrite (E u Hu). apply Ho1; exact Hu. }
      destruct o; simpl in Ho; try contradiction.
      * eapply Hnext; [unfold step, step_opt; rewrite Hops; reflexivity|simpl; rewrite upd_same; reflexivity
                       |exact Hr|simpl in Hmu |- *; lia|reflexivity|reflexivity|reflexivity|].
        intros u Hu. simpl. apply upd_other; exact Hu.
      * eapply Hnext; [unfold step, step_opt; rewrite Hops; reflexivity|simpl; rewrite upd_same; reflexivity
                       |exact Hr|simpl in Hmu |- *; lia|reflexivity|reflexivity|reflexivity|].
        intros u Hu. simpl. apply upd_other; exact Hu.
      * destruct (memN m (c_mods c)) eqn:Hm.
        -- eapply Hnext; [unfold step, step_opt; rewrite Hops, Hm; reflexivity|simpl; rewrite upd_same; reflexivity
                          |exact Hr|simpl in Hmu |- *; lia|reflexivity|reflexivity|reflexivity|].
           intros u Hu. simpl. apply upd_other; exact Hu.
        -- eapply Hnext; [unfold step, step_opt; rewrite Hops, Hm; reflexivity|simpl; rewrite upd_same; reflexivity
                          |constructor; [exact I|exact Hr]|simpl in Hmu |- *; lia|reflexivity|reflexivity|reflexivity|].
           intros u Hu. simpl. apply upd_other; exact Hu.
      * eapply Hnext; [unfold step, step_opt; rewrite Hops; reflexivity|simpl; rewrite upd_same; reflexivity
                       |exact Hr|simpl in Hmu |- *; lia|reflexivity|reflexivity|reflexivity|].
        intros u Hu. simpl. apply upd_other; exact Hu.
Qed.

Lemma mu_le xs : (mu xs <= 2 * length xs)%nat.
Proof. induction xs as [|o r IH]; simpl; [lia|]. destruct o; simpl; lia. Qed.

Definition start_ops (p : list stmt) : list op := [OLockW; ORdBuiltin; ORdGlobal; OCompile p].

Lemma solo_eval c t p n :
  t_ops (c_thr c t) = start_ops p -> static_ok [] p = true ->
  c_w c = None -> c_r c = [] -> (6 + 2 * length p <= n)%nat ->
  let c' := run (repeatN t n) c in
  t_ops (c_thr c' t) = [] /\ c_w c' = None /\ c_r c' = []
  /\ (forall u, u <> t -> c_thr c' u = c_thr c u) /\ c_commits c' = t :: c_commits c.
Proof.
  intros Hops Hs Hw Hr Hn.
  destruct (compile_self_contained t p (c_global c) Hs) as (g' & fr & Hc).
  do 6 (destruct n as [|n]; [simpl in Hn; lia|]).
  cbn [repeatN]. rewrite !run_cons.
  (* 1: Lock *)
  set (c1 := step c t).
  assert (F1 : t_ops (c_thr c1 t) = [ORdBuiltin; ORdGlobal; OCompile p] /\ c_w c1 = Some t /\ c_r c1 = []
               /\ c_commits c1 = c_commits c /\ c_global c1 = c_global c
               /\ (forall u, u <> t -> c_thr c1 u = c_thr c u)).
  { unfold c1, step, step_opt. rewrite Hops. unfold start_ops. rewrite Hw, Hr. simpl. rewrite upd_same.
    repeat split; auto. intros; apply upd_other; assumption. }
  clearbody c1. destruct F1 as (O1 & W1 & R1 & C1 & G1 & U1).
  (* 2: read ev.builtin *)
  set (c2 := step c1 t).
  assert (F2 : t_ops (c_thr c2 t) = [ORdGlobal; OCompile p] /\ c_w c2 = Some t /\ c_r c2 = []
               /\ c_commits c2 = c_commits c /\ c_global c2 = c_global c
               /\ (forall u, u <> t -> c_thr c2 u = c_thr c u)).
  { unfold c2, step, step_opt. rewrite O1. simpl. rewrite upd_same.
    repeat split; auto. intros u Hu. rewrite upd_other by exact Hu. apply U1; exact Hu. }
  clearbody c2. destruct F2 as (O2 & W2 & R2 & C2 & G2 & U2).
  (* 3: read ev.global *)
  set (c3 := step c2 t).
  assert (F3 : t_ops (c_thr c3 t) = [OCompile p] /\ t_snap (c_thr c3 t) = c_global c
               /\ c_w c3 = Some t /\ c_r c3 = []
               /\ c_commits c3 = c_commits c
               /\ (forall u, u <> t -> c_thr c3 u = c_thr c u)).
  { unfold c3, step, step_opt. rewrite O2. simpl. rewrite upd_same. simpl.
    repeat split; auto. intros u Hu. rewrite upd_other by exact Hu. apply U2; exact Hu. }
  clearbody c3. destruct F3 as (O3 & S3 & W3 & R3 & C3 & U3).
  (* 4: compile *)
  set (c4 := step c3 t).
  assert (F4 : t_ops (c_thr c4 t) = OWrGlobal g' fr :: OUnlockW :: own_xs t p
               /\ c_w c4 = Some t /\ c_r c4 = [] /\ c_commits c4 = c_commits c
               /\ (forall u, u <> t -> c_thr c4 u = c_thr c u)).
  { unfold c4, step, step_opt. rewrite O3, S3, Hc. simpl. rewrite upd_same. simpl.
    repeat split; auto. intros u Hu. rewrite upd_other by exact Hu. apply U3; exact Hu. }
  clearbody c4. destruct F4 as (O4 & W4 & R4 & C4 & U4).
  (* 5: replace ev.global *)
  set (c5 := step c4 t).
  assert (F5 : t_ops (c_thr c5 t) = OUnlockW :: own_xs t p
               /\ c_w c5 = Some t /\ c_r c5 = [] /\ c_commits c5 = t :: c_commits c
               /\ (forall u, u <> t -> c_thr c5 u = c_thr c u)).
  { unfold c5, step, step_opt. rewrite O4. simpl. rewrite upd_same. simpl.
    repeat split; auto; try congruence. intros u Hu. rewrite upd_other by exact Hu. apply U4; exact Hu. }
  clearbody c5. destruct F5 as (O5 & W5 & R5 & C5 & U5).
  (* 6: unlock *)
  set (c6 := step c5 t).
  assert (F6 : t_ops (c_thr c6 t) = own_xs t p
               /\ c_w c6 = None /\ c_r c6 = [] /\ c_commits c6 = t :: c_commits c
               /\ (forall u, u <> t -> c_thr c6 u = c_thr c u)).
  { unfold c6, step, step_opt. rewrite O5, W5, N.eqb_refl. simpl. rewrite upd_same. simpl.
    repeat split; auto. intros u Hu. rewrite upd_other by exact Hu. apply U5; exact Hu. }
  clearbody c6. destruct F6 as (O6 & W6 & R6 & C6 & U6).
  (* the rest: plain operations *)
  assert (Hlen : length (own_xs t p) = length p) by (eapply compile_length; eauto).
  destruct (run_plain_alone n c6 t) as (A & B & C & D & E).
  { rewrite O6. eapply compile_plain; eauto. }
  { rewrite O6. pose proof (mu_le (own_xs t p)). simpl in Hn. lia. }
  repeat split; try congruence. intros u Hu. rewrite (E u Hu). apply U6; exact Hu.
Qed.

Definition blocks (F : nat) (order : list N) : list N := flat_map (fun t => repeatN t F) order.

Lemma serial_run F : forall order c,
  NoDup order ->
  (forall t, In t order -> exists p, t_ops (c_thr c t) = start_ops p /\ static_ok [] p = true
                                     /\ (6 + 2 * length p <= F)%nat) ->
  c_w c = None -> c_r c = [] ->
  let c' := run (blocks F order) c in
  (forall t, In t order -> t_ops (c_thr c' t) = [])
  /\ c_commits c' = rev order ++ c_commits c
  /\ (forall u, ~ In u order -> c_thr c' u = c_thr c u)
  /\ c_w c' = None /\ c_r c' = [].
Proof.
  induction order as [|t rest IH]; intros c Hnd Hst Hw Hr; simpl.
  - repeat split; auto. intros t [].
  - inversion Hnd as [|? ? Hnin Hnd']; subst.
    destruct (Hst t (or_introl eq_refl)) as (p & Hops & Hs & Hf).
    rewrite run_app.
    destruct (solo_eval c t p F Hops Hs Hw Hr Hf) as (A & B & C & D & E).
    set (c1 := run (repeatN t F) c) in *. clearbody c1.
    destruct (IH c1 Hnd') as (A' & B' & C' & D' & E'); auto.
    { intros t' Hin. destruct (Hst t' (or_intror Hin)) as (p' & Hops' & Hs' & Hf').
      exists p'. repeat split; auto. rewrite D; [exact Hops'|]. intros ->. contradiction. }
    repeat split; auto.
    + intros t' [->|Hin]; [|apply A'; exact Hin]. rewrite C' by exact Hnin. exact A.
    + rewrite B', E. rewrite <- app_assoc. reflexivity.
    + intros u Hu. rewrite C' by (intros Hin; apply Hu; right; exact Hin).
      apply D. intros ->. apply Hu. left; reflexivity.
Qed.

(* ------------------------------------------------------------------ *)
(* 5. the theorem *)

Definition eval_jobs (js : list job) : Prop :=
  forall j, In j js -> exists p, j = JEval p /\ static_ok [] p = true.

Fixpoint total_len (js : list job) : nat :=
  match js with [] => 0 | j :: r => length (prog_of j) + total_len r end.

Lemma total_len_ge js j : In j js -> (length (prog_of j) <= total_len js)%nat.
Proof.
  induction js as [|j' r IH]; simpl; [intros []|]. intros [->|Hin]; [lia|]. apply IH in Hin. lia.
Qed.

Lemma results_of_ext c c' : (forall t, t_err (c_thr c t) = t_err (c_thr c' t) /\ t_outs (c_thr c t) = t_outs (c_thr c' t)) ->
  forall n i, results_of c i n = results_of c' i n.
Proof.
  intros H n. induction n as [|n IH]; intros i; simpl; [reflexivity|].
  destruct (H i) as [-> ->]. rewrite IH. reflexivity.
Qed.

Lemma init_thread g0 js t :
  c_thr (init g0 [] [] js) t =
  match nth_error js (N.to_nat t) with
  | Some j => mkThread (job_ops g0 j) [] false []
  | None => idle
  end.
Proof.
  unfold init; simpl. rewrite threads_of_nth.
  assert (E : (t <? 0) = false) by (apply N.ltb_ge; lia). rewrite E, N.sub_0_r. reflexivity.
Qed.

Lemma serializable_disjoint g0 st0 mods0 js sched :
  eval_jobs js ->
  let c0 := init g0 st0 mods0 js in
  let c := run sched c0 in
  (forall t, t_ops (c_thr c t) = []) ->
  exists order F,
    NoDup order
    /\ (forall t, t_ops (c_thr (run (blocks F order) c0) t) = [])
    /\ obs_of (run (blocks F order) c0) (length js) = obs_of c (length js).
Proof.
  intros Hev c0 c Hdone.
  set (P := eval_prog js).
  assert (Hthr0 : forall t, c_thr c0 t = match nth_error js (N.to_nat t) with
                                         | Some j => mkThread (job_ops g0 j) [] false []
                                         | None => idle end).
  { intros t. apply (init_thread g0 js t). }
  assert (Hdisj : forall j, In j js -> disjoint_job j).
  { intros j Hin. destruct (Hev j Hin) as (p & -> & Hs). exact Hs. }
  assert (H40 : Inv4 c0) by (apply init_Inv4; exact Hdisj).
  assert (Hne0 : NoErr c0).
  { intros t. rewrite Hthr0. destruct (nth_error js (N.to_nat t)); reflexivity. }
  assert (H50 : Inv5 P c0).
  { intros t p Hp Hq. exfalso. rewrite Hthr0 in Hq. unfold P, eval_prog in Hp.
    destruct (nth_error js (N.to_nat t)) as [[p'|p'|p']|]; try discriminate.
    simpl in Hq. notquiet Hq. }
  assert (Hall : forall s, Inv3 P g0 (run s c0) /\ Inv4 (run s c0) /\ Inv5 P (run s c0)).
  { intros s. apply (run_invariant (fun x => Inv3 P g0 x /\ Inv4 x /\ Inv5 P x)).
    - intros x t (A & B & C). split; [apply step_Inv3; exact A|split; [apply step_Inv4; exact B|]].
      eapply step_Inv5; eauto.
    - split; [apply init_Inv3|split; assumption]. }
  destruct (Hall sched) as ((_ & Hg & Hnd & Hcm) & H4 & H5). fold c in Hg, Hnd, Hcm, H4, H5.
  set (order := rev (c_commits c)).
  set (F := (6 + 2 * total_len js)%nat).
  exists order, F.
  assert (Hnd' : NoDup order) by (apply NoDup_rev; exact Hnd).
  (* every committed thread starts at the beginning of Eval *)
  assert (Hstart : forall t, In t order ->
            exists p, t_ops (c_thr c0 t) = start_ops p /\ static_ok [] p = true
                      /\ (6 + 2 * length p <= F)%nat).
  { intros t Hin. apply in_rev in Hin. pose proof (Hcm t Hin) as Hp. unfold P, eval_prog in Hp.
    rewrite Hthr0. destruct (nth_error js (N.to_nat t)) as [[p|p|p]|] eqn:Hn; try congruence.
    apply nth_error_In in Hn. destruct (Hev _ Hn) as (p' & Heq & Hs). inversion Heq; subst p'.
    exists p. repeat split; auto. pose proof (total_len_ge js _ Hn). simpl in H. unfold F. lia. }
  destruct (serial_run F order c0 Hnd' Hstart eq_refl eq_refl) as (A & B & C & _ & _).
  set (cs := run (blocks F order) c0) in *.
  (* the serial run is complete *)
  assert (Hdone_s : forall t, t_ops (c_thr cs t) = []).
  { intros t. destruct (in_dec N.eq_dec t order) as [Hin|Hnin]; [apply A; exact Hin|].
    rewrite (C t Hnin), Hthr0.
    destruct (nth_error js (N.to_nat t)) as [j|] eqn:Hn; [|reflexivity].
    exfalso. apply Hnin. apply -> in_rev.
    destruct (Hev j (nth_error_In _ _ Hn)) as (p & -> & _).
    apply (H5 t p); [unfold P, eval_prog; rewrite Hn; reflexivity|rewrite Hdone; constructor]. }
  split; [exact Hnd'|split; [exact Hdone_s|]].
  (* same commit order, hence same namespace *)
  assert (Hcs : c_commits cs = c_commits c).
  { rewrite B. simpl. rewrite app_nil_r. unfold order. apply rev_involutive. }
  destruct (Hall (blocks F order)) as ((_ & Hg_s & _ & _) & _ & _). fold cs in Hg_s.
  assert (Hglob : c_global cs = c_global c) by (rewrite Hg_s, Hg, Hcs; reflexivity).
  (* same private computations *)
  destruct (run_G sched c0 H40 Hne0) as [HG Hne]. fold c in HG, Hne.
  destruct (run_G (blocks F order) c0 H40 Hne0) as [HGs Hnes]. fold cs in HGs, Hnes.
  assert (Hpriv : forall u, mine u (c_store cs) = mine u (c_store c)
                            /\ t_outs (c_thr cs u) = t_outs (c_thr c u)).
  { intros u. pose proof (HG u) as E1. pose proof (HGs u) as E2.
    unfold G in E1, E2. rewrite Hdone in E1. rewrite Hdone_s in E2. simpl in E1, E2.
    rewrite <- E2 in E1. inversion E1. auto. }
  unfold obs_of. f_equal.
  - unfold final_of. rewrite Hglob. apply map_ext. intros [x s]. simpl. f_equal.
    rewrite <- (store_get_mine s (c_store cs)), <- (store_get_mine s (c_store c)).
    destruct (Hpriv (fst s)) as [-> _]. reflexivity.
  - apply results_of_ext. intros t. split; [rewrite Hnes, Hne; reflexivity|apply Hpriv].
Qed.
