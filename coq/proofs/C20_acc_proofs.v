(* C20 -- (a) bound-k generalisation of "nothing starts after a break": an input is
   given a worker only if fewer than k of the inputs before it break or fail;
   (b) completeness of the acceptor [accepts_peach]: every terminal outcome of
   every schedule of the faithful model is accepted (no false alarm).  With the
   oracle's soundness this makes the judge's verdicts about the model exact in
   the direction that matters for alarms. *)
From verif Require Import lib.Base model.C20_Peach model.C20 proofs.C20_proofs proofs.C20_p1_proofs
  proofs.C20_oracle_proofs.
From Coq Require Import Permutation Arith.
Open Scope nat_scope.

Lemma countf_le_pointwise {A B} (p : A -> bool) (q : B -> bool) f g j :
  (forall i, i < j -> p (f i) = true -> q (g i) = true) -> countf p f j <= countf q g j.
Proof.
  induction j as [|j IH]; intros H; cbn [countf]; [lia|].
  specialize (IH ltac:(intros; apply H; [lia|assumption])).
  destruct (p (f j)) eqn:E; [rewrite (H j ltac:(lia) E)|destruct (q (g j))]; lia.
Qed.

Lemma countf_le_more {A} (p : A -> bool) f j m : j <= m -> countf p f j <= countf p f m.
Proof. induction 1; cbn [countf]; lia. Qed.

Section G.
Context (c : config) (cb : callback) (n k : nat).
Hypothesis Hbk : bound c = Some k.
Hypothesis Hfix : fix_recheck c = true.

(* breakers among the inputs before j *)
Definition nbrk (j : nat) : nat := countf (fun r => is_breaker (cb_kind r)) cb j.

(* a, h: as in the one-worker development, for any bound *)
Lemma a_step_g s l s' : inv_a cb s -> step c cb n s l = Some s' -> inv_a cb s'.
Proof.
  clear Hbk Hfix.
  intros Ha H.
  step_inv H; intros ii; cbn; unfold upd; try case_upd; subst; intros Hp Hk;
  try discriminate; try reflexivity; try assumption;
  try (apply (Ha ii); assumption);
  try (rewrite (Ha ii Hp Hk); reflexivity);
  try (refine (Ha _ _ Hk); match goal with E : st s _ = _ |- _ => rewrite E end; reflexivity).
  unfold brk in Hk. rewrite Hk. apply orb_true_r.
Qed.

Lemma h_step_g s l s' : inv c cb n s -> inv_h cb s -> step c cb n s l = Some s' -> inv_h cb s'.
Proof.
  clear Hbk Hfix.
  intros Hinv Hh H Hc' Hbr.
  destruct Hinv as ((Hpc & Hp & Hnp) & _).
  step_inv H; cbn in *; try discriminate; try congruence;
  try (exact (Hh Hc' Hbr));
  try match goal with E : pc s = _ |- _ => rewrite E in * end; cbn in Hpc, Hp, Hnp;
  (* the callback of a breaker returned: it is the witness if broken was clear *)
  try (match goal with E : st s ?i = Running _ |- context [Posted] =>
         destruct (broken s) eqn:Eb;
         [ destruct (Hh Hc' Eb) as (kk & Hk1 & Hk2); exists kk; split; [|exact Hk2];
           apply posted_upd_keep; [exact Hk1|left; rewrite E; reflexivity]
         | exists i; split; [now rewrite upd_same|exact Hbr] ]
       end);
  (* otherwise the old witness is still posted *)
  try (destruct (Hh Hc' Hbr) as (kk & Hk1 & Hk2); exists kk; split; [|exact Hk2];
       apply posted_upd_keep; [exact Hk1|];
       first [ right; reflexivity
             | left; match goal with E : st s _ = _ |- _ => rewrite E end; reflexivity
             | left; rewrite Hp by lia; reflexivity ]).
Qed.

(* N: while the dispatcher is past the first test of an input nothing is skipped *)
Definition inv_n (s : state) : Prop :=
  match pc s with
  | DAcq _ | DRecheck _ | DSpawn _ => forall j, st s j <> Skipped
  | _ => True
  end.

Lemma n_step s l s' : inv c cb n s -> inv_n s -> step c cb n s l = Some s' -> inv_n s'.
Proof.
  clear Hbk Hfix.
  intros Hinv Hn H. destruct Hinv as (_ & _ & _ & _ & _ & _ & (Hbs & _)).
  unfold inv_n in *.
  step_inv H; cbn;
  try match goal with E : pc s = _ |- _ => rewrite E in * end; try exact I; try exact Hn;
  try (intros j Hj; specialize (Hbs j Hj); discriminate);
  destruct (pc s); try exact I;
  intros j; unfold upd; try case_upd; try discriminate; try apply Hn.
Qed.

(* Q: an input is given a worker only if fewer than k inputs before it are breakers *)
Definition inv_q (s : state) : Prop :=
  cancelled s = false ->
  (forall i, pc s = DSpawn i -> nbrk i < k)
  /\ (forall j, spawned (st s j) = true -> nbrk j < k).

Lemma q_step s l s' :
  inv c cb n s -> inv_a cb s -> inv_n s -> inv_q s -> step c cb n s l = Some s' -> inv_q s'.
Proof.
  intros Hinv Ha Hn Hq H Hc'.
  destruct Hinv as ((Hpc & Hp & Hnp) & _ & _ & Hh & _).
  assert (Hc : cancelled s = false).
  { unfold step in H. destruct (panicked s); [discriminate|].
    destruct l; [| |destruct (cancelled s) eqn:Ec; [discriminate|inversion H; subst; discriminate]];
    [unfold step_disp in H|unfold step_work in H];
    repeat match type of H with
    | context [match ?x with _ => _ end] => destruct x eqn:?
    end; try discriminate; inversion H; subst; cbn in *; try assumption; try congruence. }
  destruct (Hq Hc) as (Hq1 & Hq2). clear Hq.
  destruct (Hh (or_intror Hc)) as (_ & Hheld). destruct (Hheld k Hbk) as (Heq & Hle). clear Hh Hheld.
  unfold inv_n in Hn.
  step_inv H; cbn in Hc' |- *; try discriminate; try congruence;
  try match goal with E : pc s = _ |- _ => rewrite E in * end; cbn in Hpc, Hp, Hnp, Heq;
  (split;
   [ intros i' Hpc'; try discriminate; try (inversion Hpc'; subst i'); try (now apply Hq1)
   | intros j; unfold upd; try case_upd; subst; intros Hsp; try discriminate;
     try (now apply Hq2); try (now apply Hq1);
     try (apply Hq2; match goal with E : st s _ = _ |- _ => rewrite E end; reflexivity) ]).
  (* the re-test passed: every breaker before i still holds its token *)
  pose proof (countf_le_pointwise (fun r => is_breaker (cb_kind r)) holder cb (st s) i) as Hcnt.
  assert (Hle2 : nbrk i <= countf holder (st s) i).
  { apply Hcnt. intros j Hj Hb. specialize (Hnp j Hj). specialize (Hn j).
    destruct (st s j) eqn:Ej; cbn; try reflexivity; try congruence.
    exfalso. pose proof (Ha j ltac:(now rewrite Ej) Hb). congruence. }
  pose proof (countf_le_more holder (st s) i n ltac:(lia)). lia.
Qed.

(* G: once an input has been skipped every later one is pending or skipped *)
Definition inv_gg (s : state) : Prop :=
  forall j i, j < i -> st s j = Skipped -> st s i = Pending \/ st s i = Skipped.

Lemma gg_step s l s' :
  inv c cb n s -> inv_n s -> inv_gg s -> step c cb n s l = Some s' -> inv_gg s'.
Proof.
  clear Hbk Hfix.
  intros Hinv Hn Hg H j i Hji Hsk.
  destruct Hinv as ((Hpc & Hp & Hnp) & _). unfold inv_n in Hn.
  step_inv H; cbn in *; try discriminate;
  try (exact (Hg j i Hji Hsk));
  try match goal with E : pc s = _ |- _ => rewrite E in * end; cbn in Hpc, Hp, Hnp;
  unfold upd in *; revert Hsk;
  match goal with |- context [i =? ?K] =>
    destruct (Nat.eqb_spec i K) as [Ei|Ei]; destruct (Nat.eqb_spec j K) as [Ej|Ej] end;
  intros Hsk; subst; try lia; try discriminate; auto;
  try (exact (Hg _ _ Hji Hsk));
  try (left; apply Hp; lia);
  try (exfalso; exact (Hn _ Hsk));
  try (exfalso; pose proof (Hg _ _ Hji Hsk) as Hx;
       match goal with E : st s _ = _ |- _ => rewrite E in Hx end; destruct Hx; discriminate).
Qed.

Definition inv3 (s : state) : Prop := inv_a cb s /\ inv_n s /\ inv_gg s /\ inv_h cb s.

Lemma inv3_reach s : reach c cb n s -> inv3 s.
Proof.
  clear Hbk Hfix.
  induction 1 as [|s l s' Hr (Ha & Hn & Hg & Hh) H].
  - repeat split; try exact I; intro; intros; cbn in *; try discriminate; auto.
  - pose proof (inv_reach c cb n s Hr) as Hinv.
    refine (conj _ (conj _ (conj _ _))).
    + eapply a_step_g; eassumption.
    + eapply n_step; eassumption.
    + eapply gg_step; eassumption.
    + eapply h_step_g; eassumption.
Qed.

Lemma q_reach s : reach c cb n s -> inv_q s.
Proof.
  induction 1 as [|s l s' Hr Hq H].
  - intros _. split; intros; cbn in *; discriminate.
  - destruct (inv3_reach s Hr) as (Ha & Hn & _).
    eapply q_step; try eassumption. now apply inv_reach.
Qed.

(* bound-k generalisation of "nothing starts after a break": in every reachable
   state of every schedule (no cancellation), an input that has been given a worker
   has fewer than k breaking / failing inputs before it -- a callback that broke
   or failed either still holds its slot or has set broken before giving it back *)
Theorem peach_no_start_after_k_breakers s :
  reach c cb n s -> cancelled s = false ->
  forall j, nbrk j >= k -> calls s j = 0.
Proof.
  intros Hr Hc j Hj. pose proof (q_reach s Hr) as Hq.
  destruct (inv_reach c cb n s Hr) as (_ & Hcalls & _).
  destruct (Hq Hc) as (_ & Hq2). rewrite Hcalls.
  destruct (started (st s j)) eqn:Es; [|reflexivity].
  assert (spawned (st s j) = true) by (destruct (st s j); cbn in *; congruence).
  specialize (Hq2 j H). lia.
Qed.
End G.

(* ------------------------------------------------------------------ *)
(* completeness of the acceptor *)

Lemma ms_eqb_complete a b : Permutation a b -> ms_eqb a b = true.
Proof.
  intros H. unfold ms_eqb. apply forallb_forall. intros x _. apply Nat.eqb_eq.
  unfold count_N. now apply (Permutation_count_occ N.eq_dec).
Qed.

Lemma N_list_eqb_refl a : list_eqb N.eqb a a = true.
Proof. apply list_eqb_spec; [intros; apply N.eqb_eq|reflexivity]. Qed.

Lemma nat_list_eqb_refl a : nat_list_eqb a a = true.
Proof. apply list_eqb_spec; [intros; apply Nat.eqb_eq|reflexivity]. Qed.

Lemma countf_le_n {A} (p : A -> bool) f m : countf p f m <= m.
Proof. induction m as [|m IH]; cbn [countf]; [lia|]. destruct (p (f m)); lia. Qed.

Lemma countf_full {A} (p : A -> bool) f m :
  (forall i, i < m -> p (f i) = true) -> countf p f m = m.
Proof.
  induction m as [|m IH]; intros H; cbn [countf]; [reflexivity|].
  rewrite IH by (intros; apply H; lia). rewrite H by lia. lia.
Qed.

(* a downward closed predicate on 0..m-1 is "i < its count" *)
Lemma prefix_count {A} (p : A -> bool) f m :
  (forall j i, j < i -> i < m -> p (f i) = true -> p (f j) = true) ->
  forall i, i < m -> p (f i) = (i <? countf p f m).
Proof.
  induction m as [|m IH]; intros Hd i Hi; [lia|]. cbn [countf].
  assert (IH' := IH ltac:(intros j i' ? ? ?; apply (Hd j i'); [lia|lia|assumption])).
  destruct (p (f m)) eqn:Em.
  - assert (Hall : forall j, j < m -> p (f j) = true) by (intros j Hj; apply (Hd j m); [lia|lia|assumption]).
    rewrite (countf_full p f m Hall).
    destruct (Nat.eq_dec i m) as [->|Hne].
    + rewrite Em. symmetry. apply Nat.ltb_lt. lia.
    + rewrite Hall by lia. symmetry. apply Nat.ltb_lt. lia.
  - rewrite Nat.add_0_r. destruct (Nat.eq_dec i m) as [->|Hne].
    + rewrite Em. symmetry. apply Nat.ltb_ge. apply countf_le_n.
    + apply IH'. lia.
Qed.

Definition pre01 (m i : nat) : nat := if i <? m then 1 else 0.

Lemma map_pre01_gen m len : forall a,
  map (pre01 m) (seq a len) = repeat 1 (Nat.min (m - a) len) ++ repeat 0 (len - (m - a)).
Proof.
  induction len as [|len IH]; intros a; [now rewrite Nat.min_0_r|].
  cbn [seq map]. rewrite IH. unfold pre01 at 1.
  destruct (Nat.ltb_spec a m) as [Hlt|Hge].
  - replace (m - a) with (S (m - S a)) by lia. reflexivity.
  - replace (m - a) with 0 by lia. replace (m - S a) with 0 by lia.
    cbn. now rewrite Nat.sub_0_r.
Qed.

Lemma map_pre01 m len : m <= len ->
  map (pre01 m) (seq 0 len) = repeat 1 m ++ repeat 0 (len - m).
Proof.
  intros H. rewrite map_pre01_gen, Nat.sub_0_r. now rewrite Nat.min_l by lia.
Qed.

Lemma list_sum_pre m k : list_sum (repeat 1 m ++ repeat 0 k) = m.
Proof.
  rewrite list_sum_app.
  assert (H1 : list_sum (repeat 1 m) = m) by (unfold list_sum; induction m as [|m IHm]; cbn in *; lia).
  assert (H0 : list_sum (repeat 0 k) = 0) by (unfold list_sum; induction k as [|k IHk]; cbn in *; lia).
  lia.
Qed.

Lemma fm_prefix_gen {B} (g : cbres -> list B) d l m : forall a,
  flat_map (fun i => if i <? m then g (nth (i - a) l d) else []) (seq a (length l))
  = flat_map g (firstn (m - a) l).
Proof.
  induction l as [|x l IH]; intros a; [now rewrite firstn_nil|].
  cbn [length seq flat_map].
  assert (Hrest : flat_map (fun i => if i <? m then g (nth (i - a) (x :: l) d) else []) (seq (S a) (length l))
                  = flat_map g (firstn (m - S a) l)).
  { rewrite <- IH. apply flat_map_ext_in'. intros i Hi. apply in_seq in Hi.
    replace (i - a) with (S (i - S a)) by lia. reflexivity. }
  rewrite Hrest. rewrite Nat.sub_diag. cbn [nth]. destruct (Nat.ltb_spec a m) as [Hlt|Hge].
  - replace (m - a) with (S (m - S a)) by lia. reflexivity.
  - replace (m - a) with 0 by lia. replace (m - S a) with 0 by lia. reflexivity.
Qed.

Lemma fm_prefix {B} (g : cbres -> list B) d l m :
  flat_map (fun i => if i <? m then g (nth i l d) else []) (seq 0 (length l))
  = flat_map g (firstn m l).
Proof.
  replace (firstn m l) with (firstn (m - 0) l) by (now rewrite Nat.sub_0_r).
  rewrite <- fm_prefix_gen with (d := d).
  apply flat_map_ext_in'. intros i _. now rewrite Nat.sub_0_r.
Qed.

Lemma breaker_in_firstn l : forall m k0,
  k0 < m -> is_breaker (cb_kind (nth k0 l (mkCb [] KNormal))) = true ->
  no_breaker (firstn m l) = false.
Proof.
  unfold no_breaker. induction l as [|x l IH]; intros m k0 Hk Hb.
  - destruct k0; discriminate.
  - destruct m as [|m]; [lia|]. cbn [firstn forallb]. destruct k0 as [|k0]; cbn [nth] in Hb.
    + now rewrite Hb.
    + rewrite (IH m k0) by (lia || assumption). apply andb_false_r.
Qed.

Lemma breakers_firstn l : forall j,
  breakers (firstn j l)
  = countf (fun r => is_breaker (cb_kind r)) (fun i => nth i l (mkCb [] KNormal)) (Nat.min j (length l)).
Proof.
  unfold breakers. induction l as [|x l IH]; intros j.
  - rewrite firstn_nil, Nat.min_0_r. reflexivity.
  - destruct j as [|j]; [reflexivity|]. cbn [firstn filter length Nat.min].
    (* shift the counting function by one *)
    assert (Hs : forall m (f : nat -> cbres) p,
               countf p f (S m) = (if p (f 0) then 1 else 0) + countf p (fun i => f (S i)) m).
    { intros m f p. induction m as [|m IHm]; [cbn; lia|].
      change (countf p f (S (S m))) with (countf p f (S m) + (if p (f (S m)) then 1 else 0)).
      rewrite IHm. cbn [countf]. lia. }
    rewrite Hs. cbn [nth]. rewrite <- IH.
    destruct (is_breaker (cb_kind x)); cbn [length]; lia.
Qed.

(* ---- the theorem ---- *)
Section Steps.
Context (c : config) (cb : callback) (n : nat).

(* s is reachable from s0 *)
Inductive steps : state -> state -> Prop :=
| steps_refl s : steps s s
| steps_step s l s1 s2 : step c cb n s l = Some s1 -> steps s1 s2 -> steps s s2.

Lemma steps_reach s0 s : reach c cb n s0 -> steps s0 s -> reach c cb n s.
Proof. intros Hr H. induction H; [assumption|]. apply IHsteps. eapply reach_step; eassumption. Qed.

Lemma started_step s l s' :
  inv c cb n s -> step c cb n s l = Some s' ->
  forall i, started (st s i) = true -> started (st s' i) = true.
Proof.
  intros ((Hpc & Hp & Hnp) & _) H i Hs.
  step_inv H; cbn; try assumption;
  try match goal with E : pc s = _ |- _ => rewrite E in * end; cbn in Hpc, Hp, Hnp;
  unfold upd; try case_upd; subst; try assumption; try reflexivity;
  try (rewrite Hp in Hs by lia; discriminate);
  try (match goal with E : st s _ = _ |- _ => rewrite E in Hs end; discriminate).
Qed.

Lemma started_steps s0 s :
  reach c cb n s0 -> steps s0 s ->
  countf started (st s0) n <= countf started (st s) n.
Proof.
  intros Hr H. induction H as [|s l s1 s2 Hst _ IH]; [lia|].
  assert (Hr1 : reach c cb n s1) by (eapply reach_step; eassumption).
  specialize (IH Hr1).
  pose proof (countf_le_pointwise started started (st s) (st s1) n
                (fun i _ => started_step s l s1 (inv_reach c cb n s Hr) Hst i)). lia.
Qed.
End Steps.

Section Complete.
Context (ko : option nat) (cbs : list cbres).
Hypothesis Hk1 : forall k, ko = Some k -> 1 <= k.   (* parseNumWorkers: an exact positive integer *)

Notation cb := (cb_of cbs).
Notation n := (length cbs).
Notation c := (faithful ko).

(* what the runner would record: per-input entries at the end, the overlap at any
   earlier moment s0, the output, the errors, nothing late *)
Definition obs_of (s0 s : state) : pobs :=
  mkObs (map (calls s) (seq 0 n)) (running n s0) (out s) (errs s) false.

Theorem accepts_peach_complete s0 s :
  reach c cb n s0 -> steps c cb n s0 s -> pc s = DDone -> cancelled s = false ->
  accepts_peach ko cbs (obs_of s0 s) = true.
Proof.
  intros Hr0 Hst Hpc Hc.
  assert (Hr : reach c cb n s) by (eapply steps_reach; eassumption).
  pose proof (started_steps c cb n s0 s Hr0 Hst) as Hmono.
  pose proof (fun k (E : ko = Some k) => bound_respected c cb n s0 k Hr0 (or_introl eq_refl) (f_equal (fun x => x) (eq_trans (eq_refl (bound c)) E))) as Hbr. clear Hst.
  pose proof (inv_reach c cb n s Hr) as Hinv.
  pose proof (done_finished c cb n s Hinv Hpc) as Hfin.
  destruct (inv3_reach c cb n s Hr) as (Ha & _ & Hg & Hh).
  destruct Hinv as ((_ & Hp & Hnp) & Hcalls & _ & _ & _ & _ & (Hsk & _)).
  set (m := countf started (st s) n).
  assert (Hmn : m <= n) by apply countf_le_n.
  (* the started inputs are a prefix *)
  assert (Hpre : forall i, i < n -> started (st s i) = (i <? m)).
  { apply prefix_count. intros j i Hji Hi Hsi.
    specialize (Hfin j ltac:(lia)). destruct (st s j) eqn:Ej; cbn in Hfin |- *; try discriminate; try reflexivity.
    exfalso. destruct (Hg j i Hji Ej) as [Hx|Hx]; rewrite Hx in Hsi; discriminate. }
  assert (Hcm : map (calls s) (seq 0 n) = map (pre01 m) (seq 0 n)).
  { apply map_ext_in. intros i Hi. apply in_seq in Hi. rewrite Hcalls, Hpre by lia. reflexivity. }
  assert (Hsum : list_sum (map (calls s) (seq 0 n)) = m).
  { rewrite Hcm, map_pre01 by assumption. apply list_sum_pre. }
  unfold accepts_peach, obs_of. cbn [o_calls o_maxrun o_out o_errs o_late].
  rewrite Hsum.
  (* outputs and errors of the started prefix *)
  assert (Hout : flat_map (outs_if_called cb s) (seq 0 n) = flat_map cb_outs (firstn m cbs)).
  { rewrite <- (fm_prefix cb_outs (mkCb [] KNormal)). apply flat_map_ext_in'. intros i Hi.
    apply in_seq in Hi. unfold outs_if_called. rewrite Hcalls, Hpre by lia.
    destruct (i <? m); reflexivity. }
  assert (Herr : flat_map (fails_if_called cb s) (seq 0 n)
                 = flat_map (fun r => fail_of (cb_kind r)) (firstn m cbs)).
  { rewrite <- (fm_prefix (fun r => fail_of (cb_kind r)) (mkCb [] KNormal)). apply flat_map_ext_in'.
    intros i Hi. apply in_seq in Hi. unfold fails_if_called. rewrite Hcalls, Hpre by lia.
    destruct (i <? m); reflexivity. }
  pose proof (outputs_are_union c cb n s Hr Hpc) as Hpo. rewrite Hout in Hpo.
  pose proof (all_errors_reported c cb n s Hr Hpc) as Hpe. rewrite Herr in Hpe.
  (* overlap *)
  assert (Hrun : running n s0 <= m).
  { pose proof Hmono as H. unfold running.
    pose proof (countf_mono is_running started (st s0) n ltac:(intros w; destruct w; cbn; congruence)).
    fold m in H. lia. }
  clear Hmono.
  repeat (apply andb_true_iff; split).
  - now apply Nat.leb_le.
  - rewrite Hcm, map_pre01 by assumption. apply nat_list_eqb_refl.
  - (* skipped inputs: a started callback broke *)
    destruct (Nat.leb_spec n m) as [|Hlt]; [reflexivity|]. cbn [orb]. apply negb_true_iff.
    pose proof (Hpre m Hlt) as Hm. rewrite Nat.ltb_irrefl in Hm.
    pose proof (Hfin m Hlt) as Hfm.
    assert (Em : st s m = Skipped) by (destruct (st s m); cbn in *; congruence).
    destruct (Hh Hc (Hsk m Em)) as (k0 & Hk1' & Hk2).
    assert (Hk0 : k0 < m).
    { destruct (Nat.lt_ge_cases k0 n) as [Hkn|Hkn].
      - assert (started (st s k0) = true) by (destruct (st s k0); cbn in *; congruence).
        rewrite Hpre in H by assumption. now apply Nat.ltb_lt.
      - rewrite Hpc in Hp. cbn in Hp. rewrite Hp in Hk1' by assumption. discriminate. }
    eapply breaker_in_firstn; [exact Hk0|exact Hk2].
  - (* the slot count *)
    destruct ko as [k|] eqn:Eko; [|reflexivity].
    pose proof (Hk1 k eq_refl) as Hkpos.
    apply andb_true_iff. split.
    + apply Nat.ltb_lt. rewrite breakers_firstn. rewrite Nat.min_l by lia.
      destruct m as [|m']; [cbn; lia|]. replace (S m' - 1) with m' by lia.
      pose proof (q_reach (faithful (Some k)) cb n k eq_refl eq_refl s Hr Hc) as (_ & Hq2).
      apply (Hq2 m'). pose proof (Hpre m' ltac:(lia)) as Hs'.
      replace (m' <? S m') with true in Hs' by (symmetry; apply Nat.ltb_lt; lia).
      destruct (st s m'); cbn in *; congruence.
    + apply Nat.leb_le. apply (Hbr k). reflexivity.
  - now apply Nat.leb_le.
  - now apply ms_eqb_complete.
  - (* one worker: the output is the sequential one *)
    destruct ko as [[|[|k]]|]; try reflexivity.
    destruct (peach1_equiv_each_proved (faithful (Some 1)) cb n eq_refl eq_refl s Hr Hpc Hc) as (Hcl & Ho & _).
    rewrite Ho, each_out.
    assert (E : flat_map (fun i => if nbb cb i then cb_outs (cb i) else []) (seq 0 n)
                = flat_map (outs_if_called cb s) (seq 0 n)).
    { apply flat_map_ext_in'. intros i Hi. apply in_seq in Hi. unfold outs_if_called.
      rewrite Hcl, each_calls_spec. destruct (Nat.ltb_spec i n); [|lia]. cbn.
      destruct (nbb cb i); reflexivity. }
    rewrite E, Hout. apply N_list_eqb_refl.
  - now apply ms_eqb_complete.
  - reflexivity.
Qed.
End Complete.
