(* Proofs for C38, part 3: the item grammar is unambiguous (reading the
   rendering of a valid item sequence gives the items back), hence parsing a
   rendered item sequence returns exactly the items' meaning. *)
From verif Require Import lib.Base gen.Consts model.C38 proofs.C38_proofs.
Open Scope N_scope.

(* ---------- lookups of names that exist and are distinct ---------- *)
Lemma in_specs_In sp specs : in_specs sp specs = true -> In sp specs.
Proof.
  unfold in_specs. intros H. apply existsb_exists in H as [x [I E]].
  apply spec_eqb_eq in E. subst; exact I.
Qed.

Lemma existsb_str x l : In x l -> existsb (str_eqb x) l = true.
Proof. intros I. apply existsb_exists. exists x. split; [exact I|apply str_eqb_refl]. Qed.

Lemma existsb_N x l : In x l -> existsb (N.eqb x) l = true.
Proof. intros I. apply existsb_exists. exists x. split; [exact I|apply N.eqb_refl]. Qed.

Lemma find_long_distinct specs sp :
  distinct_by str_eqb (map s_long (filter named_long specs)) = true ->
  In sp specs -> named_long sp = true ->
  find (fun x => str_eqb (s_long x) (s_long sp)) specs = Some sp.
Proof.
  induction specs as [|x r IH]; intros Hd Hi Hn; [contradiction|].
  simpl. destruct (str_eqb (s_long x) (s_long sp)) eqn:E.
  - apply str_eqb_eq in E. destruct Hi as [Hi|Hi]; [subst; reflexivity|].
    exfalso. assert (Hx : named_long x = true) by (unfold named_long in *; rewrite E; exact Hn).
    simpl in Hd. rewrite Hx in Hd. simpl in Hd. apply andb_true_iff in Hd as [Hd _].
    apply negb_true_iff in Hd.
    assert (I : In (s_long sp) (map s_long (filter named_long r))).
    { apply in_map. apply filter_In. auto. }
    rewrite E in Hd. rewrite (existsb_str _ _ I) in Hd. discriminate.
  - destruct Hi as [Hi|Hi]; [subst; rewrite str_eqb_refl in E; discriminate|].
    apply IH; auto. simpl in Hd.
    destruct (named_long x); [simpl in Hd; apply andb_true_iff in Hd as [_ Hd]; exact Hd|exact Hd].
Qed.

Lemma find_short_distinct specs sp :
  distinct_by N.eqb (map s_short (filter named_short specs)) = true ->
  In sp specs -> named_short sp = true ->
  find (fun x => N.eqb (s_short x) (s_short sp)) specs = Some sp.
Proof.
  induction specs as [|x r IH]; intros Hd Hi Hn; [contradiction|].
  simpl. destruct (N.eqb (s_short x) (s_short sp)) eqn:E.
  - apply N.eqb_eq in E. destruct Hi as [Hi|Hi]; [subst; reflexivity|].
    exfalso. assert (Hx : named_short x = true) by (unfold named_short in *; rewrite E; exact Hn).
    simpl in Hd. rewrite Hx in Hd. simpl in Hd. apply andb_true_iff in Hd as [Hd _].
    apply negb_true_iff in Hd.
    assert (I : In (s_short sp) (map s_short (filter named_short r))).
    { apply in_map. apply filter_In. auto. }
    rewrite E in Hd. rewrite (existsb_N _ _ I) in Hd. discriminate.
  - destruct Hi as [Hi|Hi]; [subst; rewrite N.eqb_refl in E; discriminate|].
    apply IH; auto. simpl in Hd.
    destruct (named_short x); [simpl in Hd; apply andb_true_iff in Hd as [_ Hd]; exact Hd|exact Hd].
Qed.

Section Roundtrip.
  Variable cv : conv.
  Variable specs : list ospec.
  Hypothesis Hdist : specs_distinct specs = true.

  Lemma lookup_long_spec sp : in_specs sp specs = true -> named_long sp = true ->
    lookup_long (s_long sp) specs = Some sp.
  Proof.
    intros Hi Hn. unfold lookup_long. unfold named_long in Hn. apply negb_true_iff in Hn. rewrite Hn.
    unfold specs_distinct in Hdist. apply andb_true_iff in Hdist as [_ Hd].
    apply find_long_distinct; [exact Hd|apply in_specs_In; exact Hi|unfold named_long; rewrite Hn; reflexivity].
  Qed.

  Lemma lookup_short_spec sp : in_specs sp specs = true -> named_short sp = true ->
    lookup_short (s_short sp) specs = Some sp.
  Proof.
    intros Hi Hn. unfold lookup_short. unfold named_short in Hn. apply negb_true_iff in Hn. rewrite Hn.
    unfold specs_distinct in Hdist. apply andb_true_iff in Hdist as [Hd _].
    apply find_short_distinct; [exact Hd|apply in_specs_In; exact Hi|unfold named_short; rewrite Hn; reflexivity].
  Qed.

  (* ---------- '=' ---------- *)
  Lemma contains_cons c s : contains EQ (c :: s) = false -> N.eqb c EQ = false /\ contains EQ s = false.
  Proof.
    unfold contains. simpl. destruct (N.eqb c EQ); [discriminate|].
    destruct (index_of EQ s); simpl; [discriminate|auto].
  Qed.

  Lemma split_eq_app n a : contains EQ n = false -> split_eq (n ++ EQ :: a) = (n, Some a).
  Proof.
    induction n as [|c n IH]; intros H; [reflexivity|].
    apply contains_cons in H as [Hc Hn]. simpl. rewrite Hc, (IH Hn). reflexivity.
  Qed.

  Lemma split_eq_plain n : contains EQ n = false -> split_eq n = (n, None).
  Proof.
    induction n as [|c n IH]; intros H; [reflexivity|].
    apply contains_cons in H as [Hc Hn]. simpl. rewrite Hc, (IH Hn). reflexivity.
  Qed.

  (* ---------- how a word is classified ---------- *)
  Lemma tokenize_long_word d2 body rest : body <> [] ->
    d2 = true \/ (cv_lo cv = true /\ prefix1 body = false) ->
    tokenize cv specs false ((dashes d2 ++ body) :: rest) = tok_long cv specs d2 body rest.
  Proof.
    intros Hb Hd. rewrite tokenize_cons. destruct body as [|b r]; [congruence|].
    destruct d2.
    - cbn. rewrite andb_false_r. reflexivity.
    - destruct Hd as [Hd|[Hl Hp]]; [discriminate|]. cbn in Hp. cbn. rewrite Hp, Hl. cbn.
      rewrite !andb_false_r. reflexivity.
  Qed.

  Lemma tokenize_short_word b r rest : cv_lo cv = false -> N.eqb b DASH = false ->
    tokenize cv specs false ((DASH :: b :: r) :: rest) = tok_short cv specs (b :: r) rest.
  Proof.
    intros Hl Hb. rewrite tokenize_cons. cbn. rewrite Hb, Hl. cbn. rewrite !andb_false_r. reflexivity.
  Qed.

  Lemma prefix1_app n s : n <> [] -> prefix1 (n ++ s) = prefix1 n.
  Proof. destruct n; [congruence|reflexivity]. Qed.

  (* ---------- words of short options ---------- *)
  Definition flag_ok (sp : ospec) : bool :=
    usable_short specs sp && arity_eqb (s_arity sp) NoArg.

  Lemma usable_lookup sp : usable_short specs sp = true ->
    lookup_short (s_short sp) specs = Some sp /\ N.eqb (s_short sp) DASH = false.
  Proof.
    unfold usable_short. intros H. apply andb_true_iff in H as [H H3]. apply andb_true_iff in H as [H1 H2].
    split; [apply lookup_short_spec; assumption|apply negb_true_iff; exact H3].
  Qed.

  Lemma scan_flags flags tailw : forallb flag_ok flags = true ->
    scan_shorts specs (map s_short flags ++ tailw) =
    (flags ++ fst (scan_shorts specs tailw), snd (scan_shorts specs tailw)).
  Proof.
    induction flags as [|f fl IH]; intros H.
    - simpl. destruct (scan_shorts specs tailw); reflexivity.
    - simpl in H. apply andb_true_iff in H as [Hf Hfl]. unfold flag_ok in Hf.
      apply andb_true_iff in Hf as [Hu Ha]. apply arity_eqb_eq in Ha.
      destruct (usable_lookup f Hu) as [L _]. cbn [map app scan_shorts]. rewrite L, Ha, (IH Hfl). reflexivity.
  Qed.

  Definition pend_of (e : send) : pend :=
    match e with
    | EFlags => PFlags
    | EAtt sp a => PAtt sp a
    | EDet sp _ | EMiss sp => PNeed sp
    | EUnk r a => PUnk r a
    end.

  Lemma scan_end flags e : valid_end specs flags e = true ->
    scan_shorts specs (fst (render_end e)) = ([], pend_of e).
  Proof.
    destruct e as [|sp a|sp a|sp|r a]; cbn [valid_end render_end fst pend_of]; intros H.
    - reflexivity.
    - apply andb_true_iff in H as [Hu Ha]. destruct (usable_lookup sp Hu) as [L _].
      cbn [scan_shorts]. rewrite L. destruct (s_arity sp); [discriminate| |reflexivity].
      apply negb_true_iff in Ha. rewrite Ha. reflexivity.
    - apply andb_true_iff in H as [Hu Ha]. destruct (usable_lookup sp Hu) as [L _].
      apply arity_eqb_eq in Ha. cbn [scan_shorts]. rewrite L, Ha. reflexivity.
    - apply andb_true_iff in H as [Hu Ha]. destruct (usable_lookup sp Hu) as [L _].
      apply arity_eqb_eq in Ha. cbn [scan_shorts]. rewrite L, Ha. reflexivity.
    - apply andb_true_iff in H as [Hl _]. cbn [scan_shorts].
      destruct (lookup_short r specs); [discriminate|reflexivity].
  Qed.

  Lemma short_body_head flags e : forallb flag_ok flags = true -> valid_end specs flags e = true ->
    exists b r, map s_short flags ++ fst (render_end e) = b :: r /\ N.eqb b DASH = false.
  Proof.
    intros Hf He. destruct flags as [|f fl].
    - destruct e as [|sp a|sp a|sp|r a]; cbn [valid_end render_end fst map app is_nil negb] in *.
      + discriminate.
      + apply andb_true_iff in He as [Hu _]. destruct (usable_lookup sp Hu) as [_ D]. eauto.
      + apply andb_true_iff in He as [Hu _]. destruct (usable_lookup sp Hu) as [_ D]. eauto.
      + apply andb_true_iff in He as [Hu _]. destruct (usable_lookup sp Hu) as [_ D]. eauto.
      + apply andb_true_iff in He as [_ Hr]. cbn in Hr. apply negb_true_iff in Hr. eauto.
    - simpl in Hf. apply andb_true_iff in Hf as [Hf _]. unfold flag_ok in Hf.
      apply andb_true_iff in Hf as [Hu _]. destruct (usable_lookup f Hu) as [_ D].
      cbn [map app]. eauto.
  Qed.

  Lemma tok_short_rendered flags e rest :
    forallb flag_ok flags = true -> valid_end specs flags e = true ->
    tok_short cv specs (map s_short flags ++ fst (render_end e)) rest =
    match pend_of e with
    | PFlags => IShorts flags EFlags :: tokenize cv specs false rest
    | PAtt sp a => IShorts flags (EAtt sp a) :: tokenize cv specs false rest
    | PUnk r a => IShorts flags (EUnk r a) :: tokenize cv specs false rest
    | PNeed sp =>
      match rest with
      | a :: rest' => IShorts flags (EDet sp a) :: tokenize cv specs false rest'
      | [] => [IShorts flags (EMiss sp)]
      end
    end.
  Proof.
    intros Hf He. unfold tok_short. rewrite (scan_flags _ _ Hf), (scan_end _ _ He).
    cbn [fst snd]. rewrite app_nil_r. reflexivity.
  Qed.

  (* ---------- long options ---------- *)
  Lemma tok_long_known d2 sp suffix oa rest :
    in_specs sp specs = true -> named_long sp = true ->
    split_eq (s_long sp ++ suffix) = (s_long sp, oa) ->
    tok_long cv specs d2 (s_long sp ++ suffix) rest =
    match oa with
    | Some a => ILong d2 sp (LEq a) :: tokenize cv specs false rest
    | None =>
      if arity_eqb (s_arity sp) ReqArg then
        match rest with
        | a :: rest' => ILong d2 sp (LDet a) :: tokenize cv specs false rest'
        | [] => [ILong d2 sp LMiss]
        end
      else ILong d2 sp LNone :: tokenize cv specs false rest
    end.
  Proof.
    intros Hi Hn Hs. unfold tok_long. rewrite Hs, (lookup_long_spec sp Hi Hn). reflexivity.
  Qed.

  (* ---------- the grammar is unambiguous ---------- *)
  Lemma tokenize_render items : forall stopped,
    valid_seq cv specs stopped items = true ->
    tokenize cv specs stopped (render items) = items.
  Proof.
    induction items as [|it rest IH]; intros stopped Hv; [reflexivity|].
    cbn [valid_seq] in Hv. apply andb_true_iff in Hv as [Hv Hrest].
    apply andb_true_iff in Hv as [Hit Hlast].
    specialize (IH _ Hrest). unfold render in *. cbn [flat_map].
    destruct stopped.
    { destruct it; try discriminate. cbn [render_item app]. rewrite tokenize_cons. cbn in IH.
      rewrite IH. reflexivity. }
    cbn [orb] in IH. apply andb_true_iff in Hit as [Hnr Hit].
    destruct it as [flags e|d2 sp la|d2 name oa| |w|w]; cbn [valid_item] in Hit.
    - (* IShorts *)
      apply andb_true_iff in Hit as [Hit He]. apply andb_true_iff in Hit as [Hlo Hf].
      apply negb_true_iff in Hlo. fold flag_ok in Hf. cbn [item_stops] in IH.
      destruct (short_body_head flags e Hf He) as (b & r & Hbody & Hb).
      pose proof (tok_short_rendered flags e) as T.
      cbn [render_item]. destruct (render_end e) as [wd more] eqn:Re. cbn [fst] in *.
      cbn [app]. rewrite Hbody, (tokenize_short_word b r _ Hlo Hb), <- Hbody, (T _ Hf He).
      destruct e as [|sp a|sp a|sp|r' a]; cbn [render_end] in Re; inversion Re; subst; cbn [pend_of app].
      + rewrite IH; reflexivity.
      + rewrite IH; reflexivity.
      + rewrite IH; reflexivity.
      + cbn in Hlast. apply is_nil_true in Hlast. subst. reflexivity.
      + rewrite IH; reflexivity.
    - (* ILong *)
      apply andb_true_iff in Hit as [Hit Harg]. apply andb_true_iff in Hit as [Hit Hd].
      apply andb_true_iff in Hit as [Hit Hne]. apply andb_true_iff in Hit as [Hi Hn].
      apply negb_true_iff in Hne. cbn [item_stops] in IH.
      assert (Hnn : s_long sp <> []).
      { unfold named_long in Hn. apply negb_true_iff in Hn. apply is_nil_false. exact Hn. }
      assert (Hdash : forall suffix, d2 = true \/ (cv_lo cv = true /\ prefix1 (s_long sp ++ suffix) = false)).
      { intros suffix. unfold valid_dashes in Hd. destruct d2; [left; reflexivity|right].
        cbn in Hd. apply andb_true_iff in Hd as [Hl Hp]. apply negb_true_iff in Hp.
        rewrite prefix1_app by exact Hnn. auto. }
      assert (Hne' : forall suffix, s_long sp ++ suffix <> []).
      { intros suffix E. apply app_eq_nil in E as [E _]. contradiction. }
      destruct la as [|a|a|]; cbn [render_item app].
      + rewrite <- (app_nil_r (s_long sp)) at 1.
        rewrite (tokenize_long_word d2 _ _ (Hne' []) (Hdash [])).
        rewrite (tok_long_known d2 sp [] None) by (auto; rewrite app_nil_r; apply split_eq_plain; exact Hne).
        apply negb_true_iff in Harg. rewrite Harg, IH. reflexivity.
      + rewrite (tokenize_long_word d2 _ _ (Hne' _) (Hdash _)).
        rewrite (tok_long_known d2 sp (EQ :: a) (Some a)) by (auto; apply split_eq_app; exact Hne).
        rewrite IH. reflexivity.
      + rewrite <- (app_nil_r (s_long sp)) at 1.
        rewrite (tokenize_long_word d2 _ _ (Hne' []) (Hdash [])).
        rewrite (tok_long_known d2 sp [] None) by (auto; rewrite app_nil_r; apply split_eq_plain; exact Hne).
        rewrite Harg, IH. reflexivity.
      + cbn in Hlast. apply is_nil_true in Hlast. subst. cbn [flat_map].
        rewrite <- (app_nil_r (s_long sp)) at 1.
        rewrite (tokenize_long_word d2 _ _ (Hne' []) (Hdash [])).
        rewrite (tok_long_known d2 sp [] None) by (auto; rewrite app_nil_r; apply split_eq_plain; exact Hne).
        rewrite Harg. reflexivity.
    - (* ILongUnk *)
      apply andb_true_iff in Hit as [Hit Hoa]. apply andb_true_iff in Hit as [Hit Hd].
      apply andb_true_iff in Hit as [Hl Hne]. apply negb_true_iff in Hne. cbn [item_stops] in IH.
      assert (Hlk : lookup_long name specs = None) by (destruct (lookup_long name specs); [discriminate|reflexivity]).
      destruct oa as [a|]; cbn [render_item app].
      + assert (Hb : name ++ EQ :: a <> []) by (intros E; apply app_eq_nil in E as [_ E]; discriminate).
        assert (Hdash : d2 = true \/ (cv_lo cv = true /\ prefix1 (name ++ EQ :: a) = false)).
        { unfold valid_dashes in Hd. destruct d2; [left; reflexivity|right].
          cbn in Hd. apply andb_true_iff in Hd as [Hlo Hp]. apply negb_true_iff in Hp.
          split; [exact Hlo|]. destruct name; [reflexivity|exact Hp]. }
        rewrite (tokenize_long_word d2 _ _ Hb Hdash). unfold tok_long.
        rewrite (split_eq_app _ _ Hne), Hlk, IH. reflexivity.
      + apply negb_true_iff in Hoa. apply is_nil_false in Hoa.
        assert (Hdash : d2 = true \/ (cv_lo cv = true /\ prefix1 name = false)).
        { unfold valid_dashes in Hd. destruct d2; [left; reflexivity|right].
          cbn in Hd. apply andb_true_iff in Hd as [Hlo Hp]. apply negb_true_iff in Hp. auto. }
        rewrite (tokenize_long_word d2 _ _ Hoa Hdash). unfold tok_long.
        rewrite (split_eq_plain _ Hne), Hlk, IH. reflexivity.
    - (* IDD *)
      cbn [render_item app item_stops] in *. rewrite tokenize_cons, Hit. cbn. rewrite IH. reflexivity.
    - (* INon *)
      cbn [render_item app item_stops] in *. rewrite tokenize_cons.
      assert (E : cv_dd cv && str_eqb w DD = false /\ prefix2 w && negb (str_eqb w DD) = false
                  /\ prefix1 w && negb (str_eqb w DD) && negb (str_eqb w D1) = false).
      { destruct w as [|a [|b r]]; cbn in *.
        - rewrite andb_false_r. auto.
        - rewrite !andb_false_r. destruct (N.eqb a DASH); cbn in *; auto.
        - destruct (N.eqb a DASH); cbn in *; [|rewrite !andb_false_r; auto].
          destruct (cv_dd cv); cbn in *; [discriminate|].
          destruct (N.eqb b DASH); cbn in *; [|discriminate].
          destruct r; cbn in *; [auto|discriminate]. }
      destruct E as (E1 & E2 & E3). rewrite E1, E2, E3, IH. reflexivity.
    - (* IRest *) cbn in Hnr. discriminate Hnr.
  Qed.
End Roundtrip.

(* ---------- the roundtrip ---------- *)
Lemma parse_render_roundtrip cs specs items :
  specs_distinct specs = true -> longs_no_eq specs = true ->
  valid (conv_of cs) specs items = true ->
  parse (bits_of cs) specs (render items) = meaning (conv_of cs) items.
Proof.
  intros Hd Hne Hv.
  pose proof (tokenize_render (conv_of cs) specs Hd items false Hv) as T.
  rewrite (parse_is_ref cs specs Hne). unfold ref_parse. rewrite T. reflexivity.
Qed.
