(* C39 -- proofs, part 5: the acceptor is complete: it accepts EVERY
   observation that some serial order of the jobs produces (so the oracle
   demands exactly the serial-outcome property, not more). *)
From verif Require Import lib.Base model.C39 proofs.C39_proofs.
From Coq Require Import Permutation.
Open Scope N_scope.

Lemma env_sub_intro a b :
  (forall x v, In (x, v) a -> env_get x b = Some v) -> env_sub a b = true.
Proof.
  intros H. unfold env_sub. apply forallb_forall. intros [x v] Hin. simpl.
  rewrite (H x v Hin). apply N.eqb_refl.
Qed.

Lemma env_agree_equiv a b : EnvAgree a b -> env_equiv a b = true.
Proof.
  intros [H1 H2]. unfold env_equiv. rewrite (env_sub_intro a b H1), (env_sub_intro b a H2). reflexivity.
Qed.

Lemma result_eqb_refl r : result_eqb r r = true.
Proof.
  unfold result_eqb. rewrite Bool.eqb_reflx. simpl.
  apply list_eqb_spec; [intros; apply N.eqb_eq|reflexivity].
Qed.

Lemma selects_complete {A} (l : list A) : forall pre x,
  In x l -> exists rest, In (x, rest) (selects pre l) /\ Permutation (x :: rest) (pre ++ l).
Proof.
  induction l as [|y r IH]; intros pre x Hin; [contradiction|].
  destruct Hin as [->|Hin].
  - exists (rev_append pre r). split; [left; reflexivity|].
    apply (selects_perm (x :: r) pre). left; reflexivity.
  - destruct (IH (y :: pre) x Hin) as (rest & H1 & H2).
    exists rest. split; [right; exact H1|].
    eapply Permutation_trans; [exact H2|]. simpl. apply Permutation_middle.
Qed.

Lemma search_complete o : forall e order,
  Replays e order o ->
  forall fuel rest, Permutation order rest -> (length rest < fuel)%nat ->
  search fuel e rest o = true.
Proof.
  intros e order Hrep. induction Hrep as [e o Hag|e i j rest0 o e' r Hj Hn Hrep IH];
    intros fuel rest Hp Hf.
  - apply Permutation_nil in Hp. subst rest.
    destruct fuel as [|f]; [simpl in Hf; lia|]. simpl. apply env_agree_equiv. exact Hag.
  - destruct fuel as [|f]; [lia|].
    assert (Hin : In (i, j) rest) by (eapply Permutation_in; [exact Hp|left; reflexivity]).
    destruct (selects_complete rest [] (i, j) Hin) as (rest' & Hsel & Hperm). simpl in Hperm.
    assert (Hp' : Permutation rest0 rest').
    { apply Permutation_cons_inv with (a := (i, j)).
      eapply Permutation_trans; [exact Hp|apply Permutation_sym; exact Hperm]. }
    assert (Hlen : length rest = S (length rest')).
    { rewrite <- (Permutation_length Hperm). reflexivity. }
    destruct rest as [|p0 rest1]; [contradiction|].
    cbn [search]. apply anyb_true. exists ((i, j), rest'). split; [exact Hsel|].
    rewrite Hj. rewrite (nth_error_nth _ _ dummy_res Hn), result_eqb_refl.
    apply IH; [exact Hp'|]. simpl in Hlen, Hf. lia.
Qed.

Lemma index_from_length {A} (l : list A) : forall i, length (index_from i l) = length l.
Proof. induction l as [|x r IH]; intros i; simpl; [reflexivity|]. rewrite IH. reflexivity. Qed.

Lemma serial_outcome_ok_complete setup js o :
  SerialOutcome setup js o -> serial_outcome_ok setup js o = true.
Proof.
  intros [Hl (order & Hp & Hrep)]. unfold serial_outcome_ok.
  rewrite Hl, Nat.eqb_refl. cbn [andb].
  eapply search_complete; [exact Hrep|exact Hp|]. rewrite index_from_length. lia.
Qed.

(* ev.mu is never held exclusively and shared at once, in any interleaving *)
Lemma mu_exclusive g0 st0 mods0 js sched :
  let c := run sched (init g0 st0 mods0 js) in c_w c <> None -> c_r c = [].
Proof. destruct (reachable_Inv1 g0 st0 mods0 js sched) as (H & _). exact H. Qed.
