(* C27 -- counterexample schedules of the faithful model, found by the bounded
   explorer of model/C27.v and checked by evaluation. *)
From verif Require Import lib.Base model.C27.
Open Scope nat_scope.

Definition or_nil (o : option (list label)) : list label := match o with Some l => l | None => [] end.
Definition end_of (st : state) (ls : list label) : state :=
  match run st ls with Some s => s | None => st end.

(* two shells, stale socket: shell 1 removes the fresh socket of shell 0's daemon *)
Definition wit_stale : list label :=
  Eval vm_compute in or_nil (find_witness false conn_without_db 60 (init 2 true) [LBegin 0; LBegin 1]).
Definition wit_stale_two : list label :=
  Eval vm_compute in or_nil (find_witness false two_serving 60 (init 2 true) [LBegin 0; LBegin 1]).
(* ... and when shell 0 then leaves, its daemon unlinks the path that now belongs to the other daemon *)
Definition wit_stale_exit : list label :=
  [LBegin 0; LBegin 1; LLstat 0; LDial 0; LLstat 1; LDial 1; LRemove 0; LSpawn 0; LListen 0;
   LOpenDB 0; LPollLstat 0; LPollDial 0; LRemove 1; LSpawn 1; LListen 1; LDBTimeout 1;
   LPollLstat 1; LPollDial 1; LLeave 0].

(* one shell, outdated daemon: the old daemon's listener.Close unlinks the socket of its successor *)
Definition wit_upgrade : list label :=
  Eval vm_compute in or_nil (find_witness false foreign_unlink 60 (init_old 1) [LBegin 0]).
Definition wit_upgrade_unreachable : list label :=
  Eval vm_compute in or_nil (find_witness false serving_unreachable 60 (init_old 1) [LBegin 0]).

(* no stale socket, no outdated daemon: the last client leaves while another shell starts *)
Definition wit_exit_race : list label :=
  Eval vm_compute in or_nil (find_witness false foreign_unlink 60 (init 2 false)
    [LBegin 0; LLstat 0; LSpawn 0; LListen 0; LOpenDB 0; LPollLstat 0; LPollDial 0; LLeave 0; LBegin 1]).
Definition wit_exit_race_nodb : list label :=
  Eval vm_compute in or_nil (find_witness false conn_without_db 80 (init 3 false)
    (wit_exit_race ++ [LExit3 0; LOpenDB 1; LPollTimeout 1; LBegin 2])).

Lemma stale_conn_without_db :
  exists ls st, run (init 2 true) ls = Some st /\ conn_without_db st = true.
Proof. exists wit_stale, (end_of (init 2 true) wit_stale). split; vm_compute; reflexivity. Qed.

Lemma stale_two_serving :
  exists ls st, run (init 2 true) ls = Some st /\ two_serving st = true.
Proof. exists wit_stale_two, (end_of (init 2 true) wit_stale_two). split; vm_compute; reflexivity. Qed.

Lemma stale_foreign_unlink :
  exists ls st, run (init 2 true) ls = Some st /\ foreign_unlink st = true.
Proof. exists wit_stale_exit, (end_of (init 2 true) wit_stale_exit). split; vm_compute; reflexivity. Qed.

Lemma upgrade_foreign_unlink :
  exists ls st, run (init_old 1) ls = Some st /\ foreign_unlink st = true.
Proof. exists wit_upgrade, (end_of (init_old 1) wit_upgrade). split; vm_compute; reflexivity. Qed.

Lemma upgrade_serving_unreachable :
  exists ls st, run (init_old 1) ls = Some st /\ serving_unreachable st = true.
Proof. exists wit_upgrade_unreachable, (end_of (init_old 1) wit_upgrade_unreachable). split; vm_compute; reflexivity. Qed.

Lemma exit_race_foreign_unlink :
  exists ls st, run (init 2 false) ls = Some st /\ foreign_unlink st = true.
Proof. exists wit_exit_race, (end_of (init 2 false) wit_exit_race). split; vm_compute; reflexivity. Qed.
