(* C39 -- proofs, part 6: Check and Call linearize at their read of ev.global.
   For ALL job sets (no restriction) and ALL interleavings: the namespace a
   Check compiled against / a Call runs against is exactly the namespace
   produced by the evaluations that precede it in the linearization order. *)
From verif Require Import lib.Base model.C39 proofs.C39_proofs proofs.C39_serial proofs.C39_full.
Open Scope N_scope.

Definition snapfree (o : op) : Prop := match o with ORdGlobal | ORdGlobalC => False | _ => True end.
Definition noC (o : op) : Prop := match o with ORdGlobalC => False | _ => True end.
Definition pre_ok (o : op) : Prop :=
  match o with ORdGlobal | ORdGlobalC | OCompile _ => False | _ => True end.

Lemma plain_snapfree xs : Forall plain_op xs -> Forall snapfree xs.
Proof. intros H. eapply Forall_impl; [|exact H]. intros o Ho. destruct o; simpl in *; auto. Qed.
Lemma plain_noC xs : Forall plain_op xs -> Forall noC xs.
Proof. intros H. eapply Forall_impl; [|exact H]. intros o Ho. destruct o; simpl in *; auto. Qed.
Lemma pre_ok_snapfree xs : Forall pre_ok xs -> Forall snapfree xs.
Proof. intros H. eapply Forall_impl; [|exact H]. intros o Ho. destruct o; simpl in *; auto. Qed.

Lemma plain_snapfree_one x : plain_op x -> snapfree x.
Proof. destruct x; simpl; auto. Qed.
Lemma plain_noC_one x : plain_op x -> noC x.
Proof. destruct x; simpl; auto. Qed.

(* the shape of the operations of thread t after one of its steps *)
Definition shape (o : op) (r ops' : list op) : Prop :=
  ops' = r
  \/ (exists m, ops' = OUseInstall m :: r)
  \/ (exists p g' fr xs, o = OCompile p /\ ops' = OWrGlobal g' fr :: OUnlockW :: xs /\ Forall plain_op xs)
  \/ (exists p, o = OCompile p /\ ops' = [OUnlockW]).

Lemma step_shape c t c' o r :
  step_opt c t = Some c' -> t_ops (c_thr c t) = o :: r ->
  (snapfree o -> t_snap (c_thr c' t) = t_snap (c_thr c t))
  /\ shape o r (t_ops (c_thr c' t)).
Proof.
  unfold step_opt, shape. intros Hs Hops. rewrite Hops in Hs.
  assert (Hfin : forall th' c'', c_thr c'' = upd (c_thr c) t th' ->
            t_snap th' = t_snap (c_thr c t) -> t_ops th' = r ->
            (snapfree o -> t_snap (c_thr c'' t) = t_snap (c_thr c t))
            /\ (t_ops (c_thr c'' t) = r
                \/ (exists m, t_ops (c_thr c'' t) = OUseInstall m :: r)
                \/ (exists p g' fr xs, o = OCompile p /\ t_ops (c_thr c'' t) = OWrGlobal g' fr :: OUnlockW :: xs /\ Forall plain_op xs)
                \/ (exists p, o = OCompile p /\ t_ops (c_thr c'' t) = [OUnlockW]))).
  { intros th' c'' E1 E2 E3. rewrite E1, upd_same. split; [intros _; exact E2|left; exact E3]. }
  destruct o.
  - destruct (c_w c); [discriminate|]. destruct (c_r c); [|discriminate]. inv_some. eapply Hfin; reflexivity.
  - destruct (c_w c) as [x|]; [|discriminate]. destruct (x =? t); [|discriminate]. inv_some. eapply Hfin; reflexivity.
  - destruct (c_w c); [discriminate|]. inv_some. eapply Hfin; reflexivity.
  - inv_some. eapply Hfin; reflexivity.
  - inv_some. eapply Hfin; reflexivity.
  - inv_some. simpl. rewrite upd_same. simpl. split; [intros []|left; reflexivity].
  - destruct (compile t 0 (t_snap (c_thr c t)) p) as [[[g' fr] xs]|] eqn:Hc; inv_some; simpl; rewrite upd_same; simpl;
      (split; [reflexivity|]).
    + right; right; left. exists p, g', fr, xs. split; [reflexivity|split; [reflexivity|]]. eapply compile_plain; eauto.
    + right; right; right. exists p. split; reflexivity.
  - inv_some. eapply Hfin; reflexivity.
  - destruct (compile t 0 (t_snap (c_thr c t)) p); inv_some; eapply Hfin; reflexivity.
  - inv_some. eapply Hfin; reflexivity.
  - inv_some. eapply Hfin; reflexivity.
  - inv_some. eapply Hfin; reflexivity.
  - destruct (memN m (c_mods c)); inv_some; [eapply Hfin; reflexivity|].
    simpl. rewrite upd_same. simpl. split; [reflexivity|right; left; exists m; reflexivity].
  - inv_some. eapply Hfin; reflexivity.
  - inv_some. simpl. rewrite upd_same. simpl. split; [intros []|left; reflexivity].
Qed.

Lemma shape_keep (Pr : op -> Prop) o r ops' :
  (forall m, Pr (OUseInstall m)) -> (forall g f, Pr (OWrGlobal g f)) -> Pr OUnlockW ->
  (forall x, plain_op x -> Pr x) ->
  shape o r ops' -> Forall Pr r -> Forall Pr ops'.
Proof.
  intros H1 H2 H3 H4 [E|[(m & E)|[(p & g' & fr & xs & _ & E & Hpl)|(p & _ & E)]]] Hr; subst ops'; auto.
  - constructor; [auto|constructor; [auto|]]. eapply Forall_impl; [|exact Hpl]. exact H4.
Qed.

Section Snap.
Variable P : N -> option (list stmt).
Variable S : N -> bool.          (* threads whose job takes a snapshot: Check and Call *)
Variable g0 : ns.

Inductive sphase (c : config) (t : N) : list op -> Prop :=
| SpEval ops : P t <> None -> Forall noC ops -> sphase c t ops
| SpPre pre post : P t = None -> ~ In t (c_lin c) -> Forall pre_ok pre -> Forall snapfree post ->
    sphase c t (pre ++ ORdGlobalC :: post)
| SpNever ops : P t = None -> S t = false -> ~ In t (c_lin c) -> Forall snapfree ops -> sphase c t ops
| SpPost ops : P t = None -> In t (c_lin c) -> Forall snapfree ops ->
    t_snap (c_thr c t) = ns_after P (before t (rev (c_lin c))) g0 -> sphase c t ops.

Definition Inv8 (c : config) : Prop :=
  (forall t, sphase c t (t_ops (c_thr c t)))
  /\ c_commits c = filter (fun t => is_some (P t)) (c_lin c)
  /\ NoDup (c_lin c).

Lemma sphase_frame c c' u x ops :
  sphase c u ops -> (c_lin c' = c_lin c \/ (c_lin c' = x :: c_lin c /\ x <> u)) ->
  c_thr c' u = c_thr c u -> sphase c' u ops.
Proof.
  intros Hph Hl Ht.
  assert (Hnin : ~ In u (c_lin c) -> ~ In u (c_lin c')).
  { intros Hn. destruct Hl as [E|[E Hx]]; rewrite E; [exact Hn|]. intros [H|H]; [congruence|exact (Hn H)]. }
  destruct Hph as [ops Hp Hn|pre post Hp Hn Hpre Hpost|ops Hp Hs Hn Hf|ops Hp Hin Hf Hsn].
  - apply SpEval; auto.
  - apply SpPre; auto.
  - apply SpNever; auto.
  - apply SpPost; auto.
    + destruct Hl as [E|[E _]]; rewrite E; [exact Hin|right; exact Hin].
    + rewrite Ht, Hsn. destruct Hl as [E|[E _]]; rewrite E; [reflexivity|].
      simpl. rewrite before_app_in by (apply -> in_rev; exact Hin). reflexivity.
Qed.

Lemma step_Inv8 c t : Inv3 P g0 c -> Inv8 c -> Inv8 (step c t).
Proof.
  intros (Hph3 & Hg3 & Hnd3 & _) (Hsp & Hcm & Hnd). unfold step.
  destruct (step_opt c t) as [c'|] eqn:Hs; [|repeat split; assumption].
  destruct (step_lin c t c' Hs) as (o & r & Hops & Hlin & Hthr).
  destruct (step_shared c t c' Hs) as (_ & _ & Hsh).
  destruct (step_shape c t c' o r Hs Hops) as [Hsnap Hshape].
  pose proof (Hsp t) as Ht. rewrite Hops in Ht.
  assert (Hothers : forall u, u <> t -> sphase c' u (t_ops (c_thr c' u))).
  { intros u Hne. rewrite (Hthr u Hne). apply (sphase_frame c c' u t); [apply Hsp| |apply Hthr; exact Hne].
    rewrite Hlin. destruct o; auto. }
  assert (Hglob : c_global c = ns_after P (rev (c_lin c)) g0).
  { rewrite Hg3, Hcm, <- filter_rev_N. apply ns_after_filter. }
  (* a thread that replaces ev.global is an Eval that has not committed *)
  assert (Hwr : forall g fr, o = OWrGlobal g fr -> P t <> None /\ ~ In t (c_lin c)).
  { intros g fr ->. pose proof (Hph3 t) as H3. rewrite Hops in H3.
    inversion H3 as [| | | |p g1 f1 xs Hl Hp Hn _|ops Hq]; subst.
    - split; [congruence|]. intros Hin. apply Hn. rewrite Hcm. apply filter_In. split; [exact Hin|].
      rewrite Hp. reflexivity.
    - apply Forall_cons_iff in Hq as [Hq _]. destruct Hq. }
  assert (HkC : Forall noC r -> Forall noC (t_ops (c_thr c' t))).
  { apply (shape_keep noC o r); auto; try (intros; exact I). apply plain_noC_one. }
  assert (HkS : Forall snapfree r -> Forall snapfree (t_ops (c_thr c' t))).
  { apply (shape_keep snapfree o r); auto; try (intros; exact I). apply plain_snapfree_one. }
  destruct (match o with OWrGlobal _ _ => true | ORdGlobalC => true | _ => false end) eqn:Hkind.
  - (* the linearization order grows *)
    assert (El : c_lin c' = t :: c_lin c) by (rewrite Hlin; destruct o; try discriminate; reflexivity).
    destruct o; try discriminate.
    + (* OWrGlobal *)
      destruct (Hwr g fresh eq_refl) as [Hp Hnl].
      assert (Ec : c_commits c' = t :: c_commits c).
      { destruct Hsh as [[_ E]|(g1 & f1 & r' & _ & _ & E)]; [|exact E].
        unfold step_opt in Hs. rewrite Hops in Hs. inv_some. reflexivity. }
      split; [|split].
      * intros u. destruct (N.eq_dec u t) as [->|Hne]; [|apply Hothers; exact Hne].
        inversion Ht as [ops Hp' Hn Hl|pre post Hp' Hn Hpre Hpost Hl|ops Hp' Hs' Hn Hf Hl|ops Hp' Hin Hf Hsn Hl];
          try congruence.
        apply SpEval; auto. subst ops. apply Forall_cons_iff in Hn as [_ Hn]. apply HkC; exact Hn.
      * rewrite El, Ec. simpl. destruct (P t); [simpl; f_equal; exact Hcm|congruence].
      * rewrite El. constructor; assumption.
    + (* ORdGlobalC: the snapshot *)
      assert (Ec : c_commits c' = c_commits c).
      { destruct Hsh as [[_ E]|(g & fr & r' & E & _)]; [exact E|]. rewrite Hops in E. discriminate. }
      inversion Ht as [ops Hp' Hn Hl|pre post Hp' Hn Hpre Hpost Hl|ops Hp' Hs' Hn Hf Hl|ops Hp' Hin Hf Hsn Hl].
      * subst ops. apply Forall_cons_iff in Hn as [Hn _]. destruct Hn.
      * destruct pre as [|o' pre']; simpl in Hl.
        2:{ inversion Hl as [[E1 E2]]. apply Forall_cons_iff in Hpre as [Ho' _]. rewrite E1 in Ho'. destruct Ho'. }
        inversion Hl; subst.
        split; [|split].
        -- intros u. destruct (N.eq_dec u t) as [->|Hne]; [|apply Hothers; exact Hne].
           unfold step_opt in Hs. rewrite Hops in Hs. inv_some. simpl. rewrite upd_same. simpl.
           apply SpPost; auto; [left; reflexivity|].
           simpl. rewrite upd_same. simpl.
           rewrite before_app_notin by (intros Hin; apply Hn; apply in_rev; exact Hin). exact Hglob.
        -- rewrite El, Ec. simpl. rewrite Hp'. simpl. exact Hcm.
        -- rewrite El. constructor; assumption.
      * subst ops. apply Forall_cons_iff in Hf as [Hf _]. destruct Hf.
      * subst ops. apply Forall_cons_iff in Hf as [Hf _]. destruct Hf.
  - (* the linearization order is unchanged *)
    assert (El : c_lin c' = c_lin c) by (rewrite Hlin; destruct o; try discriminate; reflexivity).
    assert (Ec : c_commits c' = c_commits c).
    { destruct Hsh as [[_ E]|(g & fr & r' & E & _)]; [exact E|]. rewrite Hops in E. inversion E; subst. discriminate. }
    split; [|rewrite El, Ec; split; assumption].
    intros u. destruct (N.eq_dec u t) as [->|Hne]; [|apply Hothers; exact Hne].
    inversion Ht as [ops Hp' Hn Hl|pre post Hp' Hn Hpre Hpost Hl|ops Hp' Hs' Hn Hf Hl|ops Hp' Hin Hf Hsn Hl].
    + subst ops. apply Forall_cons_iff in Hn as [_ Hn]. apply SpEval; auto.
    + destruct pre as [|o' pre']; simpl in Hl; inversion Hl; subst; [discriminate|].
      apply Forall_cons_iff in Hpre as [Ho' Hpre'].
      destruct Hshape as [E|[(m & E)|[(p & g' & fr & xs & Eo & _)|(p & Eo & _)]]].
      * rewrite E. apply SpPre; auto. rewrite El. exact Hn.
      * rewrite E. apply (SpPre c' t (OUseInstall m :: pre') post); auto; [rewrite El; exact Hn|].
        constructor; [exact I|exact Hpre'].
      * subst o. destruct Ho'.
      * subst o. destruct Ho'.
    + subst ops. apply Forall_cons_iff in Hf as [Ho Hf]. apply SpNever; auto; try (rewrite El; assumption).
    + subst ops. apply Forall_cons_iff in Hf as [Ho Hf]. apply SpPost; auto; try (rewrite El; assumption).
      rewrite (Hsnap Ho), El. exact Hsn.
Qed.

End Snap.

Definition snap_job (js : list job) (t : N) : bool :=
  match nth_error js (N.to_nat t) with
  | Some (JCheck _) | Some (JCall _) => true
  | _ => false
  end.

Lemma init_Inv8 g0 st0 mods0 js :
  Inv8 (eval_prog js) (snap_job js) g0 (init g0 st0 mods0 js).
Proof.
  split; [|split; [reflexivity|constructor]].
  intros t. rewrite init_thread. unfold eval_prog, snap_job.
  destruct (nth_error js (N.to_nat t)) as [[p|p|p]|] eqn:Hn; simpl.
  - apply SpEval; [unfold eval_prog; rewrite Hn; discriminate|repeat constructor].
  - apply (SpPre _ _ _ _ t [OLockR; ORdBuiltin] [OUnlockR; ORdModKeys; OCheck p]);
      [unfold eval_prog; rewrite Hn; reflexivity|intros []|repeat constructor|repeat constructor].
  - apply (SpPre _ _ _ _ t [OLockR] (OUnlockR :: call_ops g0 p));
      [unfold eval_prog; rewrite Hn; reflexivity|intros []|repeat constructor|].
    constructor; [exact I|]. apply plain_snapfree, call_ops_plain.
  - apply SpNever; [unfold eval_prog; rewrite Hn; reflexivity|unfold snap_job; rewrite Hn; reflexivity
                   |intros []|constructor].
Qed.

Lemma reach_Inv8 g0 st0 mods0 js sched :
  Inv8 (eval_prog js) (snap_job js) g0 (run sched (init g0 st0 mods0 js)).
Proof.
  assert (H : Inv3 (eval_prog js) g0 (run sched (init g0 st0 mods0 js))
              /\ Inv8 (eval_prog js) (snap_job js) g0 (run sched (init g0 st0 mods0 js))).
  { apply (run_invariant (fun x => Inv3 (eval_prog js) g0 x /\ Inv8 (eval_prog js) (snap_job js) g0 x)).
    - intros x t (A & B). split; [apply step_Inv3; exact A|apply step_Inv8; assumption].
    - split; [apply init_Inv3|apply init_Inv8]. }
  apply H.
Qed.

(* ALL job sets, ALL interleavings: once a thread that is not an Eval has
   taken its snapshot of ev.global, what it holds is exactly the namespace
   produced by the evaluations that precede it in the linearization order;
   the order has no duplicates and the commits are its Evals *)
Lemma snapshot_linearizes g0 st0 mods0 js sched t :
  let c := run sched (init g0 st0 mods0 js) in
  eval_prog js t = None -> In t (c_lin c) ->
  t_snap (c_thr c t) = ns_after (eval_prog js) (before t (rev (c_lin c))) g0.
Proof.
  intros c Hp Hin. destruct (reach_Inv8 g0 st0 mods0 js sched) as (Hsp & _). fold c in Hsp.
  pose proof (Hsp t) as Ht.
  inversion Ht as [ops Hp' Hn Hl|pre post Hp' Hn Hpre Hpost Hl|ops Hp' Hs' Hn Hf Hl|ops Hp' Hin' Hf Hsn Hl];
    try contradiction; try congruence.
Qed.

Lemma lin_order_facts g0 st0 mods0 js sched :
  let c := run sched (init g0 st0 mods0 js) in
  NoDup (c_lin c)
  /\ c_commits c = filter (fun t => is_some (eval_prog js t)) (c_lin c)
  /\ c_global c = ns_after (eval_prog js) (rev (c_lin c)) g0.
Proof.
  intros c. destruct (reach_Inv8 g0 st0 mods0 js sched) as (_ & Hcm & Hnd). fold c in Hcm, Hnd.
  destruct (global_update_atomic g0 st0 mods0 js sched) as (Hg & _). fold c in Hg.
  split; [exact Hnd|split; [exact Hcm|]].
  rewrite Hg, Hcm, <- filter_rev_N. apply ns_after_filter.
Qed.

(* a finished Check or Call has taken its place in the linearization order *)
Lemma finished_snapshot_job g0 st0 mods0 js sched t :
  let c := run sched (init g0 st0 mods0 js) in
  snap_job js t = true -> t_ops (c_thr c t) = [] ->
  In t (c_lin c)
  /\ t_snap (c_thr c t) = ns_after (eval_prog js) (before t (rev (c_lin c))) g0.
Proof.
  intros c Hs Hdone. destruct (reach_Inv8 g0 st0 mods0 js sched) as (Hsp & _). fold c in Hsp.
  pose proof (Hsp t) as Ht. rewrite Hdone in Ht.
  assert (Hp : eval_prog js t = None).
  { unfold snap_job in Hs. unfold eval_prog. destruct (nth_error js (N.to_nat t)) as [[p|p|p]|]; congruence. }
  inversion Ht as [ops Hp' Hn Hl|pre post Hp' Hn Hpre Hpost Hl|ops Hp' Hs' Hn Hf Hl|ops Hp' Hin' Hf Hsn Hl].
  - congruence.
  - destruct pre; discriminate.
  - congruence.
  - auto.
Qed.

Lemma call_linearizes g0 st0 mods0 js sched t p :
  let c := run sched (init g0 st0 mods0 js) in
  nth_error js (N.to_nat t) = Some (JCall p) -> t_ops (c_thr c t) = [] ->
  In t (c_lin c)
  /\ t_snap (c_thr c t) = ns_after (eval_prog js) (before t (rev (c_lin c))) g0.
Proof.
  intros c Hn Hdone. apply finished_snapshot_job; [|exact Hdone].
  unfold snap_job. rewrite Hn. reflexivity.
Qed.
