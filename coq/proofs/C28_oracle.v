(* C28 — proofs, part 4: the decidable oracle implies the Prop-level
   statement of the property. *)
From Coq Require Import Permutation.
From verif Require Import lib.Base lib.ListX lib.Utf8 model.C28 proofs.C28_proofs proofs.C28_words.
Open Scope nat_scope.

(* ------------------------------------------------------------------ *)
(* character boundaries of a byte string, the way Go decodes it *)

(* boundary s d k: byte offset d is the start of the k-th character of s
   (or the end of s when s has exactly k characters) *)
Inductive boundary : bytes -> nat -> nat -> Prop :=
| B0 s : boundary s 0 0
| BS s r w d k : s <> [] -> decode_rune s = (r, w) -> boundary (skipn w s) d k ->
                 boundary s (w + d) (S k).

Lemma rune_index_fuel_sound fuel : forall s d k,
  rune_index_fuel fuel s d = Some k -> boundary s d k.
Proof.
  induction fuel as [|f IH]; intros s d k H.
  - destruct d; simpl in H; [inversion H; constructor|discriminate].
  - destruct d as [|d']; [simpl in H; inversion H; constructor|].
    cbn [rune_index_fuel] in H.
    destruct s as [|b0 s']; [discriminate|].
    destruct (decode_rune (b0 :: s')) as [r w] eqn:Ed.
    destruct (w <=? S d') eqn:Ew; [|discriminate]. apply Nat.leb_le in Ew.
    destruct (rune_index_fuel f (skipn w (b0 :: s')) (S d' - w)) as [k'|] eqn:Er; [|discriminate].
    simpl in H. inversion H; subst.
    replace (S d') with (w + (S d' - w)) by lia.
    eapply BS; [discriminate|exact Ed|apply IH; exact Er].
Qed.

Lemma rune_index_sound s d k : rune_index s d = Some k -> boundary s d k.
Proof. apply rune_index_fuel_sound. Qed.

(* the rune index found is an index into the decoded text *)
Lemma rune_index_fuel_le fuel : forall s d k,
  rune_index_fuel fuel s d = Some k -> k <= length (decode_all_fuel fuel s).
Proof.
  induction fuel as [|f IH]; intros s d k H.
  - destruct d; simpl in H; [inversion H; lia|discriminate].
  - destruct d as [|d']; [simpl in H; inversion H; lia|].
    cbn [rune_index_fuel] in H. cbn [decode_all_fuel].
    destruct s as [|b0 s']; [discriminate|].
    destruct (decode_rune (b0 :: s')) as [r w] eqn:Ed.
    destruct (w <=? S d'); [|discriminate].
    destruct (rune_index_fuel f (skipn w (b0 :: s')) (S d' - w)) as [k'|] eqn:Er; [|discriminate].
    simpl in H. inversion H; subst. apply IH in Er. simpl. lia.
Qed.

Lemma rune_index_le s d k : rune_index s d = Some k -> k <= length (decode_all s).
Proof. apply rune_index_fuel_le. Qed.

(* ------------------------------------------------------------------ *)
(* permutation check *)

Lemma count_rune_occ r l : count_rune r l = count_occ N.eq_dec l r.
Proof.
  induction l as [|x l IH]; [reflexivity|]. simpl.
  destruct (N.eq_dec x r) as [E|E].
  - apply N.eqb_eq in E. rewrite E, IH. reflexivity.
  - apply N.eqb_neq in E. rewrite E, IH. reflexivity.
Qed.

Lemma perm_check_sound a b : perm_check a b = true -> Permutation a b.
Proof.
  unfold perm_check. intros H. rewrite forallb_forall in H.
  apply (Permutation_count_occ N.eq_dec). intros x.
  destruct (in_dec N.eq_dec x (a ++ b)) as [Hin|Hin].
  - apply H in Hin. apply Nat.eqb_eq in Hin. rewrite !count_rune_occ in Hin. exact Hin.
  - assert (Ha : ~ In x a) by (intros Hx; apply Hin, in_or_app; left; exact Hx).
    assert (Hb : ~ In x b) by (intros Hx; apply Hin, in_or_app; right; exact Hx).
    apply (count_occ_not_In N.eq_dec) in Ha. apply (count_occ_not_In N.eq_dec) in Hb. congruence.
Qed.

(* ------------------------------------------------------------------ *)
(* the executable "nearest word start" functions meet the specification *)

Lemma last_ws_before_spec cat rs d : lands_left cat rs d (last_ws_before cat rs d).
Proof.
  induction d as [|d IH]; simpl.
  - split; [left; reflexivity|]. split; [lia|]. intros q Hq; lia.
  - destruct (word_startb cat rs d) eqn:E.
    + apply word_startb_spec in E. split; [right; split; [exact E|lia]|]. split; [lia|]. intros q Hq; lia.
    + destruct IH as [H1 [H2 H3]]. split; [|split; [lia|]].
      * destruct H1 as [H1|[H1 H1']]; [left; exact H1|right; split; [exact H1|lia]].
      * intros q Hq Hw. destruct (Nat.eq_dec q d) as [Eq|Eq].
        -- subst q. apply word_startb_spec in Hw. congruence.
        -- apply (H3 q); [lia|exact Hw].
Qed.

Lemma first_ws_from_spec cat rs : forall k p,
  let r := first_ws_from cat rs k p in
  p <= r <= p + k /\ (r = p + k \/ word_start cat rs r) /\
  forall q, p <= q < r -> ~ word_start cat rs q.
Proof.
  induction k as [|k IH]; intros p; simpl.
  - split; [lia|]. split; [left; lia|]. intros q Hq; lia.
  - destruct (word_startb cat rs p) eqn:E.
    + apply word_startb_spec in E. split; [lia|]. split; [right; exact E|]. intros q Hq; lia.
    + destruct (IH (S p)) as [H1 [H2 H3]]. split; [lia|]. split.
      * destruct H2 as [H2|H2]; [left; lia|right; exact H2].
      * intros q Hq Hw. destruct (Nat.eq_dec q p) as [Eq|Eq].
        -- subst q. apply word_startb_spec in Hw. congruence.
        -- apply (H3 q); [lia|exact Hw].
Qed.

Lemma first_ws_after_spec cat rs d : d <= length rs -> lands_right cat rs d (first_ws_after cat rs d).
Proof.
  intros H. unfold first_ws_after.
  destruct (length rs <=? d) eqn:E.
  - apply Nat.leb_le in E. split; [left; reflexivity|]. split; [lia|]. intros q Hq; lia.
  - apply Nat.leb_gt in E.
    destruct (first_ws_from_spec cat rs (length rs - S d) (S d)) as [H1 [H2 H3]].
    split; [|split; [lia|]].
    + destruct H2 as [H2|H2]; [left; lia|right; split; [exact H2|lia]].
    + intros q Hq. apply H3. lia.
Qed.

(* the landing position is unique, so the model's word motions compute
   exactly the nearest word start *)
Lemma lands_left_unique cat rs d p p' : lands_left cat rs d p -> lands_left cat rs d p' -> p = p'.
Proof.
  intros [H1 [H2 H3]] [H1' [H2' H3']].
  destruct (Nat.lt_trichotomy p p') as [L|[L|L]]; [|exact L|]; exfalso.
  - destruct H1' as [E|[Hw Hl]]; [lia|]. apply (H3 p'); [lia|exact Hw].
  - destruct H1 as [E|[Hw Hl]]; [lia|]. apply (H3' p); [lia|exact Hw].
Qed.

Lemma lands_right_unique cat rs d p p' : lands_right cat rs d p -> lands_right cat rs d p' -> p = p'.
Proof.
  intros [H1 [H2 H3]] [H1' [H2' H3']].
  destruct (Nat.lt_trichotomy p p') as [L|[L|L]]; [|exact L|]; exfalso.
  - destruct H1 as [E|[Hw Hl]]; [lia|]. apply (H3' p); [lia|exact Hw].
  - destruct H1' as [E|[Hw Hl]]; [lia|]. apply (H3 p'); [lia|exact Hw].
Qed.

Lemma move_left_gw_nearest cat rs d : d <= length rs ->
  move_left_gw cat rs d = last_ws_before cat rs d.
Proof.
  intros H. eapply lands_left_unique; [apply move_left_gw_lands; exact H|apply last_ws_before_spec].
Qed.

Lemma move_right_gw_nearest cat rs d : d <= length rs ->
  move_right_gw cat rs d = first_ws_after cat rs d.
Proof.
  intros H. eapply lands_right_unique; [apply move_right_gw_lands; exact H|apply first_ws_after_spec; exact H].
Qed.

(* ------------------------------------------------------------------ *)
(* the property on one observed step, as a proposition *)

Definition step_spec (U : uni) (e : event) (c0 : bytes) (d0 : nat) (c1 : bytes) (d1 : nat) (aux : nat) : Prop :=
  (* the cursor is within the buffer and on a character boundary *)
  (exists i1, boundary c1 d1 i1) /\
  (* valid UTF-8 stays valid UTF-8 (no character is cut in half) *)
  (valid c0 = true -> valid c1 = true) /\
  match e with
  | ECmd c =>
    exists i0 i1, boundary c0 d0 i0 /\ boundary c1 d1 i1 /\
      rune_index c0 d0 = Some i0 /\ rune_index c1 d1 = Some i1 /\
      let rs0 := decode_all c0 in
      let rs1 := decode_all c1 in
      (* kill: exactly the text between the old cursor and the motion's target is deleted *)
      (is_kill c = true ->
         exists m, rune_index c0 aux = Some m /\
           rs1 = firstn (Nat.min i0 m) rs0 ++ skipn (Nat.max i0 m) rs0 /\ i1 = Nat.min i0 m) /\
      (* transpose: only reorders *)
      (is_transpose c = true -> Permutation rs0 rs1) /\
      (* word motions land on the nearest word start *)
      (forall f, c = MoveLeftW f -> lands_left (cat_of U f) rs0 i0 i1) /\
      (forall f, c = MoveRightW f -> lands_right (cat_of U f) rs0 i0 i1)
  | _ => True
  end.

Lemma check_step_sound U e c0 d0 c1 d1 aux :
  check_step U e c0 d0 c1 d1 aux = true -> step_spec U e c0 d0 c1 d1 aux.
Proof.
  unfold check_step, step_spec, at_boundary. intros H.
  apply andb_true_iff in H as [Hb H]. apply andb_true_iff in Hb as [Hb Hval].
  destruct (rune_index c1 d1) as [i1|] eqn:E1; [|discriminate].
  split; [exists i1; apply rune_index_sound; exact E1|].
  split; [intros Hv0; rewrite Hv0 in Hval; exact Hval|].
  destruct e as [r md|start|c|rs d]; auto.
  destruct (rune_index c0 d0) as [i0|] eqn:E0; [|discriminate].
  exists i0, i1.
  split; [apply rune_index_sound; exact E0|]. split; [apply rune_index_sound; exact E1|].
  split; [reflexivity|]. split; [reflexivity|].
  apply andb_true_iff in H as [H Hw]. apply andb_true_iff in H as [Hk Ht].
  cbv zeta. split; [|split; [|split]].
  - intros Hik. rewrite Hik in Hk.
    destruct (rune_index c0 aux) as [m|]; [|discriminate]. exists m. split; [reflexivity|].
    unfold kill_check in Hk. apply andb_true_iff in Hk as [Hk1 Hk2].
    apply (proj1 (list_eqb_spec N.eqb N.eqb_eq _ _)) in Hk1. apply Nat.eqb_eq in Hk2. auto.
  - intros Hit. rewrite Hit in Ht. apply perm_check_sound. exact Ht.
  - intros f Ec. subst c. simpl in Hw. apply Nat.eqb_eq in Hw. rewrite Hw. apply last_ws_before_spec.
  - intros f Ec. subst c. simpl in Hw. apply Nat.eqb_eq in Hw. rewrite Hw.
    apply first_ws_after_spec. apply (rune_index_le c0 d0). exact E0.
Qed.
