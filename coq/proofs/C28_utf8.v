(* C28 — proofs, part 6: the byte view.  Decoding an encoded valid rune gives
   the rune back, so the byte offset of a rune index is a character boundary
   in the sense of the oracle ([rune_index] walks the bytes the way Go does). *)
From Coq Require Import ZifyN ZifyNat ZifyBool.
From verif Require Import lib.Base lib.ListX lib.Utf8 model.C28 proofs.C28_proofs proofs.C28_area proofs.C28_oracle.
Ltac Zify.zify_post_hook ::= Z.div_mod_to_equations.

Ltac dec_cmp :=
  repeat match goal with
  | |- context [(?a <? ?b)%N] => destruct (N.ltb_spec a b); try lia
  | |- context [(?a <=? ?b)%N] => destruct (N.leb_spec a b); try lia
  | |- context [(?a =? ?b)%N] => destruct (N.eqb_spec a b); try lia
  end.

Lemma decode_encode_rune (r : N) (t : bytes) : valid_rune r = true ->
  decode_rune (encode_rune r ++ t) = (r, length (encode_rune r)).
Proof.
  unfold valid_rune, is_surrogate, MaxRune. intros Hv.
  assert (Hr : (r <= 1114111 /\ (r < 55296 \/ 57343 < r))%N) by lia.
  clear Hv. destruct Hr as [Hmax Hsur].
  unfold encode_rune.
  destruct (N.ltb_spec r 128) as [H1|H1].
  { simpl. dec_cmp. reflexivity. }
  destruct (N.ltb_spec r 2048) as [H2|H2].
  { cbn [app length]. unfold decode_rune, first_info. dec_cmp. cbn [orb negb]. f_equal. lia. }
  replace (valid_rune r) with true by (unfold valid_rune, is_surrogate, MaxRune; lia).
  cbn [negb].
  destruct (N.ltb_spec r 65536) as [H3|H3].
  { cbn [app length]. unfold decode_rune, first_info, is_cont. dec_cmp; cbn [orb andb negb]; f_equal; lia. }
  cbn [app length]. unfold decode_rune, first_info, is_cont. dec_cmp; cbn [orb andb negb]; f_equal; lia.
Qed.

Open Scope nat_scope.

Lemma encode_rune_length (r : N) : 1 <= length (encode_rune r) <= 4.
Proof.
  unfold encode_rune.
  destruct (r <? 128)%N; [simpl; lia|]. destruct (r <? 2048)%N; [simpl; lia|].
  destruct (negb (valid_rune r)); [simpl; lia|]. destruct (r <? 65536)%N; simpl; lia.
Qed.

Definition all_valid (rs : list N) : Prop := Forall (fun r => valid_rune r = true) rs.

Lemma skipn_app_exact {A} (a b : list A) : skipn (length a) (a ++ b) = b.
Proof. rewrite skipn_app, Nat.sub_diag, skipn_all. reflexivity. Qed.

Lemma byte_off_cons r rs d : byte_off (r :: rs) (S d) = length (encode_rune r) + byte_off rs d.
Proof. unfold byte_off, blen. simpl firstn. unfold encode_all. simpl flat_map. apply app_length. Qed.

(* the oracle's reading of the byte offset of rune index d is d *)
Lemma rune_index_fuel_byte_off rs : forall d t fuel,
  all_valid rs -> d <= length rs -> length (encode_all rs ++ t) <= fuel ->
  rune_index_fuel fuel (encode_all rs ++ t) (byte_off rs d) = Some d.
Proof.
  induction rs as [|r rs IH]; intros d t fuel Hv Hd Hf.
  - simpl in Hd. assert (d = 0) by lia. subst d. destruct fuel; reflexivity.
  - destruct d as [|d]; [destruct fuel; reflexivity|].
    inversion Hv as [|? ? Hr Hrs]; subst.
    rewrite byte_off_cons.
    pose proof (encode_rune_length r) as [Hl _].
    assert (Es : encode_all (r :: rs) ++ t = encode_rune r ++ (encode_all rs ++ t))
      by (unfold encode_all; simpl flat_map; rewrite app_assoc; reflexivity).
    rewrite Es in *. rewrite app_length in Hf.
    destruct fuel as [|f]; [lia|].
    destruct (length (encode_rune r) + byte_off rs d) as [|n] eqn:En; [lia|].
    cbn [rune_index_fuel].
    destruct (encode_rune r ++ encode_all rs ++ t) as [|b0 s'] eqn:Ec.
    { apply (f_equal (@length N)) in Ec. rewrite app_length in Ec. simpl in Ec. lia. }
    rewrite <- Ec, decode_encode_rune by exact Hr.
    rewrite <- En.
    replace (length (encode_rune r) <=? length (encode_rune r) + byte_off rs d) with true
      by (symmetry; apply Nat.leb_le; lia).
    rewrite skipn_app_exact.
    replace (length (encode_rune r) + byte_off rs d - length (encode_rune r)) with (byte_off rs d) by lia.
    rewrite IH; [reflexivity|exact Hrs|simpl in Hd; lia|lia].
Qed.

Lemma byte_off_is_char_boundary rs d : all_valid rs -> d <= length rs ->
  rune_index (encode_all rs) (byte_off rs d) = Some d /\
  at_boundary (encode_all rs) (byte_off rs d) = true.
Proof.
  intros Hv Hd.
  assert (E : rune_index (encode_all rs) (byte_off rs d) = Some d).
  { unfold rune_index. rewrite <- (app_nil_r (encode_all rs)) at 2.
    apply rune_index_fuel_byte_off; [exact Hv|exact Hd|rewrite app_nil_r; lia]. }
  split; [exact E|]. unfold at_boundary. rewrite E. reflexivity.
Qed.

(* decoding the encoded buffer gives the runes back *)
Lemma decode_all_fuel_encode rs : forall fuel,
  all_valid rs -> length (encode_all rs) <= fuel -> decode_all_fuel fuel (encode_all rs) = rs.
Proof.
  induction rs as [|r rs IH]; intros fuel Hv Hf.
  - destruct fuel; reflexivity.
  - inversion Hv as [|? ? Hr Hrs]; subst.
    pose proof (encode_rune_length r) as [Hl _].
    assert (Es : encode_all (r :: rs) = encode_rune r ++ encode_all rs) by reflexivity.
    rewrite Es in *. rewrite app_length in Hf.
    destruct fuel as [|f]; [lia|]. cbn [decode_all_fuel].
    destruct (encode_rune r ++ encode_all rs) as [|b0 s'] eqn:Ec.
    { apply (f_equal (@length N)) in Ec. rewrite app_length in Ec. simpl in Ec. lia. }
    rewrite <- Ec, decode_encode_rune by exact Hr.
    rewrite skipn_app_exact, IH; [reflexivity|exact Hrs|lia].
Qed.

Lemma decode_all_encode_all rs : all_valid rs -> decode_all (encode_all rs) = rs.
Proof. intros Hv. apply decode_all_fuel_encode; [exact Hv|lia]. Qed.

(* ---- the width of a decoded character; boundaries lie inside the text ---- *)
Lemma decode_rune_width s : s <> [] ->
  1 <= snd (decode_rune s) /\ snd (decode_rune s) <= length s.
Proof.
  intros Hs. destruct s as [|p0 r1]; [congruence|]. clear Hs.
  unfold decode_rune.
  destruct (first_info p0) as [[[sz lo] hi]|];
  repeat match goal with
  | |- context [match ?x with _ => _ end] => destruct x
  end; simpl; lia.
Qed.

Lemma boundary_le s d k : boundary s d k -> d <= length s /\ k <= d.
Proof.
  induction 1 as [s|s r w d k Hs Hd Hb [IH1 IH2]]; [lia|].
  pose proof (decode_rune_width s Hs) as [H1 H2]. rewrite Hd in H1, H2. simpl in H1, H2.
  rewrite skipn_length in IH1. lia.
Qed.

(* the encoding of valid runes is valid UTF-8 *)
Lemma encode_rune_not_error_byte (r : N) : valid_rune r = true ->
  (r =? RuneError)%N && Nat.eqb (length (encode_rune r)) 1 = false.
Proof.
  intros _. unfold encode_rune, RuneError.
  destruct (N.ltb_spec r 128) as [H|H].
  { destruct (N.eqb_spec r 65533); [lia|reflexivity]. }
  destruct (r <? 2048)%N; [apply andb_false_r|].
  destruct (negb (valid_rune r)); [apply andb_false_r|].
  destruct (r <? 65536)%N; apply andb_false_r.
Qed.

Lemma valid_fuel_encode rs : forall fuel,
  all_valid rs -> length (encode_all rs) <= fuel -> valid_fuel fuel (encode_all rs) = true.
Proof.
  induction rs as [|r rs IH]; intros fuel Hv Hf.
  - destruct fuel; reflexivity.
  - inversion Hv as [|? ? Hr Hrs]; subst.
    pose proof (encode_rune_length r) as [Hl _].
    assert (Es : encode_all (r :: rs) = encode_rune r ++ encode_all rs) by reflexivity.
    rewrite Es in *. rewrite app_length in Hf.
    destruct fuel as [|f]; [lia|]. cbn [valid_fuel].
    destruct (encode_rune r ++ encode_all rs) as [|b0 s'] eqn:Ec.
    { apply (f_equal (@length N)) in Ec. rewrite app_length in Ec. simpl in Ec. lia. }
    rewrite <- Ec, decode_encode_rune by exact Hr.
    rewrite encode_rune_not_error_byte by exact Hr.
    rewrite skipn_app_exact. apply IH; [exact Hrs|lia].
Qed.

Lemma valid_encode_all rs : all_valid rs -> valid (encode_all rs) = true.
Proof. intros Hv. apply valid_fuel_encode; [exact Hv|lia]. Qed.
