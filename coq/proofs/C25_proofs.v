(* C25 — proofs: every kill point leaves a prefix state containing the
   acknowledged operations; numbers handed out after reopening are fresh; the
   acceptor and the oracle are sound. *)
From verif Require Import lib.Base model.C24_F64 model.C24_StoreSpec model.C24 model.C25
  proofs.C24_proofs proofs.C24_more.
From Coq Require Import Floats.SpecFloat Sorting.Sorted Sorting.Permutation Lia.
Open Scope N_scope.

Definition is_prefix {A} (p l : list A) : Prop := exists r, l = p ++ r.

(* ------------------------------------------------------------------ *)
(* the store layer: states after a history *)
Lemma seq_exec_bounds l : forall ss, s_seq ss + N.of_nat (length l) < two64 ->
  s_seq ss <= s_seq (spec_exec isort_desc ss l)
  /\ s_seq (spec_exec isort_desc ss l) <= s_seq ss + N.of_nat (length l).
Proof.
  induction l as [|o l IH]; intros ss Hb; cbn [spec_exec length] in *; [lia|].
  rewrite Nat2N.inj_succ in *.
  pose proof (spec_step_seq isort_desc ss o) as Hs.
  assert (Hs' : s_seq (fst (spec_step isort_desc ss o)) = s_seq ss
                \/ s_seq (fst (spec_step isort_desc ss o)) = s_seq ss + 1).
  { destruct o; try (left; exact Hs). right. rewrite Hs. apply wrap64_small. lia. }
  destruct (IH (fst (spec_step isort_desc ss o)) ltac:(destruct Hs' as [->| ->]; lia)) as [H1 H2].
  destruct Hs' as [E|E]; rewrite E in *; lia.
Qed.

Lemma exec_refines l : forall cs ss, R cs ss -> s_seq ss + N.of_nat (length l) < two64 ->
  R (conc_exec cs l) (spec_exec isort_desc ss l).
Proof.
  induction l as [|o l IH]; intros cs ss HR Hb; cbn [conc_exec spec_exec length] in *; [exact HR|].
  rewrite Nat2N.inj_succ in Hb.
  pose proof (step_refines isort_desc cs ss o HR ltac:(lia)) as [_ HR'].
  pose proof (spec_step_wf isort_desc ss o (R_wf _ _ HR) ltac:(lia)) as [_ Hs].
  apply IH; [exact HR'|]. destruct Hs as [->| ->]; lia.
Qed.

Lemma dump_refines cs ss : R cs ss -> s_seq ss + 3 < two64 -> dump_c cs = dump_s ss.
Proof. intros HR Hb. unfold dump_c, dump_s. apply run_refines; [exact HR|exact Hb]. Qed.

(* ------------------------------------------------------------------ *)
(* the process: what any prefix of the event trace contains *)
Lemma prefix_facts h : forall cs tr, is_prefix tr (ptrace cs h) ->
  (length (acks tr) <= returned tr)%nat /\ (returned tr <= started tr)%nat
  /\ (started tr <= length h)%nat
  /\ acks tr = firstn (length (acks tr)) (conc_run isort_desc cs h).
Proof.
  induction h as [|o h IH]; intros cs tr [rest E].
  - cbn [ptrace] in E. symmetry in E. apply app_eq_nil in E as [-> _]. cbn. repeat split; lia.
  - cbn [ptrace conc_run] in *. destruct (conc_step isort_desc cs o) as [cs' r].
    destruct tr as [|e1 tr]; [cbn; repeat split; lia|].
    injection E as <- E.
    destruct tr as [|e2 tr]; [cbn; repeat split; lia|].
    injection E as <- E.
    destruct tr as [|e3 tr]; [cbn; repeat split; lia|].
    injection E as <- E.
    destruct (IH cs' tr (ex_intro _ rest E)) as (H1 & H2 & H3 & H4).
    cbn [acks returned started length firstn]. repeat split; try lia.
    f_equal. exact H4.
Qed.

Section ContractB.
  (* Contract B.  [recovered tr]: how many transactions, in the order they were
     started, a reopened database shows when the process was killed after
     emitting [tr].  Whole transactions only (atomicity); at least those whose
     db.Update returned (durability); none that was not started. *)
  Variable recovered : list pevent -> nat.
  Hypothesis B_durable : forall tr, (returned tr <= recovered tr)%nat.
  Hypothesis B_started : forall tr, (recovered tr <= started tr)%nat.

  Lemma crash_prefix cs ss h tr :
    R cs ss -> s_seq ss + N.of_nat (length h) < two63 ->
    is_prefix tr (ptrace cs h) ->
    let k := recovered tr in
    (length (acks tr) <= k <= length h)%nat
    /\ acks tr = firstn (length (acks tr)) (spec_run isort_desc ss h)
    /\ R (reopen recovered cs h tr) (spec_exec isort_desc ss (firstn k h))
    /\ dump_c (reopen recovered cs h tr) = dump_s (spec_exec isort_desc ss (firstn k h)).
  Proof.
    intros HR Hb Hp k. pose proof two63_lt_two64 as H64. unfold two63, two64 in *.
    destruct (prefix_facts h cs tr Hp) as (H1 & H2 & H3 & H4).
    pose proof (B_durable tr) as Hd. pose proof (B_started tr) as Hs. fold k in Hd, Hs.
    pose proof (firstn_length k h) as Hl.
    assert (HR' : R (reopen recovered cs h tr) (spec_exec isort_desc ss (firstn k h))).
    { unfold reopen. fold k. apply exec_refines; [exact HR|]. unfold two64. lia. }
    split; [lia|]. split; [|split].
    - rewrite H4 at 1. f_equal. apply run_refines; [exact HR|]. unfold two64. lia.
    - exact HR'.
    - apply dump_refines; [exact HR'|].
      pose proof (seq_exec_bounds (firstn k h) ss ltac:(unfold two64; lia)) as [_ Hle].
      unfold two64. lia.
  Qed.

  (* numbers acknowledged before the kill are at most the bucket sequence of any
     state that contains the acknowledged operations *)
  Lemma adds_le h : forall ss n k, (n <= k)%nat -> s_seq ss + N.of_nat (length h) < two63 ->
    Forall (fun z => (z <= Z.of_N (s_seq (spec_exec isort_desc ss (firstn k h))))%Z)
           (adds h (firstn n (spec_run isort_desc ss h))).
  Proof.
    pose proof two63_lt_two64 as H64. unfold two63, two64 in H64.
    induction h as [|o h IH]; intros ss n k Hnk Hb; [destruct n; constructor|].
    destruct n as [|n]; [destruct o; constructor|].
    destruct k as [|k]; [lia|].
    cbn [spec_run firstn spec_exec length] in *. rewrite Nat2N.inj_succ in Hb.
    pose proof (spec_step_seq isort_desc ss o) as Hs.
    destruct (spec_step isort_desc ss o) as [ss' r] eqn:E. cbn [fst firstn] in *.
    assert (Hb' : s_seq ss' + N.of_nat (length h) < two63).
    { destruct o; rewrite Hs; try lia. rewrite wrap64_small by (unfold two64, two63 in *; lia). lia. }
    specialize (IH ss' n k ltac:(lia) Hb').
    destruct o; try exact IH.
    (* AddCmd *)
    cbn [spec_step] in E. unfold sp_add in E. injection E as E1 E2. subst r.
    cbn [adds]. constructor; [|exact IH].
    rewrite <- Hs. rewrite to_int_small by (unfold two63 in *; lia).
    pose proof (seq_exec_bounds (firstn k h) ss') as Hm.
    pose proof (firstn_length k h) as Hl.
    destruct Hm as [Hm _]; [unfold two64, two63 in *; lia|]. lia.
  Qed.

  Lemma seq_after_reopen_fresh cs ss h tr h2 :
    R cs ss -> s_seq ss + N.of_nat (length h) + N.of_nat (length h2) < two63 ->
    is_prefix tr (ptrace cs h) ->
    forall z z', In z (adds h (acks tr)) ->
      In z' (adds h2 (conc_run isort_desc (reopen recovered cs h tr) h2)) -> (z < z')%Z.
  Proof.
    intros HR Hb Hp z z' Hz Hz'. pose proof two63_lt_two64 as H64. unfold two63, two64 in H64.
    destruct (crash_prefix cs ss h tr HR ltac:(lia) Hp) as (Hk & Ha & HR' & _).
    set (k := recovered tr) in *. set (ss1 := spec_exec isort_desc ss (firstn k h)) in *.
    pose proof (firstn_length k h) as Hl.
    pose proof (seq_exec_bounds (firstn k h) ss ltac:(unfold two64, two63 in *; lia)) as [_ Hle].
    fold ss1 in Hle.
    rewrite (run_refines isort_desc h2 _ ss1 HR') in Hz' by (unfold two64, two63 in *; lia).
    destruct (adds_spec isort_desc h2 ss1 ltac:(unfold two63 in *; lia)) as [Hgt _].
    rewrite Forall_forall in Hgt. specialize (Hgt z' Hz').
    rewrite Ha in Hz.
    pose proof (adds_le h ss (length (acks tr)) k ltac:(lia) ltac:(lia)) as Hle2.
    rewrite Forall_forall in Hle2. specialize (Hle2 z Hz). fold ss1 in Hle2. lia.
  Qed.

  Lemma crash_prefix_fresh_db seq0 h tr :
    seq0 + N.of_nat (length h) < two63 ->
    is_prefix tr (ptrace (conc_init seq0) h) ->
    exists k, (length (acks tr) <= k <= length h)%nat
    /\ acks tr = firstn (length (acks tr)) (spec_run isort_desc (spec_init seq0) h)
    /\ dump_c (reopen recovered (conc_init seq0) h tr)
       = dump_s (spec_exec isort_desc (spec_init seq0) (firstn k h)).
  Proof.
    intros Hb Hp. pose proof two63_lt_two64 as H64.
    destruct (crash_prefix (conc_init seq0) (spec_init seq0) h tr
                (R_init seq0 ltac:(lia)) Hb Hp) as (H1 & H2 & _ & H4).
    exists (recovered tr). split; [exact H1|]. split; [exact H2|exact H4].
  Qed.

  (* ---- any number of kills ---- *)
  (* a run = the operations given to a process and the trace prefix at which it
     was killed; each process starts on what the previous one left *)
  Definition krun := (list op * list pevent)%type.

  Fixpoint killed_runs (cs : cstate) (runs : list krun) : Prop :=
    match runs with
    | [] => True
    | r :: rest => is_prefix (snd r) (ptrace cs (fst r))
                   /\ killed_runs (reopen recovered cs (fst r) (snd r)) rest
    end.

  Fixpoint total_ops (runs : list krun) : nat :=
    match runs with [] => O | r :: rest => (length (fst r) + total_ops rest)%nat end.

  (* every number each process hands out (or would have, had it not been killed) *)
  Fixpoint run_results (cs : cstate) (runs : list krun) : list (list Z) :=
    match runs with
    | [] => []
    | r :: rest => adds (fst r) (conc_run isort_desc cs (fst r))
                   :: run_results (reopen recovered cs (fst r) (snd r)) rest
    end.

  Definition fresh_chain (acked handed : list (list Z)) : Prop :=
    forall i j z z', (i < j)%nat -> In z (nth i acked []) -> In z' (nth j handed []) -> (z < z')%Z.

  Lemma chain_gt runs : forall cs ss, R cs ss -> s_seq ss + N.of_nat (total_ops runs) < two63 ->
    killed_runs cs runs ->
    forall j z', In z' (nth j (run_results cs runs) []) -> (Z.of_N (s_seq ss) < z')%Z.
  Proof.
    pose proof two63_lt_two64 as H64. unfold two63, two64 in H64.
    induction runs as [|[h tr] runs IH]; intros cs ss HR Hb Hk j z' Hz'.
    - destruct j; contradiction.
    - cbn [killed_runs total_ops run_results fst snd] in *. destruct Hk as [Hp Hk].
      rewrite Nat2N.inj_add in Hb.
      destruct j as [|j]; cbn [nth] in Hz'.
      + rewrite (run_refines isort_desc h cs ss HR) in Hz' by (unfold two64, two63 in *; lia).
        destruct (adds_spec isort_desc h ss ltac:(unfold two63 in *; lia)) as [Hgt _].
        rewrite Forall_forall in Hgt. exact (Hgt z' Hz').
      + destruct (crash_prefix cs ss h tr HR ltac:(unfold two63 in *; lia) Hp) as (_ & _ & HR' & _).
        pose proof (firstn_length (recovered tr) h) as Hl.
        pose proof (seq_exec_bounds (firstn (recovered tr) h) ss ltac:(unfold two64, two63 in *; lia)) as [Hge Hle].
        specialize (IH _ _ HR' ltac:(unfold two63 in *; lia) Hk j z' Hz'). lia.
  Qed.

  Lemma seq_fresh_across_crashes runs : forall cs ss,
    R cs ss -> s_seq ss + N.of_nat (total_ops runs) < two63 ->
    killed_runs cs runs ->
    fresh_chain (map (fun r => adds (fst r) (acks (snd r))) runs) (run_results cs runs).
  Proof.
    pose proof two63_lt_two64 as H64. unfold two63, two64 in H64.
    induction runs as [|[h tr] runs IH]; intros cs ss HR Hb Hk i j z z' Hij Hz Hz'.
    - destruct i; contradiction.
    - cbn [killed_runs total_ops run_results map fst snd] in *. destruct Hk as [Hp Hk].
      rewrite Nat2N.inj_add in Hb.
      destruct j as [|j]; [lia|]. cbn [nth] in Hz'.
      destruct (crash_prefix cs ss h tr HR ltac:(unfold two63 in *; lia) Hp) as (Hkk & Ha & HR' & _).
      pose proof (firstn_length (recovered tr) h) as Hl.
      pose proof (seq_exec_bounds (firstn (recovered tr) h) ss ltac:(unfold two64, two63 in *; lia)) as [Hge Hle].
      destruct i as [|i]; cbn [nth] in Hz.
      + rewrite Ha in Hz.
        pose proof (adds_le h ss (length (acks tr)) (recovered tr) ltac:(lia) ltac:(unfold two63 in *; lia)) as Hle2.
        rewrite Forall_forall in Hle2. specialize (Hle2 z Hz).
        pose proof (chain_gt runs _ _ HR' ltac:(unfold two63 in *; lia) Hk j z' Hz'). lia.
      + eapply (IH _ _ HR' ltac:(unfold two63 in *; lia) Hk i j); [lia|exact Hz|exact Hz'].
  Qed.
End ContractB.

(* ------------------------------------------------------------------ *)
(* the acceptor *)
Lemma find_prefix_sound obs h : forall st skip base k st',
  find_prefix st h skip base obs = Some (k, st') ->
  exists j, k = (base + j)%nat /\ (skip <= j <= length h)%nat
    /\ st' = spec_exec isort_desc st (firstn j h) /\ dump_matches st' obs = true.
Proof.
  induction h as [|o h IH]; intros st skip base k st' E.
  - destruct skip; cbn [find_prefix] in E; [|discriminate].
    destruct (dump_matches st obs) eqn:Ed; [|discriminate]. injection E as <- <-.
    exists O. cbn. repeat split; try lia. exact Ed.
  - destruct skip as [|s]; cbn [find_prefix] in E.
    + destruct (dump_matches st obs) eqn:Ed.
      * injection E as <- <-. exists O. cbn. repeat split; try lia. exact Ed.
      * apply IH in E as (j & -> & Hj & -> & Hm). exists (S j). cbn [firstn spec_exec length].
        repeat split; try lia. exact Hm.
    + apply IH in E as (j & -> & Hj & -> & Hm). exists (S j). cbn [firstn spec_exec length].
      repeat split; try lia. exact Hm.
Qed.

(* what "the dump shows this state" means *)
Definition dump_shows (st : sstate) (d : dump) : Prop :=
  Forall2 res_ok (dump_s st) [d_seq d; d_cmds d; d_dirs d].

Lemma dump_matches_sound st d : dump_matches st d = true -> dump_shows st d.
Proof.
  unfold dump_matches. intros H. apply andb_true_iff in H as [H H3]. apply andb_true_iff in H as [H1 H2].
  unfold dump_shows, dump_s, dump_ops. cbn [spec_run spec_step].
  repeat constructor; apply res_match_sound; assumption.
Qed.

(* the reopened state is the state after a prefix of the attempted operations
   that contains every acknowledged one *)
Definition CrashOk (st : sstate) (h : list op) (acked : list res) (obs : dump) (st' : sstate) : Prop :=
  exists k, (length acked <= k <= length h)%nat
    /\ st' = spec_exec isort_desc st (firstn k h) /\ dump_shows st' obs.

Lemma crash_state_sound st h acked obs k st' :
  crash_state st h acked obs = Some (k, st') ->
  (length acked <= k <= length h)%nat
  /\ st' = spec_exec isort_desc st (firstn k h) /\ dump_shows st' obs.
Proof.
  unfold crash_state. intros E. apply find_prefix_sound in E as (j & -> & Hj & -> & Hm).
  cbn. repeat split; try lia. apply dump_matches_sound, Hm.
Qed.

Lemma crash_ok_sound st h acked obs : crash_ok st h acked obs = true ->
  exists st', CrashOk st h acked obs st'.
Proof.
  unfold crash_ok. destruct (crash_state st h acked obs) as [[k st']|] eqn:E; [|discriminate].
  intros _. exists st', k. apply crash_state_sound. exact E.
Qed.

(* ------------------------------------------------------------------ *)
(* the oracle on whole cases *)
Definition gt_all (prev l : list Z) : Prop := forall z z', In z prev -> In z' l -> (z < z')%Z.

(* The property on the observations of a case: every reopening shows a prefix
   state containing the acknowledged operations (the next round continues from
   it), and every number handed out after a reopening exceeds every number
   acknowledged before it. *)
Fixpoint CrashSpec (st : sstate) (prev : list Z) (rs : list round) (tail : list (op * res)) : Prop :=
  match rs with
  | [] => gt_all prev (add_results tail)
  | r :: rs' =>
    exists st', CrashOk st (r_ops r) (r_acked r) (r_obs r) st'
      /\ gt_all prev (acked_adds r)
      /\ CrashSpec st' (prev ++ acked_adds r) rs' tail
  end.

Definition hi_inv (hi : option Z) (prev : list Z) : Prop :=
  match hi with
  | None => prev = []
  | Some m => forall z, In z prev -> (z <= m)%Z
  end.

Lemma all_gt_sound hi prev l : hi_inv hi prev -> all_gt hi l = true -> gt_all prev l.
Proof.
  unfold all_gt, hi_inv, gt_all. destruct hi as [m|]; intros Hi H z z' Hz Hz'.
  - rewrite forallb_forall in H. specialize (H z' Hz'). specialize (Hi z Hz). lia.
  - subst prev. contradiction.
Qed.

Lemma max_opt_inv l : forall hi prev, hi_inv hi prev -> hi_inv (max_opt hi l) (prev ++ l).
Proof.
  unfold max_opt. induction l as [|z l IH]; intros hi prev Hi; cbn [fold_left].
  - rewrite app_nil_r. exact Hi.
  - replace (prev ++ z :: l) with ((prev ++ [z]) ++ l) by (rewrite <- app_assoc; reflexivity).
    apply IH. destruct hi as [m|]; cbn [hi_inv] in *.
    + intros y Hy. apply in_app_or in Hy as [Hy|[<-|[]]]; [specialize (Hi y Hy)|]; lia.
    + subst prev. intros y [<-|[]]. lia.
Qed.

Lemma check_rounds_sound rs : forall st hi prev tail, hi_inv hi prev ->
  check_rounds st hi rs tail = true -> CrashSpec st prev rs tail.
Proof.
  induction rs as [|r rs IH]; intros st hi prev tail Hi H; cbn [check_rounds CrashSpec] in *.
  - eapply all_gt_sound; eassumption.
  - destruct (crash_state st (r_ops r) (r_acked r) (r_obs r)) as [[k st']|] eqn:E; [|discriminate].
    apply andb_true_iff in H as [H1 H2]. exists st'. split; [|split].
    + exists k. apply crash_state_sound. exact E.
    + eapply all_gt_sound; eassumption.
    + eapply IH; [|exact H2]. apply max_opt_inv. exact Hi.
Qed.

Lemma check_C25_sound c : check_C25 c = true ->
  CrashSpec (spec_init (c_seq0 c)) [] (c_rounds c) (c_tail c).
Proof. unfold check_C25. apply check_rounds_sound. reflexivity. Qed.

(* ------------------------------------------------------------------ *)
(* completeness of the acceptor for the model's behaviours *)
Lemma find_prefix_complete obs h : forall st skip base k,
  (skip <= k <= length h)%nat ->
  dump_matches (spec_exec isort_desc st (firstn k h)) obs = true ->
  find_prefix st h skip base obs <> None.
Proof.
  induction h as [|o h IH]; intros st skip base k Hk Hm.
  - cbn [length] in Hk. assert (k = O) by lia. assert (skip = O) by lia. subst.
    cbn in *. rewrite Hm. discriminate.
  - destruct skip as [|s]; cbn [find_prefix].
    + destruct (dump_matches st obs) eqn:Ed; [discriminate|].
      destruct k as [|k]; [cbn in Hm; congruence|].
      cbn [firstn spec_exec length] in *. eapply (IH _ O _ k); [lia|exact Hm].
    + destruct k as [|k]; [lia|]. cbn [firstn spec_exec length] in *.
      eapply (IH _ s _ k); [lia|exact Hm].
Qed.

Lemma f64_eqb_refl a : f64_eqb a a = true.
Proof.
  destruct a; cbn; try reflexivity; try apply Bool.eqb_reflx.
  rewrite Bool.eqb_reflx, Pos.eqb_refl, Z.eqb_refl. reflexivity.
Qed.

Lemma cmds_eqb_refl (l : list (bytes * Z)) : list_eqb cmdout_eqb l l = true.
Proof. apply list_eqb_spec; [apply cmdout_eqb_spec|reflexivity]. Qed.

(* a state whose directory listing is accepted as equal to itself: the listing
   produced by the insertion sort is in descending order (true whenever no score
   is NaN) *)
Definition dirs_self_ok (st : sstate) : Prop :=
  res_match (sp_dirs isort_desc st []) (sp_dirs isort_desc st []) = true.

Lemma dump_matches_self st : dirs_self_ok st -> dump_matches st (dump_of (dump_s st)) = true.
Proof.
  intros Hd. unfold dump_s, dump_ops. cbn [spec_run spec_step dump_of].
  unfold dump_matches. cbn [d_seq d_cmds d_dirs]. rewrite Hd.
  unfold sp_next_seq, sp_range, res_match. rewrite Z.eqb_refl, cmds_eqb_refl. reflexivity.
Qed.

Lemma crash_ok_complete_partial recovered :
  (forall tr, (returned tr <= recovered tr)%nat) ->
  (forall tr, (recovered tr <= started tr)%nat) ->
  forall cs ss h tr,
  R cs ss -> s_seq ss + N.of_nat (length h) < two63 ->
  is_prefix tr (ptrace cs h) ->
  dirs_self_ok (spec_exec isort_desc ss (firstn (recovered tr) h)) ->
  crash_ok ss h (acks tr) (dump_of (dump_c (reopen recovered cs h tr))) = true.
Proof.
  intros B1 B2 cs ss h tr HR Hb Hp Hd.
  destruct (crash_prefix recovered B1 B2 cs ss h tr HR Hb Hp) as (Hk & _ & _ & Hdump).
  rewrite Hdump. unfold crash_ok, crash_state.
  pose proof (find_prefix_complete (dump_of (dump_s (spec_exec isort_desc ss (firstn (recovered tr) h))))
                h ss (length (acks tr)) O (recovered tr) Hk (dump_matches_self _ Hd)) as Hne.
  destruct (find_prefix ss h (length (acks tr)) 0 _); [reflexivity|congruence].
Qed.
