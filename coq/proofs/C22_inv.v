(* C22 -- the invariant of the module-cache model that ties the event trace to
   the cache, preserved by [use] for every fuel, every import graph and every
   sequence of top-level actions. *)
From verif Require Import lib.Base model.C22 proofs.C22_proofs.
Open Scope N_scope.

(* ------------------------------------------------------------------ *)
(* well-formed environments *)
Definition wf_env (E : env) : Prop := wf_envb E = true.

Lemma memN_In k l : memN k l = true <-> In k l.
Proof.
  unfold memN. rewrite existsb_exists. split.
  - intros [x [Hx He]]. apply N.eqb_eq in He. subst. exact Hx.
  - intros H. exists k. split; [exact H|apply N.eqb_refl].
Qed.

Lemma nodupN_NoDup l : nodupN l = true -> NoDup l.
Proof.
  induction l as [|x l IH]; simpl; intros H; [constructor|].
  apply andb_true_iff in H as [H1 H2]. constructor; [|apply IH; exact H2].
  intros Hin. apply memN_In in Hin. rewrite Hin in H1. discriminate.
Qed.

Lemma NoDup_map_inj {A B} (f : A -> B) l x y :
  NoDup (map f l) -> In x l -> In y l -> f x = f y -> x = y.
Proof.
  induction l as [|a l IH]; simpl; [tauto|].
  intros Hnd. inversion Hnd as [|? ? Hnotin Hnd']; subst.
  intros [->|Hx] [->|Hy] Hf; auto.
  - exfalso. apply Hnotin. rewrite Hf. apply in_map. exact Hy.
  - exfalso. apply Hnotin. rewrite <- Hf. apply in_map. exact Hx.
Qed.

Lemma NoDup_app_disj {A} (l1 l2 : list A) a :
  NoDup (l1 ++ l2) -> In a l1 -> In a l2 -> False.
Proof.
  induction l1 as [|x l1 IH]; simpl; [tauto|].
  intros Hnd. inversion Hnd as [|? ? Hnotin Hnd']; subst.
  intros [->|H1] H2.
  - apply Hnotin. apply in_or_app. right. exact H2.
  - apply IH; assumption.
Qed.

Definition idf (kb : bytes * body) : N := b_id (snd kb).

Lemma wf_nodup E : wf_env E -> NoDup (map idf (fs E ++ bundled E)).
Proof.
  unfold wf_env, wf_envb. intros H. apply andb_true_iff in H as [H _].
  apply nodupN_NoDup. exact H.
Qed.

Lemma wf_bundled_unrooted E k b : wf_env E -> In (k, b) (bundled E) -> rooted k = false.
Proof.
  unfold wf_env, wf_envb. intros H Hin. apply andb_true_iff in H as [_ H].
  rewrite forallb_forall in H. specialize (H _ Hin). simpl in H.
  destruct (rooted k); [discriminate|reflexivity].
Qed.

(* key k is the key under which module m is evaluated *)
Definition src_ok (E : env) (k : bytes) (m : N) : Prop :=
  (rooted k = true /\ exists b, lookup k (fs E) = Some b /\ b_id b = m)
  \/ (rooted k = false /\ exists b, lookup k (bundled E) = Some b /\ b_id b = m).

Lemma src_ok_in E k m : src_ok E k m -> exists b, In (k, b) (fs E ++ bundled E) /\ b_id b = m.
Proof.
  intros [[_ [b [Hl Hb]]]|[_ [b [Hl Hb]]]]; exists b; (split; [|exact Hb]);
    apply in_or_app; [left|right]; apply lookup_in; exact Hl.
Qed.

Lemma src_ok_inj E k k' m : wf_env E -> src_ok E k m -> src_ok E k' m -> k = k'.
Proof.
  intros Hwf H1 H2. apply src_ok_in in H1 as [b [Hin Hb]]. apply src_ok_in in H2 as [b' [Hin' Hb']].
  assert (Heq : (k, b) = (k', b')).
  { apply (NoDup_map_inj idf (fs E ++ bundled E)); [apply wf_nodup; exact Hwf|exact Hin|exact Hin'|].
    unfold idf; simpl. congruence. }
  congruence.
Qed.

Lemma find_id_fs E path b :
  wf_env E -> lookup path (fs E) = Some b -> exists b', find_id (b_id b) (fs E) = Some (path, b').
Proof.
  intros Hwf Hl. apply lookup_in in Hl. unfold find_id.
  destruct (find (fun kb => b_id (snd kb) =? b_id b) (fs E)) as [[k' b']|] eqn:Hf.
  - apply find_some in Hf as [Hin Hp]. simpl in Hp. apply N.eqb_eq in Hp.
    assert (Heq : (k', b') = (path, b)).
    { apply (NoDup_map_inj idf (fs E ++ bundled E)); [apply wf_nodup; exact Hwf| | |exact Hp];
        apply in_or_app; left; assumption. }
    inversion Heq; subst. exists b. reflexivity.
  - exfalso. pose proof (find_none _ _ Hf _ Hl) as Hp. simpl in Hp.
    rewrite N.eqb_refl in Hp. discriminate.
Qed.

Lemma find_id_bundled E spec b :
  wf_env E -> lookup spec (bundled E) = Some b -> find_id (b_id b) (fs E) = None.
Proof.
  intros Hwf Hl. apply lookup_in in Hl. unfold find_id.
  destruct (find (fun kb => b_id (snd kb) =? b_id b) (fs E)) as [[k' b']|] eqn:Hf; [|reflexivity].
  exfalso. apply find_some in Hf as [Hin Hp]. simpl in Hp. apply N.eqb_eq in Hp.
  pose proof (wf_nodup E Hwf) as Hnd. rewrite map_app in Hnd.
  apply (NoDup_app_disj _ _ (b_id b) Hnd).
  - rewrite <- Hp. change (b_id b') with (idf (k', b')). apply in_map. exact Hin.
  - change (b_id b) with (idf (spec, b)). apply in_map. exact Hl.
Qed.

Lemma rooted_clean p : rooted (clean_abs p) = true.
Proof.
  unfold clean_abs, render_abs. destruct (clean_segs (split_slash p)); reflexivity.
Qed.

Lemma rooted_join d s : rooted (join_path d s) = true.
Proof. unfold join_path. destruct s; apply rooted_clean. Qed.

(* ------------------------------------------------------------------ *)
(* trace functions *)
Definition is_start (m n : N) (e : event) : bool :=
  match e with EStart m' n' => (m =? m') && (n =? n') | _ => false end.

(* whatever is handed to an importer was started before *)
Fixpoint started_ok (r : list event) : bool :=
  match r with
  | [] => true
  | ESeen _ _ _ tm tn :: r' => existsb (is_start tm tn) r' && started_ok r'
  | _ :: r' => started_ok r'
  end.

Lemma pair_eqb_eq p q : pair_eqb p q = true <-> p = q.
Proof.
  destruct p as [a b], q as [c d]. unfold pair_eqb; simpl.
  rewrite andb_true_iff, !N.eqb_eq. split; [intros [-> ->]; reflexivity|intros H; inversion H; auto].
Qed.

Lemma mem_pair_In p l : mem_pair p l = true <-> In p l.
Proof.
  unfold mem_pair. rewrite existsb_exists. split.
  - intros [x [Hx He]]. apply pair_eqb_eq in He. subst. exact Hx.
  - intros H. exists p. split; [exact H|apply pair_eqb_eq; reflexivity].
Qed.

Lemma is_start_In m n r : existsb (is_start m n) r = true <-> In (EStart m n) r.
Proof.
  rewrite existsb_exists. split.
  - intros [e [He Hs]]. destruct e; simpl in Hs; try discriminate.
    apply andb_true_iff in Hs as [H1 H2]. apply N.eqb_eq in H1, H2. subst. exact He.
  - intros H. exists (EStart m n). split; [exact H|]. simpl. rewrite !N.eqb_refl. reflexivity.
Qed.

(* ------------------------------------------------------------------ *)
Record Inv (E : env) (acts : list action) (s : st) : Prop := mkInv {
  i_once : once_ok (rtrace s) = true;
  i_live : forall m n, In (m, n) (live (rtrace s)) -> exists k, lookup k (cache s) = Some (m, n);
  i_src : forall k m n, lookup k (cache s) = Some (m, n) -> src_ok E k m;
  i_freshc : forall k m n, lookup k (cache s) = Some (m, n) -> n < next s;
  i_nofail : forall k m n, lookup k (cache s) = Some (m, n) -> ~ In (m, n) (failed (rtrace s));
  i_freshf : forall m n, In (m, n) (failed (rtrace s)) -> n < next s;
  i_startc : forall k m n, lookup k (cache s) = Some (m, n) -> In (EStart m n) (rtrace s);
  i_stale : nostale_ok (rtrace s) = true;
  i_started : started_ok (rtrace s) = true;
  i_rel : rel_ok E acts (rtrace s) = true }.

Lemma Inv_st0 E acts : Inv E acts st0.
Proof. constructor; simpl; try reflexivity; try tauto; intros; discriminate. Qed.

Definition plain (e : event) : Prop :=
  match e with EEnd _ _ | ECaught _ _ | EResult _ _ => True | _ => False end.

Lemma Inv_emit_plain E acts e s : plain e -> Inv E acts s -> Inv E acts (emit e s).
Proof.
  intros Hp [H1 H2 H3 H4 H5 H6 H7 H8 H9 H10].
  destruct e; simpl in Hp; try contradiction;
    (constructor; simpl; try assumption; intros; right; eauto).
Qed.

Lemma Inv_emit_seen E acts a imp spec tm tn k s :
  Inv E acts s -> lookup k (cache s) = Some (tm, tn) ->
  rel_ev_ok E acts (ESeen a imp spec tm tn) = true ->
  Inv E acts (emit (ESeen a imp spec tm tn) s).
Proof.
  intros [H1 H2 H3 H4 H5 H6 H7 H8 H9 H10] Hk Hrel.
  constructor; cbn [emit cache next rtrace live once_ok failed nostale_ok started_ok]; try assumption.
  - intros; right; eauto.
  - apply andb_true_iff; split; [|exact H8].
    destruct (mem_pair (tm, tn) (failed (rtrace s))) eqn:Hm; [|reflexivity].
    apply mem_pair_In in Hm. exfalso. exact (H5 _ _ _ Hk Hm).
  - apply andb_true_iff; split; [|exact H9].
    apply is_start_In. exact (H7 _ _ _ Hk).
  - unfold rel_ok. cbn [forallb]. apply andb_true_iff; split; [exact Hrel|exact H10].
Qed.

Lemma Inv_install E acts key m s :
  wf_env E -> Inv E acts s -> lookup key (cache s) = None -> src_ok E key m ->
  Inv E acts (mkSt ((key, (m, next s)) :: cache s) (next s + 1) (EStart m (next s) :: rtrace s)).
Proof.
  intros Hwf [H1 H2 H3 H4 H5 H6 H7 H8 H9 H10] Hnone Hsrc.
  constructor; cbn [cache next rtrace live once_ok failed nostale_ok started_ok]; try assumption.
  - apply andb_true_iff; split; [|exact H1].
    destruct (existsb (fun p => fst p =? m) (live (rtrace s))) eqn:Hex; [|reflexivity].
    exfalso. apply existsb_exists in Hex as [[m' n'] [Hin Hm]]. simpl in Hm.
    apply N.eqb_eq in Hm. subst m'.
    destruct (H2 _ _ Hin) as [k' Hk'].
    pose proof (src_ok_inj E k' key m Hwf (H3 _ _ _ Hk') Hsrc) as ->. congruence.
  - intros m' n' [Heq|Hin].
    + inversion Heq; subst. exists key. apply lookup_cons_eq.
    + destruct (H2 _ _ Hin) as [k' Hk']. exists k'.
      rewrite lookup_cons_ne; [exact Hk'|]. intros ->. congruence.
  - intros k' m' n'. destruct (bytes_eq_dec k' key) as [->|Hne].
    + rewrite lookup_cons_eq. intros Heq; inversion Heq; subst. exact Hsrc.
    + rewrite lookup_cons_ne by exact Hne. apply H3.
  - intros k' m' n'. destruct (bytes_eq_dec k' key) as [->|Hne].
    + rewrite lookup_cons_eq. intros Heq; inversion Heq; subst. lia.
    + rewrite lookup_cons_ne by exact Hne. intros Hk. specialize (H4 _ _ _ Hk). lia.
  - intros k' m' n'. destruct (bytes_eq_dec k' key) as [->|Hne].
    + rewrite lookup_cons_eq. intros Heq; inversion Heq; subst. intros Hin.
      specialize (H6 _ _ Hin). lia.
    + rewrite lookup_cons_ne by exact Hne. apply H5.
  - intros m' n' Hin. specialize (H6 _ _ Hin). lia.
  - intros k' m' n'. destruct (bytes_eq_dec k' key) as [->|Hne].
    + rewrite lookup_cons_eq. intros Heq; inversion Heq; subst. left; reflexivity.
    + rewrite lookup_cons_ne by exact Hne. intros Hk. right. eauto.
Qed.

Lemma Inv_fail E acts key m n s :
  wf_env E -> Inv E acts s -> lookup key (cache s) = Some (m, n) ->
  Inv E acts (mkSt (delete key (cache s)) (next s) (EFailed m n :: rtrace s)).
Proof.
  intros Hwf [H1 H2 H3 H4 H5 H6 H7 H8 H9 H10] Hkey.
  constructor; cbn [cache next rtrace live once_ok failed nostale_ok started_ok]; try assumption.
  - intros m' n' Hin. apply filter_In in Hin as [Hin Hne].
    destruct (H2 _ _ Hin) as [k' Hk']. exists k'.
    rewrite lookup_delete_other; [exact Hk'|]. intros ->.
    rewrite Hkey in Hk'. inversion Hk'; subst.
    assert (Ht : pair_eqb (m', n') (m', n') = true) by (apply pair_eqb_eq; reflexivity).
    rewrite Ht in Hne. discriminate.
  - intros k' m' n' Hk. apply lookup_delete_some in Hk as [_ Hk]. eauto.
  - intros k' m' n' Hk. apply lookup_delete_some in Hk as [_ Hk]. eauto.
  - intros k' m' n' Hk. apply lookup_delete_some in Hk as [Hne Hk].
    intros [Heq|Hin]; [|exact (H5 _ _ _ Hk Hin)].
    inversion Heq; subst. apply Hne.
    exact (src_ok_inj E k' key m' Hwf (H3 _ _ _ Hk) (H3 _ _ _ Hkey)).
  - intros m' n' [Heq|Hin]; [|eauto]. inversion Heq; subst. eauto.
  - intros k' m' n' Hk. apply lookup_delete_some in Hk as [_ Hk]. right. eauto.
Qed.

(* ------------------------------------------------------------------ *)
Section InvStep.
  Context (E : env) (acts : list action) (cx : ctx).
  Context (Hwf : wf_env E).
  Context (Hcx : exists o sp,
    nth_error acts (N.to_nat (cx_a cx)) = Some (AUse (cx_cwd cx) o sp)).
  Context (u : option bytes -> bytes -> st -> st * res (N * N)).

  Definition post (org : option bytes) (spec : bytes) (s' : st) (r : res (N * N)) : Prop :=
    forall m n, r = Ok (m, n) ->
      exists k, lookup k (cache s') = Some (m, n)
                /\ (is_rel spec = true -> k = rel_path cx org spec).

  Context (Hfr : forall org spec s, frame s (fst (u org spec s))).
  Context (Hu : forall org spec s s' r, u org spec s = (s', r) ->
                  Inv E acts s -> Inv E acts s' /\ post org spec s' r).

  Definition org_ok (m : N) (org : option bytes) : Prop :=
    forall n, imp_dir E acts (cx_a cx) (IMod m n) = Some (rel_dir cx org).

  Lemma seen_rel_ok m n org spec tm tn k s1 :
    org_ok m org -> Inv E acts s1 -> lookup k (cache s1) = Some (tm, tn) ->
    (is_rel spec = true -> k = rel_path cx org spec) ->
    rel_ev_ok E acts (ESeen (cx_a cx) (IMod m n) spec tm tn) = true.
  Proof.
    intros Horg HI Hk Hrel. unfold rel_ev_ok.
    destruct (is_rel spec) eqn:Hr; [|reflexivity].
    rewrite (Horg n). specialize (Hrel eq_refl). unfold rel_path in Hrel. rewrite <- Hrel.
    destruct (i_src _ _ _ HI _ _ _ Hk) as [[_ [b [Hl Hb]]]|[Hroot _]].
    - rewrite Hl. apply N.eqb_eq. exact Hb.
    - rewrite Hrel, rooted_clean in Hroot. discriminate.
  Qed.

  Lemma exec_inv l : forall m n org s s' r,
    exec_stmts cx u m n org l s = (s', r) -> org_ok m org -> Inv E acts s -> Inv E acts s'.
  Proof.
    induction l as [|[spec|spec|k] l IH]; intros m n org s s' r Hex Horg HI; simpl in Hex.
    - inversion Hex; subst. exact HI.
    - destruct (u org spec s) as [s1 [[tm tn]|kd|]] eqn:Hu1;
        destruct (Hu _ _ _ _ _ Hu1 HI) as [HI1 Hp].
      + destruct (Hp _ _ eq_refl) as [k [Hk Hrel]].
        eapply IH; [exact Hex|exact Horg|].
        eapply Inv_emit_seen; [exact HI1|exact Hk|].
        eapply seen_rel_ok; eassumption.
      + inversion Hex; subst. exact HI1.
      + inversion Hex; subst. exact HI1.
    - destruct (u org spec s) as [s1 [[tm tn]|kd|]] eqn:Hu1;
        destruct (Hu _ _ _ _ _ Hu1 HI) as [HI1 Hp].
      + destruct (Hp _ _ eq_refl) as [k [Hk Hrel]].
        eapply IH; [exact Hex|exact Horg|].
        eapply Inv_emit_seen; [exact HI1|exact Hk|].
        eapply seen_rel_ok; eassumption.
      + eapply IH; [exact Hex|exact Horg|]. apply Inv_emit_plain; [exact I|exact HI1].
      + inversion Hex; subst. exact HI1.
    - destruct (memN k (cx_flags cx)).
      + inversion Hex; subst. exact HI.
      + eapply IH; eassumption.
  Qed.

  Lemma exec_frame' l m n org s : frame s (fst (exec_stmts cx u m n org l s)).
  Proof. apply exec_frame. exact Hfr. Qed.

  Lemma eval_inv key org b s s' r :
    eval_module cx u key org b s = (s', r) ->
    lookup key (cache s) = None -> src_ok E key (b_id b) -> org_ok (b_id b) org ->
    Inv E acts s ->
    Inv E acts s' /\ (forall m n, r = Ok (m, n) -> lookup key (cache s') = Some (m, n)).
  Proof.
    unfold eval_module. intros Hev Hnone Hsrc Horg HI.
    pose proof (Inv_install E acts key (b_id b) s Hwf HI Hnone Hsrc) as HI0.
    set (s0 := mkSt _ _ _) in *.
    pose proof (exec_frame' (b_stmts b) (b_id b) (next s) org s0) as F.
    destruct (exec_stmts cx u (b_id b) (next s) org (b_stmts b) s0) as [s1 [x|kd|]] eqn:Hex;
      simpl in F; pose proof (exec_inv _ _ _ _ _ _ _ Hex Horg HI0) as HI1;
      assert (Hk1 : lookup key (cache s1) = Some (b_id b, next s))
        by (apply (proj1 F); unfold s0; cbn [cache]; apply lookup_cons_eq);
      inversion Hev; subst.
    - split; [apply Inv_emit_plain; [exact I|exact HI1]|].
      intros m n Heq; inversion Heq; subst. exact Hk1.
    - split; [apply Inv_fail; assumption|]. intros; discriminate.
    - split; [exact HI1|]. intros; discriminate.
  Qed.

  Lemma org_ok_file path b :
    lookup path (fs E) = Some b -> org_ok (b_id b) (Some (dir_of path)).
  Proof.
    intros Hl n. destruct Hcx as [o [sp Hn]]. unfold imp_dir. rewrite Hn.
    destruct (find_id_fs E path b Hwf Hl) as [b' Hf]. rewrite Hf. reflexivity.
  Qed.

  Lemma org_ok_bundled spec b :
    lookup spec (bundled E) = Some b -> org_ok (b_id b) None.
  Proof.
    intros Hl n. destruct Hcx as [o [sp Hn]]. unfold imp_dir. rewrite Hn.
    rewrite (find_id_bundled E spec b Hwf Hl). reflexivity.
  Qed.

  Lemma use_file_inv path s s' r :
    use_file E cx u path s = Some (s', r) -> rooted path = true -> Inv E acts s ->
    Inv E acts s' /\ (forall m n, r = Ok (m, n) -> lookup path (cache s') = Some (m, n)).
  Proof.
    unfold use_file. intros Huf Hroot HI. destruct (lookup path (cache s)) as [v|] eqn:Hc.
    - inversion Huf; subst. split; [exact HI|]. intros m n Heq; inversion Heq; subst. exact Hc.
    - destruct (lookup path (fs E)) as [b|] eqn:Hfs; [|discriminate].
      inversion Huf as [Hev]. eapply eval_inv; [exact Hev|exact Hc| |apply org_ok_file; exact Hfs|exact HI].
      left. split; [exact Hroot|]. exists b. split; [exact Hfs|reflexivity].
  Qed.

  Lemma use_libs_inv spec dirs : forall s s' r,
    use_libs E cx u spec dirs s = (s', r) -> Inv E acts s ->
    Inv E acts s' /\ (forall m n, r = Ok (m, n) -> exists k, lookup k (cache s') = Some (m, n)).
  Proof.
    induction dirs as [|d ds IH]; intros s s' r Hul HI; simpl in Hul.
    - inversion Hul; subst. split; [exact HI|]. intros; discriminate.
    - destruct (use_file E cx u (join_path d spec) s) as [[s2 r2]|] eqn:Hf.
      + inversion Hul; subst.
        destruct (use_file_inv _ _ _ _ Hf (rooted_join d spec) HI) as [HI' Hp].
        split; [exact HI'|]. intros m n Heq. eexists. apply Hp. exact Heq.
      + eapply IH; eassumption.
  Qed.

  Lemma use_step_inv org spec s s' r :
    use_step E cx u org spec s = (s', r) -> Inv E acts s ->
    Inv E acts s' /\ post org spec s' r.
  Proof.
    unfold use_step, post. intros Hus HI. destruct (is_rel spec) eqn:Hrel.
    - destruct (use_file E cx u (rel_path cx org spec) s) as [[s2 r2]|] eqn:Hf.
      + inversion Hus; subst.
        destruct (use_file_inv _ _ _ _ Hf (rooted_clean _) HI) as [HI' Hp].
        split; [exact HI'|]. intros m n Heq. eexists. split; [apply Hp; exact Heq|reflexivity].
      + inversion Hus; subst. split; [exact HI|]. intros; discriminate.
    - destruct (lookup spec (cache s)) as [v|] eqn:Hc.
      + inversion Hus; subst. split; [exact HI|]. intros m n Heq; inversion Heq; subst.
        exists spec. split; [exact Hc|discriminate].
      + destruct (lookup spec (bundled E)) as [b|] eqn:Hb.
        * destruct (eval_inv spec None b s s' r Hus Hc) as [HI' Hp]; [|eapply org_ok_bundled; exact Hb|exact HI|].
          { right. split; [eapply wf_bundled_unrooted; [exact Hwf|apply lookup_in; exact Hb]|].
            exists b. split; [exact Hb|reflexivity]. }
          split; [exact HI'|]. intros m n Heq. exists spec. split; [apply Hp; exact Heq|discriminate].
        * destruct (use_libs_inv _ _ _ _ _ Hus HI) as [HI' Hp]. split; [exact HI'|].
          intros m n Heq. destruct (Hp _ _ Heq) as [k Hk]. exists k. split; [exact Hk|discriminate].
  Qed.
End InvStep.

Lemma use_inv E acts cx (Hwf : wf_env E)
  (Hcx : exists o sp, nth_error acts (N.to_nat (cx_a cx)) = Some (AUse (cx_cwd cx) o sp)) fuel :
  forall org spec s s' r, use E cx fuel org spec s = (s', r) -> Inv E acts s ->
    Inv E acts s' /\ post cx org spec s' r.
Proof.
  induction fuel as [|f IH]; intros org spec s s' r Hu HI; simpl in Hu.
  - inversion Hu; subst. split; [exact HI|]. intros m n Heq; discriminate.
  - eapply use_step_inv; try eassumption. apply use_frame.
Qed.

(* ------------------------------------------------------------------ *)
(* top level *)
Lemma run_act_inv E acts fuel a act s fl :
  wf_env E -> nth_error acts (N.to_nat a) = Some act -> Inv E acts s ->
  Inv E acts (fst (run_act E fuel a act (s, fl))).
Proof.
  intros Hwf Hn HI. destruct act as [cwd org spec|k b]; simpl; [|exact HI].
  set (cx := mkCtx a cwd fl).
  assert (Hcx : exists o sp, nth_error acts (N.to_nat (cx_a cx)) = Some (AUse (cx_cwd cx) o sp))
    by (exists org, spec; exact Hn).
  destruct (use E cx fuel (org_dir org) spec s) as [s1 [[m n]|kd|]] eqn:Hu;
    destruct (use_inv E acts cx Hwf Hcx fuel _ _ _ _ _ Hu HI) as [HI1 Hp]; simpl.
  - apply Inv_emit_plain; [exact I|].
    destruct (Hp _ _ eq_refl) as [k [Hk Hrel]].
    eapply Inv_emit_seen; [exact HI1|exact Hk|].
    unfold rel_ev_ok. destruct (is_rel spec) eqn:Hr; [|reflexivity].
    unfold imp_dir. rewrite Hn. specialize (Hrel eq_refl).
    assert (Hd : (match org with OCwd => cwd | OFile p => dir_of p end) = rel_dir cx (org_dir org))
      by (destruct org; reflexivity).
    rewrite Hd. unfold rel_path in Hrel. rewrite <- Hrel.
    destruct (i_src _ _ _ HI1 _ _ _ Hk) as [[_ [b [Hl Hb]]]|[Hroot _]].
    + rewrite Hl. apply N.eqb_eq. exact Hb.
    + rewrite Hrel, rooted_clean in Hroot. discriminate.
  - apply Inv_emit_plain; [exact I|exact HI1].
  - apply Inv_emit_plain; [exact I|exact HI1].
Qed.

Lemma run_from_inv E fuel all : wf_env E ->
  forall rest pre a sf, all = pre ++ rest -> N.to_nat a = length pre ->
    Inv E all (fst sf) -> Inv E all (fst (run_from E fuel a rest sf)).
Proof.
  intros Hwf. induction rest as [|act rest IH]; intros pre a [s fl] Hall Ha HI; simpl.
  - exact HI.
  - apply (IH (pre ++ [act])).
    + rewrite <- app_assoc. exact Hall.
    + rewrite app_length; simpl. lia.
    + apply run_act_inv; [exact Hwf| |exact HI].
      rewrite Hall, Ha, nth_error_app2 by lia. rewrite Nat.sub_diag. reflexivity.
Qed.

Theorem run_inv E acts : wf_env E -> Inv E acts (run E acts).
Proof.
  intros Hwf. unfold run. apply (run_from_inv E (fuel_of E) acts Hwf acts [] 0 (st0, [])).
  - reflexivity.
  - reflexivity.
  - apply Inv_st0.
Qed.
