(* C34 — proofs: table, Trim / Force on chunk lists, the buffer-builder invariant,
   renderView and truncateToHeight. *)
From verif Require Import lib.Base lib.Utf8 gen.Tables model.C34_width model.C34.
Open Scope Z_scope.

(* ------------------------------------------------------------------ *)
(* the generated table is sorted, disjoint and well-formed (re-checked on every run) *)
Lemma table_monotone : ranges_sorted wcwidth_combiningRanges = true.
Proof. vm_compute. reflexivity. Qed.

(* ------------------------------------------------------------------ *)
(* Trim and Force, for any width function w >= 0 *)
Section WidthProofs.
  Variable w : N -> Z.
  Hypothesis w_nonneg : forall r, 0 <= w r.

  Lemma width_chunks_nonneg cs : 0 <= width_chunks w cs.
  Proof. induction cs as [|c r IH]; cbn [width_chunks]; [lia|]. pose proof (w_nonneg (fst c)). lia. Qed.

  Lemma width_chunks_app a b : width_chunks w (a ++ b) = width_chunks w a + width_chunks w b.
  Proof. induction a as [|c r IH]; cbn [app width_chunks]; [lia | rewrite IH; lia]. Qed.

  Lemma width_firstn_mono cs : forall i j, (i <= j)%nat ->
    width_chunks w (firstn i cs) <= width_chunks w (firstn j cs).
  Proof.
    induction cs as [|c r IH]; intros i j Hij; [rewrite !firstn_nil; lia|].
    destruct i as [|i]; [cbn [firstn width_chunks]; apply width_chunks_nonneg|].
    destruct j as [|j]; [lia|]. cbn [firstn width_chunks].
    specialize (IH i j ltac:(lia)). lia.
  Qed.

  Lemma trim_chunks_spec cs : forall acc n,
    exists k, (k <= length cs)%nat /\ trim_chunks w cs acc n = firstn k cs
      /\ (acc <= n -> acc + width_chunks w (firstn k cs) <= n)
      /\ ((k < length cs)%nat -> acc + width_chunks w (firstn (S k) cs) > n).
  Proof.
    induction cs as [|c r IH]; intros acc n; cbn [trim_chunks].
    - exists 0%nat. cbn. repeat split; try lia.
    - destruct (acc + w (fst c) >? n) eqn:E.
      + apply Z.gtb_lt in E. exists 0%nat. cbn [firstn width_chunks length].
        repeat split; lia.
      + rewrite Z.gtb_ltb in E. apply Z.ltb_ge in E.
        destruct (IH (acc + w (fst c)) n) as (k & Hk & Ht & Hfit & Hnext).
        exists (S k). cbn [length firstn width_chunks]. rewrite Ht.
        repeat split; try lia. intros Hlt. specialize (Hnext ltac:(lia)).
        cbn [firstn width_chunks] in Hnext. cbn [firstn]. lia.
  Qed.

  (* trim_longest_prefix: the result is the first k characters, it fits, and
     every longer character-boundary prefix is too wide *)
  Lemma trim_longest_prefix cs n : 0 <= n ->
    exists k, (k <= length cs)%nat /\ trim_chunks w cs 0 n = firstn k cs
      /\ width_chunks w (trim_chunks w cs 0 n) <= n
      /\ forall j, (k < j <= length cs)%nat -> width_chunks w (firstn j cs) > n.
  Proof.
    intros Hn. destruct (trim_chunks_spec cs 0 n) as (k & Hk & Ht & Hfit & Hnext).
    exists k. split; [exact Hk|]. split; [exact Ht|]. rewrite Ht. split; [lia|].
    intros j Hj. specialize (Hnext ltac:(lia)).
    pose proof (width_firstn_mono cs (S k) j ltac:(lia)). lia.
  Qed.

  Lemma width_repeat_space k : w 32%N = 1 -> width_chunks w (repeat space_chunk k) = Z.of_nat k.
  Proof.
    intros Hs. induction k as [|k IH]; [reflexivity|].
    cbn [repeat width_chunks]. rewrite IH. unfold space_chunk; cbn [fst]. rewrite Hs. lia.
  Qed.

  (* force_exact_width *)
  Lemma force_exact_width cs n : w 32%N = 1 -> 0 <= n -> width_chunks w (force_chunks w cs n) = n.
  Proof.
    intros Hs Hn. unfold force_chunks. rewrite width_chunks_app, width_repeat_space by exact Hs.
    destruct (trim_longest_prefix cs n Hn) as (k & _ & _ & Hfit & _). lia.
  Qed.

  (* the trimmed string is a prefix of the string, cut between two characters *)
  Lemma bytes_of_app a b : bytes_of (a ++ b) = bytes_of a ++ bytes_of b.
  Proof. unfold bytes_of. apply flat_map_app. Qed.

  Lemma trim_is_chunk_prefix cs n :
    exists k, trim_chunks w cs 0 n = firstn k cs
              /\ bytes_of cs = bytes_of (trim_chunks w cs 0 n) ++ bytes_of (skipn k cs).
  Proof.
    destruct (trim_chunks_spec cs 0 n) as (k & _ & Ht & _). exists k. split; [exact Ht|].
    rewrite Ht, <- bytes_of_app, firstn_skipn. reflexivity.
  Qed.
End WidthProofs.

(* ------------------------------------------------------------------ *)
(* decoding: the chunks of a string concatenate back to it *)

Lemma decode_rune_width s : s <> [] ->
  (1 <= snd (decode_rune s) <= length s)%nat.
Proof.
  intros Hs. unfold decode_rune.
  destruct s as [|p0 r1]; [congruence|].
  destruct (p0 <? 128)%N; [cbn; lia|].
  destruct (first_info p0) as [[[sz lo] hi]|]; [|cbn; lia].
  destruct r1 as [|b1 r2]; [cbn; lia|].
  destruct ((b1 <? lo)%N || (hi <? b1)%N); [cbn; lia|].
  destruct sz as [|[|[|sz]]]; try (cbn; lia).
  - destruct r2 as [|b2 r3]; [cbn; lia|]. destruct (negb (is_cont b2)); [cbn; lia|].
    destruct r3 as [|b3 r4]; [cbn; lia|]. destruct (negb (is_cont b3)); cbn; lia.
  - destruct r2 as [|b2 r3]; [cbn; lia|]. destruct (negb (is_cont b2)); [cbn; lia|].
    destruct r3 as [|b3 r4]; [cbn; lia|]. destruct (negb (is_cont b3)); cbn; lia.
  - destruct r2 as [|b2 r3]; [cbn; lia|]. destruct (negb (is_cont b2)); [cbn; lia|].
    destruct sz; [cbn; lia|].
    destruct r3 as [|b3 r4]; [cbn; lia|]. destruct (negb (is_cont b3)); cbn; lia.
Qed.

Lemma chunks_fuel_bytes fuel : forall s, (length s <= fuel)%nat -> bytes_of (chunks_fuel fuel s) = s.
Proof.
  induction fuel as [|f IH]; intros s Hl.
  - destruct s; [reflexivity | cbn in Hl; lia].
  - destruct s as [|c r] eqn:Es; [reflexivity|]. rewrite <- Es in *.
    assert (Hne : s <> []) by (rewrite Es; congruence).
    cbn [chunks_fuel]. rewrite Es. rewrite <- Es.
    pose proof (decode_rune_width s Hne) as Hw.
    destruct (decode_rune s) as [rn k]. cbn [snd] in Hw.
    cbn [bytes_of flat_map snd]. fold (bytes_of (chunks_fuel f (skipn k s))).
    rewrite IH by (rewrite skipn_length; lia). apply firstn_skipn.
Qed.

Lemma bytes_of_chunks s : bytes_of (chunks s) = s.
Proof. apply chunks_fuel_bytes. lia. Qed.

(* Trim at the byte level: a prefix of the input *)
Lemma trim_bytes_prefix w s n : exists rest, s = trim_bytes_w w s n ++ rest.
Proof.
  unfold trim_bytes_w. destruct (trim_is_chunk_prefix w (chunks s) n) as (k & _ & H).
  rewrite bytes_of_chunks in H. eexists. exact H.
Qed.
