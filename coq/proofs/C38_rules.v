(* Proofs for C38, part 2: rules stated directly on the model of the parser
   (double dash, first non-option, long-only, completion = parse of the
   prefix, error reporting), and the witnesses of the recorded defects. *)
From verif Require Import lib.Base gen.Consts model.C38 proofs.C38_proofs.
Open Scope N_scope.

(* ---------- after the options ended every word is a non-option ---------- *)
Lemma run_stopped cfg specs rest : forall st, st_pend st = None -> st_stop st = true ->
  run cfg specs st rest = mkSt (st_opts st) (st_non st ++ rest) None true.
Proof.
  induction rest as [|w rest IH]; intros st Hp Hs.
  - simpl. rewrite app_nil_r. destruct st; simpl in *; subst; reflexivity.
  - rewrite run_cons. unfold step. rewrite Hp, Hs. rewrite IH by reflexivity.
    cbn [st_opts st_non]. rewrite <- app_assoc. reflexivity.
Qed.

(* a word waiting for its argument takes the next word whatever it is *)
Lemma step_pending cfg specs st o w : st_pend st = Some o ->
  step cfg specs st w = mkSt (st_opts st ++ [set_arg o w]) (st_non st) None (st_stop st).
Proof. intros H. unfold step. rewrite H. reflexivity. Qed.

(* ---------- "--" ---------- *)
Lemma double_dash_rules cfg specs pre post :
  st_pend (parse cfg specs pre) = None -> st_stop (parse cfg specs pre) = false ->
  (has cfg bitSADD = true ->
     parse cfg specs (pre ++ DD :: post) =
     mkSt (st_opts (parse cfg specs pre)) (st_non (parse cfg specs pre) ++ post) None true)
  /\ (has cfg bitSADD = false ->
     parse cfg specs (pre ++ DD :: post) =
     run cfg specs (mkSt (st_opts (parse cfg specs pre)) (st_non (parse cfg specs pre) ++ [DD]) None
                         (has cfg bitSBFN)) post).
Proof.
  intros Hp Hs. unfold parse in *. fold (run cfg specs st0 pre) in *.
  fold (run cfg specs st0 (pre ++ DD :: post)). rewrite run_app, run_cons.
  set (st := run cfg specs st0 pre) in *. split; intros Hd.
  - unfold step. rewrite Hp, Hs, Hd. cbn [andb str_eqb list_eqb DD].
    rewrite run_stopped by reflexivity. reflexivity.
  - unfold step. rewrite Hp, Hs, Hd. cbn. destruct (has cfg bitSBFN); reflexivity.
Qed.

(* "--" after an option that still needs its argument is that argument *)
Lemma double_dash_as_argument cfg specs pre post o :
  st_pend (parse cfg specs pre) = Some o ->
  parse cfg specs (pre ++ DD :: post) =
  run cfg specs (mkSt (st_opts (parse cfg specs pre) ++ [set_arg o DD]) (st_non (parse cfg specs pre))
                      None (st_stop (parse cfg specs pre))) post.
Proof.
  intros Hp. unfold parse in *. fold (run cfg specs st0 pre) in *.
  fold (run cfg specs st0 (pre ++ DD :: post)). rewrite run_app, run_cons.
  rewrite (step_pending _ _ _ o) by exact Hp. reflexivity.
Qed.

(* ---------- the first non-option ---------- *)
Definition is_nonopt (w : str) : bool := negb (prefix1 w) || str_eqb w D1.

Lemma nonopt_step cfg specs st w : st_pend st = None -> st_stop st = false -> is_nonopt w = true ->
  step cfg specs st w =
  mkSt (st_opts st) (st_non st ++ [w]) None (has cfg bitSBFN).
Proof.
  intros Hp Hs Hn. unfold step. rewrite Hp, Hs.
  assert (E : has cfg bitSADD && str_eqb w DD = false /\ prefix2 w && negb (str_eqb w DD) = false
              /\ prefix1 w && negb (str_eqb w DD) && negb (str_eqb w D1) = false).
  { unfold is_nonopt in Hn. destruct w as [|a [|b r]]; cbn in *.
    - rewrite andb_false_r. auto.
    - destruct (N.eqb a DASH); cbn in *; rewrite ?andb_false_r; auto.
    - destruct (N.eqb a DASH); cbn in *; [discriminate|]. rewrite ?andb_false_r. auto. }
  destruct E as (E1 & E2 & E3). rewrite E1, E2, E3. destruct (has cfg bitSBFN); reflexivity.
Qed.

Lemma stop_at_first_nonoption cfg specs pre w post :
  st_pend (parse cfg specs pre) = None -> st_stop (parse cfg specs pre) = false ->
  is_nonopt w = true ->
  (has cfg bitSBFN = true ->
     parse cfg specs (pre ++ w :: post) =
     mkSt (st_opts (parse cfg specs pre)) (st_non (parse cfg specs pre) ++ w :: post) None true)
  /\ (has cfg bitSBFN = false ->
     parse cfg specs (pre ++ w :: post) =
     run cfg specs (mkSt (st_opts (parse cfg specs pre)) (st_non (parse cfg specs pre) ++ [w]) None false) post).
Proof.
  intros Hp Hs Hn. unfold parse in *. fold (run cfg specs st0 pre) in *.
  fold (run cfg specs st0 (pre ++ w :: post)). rewrite run_app, run_cons.
  rewrite nonopt_step by assumption. split; intros Hb; rewrite Hb.
  - rewrite run_stopped by reflexivity. cbn [st_opts st_non]. rewrite <- app_assoc. reflexivity.
  - reflexivity.
Qed.

(* ---------- long-only mode ---------- *)
Lemma long_only_one_dash cfg specs st body :
  has cfg bitLO = true -> st_pend st = None -> st_stop st = false ->
  body <> [] -> prefix1 body = false ->
  step cfg specs st (DASH :: body) = step cfg specs st (DASH :: DASH :: body)
  /\ step cfg specs st (DASH :: body) = after_long st (parseLong body specs).
Proof.
  intros Hl Hp Hs Hb Hd. unfold step. rewrite Hp, Hs, Hl.
  destruct body as [|b r]; [congruence|]. cbn in Hd.
  cbn [str_eqb list_eqb DD D1 prefix2 prefix1 skipn]. rewrite N.eqb_refl, Hd. cbn.
  rewrite !andb_false_r. cbn. auto.
Qed.

Definition all_long (st : pstate) : Prop :=
  Forall (fun o => o_long o = true) (st_opts st)
  /\ (forall o, st_pend st = Some o -> o_long o = true).

Lemma parseLong_loop_long s eq specs o b : parseLong_loop s eq specs = Some (o, b) -> o_long o = true.
Proof.
  induction specs as [|sp r IH]; simpl; [discriminate|].
  destruct (is_nil (s_long sp)); [exact IH|].
  destruct (str_eqb s (s_long sp)); [intros H; inversion H; reflexivity|].
  destruct eq as [e|]; [|exact IH].
  destruct (str_eqb (firstn e s) (s_long sp)); [intros H; inversion H; reflexivity|exact IH].
Qed.

Lemma parseLong_long s specs : o_long (fst (parseLong s specs)) = true.
Proof.
  unfold parseLong. destruct (parseLong_loop s (index_of EQ s) specs) as [[o b]|] eqn:E.
  - apply parseLong_loop_long in E. exact E.
  - destruct (index_of EQ s); reflexivity.
Qed.

Lemma after_long_all_long st s specs : all_long st -> st_pend st = None ->
  all_long (after_long st (parseLong s specs)).
Proof.
  intros [Ho Hp] Hn. pose proof (parseLong_long s specs) as L.
  destruct (parseLong s specs) as [o b]. cbn in L. unfold after_long. destruct b; split; cbn.
  - exact Ho.
  - intros o' E; inversion E; subst; exact L.
  - apply Forall_app; split; [exact Ho|constructor; [exact L|constructor]].
  - intros o' E; discriminate.
Qed.

Lemma step_all_long cfg specs st w : has cfg bitLO = true -> all_long st -> all_long (step cfg specs st w).
Proof.
  intros Hl [Ho Hp]. unfold step. destruct (st_pend st) as [o|] eqn:Pe.
  - split; cbn; [|intros o' E; discriminate].
    apply Forall_app; split; [exact Ho|]. constructor; [|constructor]. cbn. apply Hp; reflexivity.
  - destruct (st_stop st); [split; cbn; [exact Ho|intros o' E; discriminate]|].
    destruct (has cfg bitSADD && str_eqb w DD); [split; cbn; [exact Ho|intros o' E; discriminate]|].
    destruct (prefix2 w && negb (str_eqb w DD)).
    { apply after_long_all_long; [split; [exact Ho|intros o' E'; rewrite Pe in E'; discriminate]|exact Pe]. }
    destruct (prefix1 w && negb (str_eqb w DD) && negb (str_eqb w D1)).
    { rewrite Hl. apply after_long_all_long; [split; [exact Ho|intros o' E'; rewrite Pe in E'; discriminate]|exact Pe]. }
    split; cbn; [exact Ho|intros o' E; discriminate].
Qed.

Lemma long_only_no_short_options cfg specs args : has cfg bitLO = true ->
  all_long (parse cfg specs args).
Proof.
  intros Hl. unfold parse.
  assert (G : forall st, all_long st -> all_long (fold_left (step cfg specs) args st)).
  { induction args as [|w r IH]; intros st Hst; [exact Hst|].
    simpl. apply IH. apply step_all_long; assumption. }
  apply G. split; cbn; [constructor|intros o E; discriminate].
Qed.

(* ---------- Complete reads all but the last word as parse does ---------- *)
Lemma complete_none cfg specs args : Complete cfg specs args = None <-> args = [].
Proof. destruct args; simpl; split; intros; congruence. Qed.

Lemma complete_prefix_is_parse cfg specs args opts non ctx :
  Complete cfg specs args = Some (opts, non, ctx) ->
  non = st_non (parse cfg specs (removelast args))
  /\ (exists extra, opts = st_opts (parse cfg specs (removelast args)) ++ extra
        /\ (st_pend (parse cfg specs (removelast args)) <> None
            \/ st_stop (parse cfg specs (removelast args)) = true -> extra = []))
  /\ (forall o, st_pend (parse cfg specs (removelast args)) = Some o ->
        ctx = mkCtx OptionArgument (Some (set_arg o (last args []))) [])
  /\ (st_pend (parse cfg specs (removelast args)) = None ->
      st_stop (parse cfg specs (removelast args)) = true ->
        ctx = mkCtx Argument None (last args [])).
Proof.
  destruct args as [|a r]; [discriminate|]. unfold Complete.
  set (st := parse cfg specs (removelast (a :: r))). set (w := last (a :: r) []).
  intros H.
  assert (N0 : forall l : list opt, l = l ++ []) by (intros; symmetry; apply app_nil_r).
  destruct (st_pend st) as [o|] eqn:Hp.
  { inversion H; subst. repeat split; try congruence.
    exists []. split; [apply N0|auto]. }
  destruct (st_stop st) eqn:Hs.
  { inversion H; subst. repeat split; try congruence. exists []. split; [apply N0|auto]. }
  assert (Hex : forall extra, exists extra0, st_opts st ++ extra = st_opts st ++ extra0 /\
            (@None opt <> None \/ false = true -> extra0 = @nil opt)).
  { intros extra. exists extra. split; [reflexivity|]. intros [C|C]; congruence. }
  assert (Hex0 : exists extra0, st_opts st = st_opts st ++ extra0 /\
            (@None opt <> None \/ false = true -> extra0 = @nil opt)).
  { exists []. split; [apply N0|auto]. }
  repeat match type of H with
  | context [if ?c then _ else _] => destruct c
  end; inversion H; subst; repeat split; try congruence; try apply Hex; try apply Hex0.
Qed.

(* ---------- what Parse reports ---------- *)
Lemma errs_of_meaning cv items : errs_of (meaning cv items) = ref_errs items.
Proof. reflexivity. Qed.

Lemma Parse_is_ref cs specs : longs_no_eq specs = true -> forall args,
  Parse (bits_of cs) specs args =
  (flat_map item_opts (tokenize (conv_of cs) specs false args),
   flat_map item_non (tokenize (conv_of cs) specs false args),
   ref_errs (tokenize (conv_of cs) specs false args)).
Proof.
  intros Hne args. unfold Parse. rewrite (parse_is_ref cs specs Hne args). reflexivity.
Qed.

(* an error is reported exactly when an argument is missing or an option is unknown *)
Lemma errors_iff cfg specs args :
  let '(opts, non, errs) := Parse cfg specs args in
  (In EMissing errs <-> st_pend (parse cfg specs args) <> None)
  /\ (In EUnknown errs <-> exists o, In o opts /\ o_unknown o = true)
  /\ (errs = [] <-> st_pend (parse cfg specs args) = None /\ Forall (fun o => o_unknown o = false) opts).
Proof.
  unfold Parse, errs_of. set (st := parse cfg specs args).
  assert (M : forall l : list opt, In EMissing (map (fun _ => EUnknown) l) -> False).
  { induction l; simpl; [auto|]. intros [C|C]; [discriminate|auto]. }
  assert (U : forall l : list opt, In EUnknown (map (fun _ : opt => EUnknown) l) <-> l <> []).
  { destruct l; simpl; split; intros; try congruence; auto. }
  split; [|split].
  - destruct (st_pend st); simpl; split; intros; try congruence; auto.
    exfalso. eapply M; eauto.
  - rewrite in_app_iff, U. split.
    + intros [C|C]; [destruct (st_pend st); simpl in C; [destruct C as [C|C]; [discriminate|contradiction]|contradiction]|].
      destruct (filter o_unknown (st_opts st)) as [|o l] eqn:F; [congruence|].
      assert (I : In o (filter o_unknown (st_opts st))) by (rewrite F; left; reflexivity).
      apply filter_In in I. exists o. exact I.
    + intros [o [I Hu]]. right. intros E.
      assert (I2 : In o (filter o_unknown (st_opts st))) by (apply filter_In; auto).
      rewrite E in I2. contradiction.
  - split.
    + intros E. apply app_eq_nil in E as [E1 E2]. split.
      * destruct (st_pend st); [discriminate|reflexivity].
      * apply Forall_forall. intros o I. destruct (o_unknown o) eqn:Hu; [|reflexivity].
        assert (I2 : In o (filter o_unknown (st_opts st))) by (apply filter_In; auto).
        destruct (filter o_unknown (st_opts st)); [contradiction|discriminate].
    + intros [E1 E2]. rewrite E1. simpl.
      assert (F : filter o_unknown (st_opts st) = []).
      { induction (st_opts st) as [|o l IH]; [reflexivity|]. inversion E2; subst. simpl.
        rewrite H1. auto. }
      rewrite F. reflexivity.
Qed.

(* ---------- a known option comes from a spec that has that kind of name ---------- *)
Definition named_for (o : opt) : Prop :=
  if o_long o then s_long (o_spec o) <> [] else s_short (o_spec o) <> 0.

Definition from_specs (specs : list ospec) (o : opt) : Prop :=
  o_unknown o = true \/ (In (o_spec o) specs /\ named_for o).

Lemma parseLong_loop_from s eq specs o b :
  parseLong_loop s eq specs = Some (o, b) ->
  In (o_spec o) specs /\ o_long o = true /\ s_long (o_spec o) <> [].
Proof.
  induction specs as [|sp r IH]; simpl; [discriminate|].
  destruct (is_nil (s_long sp)) eqn:Hn; [intros H; destruct (IH H) as (A & B & C); auto|].
  apply is_nil_false in Hn.
  destruct (str_eqb s (s_long sp)); [intros H; inversion H; cbn; auto|].
  destruct eq as [e|]; [|intros H; destruct (IH H) as (A & B & C); auto].
  destruct (str_eqb (firstn e s) (s_long sp)); [intros H; inversion H; cbn; auto|].
  intros H; destruct (IH H) as (A & B & C); auto.
Qed.

Lemma parseLong_from s specs : from_specs specs (fst (parseLong s specs)).
Proof.
  unfold parseLong. destruct (parseLong_loop s (index_of EQ s) specs) as [[o b]|] eqn:E.
  - right. apply parseLong_loop_from in E as (A & B & C). cbn. split; [exact A|].
    unfold named_for. rewrite B. exact C.
  - left. destruct (index_of EQ s); reflexivity.
Qed.

Lemma findShort_in r specs sp : findShort r specs = Some sp -> In sp specs /\ s_short sp <> 0.
Proof.
  induction specs as [|x l IH]; simpl; [discriminate|].
  destruct (N.eqb (s_short x) 0) eqn:Z; cbn [negb andb].
  - intros H; destruct (IH H); auto.
  - destruct (N.eqb r (s_short x)).
    + intros H; inversion H; subst. split; [auto|]. apply N.eqb_neq. exact Z.
    + intros H; destruct (IH H); auto.
Qed.

Lemma parseShort_from s specs :
  Forall (fun o => from_specs specs o /\ o_long o = false) (fst (parseShort s specs)).
Proof.
  induction s as [|r rest IH]; simpl; [constructor|].
  destruct (findShort r specs) as [sp|] eqn:F.
  - apply findShort_in in F as [F Fz].
    assert (G : forall a, from_specs specs (mkOpt sp false false a) /\ o_long (mkOpt sp false false a) = false).
    { intros a. split; [right; cbn; split; [exact F|exact Fz]|reflexivity]. }
    destruct (s_arity sp).
    + destruct (parseShort rest specs) as [os b]. cbn in *. constructor; [apply G|exact IH].
    + cbn. constructor; [apply G|constructor].
    + cbn. constructor; [apply G|constructor].
  - cbn. constructor; [split; [left; reflexivity|reflexivity]|constructor].
Qed.

Definition st_from (specs : list ospec) (st : pstate) : Prop :=
  Forall (from_specs specs) (st_opts st) /\ (forall o, st_pend st = Some o -> from_specs specs o).

Lemma after_long_from specs st s : st_from specs st -> st_pend st = None ->
  st_from specs (after_long st (parseLong s specs)).
Proof.
  intros [Ho Hp] Hn. pose proof (parseLong_from s specs) as L.
  destruct (parseLong s specs) as [o b]. cbn in L. unfold after_long. destruct b; split; cbn.
  - exact Ho.
  - intros o' E; inversion E; subst; exact L.
  - apply Forall_app; split; [exact Ho|constructor; [exact L|constructor]].
  - intros o' E; discriminate.
Qed.

Lemma Forall_removelast {A} (P : A -> Prop) l : Forall P l -> Forall P (removelast l).
Proof. induction 1 as [|x l Hx Hl IH]; simpl; [constructor|]. destruct l; [constructor|].
  constructor; assumption. Qed.

Lemma Forall_last {A} (P : A -> Prop) l d : Forall P l -> l <> [] -> P (last l d).
Proof. induction 1 as [|x l Hx Hl IH]; [congruence|]. intros _. destruct l; [exact Hx|].
  apply IH. discriminate. Qed.

Lemma parseShort_need_nonempty s specs : snd (parseShort s specs) = true -> fst (parseShort s specs) <> [].
Proof.
  destruct s as [|r rest]; simpl; [discriminate|].
  destruct (findShort r specs) as [sp|]; [|discriminate].
  destruct (s_arity sp); [|discriminate..].
  destruct (parseShort rest specs); cbn. discriminate.
Qed.

Lemma step_from cfg specs st w : st_from specs st -> st_from specs (step cfg specs st w).
Proof.
  intros [Ho Hp]. unfold step. destruct (st_pend st) as [o|] eqn:Pe.
  - split; cbn; [|intros o' E; discriminate].
    apply Forall_app; split; [exact Ho|]. constructor; [|constructor].
    specialize (Hp o eq_refl). unfold from_specs, named_for in *. cbn. exact Hp.
  - destruct (st_stop st); [split; cbn; [exact Ho|intros o' E; discriminate]|].
    destruct (has cfg bitSADD && str_eqb w DD); [split; cbn; [exact Ho|intros o' E; discriminate]|].
    destruct (prefix2 w && negb (str_eqb w DD)).
    { apply after_long_from; [split; [exact Ho|intros o' E'; rewrite Pe in E'; discriminate]|exact Pe]. }
    destruct (prefix1 w && negb (str_eqb w DD) && negb (str_eqb w D1)).
    { destruct (has cfg bitLO).
      - apply after_long_from; [split; [exact Ho|intros o' E'; rewrite Pe in E'; discriminate]|exact Pe].
      - pose proof (parseShort_from (skipn 1 w) specs) as F.
        pose proof (parseShort_need_nonempty (skipn 1 w) specs) as NE.
        destruct (parseShort (skipn 1 w) specs) as [os need]. cbn in F, NE.
        assert (F' : Forall (from_specs specs) os).
        { eapply Forall_impl; [|exact F]. intros o [X _]; exact X. }
        destruct need; split; cbn.
        + apply Forall_app; split; [exact Ho|apply Forall_removelast; exact F'].
        + intros o E; inversion E; subst. apply Forall_last; [exact F'|apply NE; reflexivity].
        + apply Forall_app; split; assumption.
        + intros o E; discriminate. }
    split; cbn; [exact Ho|intros o' E; discriminate].
Qed.

Lemma parse_from cfg specs args : st_from specs (parse cfg specs args).
Proof.
  unfold parse.
  assert (G : forall st, st_from specs st -> st_from specs (fold_left (step cfg specs) args st)).
  { induction args as [|w r IH]; intros st Hst; [exact Hst|]. simpl. apply IH. apply step_from; assumption. }
  apply G. split; cbn; [constructor|intros o E; discriminate].
Qed.

(* every known option returned (or waiting) is one of the specs ... *)
Lemma known_options_from_specs cfg specs args o :
  In o (st_opts (parse cfg specs args)) \/ st_pend (parse cfg specs args) = Some o ->
  o_unknown o = false -> In (o_spec o) specs.
Proof.
  intros Hi Hu. destruct (parse_from cfg specs args) as [F P].
  assert (X : from_specs specs o).
  { destruct Hi as [Hi|Hi]; [rewrite Forall_forall in F; apply F; exact Hi|apply P; exact Hi]. }
  destruct X as [C|[C _]]; [congruence|exact C].
Qed.

(* ... a long one only of a spec that has a long name ... *)
Lemma long_matches_only_long_specs cfg specs args o :
  In o (st_opts (parse cfg specs args)) \/ st_pend (parse cfg specs args) = Some o ->
  o_unknown o = false -> o_long o = true -> s_long (o_spec o) <> [].
Proof.
  intros Hi Hu Hl. destruct (parse_from cfg specs args) as [F P].
  assert (X : from_specs specs o).
  { destruct Hi as [Hi|Hi]; [rewrite Forall_forall in F; apply F; exact Hi|apply P; exact Hi]. }
  destruct X as [C|[_ C]]; [congruence|]. unfold named_for in C. rewrite Hl in C. exact C.
Qed.

(* ... and a short one only of a spec that has a short name *)
Lemma short_matches_only_short_specs cfg specs args o :
  In o (st_opts (parse cfg specs args)) \/ st_pend (parse cfg specs args) = Some o ->
  o_unknown o = false -> o_long o = false -> s_short (o_spec o) <> 0.
Proof.
  intros Hi Hu Hl. destruct (parse_from cfg specs args) as [F P].
  assert (X : from_specs specs o).
  { destruct Hi as [Hi|Hi]; [rewrite Forall_forall in F; apply F; exact Hi|apply P; exact Hi]. }
  destruct X as [C|[_ C]]; [congruence|]. unfold named_for in C. rewrite Hl in C. exact C.
Qed.
