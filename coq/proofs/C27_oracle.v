(* C27 -- the acceptor check_C27 is sound for the Prop-level statement of the
   property on observations. *)
From verif Require Import lib.Base model.C27.
Open Scope N_scope.

Definition Live (s : snap) (p : N) : Prop := In p (map fst (sn_daemons s)).

(* every live listening daemon is the one the socket path refers to *)
Definition ListenersOk (s : snap) : Prop :=
  forall p, In (p, true) (sn_daemons s) -> sn_owner s = Some p.

(* the harness itself ended the connection of shell i (whose peer was p) *)
Definition Exempt (a : action) (prev : snap) (i : nat) (p : N) : Prop :=
  match a with
  | ALeave s => s = i
  | ACrashPeer s => peer_of prev s = Some p
  | AActs _ => False
  end.

Definition ShellOk (a : action) (prev cur : snap) (i : nat) (o : shobs) : Prop :=
  match nth_error (sn_shells prev) i with
  | Some (OConn p) =>
    (* serves while clients: a connected client stays connected to the same live daemon *)
    Exempt a prev i p \/ (o = OConn p /\ Live cur p)
  | _ =>
    (* activation result: connected to a live daemon that holds the database, or not connected *)
    forall q, o = OConn q -> Live cur q /\ sn_lock cur = Some q
  end.

Definition SnapOk (a : action) (prev cur : snap) : Prop :=
  ListenersOk cur /\
  forall i o, nth_error (sn_shells cur) i = Some o -> ShellOk a prev cur i o.

Fixpoint TraceOk (prev : snap) (tr : list (action * snap)) : Prop :=
  match tr with
  | [] => True
  | (a, s) :: r => SnapOk a prev s /\ TraceOk s r
  end.

Definition Spec_C27 (s0 : snap) (tr : list (action * snap)) : Prop :=
  ListenersOk s0 /\ TraceOk s0 tr.

Lemma memN_In x l : memN x l = true -> In x l.
Proof.
  induction l as [|y l IH]; cbn; [discriminate|].
  destruct (N.eqb_spec x y) as [->|NE]; auto.
Qed.

Lemma oN_eqb_eq a b : oN_eqb a b = true -> a = b.
Proof.
  destruct a, b; cbn; try discriminate; auto. intros H. apply N.eqb_eq in H. congruence.
Qed.

Lemma listeners_ok_sound s : listeners_ok s = true -> ListenersOk s.
Proof.
  unfold listeners_ok, ListenersOk. intros H p I.
  rewrite forallb_forall in H. specialize (H _ I). cbn in H. apply oN_eqb_eq in H. assumption.
Qed.

Lemma forallb_i_nth {A} (f : nat -> A -> bool) l : forall k i x,
  forallb_i f k l = true -> nth_error l i = Some x -> f (k + i)%nat x = true.
Proof.
  induction l as [|y l IH]; intros k i x H N.
  - destruct i; discriminate.
  - cbn in H. apply andb_true_iff in H as [H1 H2]. destruct i as [|i]; cbn in N.
    + inversion N; subst. rewrite Nat.add_0_r. assumption.
    + rewrite <- Nat.add_succ_comm. eapply IH; eassumption.
Qed.

Lemma conn_live_sound cur p q : (p =? q) && live cur q = true -> OConn q = OConn p /\ Live cur p.
Proof.
  intros H. apply andb_true_iff in H as [E L]. apply N.eqb_eq in E. subst q.
  split; [reflexivity|]. apply memN_In. assumption.
Qed.

Lemma shell_ok_sound a prev cur i o : shell_ok a prev cur i o = true -> ShellOk a prev cur i o.
Proof.
  unfold shell_ok, ShellOk.
  destruct (nth_error (sn_shells prev) i) as [[| |p| |]|];
    try (intros H q ->; apply andb_true_iff in H as [L K]; split; [apply memN_In; exact L|apply oN_eqb_eq; exact K]).
  destruct a as [l|s|s]; cbn [Exempt].
  - destruct o; try discriminate. intros H. right. apply conn_live_sound. assumption.
  - destruct (Nat.eqb_spec s i) as [->|NE]; [left; reflexivity|].
    destruct o; try discriminate. intros H. right. apply conn_live_sound. assumption.
  - destruct (oN_eqb (peer_of prev s) (Some p)) eqn:E.
    + intros _. left. apply oN_eqb_eq. assumption.
    + destruct o; try discriminate. intros H. right. apply conn_live_sound. assumption.
Qed.

Lemma snap_ok_sound a prev cur : snap_ok a prev cur = true -> SnapOk a prev cur.
Proof.
  unfold snap_ok, SnapOk. intros H. apply andb_true_iff in H as [H1 H2]. split.
  - apply listeners_ok_sound. assumption.
  - intros i o N. apply shell_ok_sound. exact (forallb_i_nth _ _ 0%nat i o H2 N).
Qed.

Lemma trace_ok_sound tr : forall prev, trace_ok prev tr = true -> TraceOk prev tr.
Proof.
  induction tr as [|[a s] r IH]; intros prev H; cbn in *; [exact I|].
  apply andb_true_iff in H as [H1 H2]. split; [apply snap_ok_sound; assumption|apply IH; assumption].
Qed.

Lemma check_C27_sound s0 tr : check_C27 s0 tr = true -> Spec_C27 s0 tr.
Proof.
  unfold check_C27, Spec_C27. intros H. apply andb_true_iff in H as [H1 H2].
  split; [apply listeners_ok_sound|apply trace_ok_sound]; assumption.
Qed.

(* what ListenersOk buys: at most one live daemon listens on the socket *)
Lemma listeners_unique s p q :
  ListenersOk s -> In (p, true) (sn_daemons s) -> In (q, true) (sn_daemons s) -> p = q.
Proof. intros H P Q. apply H in P. apply H in Q. congruence. Qed.
