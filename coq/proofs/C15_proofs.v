(* C15 — meta-theorems of the reference interpreter. *)
From verif Require Import lib.Base model.C15_Syntax model.C15_Values model.C15_Interp.

(* ------------------------------------------------------------------ *)
(* The interpreter is a function: a program, a start state and a fuel
   determine the result. *)
Lemma interp_deterministic : forall fuel t s r1 r2,
  eval fuel t s = r1 -> eval fuel t s = r2 -> r1 = r2.
Proof. intros fuel t s r1 r2 H1 H2. congruence. Qed.

(* ------------------------------------------------------------------ *)
(* Fuel monotonicity.  r1 <= r2: r1 ran out of fuel, or they are equal. *)
Definition le_res (r1 r2 : res) : Prop := snd r1 = OutOfFuel \/ r1 = r2.
Definition le_run (f g : runner) : Prop := forall t s, le_res (f t s) (g t s).

Lemma le_res_refl r : le_res r r.
Proof. right; reflexivity. Qed.

Lemma le_res_trans a b c : le_res a b -> le_res b c -> le_res a c.
Proof.
  intros [H|H] H2; [left; exact H|]. subst. exact H2.
Qed.

Lemma bind_mono r1 r2 k1 k2 :
  le_res r1 r2 -> (forall s vs, le_res (k1 s vs) (k2 s vs)) ->
  le_res (bind r1 k1) (bind r2 k2).
Proof.
  intros [H|H] Hk.
  - left. destruct r1 as [s o]; simpl in *; subst; reflexivity.
  - subst. destruct r2 as [s [vs|k p| |]]; simpl; try apply le_res_refl. apply Hk.
Qed.

Lemma settle_mono r1 r2 k1 k2 :
  le_res r1 r2 -> (forall s o, le_res (k1 s o) (k2 s o)) ->
  le_res (settle r1 k1) (settle r2 k2).
Proof.
  intros [H|H] Hk.
  - left. destruct r1 as [s o]; simpl in *; subst; reflexivity.
  - subst. destruct r2 as [s [vs|k p| |]]; simpl; try apply le_res_refl; apply Hk.
Qed.

Lemma lift_mono {A} s (p : pres A) k1 k2 :
  (forall a, le_res (k1 a) (k2 a)) -> le_res (lift s p k1) (lift s p k2).
Proof. intros Hk. destruct p; simpl; try apply le_res_refl. apply Hk. Qed.

Ltac mono_step :=
  first
    [ apply le_res_refl
    | apply bind_mono; [ | intros ? ? ]
    | apply settle_mono; [ | intros ? ? ]
    | apply lift_mono; intros ?
    | match goal with H : le_run ?f ?g |- le_res (?f _ _) (?g _ _) => apply H end
    | match goal with
      | |- le_res (match ?x with _ => _ end) (match ?x with _ => _ end) => destruct x
      | |- le_res (if ?x then _ else _) (if ?x then _ else _) => destruct x
      end ].

Ltac dlookup := match goal with |- context [lookup ?e ?x] => destruct (lookup e x) end.

Section Mono.
Variables f g : runner.
Hypothesis Hfg : le_run f g.

Lemma eval_list_mono : forall es s acc, le_res (eval_list f es s acc) (eval_list g es s acc).
Proof. induction es as [|e r IH]; intros; simpl; repeat mono_step. apply IH. Qed.

Lemma eval_groups_mono : forall es s acc, le_res (eval_groups f es s acc) (eval_groups g es s acc).
Proof. induction es as [|e r IH]; intros; simpl; repeat mono_step. apply IH. Qed.

Lemma eval_singles_mono : forall es s acc k1 k2,
  (forall s vs, le_res (k1 s vs) (k2 s vs)) ->
  le_res (eval_singles f es s acc k1) (eval_singles g es s acc k2).
Proof.
  induction es as [|e r IH]; intros s acc k1 k2 Hk; simpl; [apply Hk|].
  repeat mono_step. apply IH, Hk.
Qed.

Lemma eval_opts_mono : forall os s acc k1 k2,
  (forall s vs, le_res (k1 s vs) (k2 s vs)) ->
  le_res (eval_opts f os s acc k1) (eval_opts g os s acc k2).
Proof.
  induction os as [|[x e] r IH]; intros s acc k1 k2 Hk; simpl; [apply Hk|].
  repeat mono_step. apply IH, Hk.
Qed.

Lemma eval_lvalues_mono : forall lvs s acc k1 k2,
  (forall s ts, le_res (k1 s ts) (k2 s ts)) ->
  le_res (eval_lvalues f lvs s acc k1) (eval_lvalues g lvs s acc k2).
Proof.
  induction lvs as [|[[b x] ixs] r IH]; intros s acc k1 k2 Hk; simpl; [apply Hk|].
  destruct (lookup (st_env s) x); [|apply le_res_refl].
  apply eval_singles_mono. intros s' ivs. repeat mono_step. apply IH, Hk.
Qed.

Lemma do_assign_mono m lvs rhs s : le_res (do_assign f m lvs rhs s) (do_assign g m lvs rhs s).
Proof.
  unfold do_assign. apply eval_lvalues_mono. intros s1 ts.
  apply bind_mono; [apply eval_list_mono|]. intros s2 vs.
  repeat mono_step.
Qed.

Lemma with_assigns_mono : forall assigns s,
  le_res (with_assigns f assigns s) (with_assigns g assigns s).
Proof.
  induction assigns as [|[lvs rhs] r IH]; intros s; simpl; [apply le_res_refl|].
  apply bind_mono; [apply do_assign_mono|]. intros; apply IH.
Qed.

Lemma run_defers_mono fid : forall ds s first,
  le_res (run_defers f fid ds s first) (run_defers g fid ds s first).
Proof.
  induction ds as [|[a v|c] r IH]; intros s first; simpl.
  - apply le_res_refl.
  - apply IH.
  - repeat mono_step; apply IH.
Qed.

Lemma call_closure_mono args rest opts body cenv isfn vals sopts s :
  le_res (call_closure f args rest opts body cenv isfn vals sopts s)
         (call_closure g args rest opts body cenv isfn vals sopts s).
Proof.
  unfold call_closure.
  destruct (distribute rest (length args) vals); [|apply le_res_refl].
  destruct (bind_opts opts sopts); [|apply le_res_refl].
  destruct (alloc_all s (combine args l ++ l0) cenv) as [s1 e1].
  apply settle_mono; [apply Hfg|]. intros s3 o.
  apply settle_mono; [apply run_defers_mono|]. intros; apply le_res_refl.
Qed.

Lemma call_block_mono body s : le_res (call_block f body s) (call_block g body s).
Proof. unfold call_block. apply Hfg. Qed.

Lemma for_loop_mono a body els : forall items iterated s,
  le_res (for_loop f a items body els iterated s) (for_loop g a items body els iterated s).
Proof.
  induction items as [|v r IH]; intros iterated s; simpl.
  - destruct iterated; [apply le_res_refl|]. destruct els; [apply call_block_mono|apply le_res_refl].
  - apply settle_mono; [apply call_block_mono|]. intros s2 o.
    repeat mono_step; apply IH.
Qed.

Lemma each_loop_mono c : forall items s,
  le_res (each_loop f c items s) (each_loop g c items s).
Proof.
  induction items as [|v r IH]; intros s; simpl; [apply le_res_refl|].
  apply settle_mono; [apply Hfg|]. intros s2 o. repeat mono_step; apply IH.
Qed.

Lemma short_circuit_mono stop keep : forall es last s,
  le_res (short_circuit f stop keep es last s) (short_circuit g stop keep es last s).
Proof.
  induction es as [|e r IH]; intros last s; simpl; [apply le_res_refl|].
  apply bind_mono; [apply Hfg|]. intros s' vs.
  destruct (scan_stop stop vs last) as [v stopped]. destruct stopped; [apply le_res_refl|apply IH].
Qed.

Lemma inputs_of_mono rest inp s k1 k2 :
  (forall items, le_res (k1 items) (k2 items)) ->
  le_res (inputs_of rest inp s k1) (inputs_of rest inp s k2).
Proof.
  intros Hk. unfold inputs_of. destruct rest as [|c [|? ?]]; [apply Hk| |apply le_res_refl].
  apply lift_mono, Hk.
Qed.

Lemma apply_builtin_mono b args opts inp s :
  le_res (apply_builtin f b args opts inp s) (apply_builtin g b args opts inp s).
Proof.
  unfold apply_builtin, compare, out1.
  destruct opts; destruct b; try apply le_res_refl.
  - (* each *)
    destruct args as [|c rest]; [apply le_res_refl|].
    destruct rest as [|? [|? ?]]; try apply le_res_refl;
      destruct c; try apply le_res_refl; apply inputs_of_mono; intros; apply each_loop_mono.
Qed.

Lemma if_chain_mono els : forall branches s,
  le_res (if_chain f branches els s) (if_chain g branches els s).
Proof.
  induction branches as [|[c b] r IH]; intros s; simpl.
  - destruct els; [apply call_block_mono|apply le_res_refl].
  - apply bind_mono; [apply Hfg|]. intros s1 vs.
    destruct (forallb truthy vs); [apply call_block_mono|apply IH].
Qed.

Lemma del_targets_mono : forall ts s, le_res (del_targets f ts s) (del_targets g ts s).
Proof.
  induction ts as [|[x ixs] r IH]; intros s; simpl; [apply le_res_refl|].
  destruct ixs as [|i ixs]; [apply IH|].
  destruct (lookup (st_env s) x); [|apply le_res_refl].
  apply eval_singles_mono. intros s' ivs. apply lift_mono. intros nv. apply IH.
Qed.

Lemma run_stages_mono : forall stages inp s excs,
  le_res (run_stages f stages inp s excs) (run_stages g stages inp s excs).
Proof.
  induction stages as [|c r IH]; intros inp s excs; simpl; [apply le_res_refl|].
  destruct r as [|c2 r'].
  - apply settle_mono; [apply Hfg|]. intros; apply le_res_refl.
  - apply settle_mono; [apply Hfg|]. intros s1 o.
    destruct (Nat.ltb 30 (length (rev (st_out s1)))); [apply le_res_refl|apply IH].
Qed.

Lemma run_chunk_mono : forall c s, le_res (run_chunk f c s) (run_chunk g c s).
Proof.
  induction c as [|p r IH]; intros s; simpl; [apply le_res_refl|].
  apply bind_mono; [apply run_stages_mono|]. intros; apply IH.
Qed.

Ltac mono :=
  cbv zeta;
  repeat first
    [ apply le_res_refl
    | apply Hfg
    | apply eval_list_mono | apply eval_groups_mono | apply call_block_mono
    | apply do_assign_mono | apply with_assigns_mono | apply del_targets_mono
    | apply if_chain_mono | apply for_loop_mono | apply short_circuit_mono
    | apply apply_builtin_mono | apply run_chunk_mono | apply call_closure_mono
    | apply bind_mono; [ | intros ? ? ]
    | apply settle_mono; [ | intros ? ? ]
    | apply lift_mono; intros ?
    | apply eval_opts_mono; intros ? ?
    | apply eval_singles_mono; intros ? ?
    | match goal with
      | |- le_res (match ?x with _ => _ end) (match ?x with _ => _ end) => destruct x
      | |- le_res (if ?x then _ else _) (if ?x then _ else _) => destruct x
      end ].

Lemma step_expr_mono e s : le_res (step_expr f e s) (step_expr g e s).
Proof. unfold step_expr; destruct e; mono. Qed.

Lemma step_cmd_mono c inp s : le_res (step_cmd f c inp s) (step_cmd g c inp s).
Proof. unfold step_cmd; destruct c; mono. Qed.

Lemma step_mono t s : le_res (step f t s) (step g t s).
Proof.
  unfold step; destruct t; [apply step_expr_mono|apply step_cmd_mono|mono..].
Qed.
End Mono.

Open Scope nat_scope.

Lemma eval_mono_S : forall n, le_run (eval n) (eval (S n)).
Proof.
  induction n as [|n IH]; intros t s.
  - left; reflexivity.
  - change (le_res (step (eval n) t s) (step (eval (S n)) t s)). apply step_mono, IH.
Qed.

Lemma eval_mono : forall n m, n <= m -> le_run (eval n) (eval m).
Proof.
  intros n m H; induction H as [|m H IH]; intros t s; [apply le_res_refl|].
  eapply le_res_trans; [apply IH|apply eval_mono_S].
Qed.

(* More fuel never changes a result that is not OutOfFuel. *)
Lemma interp_fuel_mono : forall n m t s r,
  eval n t s = r -> snd r <> OutOfFuel -> n <= m -> eval m t s = r.
Proof.
  intros n m t s r Hr Hne Hle. destruct (eval_mono n m Hle t s) as [H|H].
  - rewrite Hr in H. contradiction.
  - rewrite <- H. exact Hr.
Qed.

(* hence results do not depend on the fuel at all *)
Lemma interp_fuel_independent : forall n m t s,
  snd (eval n t s) <> OutOfFuel -> snd (eval m t s) <> OutOfFuel -> eval n t s = eval m t s.
Proof.
  intros n m t s Hn Hm. destruct (Nat.le_ge_cases n m) as [H|H].
  - symmetry. eapply interp_fuel_mono; eauto.
  - eapply interp_fuel_mono; eauto.
Qed.

(* ------------------------------------------------------------------ *)
Definition finished_o (o : outcome) : bool := match o with Done _ | Exc _ _ => true | _ => false end.

(* try ... finally: whenever the command finishes at all, the finally block was
   run to completion on the state left by the try/catch/else part — whatever
   that part's outcome o was (normal, exception, break, continue, return) — and
   its own exception, if any, replaces the pending one. *)
Lemma finally_always_runs run body catch els fin inp s r :
  step_cmd run (CTry body catch els (Some fin)) inp s = r ->
  finished r = true ->
  exists s2 o rf,
    finished_o o = true
    /\ rf = call_block run fin s2 /\ finished rf = true
    /\ fst r = fst rf
    /\ snd r = match snd rf with Exc k p => Exc k p | _ => norm o end.
Proof.
  intros Hr Hf. subst r. unfold step_cmd in *. cbv zeta in *.
  match goal with H : finished (settle ?r1 _) = true |- _ => destruct r1 as [s2 o] end.
  destruct o as [vs|k p| |]; simpl in *; try discriminate.
  - destruct (call_block run fin s2) as [s3 o3] eqn:E.
    exists s2, (Done vs), (s3, o3). rewrite E.
    destruct o3; simpl in *; try discriminate; repeat split; auto.
  - destruct (call_block run fin s2) as [s3 o3] eqn:E.
    exists s2, (Exc k p), (s3, o3). rewrite E.
    destruct o3; simpl in *; try discriminate; repeat split; auto.
Qed.

(* Flow-control exceptions are caught exactly where the reference says:
   break/continue by the nearest loop (for, while, each), return by the nearest
   function defined with fn (a plain lambda lets it through), and a capture
   boundary never swallows one silently: ( ) re-raises it, ?( ) turns it into
   a value. *)
Lemma flow_exceptions_caught_at run :
  (forall a v items body els it s s2 p,
     call_block run body (store_at s a v) = (s2, Exc KBreak p) ->
     for_loop run a (v :: items) body els it s = ret s2 [])
  /\ (forall a v items body els it s s2 p,
     call_block run body (store_at s a v) = (s2, Exc KContinue p) ->
     for_loop run a (v :: items) body els it s = for_loop run a items body els true s2)
  /\ (forall f v items s s2 p,
     run (TCall f [v] [] []) s = (s2, Exc KBreak p) -> each_loop run f (v :: items) s = ret s2 [])
  /\ (forall f v items s s2 p,
     run (TCall f [v] [] []) s = (s2, Exc KContinue p) ->
     each_loop run f (v :: items) s = each_loop run f items s2)
  /\ (forall cond body els it s s1 vs s2 p,
     run (TExpr cond) s = (s1, Done vs) -> forallb truthy vs = true ->
     call_block run body s1 = (s2, Exc KBreak p) ->
     step run (TWhile cond body els it) s = ret s2 [])
  /\ (forall cond body els it s s1 vs s2 p,
     run (TExpr cond) s = (s1, Done vs) -> forallb truthy vs = true ->
     call_block run body s1 = (s2, Exc KContinue p) ->
     step run (TWhile cond body els it) s = run (TWhile cond body els true) s2)
  /\ (forall body cenv isfn s s3 p,
     run (TChunk body) (enter_frame (set_frame s cenv [] true)) = (s3, Exc KReturn p) ->
     st_defers s3 = [] ->
     snd (call_closure run [] None [] body cenv isfn [] [] s)
     = if isfn then Done [] else Exc KReturn p)
  /\ (forall c s s' k p,
     run (TChunk c) (set_out s []) = (s', Exc k p) ->
     step_expr run (ECapture c) s = (set_out s' (st_out s), Exc k p))
  /\ (forall c s s' k p,
     run (TChunk c) s = (s', Exc k p) -> step_expr run (EExcCapture c) s = ret s' [VExc k p]).
Proof.
  repeat split.
  - intros. simpl. rewrite H. reflexivity.
  - intros. simpl. rewrite H. reflexivity.
  - intros. simpl. rewrite H. reflexivity.
  - intros. simpl. rewrite H. reflexivity.
  - intros. simpl. rewrite H. simpl. rewrite H0, H1. reflexivity.
  - intros. simpl. rewrite H. simpl. rewrite H0, H1. reflexivity.
  - intros. unfold call_closure. simpl. rewrite H. simpl. rewrite H0. simpl.
    destruct isfn; reflexivity.
  - intros. simpl. rewrite H. reflexivity.
  - intros. simpl. rewrite H. reflexivity.
Qed.

(* lexical scoping: a closure value carries the environment of its definition
   site, and calling it evaluates the body in exactly that environment extended
   by its parameters — never in the caller's *)
Lemma scoping_lexical run args rest opts body cenv isfn vals sopts s vals' obs :
  distribute rest (length args) vals = Some vals' ->
  bind_opts opts sopts = Some obs ->
  exists s1 e1,
    alloc_all s (combine args vals' ++ obs) cenv = (s1, e1)
    /\ call_closure run args rest opts body cenv isfn vals sopts s
       = settle (run (TChunk body) (enter_frame (set_frame s1 e1 [] true))) (fun s3 o =>
           let o1 := match o with
                     | Exc KReturn _ => if isfn then Done [] else o
                     | _ => norm o
                     end in
           settle (run_defers run (g_next (st_ghost s1)) (st_defers s3) (set_defers s3 []) None) (fun s4 o' =>
             (leave_frame (set_frame s4 (st_env s) (st_defers s) (st_infn s))
                          (g_next (st_ghost s1)) (g_frame (st_ghost s)),
              match o1 with Done _ => norm o' | _ => o1 end))).
Proof.
  intros Hd Hb. destruct (alloc_all s (combine args vals' ++ obs) cenv) as [s1 e1] eqn:E.
  exists s1, e1. split; [reflexivity|]. unfold call_closure. rewrite Hd, Hb, E. reflexivity.
Qed.
