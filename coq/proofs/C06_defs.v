(* C06 — definitions used by the proofs: the abstraction function, the shape
   invariant of the tree, and the arithmetic bridge between Go's shift/mask
   index arithmetic (Z) and div/mod on nat. *)
From Coq Require Import Lia ZArith List Bool Arith.
From verif Require Import lib.Base lib.ListX model.C06.
Open Scope nat_scope.

Section Defs.
Variable b : Z.
Hypothesis Hb : (1 <= b)%Z.

Notation Bn := (B b).
Definition pw (h : nat) : nat := Bn ^ h.

Lemma nodeSize_pow : nodeSize b = (2 ^ b)%Z.
Proof. unfold nodeSize. rewrite Z.shiftl_1_l. reflexivity. Qed.

Lemma B_Z : Z.of_nat Bn = (2 ^ b)%Z.
Proof. unfold B. rewrite nodeSize_pow. rewrite Z2Nat.id; [reflexivity|]. apply Z.pow_nonneg; lia. Qed.

Lemma B_ge2 : 2 <= Bn.
Proof.
  assert (H : (2 ^ 1 <= 2 ^ b)%Z) by (apply Z.pow_le_mono_r; lia).
  rewrite <- B_Z in H. change (2 ^ 1)%Z with 2%Z in H. lia.
Qed.

Lemma pw_pos h : 0 < pw h.
Proof. unfold pw. pose proof B_ge2. apply Nat.neq_0_lt_0, Nat.pow_nonzero. lia. Qed.

Lemma pw_S h : pw (S h) = Bn * pw h.
Proof. reflexivity. Qed.

Lemma pw_Z h : Z.of_nat (pw h) = (2 ^ (Z.of_nat h * b))%Z.
Proof.
  unfold pw. rewrite Nat2Z.inj_pow, B_Z. rewrite <- Z.pow_mul_r by lia. f_equal. lia.
Qed.

(* digit of i at level h *)
Definition dig (i h : nat) : nat := (i / pw h) mod Bn.

Lemma chunk_nat i h : chunk b (Z.of_nat i) h = dig i h.
Proof.
  unfold chunk, dig, chunkMask.
  rewrite Z.shiftr_div_pow2 by lia.
  rewrite nodeSize_pow. replace (2 ^ b - 1)%Z with (Z.ones b) by (rewrite Z.ones_equiv; lia).
  rewrite Z.land_ones by lia.
  rewrite <- pw_Z, <- B_Z.
  rewrite <- Nat2Z.inj_div, <- Nat2Z.inj_mod. apply Nat2Z.id.
Qed.

Lemma dig_lt i h : dig i h < Bn.
Proof. unfold dig. apply Nat.mod_upper_bound. pose proof B_ge2; lia. Qed.

Lemma dig0 i : dig i 0 = i mod Bn.
Proof. unfold dig, pw. rewrite Nat.pow_0_r, Nat.div_1_r. reflexivity. Qed.

(* tree size in nat *)
Definition tsn (c : nat) : nat := if c <? Bn then 0 else ((c - 1) / Bn) * Bn.

Lemma tsn_mult c : exists L, tsn c = L * Bn.
Proof. unfold tsn. destruct (c <? Bn); [exists 0; reflexivity|eexists; reflexivity]. Qed.

Lemma tsn_bounds c : tsn c <= c /\ (0 < c -> tsn c < c) /\ c <= tsn c + Bn.
Proof.
  pose proof B_ge2 as HB. unfold tsn. destruct (Nat.ltb_spec c Bn) as [H|H]; [lia|].
  pose proof (Nat.div_mod (c - 1) Bn ltac:(lia)) as E.
  pose proof (Nat.mod_upper_bound (c - 1) Bn ltac:(lia)) as U.
  rewrite (Nat.mul_comm Bn) in E. lia.
Qed.

Lemma treeSize_nat c h r t :
  treeSize b (mkVec (Z.of_nat c) h r t) = Z.of_nat (tsn c).
Proof.
  pose proof B_ge2 as HB.
  unfold treeSize, tsn, tailMaxLen. cbn [count].
  destruct (Nat.ltb_spec c Bn) as [H|H].
  - destruct (Z.ltb_spec (Z.of_nat c) (nodeSize b)) as [H'|H']; [reflexivity|].
    rewrite nodeSize_pow, <- B_Z in H'. lia.
  - destruct (Z.ltb_spec (Z.of_nat c) (nodeSize b)) as [H'|H'].
    { rewrite nodeSize_pow, <- B_Z in H'. lia. }
    rewrite Z.shiftr_div_pow2, Z.shiftl_mul_pow2 by lia.
    rewrite <- B_Z. replace (Z.of_nat c - 1)%Z with (Z.of_nat (c - 1)) by lia.
    rewrite <- Nat2Z.inj_div, <- Nat2Z.inj_mul. reflexivity.
Qed.

End Defs.
