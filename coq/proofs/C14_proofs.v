(* C14 — element assignment is persistent: theorems about the store of the
   reference interpreter. *)
From verif Require Import lib.Base model.C15_Syntax model.C15_Values model.C15_Interp
  proofs.C21_proofs.
Open Scope nat_scope.

(* An element assignment rebinds the variable to the nested assoc of its old
   value: the current one in reference mode, the one read when the lvalue was
   evaluated in faithful mode. *)
Lemma elem_set_is_nested_assoc s t v s' :
  t_ixs t <> [] ->
  assign_target s t v = POk s' ->
  exists nv,
    nested_assoc (if st_stale s then t_snap t else cell s (t_addr t)) (t_ixs t) v = POk nv
    /\ s' = store_at s (t_addr t) nv.
Proof.
  intros Hne. unfold assign_target. destruct (t_ixs t) as [|i r]; [congruence|].
  destruct (nested_assoc _ _ _) as [nv| |]; simpl; intros H; inversion H; subst.
  exists nv. split; reflexivity.
Qed.

(* in reference mode the base is the variable's value at assignment time *)
Lemma elem_set_sequential_partial s t v s' :
  st_stale s = false -> t_ixs t <> [] ->
  assign_target s t v = POk s' ->
  exists nv, nested_assoc (cell s (t_addr t)) (t_ixs t) v = POk nv /\ s' = store_at s (t_addr t) nv.
Proof.
  intros Hm Hne H. destruct (elem_set_is_nested_assoc _ _ _ _ Hne H) as (nv & E & ->).
  rewrite Hm in E. exists nv; split; auto.
Qed.

(* Frame: an (element) assignment changes the assigned variable's cell only —
   every other variable, every closure-captured cell, the values already
   output and every value read earlier (values are immutable terms) stay. *)
Lemma set_elem_frame s t v s' :
  assign_target s t v = POk s' ->
  (forall b, b <> t_addr t -> cell s' b = cell s b)
  /\ length (st_store s') = length (st_store s)
  /\ st_env s' = st_env s /\ st_out s' = st_out s /\ st_defers s' = st_defers s.
Proof. apply assign_target_frame. Qed.

(* the same for a whole list of assignments, complete or partly failed *)
Lemma assign_all_frame ts s vs s' rs st :
  assign_all s ts vs [] = (s', rs, st) ->
  forall b, touched rs b = false -> cell s' b = cell s b.
Proof.
  intros H. destruct (assign_all_restores _ _ _ _ _ _ _ H) as (news & Hrs & _ & Hun & _).
  rewrite app_nil_r in Hrs; subst. exact Hun.
Qed.

(* element deletion writes one cell as well *)
Lemma del_elem_frame s a nv b : b <> a -> cell (store_at s a nv) b = cell s b.
Proof. intros H. apply cell_store_at_other. auto. Qed.

(* get-after-set for the two container kinds *)
Lemma upd_nth_nth_error {A} (l : list A) i v : i < length l -> nth_error (upd_nth l i v) i = Some v.
Proof. revert i; induction l as [|x l IH]; intros [|i] H; simpl in *; try lia; auto. apply IH; lia. Qed.

Lemma map_get_assoc_same m k v : value_eqb k k = true -> map_get (map_assoc m k v) k = Some v.
Proof.
  intros Hk. induction m as [|[k' v'] r IH]; simpl.
  - rewrite Hk. reflexivity.
  - destruct (value_eqb k k') eqn:E; simpl; rewrite E; auto.
Qed.
