(* C33 / styledown — lines of the markup, widths, the style-character table of
   Derender, the configuration stanza as Render reads it back. *)
From verif Require Import lib.Base lib.Utf8 model.C34_width model.C33 model.C33_styledown
  proofs.C33_proofs proofs.C33_proofs2 proofs.C33_sd_flat.
Open Scope Z_scope.

(* ---- strings.Split(s, "\n") of text built from newline-free lines ---- *)
Lemma split_go_line a : forall rest cur, ~ In NL a ->
  split_go [NL] (a ++ NL :: rest) 0 cur = (rev cur ++ a) :: split_go [NL] rest 0 [].
Proof.
  induction a as [|c a IH]; intros rest cur Ha; cbn [app split_go].
  - cbn [is_prefix length Nat.sub]. rewrite N.eqb_refl. cbn [andb]. rewrite app_nil_r. reflexivity.
  - cbn [is_prefix length Nat.sub]. rewrite andb_true_r.
    destruct (N.eqb NL c) eqn:E; [apply N.eqb_eq in E; exfalso; apply Ha; left; congruence|].
    rewrite IH by (intros H; apply Ha; right; exact H). cbn [rev]. rewrite <- app_assoc. reflexivity.
Qed.

Lemma split_lines_line a rest : ~ In NL a -> split_lines (a ++ NL :: rest) = a :: split_lines rest.
Proof. intros H. unfold split_lines, split_bytes. rewrite split_go_line by exact H. reflexivity. Qed.

Lemma split_lines_nil : split_lines [] = [[]].
Proof. reflexivity. Qed.

Lemma split_lines_no_nl s : Forall (fun p => ~ In NL p) (split_lines s).
Proof. apply split_bytes_no_nl. Qed.

(* ---- association lists ---- *)
Lemma lookup_app {A} c (u : list (N * A)) c' v :
  lookup c (u ++ [(c', v)]) =
  match lookup c u with Some x => Some x | None => if N.eqb c' c then Some v else None end.
Proof.
  induction u as [|[k x] u IH]; cbn [app lookup]; [reflexivity|].
  destruct (N.eqb k c); [reflexivity | exact IH].
Qed.

Lemma lookup_map_in {A} (f : N -> A) cs c :
  lookup c (map (fun k => (k, f k)) cs) = if existsb (N.eqb c) cs then Some (f c) else None.
Proof.
  induction cs as [|k cs IH]; [reflexivity|]. cbn [map lookup existsb].
  rewrite (N.eqb_sym c k). destruct (N.eqb k c) eqn:E; [apply N.eqb_eq in E; subst; reflexivity | exact IH].
Qed.

Lemma existsb_eqb_in c l : existsb (N.eqb c) l = true <-> In c l.
Proof.
  rewrite existsb_exists. split.
  - intros (x & Hx & E). apply N.eqb_eq in E. subst. exact Hx.
  - intros H. exists c. split; [exact H | apply N.eqb_refl].
Qed.

Lemma dedup_spec l : forall seen,
  NoDup (dedup l seen) /\ forall c, In c (dedup l seen) <-> (In c l /\ ~ In c seen).
Proof.
  induction l as [|a l IH]; intros seen; cbn [dedup].
  - split; [constructor | intros c; cbn; tauto].
  - destruct (existsb (N.eqb a) seen) eqn:E.
    + apply existsb_eqb_in in E. destruct (IH seen) as (Hn & Hi). split; [exact Hn|].
      intros c. rewrite Hi. cbn [In]. split; [tauto|]. intros ([->|H] & Hs); [contradiction | tauto].
    + assert (Ha : ~ In a seen) by (intros H; apply existsb_eqb_in in H; congruence).
      destruct (IH (a :: seen)) as (Hn & Hi). split.
      * constructor; [|exact Hn]. rewrite Hi. cbn [In]. tauto.
      * intros c. cbn [In]. rewrite Hi. cbn [In].
        destruct (N.eq_dec a c) as [->|Hne]; [tauto|]. split; [tauto|]. intros ([H|H] & Hs); [contradiction|]. right. tauto.
Qed.

Section Table.
  Variable w : N -> Z.
  Variable parse_def : list N -> option (N * list styling).
  Hypothesis w_nonneg : forall r, 0 <= w r.

  Notation Wd := (W w).

  Lemma W_app a b : Wd (a ++ b) = Wd a + Wd b.
  Proof. unfold W. induction a as [|c a IH]; cbn [app width_runes]; [lia | rewrite IH; lia]. Qed.

  Lemma W_nonneg a : 0 <= Wd a.
  Proof. unfold W. induction a as [|c a IH]; cbn [width_runes]; [lia|]. pose proof (w_nonneg c). lia. Qed.

  Lemma W_repeat c k : Wd (repeat c k) = Z.of_nat k * w c.
  Proof. unfold W. induction k as [|k IH]; cbn [repeat width_runes]; [lia | rewrite IH; lia]. Qed.

  Lemma W_in c l : In c l -> w c <= Wd l.
  Proof.
    unfold W. induction l as [|a l IH]; [intros []|]. cbn [width_runes]. intros [->|H].
    - pose proof (W_nonneg l). unfold W in *. lia.
    - specialize (IH H). pose proof (w_nonneg a). lia.
  Qed.

  (* ---- the table built from styleDefs ---- *)
  Definition UserOK (user : list (N * list N)) : Prop :=
    forall c l, lookup c user = Some l ->
      l <> [] /\ ~ In NL l /\ exists ats, parse_def l = Some (c, ats).

  Definition CfsUser (cfs : list (style * N)) (user : list (N * list N)) : Prop :=
    forall s c, cfs_lookup s cfs = Some c ->
      exists l ats, lookup c user = Some l /\ parse_def l = Some (c, ats) /\ style_of ats = s.

  Lemma build_table_inv lines : forall cfs user cfs' user',
    Forall (fun l => ~ In NL l) lines ->
    UserOK user -> CfsUser cfs user ->
    build_table parse_def lines cfs user = Ok (cfs', user') ->
    UserOK user' /\ CfsUser cfs' user'.
  Proof.
    induction lines as [|l r IH]; intros cfs user cfs' user' Hl Hu Hc E; cbn [build_table] in E.
    - inversion E; subst. split; assumption.
    - inversion Hl as [|? ? Hl1 Hl2]; subst.
      destruct (is_nil l) eqn:En; [eapply IH; eassumption|].
      destruct (parse_def l) as [[c ats]|] eqn:Ep; [|discriminate].
      destruct (cfs_lookup (style_of ats) cfs); [discriminate|].
      destruct (lookup c user) eqn:Elu; [discriminate|].
      eapply IH; [exact Hl2 | | | exact E].
      + intros c' l' H. rewrite lookup_app in H. destruct (lookup c' user) eqn:E2.
        * inversion H; subst. apply Hu. exact E2.
        * destruct (N.eqb c c') eqn:E3; [|discriminate]. apply N.eqb_eq in E3. inversion H; subst.
          split; [apply is_nil_false; exact En|]. split; [exact Hl1|]. eexists; exact Ep.
      + intros s c' H. cbn [cfs_lookup] in H. destruct (style_eqb (style_of ats) s) eqn:Es.
        * apply style_eqb_spec in Es. inversion H; subst. exists l, ats.
          rewrite lookup_app, Elu, N.eqb_refl. auto.
        * destruct (Hc s c' H) as (l' & ats' & H1 & H2 & H3). exists l', ats'.
          rewrite lookup_app, H1. auto.
  Qed.

  Definition CfsOK (cfs : list (style * N)) (user : list (N * list N)) : Prop :=
    forall s c, cfs_lookup s cfs = Some c ->
      exists ats, style_of ats = s /\
        ((exists l, lookup c user = Some l /\ parse_def l = Some (c, ats))
         \/ (lookup c user = None /\ lookup c builtin_chars = Some ats)).

  Lemma CfsUser_OK cfs user : CfsUser cfs user -> CfsOK cfs user.
  Proof. intros H s c E. destruct (H s c E) as (l & ats & H1 & H2 & H3). exists ats. split; [exact H3|]. left. eauto. Qed.

  Lemma add_builtin_step cfs user c ats :
    CfsOK cfs user -> lookup c builtin_chars = Some ats ->
    CfsOK (match lookup c user with Some _ => cfs | None => (style_of ats, c) :: cfs end) user.
  Proof.
    intros H Hb. destruct (lookup c user) eqn:E; [exact H|].
    intros s c' Hl. cbn [cfs_lookup] in Hl. destruct (style_eqb (style_of ats) s) eqn:Es.
    - apply style_eqb_spec in Es. inversion Hl; subst. exists ats. split; [reflexivity|]. right. auto.
    - apply H. exact Hl.
  Qed.

  Lemma add_builtins_ok cfs user : CfsUser cfs user -> CfsOK (add_builtins cfs user) user.
  Proof.
    intros H. apply CfsUser_OK in H. unfold add_builtins, builtin_chars. cbn [fold_left fst snd].
    repeat (apply add_builtin_step; [|reflexivity]). exact H.
  Qed.

  (* every style character is one column wide and is not the newline *)
  Hypothesis pd_width : forall l c ats, parse_def l = Some (c, ats) -> w c = 1 /\ In c l.
  Hypothesis w_builtin : forall c ats, lookup c builtin_chars = Some ats -> w c = 1.

  Lemma cfs_char_width cfs user s c : CfsOK cfs user -> cfs_lookup s cfs = Some c -> w c = 1.
  Proof.
    intros H E. destruct (H s c E) as (ats & _ & [(l & _ & Hp) | (_ & Hb)]).
    - apply (pd_width l c ats Hp).
    - apply (w_builtin c ats Hb).
  Qed.

  (* ---- the configuration stanza read back by parseConfig ---- *)
  Hypothesis pd_no_eol : parse_def no_eol = None.

  Definition line_of (user : list (N * list N)) (c : N) : list N :=
    match lookup c user with Some l => l | None => [] end.
  Definition atoms_of (user : list (N * list N)) (c : N) : list styling :=
    match parse_def (line_of user c) with Some (_, a) => a | None => [] end.

  Lemma runes_eqb_eq a b : runes_eqb a b = true <-> a = b.
  Proof. apply list_eqb_spec. intros; apply N.eqb_eq. Qed.

  Lemma parse_config_defs user cs : forall b defs0,
    UserOK user -> NoDup cs ->
    (forall c, In c cs -> lookup c user <> None) ->
    (forall c, In c cs -> lookup c defs0 = None) ->
    parse_config parse_def (map (line_of user) cs ++ [[]]) b defs0
    = Ok (b, defs0 ++ map (fun c => (c, atoms_of user c)) cs).
  Proof.
    induction cs as [|c cs IH]; intros b defs0 Hu Hnd Hin Hfresh.
    - cbn. rewrite app_nil_r. reflexivity.
    - inversion Hnd as [|? ? Hnc Hnd']; subst.
      cbn [map app parse_config].
      destruct (lookup c user) as [l|] eqn:El; [|exfalso; apply (Hin c); [left; reflexivity | exact El]].
      destruct (Hu c l El) as (Hne & _ & ats & Hp).
      assert (Hlo : line_of user c = l) by (unfold line_of; rewrite El; reflexivity).
      rewrite Hlo. destruct (is_nil l) eqn:En; [apply is_nil_true in En; contradiction|].
      destruct (runes_eqb l no_eol) eqn:Ee.
      { apply runes_eqb_eq in Ee. assert (Hn : parse_def l = None) by (rewrite Ee; exact pd_no_eol).
        congruence. }
      rewrite Hp, (Hfresh c (or_introl eq_refl)).
      rewrite IH; try assumption.
      + rewrite <- app_assoc. cbn [app map]. unfold atoms_of at 2. rewrite Hlo, Hp. reflexivity.
      + intros c' H. apply Hin. right. exact H.
      + intros c' H. rewrite lookup_app, (Hfresh c' (or_intror H)).
        destruct (N.eqb c c') eqn:E; [apply N.eqb_eq in E; subst; contradiction | reflexivity].
  Qed.
End Table.
