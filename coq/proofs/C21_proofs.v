(* C21 — theorems about tmp / with / defer in the reference interpreter. *)
From verif Require Import lib.Base model.C15_Syntax model.C15_Values model.C15_Interp.
From Coq Require Import Arith.
Open Scope nat_scope.

(* ---- store facts ---- *)
Lemma length_upd_nth {A} (l : list A) n v : length (upd_nth l n v) = length l.
Proof. revert n; induction l as [|x l IH]; intros [|n]; simpl; auto. Qed.

Lemma nth_upd_nth_other {A} (l : list A) a b v d : a <> b -> nth b (upd_nth l a v) d = nth b l d.
Proof.
  revert a b; induction l as [|x l IH]; intros [|a] [|b] H; simpl; auto; try congruence.
Qed.

Lemma nth_upd_nth_same {A} (l : list A) a v d : a < length l -> nth a (upd_nth l a v) d = v.
Proof.
  revert a; induction l as [|x l IH]; intros [|a] H; simpl in *; try lia; auto. apply IH; lia.
Qed.

Lemma cell_store_at_other s a b v : a <> b -> cell (store_at s a v) b = cell s b.
Proof. intros H. unfold cell, store_at; simpl. apply nth_upd_nth_other, H. Qed.

Lemma length_store_at s a v : length (st_store (store_at s a v)) = length (st_store s).
Proof. unfold store_at; simpl. apply length_upd_nth. Qed.

(* writing back the value another state of the same size holds at [a] *)
Lemma cell_store_at_restored s0 s a :
  length (st_store s) = length (st_store s0) ->
  cell (store_at s a (cell s0 a)) a = cell s0 a.
Proof.
  intros HL. unfold cell, store_at; simpl.
  destruct (Nat.lt_ge_cases a (length (st_store s))) as [H|H].
  - apply nth_upd_nth_same, H.
  - rewrite (nth_overflow (st_store s0)) by lia.
    apply nth_overflow. rewrite length_upd_nth. lia.
Qed.

(* ---- assignment targets: a frame property ---- *)
Lemma assign_target_frame s t v s' :
  assign_target s t v = POk s' ->
  (forall b, b <> t_addr t -> cell s' b = cell s b)
  /\ length (st_store s') = length (st_store s)
  /\ st_env s' = st_env s /\ st_out s' = st_out s /\ st_defers s' = st_defers s.
Proof.
  unfold assign_target. destruct (t_ixs t) as [|i r].
  - intros H; inversion H; subst. repeat split; auto.
    + intros b Hb. apply cell_store_at_other. auto.
    + apply length_store_at.
  - destruct (nested_assoc _ _ _) as [nv| |]; simpl; intros H; inversion H; subst.
    repeat split; auto.
    + intros b Hb. apply cell_store_at_other. auto.
    + apply length_store_at.
Qed.

(* ---- restores ---- *)
Fixpoint addrs (rs : list deferred) : list nat :=
  match rs with
  | [] => []
  | DRestore a _ :: r => a :: addrs r
  | DCall _ :: r => addrs r
  end.

Definition touched (rs : list deferred) (b : nat) : bool := existsb (Nat.eqb b) (addrs rs).

Lemma apply_restores_app s r1 r2 :
  apply_restores s (r1 ++ r2) = apply_restores (apply_restores s r1) r2.
Proof. revert s; induction r1 as [|[a v|f] r IH]; intros s; simpl; auto. Qed.

Lemma apply_restores_length s rs :
  length (st_store (apply_restores s rs)) = length (st_store s).
Proof.
  revert s; induction rs as [|[a v|f] r IH]; intros s; simpl; auto.
  rewrite IH. apply length_store_at.
Qed.

Lemma touched_app rs1 rs2 b : touched (rs1 ++ rs2) b = touched rs1 b || touched rs2 b.
Proof.
  unfold touched. induction rs1 as [|[a v|f] r IH]; simpl; auto. rewrite IH. apply orb_assoc.
Qed.

(* The restores collected by a (possibly partly failed) list of assignments,
   applied most-recent-first to ANY later state of the same size — whatever the
   body did and however it was left — give every assigned variable the value it
   had before the first assignment and touch nothing else. *)
Lemma assign_all_restores : forall ts s vs acc s' rs st,
  assign_all s ts vs acc = (s', rs, st) ->
  exists news, rs = news ++ acc
    /\ length (st_store s') = length (st_store s)
    /\ (forall b, touched news b = false -> cell s' b = cell s b)
    /\ forall s3, length (st_store s3) = length (st_store s) ->
       forall b, cell (apply_restores s3 news) b = if touched news b then cell s b else cell s3 b.
Proof.
  induction ts as [|t ts IH]; intros s vs acc s' rs st H.
  - simpl in H. inversion H; subst. exists []. simpl. repeat split; auto.
  - destruct vs as [|v vs].
    + simpl in H. inversion H; subst. exists []. simpl. repeat split; auto.
    + simpl in H. destruct (assign_target s t v) as [s1| |] eqn:Ha.
      * destruct (assign_target_frame _ _ _ _ Ha) as (Hfr & HL1 & _).
        destruct (IH _ _ _ _ _ _ H) as (news & Hrs & HL & Hun & Hre).
        exists (news ++ [DRestore (t_addr t) (cell s (t_addr t))]).
        split; [rewrite <- app_assoc; exact Hrs|].
        split; [congruence|].
        split.
        { intros b Hb. rewrite touched_app in Hb. apply orb_false_iff in Hb as [Hb1 Hb2].
          unfold touched in Hb2; simpl in Hb2. rewrite orb_false_r in Hb2.
          apply Nat.eqb_neq in Hb2. rewrite (Hun b Hb1). apply Hfr. exact Hb2. }
        intros s3 HL3 b. rewrite apply_restores_app. simpl.
        rewrite touched_app. unfold touched at 2; simpl. rewrite orb_false_r.
        destruct (Nat.eqb b (t_addr t)) eqn:Eb.
        { apply Nat.eqb_eq in Eb; subst b. rewrite orb_true_r.
          apply cell_store_at_restored. rewrite apply_restores_length. exact HL3. }
        { apply Nat.eqb_neq in Eb. rewrite orb_false_r.
          rewrite cell_store_at_other by auto.
          rewrite (Hre s3) by congruence.
          destruct (touched news b); [apply Hfr; exact Eb|reflexivity]. }
      * inversion H; subst. exists []. simpl. repeat split; auto.
      * inversion H; subst. exists []. simpl. repeat split; auto.
Qed.

Lemma restores_undo_assignments : forall ts s vs s' rs st,
  assign_all s ts vs [] = (s', rs, st) ->
  forall s3, length (st_store s3) = length (st_store s) ->
  forall b, cell (apply_restores s3 rs) b = if touched rs b then cell s b else cell s3 b.
Proof.
  intros ts s vs s' rs st H. destruct (assign_all_restores _ _ _ _ _ _ _ H) as (news & Hrs & _ & _ & Hre).
  rewrite app_nil_r in Hrs. subst. exact Hre.
Qed.

(* ---- with ---- *)
Definition finished_o (o : outcome) : bool := match o with Done _ | Exc _ _ => true | _ => false end.

(* what `with` w does when it ends: the restores, most recent first, and their trace *)
Definition with_undo (w : nat) (rs : list deferred) (s : state) : state :=
  emit (apply_restores s rs) (rev (map (GWRestore w) rs)).

(* every assignment succeeded: whatever way the body is left (o' is any
   finished outcome: normal, exception, break, continue, return), the collected
   restores are applied, most recent first, and the outcome is the body's *)
Lemma with_restores_reverse run assigns body inp s s1 vs s3 o' :
  with_assigns run assigns (enter_with (set_wrest s [])) = (s1, Done vs) ->
  call_block run body (leave_with (set_wrest s1 (st_wrest s)) (g_wid (st_ghost s))) = (s3, o') ->
  finished_o o' = true ->
  step_cmd run (CWith assigns body) inp s
  = (with_undo (g_next (st_ghost s)) (st_wrest s1) s3, norm o').
Proof.
  intros Ha Hb Hf. unfold step_cmd. rewrite Ha. simpl. rewrite Hb.
  destruct o'; simpl in *; try discriminate; reflexivity.
Qed.

(* an assignment raised: the body is not run, the assignments made so far are undone *)
Lemma with_partial_assign_restored run assigns body inp s s1 k p :
  with_assigns run assigns (enter_with (set_wrest s [])) = (s1, Exc k p) ->
  step_cmd run (CWith assigns body) inp s
  = (with_undo (g_next (st_ghost s)) (st_wrest s1)
       (leave_with (set_wrest s1 (st_wrest s)) (g_wid (st_ghost s))), Exc k p).
Proof. intros Ha. unfold step_cmd. rewrite Ha. reflexivity. Qed.

(* ---- frames: tmp and defer ---- *)
Lemma store_emit s es : st_store (emit s es) = st_store s.
Proof. reflexivity. Qed.

Lemma run_defers_restores_only run fid : forall rs s first,
  (forall d, In d rs -> exists a v, d = DRestore a v) ->
  exists s', st_store s' = st_store (apply_restores s rs)
    /\ run_defers run fid rs s first
       = match first with None => ret s' [] | Some (k, p) => throw s' k p end.
Proof.
  induction rs as [|d r IH]; intros s first H; simpl.
  - exists s. split; [reflexivity|]. destruct first as [[k p]|]; reflexivity.
  - destruct (H d (or_introl eq_refl)) as (a & v & ->).
    destruct (IH (emit (store_at s a v) [GRun fid (DRestore a v)]) first) as (s' & Hs & Hr).
    { intros d' Hd'. apply H. right; exact Hd'. }
    exists s'. split; [|exact Hr]. rewrite Hs.
    assert (E : forall rs s1 s2, st_store s1 = st_store s2 ->
                st_store (apply_restores s1 rs) = st_store (apply_restores s2 rs)).
    { clear. induction rs as [|[a v|f] r IH]; intros s1 s2 E; simpl; auto.
      apply IH. unfold store_at; simpl. rewrite E. reflexivity. }
    apply E. reflexivity.
Qed.

(* run_defers consumes the frame's list front to back (most recent first),
   each entry exactly once: a restore is a store write, a callback is one call
   with no arguments whose exception is kept only if it is the first *)
Lemma defers_once_reverse run fid :
  (forall s first, run_defers run fid [] s first
     = match first with None => ret s [] | Some (k, p) => throw s k p end)
  /\ (forall a v r s first,
       run_defers run fid (DRestore a v :: r) s first
       = run_defers run fid r (emit (store_at s a v) [GRun fid (DRestore a v)]) first)
  /\ (forall f r s first,
       run_defers run fid (DCall f :: r) s first
       = settle (run (TCall f [] [] []) (emit s [GRun fid (DCall f)])) (fun s' o =>
           run_defers run fid r s'
             match first, o with
             | None, Exc k p => Some (k, p)
             | _, _ => first
             end)).
Proof. repeat split. Qed.

(* a deferred callback that succeeds does not alter the result: the remaining
   list is processed from the callback's final state with the same pending
   exception, exactly as if the entry had only had its side effects *)
Lemma defer_success_contributes_nothing run fid f r s first s' vs :
  run (TCall f [] [] []) (emit s [GRun fid (DCall f)]) = (s', Done vs) ->
  run_defers run fid (DCall f :: r) s first = run_defers run fid r s' first.
Proof.
  intros H. simpl. rewrite H. simpl. destruct first; reflexivity.
Qed.

(* ... so a frame whose callbacks all succeed ends with the body's own outcome *)
Lemma defers_all_succeed_keep_outcome run fid : forall ds s,
  (forall d, In d ds -> match d with
                        | DRestore _ _ => True
                        | DCall f => forall s0, exists s1 vs, run (TCall f [] [] []) s0 = (s1, Done vs)
                        end) ->
  exists s', run_defers run fid ds s None = ret s' [].
Proof.
  induction ds as [|[a v|f] r IH]; intros s H; simpl.
  - exists s; reflexivity.
  - apply IH. intros d Hd; apply H; right; exact Hd.
  - destruct (H (DCall f) (or_introl eq_refl) (emit s [GRun fid (DCall f)])) as (s1 & vs & E).
    rewrite E. simpl. apply IH. intros d Hd; apply H; right; exact Hd.
Qed.

(* registration order: `defer` and `tmp` push on the front of the frame's list *)
Lemma defer_registers_front run f s :
  st_infn s = true ->
  (exists a r o b c i, f = VClos a r o b c i) ->
  apply_builtin run BDefer [f] [] [] s
  = ret (emit (set_defers s (DCall f :: st_defers s)) [GReg (g_frame (st_ghost s)) (DCall f)]) [].
Proof. intros Hin (a & r & o & b & c & i & ->). simpl. rewrite Hin. reflexivity. Qed.

(* The closure call: however the body ends (o is any finished outcome), the
   frame's deferred list is run exactly once, after the body; the body's
   exception wins over any deferred exception; `fn` turns return into success. *)
Lemma closure_runs_defers_once run args rest opts body cenv isfn vals sopts s vals' obs s1 e1 s3 o :
  distribute rest (length args) vals = Some vals' ->
  bind_opts opts sopts = Some obs ->
  alloc_all s (combine args vals' ++ obs) cenv = (s1, e1) ->
  run (TChunk body) (enter_frame (set_frame s1 e1 [] true)) = (s3, o) ->
  finished_o o = true ->
  call_closure run args rest opts body cenv isfn vals sopts s
  = let o1 := match o with
               | Exc KReturn _ => if isfn then Done [] else o
               | _ => norm o
               end in
    let fid := g_next (st_ghost s1) in
    settle (run_defers run fid (st_defers s3) (set_defers s3 []) None) (fun s4 o' =>
      (leave_frame (set_frame s4 (st_env s) (st_defers s) (st_infn s)) fid (g_frame (st_ghost s)),
       match o1 with
       | Done _ => norm o'
       | _ => o1
       end)).
Proof.
  intros Hd Hb Ha Hr Hf. unfold call_closure. rewrite Hd, Hb, Ha. cbv zeta. rewrite Hr.
  destruct o; simpl in *; try discriminate; reflexivity.
Qed.

(* a frame that only used tmp: at the end of the closure — whatever the exit
   path — the store is the body's final store with the tmp restores applied *)
Lemma tmp_restores_at_fn_exit run args rest opts body cenv isfn vals sopts s vals' obs s1 e1 s3 o :
  distribute rest (length args) vals = Some vals' ->
  bind_opts opts sopts = Some obs ->
  alloc_all s (combine args vals' ++ obs) cenv = (s1, e1) ->
  run (TChunk body) (enter_frame (set_frame s1 e1 [] true)) = (s3, o) ->
  finished_o o = true ->
  (forall d, In d (st_defers s3) -> exists a v, d = DRestore a v) ->
  st_store (fst (call_closure run args rest opts body cenv isfn vals sopts s))
  = st_store (apply_restores s3 (st_defers s3)).
Proof.
  intros Hd Hb Ha Hr Hf Honly.
  rewrite (closure_runs_defers_once _ _ _ _ _ _ _ _ _ _ _ _ _ _ _ _ Hd Hb Ha Hr Hf).
  cbv zeta.
  destruct (run_defers_restores_only run (g_next (st_ghost s1)) (st_defers s3) (set_defers s3 []) None Honly)
    as (s' & Hs & ->).
  simpl. rewrite Hs.
  assert (E : forall s rs, st_store (apply_restores (set_defers s []) rs) = st_store (apply_restores s rs)).
  { intros s0 rs; revert s0; induction rs as [|[a v|f] r IH]; intros s0; simpl; auto.
    change (store_at (set_defers s0 []) a v) with (set_defers (store_at s0 a v) []). apply IH. }
  apply E.
Qed.

(* the body's exception masks every deferred exception *)
Lemma defer_exception_masked_by_body run args rest opts body cenv vals sopts s vals' obs s1 e1 s3 k p :
  distribute rest (length args) vals = Some vals' ->
  bind_opts opts sopts = Some obs ->
  alloc_all s (combine args vals' ++ obs) cenv = (s1, e1) ->
  run (TChunk body) (enter_frame (set_frame s1 e1 [] true)) = (s3, Exc k p) ->
  finished_o (snd (call_closure run args rest opts body cenv false vals sopts s)) = true ->
  snd (call_closure run args rest opts body cenv false vals sopts s) = Exc k p.
Proof.
  intros Hd Hb Ha Hr Hfin.
  rewrite (closure_runs_defers_once _ _ _ _ _ _ false _ _ _ _ _ _ _ _ _ Hd Hb Ha Hr eq_refl) in *.
  cbv zeta in *.
  destruct (run_defers run (g_next (st_ghost s1)) (st_defers s3) (set_defers s3 []) None) as [s4 [vs|k' p'| |]];
    simpl in *; try discriminate; destruct k; reflexivity.
Qed.
