(* C34 — the buffer-builder invariant: every line fits the width after every
   operation; renderView and truncateToHeight. *)
From verif Require Import lib.Base lib.Utf8 model.C34_width model.C34 proofs.C34_proofs.
Open Scope Z_scope.

Section BuilderProofs.
  Variable w : N -> Z.
  Hypothesis w_nonneg : forall r, 0 <= w r.
  Hypothesis w_le2 : forall r, w r <= 2.
  Hypothesis w_space : w 32%N = 1.
  (* the caret notation of a control character occupies at most two columns *)
  Hypothesis w_ctl : forall r, is_control r = true -> w 94%N + w (N.lxor r 64%N) <= 2.

  Notation cw := (cell_width w).
  Notation lw := (line_width w).

  Lemma make_cell_width r style : 0 <= cw (make_cell r style) <= 2.
  Proof.
    unfold make_cell, cell_width. destruct (is_control r) eqn:E; cbn [fst width_runes].
    - pose proof (w_ctl r E). pose proof (w_nonneg 94%N). pose proof (w_nonneg (N.lxor r 64%N)). lia.
    - pose proof (w_nonneg r). pose proof (w_le2 r). lia.
  Qed.

  Lemma space_cell_width : cw space_cell = 1.
  Proof. unfold cell_width, space_cell. cbn [fst width_runes]. lia. Qed.

  Lemma lw_nonneg l : 0 <= lw l.
  Proof.
    induction l as [|c r IH]; cbn [line_width]; [lia|].
    assert (0 <= cw c). { unfold cell_width. induction (fst c) as [|x xs IHx]; cbn [width_runes]; [lia|]. pose proof (w_nonneg x). lia. }
    lia.
  Qed.

  (* the invariant, for a fixed width W *)
  Definition Inv (W : Z) (b : bb) : Prop :=
    bWidth b = W
    /\ bLines b <> []
    /\ bCol b = lw (hd [] (bLines b))
    /\ Forall (fun l => lw l <= W) (bLines b)
    /\ 0 <= bIndent b /\ bIndent b + 2 <= W.

  Lemma Inv_new W : 2 <= W -> Inv W (new_bb W).
  Proof.
    intros HW. unfold Inv, new_bb. cbn. repeat split; try lia; try congruence.
    constructor; [cbn; lia | constructor].
  Qed.

  Lemma Inv_append_line W b : Inv W b -> Inv W (append_line b) /\ bCol (append_line b) = 0.
  Proof.
    intros (H1 & H2 & H3 & H4 & H5 & H6). unfold Inv, append_line. cbn.
    repeat split; try lia; try congruence. constructor; [cbn; lia | exact H4].
  Qed.

  Lemma Inv_append_cell W b c :
    Inv W b -> bCol b + cw c <= W ->
    Inv W (append_cell w b c) /\ bCol (append_cell w b c) = bCol b + cw c.
  Proof.
    intros (H1 & H2 & H3 & H4 & H5 & H6) Hfit. unfold Inv, append_cell.
    destruct (bLines b) as [|l r] eqn:E; [congruence|]. cbn.
    cbn in H3. inversion H4 as [|? ? Hl Hr]; subst.
    repeat split; try lia; try congruence. constructor; [cbn [line_width]; lia | exact Hr].
  Qed.

  Lemma Inv_append_spaces W n : forall b,
    Inv W b -> bCol b + Z.of_nat n <= W ->
    Inv W (append_spaces w b n) /\ bCol (append_spaces w b n) = bCol b + Z.of_nat n.
  Proof.
    induction n as [|n IH]; intros b Hb Hfit; cbn [append_spaces]; [split; [exact Hb | lia]|].
    destruct (Inv_append_cell W b space_cell Hb) as (Hb1 & Hc1); [rewrite space_cell_width; lia|].
    rewrite space_cell_width in Hc1.
    destruct (IH _ Hb1) as (Hb2 & Hc2); [lia|]. split; [exact Hb2 | lia].
  Qed.

  Lemma append_spaces_indent n : forall b, bIndent (append_spaces w b n) = bIndent b.
  Proof. induction n as [|n IH]; intros b; cbn [append_spaces]; [reflexivity|]. rewrite IH. reflexivity. Qed.

  Lemma Inv_newline W b : Inv W b -> Inv W (newline w b) /\ bCol (newline w b) = bIndent b.
  Proof.
    intros Hb. destruct (Inv_append_line W b Hb) as (Hb1 & Hc1).
    pose proof Hb as (_ & _ & _ & _ & Hi1 & Hi2).
    unfold newline. change (bIndent (append_line b)) with (bIndent b).
    destruct (bIndent b >? 0) eqn:E.
    - destruct (Inv_append_spaces W (Z.to_nat (bIndent b)) _ Hb1) as (Hb2 & Hc2); [lia|].
      split; [exact Hb2 | lia].
    - rewrite Z.gtb_ltb in E. apply Z.ltb_ge in E. split; [exact Hb1 | lia].
  Qed.

  Lemma newline_indent b : bIndent (newline w b) = bIndent b.
  Proof.
    unfold newline. destruct (bIndent (append_line b) >? 0); [rewrite append_spaces_indent|]; reflexivity.
  Qed.

  (* every operation keeps the indent and the eager flag unless it sets them;
     what matters below: WriteRuneSGR keeps the invariant *)
  Lemma Inv_write_rune W b r style : Inv W b -> Inv W (write_rune w b r style).
  Proof.
    intros Hb. unfold write_rune.
    destruct (r =? 10)%N; [apply Inv_newline; exact Hb|].
    pose proof (make_cell_width r style) as Hc.
    pose proof Hb as (HW & _ & _ & _ & Hi1 & Hi2).
    destruct (bCol b + cw (make_cell r style) >? bWidth b) eqn:E.
    - destruct (Inv_newline W b Hb) as (Hb1 & Hc1).
      apply Inv_append_cell; [exact Hb1 | lia].
    - rewrite Z.gtb_ltb in E. apply Z.ltb_ge in E.
      destruct (Inv_append_cell W b (make_cell r style) Hb) as (Hb1 & Hc1); [lia|].
      destruct ((bCol (append_cell w b (make_cell r style)) =? bWidth (append_cell w b (make_cell r style)))
                && bEager (append_cell w b (make_cell r style))); [apply Inv_newline|]; exact Hb1.
  Qed.

  Lemma Inv_write_string W rs style : forall b, Inv W b -> Inv W (write_string w b rs style).
  Proof.
    unfold write_string. induction rs as [|r rs IH]; intros b Hb; cbn [fold_left]; [exact Hb|].
    apply IH. apply Inv_write_rune. exact Hb.
  Qed.

  Lemma Inv_write_styled W t : forall b, Inv W b -> Inv W (write_styled w b t).
  Proof.
    unfold write_styled. induction t as [|sg t IH]; intros b Hb; cbn [fold_left]; [exact Hb|].
    apply IH. apply Inv_write_string. exact Hb.
  Qed.

  Lemma Inv_set_eager W b e : Inv W b -> Inv W (set_eager b e).
  Proof. intros H. exact H. Qed.
  Lemma Inv_set_dot_here W b : Inv W b -> Inv W (set_dot_here b).
  Proof. intros H. exact H. Qed.
  Lemma Inv_set_indent W b i : Inv W b -> 0 <= i -> i + 2 <= W -> Inv W (set_indent b i).
  Proof. intros (H1 & H2 & H3 & H4 & _) Hi1 Hi2. unfold Inv, set_indent. cbn. repeat split; assumption. Qed.

  Lemma Inv_col_nonneg W b : Inv W b -> 0 <= bCol b.
  Proof. intros (_ & _ & H3 & _). rewrite H3. apply lw_nonneg. Qed.

  (* indent_rule: the indentation renderView chooses satisfies indent + 2 <= width *)
  Lemma indent_rule W col : 2 <= W -> 0 <= col -> col * 2 < W -> col + 2 <= W.
  Proof. lia. Qed.

  Lemma Inv_render_view W v : 2 <= W -> Inv W (render_view w v (new_bb W)).
  Proof.
    intros HW. unfold render_view. cbv zeta.
    set (b1 := write_styled w (set_eager (new_bb W) true) (v_prompt v)).
    assert (H1 : Inv W b1) by (apply Inv_write_styled, Inv_set_eager, Inv_new; exact HW).
    set (b2 := if Nat.eqb (length (bLines b1)) 1 && (bCol b1 * 2 <? bWidth b1) then set_indent b1 (bCol b1) else b1).
    assert (H2 : Inv W b2).
    { subst b2. destruct (Nat.eqb (length (bLines b1)) 1 && (bCol b1 * 2 <? bWidth b1)) eqn:E; [|exact H1].
      apply andb_true_iff in E. destruct E as [_ E]. apply Z.ltb_lt in E.
      pose proof (Inv_col_nonneg W b1 H1). destruct H1 as (HW1 & Hrest). rewrite HW1 in E.
      apply Inv_set_indent; [split; [exact HW1 | exact Hrest] | lia | apply indent_rule; lia]. }
    set (b3 := write_styled w (set_dot_here (write_styled w b2 (v_before v))) (v_after v)).
    assert (H3 : Inv W b3) by (apply Inv_write_styled, Inv_set_dot_here, Inv_write_styled; exact H2).
    set (b4 := set_indent (set_eager b3 false) 0).
    assert (H4 : Inv W b4) by (apply Inv_set_indent; [apply Inv_set_eager; exact H3 | lia | lia]).
    set (b5 := if stext_width w (v_rprompt v) >? 0
               then (if bWidth b4 - bCol b4 - stext_width w (v_rprompt v) >=? 1
                     then write_styled w (write_string w b4 (repeat 32%N (Z.to_nat (bWidth b4 - bCol b4 - stext_width w (v_rprompt v)))) []) (v_rprompt v)
                     else b4)
               else b4).
    assert (H5 : Inv W b5).
    { subst b5. destruct (stext_width w (v_rprompt v) >? 0); [|exact H4].
      destruct (bWidth b4 - bCol b4 - stext_width w (v_rprompt v) >=? 1); [|exact H4].
      apply Inv_write_styled, Inv_write_string. exact H4. }
    clearbody b5. clear -H5 w_nonneg w_le2 w_space w_ctl.
    revert b5 H5. induction (v_tips v) as [|tip tips IH]; intros b H; cbn [fold_left]; [exact H|].
    apply IH. apply Inv_write_styled. apply Inv_newline. exact H.
  Qed.

  (* ---- from the invariant to the produced lines ---- *)
  Lemma lw_app a b : lw (a ++ b) = lw a + lw b.
  Proof. induction a as [|c r IH]; cbn [app line_width]; [lia | rewrite IH; lia]. Qed.

  Lemma lw_rev l : lw (rev l) = lw l.
  Proof. induction l as [|c r IH]; cbn [rev line_width]; [reflexivity|]. rewrite lw_app, IH. cbn [line_width]. lia. Qed.

  Lemma Inv_lines_fit W b : Inv W b -> Forall (fun l => lw l <= W) (bb_lines b).
  Proof.
    intros (_ & _ & _ & H & _). unfold bb_lines.
    apply Forall_rev. apply Forall_forall. intros l Hl. apply in_map_iff in Hl.
    destruct Hl as (l0 & <- & Hin). rewrite lw_rev. rewrite Forall_forall in H. apply H. exact Hin.
  Qed.

  Lemma lines_fit_spec ls W : lines_fit w ls W = true <-> Forall (fun l => lw l <= W) ls.
  Proof.
    unfold lines_fit. rewrite forallb_forall, Forall_forall.
    split; intros H l Hl; specialize (H l Hl); [apply Z.leb_le | apply Z.leb_le]; exact H.
  Qed.

  Lemma Forall_firstn' {A} (P : A -> Prop) l : forall n, Forall P l -> Forall P (firstn n l).
  Proof.
    induction l as [|x l IH]; intros n H; destruct n; cbn [firstn]; try constructor;
      inversion H; subst; auto.
  Qed.
  Lemma Forall_skipn' {A} (P : A -> Prop) l : forall n, Forall P l -> Forall P (skipn n l).
  Proof.
    induction l as [|x l IH]; intros n H; destruct n; cbn [skipn]; auto.
    inversion H; subst; auto.
  Qed.

  Lemma min_bound a b h : Z.of_nat a <= h -> Z.of_nat (Nat.min a b) <= h.
  Proof. intros H. pose proof (Nat.le_min_l a b). lia. Qed.

  (* truncateToHeight keeps the lines it shows and shows at most h of them *)
  Lemma truncate_lines f h P : 0 <= h ->
    Forall P (fLines f) ->
    Forall P (fLines (truncate_to_height f h))
    /\ Z.of_nat (length (fLines (truncate_to_height f h))) <= h.
  Proof.
    intros Hh HP. unfold truncate_to_height.
    destruct (Z.of_nat (length (fLines f)) <=? h) eqn:E1.
    - apply Z.leb_le in E1. split; [exact HP | exact E1].
    - apply Z.leb_gt in E1.
      destruct (fst (fDot f) <? h) eqn:E2; unfold trim_to_lines; cbn [fLines].
      + split; [apply Forall_firstn', Forall_skipn'; exact HP|].
        rewrite firstn_length, skipn_length. apply min_bound.
        destruct (0 <? 0); destruct (h >? Z.of_nat (length (fLines f))) eqn:E3;
          try (rewrite Z.gtb_ltb in E3; apply Z.ltb_lt in E3); lia.
      + apply Z.ltb_ge in E2.
        split; [apply Forall_firstn', Forall_skipn'; exact HP|].
        rewrite firstn_length, skipn_length. apply min_bound.
        destruct (fst (fDot f) - h + 1 <? 0) eqn:E3;
          destruct (fst (fDot f) + 1 >? Z.of_nat (length (fLines f))) eqn:E4;
          rewrite Z.gtb_ltb in E4;
          try apply Z.ltb_lt in E3; try apply Z.ltb_ge in E3;
          try apply Z.ltb_lt in E4; try apply Z.ltb_ge in E4; lia.
  Qed.

  (* lines_fit_width for the code area: rendered at a width >= 2 and a height >= 0,
     every line fits the width and there are at most height lines *)
  Lemma lines_fit_width v width height :
    2 <= width -> 0 <= height ->
    lines_fit w (fLines (render_codearea w v width height)) width = true
    /\ height_ok (fLines (render_codearea w v width height)) height = true.
  Proof.
    intros HW Hh. unfold render_codearea.
    pose proof (Inv_lines_fit width _ (Inv_render_view width v HW)) as Hfit.
    destruct (truncate_lines (to_buffer (render_view w v (new_bb width))) height _ Hh Hfit) as (H1 & H2).
    split; [apply lines_fit_spec; exact H1 | unfold height_ok; apply Z.leb_le; exact H2].
  Qed.
End BuilderProofs.
