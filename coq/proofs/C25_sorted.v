(* C25 — the insertion sort that executes the specification's Dirs yields a
   listing in descending order whenever no score is NaN: binary64 "not less
   than" (SpecFloat's SFcompare) is transitive on non-NaN values.  This
   discharges the premise [dirs_self_ok] of the acceptor's completeness. *)
From verif Require Import lib.Base model.C24_F64 model.C24_StoreSpec model.C24 model.C25
  proofs.C24_proofs proofs.C24_more proofs.C25_resmatch proofs.C25_proofs.
From Coq Require Import Floats.SpecFloat Sorting.Sorted Sorting.Permutation Lia.
Open Scope N_scope.

Ltac cmp_cases :=
  repeat match goal with
  | H : context [Z.compare ?x ?y] |- _ => destruct (Z.compare_spec x y); subst
  | |- context [Z.compare ?x ?y] => destruct (Z.compare_spec x y); subst
  | H : context [Pos.compare ?x ?y] |- _ => destruct (Pos.compare_spec x y); subst
  | |- context [Pos.compare ?x ?y] => destruct (Pos.compare_spec x y); subst
  end.

(* a < b excludes b < a (for all values, NaN included) *)
Lemma fltb_asym a b : fltb a b = true -> fltb b a = false.
Proof.
  unfold fltb, SFltb, SFcompare.
  destruct a as [sa|sa| |sa ma ea], b as [sb|sb| |sb mb eb];
    try destruct sa; try destruct sb; cbn; try congruence;
    change (Pos.compare_cont Eq) with Pos.compare; cmp_cases; cbn; try congruence; try lia.
Qed.

(* "not less than" is transitive on non-NaN values *)
Lemma fltb_false_trans a b c :
  a <> S754_nan -> b <> S754_nan -> c <> S754_nan ->
  fltb a b = false -> fltb b c = false -> fltb a c = false.
Proof.
  unfold fltb, SFltb, SFcompare. intros Ha Hb Hc.
  destruct a as [sa|sa| |sa ma ea]; try congruence;
  destruct b as [sb|sb| |sb mb eb]; try congruence;
  destruct c as [sc|sc| |sc mc ec]; try congruence;
    try destruct sa; try destruct sb; try destruct sc; cbn; try congruence;
    change (Pos.compare_cont Eq) with Pos.compare; cmp_cases; cbn; try congruence; try lia.
Qed.

Definition no_nan (l : list dir) : Prop := forall e, In e l -> snd e <> S754_nan.

Lemma ins_desc_in (x : dir) l e : In e (ins_desc x l) -> e = x \/ In e l.
Proof.
  induction l as [|y r IH]; cbn [ins_desc]; [intros [<-|[]]; left; reflexivity|].
  destruct (fltb (snd x) (snd y)).
  - intros [<-|H]; [right; left; reflexivity|]. destruct (IH H) as [->|H']; [left; reflexivity|right; right; exact H'].
  - intros [<-|H]; [left; reflexivity|right; exact H].
Qed.

Lemma ins_desc_sorted (x : dir) l : snd x <> S754_nan -> no_nan l ->
  desc_sortedb l = true -> desc_sortedb (ins_desc x l) = true.
Proof.
  intros Hx. induction l as [|y r IH]; intros Hn Hs; cbn [ins_desc]; [reflexivity|].
  cbn [desc_sortedb] in Hs. apply andb_true_iff in Hs as [Hy Hr].
  assert (Hny : snd y <> S754_nan) by (apply Hn; left; reflexivity).
  assert (Hnr : no_nan r) by (intros e He; apply Hn; right; exact He).
  rewrite forallb_forall in Hy.
  destruct (fltb (snd x) (snd y)) eqn:E; cbn [desc_sortedb]; apply andb_true_iff; split.
  - apply forallb_forall. intros b Hb. apply ins_desc_in in Hb as [->|Hb].
    + rewrite (fltb_asym _ _ E). reflexivity.
    + apply Hy, Hb.
  - apply IH; assumption.
  - apply forallb_forall. intros b [<-|Hb]; [rewrite E; reflexivity|].
    specialize (Hy b Hb). apply negb_true_iff in Hy. apply negb_true_iff.
    eapply fltb_false_trans; [exact Hx|exact Hny|apply Hnr, Hb|exact E|exact Hy].
  - cbn [desc_sortedb]. apply andb_true_iff. split; [apply forallb_forall, Hy|exact Hr].
Qed.

Lemma ins_desc_no_nan (x : dir) l : snd x <> S754_nan -> no_nan l -> no_nan (ins_desc x l).
Proof. intros Hx Hn e He. apply ins_desc_in in He as [->|He]; [exact Hx|apply Hn, He]. Qed.

Lemma isort_desc_sorted l : no_nan l -> desc_sortedb (isort_desc l) = true /\ no_nan (isort_desc l).
Proof.
  unfold isort_desc. induction l as [|x l IH]; intros Hn; cbn [fold_right]; [split; [reflexivity|intros e []]|].
  destruct IH as [IH1 IH2]; [intros e He; apply Hn; right; exact He|].
  assert (Hx : snd x <> S754_nan) by (apply Hn; left; reflexivity).
  split; [apply ins_desc_sorted; assumption|apply ins_desc_no_nan; assumption].
Qed.

(* a state without NaN scores shows a directory listing that is accepted as
   equal to itself *)
Lemma no_nan_dirs_self_ok st : no_nan (s_dirs st) -> dirs_self_ok st.
Proof.
  intros Hn. unfold dirs_self_ok, sp_dirs. cbn [res_match].
  rewrite (permb_complete _ _ (Permutation_refl _)). cbn [andb].
  apply isort_desc_sorted. intros e He. apply filter_In in He as [He _]. apply Hn, He.
Qed.

Lemma crash_ok_complete_nonan recovered :
  (forall tr, (returned tr <= recovered tr)%nat) ->
  (forall tr, (recovered tr <= started tr)%nat) ->
  forall cs ss h tr,
  R cs ss -> s_seq ss + N.of_nat (length h) < two63 ->
  is_prefix tr (ptrace cs h) ->
  no_nan (s_dirs (spec_exec isort_desc ss (firstn (recovered tr) h))) ->
  crash_ok ss h (acks tr) (dump_of (dump_c (reopen recovered cs h tr))) = true.
Proof.
  intros B1 B2 cs ss h tr HR Hb Hp Hn.
  apply (crash_ok_complete_partial recovered B1 B2 cs ss h tr HR Hb Hp).
  apply no_nan_dirs_self_ok, Hn.
Qed.
