(* C34 — re-decoding the strings Trim and Force return gives the characters the
   functions selected (consequence of the locality of utf8.DecodeRune), so the
   widths proved on chunk lists are the widths wcwidth.Of reports for the
   returned strings. *)
From verif Require Import lib.Base lib.Utf8 model.C34_width proofs.C34_proofs proofs.C34_utf8.
Open Scope Z_scope.

Lemma chunks_fuel_irrel f1 : forall f2 s,
  (length s <= f1)%nat -> (length s <= f2)%nat -> chunks_fuel f1 s = chunks_fuel f2 s.
Proof.
  induction f1 as [|f1 IH]; intros f2 s H1 H2.
  - destruct s; [destruct f2; reflexivity | cbn in H1; lia].
  - destruct s as [|c r] eqn:Es; [destruct f2; reflexivity|]. rewrite <- Es in *.
    assert (Hne : s <> []) by (rewrite Es; congruence).
    destruct f2 as [|f2]; [rewrite Es in H2; cbn in H2; lia|].
    cbn [chunks_fuel]. rewrite Es. rewrite <- Es.
    pose proof (decode_rune_width s Hne) as Hw.
    destruct (decode_rune s) as [rn k]. cbn [snd] in Hw.
    f_equal. apply IH; rewrite skipn_length; lia.
Qed.

Lemma chunks_cons s r k : s <> [] -> decode_rune s = (r, k) ->
  chunks s = (r, firstn k s) :: chunks (skipn k s).
Proof.
  intros Hne Hd. unfold chunks at 1. destruct s as [|c s'] eqn:Es; [congruence|]. rewrite <- Es in *.
  assert (Hl : length s = S (length s')) by (rewrite Es; reflexivity). rewrite Hl.
  cbn [chunks_fuel]. rewrite Es. rewrite <- Es. rewrite Hd. f_equal.
  pose proof (decode_rune_width s Hne) as Hw. rewrite Hd in Hw. cbn [snd] in Hw.
  apply chunks_fuel_irrel; rewrite skipn_length; lia.
Qed.

Lemma chunks_nil : chunks [] = [].
Proof. reflexivity. Qed.

Lemma firstn_plus {A} (k j : nat) (s : list A) :
  firstn (k + j) s = firstn k s ++ firstn j (skipn k s).
Proof.
  revert s. induction k as [|k IH]; intros s; [reflexivity|].
  destruct s as [|x s]; [cbn; rewrite firstn_nil; reflexivity|].
  cbn [Nat.add firstn skipn app]. rewrite IH. reflexivity.
Qed.

(* a chunk prefix of s is a byte prefix of s *)
Lemma chunk_prefix_bytes s n :
  bytes_of (firstn n (chunks s)) = firstn (length (bytes_of (firstn n (chunks s)))) s.
Proof.
  set (A := bytes_of (firstn n (chunks s))).
  assert (H : A ++ bytes_of (skipn n (chunks s)) = s).
  { unfold A. rewrite <- bytes_of_app, firstn_skipn. apply bytes_of_chunks. }
  transitivity (firstn (length A) (A ++ bytes_of (skipn n (chunks s)))); [|rewrite H; reflexivity].
  rewrite firstn_app, Nat.sub_diag, firstn_O, app_nil_r, firstn_all. reflexivity.
Qed.

Lemma chunks_prefix_stable n : forall s t, ascii_or_nil t ->
  chunks (bytes_of (firstn n (chunks s)) ++ t) = firstn n (chunks s) ++ chunks t.
Proof.
  induction n as [|n IH]; intros s t Ht; [reflexivity|].
  destruct s as [|c0 s0] eqn:Es; [reflexivity|]. rewrite <- Es in *.
  assert (Hne : s <> []) by (rewrite Es; congruence).
  destruct (decode_rune s) as [r k] eqn:Hd.
  pose proof (decode_rune_width s Hne) as Hw. rewrite Hd in Hw. cbn [snd] in Hw.
  rewrite (chunks_cons s r k Hne Hd). cbn [firstn bytes_of flat_map snd].
  fold (bytes_of (firstn n (chunks (skipn k s)))).
  set (P := bytes_of (firstn n (chunks (skipn k s)))).
  assert (HP : P = firstn (length P) (skipn k s)) by apply chunk_prefix_bytes.
  set (X := (firstn k s ++ P) ++ t).
  assert (HX : X = firstn (k + length P) s ++ t).
  { unfold X. rewrite firstn_plus, <- HP. reflexivity. }
  assert (Hlen : length (firstn k s) = k) by (rewrite firstn_length; lia).
  assert (HdX : decode_rune X = (r, k)).
  { rewrite HX. apply decode_stable; [exact Hd | lia | lia | exact Ht]. }
  assert (HXne : X <> []).
  { unfold X. destruct (firstn k s) eqn:E; [cbn in Hlen; lia | cbn; congruence]. }
  rewrite (chunks_cons X r k HXne HdX).
  assert (H1 : firstn k X = firstn k s).
  { unfold X. rewrite <- app_assoc, firstn_app, Hlen, Nat.sub_diag, firstn_O, app_nil_r.
    rewrite <- Hlen at 1. apply firstn_all. }
  assert (H2 : skipn k X = P ++ t).
  { unfold X. rewrite <- app_assoc, skipn_app, Hlen, Nat.sub_diag. cbn [skipn].
    rewrite <- Hlen at 1. rewrite skipn_all. reflexivity. }
  rewrite H1, H2. unfold P. rewrite IH by exact Ht. reflexivity.
Qed.

Lemma chunks_spaces p : chunks (repeat 32%N p) = repeat space_chunk p.
Proof.
  induction p as [|p IH]; [reflexivity|].
  cbn [repeat]. rewrite (chunks_cons (32%N :: repeat 32%N p) 32%N 1%nat); [|congruence|reflexivity].
  cbn [firstn skipn]. rewrite IH. reflexivity.
Qed.

Lemma bytes_of_spaces p : bytes_of (repeat space_chunk p) = repeat 32%N p.
Proof. induction p as [|p IH]; [reflexivity|]. cbn [repeat bytes_of flat_map]. fold (bytes_of (repeat space_chunk p)). rewrite IH. reflexivity. Qed.

Lemma ascii_spaces p : ascii_or_nil (repeat 32%N p).
Proof. destruct p; cbn; [exact I | lia]. Qed.

Section ReDecode.
  Variable w : N -> Z.
  Hypothesis w_nonneg : forall r, 0 <= w r.

  (* wcwidth.Of of the string Trim returns = the width of the characters it kept *)
  Lemma of_trim_bytes s n :
    of_bytes_w w (trim_bytes_w w s n) = width_chunks w (trim_chunks w (chunks s) 0 n).
  Proof.
    unfold of_bytes_w, trim_bytes_w.
    destruct (trim_chunks_spec w (chunks s) 0 n) as (k & _ & Ht & _). rewrite Ht.
    rewrite <- (app_nil_r (bytes_of (firstn k (chunks s)))).
    rewrite chunks_prefix_stable by exact I. rewrite chunks_nil, app_nil_r. reflexivity.
  Qed.

  Lemma trim_bytes_fits s n : 0 <= n -> of_bytes_w w (trim_bytes_w w s n) <= n.
  Proof.
    intros Hn. rewrite of_trim_bytes.
    destruct (trim_longest_prefix w w_nonneg (chunks s) n Hn) as (k & _ & _ & Hfit & _). exact Hfit.
  Qed.

  (* wcwidth.Of of the string Force returns is exactly the requested width *)
  Lemma force_bytes_exact s n : w 32%N = 1 -> 0 <= n -> of_bytes_w w (force_bytes_w w s n) = n.
  Proof.
    intros Hs Hn. unfold of_bytes_w, force_bytes_w.
    assert (E : chunks (bytes_of (force_chunks w (chunks s) n)) = force_chunks w (chunks s) n).
    { unfold force_chunks.
      destruct (trim_chunks_spec w (chunks s) 0 n) as (k & _ & Ht & _). rewrite Ht.
      rewrite bytes_of_app, bytes_of_spaces.
      rewrite chunks_prefix_stable by apply ascii_spaces. rewrite chunks_spaces. reflexivity. }
    rewrite E. apply force_exact_width; assumption.
  Qed.

  Lemma of_bytes_nonneg s : 0 <= of_bytes_w w s.
  Proof. apply width_chunks_nonneg. exact w_nonneg. Qed.
End ReDecode.
