(* C07 — association lists up to a key equivalence: lookup, membership,
   removal, key-uniqueness, and how they behave under permutation. *)
From Coq Require Import Permutation.
From verif Require Import lib.Base model.C07.
Open Scope nat_scope.

Section Lists.
Variables K V : Type.
Variable eqk : K -> K -> bool.
Hypothesis eqk_refl : forall a, eqk a a = true.
Hypothesis eqk_sym : forall a b, eqk a b = eqk b a.
Hypothesis eqk_trans : forall a b c, eqk a b = true -> eqk b c = true -> eqk a c = true.

Notation kv := (K * V)%type.
Notation mem := (s_mem eqk).
Notation rem := (s_remove eqk).
Notation look := (s_lookup eqk).

Fixpoint NoDupK (l : list kv) : Prop :=
  match l with
  | [] => True
  | (k, _) :: r => mem k r = false /\ NoDupK r
  end.

Lemma eqk_false_trans a b c : eqk a b = true -> eqk a c = false -> eqk b c = false.
Proof.
  intros H1 H2. destruct (eqk b c) eqn:E; [|reflexivity].
  rewrite (eqk_trans a b c H1 E) in H2. discriminate.
Qed.

Lemma mem_app k (a b : list kv) : mem k (a ++ b) = mem k a || mem k b.
Proof. apply existsb_app. Qed.

Lemma rem_app k (a b : list kv) : rem k (a ++ b) = rem k a ++ rem k b.
Proof. apply filter_app. Qed.

Lemma mem_false_iff k (l : list kv) : mem k l = false <-> (forall k' v, In (k', v) l -> eqk k k' = false).
Proof.
  induction l as [|[k0 v0] l IH]; simpl.
  - split; [intros _ ? ? []|reflexivity].
  - rewrite orb_false_iff, IH. split.
    + intros [H1 H2] k' v [E|I]; [inversion E; subst; exact H1|eapply H2; eauto].
    + intros H. split; [eapply H; left; reflexivity|intros; eapply H; right; eauto].
Qed.

Lemma mem_true_iff k (l : list kv) : mem k l = true <-> exists k' v, In (k', v) l /\ eqk k k' = true.
Proof.
  unfold s_mem. rewrite existsb_exists. split.
  - intros [[k' v] [I E]]. exists k', v. auto.
  - intros (k' & v & I & E). exists (k', v). auto.
Qed.

Lemma mem_eqk k k' (l : list kv) : eqk k k' = true -> mem k l = mem k' l.
Proof.
  intros E. induction l as [|[k0 v0] l IH]; simpl; [reflexivity|]. rewrite IH. f_equal.
  destruct (eqk k k0) eqn:E1.
  - symmetry. apply (eqk_trans k' k k0); [rewrite eqk_sym; exact E|exact E1].
  - symmetry. apply (eqk_false_trans k k' k0 E E1).
Qed.

Lemma rem_eqk k k' (l : list kv) : eqk k k' = true -> rem k l = rem k' l.
Proof.
  intros E. induction l as [|[k0 v0] l IH]; simpl; [reflexivity|]. rewrite IH.
  replace (eqk k' k0) with (eqk k k0); [reflexivity|].
  destruct (eqk k k0) eqn:E1.
  - symmetry. apply (eqk_trans k' k k0); [rewrite eqk_sym; exact E|exact E1].
  - symmetry. apply (eqk_false_trans k k' k0 E E1).
Qed.

Lemma rem_id k (l : list kv) : mem k l = false -> rem k l = l.
Proof.
  induction l as [|[k0 v0] l IH]; simpl; [reflexivity|]. intros H.
  apply orb_false_iff in H as [H1 H2]. rewrite H1. simpl. f_equal. apply IH. exact H2.
Qed.

Lemma mem_rem_same k (l : list kv) : mem k (rem k l) = false.
Proof.
  induction l as [|[k0 v0] l IH]; simpl; [reflexivity|].
  destruct (eqk k k0) eqn:E; simpl; [exact IH|]. rewrite E, IH. reflexivity.
Qed.

Lemma mem_rem_other k k' (l : list kv) : eqk k k' = false -> mem k' (rem k l) = mem k' l.
Proof.
  intros E. induction l as [|[k0 v0] l IH]; simpl; [reflexivity|].
  destruct (eqk k k0) eqn:E0; simpl.
  - rewrite IH. replace (eqk k' k0) with false; [reflexivity|]. symmetry.
    destruct (eqk k' k0) eqn:E1; [|reflexivity].
    rewrite (eqk_trans k k0 k' E0) in E; [discriminate|rewrite eqk_sym; exact E1].
  - rewrite IH. reflexivity.
Qed.

Lemma mem_rem_le k k' (l : list kv) : mem k' l = false -> mem k' (rem k l) = false.
Proof.
  rewrite !mem_false_iff. intros H k0 v I. unfold s_remove in I. apply filter_In in I as [I _]. eauto.
Qed.

Lemma NoDupK_rem k (l : list kv) : NoDupK l -> NoDupK (rem k l).
Proof.
  induction l as [|[k0 v0] l IH]; simpl; [auto|]. intros [H1 H2].
  destruct (eqk k k0); simpl; [auto|]. split; [apply mem_rem_le; exact H1|auto].
Qed.

Lemma NoDupK_app (a b : list kv) :
  NoDupK (a ++ b) <-> NoDupK a /\ NoDupK b /\ (forall k v, In (k, v) a -> mem k b = false).
Proof.
  induction a as [|[k0 v0] a IH].
  - simpl. split.
    + intros H. split; [exact I|]. split; [exact H|]. intros ? ? [].
    + intros (_ & H & _). exact H.
  - cbn [app NoDupK]. rewrite mem_app, orb_false_iff, IH. split.
    + intros [[H1 H2] (H3 & H4 & H5)]. split; [split; assumption|]. split; [assumption|].
      intros k v [E|I0]; [inversion E; subst; exact H2|eapply H5; exact I0].
    + intros ([H1 H2] & H3 & H4). split; [split; [exact H1|]|].
      * eapply H4. left; reflexivity.
      * split; [exact H2|]. split; [exact H3|]. intros k v I0. eapply H4. right. exact I0.
Qed.

(* --- permutation invariance --- *)
Lemma mem_perm k (l l' : list kv) : Permutation l l' -> mem k l = mem k l'.
Proof.
  intros P. destruct (mem k l') eqn:E.
  - apply mem_true_iff in E as (k' & v & I & E). apply mem_true_iff. exists k', v. split; [|exact E].
    eapply Permutation_in; [symmetry; exact P|exact I].
  - apply mem_false_iff. intros k' v I. apply (proj1 (mem_false_iff k l') E k' v).
    eapply Permutation_in; eauto.
Qed.

Lemma rem_perm k (l l' : list kv) : Permutation l l' -> Permutation (rem k l) (rem k l').
Proof.
  intros P. induction P; simpl.
  - constructor.
  - destruct x as [k0 v0]; simpl. destruct (eqk k k0); simpl; [exact IHP|constructor; exact IHP].
  - destruct x as [k0 v0], y as [k1 v1]; simpl.
    destruct (eqk k k0), (eqk k k1); simpl; try reflexivity. constructor.
  - etransitivity; eauto.
Qed.

Lemma NoDupK_perm (l l' : list kv) : Permutation l l' -> NoDupK l -> NoDupK l'.
Proof.
  intros P. induction P; simpl.
  - auto.
  - destruct x as [k0 v0]. intros [H1 H2]. split; [rewrite <- (mem_perm k0 l l' P); exact H1|auto].
  - destruct x as [k0 v0], y as [k1 v1]. simpl. intros [H1 [H2 H3]].
    apply orb_false_iff in H1 as [H1 H1']. repeat split; auto.
    apply orb_false_iff. split; [rewrite eqk_sym; exact H1|exact H2].
  - auto.
Qed.

(* --- lookup --- *)
Lemma look_none k (l : list kv) : look k l = None <-> mem k l = false.
Proof.
  induction l as [|[k0 v0] l IH]; simpl; [tauto|].
  destruct (eqk k k0); simpl; [split; discriminate|exact IH].
Qed.

Lemma look_some_in k v (l : list kv) : look k l = Some v -> exists k', In (k', v) l /\ eqk k k' = true.
Proof.
  induction l as [|[k0 v0] l IH]; simpl; [discriminate|].
  destruct (eqk k k0) eqn:E.
  - intros H; inversion H; subst. exists k0. auto.
  - intros H. destruct (IH H) as (k' & I & E'). exists k'. auto.
Qed.

Lemma look_in k k' v (l : list kv) : NoDupK l -> In (k', v) l -> eqk k k' = true -> look k l = Some v.
Proof.
  induction l as [|[k0 v0] l IH]; simpl; [intros _ []|].
  intros [H1 H2] [E|I] Ek.
  - inversion E; subst. rewrite Ek. reflexivity.
  - destruct (eqk k k0) eqn:E0; [|auto]. exfalso.
    assert (eqk k0 k' = true) by (apply (eqk_trans k0 k k'); [rewrite eqk_sym; exact E0|exact Ek]).
    rewrite (proj1 (mem_false_iff k0 l) H1 k' v I) in H. discriminate.
Qed.

Lemma look_perm k (l l' : list kv) : NoDupK l -> Permutation l l' -> look k l = look k l'.
Proof.
  intros ND P. destruct (look k l) as [v|] eqn:E.
  - apply look_some_in in E as (k' & I & E). symmetry.
    eapply look_in; [eapply NoDupK_perm; eauto|eapply Permutation_in; eauto|exact E].
  - symmetry. apply look_none. rewrite <- (mem_perm k l l' P). apply look_none. exact E.
Qed.

Lemma look_app k (a b : list kv) :
  look k (a ++ b) = match look k a with Some v => Some v | None => look k b end.
Proof.
  induction a as [|[k0 v0] a IH]; simpl; [reflexivity|]. destruct (eqk k k0); [reflexivity|exact IH].
Qed.

Lemma look_rem_same k (l : list kv) : look k (rem k l) = None.
Proof. apply look_none. apply mem_rem_same. Qed.

Lemma look_rem_other k k' (l : list kv) : eqk k k' = false -> look k' (rem k l) = look k' l.
Proof.
  intros E. induction l as [|[k0 v0] l IH]; simpl; [reflexivity|].
  destruct (eqk k k0) eqn:E0; simpl.
  - rewrite IH. replace (eqk k' k0) with false; [reflexivity|]. symmetry.
    destruct (eqk k' k0) eqn:E1; [|reflexivity].
    rewrite (eqk_trans k k0 k' E0) in E; [discriminate|rewrite eqk_sym; exact E1].
  - rewrite IH. reflexivity.
Qed.

Lemma mem_look k (l : list kv) : mem k l = match look k l with Some _ => true | None => false end.
Proof.
  induction l as [|[k0 v0] l IH]; simpl; [reflexivity|]. destruct (eqk k k0); [reflexivity|exact IH].
Qed.

(* --- sizes --- *)
Lemma rem_length k (l : list kv) : NoDupK l ->
  length (rem k l) + (if mem k l then 1 else 0) = length l.
Proof.
  induction l as [|[k0 v0] l IH]; simpl; [reflexivity|]. intros [H1 H2].
  destruct (eqk k k0) eqn:E; simpl.
  - rewrite rem_id; [lia|]. rewrite (mem_eqk k k0 l E). exact H1.
  - specialize (IH H2). lia.
Qed.

(* --- findIndex --- *)
Lemma findIndex_none k (l : list kv) : findIndex K V eqk k l = None <-> mem k l = false.
Proof.
  induction l as [|[k0 v0] l IH]; simpl; [tauto|].
  destruct (eqk k k0); simpl; [split; discriminate|].
  destruct (findIndex K V eqk k l); simpl in *; [split; [discriminate|]|tauto].
  intros H. apply IH in H. discriminate.
Qed.

Lemma findIndex_some k (l : list kv) i : findIndex K V eqk k l = Some i ->
  exists k' v', nth_error l i = Some (k', v') /\ eqk k k' = true
    /\ mem k (firstn i l) = false /\ look k l = Some v'.
Proof.
  revert i; induction l as [|[k0 v0] l IH]; simpl; intros i H; [discriminate|].
  destruct (eqk k k0) eqn:E.
  - inversion H; subst. exists k0, v0. simpl. auto.
  - destruct (findIndex K V eqk k l) as [j|]; [|discriminate]. inversion H; subst.
    destruct (IH j eq_refl) as (k' & v' & H1 & H2 & H3 & H4). exists k', v'. simpl. rewrite E, H3. auto.
Qed.

End Lists.
Arguments NoDupK {K V}.
