(* C13 — proofs, part 3b: string indices are byte offsets that must fall on
   character boundaries of the string's code point sequence. *)
From verif Require Import lib.Base lib.Utf8 model.C13 proofs.C13_convert_proofs proofs.C13_runes_proofs.
Open Scope N_scope.

(* ---------- general facts about decode_rune ---------- *)

(* decoding looks at no more bytes than it consumes, provided it consumed a
   complete encoding *)
Lemma decode_rune_app b0 cs rest r :
  decode_rune (b0 :: cs) = (r, length (b0 :: cs)) ->
  (b0 <? 128) = is_nil cs ->
  decode_rune (b0 :: cs ++ rest) = (r, length (b0 :: cs)).
Proof.
  intros H Hs.
  destruct cs as [|c1 [|c2 [|c3 [|c4 t]]]]; cbn [app length] in *; cbn [is_nil] in Hs;
    unfold decode_rune in *; rewrite Hs in *.
  - inversion H; subst. reflexivity.
  - destruct (first_info b0) as [[[sz lo] hi]|]; [|inversion H].
    destruct ((c1 <? lo) || (hi <? c1)); [inversion H|].
    destruct sz as [|[|[|sz]]]; try (inversion H; fail). exact H.
  - destruct (first_info b0) as [[[sz lo] hi]|]; [|inversion H].
    destruct ((c1 <? lo) || (hi <? c1)); [inversion H|].
    destruct sz as [|[|[|[|sz]]]]; try (inversion H; fail);
    destruct (negb (is_cont c2)); try (inversion H; fail); try exact H.
  - destruct (first_info b0) as [[[sz lo] hi]|]; [|inversion H].
    destruct ((c1 <? lo) || (hi <? c1)); [inversion H|].
    destruct sz as [|[|[|[|sz]]]]; try (inversion H; fail);
    destruct (negb (is_cont c2)); try (inversion H; fail);
    destruct (negb (is_cont c3)); try (inversion H; fail); try exact H.
  - destruct (first_info b0) as [[[sz lo] hi]|]; [|inversion H].
    destruct ((c1 <? lo) || (hi <? c1)); [inversion H|].
    destruct sz as [|[|[|[|sz]]]]; try (inversion H; fail);
    destruct (negb (is_cont c2)); try (inversion H; fail);
    destruct (negb (is_cont c3)); try (inversion H; fail); try exact H.
Qed.

(* a continuation byte cannot start a code point *)
Lemma decode_cont c t : is_cont c = true -> decode_rune (c :: t) = (RuneError, 1%nat).
Proof.
  unfold is_cont. rewrite andb_true_iff, !N.leb_le. intros [H1 H2].
  unfold decode_rune.
  replace (c <? 128) with false by (symmetry; apply N.ltb_ge; lia).
  unfold first_info. replace (c <? 194) with true by (symmetry; apply N.ltb_lt; lia). reflexivity.
Qed.

Lemma first_info_bounds b sz lo hi : first_info b = Some (sz, lo, hi) -> 128 <= lo /\ hi <= 191.
Proof.
  unfold first_info.
  repeat match goal with |- context [if ?c then _ else _] => destruct c end;
    intros E; inversion E; subst; lia.
Qed.

(* a decoding that consumed two or more bytes ended on a continuation byte *)
Lemma decode_all_consumed_last t r :
  decode_rune t = (r, length t) -> (2 <= length t)%nat -> is_cont (last t 0) = true.
Proof.
  intros H L.
  destruct t as [|b0 [|c1 [|c2 [|c3 [|c4 u]]]]]; cbn [length] in *; try lia;
    unfold decode_rune in H;
    (destruct (b0 <? 128); [inversion H|]);
    (destruct (first_info b0) as [[[sz lo] hi]|] eqn:FI; [|inversion H]);
    (destruct ((c1 <? lo) || (hi <? c1)) eqn:Rg; [inversion H|]).
  - (* two bytes: c1 is within [lo, hi] *)
    destruct (first_info_bounds _ _ _ _ FI) as [B1 B2].
    apply orb_false_iff in Rg as [R1 R2]. apply N.ltb_ge in R1, R2.
    cbn [last]. unfold is_cont. apply andb_true_iff. rewrite !N.leb_le. lia.
  - destruct sz as [|[|[|[|sz]]]]; try (inversion H; fail);
      (destruct (is_cont c2) eqn:C2; cbn [negb] in H; [|inversion H]); try (inversion H; fail).
    cbn [last]. exact C2.
  - destruct sz as [|[|[|[|sz]]]]; try (inversion H; fail);
      (destruct (is_cont c2) eqn:C2; cbn [negb] in H; [|inversion H]); try (inversion H; fail);
      (destruct (is_cont c3) eqn:C3; cbn [negb] in H; [|inversion H]); try (inversion H; fail);
      cbn [last]; exact C3.
  - destruct sz as [|[|[|[|sz]]]]; try (inversion H; fail);
      (destruct (is_cont c2) eqn:C2; cbn [negb] in H; [|inversion H]); try (inversion H; fail);
      (destruct (is_cont c3) eqn:C3; cbn [negb] in H; [|inversion H]); try (inversion H; fail).
Qed.

(* ---------- the facts about one valid code point, unpacked ---------- *)
Inductive enc_facts (r : N) : Prop :=
| EncFacts (b0 : N) (cs : bytes)
    (ef_eq : encode_rune r = b0 :: cs)
    (ef_dec : decode_rune (b0 :: cs) = (r, length (b0 :: cs)))
    (ef_start : rune_start b0 = true)
    (ef_cont : forallb is_cont cs = true)
    (ef_len : (length cs <= 3)%nat)
    (ef_ascii : (b0 <? 128) = is_nil cs)
    (ef_trunc : forall j, (0 < j < length (b0 :: cs))%nat ->
                decode_rune (firstn j (b0 :: cs)) = (RuneError, 1%nat)).

Lemma enc_facts_of r : valid_rune r = true -> enc_facts r.
Proof.
  intros V. pose proof (rune_ok_all r V) as H. unfold rune_ok in H.
  destruct (encode_rune r) as [|b0 cs] eqn:E.
  - rewrite andb_false_r in H. discriminate.
  - apply andb_true_iff in H as [H H3]. apply andb_true_iff in H as [H1 H2].
    apply andb_true_iff in H2 as [H2 H2d]. apply andb_true_iff in H2 as [H2 H2c].
    apply andb_true_iff in H2 as [H2a H2b].
    apply pair_eqb_eq in H1. apply Nat.leb_le in H2c. apply Bool.eqb_prop in H2d.
    apply (EncFacts r b0 cs E H1 H2a H2b H2c H2d).
    intros j Hj. cbn [forallb] in H3.
    apply andb_true_iff in H3 as [J1 H3]. apply andb_true_iff in H3 as [J2 H3].
    apply andb_true_iff in H3 as [J3 _].
    assert (j = 1 \/ j = 2 \/ j = 3)%nat as Cases by (cbn [length] in *; lia).
    destruct Cases as [->|[->| ->]].
    + apply orb_true_iff in J1 as [J|J]; [apply Nat.leb_le in J; lia|apply pair_eqb_eq in J; exact J].
    + apply orb_true_iff in J2 as [J|J]; [apply Nat.leb_le in J; lia|apply pair_eqb_eq in J; exact J].
    + apply orb_true_iff in J3 as [J|J]; [apply Nat.leb_le in J; lia|apply pair_eqb_eq in J; exact J].
Qed.

Lemma rune_len_pos r : valid_rune r = true -> (1 <= rune_len r)%nat.
Proof. intros V. destruct (enc_facts_of r V) as [b0 cs E]. unfold rune_len. rewrite E. cbn [length]. lia. Qed.

Lemma cont_ge_128 c : is_cont c = true -> (c <? 128) = false.
Proof. unfold is_cont. rewrite andb_true_iff, !N.leb_le. intros [H _]. apply N.ltb_ge. exact H. Qed.

Lemma cont_not_start c : is_cont c = true -> rune_start c = false.
Proof. unfold rune_start. intros ->. reflexivity. Qed.

(* ---------- starting at a boundary / inside a code point ---------- *)
Lemma starts_nonempty s : s <> [] ->
  startsWithRuneBoundary s = negb (decode_failed (decode_rune s)).
Proof. destruct s; [congruence|reflexivity]. Qed.

(* a complete encoding of a valid code point is never taken for a decoding
   failure: the failure value is (RuneError, 1), U+FFFD itself decodes with size 3 *)
Lemma rune_not_failed r : valid_rune r = true -> decode_failed (r, rune_len r) = false.
Proof.
  intros V. destruct (enc_facts_of r V) as [b0 cs E D _ _ _ A _].
  unfold decode_failed, rune_len. rewrite E. cbn [fst snd].
  destruct cs as [|c cs'].
  - cbn [is_nil] in A. unfold decode_rune in D. rewrite A in D. inversion D; subst.
    apply N.ltb_lt in A.
    replace (r =? RuneError) with false by (symmetry; apply N.eqb_neq; unfold RuneError; lia).
    reflexivity.
  - cbn [length Nat.eqb]. apply andb_false_r.
Qed.

Lemma decode_at_rune r rest : valid_rune r = true ->
  decode_rune (encode_rune r ++ rest) = (r, rune_len r).
Proof.
  intros V. destruct (enc_facts_of r V) as [b0 cs E D _ _ _ A _].
  unfold rune_len. rewrite E. cbn [app]. apply decode_rune_app; assumption.
Qed.

Lemma skipn_inside_cont r j : valid_rune r = true -> (0 < j < rune_len r)%nat ->
  exists c t, skipn j (encode_rune r) = c :: t /\ is_cont c = true.
Proof.
  intros V Hj. destruct (enc_facts_of r V) as [b0 cs E _ _ C _ _ _].
  unfold rune_len in Hj. rewrite E in *. cbn [length] in Hj.
  destruct j as [|j]; [lia|]. cbn [skipn].
  assert (j < length cs)%nat as Hj' by lia. clear Hj E.
  revert j Hj'. induction cs as [|c cs IH]; intros j Hj; cbn [length] in Hj; [lia|].
  cbn [forallb] in C. apply andb_true_iff in C as [C1 C2].
  destruct j as [|j]; [exists c, cs; split; [reflexivity|assumption]|].
  cbn [skipn]. apply IH; [assumption|lia].
Qed.

(* ---------- ending at a boundary / inside a code point ---------- *)
Lemma ends_nonempty s : s <> [] ->
  endsWithRuneBoundary s = negb (decode_failed (decode_last s)).
Proof. destruct s; [congruence|reflexivity]. Qed.

Lemma app_cons_not_nil {A} (p : list A) x t : p ++ x :: t <> [].
Proof. destruct p; discriminate. Qed.

Lemma scan_back_suffix k : forall rest acc, exists x, scan_back k rest acc = x ++ acc.
Proof.
  induction k as [|k IH]; intros rest acc; cbn [scan_back].
  - destruct rest as [|b rest']; [exists []|exists [b]]; reflexivity.
  - destruct rest as [|b rest']; [exists []; reflexivity|].
    destruct (rune_start b); [exists [b]; reflexivity|].
    destruct (IH rest' (b :: acc)) as [x Hx]. exists (x ++ [b]). rewrite Hx, <- app_assoc. reflexivity.
Qed.

Lemma ends_at_rune pre r : valid_rune r = true ->
  endsWithRuneBoundary (pre ++ encode_rune r) = true.
Proof.
  intros V. pose proof (rune_not_failed r V) as NF. unfold rune_len in NF.
  destruct (enc_facts_of r V) as [b0 cs E D S C L A _].
  rewrite E in *. rewrite ends_nonempty by apply app_cons_not_nil.
  unfold decode_last. rewrite rev_app_distr.
  destruct cs as [|c1 [|c2 [|c3 [|c4 t]]]]; cbn [length] in L; try lia; cbn [is_nil] in A; cbn [length] in NF.
  - simpl rev. cbn [app]. unfold RuneSelf. rewrite A.
    unfold decode_rune in D. rewrite A in D. inversion D; subst. rewrite NF. reflexivity.
  - cbn [forallb] in C. apply andb_true_iff in C as [C1 _].
    simpl rev. cbn [app]. unfold RuneSelf. rewrite (cont_ge_128 _ C1).
    cbn [scan_back]. rewrite S. rewrite D. cbn [length]. rewrite Nat.eqb_refl, NF. reflexivity.
  - cbn [forallb] in C. apply andb_true_iff in C as [C1 C]. apply andb_true_iff in C as [C2 _].
    simpl rev. cbn [app]. unfold RuneSelf. rewrite (cont_ge_128 _ C2).
    cbn [scan_back]. rewrite (cont_not_start _ C1), S. rewrite D. cbn [length].
    rewrite Nat.eqb_refl, NF. reflexivity.
  - cbn [forallb] in C. apply andb_true_iff in C as [C1 C]. apply andb_true_iff in C as [C2 C].
    apply andb_true_iff in C as [C3 _].
    simpl rev. cbn [app]. unfold RuneSelf. rewrite (cont_ge_128 _ C3).
    cbn [scan_back]. rewrite (cont_not_start _ C2), (cont_not_start _ C1), S. rewrite D. cbn [length].
    rewrite Nat.eqb_refl, NF. reflexivity.
Qed.

Lemma ends_inside_rune pre r j : valid_rune r = true -> (0 < j < rune_len r)%nat ->
  endsWithRuneBoundary (pre ++ firstn j (encode_rune r)) = false.
Proof.
  intros V Hj. destruct (enc_facts_of r V) as [b0 cs E D S C L A T].
  unfold rune_len in Hj. rewrite E in *.
  assert ((b0 <? 128) = false) as B0.
  { rewrite A. destruct cs; [cbn [length] in Hj; lia|reflexivity]. }
  assert (j = 1 \/ j = 2 \/ j = 3)%nat as Cases by (cbn [length] in *; lia).
  destruct Cases as [->|[->| ->]].
  - (* only the lead byte is present *)
    cbn [firstn]. rewrite ends_nonempty by apply app_cons_not_nil.
    unfold decode_last. rewrite rev_app_distr. simpl rev. cbn [app]. unfold RuneSelf. rewrite B0.
    destruct (scan_back_suffix 3 (rev pre) [b0]) as [x Hx]. rewrite Hx.
    destruct (decode_rune (x ++ [b0])) as [r' w] eqn:Dx.
    destruct (Nat.eqb w (length (x ++ [b0]))) eqn:W; [|reflexivity].
    apply Nat.eqb_eq in W. subst w.
    destruct x as [|x0 x'].
    + cbn [app] in Dx. pose proof (T 1%nat Hj) as T1. cbn [firstn] in T1.
      rewrite T1 in Dx. inversion Dx. reflexivity.
    + exfalso. pose proof (decode_all_consumed_last _ _ Dx) as Lst.
      rewrite last_last in Lst.
      assert (is_cont b0 = true) as Cb by (apply Lst; rewrite app_length; cbn [length]; lia).
      rewrite (cont_not_start _ Cb) in S. discriminate.
  - destruct cs as [|c1 cs']; [cbn [length] in Hj; lia|].
    cbn [forallb] in C. apply andb_true_iff in C as [C1 _].
    cbn [firstn]. rewrite ends_nonempty by apply app_cons_not_nil.
    unfold decode_last. rewrite rev_app_distr. simpl rev. cbn [app]. unfold RuneSelf.
    rewrite (cont_ge_128 _ C1). cbn [scan_back]. rewrite S.
    pose proof (T 2%nat Hj) as T2. cbn [firstn] in T2. rewrite T2. reflexivity.
  - destruct cs as [|c1 [|c2 cs']]; [cbn [length] in Hj; lia|cbn [length] in Hj; lia|].
    cbn [forallb] in C. apply andb_true_iff in C as [C1 C]. apply andb_true_iff in C as [C2 _].
    cbn [firstn]. rewrite ends_nonempty by apply app_cons_not_nil.
    unfold decode_last. rewrite rev_app_distr. simpl rev. cbn [app]. unfold RuneSelf.
    rewrite (cont_ge_128 _ C2). cbn [scan_back]. rewrite (cont_not_start _ C1), S.
    pose proof (T 3%nat Hj) as T3. cbn [firstn] in T3. rewrite T3. reflexivity.
Qed.

(* ---------- boundaries of a code point sequence ---------- *)
Open Scope Z_scope.

Lemma bfrom_shift rs : forall off k,
  existsb (Z.eqb k) (boundaries_from rs off) = existsb (Z.eqb (k - off)) (boundaries_from rs 0).
Proof.
  induction rs as [|r rest IH]; intros off k; cbn [boundaries_from existsb].
  - rewrite !orb_false_r. destruct (Z.eqb_spec k off), (Z.eqb_spec (k - off) 0); try reflexivity; lia.
  - rewrite (IH (off + Z.of_nat (rune_len r)) k), (IH (0 + Z.of_nat (rune_len r)) (k - off)).
    replace (k - off - (0 + Z.of_nat (rune_len r))) with (k - (off + Z.of_nat (rune_len r))) by lia.
    f_equal. destruct (Z.eqb_spec k off), (Z.eqb_spec (k - off) 0); try reflexivity; lia.
Qed.

Lemma is_boundary_cons r rest k :
  is_boundary (r :: rest) k = (k =? 0) || is_boundary rest (k - Z.of_nat (rune_len r)).
Proof.
  unfold is_boundary, boundaries. cbn [boundaries_from existsb].
  rewrite (bfrom_shift rest (0 + Z.of_nat (rune_len r)) k). reflexivity.
Qed.

Lemma is_boundary_neg rs : forall k, k < 0 -> is_boundary rs k = false.
Proof.
  induction rs as [|r rest IH]; intros k Hk.
  - unfold is_boundary, boundaries. cbn. destruct (Z.eqb_spec k 0); [lia|reflexivity].
  - rewrite is_boundary_cons. rewrite IH by lia. destruct (Z.eqb_spec k 0); [lia|reflexivity].
Qed.

Lemma is_boundary_nil k : is_boundary [] k = (k =? 0).
Proof. unfold is_boundary, boundaries. cbn. apply orb_false_r. Qed.

(* every code point of the text is valid (U+FFFD included) *)
Definition good (rs : list N) : Prop := forallb valid_rune rs = true.

Lemma good_cons r rest : good (r :: rest) -> valid_rune r = true /\ good rest.
Proof. unfold good. cbn [forallb]. intros G. apply andb_true_iff in G. exact G. Qed.

Lemma encode_all_cons r rest : encode_all (r :: rest) = encode_rune r ++ encode_all rest.
Proof. reflexivity. Qed.

(* a slice may start exactly at the character boundaries *)
Lemma starts_iff_boundary rs : good rs -> forall k, (k <= length (encode_all rs))%nat ->
  startsWithRuneBoundary (skipn k (encode_all rs)) = is_boundary rs (Z.of_nat k).
Proof.
  induction rs as [|r rest IH]; intros G k Hk.
  - cbn in Hk. assert (k = 0)%nat by lia. subst. reflexivity.
  - destruct (good_cons _ _ G) as (V & G').
    rewrite encode_all_cons in *. rewrite app_length in Hk. fold (rune_len r) in Hk.
    pose proof (rune_len_pos r V) as Lp.
    rewrite is_boundary_cons.
    destruct (Nat.eq_dec k 0) as [->|Nz].
    + cbn [skipn]. change (Z.of_nat 0 =? 0) with true. cbn [orb].
      destruct (enc_facts_of r V) as [b0 cs E _ _ _ _ _ _].
      rewrite starts_nonempty by (rewrite E; discriminate).
      rewrite decode_at_rune by assumption. rewrite rune_not_failed by assumption. reflexivity.
    + replace (Z.of_nat k =? 0) with false by (symmetry; apply Z.eqb_neq; lia). cbn [orb].
      destruct (Nat.lt_ge_cases k (rune_len r)) as [Lt|Ge].
      * rewrite is_boundary_neg by lia.
        rewrite skipn_app. destruct (skipn_inside_cont r k V) as (c & t & Sk & Cc); [lia|].
        rewrite Sk. cbn [app]. rewrite starts_nonempty by discriminate.
        rewrite decode_cont by assumption. reflexivity.
      * rewrite skipn_app. rewrite skipn_all2 by (unfold rune_len in Ge; lia). cbn [app].
        fold (rune_len r). rewrite IH by (assumption || lia).
        f_equal. lia.
Qed.

(* a slice may end exactly at the character boundaries *)
Lemma ends_iff_boundary rs : good rs -> forall pre k, (0 < k <= length (encode_all rs))%nat ->
  endsWithRuneBoundary (pre ++ firstn k (encode_all rs)) = is_boundary rs (Z.of_nat k).
Proof.
  induction rs as [|r rest IH]; intros G pre k Hk.
  - cbn in Hk. lia.
  - destruct (good_cons _ _ G) as (V & G').
    rewrite encode_all_cons in *. rewrite app_length in Hk. fold (rune_len r) in Hk.
    pose proof (rune_len_pos r V) as Lp.
    rewrite is_boundary_cons.
    replace (Z.of_nat k =? 0) with false by (symmetry; apply Z.eqb_neq; lia). cbn [orb].
    rewrite firstn_app. fold (rune_len r).
    destruct (Nat.lt_ge_cases k (rune_len r)) as [Lt|Ge].
    + rewrite is_boundary_neg by lia.
      replace (k - rune_len r)%nat with 0%nat by lia. cbn [firstn]. rewrite app_nil_r.
      apply ends_inside_rune; [assumption|lia].
    + rewrite firstn_all2 by (unfold rune_len in Ge; lia).
      destruct (Nat.eq_dec k (rune_len r)) as [->|Ne].
      * rewrite Nat.sub_diag. cbn [firstn]. rewrite app_nil_r.
        rewrite Z.sub_diag. rewrite ends_at_rune by assumption.
        symmetry. destruct rest; [reflexivity|rewrite is_boundary_cons; reflexivity].
      * rewrite app_assoc. rewrite IH by (assumption || lia). f_equal. lia.
Qed.

(* a single index must be the offset at which a code point starts *)
Lemma decode_at_offset rs : good rs -> forall k, (k < length (encode_all rs))%nat ->
  match rune_at rs (Z.of_nat k) with
  | Some r => decode_rune (skipn k (encode_all rs)) = (r, rune_len r) /\ valid_rune r = true
  | None => decode_rune (skipn k (encode_all rs)) = (RuneError, 1%nat)
  end.
Proof.
  induction rs as [|r rest IH]; intros G k Hk.
  - cbn in Hk. lia.
  - destruct (good_cons _ _ G) as (V & G').
    rewrite encode_all_cons in *. rewrite app_length in Hk. fold (rune_len r) in Hk.
    pose proof (rune_len_pos r V) as Lp. cbn [rune_at].
    destruct (Nat.eq_dec k 0) as [->|Nz].
    + change (Z.of_nat 0 =? 0) with true. cbn [skipn]. split; [apply decode_at_rune; assumption|assumption].
    + replace (Z.of_nat k =? 0) with false by (symmetry; apply Z.eqb_neq; lia).
      replace (Z.of_nat k <? 0) with false by (symmetry; apply Z.ltb_ge; lia).
      rewrite skipn_app. fold (rune_len r).
      destruct (Nat.lt_ge_cases k (rune_len r)) as [Lt|Ge].
      * destruct (skipn_inside_cont r k V) as (c & t & Sk & Cc); [lia|].
        rewrite Sk. cbn [app]. rewrite decode_cont by assumption.
        assert (forall rs' z, z < 0 -> rune_at rs' z = None) as Neg.
        { intros [|r' rs'] z Hz; [reflexivity|]. cbn [rune_at].
          replace (z =? 0) with false by (symmetry; apply Z.eqb_neq; lia).
          replace (z <? 0) with true by (symmetry; apply Z.ltb_lt; lia). reflexivity. }
        rewrite Neg by lia. reflexivity.
      * rewrite skipn_all2 by (unfold rune_len in Ge; lia). cbn [app].
        replace (Z.of_nat k - Z.of_nat (rune_len r)) with (Z.of_nat (k - rune_len r)) by lia.
        apply IH; [assumption|lia].
Qed.

(* ---------- the string boundary theorem (every valid UTF-8 text) ---------- *)
Lemma zlen_nat {A} (l : list A) k : 0 <= k <= zlen l -> (Z.to_nat k <= length l)%nat.
Proof. unfold zlen. lia. Qed.

Theorem string_index_boundary : forall rs raw,
  good rs -> zlen (encode_all rs) <= MaxInt ->
  let s := encode_all rs in
  match ref_string_range rs s raw with
  | Some (lo, hi) => convertStringIndex raw s = Ok (lo, hi)
  | None => exists e, convertStringIndex raw s = Err e
  end.
Proof.
  intros rs raw G Hlen. cbv zeta.
  assert (in_int_range (zlen (encode_all rs))) as Hn by (unfold in_int_range, zlen in *; lia).
  pose proof (convert_matches_ref (zlen (encode_all rs)) raw Hn) as C.
  unfold ref_string_range, convertStringIndex.
  destruct (ref_index (zlen (encode_all rs)) raw) as [k|lo hi|] eqn:R.
  - destruct (to_ref_index _ _ C) as [u E]. rewrite E. cbn [bind].
    pose proof (ref_index_index_range _ _ _ R) as Rg. unfold zlen in Rg.
    pose proof (decode_at_offset rs G (Z.to_nat k)) as D.
    rewrite Z2Nat.id in D by lia.
    destruct (rune_at rs k) as [r|].
    + destruct D as [D Vr]; [lia|]. rewrite D. cbv zeta.
      rewrite rune_not_failed by assumption. reflexivity.
    + rewrite D by lia. eexists. reflexivity.
  - rewrite (to_ref_slice _ _ _ C). cbn [bind].
    destruct (ref_index_slice_range (zlen (encode_all rs)) raw lo hi) as [H1 H2]; [unfold zlen; lia|assumption|].
    unfold zlen in H2.
    rewrite (starts_iff_boundary rs G (Z.to_nat lo)) by lia.
    rewrite Z2Nat.id by lia.
    destruct (Z.eq_dec hi 0) as [->|Hz].
    + assert (lo = 0) by lia. subst lo. cbn [Z.to_nat firstn endsWithRuneBoundary].
      replace (is_boundary rs 0) with true by (destruct rs; reflexivity).
      reflexivity.
    + pose proof (ends_iff_boundary rs G [] (Z.to_nat hi)) as EB. cbn [app] in EB.
      rewrite EB by lia. rewrite Z2Nat.id by lia.
      destruct (is_boundary rs lo && is_boundary rs hi); [reflexivity|eexists; reflexivity].
  - destruct (to_ref_error _ C) as [e E]. rewrite E. eexists. reflexivity.
Qed.

(* indexing and replacing in a string, as consequences *)
Theorem index_string_ref : forall rs raw,
  good rs -> zlen (encode_all rs) <= MaxInt ->
  let s := encode_all rs in
  match ref_string_range rs s raw with
  | Some (lo, hi) => indexString s raw = Ok (VStr (firstn (Z.to_nat (hi - lo)) (skipn (Z.to_nat lo) s)))
  | None => exists e, indexString s raw = Err e
  end.
Proof.
  intros rs raw G Hlen s. pose proof (string_index_boundary rs raw G Hlen) as H.
  cbv zeta in H. fold s in H. unfold indexString.
  destruct (ref_string_range rs s raw) as [[lo hi]|].
  - rewrite H. reflexivity.
  - destruct H as [e E]. rewrite E. eexists. reflexivity.
Qed.

Theorem assoc_string_frame : forall rs raw rp,
  good rs -> zlen (encode_all rs) <= MaxInt ->
  let s := encode_all rs in
  match ref_string_range rs s raw with
  | Some (lo, hi) =>
    assocString s raw (Some rp) = Ok (VStr (firstn (Z.to_nat lo) s ++ rp ++ skipn (Z.to_nat hi) s))
  | None => exists e, assocString s raw (Some rp) = Err e
  end.
Proof.
  intros rs raw rp G Hlen s. pose proof (string_index_boundary rs raw G Hlen) as H.
  cbv zeta in H. fold s in H. unfold assocString.
  destruct (ref_string_range rs s raw) as [[lo hi]|].
  - rewrite H. reflexivity.
  - destruct H as [e E]. rewrite E. eexists. reflexivity.
Qed.
